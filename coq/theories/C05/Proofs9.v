(* C05/Proofs9.v — the passes that only move bookkeeping (inputs <-> initializers, subgraph initializers
   to the main graph) preserve what the model computes; signature lemmas (main-graph inputs and
   non-initializer inputs) for the rewriting passes. *)
From Coq Require Import ZArith NArith List Bool Lia Permutation.
From IRV Require Import Base.Exn Gen.C05Gen C05.Model C05.Proofs C05.Proofs2 C05.Proofs3 C05.Proofs4 C05.Proofs5.
Import ListNotations. Open Scope N_scope.

(* ---------------------------------------------------------------- lists *)
Lemma filter_none {A} (p : A -> bool) l : (forall x, In x l -> p x = false) -> filter p l = [].
Proof.
  induction l as [|x l IH]; simpl; intros H; [reflexivity|].
  rewrite (H x (or_introl eq_refl)). apply IH. intros y Hy. apply H. right. exact Hy.
Qed.
Lemma filter_all {A} (p : A -> bool) l : (forall x, In x l -> p x = true) -> filter p l = l.
Proof.
  induction l as [|x l IH]; simpl; intros H; [reflexivity|].
  rewrite (H x (or_introl eq_refl)). f_equal. apply IH. intros y Hy. apply H. right. exact Hy.
Qed.
Lemma filter_idem {A} (p : A -> bool) l : filter p (filter p l) = filter p l.
Proof. apply filter_all. intros x Hx. apply filter_In in Hx. tauto. Qed.

Lemma filter_partition_perm {A} (q1 q2 : A -> bool) l :
  (forall x, q2 x = negb (q1 x)) -> Permutation l (filter q2 l ++ filter q1 l).
Proof.
  intros Hq. induction l as [|x l IH]; simpl; [constructor|]. rewrite (Hq x).
  destruct (q1 x); simpl; [apply Permutation_cons_app; exact IH | apply perm_skip; exact IH].
Qed.

Lemma alookup_perm {A} (l l' : list (N * A)) k : Permutation l l' -> NoDup (map fst l) -> alookup l' k = alookup l k.
Proof.
  intros HP. induction HP as [|x l l' HP IH|x y l|l l' l'' HP1 IH1 HP2 IH2]; intros Hnd.
  - reflexivity.
  - destruct x as [kx ax]. simpl in *. inversion Hnd; subst. destruct (N.eqb kx k); [reflexivity | apply IH; assumption].
  - destruct x as [kx ax], y as [ky ay]. simpl in *. inversion Hnd as [|? ? Hn1 Hn2]; subst.
    destruct (N.eqb kx k) eqn:Ex, (N.eqb ky k) eqn:Ey; try reflexivity.
    apply N.eqb_eq in Ex. apply N.eqb_eq in Ey. exfalso. apply Hn1. left. congruence.
  - rewrite IH2, IH1; auto. eapply Permutation_NoDup; [|exact Hnd]. apply Permutation_map. exact HP1.
Qed.

(* the three tables of a model, per component *)
Lemma flat_graphs {X} (proj : graph -> list X) m :
  flat_map proj (graphs_of m) = proj (m_main m) ++ flat_map proj (map snd (m_subs m)) ++ flat_map proj (map f_body (m_funcs m)).
Proof. unfold graphs_of. simpl. rewrite flat_map_app. reflexivity. Qed.

Lemma main_in_formal m v : In v (g_ins (m_main m)) -> formal_of m v.
Proof. intros H. unfold formal_of, all_formals, graphs_of. simpl. apply in_app_iff. left. exact H. Qed.
Lemma main_init_in_all m v : In v (map fst (g_inits (m_main m))) -> In v (map fst (all_inits m)).
Proof. intros H. unfold all_inits, graphs_of. simpl. rewrite map_app. apply in_app_iff. left. exact H. Qed.

(* ---------------------------------------------------------------- updating one entry of the subgraph table *)
Definition upd_sub (k : gid) (F : graph -> graph) (p : gid * graph) : gid * graph :=
  if N.eqb (fst p) k then (fst p, F (snd p)) else p.
Lemma upd_gref_sub k F m : upd_gref (GSub k) F m = mkModel (m_main m) (map (upd_sub k F) (m_subs m)) (m_funcs m).
Proof. reflexivity. Qed.
Lemma upd_sub_keys k F l : map fst (map (upd_sub k F) l) = map fst l.
Proof. rewrite map_map. apply map_ext. intros [a b]. unfold upd_sub. simpl. destruct (N.eqb a k); reflexivity. Qed.
Lemma upd_sub_absent k F l : ~ In k (map fst l) -> map (upd_sub k F) l = l.
Proof.
  induction l as [|[a b] l IH]; simpl; intros H; [reflexivity|]. rewrite IH by tauto. unfold upd_sub. simpl.
  destruct (N.eqb a k) eqn:E; [apply N.eqb_eq in E; subst; tauto | reflexivity].
Qed.
Lemma upd_sub_proj {X} (proj : graph -> list X) k F l :
  (forall g, proj (F g) = proj g) -> flat_map proj (map snd (map (upd_sub k F) l)) = flat_map proj (map snd l).
Proof.
  intros H. induction l as [|[a b] l IH]; simpl; [reflexivity|]. rewrite IH. f_equal. unfold upd_sub. simpl.
  destruct (N.eqb a k); simpl; [apply H | reflexivity].
Qed.
Lemma upd_sub_lookup k F l g gr : alookup l g = Some gr ->
  exists gr', alookup (map (upd_sub k F) l) g = Some gr' /\ (gr' = gr \/ gr' = F gr).
Proof.
  induction l as [|[a b] l IH]; simpl; intros E; [discriminate|]. unfold upd_sub at 1. simpl.
  destruct (N.eqb a k); simpl; (destruct (N.eqb a g); [injection E as <-; eauto | apply IH; exact E]).
Qed.

(* moving the entries selected by q2 out of the (unique) subgraph k; q1 = the entries that stay *)
Lemma perm_sub_inits (q1 q2 : vid * tensor -> bool) k g l :
  (forall x, q2 x = negb (q1 x)) -> NoDup (map fst l) -> alookup l k = Some g ->
  Permutation (flat_map g_inits (map snd l))
              (filter q2 (g_inits g) ++ flat_map g_inits (map snd (map (upd_sub k (fun g0 => set_inits g0 (filter q1 (g_inits g)))) l))).
Proof.
  intros Hq. induction l as [|[a b] l IH]; simpl; intros Hnd E; [discriminate|]. inversion Hnd; subst.
  unfold upd_sub at 1. simpl. destruct (N.eqb a k) eqn:Ea.
  - apply N.eqb_eq in Ea. subst a. injection E as ->. rewrite upd_sub_absent by assumption. simpl.
    rewrite app_assoc. apply Permutation_app_tail. apply filter_partition_perm. exact Hq.
  - simpl. eapply Permutation_trans; [apply Permutation_app_head; apply IH; assumption|].
    rewrite !app_assoc. apply Permutation_app_tail. apply Permutation_app_comm.
Qed.

(* ---------------------------------------------------------------- A3, syntactic part: what lift_subgraph_inits keeps *)
Record Moved (m m' : model) : Prop := {
  mv_nodes : all_nodes m' = all_nodes m;
  mv_formals : all_formals m' = all_formals m;
  mv_inits : Permutation (all_inits m) (all_inits m');
  mv_funcs : m_funcs m' = m_funcs m;
  mv_keys : map fst (m_subs m') = map fst (m_subs m);
  mv_subs : forall g gr, alookup (m_subs m) g = Some gr ->
                         exists gr', alookup (m_subs m') g = Some gr' /\ g_ins gr' = g_ins gr /\ g_outs gr' = g_outs gr;
  mv_ins : g_ins (m_main m') = g_ins (m_main m);
  mv_outs : g_outs (m_main m') = g_outs (m_main m);
  mv_main_incl : forall v, In v (map fst (g_inits (m_main m))) -> In v (map fst (g_inits (m_main m')));
  mv_main_keys : forall v, In v (map fst (g_inits (m_main m'))) -> In v (map fst (g_inits (m_main m))) \/ ~ In v (all_formals m) }.

Lemma Moved_refl m : Moved m m.
Proof. constructor; auto. intros g gr E. exists gr. auto. Qed.
Lemma Moved_trans a b c : Moved a b -> Moved b c -> Moved a c.
Proof.
  intros [n1 f1 i1 u1 k1 s1 a1 o1 c1 d1] [n2 f2 i2 u2 k2 s2 a2 o2 c2 d2]. constructor; try congruence; auto.
  - eapply Permutation_trans; eauto.
  - intros g gr E. destruct (s1 g gr E) as [gr1 [E1 [A1 B1]]]. destruct (s2 g gr1 E1) as [gr2 [E2 [A2 B2]]].
    exists gr2. repeat split; congruence.
  - intros v Hv. destruct (d2 v Hv) as [H|H]; [apply d1; exact H | right; rewrite <- f1; exact H].
Qed.

Definition lift1 (m : model) (r : gref) : model :=
  match r, get_gref m r with
  | GSub _, Some g =>
    let moved := filter (fun vt => negb (is_graph_input m (fst vt)) && negb (is_graph_output m (fst vt))) (g_inits g) in
    let kept := filter (fun vt => is_graph_input m (fst vt) || is_graph_output m (fst vt)) (g_inits g) in
    let m1 := upd_gref r (fun g => set_inits g kept) m in
    upd_gref GMain (fun g => set_inits g (g_inits g ++ moved)) m1
  | _, _ => m
  end.
Lemma lift_subgraph_inits_fold order m : lift_subgraph_inits order m = fold_left lift1 order m.
Proof. reflexivity. Qed.

Lemma lift1_moved m r : NoDup (map fst (m_subs m)) -> Moved m (lift1 m r).
Proof.
  intros Hnd. destruct r as [|k|i]; try apply Moved_refl. unfold lift1. cbn [get_gref].
  destruct (alookup (m_subs m) k) as [g|] eqn:Eg; [|apply Moved_refl]. cbv zeta.
  set (q1 := fun vt : vid * tensor => is_graph_input m (fst vt) || is_graph_output m (fst vt)).
  set (q2 := fun vt : vid * tensor => negb (is_graph_input m (fst vt)) && negb (is_graph_output m (fst vt))).
  assert (Hq : forall x, q2 x = negb (q1 x)) by (intros x; unfold q1, q2; rewrite negb_orb; reflexivity).
  rewrite upd_gref_sub. cbn [upd_gref m_main m_subs m_funcs].
  set (F := fun g0 : graph => set_inits g0 (filter q1 (g_inits g))).
  constructor; cbn [m_main m_subs m_funcs set_inits g_ins g_outs g_inits].
  - unfold all_nodes. rewrite !flat_graphs. cbn [m_main m_subs m_funcs set_inits g_nodes].
    rewrite (upd_sub_proj g_nodes); [reflexivity | intros; reflexivity].
  - unfold all_formals. rewrite !flat_graphs. cbn [m_main m_subs m_funcs set_inits g_ins].
    rewrite (upd_sub_proj g_ins); [reflexivity | intros; reflexivity].
  - unfold all_inits. rewrite !flat_graphs. cbn [m_main m_subs m_funcs set_inits g_inits].
    rewrite <- app_assoc. apply Permutation_app_head. rewrite (app_assoc (filter q2 (g_inits g))).
    apply Permutation_app_tail. apply perm_sub_inits; assumption.
  - reflexivity.
  - apply upd_sub_keys.
  - intros g' gr E. destruct (upd_sub_lookup k F _ g' gr E) as [gr' [E' [H|H]]]; subst gr';
      eexists; (split; [exact E' | split; reflexivity]).
  - reflexivity.
  - reflexivity.
  - intros v Hv. rewrite map_app. apply in_app_iff. left. exact Hv.
  - intros v Hv. rewrite map_app in Hv. apply in_app_iff in Hv. destruct Hv as [Hv|Hv]; [left; exact Hv | right].
    apply in_map_iff in Hv. destruct Hv as [vt [<- Hvt]]. apply filter_In in Hvt. destruct Hvt as [_ Hvt].
    unfold q2 in Hvt. apply andb_prop in Hvt. destruct Hvt as [Hvt _]. apply negb_true_iff in Hvt.
    exact (is_graph_input_false m (fst vt) Hvt).
Qed.

Lemma lift_moved order : forall m, NoDup (map fst (m_subs m)) -> Moved m (lift_subgraph_inits order m).
Proof.
  induction order as [|r order IH]; intros m Hnd; [apply Moved_refl|].
  rewrite lift_subgraph_inits_fold. simpl. rewrite <- lift_subgraph_inits_fold.
  pose proof (lift1_moved m r Hnd) as M1. eapply Moved_trans; [exact M1|].
  apply IH. rewrite (mv_keys _ _ M1). exact Hnd.
Qed.

Lemma Moved_WF m m' : Moved m m' -> WF m -> WF m'.
Proof.
  intros M [H1 H2 H3 H4 H5].
  assert (Ho : all_outs m' = all_outs m) by (unfold all_outs; rewrite (mv_nodes _ _ M); reflexivity).
  assert (Hk : Permutation (map fst (all_inits m)) (map fst (all_inits m'))) by (apply Permutation_map; apply (mv_inits _ _ M)).
  constructor.
  - rewrite Ho. exact H1.
  - intros v Hv. rewrite Ho. apply H2. rewrite <- (mv_formals _ _ M). exact Hv.
  - intros v Hv. rewrite Ho. apply H3. eapply Permutation_in; [apply Permutation_sym; exact Hk | exact Hv].
  - intros n Hn. apply H4. rewrite <- (mv_nodes _ _ M). exact Hn.
  - eapply Permutation_NoDup; [exact Hk | exact H5].
Qed.
Lemma Moved_NoOpFunc m m' : Moved m m' -> NoOpFunc m -> NoOpFunc m'.
Proof. intros M H op Hop. rewrite (mv_funcs _ _ M). apply H. exact Hop. Qed.

(* ---------------------------------------------------------------- the signature invariant *)
Definition SigInv (m m' : model) : Prop :=
  g_ins (m_main m') = g_ins (m_main m)
  /\ (forall v, In v (g_ins (m_main m)) -> (In v (map fst (g_inits (m_main m'))) <-> In v (map fst (g_inits (m_main m))))).

Lemma SigInv_refl m : SigInv m m.
Proof. split; [reflexivity | intros; tauto]. Qed.
Lemma SigInv_trans a b c : SigInv a b -> SigInv b c -> SigInv a c.
Proof.
  intros [E1 H1] [E2 H2]. split; [congruence|]. intros v Hv. specialize (H1 v Hv).
  assert (Hv2 : In v (g_ins (m_main b))) by (rewrite E1; exact Hv). specialize (H2 v Hv2). tauto.
Qed.
Lemma SigInv_noninit m m' : SigInv m m' -> noninit_inputs m' = noninit_inputs m.
Proof.
  intros [E H]. unfold noninit_inputs. rewrite E. apply filter_ext_in. intros v Hv. f_equal. specialize (H v Hv).
  destruct (memN v (map fst (g_inits (m_main m')))) eqn:A, (memN v (map fst (g_inits (m_main m)))) eqn:B; try reflexivity; exfalso.
  - apply memN_In in A. apply memN_false in B. tauto.
  - apply memN_false in A. apply memN_In in B. tauto.
Qed.
Lemma SigInv_sig m m' : SigInv m m' -> g_ins (m_main m') = g_ins (m_main m) /\ noninit_inputs m' = noninit_inputs m.
Proof. intros H. split; [exact (proj1 H) | apply SigInv_noninit; exact H]. Qed.
Lemma SigInv_fold {A} (step : model -> A -> model) l :
  (forall m a, SigInv m (step m a)) -> forall m, SigInv m (fold_left step l m).
Proof.
  intros Hs. induction l as [|a l IH]; intros m; simpl; [apply SigInv_refl|].
  eapply SigInv_trans; [apply Hs | apply IH].
Qed.
(* elementary steps *)
Lemma SigInv_eq m m' : g_ins (m_main m') = g_ins (m_main m) -> g_inits (m_main m') = g_inits (m_main m) -> SigInv m m'.
Proof. intros E1 E2. split; [exact E1|]. intros v _. rewrite E2. tauto. Qed.
Lemma SigInv_map_graphs F m : (forall g, g_ins (F g) = g_ins g) -> (forall g, g_inits (F g) = g_inits g) -> SigInv m (map_graphs F m).
Proof. intros H1 H2. apply SigInv_eq; simpl; auto. Qed.
Lemma SigInv_filter (q : vid * tensor -> bool) m m' :
  g_ins (m_main m') = g_ins (m_main m) -> g_inits (m_main m') = filter q (g_inits (m_main m)) ->
  (forall vt, In vt (g_inits (m_main m)) -> In (fst vt) (g_ins (m_main m)) -> q vt = true) -> SigInv m m'.
Proof.
  intros E1 E2 Hq. split; [exact E1|]. intros v Hv. rewrite E2. split; intros H.
  - apply in_map_iff in H. destruct H as [vt [<- Hvt]]. apply filter_In in Hvt. apply in_map. tauto.
  - apply in_map_iff in H. destruct H as [vt [<- Hvt]]. apply in_map. apply filter_In. split; [exact Hvt | apply Hq; assumption].
Qed.
Lemma SigInv_app extra m m' :
  g_ins (m_main m') = g_ins (m_main m) -> g_inits (m_main m') = g_inits (m_main m) ++ extra ->
  (forall v, In v (map fst extra) -> ~ In v (g_ins (m_main m))) -> SigInv m m'.
Proof.
  intros E1 E2 Hx. split; [exact E1|]. intros v Hv. rewrite E2, map_app, in_app_iff. split; [|tauto].
  intros [H|H]; [exact H | exfalso; exact (Hx v H Hv)].
Qed.

Lemma Moved_SigInv m m' : Moved m m' -> SigInv m m'.
Proof.
  intros M. split; [apply (mv_ins _ _ M)|]. intros v Hv. split; [|apply (mv_main_incl _ _ M)].
  intros H. destruct (mv_main_keys _ _ M v H) as [H'|H']; [exact H'|]. exfalso. apply H'. apply main_in_formal. exact Hv.
Qed.

(* ================================================================ PART A *)
Section Book.
  Variable T : Type.
  Variable absent : T.
  Variable tensor_val : tensor -> T.
  Variable interp : opid -> list (str * attr) -> list (subfn T) -> list T -> nat -> option (list T).
  Hypothesis interp_mono : forall op attrs subs subs' ins k r,
      Forall2 (sub_le T) subs subs' -> interp op attrs subs ins k = Some r -> interp op attrs subs' ins k = Some r.
  Hypothesis interp_identity : forall op attrs subs x,
      is_identity_op op = true -> interp op attrs subs [x] 1%nat = Some [x].
  Hypothesis interp_trailing_absent : forall op attrs subs ins k,
      interp op attrs subs (ins ++ [absent]) k = interp op attrs subs ins k.

  Notation computes := (computes absent tensor_val interp).

  (* ------------------------------------------------------------ A0: pointwise equal lookups *)
  Theorem lookup_eq_sim m m' :
    (forall v, find_prod (all_nodes m') v = find_prod (all_nodes m) v) ->
    (forall v, alookup (all_inits m') v = alookup (all_inits m) v) ->
    (forall op fn, find_func (m_funcs m) op = Some fn ->
                   exists fn', find_func (m_funcs m') op = Some fn' /\ g_ins (f_body fn') = g_ins (f_body fn)
                               /\ g_outs (f_body fn') = g_outs (f_body fn) /\ f_defaults fn' = f_defaults fn) ->
    (forall op, find_func (m_funcs m) op = None -> find_func (m_funcs m') op = None) ->
    (forall g gr, alookup (m_subs m) g = Some gr ->
                  exists gr', alookup (m_subs m') g = Some gr' /\ g_ins gr' = g_ins gr /\ g_outs gr' = g_outs gr) ->
    Sim T tensor_val interp (fun _ => True) (formal_of m) (fun v => v) (sem_of m) (sem_of m').
  Proof.
    intros Hprod Hinit Hfunc Hfnone Hsub. constructor.
    - reflexivity.
    - intros v _. simpl. destruct (alookup (all_inits m) v) as [t|] eqn:Ei.
      + eapply VInit; simpl; eauto. rewrite Hinit. exact Ei.
      + destruct (find_prod (all_nodes m) v) as [[n i]|] eqn:Ep; [|apply VNone; simpl; assumption].
        eapply VNode with (n := n) (i := i) (n' := n); simpl; eauto.
        * rewrite Hinit. exact Ei.
        * rewrite Hprod. exact Ep.
        * constructor; try reflexivity. exists (map (option_map (fun v => v)) (n_ins n)), O, O. simpl. rewrite !app_nil_r.
          split; [reflexivity|]. rewrite <- (map_id (n_ins n)) at 1. apply map_ext. intros [w|]; reflexivity.
    - intros g gr Eg. simpl in *. destruct (Hsub g gr Eg) as [gr' [E1 [E2 E3]]]. exists gr'. rewrite map_id. auto.
    - intros g gr Eg. simpl in Eg. split; [eapply formal_sub; eauto | apply Forall_forall; auto].
    - intros op fn Ef. simpl in *. destruct (Hfunc op fn Ef) as [fn' [E1 [E2 [E3 E4]]]]. exists fn'. rewrite map_id. auto.
    - intros op Ef. simpl in *. auto.
    - intros op fn Ef. simpl in Ef. split; [eapply formal_func; eauto | apply Forall_forall; auto].
  Qed.

  Theorem lookup_eq_computes m m' :
    (forall v, find_prod (all_nodes m') v = find_prod (all_nodes m) v) ->
    (forall v, alookup (all_inits m') v = alookup (all_inits m) v) ->
    (forall op fn, find_func (m_funcs m) op = Some fn ->
                   exists fn', find_func (m_funcs m') op = Some fn' /\ g_ins (f_body fn') = g_ins (f_body fn)
                               /\ g_outs (f_body fn') = g_outs (f_body fn) /\ f_defaults fn' = f_defaults fn) ->
    (forall op, find_func (m_funcs m) op = None -> find_func (m_funcs m') op = None) ->
    (forall g gr, alookup (m_subs m) g = Some gr ->
                  exists gr', alookup (m_subs m') g = Some gr' /\ g_ins gr' = g_ins gr /\ g_outs gr' = g_outs gr) ->
    g_outs (m_main m') = g_outs (m_main m) ->
    forall env r, env_ok T (formal_of m) env -> computes m env r -> computes m' env r.
  Proof.
    intros Hprod Hinit Hfunc Hfnone Hsub Hout env r He [f E]. exists f. unfold den_list in *. rewrite Hout.
    eapply map_opt_impl; [|exact E]. intros x y _ Hy.
    exact (sim_refines T absent tensor_val interp interp_mono interp_identity interp_trailing_absent
                       (fun _ => True) (formal_of m) (fun v => v) (sem_of m) (sem_of m')
                       (lookup_eq_sim m m' Hprod Hinit Hfunc Hfnone Hsub) f [] env x y He I Hy).
  Qed.

  (* the same with an unchanged function table *)
  Corollary lookup_eq_computes_samefuncs m m' :
    (forall v, find_prod (all_nodes m') v = find_prod (all_nodes m) v) ->
    (forall v, alookup (all_inits m') v = alookup (all_inits m) v) ->
    m_funcs m' = m_funcs m ->
    (forall g gr, alookup (m_subs m) g = Some gr ->
                  exists gr', alookup (m_subs m') g = Some gr' /\ g_ins gr' = g_ins gr /\ g_outs gr' = g_outs gr) ->
    g_outs (m_main m') = g_outs (m_main m) ->
    forall env r, env_ok T (formal_of m) env -> computes m env r -> computes m' env r.
  Proof.
    intros Hprod Hinit Hf Hsub Hout. apply lookup_eq_computes; auto.
    - intros op fn E. exists fn. rewrite Hf. auto.
    - intros op E. rewrite Hf. exact E.
  Qed.

  (* ------------------------------------------------------------ A1: add_inits_to_inputs [GMain] *)
  Definition new_main_ins (g : graph) : list vid := filter (fun v => negb (memN v (g_ins g))) (map fst (g_inits g)).

  Lemma add_inits_main_eq m :
    add_inits_to_inputs [GMain] m
    = mkModel (set_ins (m_main m) (g_ins (m_main m) ++ new_main_ins (m_main m))) (m_subs m) (m_funcs m).
  Proof. reflexivity. Qed.

  (* sem_of does not mention the inputs of the main graph: the denotation is literally the same *)
  Lemma add_inits_main_sem m : sem_of (add_inits_to_inputs [GMain] m) = sem_of m.
  Proof. reflexivity. Qed.

  Theorem add_inits_main_computes_iff m env r :
    computes (add_inits_to_inputs [GMain] m) env r <-> computes m env r.
  Proof. split; intros H; exact H. Qed.

  Theorem add_inits_main_computes m env r :
    env_ok T (formal_of m) env -> computes m env r -> computes (add_inits_to_inputs [GMain] m) env r.
  Proof. intros _ H. exact H. Qed.

  Lemma add_inits_main_outs m : g_outs (m_main (add_inits_to_inputs [GMain] m)) = g_outs (m_main m).
  Proof. reflexivity. Qed.
  Lemma add_inits_main_ins m :
    g_ins (m_main (add_inits_to_inputs [GMain] m)) = g_ins (m_main m) ++ new_main_ins (m_main m).
  Proof. reflexivity. Qed.

  Lemma add_inits_main_formals m v :
    In v (all_formals (add_inits_to_inputs [GMain] m)) -> In v (all_formals m) \/ In v (map fst (g_inits (m_main m))).
  Proof.
    rewrite add_inits_main_eq. unfold all_formals. rewrite !flat_graphs. cbn [m_main m_subs m_funcs set_ins g_ins].
    rewrite !in_app_iff. intros [[H|H]|H]; [tauto | | tauto].
    right. unfold new_main_ins in H. apply filter_In in H. tauto.
  Qed.

  Theorem add_inits_main_WF m : WF m -> WF (add_inits_to_inputs [GMain] m).
  Proof.
    intros [H1 H2 H3 H4 H5]. constructor.
    - exact H1.
    - intros v Hv. change (all_outs (add_inits_to_inputs [GMain] m)) with (all_outs m).
      destruct (add_inits_main_formals m v Hv) as [Hf|Hi]; [exact (H2 v Hf)|].
      apply H3. apply main_init_in_all. exact Hi.
    - exact H3.
    - exact H4.
    - exact H5.
  Qed.

  Lemma add_inits_main_NoOpFunc m : NoOpFunc m -> NoOpFunc (add_inits_to_inputs [GMain] m).
  Proof. intros H. exact H. Qed.

  Theorem add_inits_main_noninit m : noninit_inputs (add_inits_to_inputs [GMain] m) = noninit_inputs m.
  Proof.
    unfold noninit_inputs. rewrite add_inits_main_eq. cbn [m_main set_ins g_ins g_inits].
    rewrite filter_app. rewrite (filter_none _ (new_main_ins (m_main m))); [apply app_nil_r|].
    intros x Hx. unfold new_main_ins in Hx. apply filter_In in Hx. destruct Hx as [Hx _].
    apply negb_false_iff. apply memN_In. exact Hx.
  Qed.

  (* ------------------------------------------------------------ A2 (order = [GMain]): remove_inits_from_inputs *)
  Definition rm_ins (g : graph) : graph := set_ins g (filter (fun v => negb (memN v (map fst (g_inits g)))) (g_ins g)).

  Lemma remove_inits_fold order m : remove_inits_from_inputs order m = fold_left (fun m r => upd_gref r rm_ins m) order m.
  Proof. reflexivity. Qed.
  Lemma remove_inits_main_eq m :
    remove_inits_from_inputs [GMain] m = mkModel (rm_ins (m_main m)) (m_subs m) (m_funcs m).
  Proof. reflexivity. Qed.
  Lemma remove_inits_main_sem m : sem_of (remove_inits_from_inputs [GMain] m) = sem_of m.
  Proof. reflexivity. Qed.

  Theorem remove_inits_main_computes_iff m env r :
    computes (remove_inits_from_inputs [GMain] m) env r <-> computes m env r.
  Proof. split; intros H; exact H. Qed.
  Theorem remove_inits_main_computes m env r :
    env_ok T (formal_of m) env -> computes m env r -> computes (remove_inits_from_inputs [GMain] m) env r.
  Proof. intros _ H. exact H. Qed.

  Lemma remove_inits_main_outs m : g_outs (m_main (remove_inits_from_inputs [GMain] m)) = g_outs (m_main m).
  Proof. reflexivity. Qed.
  Lemma remove_inits_main_ins m : g_ins (m_main (remove_inits_from_inputs [GMain] m)) = noninit_inputs m.
  Proof. reflexivity. Qed.

  Lemma remove_inits_main_formals m v : In v (all_formals (remove_inits_from_inputs [GMain] m)) -> In v (all_formals m).
  Proof.
    rewrite remove_inits_main_eq. unfold all_formals. rewrite !flat_graphs. cbn [m_main m_subs m_funcs rm_ins set_ins g_ins].
    rewrite !in_app_iff. intros [H|H]; [|tauto]. left. apply filter_In in H. tauto.
  Qed.

  Theorem remove_inits_main_WF m : WF m -> WF (remove_inits_from_inputs [GMain] m).
  Proof.
    intros [H1 H2 H3 H4 H5]. constructor.
    - exact H1.
    - intros v Hv. change (all_outs (remove_inits_from_inputs [GMain] m)) with (all_outs m).
      apply H2. apply remove_inits_main_formals. exact Hv.
    - exact H3.
    - exact H4.
    - exact H5.
  Qed.
  Lemma remove_inits_main_NoOpFunc m : NoOpFunc m -> NoOpFunc (remove_inits_from_inputs [GMain] m).
  Proof. intros H. exact H. Qed.

  Theorem remove_inits_main_noninit m : noninit_inputs (remove_inits_from_inputs [GMain] m) = noninit_inputs m.
  Proof.
    unfold noninit_inputs. rewrite remove_inits_main_eq. cbn [m_main rm_ins set_ins g_ins g_inits]. apply filter_idem.
  Qed.

  (* ------------------------------------------------------------ A3: lift_subgraph_inits *)
  Theorem Moved_computes m m' : Moved m m' -> WF m ->
    forall env r, env_ok T (formal_of m) env -> computes m env r -> computes m' env r.
  Proof.
    intros M HW. apply lookup_eq_computes_samefuncs.
    - intros v. rewrite (mv_nodes _ _ M). reflexivity.
    - intros v. apply alookup_perm; [apply (mv_inits _ _ M) | apply (wf_inits_nodup m HW)].
    - apply (mv_funcs _ _ M).
    - apply (mv_subs _ _ M).
    - apply (mv_outs _ _ M).
  Qed.

  (* the initializer tables as a whole are only permuted; with unique keys every lookup is unchanged *)
  Theorem lift_subgraph_inits_perm order m : NoDup (map fst (m_subs m)) ->
    Permutation (all_inits m) (all_inits (lift_subgraph_inits order m)).
  Proof. intros H. apply (mv_inits _ _ (lift_moved order m H)). Qed.
  Theorem lift_subgraph_inits_lookup order m v : NoDup (map fst (m_subs m)) -> NoDup (map fst (all_inits m)) ->
    alookup (all_inits (lift_subgraph_inits order m)) v = alookup (all_inits m) v.
  Proof. intros H1 H2. apply alookup_perm; [apply lift_subgraph_inits_perm; exact H1 | exact H2]. Qed.

  Theorem lift_subgraph_inits_computes order m : NoDup (map fst (m_subs m)) -> WF m ->
    forall env r, env_ok T (formal_of m) env -> computes m env r -> computes (lift_subgraph_inits order m) env r.
  Proof. intros H HW. apply Moved_computes; [apply lift_moved; exact H | exact HW]. Qed.
  Theorem lift_subgraph_inits_WF order m : NoDup (map fst (m_subs m)) -> WF m -> WF (lift_subgraph_inits order m).
  Proof. intros H. apply Moved_WF. apply lift_moved. exact H. Qed.
  Theorem lift_subgraph_inits_NoOpFunc order m : NoDup (map fst (m_subs m)) -> NoOpFunc m -> NoOpFunc (lift_subgraph_inits order m).
  Proof. intros H. apply Moved_NoOpFunc. apply lift_moved. exact H. Qed.
  Theorem lift_subgraph_inits_formals order m : NoDup (map fst (m_subs m)) -> all_formals (lift_subgraph_inits order m) = all_formals m.
  Proof. intros H. apply (mv_formals _ _ (lift_moved order m H)). Qed.
  Theorem lift_subgraph_inits_subkeys order m : NoDup (map fst (m_subs m)) ->
    map fst (m_subs (lift_subgraph_inits order m)) = map fst (m_subs m).
  Proof. intros H. apply (mv_keys _ _ (lift_moved order m H)). Qed.
  Theorem lift_subgraph_inits_main_io order m : NoDup (map fst (m_subs m)) ->
    g_ins (m_main (lift_subgraph_inits order m)) = g_ins (m_main m) /\ g_outs (m_main (lift_subgraph_inits order m)) = g_outs (m_main m).
  Proof. intros H. split; [apply (mv_ins _ _ (lift_moved order m H)) | apply (mv_outs _ _ (lift_moved order m H))]. Qed.
  Theorem lift_subgraph_inits_signature order m : NoDup (map fst (m_subs m)) ->
    g_ins (m_main (lift_subgraph_inits order m)) = g_ins (m_main m) /\ noninit_inputs (lift_subgraph_inits order m) = noninit_inputs m.
  Proof. intros H. apply SigInv_sig. apply Moved_SigInv. apply lift_moved. exact H. Qed.
End Book.

(* ================================================================ PART B: signatures (purely syntactic) *)

(* ---------------------------------------------------------------- IdentityEliminationPass *)
Lemma try_elim_identity_sig m k : SigInv m (try_elim_identity m k).
Proof.
  unfold try_elim_identity.
  repeat match goal with |- context [match ?x with _ => _ end] => destruct x end;
    try apply SigInv_refl; apply SigInv_eq; reflexivity.
Qed.
Lemma identity_elim_SigInv fuel m : SigInv m (identity_elim fuel m).
Proof.
  unfold identity_elim. eapply SigInv_trans.
  - apply (SigInv_fold (fun m (rk : gref * vid) => try_elim_identity m (snd rk))). intros; apply try_elim_identity_sig.
  - apply (SigInv_fold (fun m r => fold_left (fun m (rk : gref * vid) => try_elim_identity m (snd rk)) (rec_nodes fuel m r) m)).
    intros m0 r. apply (SigInv_fold (fun m (rk : gref * vid) => try_elim_identity m (snd rk))). intros; apply try_elim_identity_sig.
Qed.
Theorem identity_elim_signature fuel m :
  g_ins (m_main (identity_elim fuel m)) = g_ins (m_main m) /\ noninit_inputs (identity_elim fuel m) = noninit_inputs m.
Proof. apply SigInv_sig. apply identity_elim_SigInv. Qed.

(* ---------------------------------------------------------------- DeduplicateInitializersPass *)
Lemma dedup_loop_sig keyeq sl r : forall inits seen m, SigInv m (dedup_graph_loop keyeq sl r inits seen m).
Proof.
  induction inits as [|[v t] rest IH]; intros seen m; simpl; [apply SigInv_refl|].
  destruct (is_graph_input m v || is_graph_output m v || Z.ltb sl (tensor_size t)) eqn:Eskip; [apply IH|].
  apply orb_false_iff in Eskip. destruct Eskip as [Eskip _]. apply orb_false_iff in Eskip. destruct Eskip as [Hvi _].
  destruct (find (fun wt => keyeq (snd wt) t) seen) as [[w t']|]; [|apply IH].
  destruct (tensor_eqb t' t); [|apply IH].
  eapply SigInv_trans; [|apply IH].
  apply (SigInv_filter (fun vt => negb (N.eqb (fst vt) v))); try reflexivity.
  intros vt _ Hin. apply negb_true_iff. apply N.eqb_neq. intros E. rewrite E in Hin.
  exact (is_graph_input_false m v Hvi (main_in_formal m v Hin)).
Qed.
Lemma dedup_inits_SigInv keyeq sl order m : SigInv m (dedup_inits keyeq sl order m).
Proof.
  unfold dedup_inits.
  apply (SigInv_fold (fun m r => match get_gref m r with Some g => dedup_graph_loop keyeq sl r (g_inits g) [] m | None => m end)).
  intros m0 r. destruct (get_gref m0 r); [apply dedup_loop_sig | apply SigInv_refl].
Qed.
Theorem dedup_inits_signature keyeq sl order m :
  g_ins (m_main (dedup_inits keyeq sl order m)) = g_ins (m_main m)
  /\ noninit_inputs (dedup_inits keyeq sl order m) = noninit_inputs m.
Proof. apply SigInv_sig. apply dedup_inits_SigInv. Qed.

(* ---------------------------------------------------------------- RemoveUnusedNodesPass (any schema table) *)
Lemma dce_graph_sig sc u ops : forall fuel r m, SigInv m (dce_graph sc u ops fuel r m).
Proof.
  induction fuel as [|f IHf]; intros r m; simpl; [apply SigInv_refl|].
  destruct (get_gref m r) as [g0|]; [|apply SigInv_refl].
  generalize (rev (map node_key (g_nodes g0))) as keys. intros keys. revert m.
  induction keys as [|k rest IHk]; intros m; [apply SigInv_refl|].
  destruct (get_node m k) as [n|] eqn:Eg; [|apply IHk].
  destruct (forallb _ (n_outs n)) eqn:Edead.
  - eapply SigInv_trans; [|apply IHk]. apply SigInv_eq; reflexivity.
  - eapply SigInv_trans; [|apply IHk].
    eapply SigInv_trans; [|apply (SigInv_fold (fun m sg => dce_graph sc u ops f (GSub sg) m)); intros; apply IHf].
    apply SigInv_eq; reflexivity.
Qed.
Lemma remove_unused_inits_sig m : SigInv m (remove_unused_inits m).
Proof.
  apply (SigInv_filter (fun vt => has_uses m (fst vt) || memN (fst vt) (g_outs (m_main m)) || memN (fst vt) (g_ins (m_main m))));
    try reflexivity.
  intros vt _ Hin. apply memN_In in Hin. rewrite Hin. apply orb_true_r.
Qed.
Lemma dce_SigInv sc u ops fuel m : SigInv m (dce sc u ops fuel m).
Proof.
  unfold dce. eapply SigInv_trans; [apply dce_graph_sig|]. eapply SigInv_trans; [apply remove_unused_inits_sig|].
  apply (SigInv_fold (fun m r => dce_graph sc u ops fuel r m)). intros; apply dce_graph_sig.
Qed.
Theorem dce_signature sc u ops fuel m :
  g_ins (m_main (dce sc u ops fuel m)) = g_ins (m_main m) /\ noninit_inputs (dce sc u ops fuel m) = noninit_inputs m.
Proof. apply SigInv_sig. apply dce_SigInv. Qed.

(* ---------------------------------------------------------------- CommonSubexpressionEliminationPass *)
Lemma fold_replace_main outs pairs : forall m,
  g_ins (m_main (fold_left (fun m (vw : vid * vid) => replace_uses outs (fst vw) (snd vw) m) pairs m)) = g_ins (m_main m)
  /\ g_inits (m_main (fold_left (fun m (vw : vid * vid) => replace_uses outs (fst vw) (snd vw) m) pairs m)) = g_inits (m_main m).
Proof.
  induction pairs as [|a pairs IH]; intros m; simpl; [split; reflexivity|].
  destruct (IH (replace_uses outs (fst a) (snd a) m)) as [A B]. rewrite A, B. split; reflexivity.
Qed.
Lemma cse_replace_sig m rem keep fresh : SigInv m (fst (cse_replace m rem keep fresh)).
Proof.
  unfold cse_replace.
  match goal with |- context [match ?X with pair _ _ => _ end] => destruct X as [[outs ids] fr] end.
  cbn [fst]. apply SigInv_eq; cbn [remove_node map_graphs m_main set_nodes g_ins g_inits]; apply fold_replace_main.
Qed.
Lemma cse_loop_sig u sl : forall keys seen m fresh, SigInv m (fst (cse_loop u sl keys seen m fresh)).
Proof.
  induction keys as [|k rest IH]; intros seen m fresh; simpl; [apply SigInv_refl|].
  destruct (find (has_key k) (g_nodes (m_main m))) as [n|]; [|apply IH].
  destruct (cse_skip sl n); [apply IH|].
  match goal with |- context [match find ?P seen with _ => _ end] => destruct (find P seen) as [k'|] end; [|apply IH].
  destruct (find (has_key k') (g_nodes (m_main m))) as [keep|]; [|apply IH].
  destruct (cse_replace m n keep fresh) as [m' fr] eqn:E.
  eapply SigInv_trans; [|apply IH]. change m' with (fst (m', fr)). rewrite <- E. apply cse_replace_sig.
Qed.
Lemma cse_SigInv u sl m fresh : SigInv m (fst (cse u sl m fresh)).
Proof. unfold cse. apply cse_loop_sig. Qed.
Theorem cse_signature u sl m fresh :
  g_ins (m_main (fst (cse u sl m fresh))) = g_ins (m_main m) /\ noninit_inputs (fst (cse u sl m fresh)) = noninit_inputs m.
Proof. apply SigInv_sig. apply cse_SigInv. Qed.

(* ---------------------------------------------------------------- LiftConstantsToInitializersPass *)
(* new initializer keys are the fresh counter, which is above every main-graph input *)
Lemma lift_model_sig k y fr t m : (forall v, In v (g_ins (m_main m)) -> v < fr) ->
  SigInv m (remove_node k (replace_uses false y fr
     (map_graphs (fun g => if existsb (has_key k) (g_nodes g) then set_inits g (g_inits g ++ [(fr, t)]) else g) m))).
Proof.
  intros Hlt. unfold remove_node, replace_uses, map_graphs. cbn [m_main].
  destruct (existsb (has_key k) (g_nodes (m_main m))).
  - apply (SigInv_app [(fr, t)]); try reflexivity.
    intros v [<-|[]] Hin. specialize (Hlt _ Hin). simpl in Hlt. lia.
  - apply SigInv_eq; reflexivity.
Qed.
Lemma try_lift_sig la sl other m fr rk : (forall v, In v (g_ins (m_main m)) -> v < fr) ->
  SigInv m (fst (try_lift_constant la sl other (m, fr) rk)) /\ fr <= snd (try_lift_constant la sl other (m, fr) rk).
Proof.
  intros Hlt. unfold try_lift_constant.
  assert (Hsame : SigInv m (fst (m, fr)) /\ fr <= snd (m, fr)) by (split; [apply SigInv_refl | simpl; lia]).
  destruct (get_node m (snd rk)) as [n|]; [|exact Hsame].
  destruct (negb (is_constant_op (n_op n))); [exact Hsame|].
  destruct (n_outs n) as [|y outs']; [exact Hsame|].
  destruct (n_attrs n) as [|[name a] [|? ?]]; try exact Hsame.
  destruct (is_graph_output m y); [exact Hsame|].
  destruct (lift_tensor la sl other (snd rk) name a) as [t|]; [|exact Hsame].
  cbn [fst snd]. split; [apply lift_model_sig; exact Hlt | lia].
Qed.
Lemma lift_fold_sig la sl other : forall keys m fr, (forall v, In v (g_ins (m_main m)) -> v < fr) ->
  SigInv m (fst (fold_left (try_lift_constant la sl other) keys (m, fr))).
Proof.
  induction keys as [|rk keys IH]; intros m fr Hlt; [apply SigInv_refl|]. cbn [fold_left].
  destruct (try_lift_sig la sl other m fr rk Hlt) as [S1 Hle].
  destruct (try_lift_constant la sl other (m, fr) rk) as [m1 fr1]. cbn [fst snd] in *.
  eapply SigInv_trans; [exact S1|]. apply IH. intros v Hv. rewrite (proj1 S1) in Hv. specialize (Hlt v Hv). lia.
Qed.
Lemma lift_constants_SigInv fuel la sl other m fresh : (forall v, In v (g_ins (m_main m)) -> v < fresh) ->
  SigInv m (fst (lift_constants fuel la sl other m fresh)).
Proof. intros H. unfold lift_constants. apply lift_fold_sig. exact H. Qed.
Theorem lift_constants_signature fuel la sl other m fresh : (forall v, In v (g_ins (m_main m)) -> v < fresh) ->
  g_ins (m_main (fst (lift_constants fuel la sl other m fresh))) = g_ins (m_main m)
  /\ noninit_inputs (fst (lift_constants fuel la sl other m fresh)) = noninit_inputs m.
Proof. intros H. apply SigInv_sig. apply lift_constants_SigInv. exact H. Qed.
Corollary lift_constants_signature_FreshOK fuel la sl other m fresh : FreshOK m fresh ->
  g_ins (m_main (fst (lift_constants fuel la sl other m fresh))) = g_ins (m_main m)
  /\ noninit_inputs (fst (lift_constants fuel la sl other m fresh)) = noninit_inputs m.
Proof.
  intros HF. apply lift_constants_signature. intros v Hv. apply HF. right. left. exact (main_in_formal m v Hv).
Qed.

(* ================================================================ A2, general order *)
(* the graphs a non-main gref designates for upd_gref (every table entry with that key / that function body) *)
Definition targets (m : model) (r : gref) : list graph :=
  match r with
  | GMain => []
  | GSub g => map snd (filter (fun p => N.eqb (fst p) g) (m_subs m))
  | GFunc i => match nth_error (m_funcs m) i with Some f => [f_body f] | None => [] end
  end.
(* no input of the graph is one of its own initializers *)
Definition clean_ins (g : graph) : Prop := forall v, In v (g_ins g) -> ~ In v (map fst (g_inits g)).
Definition is_main (r : gref) : bool := match r with GMain => true | _ => false end.

Lemma rm_ins_clean g : clean_ins g -> rm_ins g = g.
Proof.
  intros H. unfold rm_ins, set_ins. rewrite filter_all; [destruct g; reflexivity|].
  intros v Hv. apply negb_true_iff. apply memN_false. apply H. exact Hv.
Qed.
Lemma rm_ins_idem g : rm_ins (rm_ins g) = rm_ins g.
Proof. unfold rm_ins, set_ins. cbn [g_ins g_inits g_nodes g_outs]. rewrite filter_idem. reflexivity. Qed.

Lemma upd_nth_noop {A} (F : A -> A) : forall i l, (forall x, nth_error l i = Some x -> F x = x) -> upd_nth i F l = l.
Proof.
  induction i as [|i IH]; intros [|x l] H; simpl; try reflexivity.
  - rewrite (H x eq_refl). reflexivity.
  - rewrite IH; [reflexivity|]. intros y Hy. apply H. exact Hy.
Qed.
Lemma upd_gref_noop r F m : r <> GMain -> (forall g, In g (targets m r) -> F g = g) -> upd_gref r F m = m.
Proof.
  intros Hr H. destruct r as [|k|i]; [congruence| |]; unfold upd_gref; destruct m as [mm ss ff]; cbn [m_main m_subs m_funcs targets] in *; f_equal.
  - rewrite <- (map_id ss) at 2. apply map_ext_in. intros [a b] Hin. cbn [fst snd].
    destruct (N.eqb a k) eqn:E; [|reflexivity]. rewrite H; [reflexivity|].
    apply in_map_iff. exists (a, b). split; [reflexivity|]. apply filter_In. auto.
  - apply upd_nth_noop. intros f Hf. rewrite Hf in H. rewrite H; [destruct f; reflexivity | left; reflexivity].
Qed.

Theorem remove_inits_general order : forall m,
  (forall r g, In r order -> In g (targets m r) -> clean_ins g) ->
  remove_inits_from_inputs order m = if existsb is_main order then remove_inits_from_inputs [GMain] m else m.
Proof.
  induction order as [|r order IH]; intros m H; [reflexivity|].
  rewrite remove_inits_fold. cbn [fold_left existsb]. rewrite <- remove_inits_fold.
  destruct r as [|k|i]; cbn [is_main orb].
  - (* the main graph: afterwards nothing changes any more *)
    change (upd_gref GMain rm_ins m) with (remove_inits_from_inputs [GMain] m).
    rewrite IH.
    + destruct (existsb is_main order); [|reflexivity].
      rewrite !remove_inits_main_eq. cbn [m_main m_subs m_funcs]. rewrite rm_ins_idem. reflexivity.
    + intros r g Hr Hg. apply (H r g); [right; exact Hr|]. destruct r; exact Hg.
  - rewrite upd_gref_noop; [| discriminate |].
    + apply IH. intros r g Hr Hg. apply (H r g); [right; exact Hr | exact Hg].
    + intros g Hg. apply rm_ins_clean. apply (H (GSub k) g); [left; reflexivity | exact Hg].
  - rewrite upd_gref_noop; [| discriminate |].
    + apply IH. intros r g Hr Hg. apply (H r g); [right; exact Hr | exact Hg].
    + intros g Hg. apply rm_ins_clean. apply (H (GFunc i) g); [left; reflexivity | exact Hg].
Qed.

(* the hypothesis through get_gref, when subgraph keys are unique *)
Lemma targets_get_gref m r g : NoDup (map fst (m_subs m)) -> In g (targets m r) -> r <> GMain /\ get_gref m r = Some g.
Proof.
  intros Hnd Hg. destruct r as [|k|i]; cbn [targets get_gref] in *; [contradiction| |].
  - split; [discriminate|]. apply in_map_iff in Hg. destruct Hg as [[a b] [<- Hp]]. apply filter_In in Hp.
    destruct Hp as [Hp E]. cbn [fst snd] in *. apply N.eqb_eq in E. subst a. apply alookup_NoDup_In; assumption.
  - split; [discriminate|]. destruct (nth_error (m_funcs m) i) as [f|]; [|contradiction].
    destruct Hg as [<-|[]]. reflexivity.
Qed.
Corollary remove_inits_general_get order m : NoDup (map fst (m_subs m)) ->
  (forall r g, In r order -> r <> GMain -> get_gref m r = Some g -> clean_ins g) ->
  remove_inits_from_inputs order m = if existsb is_main order then remove_inits_from_inputs [GMain] m else m.
Proof.
  intros Hnd H. apply remove_inits_general. intros r g Hr Hg.
  destruct (targets_get_gref m r g Hnd Hg) as [Hne E]. exact (H r g Hr Hne E).
Qed.

Section Book2.
  Variable T : Type.
  Variable absent : T.
  Variable tensor_val : tensor -> T.
  Variable interp : opid -> list (str * attr) -> list (subfn T) -> list T -> nat -> option (list T).
  Notation computes := (computes absent tensor_val interp).
  Variables (order : list gref) (m : model).
  Hypothesis Hclean : forall r g, In r order -> In g (targets m r) -> clean_ins g.

  Theorem remove_inits_computes_iff env r : computes (remove_inits_from_inputs order m) env r <-> computes m env r.
  Proof.
    rewrite (remove_inits_general order m Hclean). destruct (existsb is_main order); [|tauto].
    split; intros H; exact H.
  Qed.
  Theorem remove_inits_computes env r :
    env_ok T (formal_of m) env -> computes m env r -> computes (remove_inits_from_inputs order m) env r.
  Proof. intros _ H. apply remove_inits_computes_iff. exact H. Qed.
  Theorem remove_inits_WF : WF m -> WF (remove_inits_from_inputs order m).
  Proof.
    intros HW. rewrite (remove_inits_general order m Hclean). destruct (existsb is_main order); [|exact HW].
    apply remove_inits_main_WF. exact HW.
  Qed.
  Theorem remove_inits_NoOpFunc : NoOpFunc m -> NoOpFunc (remove_inits_from_inputs order m).
  Proof.
    intros HN. rewrite (remove_inits_general order m Hclean). destruct (existsb is_main order); exact HN.
  Qed.
  Theorem remove_inits_outs : g_outs (m_main (remove_inits_from_inputs order m)) = g_outs (m_main m).
  Proof. rewrite (remove_inits_general order m Hclean). destruct (existsb is_main order); reflexivity. Qed.
  Theorem remove_inits_noninit : noninit_inputs (remove_inits_from_inputs order m) = noninit_inputs m.
  Proof.
    rewrite (remove_inits_general order m Hclean). destruct (existsb is_main order); [|reflexivity].
    apply remove_inits_main_noninit.
  Qed.
End Book2.

(* the side condition `NoDup (map fst (m_subs m))` of A3 / remove_inits_general_get is part of the executable check *)
Lemma wfb_subkeys_nodup m : wfb m = true -> NoDup (map fst (m_subs m)).
Proof.
  unfold wfb. intros H. apply andb_prop in H. destruct H as [H _]. apply andb_prop in H. destruct H as [_ H].
  apply nodupN_NoDup. exact H.
Qed.

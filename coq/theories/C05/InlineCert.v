(* C05/InlineCert.v — translation validation of ONE inlining step inside the model.

   `Inline.inline_at_raw` (the untrusted producer: fuel, threaded cloner state) returns, besides the new model, the data a
   checker needs (call node, function, final value map, graph map, replacement pairs).  `inline_certb m st fv` is a
   decidable test over the finite tables of m and `is_m st`; `inline_cert_sound` shows that an accepted step satisfies
   the abstract simulation record `Proofs15.InlineSim`, hence (`inline_step_computes`) the new model computes whatever
   the old one computes, and (`inline_step_valid`) it is again well formed with the same signature, so that steps chain.
   Nothing is proved about `inline_at_raw` itself: its result is checked.  The examples at the end run the producer on
   concrete models and show the checker accepts real steps. *)
From Coq Require Import ZArith NArith List Bool Lia.
From IRV Require Import Base.Exn Gen.C05Gen C05.Model C05.Inline C05.Proofs C05.Proofs2 C05.Proofs3 C05.Proofs4 C05.Proofs6
     C05.Proofs7 C05.Proofs15.
Import ListNotations.
Open Scope N_scope.

(* ---------------------------------------------------------------- generic boolean helpers *)
Ltac bsplit := repeat match goal with H : _ && _ = true |- _ => apply andb_prop in H; destruct H end.

Definition is_none {A} (o : option A) : bool := match o with None => true | Some _ => false end.
Lemma is_none_eq {A} (o : option A) : is_none o = true -> o = None.
Proof. destruct o; [discriminate | reflexivity]. Qed.

Definition oo_eqb : option (option N) -> option (option N) -> bool := option_eqb (option_eqb N.eqb).
Lemma oo_eqb_eq a b : oo_eqb a b = true -> a = b.
Proof.
  destruct a as [a|], b as [b|]; simpl; intros H; try discriminate; [|reflexivity].
  apply option_N_eqb_eq in H. congruence.
Qed.
Definition ot_eqb : option tensor -> option tensor -> bool := option_eqb tensor_eqb.
Lemma ot_eqb_eq a b : ot_eqb a b = true -> a = b.
Proof.
  destruct a as [a|], b as [b|]; simpl; intros H; try discriminate; [|reflexivity].
  apply tensor_eqb_eq in H. congruence.
Qed.

Fixpoint forall2b {A B} (p : A -> B -> bool) (l : list A) (l' : list B) : bool :=
  match l, l' with
  | [], [] => true
  | x :: r, y :: r' => p x y && forall2b p r r'
  | _, _ => false
  end.
Lemma forall2b_Forall2 {A B} (p : A -> B -> bool) (R : A -> B -> Prop) :
  (forall x y, p x y = true -> R x y) -> forall l l', forall2b p l l' = true -> Forall2 R l l'.
Proof.
  intros H l. induction l as [|x l IH]; intros [|y l'] E; simpl in E; try discriminate; [constructor|].
  apply andb_prop in E. destruct E. constructor; auto.
Qed.

(* p v i for every output v at position i (positions counted from k) *)
Fixpoint forall_idx (p : vid -> nat -> bool) (l : list vid) (k : nat) : bool :=
  match l with [] => true | v :: r => p v k && forall_idx p r (S k) end.
Lemma forall_idx_nth p l : forall k i v, forall_idx p l k = true -> nth_error l i = Some v -> p v (k + i)%nat = true.
Proof.
  induction l as [|x l IH]; intros k i v H E; [destruct i; discriminate|].
  simpl in H. apply andb_prop in H. destruct H as [H1 H2]. destruct i as [|i]; simpl in E.
  - injection E as <-. rewrite Nat.add_0_r. exact H1.
  - replace (k + S i)%nat with (S k + i)%nat by lia. apply IH; assumption.
Qed.

Lemma graph_eqb_eq a b : graph_eqb a b = true -> a = b.
Proof.
  destruct a, b. unfold graph_eqb. simpl. intros H. bsplit.
  f_equal; [apply Nlist_eqb_eq | apply (list_eqb_sound _ init_eqb_eq) | apply (list_eqb_sound _ node_eqb_eq) | apply Nlist_eqb_eq];
    assumption.
Qed.
Lemma func_eqb_eq a b : func_eqb a b = true -> a = b.
Proof.
  destruct a, b. unfold func_eqb. simpl. intros H. bsplit.
  f_equal; [apply opid_eqb_eq | apply graph_eqb_eq | apply (list_eqb_sound _ nattr_eqb_eq)]; assumption.
Qed.

Lemma find_func_Some fs op f : find_func fs op = Some f -> In f fs /\ f_id f = op.
Proof. unfold find_func. intros E. apply find_some in E. destruct E as [A B]. apply opid_eqb_eq in B. auto. Qed.
Lemma find_func_ids fs : forall fs' op, map f_id fs' = map f_id fs -> find_func fs op = None -> find_func fs' op = None.
Proof.
  unfold find_func. induction fs as [|f fs IH]; intros [|f' fs'] op E H; simpl in *; try discriminate; [reflexivity|].
  injection E as E1 E2. rewrite E1. destruct (opid_eqb (f_id f) op); [discriminate|]. apply IH; assumption.
Qed.

(* ---------------------------------------------------------------- the checker *)
Section Cert.
  Variables (m : model) (st : inl_step) (fv : N).
  Notation m' := (is_m st).
  Notation fv' := (is_fv st).
  Notation cc := (is_call st).
  Notation fn := (is_fn st).
  Notation vm := (is_vm st).
  Notation gmap := (is_gm st).
  Notation tau := (sg_pairs (is_pairs st)).
  Notation cl := (alookup (is_vm st)).
  Notation gm := (alookup (is_gm st)).
  Notation s := (sem_of m).
  Notation s' := (sem_of (is_m st)).
  Notation Fresh := (fun v : vid => fv <= v /\ v < is_fv st).
  Notation AM := (call_attr_map (n_attrs (is_call st)) (f_defaults (is_fn st))).
  Notation xs := (g_ins (f_body (is_fn st))).
  Notation os := (g_outs (f_body (is_fn st))).

  Ltac ssem := cbn [s_init s_prod s_func s_graph sem_of] in *.

  Definition freshb (v : vid) : bool := N.leb fv v && N.ltb v fv'.
  Lemma freshb_spec v : freshb v = true -> fv <= v /\ v < fv'.
  Proof. unfold freshb. intros H. bsplit. split; [apply N.leb_le | apply N.ltb_lt]; assumption. Qed.
  Lemma freshb_complete v : fv <= v /\ v < fv' -> freshb v = true.
  Proof. intros [A B]. unfold freshb. apply N.leb_le in A. apply N.ltb_lt in B. rewrite A, B. reflexivity. Qed.

  (* ------------------------------------------------------------ the call (il_call .. il_defaults_noref, il_args_old) *)
  Definition call_okb : bool :=
    match find_func (m_funcs m) (n_op cc) with Some f => func_eqb f fn | None => false end
    && no_graph_attrs AM && refs_okb (n_attrs cc) (f_defaults fn) && no_ref_attrs (f_defaults fn)
    && forallb (fun o => match o with Some a => N.eqb (tau a) a | None => true end) (n_ins cc).
  Lemma call_okb_sound : call_okb = true ->
    find_func (m_funcs m) (n_op cc) = Some fn /\ no_graph_attrs AM = true /\ refs_okb (n_attrs cc) (f_defaults fn) = true
    /\ no_ref_attrs (f_defaults fn) = true /\ (forall a, In (Some a) (n_ins cc) -> tau a = a).
  Proof.
    unfold call_okb. intros H. bsplit. repeat split; try assumption.
    - destruct (find_func (m_funcs m) (n_op cc)) as [f|]; [|discriminate]. f_equal. apply func_eqb_eq. assumption.
    - intros a Ha. apply N.eqb_eq. exact (forallb_In _ _ (Some a) H0 Ha).
  Qed.

  (* ------------------------------------------------------------ tau / Fresh against the formals (il_formal_fix, il_fresh_nf) *)
  Definition formals_okb : bool :=
    forallb (fun v => N.eqb (tau v) v && N.ltb v fv) (all_formals m).
  Lemma formals_okb_fix : formals_okb = true -> forall v, formal_of m v -> tau v = v.
  Proof. intros H v Hv. pose proof (forallb_In _ _ v H Hv) as E. cbv beta in E. bsplit. apply N.eqb_eq. assumption. Qed.
  Lemma formals_okb_fresh : formals_okb = true -> forall v, fv <= v /\ v < fv' -> ~ formal_of m v.
  Proof.
    intros H v [Hv _] Hf. pose proof (forallb_In _ _ v H Hf) as E. cbv beta in E. bsplit.
    match goal with X : N.ltb _ _ = true |- _ => apply N.ltb_lt in X end. lia.
  Qed.

  (* ------------------------------------------------------------ initializers (il_init) *)
  Definition inits_okb : bool :=
    forallb (fun vt : vid * tensor => N.eqb (tau (fst vt)) (fst vt) && ot_eqb (alookup (all_inits m') (fst vt)) (Some (snd vt)))
            (all_inits m).
  Lemma inits_okb_sound : inits_okb = true ->
    forall v t, alookup (all_inits m) v = Some t -> tau v = v /\ alookup (all_inits m') v = Some t.
  Proof.
    intros H v t E. apply alookup_In in E. pose proof (forallb_In _ _ (v, t) H E) as X. cbv beta in X. simpl in X. bsplit.
    split; [apply N.eqb_eq | apply ot_eqb_eq]; assumption.
  Qed.

  (* ------------------------------------------------------------ nodes (il_node, il_call_attrs) *)
  Definition old_nodeb (n n' : node) : bool :=
    opid_eqb (n_op n') (n_op n) && list_eqb nattr_eqb (n_attrs n') (n_attrs n)
    && Nat.eqb (length (n_outs n')) (length (n_outs n))
    && list_eqb (option_eqb N.eqb) (n_ins n') (map (option_map tau) (n_ins n)).
  Lemma old_nodeb_sound n n' : old_nodeb n n' = true -> old_node tau n n'.
  Proof.
    unfold old_nodeb, old_node. intros H. bsplit.
    split; [apply opid_eqb_eq; assumption|]. split; [apply (list_eqb_sound _ nattr_eqb_eq); assumption|].
    split; [apply Nat.eqb_eq; assumption | apply (list_eqb_sound _ option_N_eqb_eq); assumption].
  Qed.

  Definition result_relb (o r : vid) : bool :=
    match cl o with
    | Some (Some a) =>
      N.eqb a r
      || (freshb r && is_none (alookup (all_inits m') r)
          && match find_prod (all_nodes m') r with
             | Some (idn, O) => is_identity_op (n_op idn) && list_eqb (option_eqb N.eqb) (n_ins idn) [Some a]
                                && Nat.eqb (length (n_outs idn)) 1 && is_none (find_func (m_funcs m') (n_op idn))
             | _ => false
             end)
    | _ => false
    end.
  Lemma result_relb_sound o r : result_relb o r = true -> result_rel s' Fresh cl o r.
  Proof.
    unfold result_relb, result_rel. destruct (cl o) as [[a|]|] eqn:E; try discriminate. intros H.
    apply orb_prop in H. destruct H as [H|H]; [left; apply N.eqb_eq in H; congruence|].
    right. bsplit. destruct (find_prod (all_nodes m') r) as [[idn [|j]]|] eqn:Ep; try discriminate. bsplit.
    exists a, idn. ssem. split; [reflexivity|]. split; [apply freshb_spec; assumption|].
    split; [apply is_none_eq; assumption|]. split; [exact Ep|]. split; [assumption|].
    split; [apply (list_eqb_sound _ option_N_eqb_eq); assumption|].
    split; [apply Nat.eqb_eq; assumption | apply is_none_eq; assumption].
  Qed.

  Definition old_valb (n : node) (v : vid) (i : nat) : bool :=
    N.eqb (tau v) v && is_none (alookup (all_inits m') v)
    && match find_prod (all_nodes m') v with
       | Some (n', i') => Nat.eqb i' i && old_nodeb n n'
       | None => false
       end.
  Definition node_valb (n : node) (v : vid) (i : nat) : bool :=
    old_valb n v i
    || (node_eqb n cc && match nth_error os i with Some o => result_relb o (tau v) | None => true end).
  Definition nodes_okb : bool :=
    forallb (fun n => forall_idx (node_valb n) (n_outs n) O) (all_nodes m).
  Lemma nodes_okb_sound : nodes_okb = true ->
    forall v n i, alookup (all_inits m) v = None -> find_prod (all_nodes m) v = Some (n, i) ->
      (tau v = v /\ alookup (all_inits m') v = None
       /\ exists n', find_prod (all_nodes m') v = Some (n', i) /\ old_node tau n n')
      \/ (n = cc /\ forall o, nth_error os i = Some o -> result_rel s' Fresh cl o (tau v)).
  Proof.
    intros H v n i _ Ep. destruct (find_prod_In _ _ _ _ Ep) as [Hin Hidx]. apply index_of_nth in Hidx.
    pose proof (forallb_In _ _ n H Hin) as Hn. cbv beta in Hn.
    pose proof (forall_idx_nth _ _ O i v Hn Hidx) as Hv. change (0 + i)%nat with i in Hv.
    unfold node_valb in Hv. apply orb_prop in Hv. destruct Hv as [Hv|Hv].
    - left. unfold old_valb in Hv. bsplit.
      destruct (find_prod (all_nodes m') v) as [[n' i']|] eqn:Ep'; [|discriminate]. bsplit.
      split; [apply N.eqb_eq; assumption|]. split; [apply is_none_eq; assumption|].
      exists n'. split; [|apply old_nodeb_sound; assumption].
      match goal with X : Nat.eqb _ _ = true |- _ => apply Nat.eqb_eq in X; rewrite X end. reflexivity.
    - right. bsplit. split; [apply node_eqb_eq; assumption|]. intros o Eo.
      match goal with X : match nth_error _ _ with _ => _ end = true |- _ => rewrite Eo in X; apply result_relb_sound; exact X end.
  Qed.

  Definition callattrs_okb : bool :=
    forallb (fun n => is_none (find_func (m_funcs m) (n_op n)) || no_graph_attrs (n_attrs n)) (all_nodes m).
  Lemma callattrs_okb_sound : callattrs_okb = true ->
    forall v n i fn2, find_prod (all_nodes m) v = Some (n, i) -> find_func (m_funcs m) (n_op n) = Some fn2 ->
      no_graph_attrs (n_attrs n) = true.
  Proof.
    intros H v n i fn2 Ep Ef. destruct (find_prod_In _ _ _ _ Ep) as [Hin _].
    pose proof (forallb_In _ _ n H Hin) as X. cbv beta in X. rewrite Ef in X. exact X.
  Qed.

  (* ------------------------------------------------------------ old subgraphs and functions (il_graph, il_func, il_func_none) *)
  Definition graphs_okb : bool :=
    forallb (fun p : gid * graph =>
               match alookup (m_subs m') (fst p) with
               | Some gr' => list_eqb N.eqb (g_ins gr') (g_ins (snd p)) && list_eqb N.eqb (g_outs gr') (map tau (g_outs (snd p)))
               | None => false
               end) (m_subs m).
  Lemma graphs_okb_sound : graphs_okb = true ->
    forall g gr, alookup (m_subs m) g = Some gr ->
      exists gr', alookup (m_subs m') g = Some gr' /\ g_ins gr' = g_ins gr /\ g_outs gr' = map tau (g_outs gr)
                  /\ Forall (formal_of m) (g_ins gr).
  Proof.
    intros H g gr E. pose proof (formal_sub m g gr E) as Hf. apply alookup_In in E.
    pose proof (forallb_In _ _ (g, gr) H E) as X. cbv beta in X. simpl in X.
    destruct (alookup (m_subs m') g) as [gr'|]; [|discriminate]. bsplit.
    exists gr'. split; [reflexivity|]. split; [apply Nlist_eqb_eq; assumption|]. split; [apply Nlist_eqb_eq; assumption | exact Hf].
  Qed.

  Definition funcs_okb : bool :=
    list_eqb opid_eqb (map f_id (m_funcs m')) (map f_id (m_funcs m))
    && forallb (fun fn2 =>
                  match find_func (m_funcs m') (f_id fn2) with
                  | Some fn2' => list_eqb N.eqb (g_ins (f_body fn2')) (g_ins (f_body fn2))
                                 && list_eqb N.eqb (g_outs (f_body fn2')) (map tau (g_outs (f_body fn2)))
                                 && list_eqb nattr_eqb (f_defaults fn2') (f_defaults fn2)
                                 && no_graph_attrs (f_defaults fn2)
                  | None => false
                  end) (m_funcs m).
  Lemma funcs_okb_ids : funcs_okb = true -> map f_id (m_funcs m') = map f_id (m_funcs m).
  Proof. unfold funcs_okb. intros H. bsplit. apply (list_eqb_sound _ opid_eqb_eq). assumption. Qed.
  Lemma funcs_okb_sound : funcs_okb = true ->
    forall op fn2, find_func (m_funcs m) op = Some fn2 ->
      exists fn2', find_func (m_funcs m') op = Some fn2' /\ g_ins (f_body fn2') = g_ins (f_body fn2)
                   /\ g_outs (f_body fn2') = map tau (g_outs (f_body fn2)) /\ f_defaults fn2' = f_defaults fn2
                   /\ Forall (formal_of m) (g_ins (f_body fn2)) /\ no_graph_attrs (f_defaults fn2) = true.
  Proof.
    unfold funcs_okb. intros H op fn2 E. bsplit. pose proof (formal_func m op fn2 E) as Hf.
    destruct (find_func_Some _ _ _ E) as [Hin Hid].
    pose proof (forallb_In _ _ fn2 H0 Hin) as X. cbv beta in X. rewrite Hid in X.
    destruct (find_func (m_funcs m') op) as [fn2'|]; [|discriminate]. bsplit.
    exists fn2'. split; [reflexivity|]. split; [apply Nlist_eqb_eq; assumption|]. split; [apply Nlist_eqb_eq; assumption|].
    split; [apply (list_eqb_sound _ nattr_eqb_eq); assumption|]. split; assumption.
  Qed.
  Lemma funcs_okb_none : funcs_okb = true -> forall op, find_func (m_funcs m) op = None -> find_func (m_funcs m') op = None.
  Proof. intros H op. apply find_func_ids. apply funcs_okb_ids. exact H. Qed.

  (* ------------------------------------------------------------ the copy map (fields il_cl_formal .. il_cl_inj) *)
  Definition clformal_okb : bool :=
    forallb (fun x => oo_eqb (cl x) (alookup (bind_formals xs (n_ins cc)) x)) xs.
  Lemma clformal_okb_sound : clformal_okb = true -> forall x, In x xs -> cl x = alookup (bind_formals xs (n_ins cc)) x.
  Proof. intros H x Hx. apply oo_eqb_eq. exact (forallb_In _ _ x H Hx). Qed.

  Definition in_copyb (o o' : option vid) : bool :=
    match o with None => is_none o' | Some x => oo_eqb (cl x) (Some o') end.
  Lemma in_copyb_sound o o' : in_copyb o o' = true -> in_copy cl o o'.
  Proof. destruct o as [x|]; simpl; intros H; [apply oo_eqb_eq | apply is_none_eq]; exact H. Qed.

  Definition gm_relb (g g' : gid) : bool := option_eqb N.eqb (gm g) (Some g').
  Lemma gm_relb_sound g g' : gm_relb g g' = true -> gm g = Some g'.
  Proof. apply option_N_eqb_eq. Qed.

  (* Cloner.clone_attr, walking the two attribute lists in parallel *)
  Fixpoint attrs_copyb (l l' : list (str * attr)) {struct l} : bool :=
    match l with
    | [] => match l' with [] => true | _ :: _ => false end
    | (k, a) :: r =>
      match a with
      | AData t p => match l' with
                     | ka' :: r' => nattr_eqb ka' (k, AData t p) && attrs_copyb r r'
                     | [] => false
                     end
      | ARef ty rr => match slookup AM rr with
                      | Some a2 => match l' with
                                   | ka' :: r' => nattr_eqb ka' (k, a2) && attrs_copyb r r'
                                   | [] => false
                                   end
                      | None => attrs_copyb r l'
                      end
      | AGraph g => match l' with
                    | (k', AGraph g') :: r' => str_eqb k' k && gm_relb g g' && attrs_copyb r r'
                    | _ => false
                    end
      | AGraphs gs => match l' with
                      | (k', AGraphs gs') :: r' => str_eqb k' k && forall2b gm_relb gs gs' && attrs_copyb r r'
                      | _ => false
                      end
      end
    end.
  Lemma attrs_copyb_sound l : forall l', attrs_copyb l l' = true -> attrs_copy AM gm l l'.
  Proof.
    induction l as [|[k a] l IH]; intros l' H.
    - destruct l'; [constructor | discriminate].
    - destruct a as [t p|g|gs|ty rr]; cbn [attrs_copyb] in H.
      + destruct l' as [|ka' r']; [discriminate|]. bsplit.
        match goal with X : nattr_eqb _ _ = true |- _ => apply nattr_eqb_eq in X; subst ka' end. constructor. auto.
      + destruct l' as [|[k' [| g' | |]] r']; try discriminate. bsplit.
        match goal with X : str_eqb _ _ = true |- _ => apply str_eqb_eq in X; subst k' end.
        constructor; [apply gm_relb_sound; assumption | auto].
      + destruct l' as [|[k' [| | gs' |]] r']; try discriminate. bsplit.
        match goal with X : str_eqb _ _ = true |- _ => apply str_eqb_eq in X; subst k' end.
        constructor; [|auto]. eapply forall2b_Forall2; [|eassumption]. intros x y Hxy. apply gm_relb_sound. exact Hxy.
      + destruct (slookup AM rr) as [a2|] eqn:Ea.
        * destruct l' as [|ka' r']; [discriminate|]. bsplit.
          match goal with X : nattr_eqb _ _ = true |- _ => apply nattr_eqb_eq in X; subst ka' end.
          eapply ac_ref; [exact Ea | auto].
        * apply ac_ref_drop; [exact Ea | auto].
  Qed.

  Definition node_copyb (n n' : node) : bool :=
    opid_eqb (n_op n') (n_op n) && Nat.eqb (length (n_outs n')) (length (n_outs n))
    && forall2b in_copyb (n_ins n) (n_ins n') && attrs_copyb (n_attrs n) (n_attrs n').
  Lemma node_copyb_sound n n' : node_copyb n n' = true -> node_copy cc fn cl gm n n'.
  Proof.
    unfold node_copyb. intros H. bsplit. constructor.
    - apply opid_eqb_eq. assumption.
    - apply Nat.eqb_eq. assumption.
    - eapply forall2b_Forall2; [|eassumption]. exact in_copyb_sound.
    - apply attrs_copyb_sound. assumption.
  Qed.

  Definition copy_caseb (u w : vid) : bool :=
    freshb w && ot_eqb (alookup (all_inits m') w) (alookup (all_inits m) u)
    && match alookup (all_inits m) u with
       | Some _ => true
       | None => match find_prod (all_nodes m) u with
                 | None => true
                 | Some (n, i) => match find_prod (all_nodes m') w with
                                  | Some (n', i') => Nat.eqb i' i && node_copyb n n'
                                  | None => false
                                  end
                 end
       end.
  Lemma copy_caseb_sound u w : copy_caseb u w = true -> copy_case s s' Fresh cc fn cl gm u w.
  Proof.
    unfold copy_caseb, copy_case. intros H. bsplit. ssem.
    split; [apply freshb_spec; assumption|]. split; [apply ot_eqb_eq; assumption|]. intros Hn.
    match goal with X : match alookup (all_inits m) u with _ => _ end = true |- _ => rewrite Hn in X; rename X into Hp end.
    destruct (find_prod (all_nodes m) u) as [[n i]|]; [|exact I].
    destruct (find_prod (all_nodes m') w) as [[n' i']|]; [|discriminate]. bsplit.
    exists n'. split; [|apply node_copyb_sound; assumption].
    match goal with X : Nat.eqb _ _ = true |- _ => apply Nat.eqb_eq in X; rewrite X end. reflexivity.
  Qed.

  (* every key of the value map, through its EFFECTIVE (first) entry *)
  Definition vm_entryb (e : vid * option vid) : bool :=
    match cl (fst e) with
    | Some (Some w) => memN (fst e) xs || copy_caseb (fst e) w
    | Some None => memN (fst e) xs
    | None => true
    end.
  Definition vm_okb : bool := forallb vm_entryb vm.
  Lemma vm_okb_none : vm_okb = true -> forall u, cl u = Some None -> In u xs.
  Proof.
    intros H u E. pose proof (forallb_In _ _ (u, None) H (alookup_In _ _ _ E)) as X. unfold vm_entryb in X. simpl in X.
    rewrite E in X. apply memN_In. exact X.
  Qed.
  Lemma vm_okb_copy : vm_okb = true -> forall u w, cl u = Some (Some w) -> In u xs \/ copy_case s s' Fresh cc fn cl gm u w.
  Proof.
    intros H u w E. pose proof (forallb_In _ _ (u, Some w) H (alookup_In _ _ _ E)) as X. unfold vm_entryb in X. simpl in X.
    rewrite E in X. apply orb_prop in X. destruct X as [X|X]; [left; apply memN_In; exact X | right; apply copy_caseb_sound; exact X].
  Qed.

  Definition fresh_vals : list vid :=
    flat_map (fun e : vid * option vid => match snd e with Some w => if freshb w then [w] else [] | None => [] end) vm.
  Definition inj_okb : bool := nodupN fresh_vals.
  Lemma inj_okb_sound : inj_okb = true ->
    forall u u' w, fv <= w /\ w < fv' -> cl u = Some (Some w) -> cl u' = Some (Some w) -> u = u'.
  Proof.
    intros H u u' w Hf E E'. apply nodupN_NoDup in H. apply alookup_In in E. apply alookup_In in E'.
    apply freshb_complete in Hf.
    destruct (NoDup_flat_map_same _ _ (u, Some w) (u', Some w) w H E E') as [X|[]].
    - simpl. rewrite Hf. left. reflexivity.
    - simpl. rewrite Hf. left. reflexivity.
    - congruence.
  Qed.

  (* ------------------------------------------------------------ copied subgraphs (il_gm) *)
  Definition nformalb (z' : vid) : bool :=
    freshb z' && is_none (alookup (all_inits m') z') && is_none (find_prod (all_nodes m') z').
  Definition gm_entryb (e : gid * gid) : bool :=
    match gm (fst e) with
    | Some g' =>
      match alookup (m_subs m) (fst e) with
      | Some gr =>
        match alookup (m_subs m') g' with
        | Some gr' => forall2b (fun z z' => oo_eqb (cl z) (Some (Some z')) && nformalb z') (g_ins gr) (g_ins gr')
                      && forall2b (fun o o' => oo_eqb (cl o) (Some (Some o'))) (g_outs gr) (g_outs gr')
        | None => false
        end
      | None => true
      end
    | None => true
    end.
  Definition gm_okb : bool := forallb gm_entryb gmap.
  Lemma gm_okb_sound : gm_okb = true ->
    forall g g' gr, gm g = Some g' -> alookup (m_subs m) g = Some gr ->
      exists gr', alookup (m_subs m') g' = Some gr'
                  /\ Forall2 (fun z z' => cl z = Some (Some z') /\ nformal' s' Fresh z') (g_ins gr) (g_ins gr')
                  /\ Forall2 (fun o o' => cl o = Some (Some o')) (g_outs gr) (g_outs gr').
  Proof.
    intros H g g' gr Eg Egr. pose proof (forallb_In _ _ (g, g') H (alookup_In _ _ _ Eg)) as X. unfold gm_entryb in X. simpl in X.
    rewrite Eg, Egr in X. destruct (alookup (m_subs m') g') as [gr'|]; [|discriminate]. bsplit.
    exists gr'. split; [reflexivity|]. split.
    - eapply forall2b_Forall2; [|eassumption]. intros z z' Hz. cbv beta in Hz. unfold nformalb in Hz. bsplit.
      split; [apply oo_eqb_eq; assumption|]. unfold nformal'. ssem.
      split; [apply freshb_spec; assumption|]. split; apply is_none_eq; assumption.
    - eapply forall2b_Forall2; [|eassumption]. intros o o' Ho. apply oo_eqb_eq. exact Ho.
  Qed.

  (* ------------------------------------------------------------ what the next step / the pass-level proof need *)
  Definition misc_okb : bool :=
    wfb m'
    && list_eqb N.eqb (g_ins (m_main m')) (g_ins (m_main m))
    && list_eqb init_eqb (g_inits (m_main m')) (g_inits (m_main m))
    && list_eqb N.eqb (g_outs (m_main m')) (map tau (g_outs (m_main m)))
    && forallb (fun v => memN v (all_formals m')) (all_formals m)
    && N.leb fv fv'
    && forallb (fun v => N.ltb v fv') (all_formals m').
  Lemma misc_okb_sound : misc_okb = true ->
    WF m' /\ g_ins (m_main m') = g_ins (m_main m) /\ g_inits (m_main m') = g_inits (m_main m)
    /\ g_outs (m_main m') = map tau (g_outs (m_main m)) /\ (forall v, formal_of m v -> formal_of m' v)
    /\ fv <= fv' /\ (forall v, formal_of m' v -> v < fv').
  Proof.
    unfold misc_okb. intros H. bsplit.
    split; [apply wfb_WF; assumption|]. split; [apply Nlist_eqb_eq; assumption|].
    split; [apply (list_eqb_sound _ init_eqb_eq); assumption|]. split; [apply Nlist_eqb_eq; assumption|].
    split; [|split].
    - intros v Hv. apply memN_In. exact (forallb_In _ _ v H2 Hv).
    - apply N.leb_le. assumption.
    - intros v Hv. apply N.ltb_lt. exact (forallb_In _ _ v H0 Hv).
  Qed.

  (* ------------------------------------------------------------ the certificate *)
  Definition inline_certb : bool :=
    call_okb && formals_okb && inits_okb && nodes_okb && callattrs_okb && graphs_okb && funcs_okb
    && clformal_okb && vm_okb && inj_okb && gm_okb && misc_okb.

  Theorem inline_cert_sound : WF m -> NoOpFunc m -> inline_certb = true ->
    InlineSim (sem_of m) (sem_of (is_m st)) (formal_of m) (fun v => fv <= v /\ v < is_fv st) (is_call st) (is_fn st)
              (alookup (is_vm st)) (alookup (is_gm st)) (sg_pairs (is_pairs st)).
  Proof.
    intros _ _ H. unfold inline_certb in H. bsplit.
    match goal with X : call_okb = true |- _ => destruct (call_okb_sound X) as [C1 [C2 [C3 [C4 C5]]]] end.
    constructor.
    - exact C1.
    - exact C2.
    - exact C3.
    - exact C4.
    - exact C5.
    - apply formals_okb_fix. assumption.
    - apply formals_okb_fresh. assumption.
    - apply inits_okb_sound. assumption.
    - apply nodes_okb_sound. assumption.
    - apply callattrs_okb_sound. assumption.
    - apply graphs_okb_sound. assumption.
    - apply funcs_okb_sound. assumption.
    - apply funcs_okb_none. assumption.
    - apply clformal_okb_sound. assumption.
    - apply vm_okb_none. assumption.
    - apply vm_okb_copy. assumption.
    - apply inj_okb_sound. assumption.
    - apply gm_okb_sound. assumption.
  Qed.

  Lemma inline_cert_misc : inline_certb = true ->
    WF m' /\ map f_id (m_funcs m') = map f_id (m_funcs m)
    /\ g_ins (m_main m') = g_ins (m_main m) /\ g_inits (m_main m') = g_inits (m_main m)
    /\ g_outs (m_main m') = map tau (g_outs (m_main m)) /\ (forall v, formal_of m v -> formal_of m' v)
    /\ fv <= fv' /\ (forall v, formal_of m' v -> v < fv').
  Proof.
    intros H. unfold inline_certb in H. bsplit.
    match goal with X : misc_okb = true |- _ => destruct (misc_okb_sound X) as [M1 [M2 [M3 [M4 [M5 [M6 M7]]]]]] end.
    split; [exact M1|]. split; [apply funcs_okb_ids; assumption|]. repeat split; assumption.
  Qed.

  Theorem inline_step_valid : WF m -> NoOpFunc m -> inline_certb = true ->
    WF (is_m st) /\ NoOpFunc (is_m st) /\ noninit_inputs (is_m st) = noninit_inputs m
    /\ length (g_outs (m_main (is_m st))) = length (g_outs (m_main m)) /\ (forall v, formal_of m v -> formal_of (is_m st) v).
  Proof.
    intros _ HN H. destruct (inline_cert_misc H) as [M1 [Mi [M2 [M3 [M4 [M5 _]]]]]].
    split; [exact M1|]. split; [|split; [|split]].
    - intros op Hop. eapply find_func_ids; [exact Mi | apply HN; exact Hop].
    - unfold noninit_inputs. rewrite M2, M3. reflexivity.
    - rewrite M4. apply map_length.
    - exact M5.
  Qed.

  (* the fresh-identity counter stays above every formal, so that the next step's `formals < fv` test can succeed *)
  Lemma inline_step_counter : inline_certb = true -> fv <= is_fv st /\ (forall v, formal_of (is_m st) v -> v < is_fv st).
  Proof. intros H. destruct (inline_cert_misc H) as [_ [_ [_ [_ [_ [_ [M6 M7]]]]]]]. auto. Qed.
End Cert.

(* ---------------------------------------------------------------- semantics of an accepted step *)
Section CertSem.
  Variable T : Type.
  Variable absent : T.
  Variable tensor_val : tensor -> T.
  Variable interp : opid -> list (str * attr) -> list (subfn T) -> list T -> nat -> option (list T).
  Hypothesis interp_mono : forall op attrs subs subs' ins k r,
      Forall2 (sub_le T) subs subs' -> interp op attrs subs ins k = Some r -> interp op attrs subs' ins k = Some r.
  Hypothesis interp_identity : forall op attrs subs x,
      is_identity_op op = true -> interp op attrs subs [x] 1%nat = Some [x].
  (* operators do not look at graph IDENTITIES (the body denotations are passed separately as `subs`) *)
  Hypothesis interp_graph_ids : forall op attrs attrs' subs ins k,
      Forall2 (fun x y => fst x = fst y /\
                          (snd x = snd y \/ (is_graph_attr (snd x) = true /\ is_graph_attr (snd y) = true
                                             /\ length (attr_graphs [x]) = length (attr_graphs [y])))) attrs attrs' ->
      interp op attrs subs ins k = interp op attrs' subs ins k.

  Theorem inline_step_computes m st fv : WF m -> NoOpFunc m -> inline_certb m st fv = true ->
    forall env r, env_ok T (formal_of m) env -> computes absent tensor_val interp m env r ->
                  computes absent tensor_val interp (is_m st) env r.
  Proof.
    intros HW HN HC env r He [f E]. exists (phi f).
    destruct (inline_cert_misc m st fv HC) as [_ [_ [_ [_ [Ho _]]]]]. rewrite Ho.
    exact (inline_outputs T absent tensor_val interp interp_mono interp_identity interp_graph_ids
                          _ _ _ _ _ _ _ _ _ (inline_cert_sound m st fv HW HN HC) f [] env _ r eq_refl He E).
  Qed.
End CertSem.

(* ---------------------------------------------------------------- the checker accepts real steps *)
Module InlineCertExamples.
  Definition OP (c : N) : opid := ([], [c], []).
  Definition OP_F := OP 70.  Definition OP_G := OP 71.  Definition OP_H := OP 72.
  Definition OP_Neg := OP 78.  Definition OP_Abs := OP 65.  Definition OP_Add := OP 43.  Definition OP_Scale := OP 83.
  Definition OP_If := OP 73.  Definition OP_Loop := OP 76.
  Definition S_alpha : str := [97].  Definition S_beta : str := [98].  Definition S_body : str := [99].
  Definition S_else : str := [101].  Definition S_then : str := [116].
  Definition t0 := mkTensor 1 [1%Z] [7%Z].

  (* main: y = F(x);  F(a) = Neg(a).   x = 1, y = 2, a = 10, Neg(a) = 11 *)
  Definition ex1 : model :=
    mkModel (mkGraph [1] [] [mkNode OP_F [] [Some 1] [2]] [2]) []
            [mkFunc OP_F (mkGraph [10] [] [mkNode OP_Neg [] [Some 10] [11]] [11]) []].
  Example inline_cert_ex1 :
    match inline_at_raw 8 ex1 2 100 50 with Some st => inline_certb ex1 st 100 | None => false end = true.
  Proof. vm_compute. reflexivity. Qed.

  (* G(a, b) with attribute parameter alpha:
       t = If(a) { then: Neg(b) ; else: Abs(<initializer>) }          (nested subgraphs 1, 2; 2 has an initializer)
       l = Loop(t) { body(i, acc): Add(acc, a) }                      (nested subgraph 3 with formal inputs, uses the outer a)
       u = Scale(l) [alpha = @alpha]
     returns (u, a): the second result is an input (Identity alternative).
     main: (y1, y2) = G(x) [alpha = 5] — the trailing argument b is omitted; z = Abs(y2); outputs (y1, z).
     H(p) with attribute parameter beta: (q1, q2) = G(p, p) [alpha = @beta]; returns q1: the call attribute is a reference. *)
  Definition bodyG : graph :=
    mkGraph [10; 11] []
            [mkNode OP_If [(S_else, AGraph 2); (S_then, AGraph 1)] [Some 10] [12];
             mkNode OP_Loop [(S_body, AGraph 3)] [Some 12] [13];
             mkNode OP_Scale [(S_alpha, ARef TY_FLOAT S_alpha)] [Some 13] [14]]
            [14; 10].
  Definition ex2 : model :=
    mkModel (mkGraph [1] [] [mkNode OP_G [(S_alpha, AData TY_FLOAT [5%Z])] [Some 1] [2; 3]; mkNode OP_Abs [] [Some 3] [4]] [2; 4])
            [(1, mkGraph [] [] [mkNode OP_Neg [] [Some 11] [30]] [30]);
             (2, mkGraph [] [(31, t0)] [mkNode OP_Abs [] [Some 31] [32]] [32]);
             (3, mkGraph [40; 41] [] [mkNode OP_Add [] [Some 41; Some 10] [42]] [42])]
            [mkFunc OP_G bodyG [];
             mkFunc OP_H (mkGraph [20] [] [mkNode OP_G [(S_alpha, ARef TY_FLOAT S_beta)] [Some 20; Some 20] [21; 22]] [21]) []].
  (* the call in the main graph *)
  Example inline_cert_ex2_main :
    match inline_at_raw 8 ex2 2 100 50 with Some st => inline_certb ex2 st 100 | None => false end = true.
  Proof. vm_compute. reflexivity. Qed.
  (* the call inside the function H (reference attribute) *)
  Example inline_cert_ex2_in_func :
    match inline_at_raw 8 ex2 21 100 50 with Some st => inline_certb ex2 st 100 | None => false end = true.
  Proof. vm_compute. reflexivity. Qed.
  (* two steps in a row: the second step is checked against the model and the counters produced by the first *)
  Example inline_cert_ex2_chain :
    match inline_at_raw 8 ex2 2 100 50 with
    | Some st1 =>
      match inline_at_raw 8 (is_m st1) 21 (is_fv st1) (is_fg st1) with
      | Some st2 => inline_certb ex2 st1 100 && inline_certb (is_m st1) st2 (is_fv st1)
      | None => false
      end
    | None => false
    end = true.
  Proof. vm_compute. reflexivity. Qed.

  (* K(a, b, c) with a default for gamma: an inner call F(a); a Loop with a LIST of graphs (4 contains an If whose
     branches 6, 7 are nested one level deeper; 7 has an initializer and uses the formal c; 4 returns the formal a; 5 returns
     an outer value of the body); Scale with a reference to the defaulted attribute and a reference without any binding
     (dropped), and an explicit None input.  Returns (16, 15, 16).
     main calls K twice (None in the middle / omitted trailing argument, an initializer as argument, default overridden).
     All five calls are inlined one after the other — K, K, the two copies of F(a), then F inside the body of K —, each step
     checked against the model and the counters the previous step produced. *)
  Definition OP_K := OP 75.
  Definition S_gs : str := [103].  Definition S_gamma : str := [104].
  Definition bodyK : graph :=
    mkGraph [10; 11; 12] []
            [mkNode OP_F [] [Some 10] [13];
             mkNode OP_Loop [(S_gs, AGraphs [4; 5])] [Some 13; Some 11] [14; 15];
             mkNode OP_Scale [(S_alpha, ARef TY_FLOAT S_gamma); (S_beta, ARef TY_INT S_beta)] [Some 14; None; Some 12] [16]]
            [16; 15; 16].
  Definition ex3 : model :=
    mkModel (mkGraph [1; 2] [(3, t0)]
                     [mkNode OP_K [] [Some 1; None; Some 3] [5; 6; 7];
                      mkNode OP_K [(S_gamma, AData TY_FLOAT [9%Z])] [Some 5; Some 6] [8; 9; 60];
                      mkNode OP_Add [] [Some 7; Some 60] [61]]
                     [8; 61; 5])
            [(4, mkGraph [40] [] [mkNode OP_If [(S_else, AGraph 6); (S_then, AGraph 7)] [Some 40] [41]] [41; 10]);
             (5, mkGraph [] [] [] [13]);
             (6, mkGraph [] [] [mkNode OP_Neg [] [Some 40] [42]] [42]);
             (7, mkGraph [] [(43, t0)] [mkNode OP_Add [] [Some 43; Some 12] [44]] [44])]
            [mkFunc OP_F (mkGraph [20] [] [mkNode OP_Neg [] [Some 20] [21]] [21]) [];
             mkFunc OP_K bodyK [(S_gamma, AData TY_FLOAT [3%Z])]].
  Definition chain_step (acc : option (model * N * N) * bool) (k : vid) : option (model * N * N) * bool :=
    match acc with
    | (Some (m, fv, fg), b) =>
      match inline_at_raw 8 m k fv fg with
      | Some st => (Some (is_m st, is_fv st, is_fg st), b && inline_certb m st fv)
      | None => (None, false)
      end
    | (None, _) => (None, false)
    end.
  Example inline_cert_ex3_chain :
    wfb ex3 = true /\ snd (fold_left chain_step [5; 8; 100; 109; 13] (Some (ex3, 100, 50), true)) = true.
  Proof. vm_compute. split; reflexivity. Qed.

  (* the checker is not vacuous the other way either: a step whose replacement pairs are dropped (uses of the call's
     outputs left dangling) and a step with a corrupted copy are rejected *)
  Definition drop_pairs (st : inl_step) : inl_step :=
    mkStep (is_m st) (is_fv st) (is_fg st) (is_call st) (is_fn st) (is_vm st) (is_gm st) [].
  Example inline_cert_rejects_1 :
    match inline_at_raw 8 ex1 2 100 50 with Some st => inline_certb ex1 (drop_pairs st) 100 | None => true end = false.
  Proof. vm_compute. reflexivity. Qed.
  Definition wrong_op (st : inl_step) : inl_step :=
    mkStep (map_graphs (map_nodes (fun n => if opid_eqb (n_op n) OP_Neg then mkNode OP_Abs (n_attrs n) (n_ins n) (n_outs n) else n)) (is_m st))
           (is_fv st) (is_fg st) (is_call st) (is_fn st) (is_vm st) (is_gm st) (is_pairs st).
  Example inline_cert_rejects_2 :
    match inline_at_raw 8 ex1 2 100 50 with Some st => inline_certb ex1 (wrong_op st) 100 | None => true end = false.
  Proof. vm_compute. reflexivity. Qed.
End InlineCertExamples.

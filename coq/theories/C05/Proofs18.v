(* C05/Proofs18.v — agreement on the live region.

   `live_agreeb m m' ids LN` is an executable check that the model m' has the same content as m on the part of m that
   is live from the main graph, the live part being given by a set LN of node keys of m that `drop_closedb m ids LN`
   (Model.v) certifies as closed.  Everything outside that region (dead functions, dead subgraph entries, dead nodes)
   may differ arbitrarily between m and m': functions / subgraphs / nodes may have been added, removed or rewritten.

   Theorem live_agree_computes: WF m, drop_closedb m ids LN and live_agreeb m m' ids LN imply that every result m
   computes is computed by m' (no assumption on m' besides the check).  It is proved with the guarded simulation SimG of
   Proofs.v exactly as Proofs14.drop_simg (L = live_value m LN, sg = identity, AE = no_graph_attrs).

   The conjuncts (a)-(e) (live_agree_coreb) are what the proof uses; conjunct (f) (la_undefb: values undefined in m stay
   undefined in m') is NOT needed by the simulation (an undefined value has no denotation in m) and only makes the check
   stricter; the theorem is stated for both. *)
From Coq Require Import ZArith NArith List Bool Lia Permutation.
From IRV Require Import Base.Exn Gen.C05Gen C05.Model C05.Proofs C05.Proofs2 C05.Proofs3 C05.Proofs4 C05.Proofs5 C05.Proofs14.
Import ListNotations. Open Scope N_scope.

(* ---------------------------------------------------------------- the checker *)
(* (a) the interface of the main graph *)
Definition la_mainb (m m' : model) : bool :=
  list_eqb N.eqb (g_ins (m_main m')) (g_ins (m_main m))
  && list_eqb init_eqb (g_inits (m_main m')) (g_inits (m_main m))
  && list_eqb N.eqb (g_outs (m_main m')) (g_outs (m_main m)).

Definition la_is_none {A} (o : option A) : bool := match o with None => true | Some _ => false end.

(* (b) (c) (d) for one live node n of m; ns' / is' = node and initializer tables of m' *)
Definition la_nodeb (ns' : list node) (is' : list (vid * tensor)) (m m' : model) (n : node) : bool :=
  forallb (fun v => match find_prod ns' v with Some (n', _) => node_eqb n' n | None => false end
                    && la_is_none (alookup is' v)) (n_outs n)
  && forallb (fun g => option_eqb graph_eqb (alookup (m_subs m') g) (alookup (m_subs m) g)) (attr_graphs (n_attrs n))
  && option_eqb func_eqb (find_func (m_funcs m') (n_op n)) (find_func (m_funcs m) (n_op n)).
Definition la_nodesb (m m' : model) (LN : list vid) : bool :=
  let ns' := all_nodes m' in
  let is' := all_inits m' in
  forallb (fun n => if memN (node_key n) LN then la_nodeb ns' is' m m' n else true) (all_nodes m).

(* (e) the initializers of m *)
Definition la_initsb (m m' : model) : bool :=
  let is := all_inits m in
  let is' := all_inits m' in
  forallb (fun vt => option_eqb tensor_eqb (alookup is' (fst vt)) (alookup is (fst vt))) is.

(* (f) values the live region can mention that are not produced / not initializers in m stay so in m' *)
Definition la_cands (m : model) (LN : list vid) : list vid :=
  all_formals m ++ g_outs (m_main m)
  ++ flat_map (fun n => if memN (node_key n) LN then
                          flat_map (fun o => match o with Some w => [w] | None => [] end) (n_ins n)
                          ++ flat_map (fun g => match alookup (m_subs m) g with Some gr => g_outs gr | None => [] end)
                                      (attr_graphs (n_attrs n))
                          ++ match find_func (m_funcs m) (n_op n) with Some fn => g_outs (f_body fn) | None => [] end
                        else []) (all_nodes m).
Definition la_undefb (m m' : model) (LN : list vid) : bool :=
  let ns := all_nodes m in
  let is := all_inits m in
  let ns' := all_nodes m' in
  let is' := all_inits m' in
  forallb (fun w => match find_prod ns w with None => la_is_none (find_prod ns' w) | Some _ => true end
                    && match alookup is w with None => la_is_none (alookup is' w) | Some _ => true end) (la_cands m LN).

Definition live_agree_coreb (m m' : model) (LN : list vid) : bool :=
  la_mainb m m' && la_nodesb m m' LN && la_initsb m m'.
(* `ids` is only the parameter of the closure certificate drop_closedb m ids LN; the agreement itself does not read it *)
Definition live_agreeb (m m' : model) (ids : list opid) (LN : list vid) : bool :=
  live_agree_coreb m m' LN && la_undefb m m' LN.

(* ---------------------------------------------------------------- soundness of the boolean equalities *)
Ltac la_bsplit := repeat match goal with H : _ && _ = true |- _ => apply andb_prop in H; destruct H end.

Lemma la_option_eqb_sound {A} (eqb : A -> A -> bool) :
  (forall x y, eqb x y = true -> x = y) -> forall a b, option_eqb eqb a b = true -> a = b.
Proof. intros H [x|] [y|] E; simpl in E; try discriminate; [f_equal; apply H; exact E | reflexivity]. Qed.
Lemma la_is_none_eq {A} (o : option A) : la_is_none o = true -> o = None.
Proof. destruct o; [discriminate | reflexivity]. Qed.
Lemma la_graph_eqb_eq a b : graph_eqb a b = true -> a = b.
Proof.
  destruct a, b. unfold graph_eqb. simpl. intros H. la_bsplit.
  f_equal; [apply Nlist_eqb_eq | apply (list_eqb_sound _ init_eqb_eq) | apply (list_eqb_sound _ node_eqb_eq) | apply Nlist_eqb_eq];
    assumption.
Qed.
Lemma la_func_eqb_eq a b : func_eqb a b = true -> a = b.
Proof.
  destruct a, b. unfold func_eqb. simpl. intros H. la_bsplit.
  f_equal; [apply opid_eqb_eq | apply la_graph_eqb_eq | apply (list_eqb_sound _ nattr_eqb_eq)]; assumption.
Qed.

(* ---------------------------------------------------------------- one soundness lemma per conjunct *)
Lemma la_mainb_sound m m' : la_mainb m m' = true ->
  g_ins (m_main m') = g_ins (m_main m) /\ g_inits (m_main m') = g_inits (m_main m) /\ g_outs (m_main m') = g_outs (m_main m).
Proof.
  unfold la_mainb. intros H. la_bsplit. repeat split.
  - apply Nlist_eqb_eq. assumption.
  - apply (list_eqb_sound _ init_eqb_eq). assumption.
  - apply Nlist_eqb_eq. assumption.
Qed.

Lemma la_nodesb_sound m m' LN : la_nodesb m m' LN = true ->
  forall n, In n (all_nodes m) -> memN (node_key n) LN = true ->
    (forall v, In v (n_outs n) -> (exists i, find_prod (all_nodes m') v = Some (n, i)) /\ alookup (all_inits m') v = None)
    /\ (forall g, In g (attr_graphs (n_attrs n)) -> alookup (m_subs m') g = alookup (m_subs m) g)
    /\ find_func (m_funcs m') (n_op n) = find_func (m_funcs m) (n_op n).
Proof.
  unfold la_nodesb. cbv zeta. intros H n Hin Hk.
  pose proof (forallb_In _ _ n H Hin) as Hn. cbv beta in Hn. rewrite Hk in Hn. unfold la_nodeb in Hn. la_bsplit.
  split; [|split].
  - intros v Hv. match goal with X : forallb _ (n_outs n) = true |- _ => pose proof (forallb_In _ _ v X Hv) as Hx end.
    cbv beta in Hx. la_bsplit. split.
    + destruct (find_prod (all_nodes m') v) as [[n' i']|]; [|discriminate].
      exists i'. match goal with X : node_eqb _ _ = true |- _ => apply node_eqb_eq in X; subst n' end. reflexivity.
    + apply la_is_none_eq. assumption.
  - intros g Hg. match goal with X : forallb _ (attr_graphs _) = true |- _ => pose proof (forallb_In _ _ g X Hg) as Hx end.
    cbv beta in Hx. apply (la_option_eqb_sound _ la_graph_eqb_eq). exact Hx.
  - apply (la_option_eqb_sound _ la_func_eqb_eq). assumption.
Qed.

Lemma la_initsb_sound m m' : la_initsb m m' = true ->
  forall v t, alookup (all_inits m) v = Some t -> alookup (all_inits m') v = Some t.
Proof.
  unfold la_initsb. cbv zeta. intros H v t E.
  pose proof (forallb_In _ _ (v, t) H (alookup_In _ _ _ E)) as Hx. cbv beta in Hx. simpl fst in Hx.
  rewrite <- E. apply (la_option_eqb_sound _ tensor_eqb_eq). exact Hx.
Qed.

(* what (f) means (not used by the semantic theorem) *)
Lemma la_undefb_sound m m' LN : la_undefb m m' LN = true ->
  forall w, In w (la_cands m LN) ->
    (find_prod (all_nodes m) w = None -> find_prod (all_nodes m') w = None)
    /\ (alookup (all_inits m) w = None -> alookup (all_inits m') w = None).
Proof.
  unfold la_undefb. cbv zeta. intros H w Hw. pose proof (forallb_In _ _ w H Hw) as Hx. cbv beta in Hx. la_bsplit.
  split; intros E; match goal with X : context [match _ with None => _ | Some _ => true end] |- _ => rewrite E in X end;
    apply la_is_none_eq; assumption.
Qed.

Lemma live_agreeb_core m m' ids LN : live_agreeb m m' ids LN = true -> live_agree_coreb m m' LN = true.
Proof. unfold live_agreeb. intros H. apply andb_prop in H. tauto. Qed.

(* ---------------------------------------------------------------- the interface is unchanged *)
Lemma live_agree_core_interface m m' LN : live_agree_coreb m m' LN = true ->
  noninit_inputs m' = noninit_inputs m /\ g_outs (m_main m') = g_outs (m_main m).
Proof.
  unfold live_agree_coreb. intros H. la_bsplit.
  match goal with X : la_mainb _ _ = true |- _ => destruct (la_mainb_sound _ _ X) as [E1 [E2 E3]] end.
  split; [|exact E3]. unfold noninit_inputs. rewrite E1, E2. reflexivity.
Qed.
Lemma live_agree_interface m m' ids LN : live_agreeb m m' ids LN = true ->
  noninit_inputs m' = noninit_inputs m /\ g_outs (m_main m') = g_outs (m_main m).
Proof. intros H. exact (live_agree_core_interface m m' LN (live_agreeb_core _ _ _ _ H)). Qed.

(* ---------------------------------------------------------------- the semantic theorem *)
Section LiveAgree.
  Variable T : Type.
  Variable absent : T.
  Variable tensor_val : tensor -> T.
  Variable interp : opid -> list (str * attr) -> list (subfn T) -> list T -> nat -> option (list T).
  Hypothesis interp_mono : forall op attrs subs subs' ins k r,
      Forall2 (sub_le T) subs subs' -> interp op attrs subs ins k = Some r -> interp op attrs subs' ins k = Some r.
  Hypothesis interp_identity : forall op attrs subs x,
      is_identity_op op = true -> interp op attrs subs [x] 1%nat = Some [x].
  Hypothesis interp_trailing_absent : forall op attrs subs ins k,
      interp op attrs subs (ins ++ [absent]) k = interp op attrs subs ins k.

  Notation computes := (computes absent tensor_val interp).

  Section Agree.
    Variables (m m' : model) (ids : list opid) (LN : list vid).
    Hypothesis HW : WF m.
    Hypothesis HC : drop_closedb m ids LN = true.
    Hypothesis HA : live_agree_coreb m m' LN = true.

    Lemma la_parts : la_mainb m m' = true /\ la_nodesb m m' LN = true /\ la_initsb m m' = true.
    Proof. unfold live_agree_coreb in HA. la_bsplit. auto. Qed.

    Lemma live_agree_simg :
      SimG T tensor_val interp (fun v => live_value m LN v = true) (formal_of m) (fun v => v)
           (sem_of m) (sem_of m') (fun aenv => no_graph_attrs aenv = true).
    Proof.
      destruct la_parts as [HM [HN HI]].
      pose proof (la_nodesb_sound m m' LN HN) as HNs. pose proof (la_initsb_sound m m' HI) as HIs.
      constructor.
      - (* attribute environments never hold graphs *)
        intros v n i fn aenv HL Ep Ef Ha. simpl in Ep, Ef.
        destruct (live_ok m ids LN HC v n i HL Ep) as [Hk Hok]. destruct (lno_func _ _ _ _ _ Hok Ef) as [_ [Hna [Hnd _]]].
        apply nga_app; [apply resolve_nga; assumption | exact Hnd].
      - reflexivity.
      - intros v HL. simpl.
        destruct (alookup (all_inits m) v) as [t|] eqn:Ei.
        + eapply VInit; simpl; eauto.
        + destruct (find_prod (all_nodes m) v) as [[n i]|] eqn:Ep; [|apply VNone; simpl; assumption].
          destruct (live_ok m ids LN HC v n i HL Ep) as [Hk Hok]. destruct (find_prod_In _ _ _ _ Ep) as [Hin Hidx].
          destruct (HNs n Hin Hk) as [Hout _].
          destruct (Hout v (index_of_In _ _ _ Hidx)) as [[i' Ep'] Ei'].
          assert (i' = i) by (destruct (find_prod_In _ _ _ _ Ep') as [_ Hidx']; congruence). subst i'.
          eapply VNode with (n := n) (i := i) (n' := n); simpl; eauto.
          * constructor; try reflexivity. exists (map (option_map (fun v => v)) (n_ins n)), O, O. simpl. rewrite !app_nil_r.
            split; [reflexivity|]. rewrite <- (map_id (n_ins n)) at 1. apply map_ext. intros [w|]; reflexivity.
          * intros w Hw. eapply lno_ins; eauto.
      - intros g [v [n [i [aenv [Ha [HL [Ep Hg]]]]]]] gr Eg. simpl in *.
        destruct (live_ok m ids LN HC v n i HL Ep) as [Hk Hok]. destruct (find_prod_In _ _ _ _ Ep) as [Hin _].
        destruct (HNs n Hin Hk) as [_ [Hsub _]].
        exists gr. rewrite map_id. split; [|auto].
        rewrite (Hsub g (attr_graphs_resolve_incl _ _ _ Ha Hg)). exact Eg.
      - intros g [v [n [i [aenv [Ha [HL [Ep Hg]]]]]]] gr Eg. simpl in *.
        split; [eapply formal_sub; eauto|].
        destruct (live_ok m ids LN HC v n i HL Ep) as [Hk Hok]. apply live_Forall.
        eapply lno_sub; eauto. eapply attr_graphs_resolve_incl; eauto.
      - intros op [v [n [i [HL [Ep Hop]]]]] fn Ef. simpl in *. subst op.
        destruct (live_ok m ids LN HC v n i HL Ep) as [Hk Hok]. destruct (find_prod_In _ _ _ _ Ep) as [Hin _].
        destruct (HNs n Hin Hk) as [_ [_ Hfn]].
        exists fn. rewrite map_id. split; [rewrite Hfn; exact Ef | auto].
      - intros op [v [n [i [HL [Ep Hop]]]]] Ef. simpl in *. subst op.
        destruct (live_ok m ids LN HC v n i HL Ep) as [Hk Hok]. destruct (find_prod_In _ _ _ _ Ep) as [Hin _].
        destruct (HNs n Hin Hk) as [_ [_ Hfn]]. rewrite Hfn. exact Ef.
      - intros op [v [n [i [HL [Ep Hop]]]]] fn Ef. simpl in *. subst op.
        split; [eapply formal_func; eauto|].
        destruct (live_ok m ids LN HC v n i HL Ep) as [Hk Hok]. destruct (lno_func _ _ _ _ _ Hok Ef) as [_ [_ [_ Ho]]].
        apply live_Forall. exact Ho.
    Qed.

    Lemma live_agree_computes_sec env r :
      env_ok T (formal_of m) env -> computes m env r -> computes m' env r.
    Proof.
      intros He [f E]. exists f. unfold den_list in *.
      destruct la_parts as [HM _]. destruct (la_mainb_sound _ _ HM) as [_ [_ Eo]]. rewrite Eo.
      eapply map_opt_impl; [|exact E]. intros x y Hx Hy.
      destruct (closed_parts m ids LN HC) as [_ H4].
      exact (simg_refines T absent tensor_val interp interp_mono interp_identity interp_trailing_absent
                          (fun v => live_value m LN v = true) (formal_of m) (fun v => v) (sem_of m) (sem_of m')
                          (fun aenv => no_graph_attrs aenv = true) live_agree_simg
                          f [] env x y eq_refl He (forallb_In _ _ x H4 Hx) Hy).
    Qed.
  End Agree.

  (* the theorem for the conjuncts the proof needs ... *)
  Theorem live_agree_core_computes m m' ids LN :
    WF m -> drop_closedb m ids LN = true -> live_agree_coreb m m' LN = true ->
    forall env r, env_ok T (formal_of m) env -> computes m env r -> computes m' env r.
  Proof. intros HW HC HA env r. apply (live_agree_computes_sec m m' ids LN HC HA). Qed.

  (* ... and for the full check *)
  Theorem live_agree_computes m m' ids LN :
    WF m -> drop_closedb m ids LN = true -> live_agreeb m m' ids LN = true ->
    forall env r, env_ok T (formal_of m) env -> computes m env r -> computes m' env r.
  Proof. intros HW HC HA. apply (live_agree_core_computes m m' ids LN HW HC (live_agreeb_core _ _ _ _ HA)). Qed.
End LiveAgree.

(* ---------------------------------------------------------------- sanity: the check is not vacuously false *)
Module LiveAgreeExamples.
  Definition OP (c : N) : opid := ([], [c], []).
  Definition OP_F := OP 70.  Definition OP_Neg := OP 78.  Definition OP_Abs := OP 65.  Definition OP_Relu := OP 82.

  (* main: y = Neg(x)  (x = 1, y = 2);  F(a) = Abs(a)  (a = 10, b = 11), never called *)
  Definition mainG : graph := mkGraph [1] [] [mkNode OP_Neg [] [Some 1] [2]] [2].
  Definition M : model := mkModel mainG [] [mkFunc OP_F (mkGraph [10] [] [mkNode OP_Abs [] [Some 10] [11]] [11]) []].
  Definition D : model := drop_funcs [] M.
  Definition LN : list vid := [2].

  Example D_has_no_function : m_funcs D = [].
  Proof. vm_compute. reflexivity. Qed.

  (* 1. adding a dead function (the reverse of Proofs14), and removing it *)
  Example closed_D : drop_closedb D [] LN = true.
  Proof. vm_compute. reflexivity. Qed.
  Example agree_D_M : live_agreeb D M [] LN = true.
  Proof. vm_compute. reflexivity. Qed.
  Example closed_M : drop_closedb M [] LN = true.
  Proof. vm_compute. reflexivity. Qed.
  Example agree_M_D : live_agreeb M D [] LN = true.
  Proof. vm_compute. reflexivity. Qed.

  (* 2. the dead function rewritten and a dead subgraph entry appended *)
  Definition M2 : model :=
    mkModel mainG [(5, mkGraph [] [] [mkNode OP_Neg [] [Some 1] [20]] [20])]
            [mkFunc OP_F (mkGraph [10] [] [mkNode OP_Relu [] [Some 10] [11]] [11]) []].
  Example agree_M_M2 : live_agreeb M M2 [] LN = true.
  Proof. vm_compute. reflexivity. Qed.

  (* 3. negative: the operator of the live main node changed *)
  Definition M3 : model :=
    mkModel (mkGraph [1] [] [mkNode OP_Abs [] [Some 1] [2]] [2]) [] (m_funcs M).
  Example disagree_M_M3 : live_agreeb M M3 [] LN = false.
  Proof. vm_compute. reflexivity. Qed.
  (* more negatives: a live value became an initializer; the main outputs changed; a called function changed *)
  Definition M4 : model :=
    mkModel (mkGraph [1] [(2, mkTensor 1 [1%Z] [7%Z])] [mkNode OP_Neg [] [Some 1] [2]] [2]) [] (m_funcs M).
  Example disagree_M_M4 : live_agreeb M M4 [] LN = false.
  Proof. vm_compute. reflexivity. Qed.
  Definition M5 : model := mkModel (mkGraph [1] [] [mkNode OP_Neg [] [Some 1] [2]] [1]) [] (m_funcs M).
  Example disagree_M_M5 : live_agreeb M M5 [] LN = false.
  Proof. vm_compute. reflexivity. Qed.
  (* C: main calls F; LN = main node and the body node; rewriting the body of the LIVE function is rejected *)
  Definition C : model :=
    mkModel (mkGraph [1] [] [mkNode OP_F [] [Some 1] [2]] [2]) [] (m_funcs M).
  Definition C2 : model :=
    mkModel (mkGraph [1] [] [mkNode OP_F [] [Some 1] [2]] [2]) []
            [mkFunc OP_F (mkGraph [10] [] [mkNode OP_Relu [] [Some 10] [11]] [11]) []].
  Example closed_C : drop_closedb C [OP_F] [2; 11] = true.
  Proof. vm_compute. reflexivity. Qed.
  Example agree_C_C : live_agreeb C C [OP_F] [2; 11] = true.
  Proof. vm_compute. reflexivity. Qed.
  Example disagree_C_C2 : live_agreeb C C2 [OP_F] [2; 11] = false.
  Proof. vm_compute. reflexivity. Qed.
End LiveAgreeExamples.

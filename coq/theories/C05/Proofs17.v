(* C05/Proofs17.v — InlinePass as a whole: every certified step refines the model (Proofs15 + InlineCert), the loop over
   call sites (nested calls, calls inside subgraphs and inside functions) is an iteration of certified steps, and the
   final deletion of the inlined functions is certified by drop_closedb (Proofs14). *)
From Coq Require Import ZArith NArith List Bool Lia.
From IRV Require Import Base.Exn Gen.C05Gen C05.Model C05.Inline C05.Proofs C05.Proofs2 C05.Proofs3 C05.Proofs14 C05.Proofs15
     C05.Proofs4 C05.Proofs18 C05.InlineCert C05.InlinePass.
Import ListNotations.
Open Scope N_scope.

Section InlineAll.
  Variable T : Type.
  Variable absent : T.
  Variable tensor_val : tensor -> T.
  Variable interp : opid -> list (str * attr) -> list (subfn T) -> list T -> nat -> option (list T).
  Hypothesis interp_mono : forall op attrs subs subs' ins k r,
      Forall2 (sub_le T) subs subs' -> interp op attrs subs ins k = Some r -> interp op attrs subs' ins k = Some r.
  Hypothesis interp_identity : forall op attrs subs x,
      is_identity_op op = true -> interp op attrs subs [x] 1%nat = Some [x].
  Hypothesis interp_trailing_absent : forall op attrs subs ins k,
      interp op attrs subs (ins ++ [absent]) k = interp op attrs subs ins k.
  (* operators see the denotations of their bodies, not the identities of the graphs *)
  Hypothesis interp_graph_ids : forall op attrs attrs' subs ins k,
      Forall2 (fun x y => fst x = fst y /\ (snd x = snd y \/ (is_graph_attr (snd x) = true /\ is_graph_attr (snd y) = true
                                                              /\ length (attr_graphs [x]) = length (attr_graphs [y])))) attrs attrs' ->
      interp op attrs subs ins k = interp op attrs' subs ins k.
  Notation computes := (computes absent tensor_val interp).

  (* the invariant carried along the certified steps, relative to the initial model m0 *)
  Record Good (m0 m : model) : Prop := {
    gd_wf : WF m;
    gd_nf : NoOpFunc m;
    gd_comp : forall env r, env_ok T (fun v => In v (noninit_inputs m0)) env -> computes m0 env r -> computes m env r;
    gd_inputs : noninit_inputs m = noninit_inputs m0;
    gd_nouts : length (g_outs (m_main m)) = length (g_outs (m_main m0)) }.

  Lemma NI_formal' m v : In v (noninit_inputs m) -> formal_of m v.
  Proof.
    unfold noninit_inputs, formal_of, all_formals, graphs_of. intros H. apply filter_In in H. destruct H as [H _].
    simpl. apply in_app_iff. left. exact H.
  Qed.

  Lemma Good_refl m : WF m -> NoOpFunc m -> Good m m.
  Proof. intros. constructor; auto. Qed.

  Lemma env_ok_mono (P Q : vid -> Prop) env : (forall v, P v -> Q v) -> env_ok T P env -> env_ok T Q env.
  Proof. intros H He v t Hv. apply H. eapply He; eauto. Qed.

  Lemma step_good m0 m f k fv fg m' fv' fg' : Good m0 m -> inline_at_c f m k fv fg = Some (m', fv', fg') -> Good m0 m'.
  Proof.
    intros [HW HN Hc Hi Ho] E. unfold inline_at_c in E.
    destruct (inline_at_raw f m k fv fg) as [st|] eqn:Er; [|discriminate].
    destruct (inline_certb m st fv) eqn:Ec; [|discriminate]. inversion E; subst; clear E.
    destruct (inline_step_valid m st fv HW HN Ec) as [HW' [HN' [Hi' [Ho' Hf']]]].
    constructor; auto; try congruence.
    intros env r He Hcm. eapply (inline_step_computes T absent tensor_val interp interp_mono interp_identity interp_graph_ids m st fv HW HN Ec).
    - eapply env_ok_mono; [|exact He]. intros v Hv. apply NI_formal'. rewrite Hi. exact Hv.
    - apply Hc; assumption.
  Qed.

  Definition GoodS (m0 : model) (st : istate) : Prop := Good m0 (fst (fst (fst st))).

  Lemma ig_loop_good m0 rec f r : (forall r' st, GoodS m0 st -> GoodS m0 (rec r' st)) ->
    forall steps pos st, GoodS m0 st -> GoodS m0 (ig_loop rec f r steps pos st).
  Proof.
    intros Hrec. induction steps as [|steps IHs]; intros pos st HG; [exact HG|].
    destruct st as [[[m fv] fg] inld]. cbn [ig_loop].
    destruct (get_gref m r) as [g|]; [|exact HG].
    destruct (nth_error (g_nodes g) pos) as [n|]; [|exact HG].
    destruct (is_call_node m n).
    - destruct (inline_at_c f m (node_key n) fv fg) as [[[m' fv'] fg']|] eqn:E.
      + apply IHs. unfold GoodS in *. cbn [fst snd] in *. eapply step_good; eauto.
      + apply IHs. exact HG.
    - apply IHs.
      assert (Hfold : forall gs st0, GoodS m0 st0 -> GoodS m0 (fold_left (fun st sg => rec (GSub sg) st) gs st0)).
      { induction gs as [|sg gs IHg]; intros st0 H0; cbn [fold_left]; [exact H0|]. apply IHg. apply Hrec. exact H0. }
      apply Hfold. exact HG.
  Qed.

  Lemma inline_graph_good m0 : forall fuel r st, GoodS m0 st -> GoodS m0 (inline_graph_c fuel r st).
  Proof.
    induction fuel as [|f IHf]; intros r st HG; [exact HG|].
    cbn [inline_graph_c]. apply ig_loop_good; [|exact HG]. intros r' st' H'. apply IHf. exact H'.
  Qed.

  Lemma inline_funcs_good m0 fuel done st : GoodS m0 st -> GoodS m0 (inline_funcs_c fuel done st).
  Proof.
    unfold inline_funcs_c. generalize (seq 0 (length (m_funcs (fst (fst (fst st)))))) as idx. intros idx. revert st.
    induction idx as [|i idx IH]; intros st HG; simpl; [exact HG|]. apply IH.
    destruct st as [[[mm a] b] c]. destruct (nth_error (m_funcs mm) i) as [fn|]; [|exact HG].
    destruct (existsb (opid_eqb (f_id fn)) done); [exact HG | apply inline_graph_good; exact HG].
  Qed.

  Lemma delete_good m0 fuel inld m : Good m0 m -> Good m0 (delete_inlined fuel inld m).
  Proof.
    intros [HW HN Hc Hi Ho]. unfold delete_inlined.
    set (keep := filter (fun op => negb (existsb (opid_eqb op) inld)) (map f_id (m_funcs m))).
    destruct (drop_closedb m keep (live_keys fuel keep m) && dropped_bodies_no_inits m keep) eqn:E; [|constructor; assumption].
    apply andb_prop in E. destruct E as [E1 E2].
    constructor.
    - apply drop_funcs_WF. exact HW.
    - apply drop_funcs_NoOpFunc. exact HN.
    - intros env r He Hcm.
      eapply (drop_funcs_computes T absent tensor_val interp interp_mono interp_identity interp_trailing_absent m keep (live_keys fuel keep m) HW E1).
      + unfold extra_ok. rewrite (live_keys_dropped_dead fuel keep m HW). exact E2.
      + eapply env_ok_mono; [|exact He]. intros v Hv. apply NI_formal'. rewrite Hi. exact Hv.
      + apply Hc; assumption.
    - rewrite drop_funcs_noninit_inputs. exact Hi.
    - rewrite drop_funcs_outputs. exact Ho.
  Qed.

  Lemma noopfuncb_sound m : noopfuncb m = true -> NoOpFunc m.
  Proof.
    intros H op Hop. destruct (find_func (m_funcs m) op) as [fn|] eqn:E; [|reflexivity]. exfalso.
    pose proof (find_func_In _ _ _ E) as Hin. unfold find_func in E. apply find_some in E. destruct E as [_ E].
    apply opid_eqb_eq in E. pose proof (forallb_In _ _ fn H Hin) as Hx. simpl in Hx. rewrite E in Hx.
    apply negb_true_iff in Hx. apply orb_false_iff in Hx. destruct Hx as [X1 X2]. destruct Hop; congruence.
  Qed.

  Lemma dead_rest_good m0 fuel m1 mf : Good m0 m1 -> dead_rest_okb fuel m1 mf = true -> Good m0 mf.
  Proof.
    intros [HW HN Hc Hi Ho] H. unfold dead_rest_okb in H.
    destruct (drop_closedb m1 [] (live_keys fuel [] m1)) eqn:E1; [|discriminate].
    destruct (live_agreeb m1 mf [] (live_keys fuel [] m1)) eqn:E2; [|discriminate].
    destruct (wfb mf) eqn:E3; [|discriminate].
    destruct (live_agree_interface m1 mf [] _ E2) as [A B].
    constructor.
    - apply wfb_WF. exact E3.
    - apply noopfuncb_sound. exact H.
    - intros env r He Hcm.
      eapply (live_agree_computes T absent tensor_val interp interp_mono interp_identity interp_trailing_absent m1 mf [] _ HW E1 E2).
      + eapply env_ok_mono; [|exact He]. intros v Hv. apply NI_formal'. rewrite Hi. exact Hv.
      + apply Hc; assumption.
    - congruence.
    - rewrite B. exact Ho.
  Qed.

  Theorem inline_pass_c_good fuel m fv fg : WF m -> NoOpFunc m -> Good m (inline_pass_c fuel m fv fg).
  Proof.
    intros HW HN. unfold inline_pass_c.
    assert (G1 : GoodS m (inline_graph_c fuel GMain (m, fv, fg, []))).
    { apply (inline_graph_good m fuel GMain _). unfold GoodS. simpl. apply Good_refl; assumption. }
    destruct (dead_rest_okb fuel _ _) eqn:E.
    - eapply dead_rest_good; [exact G1 | exact E].
    - apply delete_good. apply (inline_funcs_good m fuel _ _). exact G1.
  Qed.
End InlineAll.

(* C05/Proofs7.v — inserting Identity nodes in front of graph outputs (OutputFixPass, the graph-output path of CSE):
   a simulation in which the fuel doubles (each aliased output costs one more step). *)
From Coq Require Import ZArith NArith List Bool Lia Permutation.
From IRV Require Import Base.Exn Gen.C05Gen C05.Model C05.Proofs C05.Proofs2 C05.Proofs3 C05.Proofs4 C05.Proofs5.
Import ListNotations.
Open Scope N_scope.

Lemma map_opt_Forall2 {A B} (R : A -> A -> Prop) (F G : A -> option B) l l' ys :
  Forall2 R l l' -> (forall x x' y, R x x' -> F x = Some y -> G x' = Some y) -> map_opt F l = Some ys -> map_opt G l' = Some ys.
Proof.
  intros HR H. revert ys. induction HR as [|x x' l l' Hx HR IH]; intros ys E; simpl in *; [exact E|].
  destruct (F x) as [y|] eqn:Fx; [|discriminate]. destruct (map_opt F l) as [ys'|] eqn:Fl; [|discriminate].
  rewrite (H x x' y Hx Fx), (IH ys' eq_refl). exact E.
Qed.

Lemma Forall2_nth_error_l {A B} (R : A -> B -> Prop) l l' i x :
  Forall2 R l l' -> nth_error l i = Some x -> exists y, nth_error l' i = Some y /\ R x y.
Proof.
  intros H. revert i. induction H as [|a b l l' Hab H IH]; intros i E; [destruct i; discriminate|].
  destruct i as [|i]; simpl in *; [injection E as <-; eauto | apply IH; exact E].
Qed.

Section Alias.
  Variable T : Type.
  Variable absent : T.
  Variable tensor_val : tensor -> T.
  Variable interp : opid -> list (str * attr) -> list (subfn T) -> list T -> nat -> option (list T).
  Hypothesis interp_mono : forall op attrs subs subs' ins k r,
      Forall2 (sub_le T) subs subs' -> interp op attrs subs ins k = Some r -> interp op attrs subs' ins k = Some r.
  Hypothesis interp_identity : forall op attrs subs x,
      is_identity_op op = true -> interp op attrs subs [x] 1%nat = Some [x].
  Notation D := (den T absent tensor_val interp).

  Variables (s s' : sem) (F formal : vid -> Prop).

  (* o' stands for o: either the same value, or a fresh Identity of it *)
  Definition alias_rel (o o' : vid) : Prop :=
    o' = o \/ (F o' /\ ~ F o /\ s_init s' o' = None /\
               exists idn, s_prod s' o' = Some (idn, O) /\ is_identity_op (n_op idn) = true /\ n_ins idn = [Some o]
                           /\ length (n_outs idn) = 1%nat /\ s_func s' (n_op idn) = None).

  Record AliasSim : Prop := {
    al_init : forall v, ~ F v -> s_init s' v = s_init s v;
    al_prod : forall v, ~ F v -> s_prod s' v = s_prod s v;
    al_fresh : forall v, F v -> s_init s v = None /\ s_prod s v = None /\ ~ formal v;
    al_graph : forall g gr, s_graph s g = Some gr ->
                 exists gr', s_graph s' g = Some gr' /\ g_ins gr' = g_ins gr /\ Forall2 alias_rel (g_outs gr) (g_outs gr');
    al_graph_formal : forall g gr, s_graph s g = Some gr -> Forall formal (g_ins gr);
    al_func : forall op fn, s_func s op = Some fn ->
                 exists fn', s_func s' op = Some fn' /\ g_ins (f_body fn') = g_ins (f_body fn)
                             /\ Forall2 alias_rel (g_outs (f_body fn)) (g_outs (f_body fn')) /\ f_defaults fn' = f_defaults fn;
    al_func_none : forall op, s_func s op = None -> s_func s' op = None;
    al_func_formal : forall op fn, s_func s op = Some fn -> Forall formal (g_ins (f_body fn)) }.

  Lemma env_ok_bind' ins args env : Forall formal ins -> env_ok T formal env -> env_ok T formal (bind T absent ins args ++ env).
  Proof.
    intros Hf He. revert args. induction ins as [|x ins IH]; intros args v t; simpl; [apply He|].
    inversion Hf; subst.
    destruct args as [|a args]; simpl; (destruct (N.eqb x v) eqn:E; [apply N.eqb_eq in E; subst; intros _; assumption | apply IH; assumption]).
  Qed.

  Hypothesis HA : AliasSim.

  Lemma alias_step f aenv env o o' r : env_ok T formal env ->
    (forall v r0, D s f aenv env v = Some r0 -> D s' (2 * f) aenv env v = Some r0) ->
    alias_rel o o' -> D s f aenv env o = Some r -> D s' (S (2 * f)) aenv env o' = Some r.
  Proof.
    intros He IH [->|[HF [HnF [Hi [idn [Hp [Hid [Hins [Hlen Hfn]]]]]]]]] E.
    - apply (den_mono T absent tensor_val interp interp_mono). apply IH. exact E.
    - cbn [den].
      assert (Henv : alookup env o' = None).
      { destruct (alookup env o') eqn:El; [|reflexivity]. exfalso. destruct (al_fresh HA o' HF) as [_ [_ Hnf]]. apply Hnf. eapply He; eauto. }
      rewrite Henv, Hi, Hp, Hins. cbn [map_opt]. rewrite (IH o r E), Hfn, Hlen. rewrite (interp_identity _ _ _ r Hid). reflexivity.
  Qed.

  Theorem alias_refines : forall f aenv env v r, env_ok T formal env ->
    D s f aenv env v = Some r -> D s' (2 * f) aenv env v = Some r.
  Proof.
    induction f as [|f IH]; intros aenv env v r He E; [discriminate|].
    replace (2 * S f)%nat with (S (S (2 * f))) by lia.
    cbn [den] in E.
    destruct (alookup env v) as [t|] eqn:Eenv. { cbn [den]. rewrite Eenv. exact E. }
    assert (HnF : ~ F v).
    { intros HF. destruct (al_fresh HA v HF) as [A [B _]]. rewrite A, B in E. discriminate. }
    cbn [den]. rewrite Eenv, (al_init HA v HnF), (al_prod HA v HnF).
    destruct (s_init s v) as [t|]; [exact E|].
    destruct (s_prod s v) as [[n i]|]; [|discriminate].
    destruct (map_opt _ (n_ins n)) as [tins|] eqn:Eins; [|discriminate].
    erewrite (map_opt_impl _ (fun o => match o with None => Some absent | Some w => D s' (S (2 * f)) aenv env w end)); [| |exact Eins].
    2:{ intros [w|] y _ Hy; [|exact Hy]. apply (den_mono T absent tensor_val interp interp_mono). apply IH; assumption. }
    destruct (s_func s (n_op n)) as [fn|] eqn:Efn.
    - destruct (al_func HA _ _ Efn) as [fn' [Efn' [Hfi [Hfo Hfd]]]]. rewrite Efn'.
      destruct (nth_error (g_outs (f_body fn)) i) as [o|] eqn:Eo; [|discriminate].
      destruct (Forall2_nth_error_l _ _ _ _ _ Hfo Eo) as [o' [Eo' Hrel]]. rewrite Eo', Hfi, Hfd.
      apply alias_step with (o := o); auto.
      + rewrite <- (app_nil_r (bind T absent (g_ins (f_body fn)) tins)). apply env_ok_bind'; [apply (al_func_formal HA _ _ Efn)|]. intros ? ?; discriminate.
      + intros v0 r0. apply IH.
        rewrite <- (app_nil_r (bind T absent (g_ins (f_body fn)) tins)). apply env_ok_bind'; [apply (al_func_formal HA _ _ Efn)|]. intros ? ?; discriminate.
    - rewrite (al_func_none HA _ Efn).
      destruct (interp (n_op n) _ _ tins _) as [outs|] eqn:Ei; [|discriminate].
      erewrite interp_mono; [exact E| |exact Ei].
      apply Forall2_map_same. intros g _ args r' Hr.
      destruct (s_graph s g) as [gr|] eqn:Eg; [|discriminate].
      destruct (al_graph HA _ _ Eg) as [gr' [Eg' [Hgi Hgo]]]. rewrite Eg', Hgi.
      pose proof (al_graph_formal HA _ _ Eg) as Hgf.
      eapply map_opt_Forall2; [exact Hgo| |exact Hr].
      intros x x' y Hx Hy. apply alias_step with (o := x); auto.
      + apply env_ok_bind'; assumption.
      + intros v0 r0. apply IH. apply env_ok_bind'; assumption.
  Qed.

  Corollary alias_outputs f aenv env outs outs' r : env_ok T formal env -> Forall2 alias_rel outs outs' ->
    map_opt (D s f aenv env) outs = Some r -> map_opt (D s' (S (2 * f)) aenv env) outs' = Some r.
  Proof.
    intros He HR E. eapply map_opt_Forall2; [exact HR| |exact E].
    intros x x' y Hx Hy. apply alias_step with (o := x); auto. intros; apply alias_refines; assumption.
  Qed.
End Alias.

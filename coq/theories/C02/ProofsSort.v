From Coq Require Import ZArith NArith List Bool Lia Permutation.
From IRV Require Import Base.Exn Gen.C02Gen C02.Model C02.Proofs1.
Import ListNotations.

Lemma str_leb_refl (a : str) : str_leb a a = true.
Proof.
  induction a as [|x a IH]; simpl; [reflexivity|].
  rewrite N.ltb_irrefl, N.eqb_refl. exact IH.
Qed.

Lemma str_leb_antisym (a b : str) : str_leb a b = true -> str_leb b a = true -> a = b.
Proof.
  revert b. induction a as [|x a IH]; intros [|y b]; simpl; try discriminate; try reflexivity.
  destruct (N.ltb_spec x y), (N.ltb_spec y x), (N.eqb_spec x y), (N.eqb_spec y x);
    try lia; try discriminate.
  subst. intros H1 H2. f_equal. apply IH; assumption.
Qed.

Lemma str_leb_trans (a b c : str) : str_leb a b = true -> str_leb b c = true -> str_leb a c = true.
Proof.
  revert b c. induction a as [|x a IH]; intros [|y b] [|z c]; simpl; try discriminate; try reflexivity.
  destruct (N.ltb_spec x y), (N.ltb_spec y z), (N.ltb_spec x z),
           (N.eqb_spec x y), (N.eqb_spec y z), (N.eqb_spec x z);
    try lia; try discriminate; try reflexivity.
  subst. apply IH.
Qed.

Lemma kinsert_perm {V} (x : str * V) l : Permutation (x :: l) (kinsert x l).
Proof.
  induction l as [|y r IH]; simpl.
  - apply Permutation_refl.
  - destruct (str_leb (fst x) (fst y)).
    + apply Permutation_refl.
    + eapply Permutation_trans; [apply perm_swap|]. apply perm_skip. exact IH.
Qed.

Lemma ksort_perm_self {V} (l : list (str * V)) : Permutation l (ksort l).
Proof.
  induction l as [|x r IH]; simpl.
  - apply perm_nil.
  - eapply Permutation_trans; [apply perm_skip; exact IH|]. apply kinsert_perm.
Qed.

Lemma ksorted_head_le {V} (r : list (str * V)) :
  forall x, ksorted (x :: r) -> forall y, In y r -> str_leb (fst x) (fst y) = true.
Proof.
  induction r as [|z r IH]; intros x Hs y Hin.
  - destruct Hin.
  - destruct Hs as [Hx Hr]. destruct Hin as [E|Hin].
    + subst. exact Hx.
    + eapply str_leb_trans; [exact Hx|]. apply (IH z Hr y Hin).
Qed.

Lemma ksorted_perm_unique {V} :
  forall l1 l2 : list (str * V),
    ksorted l1 -> ksorted l2 -> Permutation l1 l2 -> NoDup (map fst l1) -> l1 = l2.
Proof.
  induction l1 as [|x r1 IH]; intros l2 S1 S2 P ND.
  - apply Permutation_nil in P. symmetry. exact P.
  - destruct l2 as [|y r2].
    + apply Permutation_sym, Permutation_nil in P. discriminate.
    + assert (Exy : x = y).
      { assert (Hx : In x (y :: r2)) by (eapply Permutation_in; [exact P | left; reflexivity]).
        assert (Hy : In y (x :: r1))
          by (eapply Permutation_in; [apply Permutation_sym; exact P | left; reflexivity]).
        destruct Hx as [E|Hx]; [symmetry; exact E|].
        destruct Hy as [E|Hy]; [exact E|].
        exfalso.
        assert (Ek : fst x = fst y).
        { apply str_leb_antisym.
          - eapply ksorted_head_le; [exact S1 | exact Hy].
          - eapply ksorted_head_le; [exact S2 | exact Hx]. }
        simpl in ND. inversion ND as [|k ks Hnin Hnd]; subst.
        apply Hnin. rewrite Ek. apply in_map. exact Hy. }
      subst y. f_equal. apply IH.
      * destruct S1 as [_ S1]. exact S1.
      * destruct S2 as [_ S2]. exact S2.
      * eapply Permutation_cons_inv. exact P.
      * simpl in ND. inversion ND; assumption.
Qed.

Lemma ksort_perm {V} (a b : list (str * V)) :
  Permutation a b -> NoDup (map fst a) -> ksort a = ksort b.
Proof.
  intros P ND. apply ksorted_perm_unique.
  - apply ksort_sorted.
  - apply ksort_sorted.
  - eapply Permutation_trans; [apply Permutation_sym; apply ksort_perm_self|].
    eapply Permutation_trans; [exact P|]. apply ksort_perm_self.
  - eapply Permutation_NoDup; [apply Permutation_map; apply ksort_perm_self | exact ND].
Qed.

Lemma filter_partition_perm {A} (f : A -> bool) (l : list A) :
  Permutation l (filter f l ++ filter (fun x => negb (f x)) l).
Proof.
  induction l as [|a l IH]; simpl.
  - apply perm_nil.
  - destruct (f a); simpl.
    + apply perm_skip. exact IH.
    + apply Permutation_cons_app. exact IH.
Qed.


(* graph stage, part 3: the name tables of a well-formed graph and success of deser_graph_body *)
From Coq Require Import ZArith NArith List Bool Lia.
From IRV Require Import Base.Exn Gen.C02Gen C02.Model C02.Model2 C02.Norm C02.Proofs1 C02.Proofs2 C02.Proofs3.
From IRV Require Import C02.ProofsG1 C02.ProofsG2.
Import ListNotations.
Open Scope Z_scope.

Lemma lookup_self l k : lookup k (map (fun x : str => (x, x)) l) = if in_str k l then Some k else None.
Proof.
  induction l as [|x r IH]; simpl; [reflexivity|].
  destruct (str_eqb k x) eqn:E; simpl; [apply str_eqb_eq in E; subst; reflexivity | exact IH].
Qed.

Lemma scope_ok_dset (k : str) (v : IValue) (d : list (str * IValue)) : scope_ok d -> v_name v = k -> scope_ok (dset k v d).
Proof.
  intros Hd Hv. induction d as [|[k0 v0] r IH]; simpl.
  - constructor; [exact Hv | constructor].
  - unfold scope_ok in Hd. apply Forall_cons_iff in Hd. destruct Hd as [Hx Hl]. destruct (str_eqb k k0) eqn:E.
    + apply str_eqb_eq in E. constructor; [simpl; congruence | exact Hl].
    + constructor; [exact Hx | apply IH; exact Hl].
Qed.
Lemma scope_ok_fold {X} (key : X -> str) (f : X -> option IValue -> IValue) xs :
  (forall x o, (forall v, o = Some v -> v_name v = key x) -> v_name (f x o) = key x) ->
  forall cur, scope_ok cur ->
  scope_ok (fold_left (fun c x => dset (key x) (f x (lookup (key x) c)) c) xs cur).
Proof.
  intros Hf. induction xs as [|x r IH]; intros cur Hc; simpl; [exact Hc|].
  apply IH. apply scope_ok_dset; [exact Hc|]. apply Hf. intros v Hv. eapply lookup_ok; eassumption.
Qed.

Lemma v_name_maybe_quant qs k v : v_name (maybe_quant qs k v) = v_name v.
Proof. unfold maybe_quant. destruct (lookup k qs); reflexivity. Qed.
Lemma v_name_minfo vis k v : v_name (minfo vis k v) = v_name v.
Proof. unfold minfo. destruct (lookup k vis); reflexivity. Qed.
Lemma v_name_init_new vis qs t : v_name (init_new vis qs t) = tname t.
Proof. unfold init_new. cbv zeta. rewrite v_name_maybe_quant. cbn [v_name]. rewrite v_name_minfo. reflexivity. Qed.
Lemma v_name_out_new vis qs k : v_name (out_new vis qs k) = k.
Proof. unfold out_new. rewrite v_name_maybe_quant, v_name_minfo. reflexivity. Qed.
Lemma v_name_in_val qs vi : v_name (in_val qs vi) = vname vi.
Proof. unfold in_val. rewrite v_name_maybe_quant. reflexivity. Qed.

Section GraphTables.
  Variable g : GraphP.
  Variables (allow_dev : bool) (visible : list str).
  Hypothesis W : wfg_props allow_dev visible g.

  Let qs := quant_dict (g_quant g).
  Let vis := vinfo_dict (g_vinfo g).
  Let ins := map vname (g_inputs g).
  Let inits := map tname (g_inits g).
  Let nouts := node_out_names (g_nodes g).
  Let outs := map vname (g_outputs g).

  Definition T0 : scope := map (fun vi => (vname vi, in_val (quant_dict (g_quant g)) vi)) (g_inputs g).
  Definition T1 : scope :=
    fold_left (fun c t => dset (tname t) (initf (vinfo_dict (g_vinfo g)) (quant_dict (g_quant g)) t (lookup (tname t) c)) c)
              (g_inits g) T0.
  Definition T2 : scope :=
    fold_left (fun c k => dset k (out_new (vinfo_dict (g_vinfo g)) (quant_dict (g_quant g)) k) c)
              (node_out_names (g_nodes g)) T1.
  Definition T3 : scope :=
    fold_left (fun c vi => dset (vname vi) (outf vi (lookup (vname vi) c)) c) (g_outputs g) T2.

  Lemma vis_keyed : vis = map (fun vi => (vname vi, vi)) (g_vinfo g).
  Proof.
    unfold vis, vinfo_dict. apply dict_of_nodup. unfold wf_dict. rewrite map_map. simpl.
    apply nodup_str_NoDup. exact (w_vis_nd _ _ _ W).
  Qed.
  Lemma vis_is_wf : vis_wf vis.
  Proof.
    intros k vi H. rewrite vis_keyed in H. apply lookup_keyed_in in H. destruct H as [Hin _].
    exact (forallb_In _ _ _ (w_vis_wf _ _ _ W) Hin).
  Qed.

  Lemma LT0 k : lookup k T0 = option_map (in_val qs) (lookup k (map (fun vi => (vname vi, vi)) (g_inputs g))).
  Proof. unfold T0. apply (lookup_keyed_map vname (in_val qs)). Qed.
  Lemma LT1 k : lookup k T1 = match lookup k (map (fun t => (tname t, t)) (g_inits g)) with
                             | Some t => Some (initf vis qs t (lookup k T0))
                             | None => lookup k T0 end.
  Proof. unfold T1. apply (fold_table tname (initf vis qs)). exact (w_inits_nd _ _ _ W). Qed.
  Lemma LT2 k : lookup k T2 = if in_str k nouts then Some (out_new vis qs k) else lookup k T1.
  Proof.
    unfold T2. rewrite (fold_table (fun x : str => x) (fun x _ => out_new vis qs x)).
    - rewrite lookup_self. fold nouts. destruct (in_str k nouts); reflexivity.
    - rewrite map_id. exact (w_nouts_nd _ _ _ W).
  Qed.
  Lemma LT3 k : lookup k T3 = match lookup k (map (fun vi => (vname vi, vi)) (g_outputs g)) with
                             | Some o => Some (outf o (lookup k T2))
                             | None => lookup k T2 end.
  Proof. unfold T3. apply (fold_table vname outf). exact (w_outs_nd _ _ _ W). Qed.

  (* membership *)
  Lemma mem_T0 k : mem k T0 = in_str k ins.
  Proof.
    unfold mem. rewrite LT0. destruct (lookup k (map (fun vi => (vname vi, vi)) (g_inputs g))) eqn:E; simpl.
    - apply lookup_keyed_in in E. destruct E as [Hin <-]. symmetry. apply in_str_In. apply in_map. exact Hin.
    - apply lookup_keyed_none in E. symmetry. apply in_str_false. exact E.
  Qed.
  Lemma mem_T1 k : mem k T1 = in_str k ins || in_str k inits.
  Proof.
    unfold mem at 1. rewrite LT1. destruct (lookup k (map (fun t => (tname t, t)) (g_inits g))) eqn:E.
    - apply lookup_keyed_in in E. destruct E as [Hin <-].
      assert (Hi : in_str (tname t) inits = true) by (apply in_str_In; apply in_map; exact Hin).
      rewrite Hi, orb_true_r. reflexivity.
    - apply lookup_keyed_none in E. apply in_str_false in E. fold inits in E. rewrite E, orb_false_r.
      apply mem_T0.
  Qed.
  Lemma mem_T2 k : mem k T2 = in_str k ins || in_str k inits || in_str k nouts.
  Proof.
    unfold mem at 1. rewrite LT2. destruct (in_str k nouts); [rewrite orb_true_r; reflexivity|].
    rewrite orb_false_r. apply mem_T1.
  Qed.
  Lemma mem_T2_decl k : In k (declared g) -> mem k T2 = true.
  Proof.
    intros H. rewrite mem_T2. unfold declared in H. apply in_app_or in H. destruct H as [H|H].
    - apply in_str_In in H. fold ins in H. rewrite H. reflexivity.
    - apply in_app_or in H. destruct H as [H|H]; apply in_str_In in H.
      + fold inits in H. rewrite H, orb_true_r. reflexivity.
      + fold nouts in H. rewrite H, orb_true_r. reflexivity.
  Qed.

  Lemma T0_ok : scope_ok T0.
  Proof.
    unfold T0, scope_ok. apply Forall_forall. intros [k v] Hin. apply in_map_iff in Hin.
    destruct Hin as (vi & E & _). inversion E; subst. simpl. apply v_name_in_val.
  Qed.
  Lemma T1_ok : scope_ok T1.
  Proof.
    unfold T1. apply scope_ok_fold; [|exact T0_ok].
    intros t o Ho. unfold initf. destruct o as [v|]; [|apply v_name_init_new].
    simpl. apply Ho. reflexivity.
  Qed.
  Lemma T2_ok : scope_ok T2.
  Proof.
    unfold T2. apply (scope_ok_fold (fun x : str => x) (fun x _ => out_new vis qs x)); [|exact T1_ok].
    intros x o _. apply v_name_out_new.
  Qed.

  (* the phases of _deserialize_graph on a well-formed graph *)
  Lemma phase_inputs :
    mapM (fun vi => v <- apply_info vi (new_value (dflt [] (vi_name vi))) ;; Ok (v_name v, maybe_quant qs (v_name v) v))
         (g_inputs g) = Ok T0.
  Proof. apply inputs_phase. exact (w_ins_wf _ _ _ W). Qed.
  Lemma dict_T0 : dict_of T0 = T0.
  Proof.
    apply dict_of_nodup. unfold wf_dict, T0. rewrite map_map. simpl. apply nodup_str_NoDup. exact (w_ins_nd _ _ _ W).
  Qed.
  Lemma phase_inits : foldM (deser_init vis qs) (g_inits g) (T0, []) = Ok (T1, inits).
  Proof. rewrite (foldM_init vis qs (g_inits g) vis_is_wf (w_inits_ok _ _ _ W)). reflexivity. Qed.
  Lemma phase_declare : foldM (declare_outputs vis qs) (g_nodes g) T1 = Ok T2.
  Proof.
    rewrite foldM_declare. unfold T2, node_out_names.
    apply foldM_decl1; [exact vis_is_wf | exact (w_nouts_nd _ _ _ W) |].
    intros k Hk. rewrite mem_T1. destruct (w_nouts_disj _ _ _ W k Hk) as [H1 H2].
    apply in_str_false in H1. apply in_str_false in H2. fold ins in H1. fold inits in H2. rewrite H1, H2. reflexivity.
  Qed.
  Lemma phase_outputs :
    mapS deser_goutput (g_outputs g) T2 = Ok (map (fun vi => OKey (vname vi)) (g_outputs g), T3).
  Proof.
    apply mapS_goutput; [exact (w_outs_wf _ _ _ W)|].
    intros vi Hin. apply mem_T2_decl. apply (w_outs_decl _ _ _ W). apply in_map. exact Hin.
  Qed.
End GraphTables.

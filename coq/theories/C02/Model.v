(* C02/Model.v — executable Gallina model of onnx_ir.serde (proto -> IR -> proto).

   Part 1: strings, dictionaries, proto datatypes mirroring onnx.proto at field level
   (presence = option for optional scalars), IR datatypes, deser_* / ser_* for
   dimensions, shapes, types, tensors.  Part 2 (Model2.v): attributes, value-info, nodes, graphs
   with scoped name tables, functions, models.  Part 3 (Norm.v): the documented normalisation
   `norm`, the well-formedness predicate `wf`, decidable equality used by the case files.

   Conventions
   - str = list N (code points / bytes).  dict = association list in insertion order (a Python dict
     or a repeated StringStringEntryProto; the converter reads key/value of an entry with defaults,
     i.e. presence of key/value inside an entry is erased: unset = "").
   - `Raise _` only means "the implementation raises" (every error is wrapped into SerdeError
     by serde._capture_errors, so the class is not observable); `Raise OtherError` is also used
     for the few situations the model does not describe (listed where they occur).
   - Functions are written after the Python code, statement by statement; comments give the
     serde.py function they transcribe. *)
From Coq Require Import ZArith NArith List Bool Lia.
From IRV Require Import Base.Exn Gen.C02Gen.
Import ListNotations.
Open Scope Z_scope.

Notation str := (list N).
Notation dict := (list (list N * list N)).

(* ------------------------------------------------------------------ result monad *)
Notation "x <- e ;; k" := (res_bind e (fun x => k)) (at level 61, e at next level, right associativity).

Definition mapM {A B} (f : A -> res B) : list A -> res (list B) :=
  fix go (l : list A) : res (list B) :=
    match l with
    | [] => Ok []
    | x :: r => y <- f x ;; ys <- go r ;; Ok (y :: ys)
    end.

(* fold with a state, collecting outputs *)
Definition mapS {A B S} (f : S -> A -> res (B * S)) : list A -> S -> res (list B * S) :=
  fix go (l : list A) (s : S) : res (list B * S) :=
    match l with
    | [] => Ok ([], s)
    | x :: r => ys <- f s x ;; zs <- go r (snd ys) ;; Ok (fst ys :: fst zs, snd zs)
    end.

Definition foldM {A S} (f : S -> A -> res S) : list A -> S -> res S :=
  fix go (l : list A) (s : S) : res S :=
    match l with
    | [] => Ok s
    | x :: r => s' <- f s x ;; go r s'
    end.

(* ------------------------------------------------------------------ strings *)
Definition str_eqb (a b : str) : bool := list_eqb N.eqb a b.

(* Python's str/bytes ordering: lexicographic on code points / bytes *)
Fixpoint str_leb (a b : str) : bool :=
  match a, b with
  | [], _ => true
  | _ :: _, [] => false
  | x :: a', y :: b' => if (x <? y)%N then true else if (x =? y)%N then str_leb a' b' else false
  end.

Definition dflt {A} (d : A) (o : option A) : A := match o with Some x => x | None => d end.
Definition nonempty {A} (l : list A) : bool := match l with [] => false | _ => true end.
(* `if x: proto.field = x` : empty strings / None are not written *)
Definition truthy (o : option str) : option str :=
  match o with Some (c :: s) => Some (c :: s) | _ => None end.
Definition truthy_s (s : str) : option str := match s with [] => None | _ => Some s end.
Definition truthy_z (z : Z) : option Z := if z =? 0 then None else Some z.

(* ------------------------------------------------------------------ dictionaries *)
Section Assoc.
  Context {V : Type}.
  Fixpoint lookup (k : str) (d : list (str * V)) : option V :=
    match d with
    | [] => None
    | (k', v) :: r => if str_eqb k k' then Some v else lookup k r
    end.
  Definition mem (k : str) (d : list (str * V)) : bool :=
    match lookup k d with Some _ => true | None => false end.
  (* d[k] = v : update in place or append at the end (insertion order) *)
  Fixpoint dset (k : str) (v : V) (d : list (str * V)) : list (str * V) :=
    match d with
    | [] => [(k, v)]
    | (k', v') :: r => if str_eqb k k' then (k', v) :: r else (k', v') :: dset k v r
    end.
  (* {k: v for k, v in l} and dict.update *)
  Definition dupdate (d : list (str * V)) (l : list (str * V)) : list (str * V) :=
    fold_left (fun acc kv => dset (fst kv) (snd kv) acc) l d.
  Definition dict_of (l : list (str * V)) : list (str * V) := dupdate [] l.
End Assoc.

Definition in_str (k : str) (l : list str) : bool := existsb (str_eqb k) l.
Fixpoint nodup_str (l : list str) : bool :=
  match l with [] => true | x :: r => negb (in_str x r) && nodup_str r end.
Fixpoint dedup_str (seen l : list str) : list str :=
  match l with
  | [] => []
  | x :: r => if in_str x seen then dedup_str seen r else x :: dedup_str (x :: seen) r
  end.

(* sorted(d) by key — insertion sort; keys are unique in a dict so the result does not depend on
   the algorithm *)
Section Sort.
  Context {V : Type}.
  Fixpoint kinsert (x : str * V) (l : list (str * V)) : list (str * V) :=
    match l with
    | [] => [x]
    | y :: r => if str_leb (fst x) (fst y) then x :: y :: r else y :: kinsert x r
    end.
  Fixpoint ksort (l : list (str * V)) : list (str * V) :=
    match l with [] => [] | x :: r => kinsert x (ksort r) end.
End Sort.

(* decimal printing / parsing of non-negative integers (external_data offset and length:
   `int(entry.value)` in onnx.external_data_helper.ExternalDataInfo, `str(v)` in serialize_tensor_into) *)
Definition digit (n : N) : N := (48 + n)%N.
Fixpoint to_dec_fuel (fuel : nat) (n : N) (acc : str) : str :=
  match fuel with
  | O => acc
  | S f => let acc' := digit (n mod 10) :: acc in
           if (n / 10 =? 0)%N then acc' else to_dec_fuel f (n / 10) acc'
  end.
Definition to_dec (z : Z) : str :=
  let n := Z.to_N z in to_dec_fuel (S (N.size_nat n)) n [].
Fixpoint parse_dec_go (s : str) (acc : N) : option N :=
  match s with
  | [] => Some acc
  | c :: r => if ((48 <=? c) && (c <=? 57))%N then parse_dec_go r (acc * 10 + (c - 48))%N else None
  end.
(* digits-only strings are parsed exactly as Python's int(); anything else (sign, blanks, '_',
   non-ASCII digits, garbage) is outside the model *)
Definition parse_dec (s : str) : option Z :=
  match s with [] => None | _ => option_map Z.of_N (parse_dec_go s 0%N) end.

(* ------------------------------------------------------------------ enums *)
Definition valid_dtype (z : Z) : bool := existsb (Z.eqb z) datatype_values.
Definition valid_attrtype (z : Z) : bool := existsb (Z.eqb z) attrtype_values.

(* ================================================================== protos: shapes and types *)
Inductive DimVal : Type := DVal (z : Z) | DParam (s : str) | DUnset.   (* oneof value *)
Record Dim : Type := mkDim { d_val : DimVal; d_den : option str }.

Inductive TypeP : Type :=
| TTensor (elem : option Z) (shape : option (list Dim)) (den : option str)
| TSparse (elem : option Z) (shape : option (list Dim)) (den : option str)
| TSeq (elem : option TypeP) (den : option str)
| TOpt (elem : option TypeP) (den : option str)
| TMap (den : option str)                 (* map_type: payload not represented, deserialization raises *)
| TUnset (den : option str).              (* oneof value not set *)

(* IR side *)
Inductive IDim : Type := IInt (z : Z) | ISym (s : option str).
Notation IShape := (list (IDim * option str)).        (* Shape(dims, denotations) *)
Inductive IType : Type :=
| ITensor (dt : Z) (den : option str)
| ISparse (dt : Z) (den : option str)
| ISeq (e : IType) (den : option str)
| IOpt (e : IType) (den : option str).

(* serde.deserialize_dimension *)
Definition deser_dim (d : Dim) : IDim * option str :=
  (match d_val d with DVal z => IInt z | DParam s => ISym (Some s) | DUnset => ISym None end, d_den d).
(* serde.deserialize_tensor_shape *)
Definition deser_shape (s : list Dim) : IShape := map deser_dim s.

(* serde.deserialize_type_proto_for_shape *)
Fixpoint type_shape (t : TypeP) : res (option IShape) :=
  match t with
  | TTensor _ sh _ | TSparse _ sh _ => Ok (option_map deser_shape sh)
  | TSeq e _ | TOpt e _ => match e with None => Ok None | Some t' => type_shape t' end
  | TMap _ => Raise OtherError
  | TUnset _ => Ok None
  end.

(* serde.deserialize_type_proto_for_type *)
Fixpoint type_type (t : TypeP) : res (option IType) :=
  match t with
  | TTensor e _ den =>
      match e with None => Ok None
      | Some z => if valid_dtype z then Ok (Some (ITensor z den)) else Raise ValueError end
  | TSparse e _ den =>
      match e with None => Ok None
      | Some z => if valid_dtype z then Ok (Some (ISparse z den)) else Raise ValueError end
  | TSeq e den =>
      match e with None => Raise ValueError
      | Some t' => match type_type t' with
                   | Ok (Some it) => Ok (Some (ISeq it den))
                   | Ok None => Raise ValueError
                   | Raise x => Raise x end end
  | TOpt e den =>
      match e with None => Raise ValueError
      | Some t' => match type_type t' with
                   | Ok (Some it) => Ok (Some (IOpt it den))
                   | Ok None => Raise ValueError
                   | Raise x => Raise x end end
  | TMap _ => Raise OtherError
  | TUnset _ => Ok None
  end.

(* serde.serialize_type_into (into a fresh TypeProto) *)
Fixpoint ser_type (t : IType) : TypeP :=
  match t with
  | ITensor dt den => TTensor (Some dt) None (truthy den)
  | ISparse dt den => TSparse (Some dt) None (truthy den)
  | ISeq e den => TSeq (Some (ser_type e)) (truthy den)
  | IOpt e den => TOpt (Some (ser_type e)) (truthy den)
  end.

(* serde.serialize_dimension_into *)
Definition ser_dim (d : IDim * option str) : Dim :=
  mkDim (match fst d with IInt z => DVal z | ISym (Some s) => DParam s | ISym None => DUnset end)
        (truthy (snd d)).

(* serde.serialize_shape_into: walk to the leaf tensor type and (re)write its shape; give up when a
   level has no value set *)
Fixpoint ser_shape_into (t : TypeP) (sh : IShape) : TypeP :=
  match t with
  | TTensor e _ den => TTensor e (Some (map ser_dim sh)) den
  | TSparse e _ den => TSparse e (Some (map ser_dim sh)) den
  | TSeq (Some t') den => TSeq (Some (ser_shape_into t' sh)) den
  | TOpt (Some t') den => TOpt (Some (ser_shape_into t' sh)) den
  | _ => t
  end.

(* the pair of statements `if type is not None: serialize_type_into(..); if shape is not None:
   serialize_shape_into(..)` used by serialize_value_into and the TYPE_PROTO attributes *)
Definition ser_type_shape (ty : option IType) (sh : option IShape) : TypeP :=
  let t0 := match ty with
            | Some t => ser_type t
            | None => match sh with
                      | Some _ => TTensor None None None   (* shape without type: `tensor_type.SetInParent()` *)
                      | None => TUnset None
                      end
            end in
  match sh with Some s => ser_shape_into t0 s | None => t0 end.

(* ================================================================== protos: tensors *)
Record TensorP : Type := mkTensorP {
  t_dims : list Z;
  t_dtype : option Z;
  t_name : option str;
  t_doc : option str;
  t_loc : option Z;                 (* data_location: 0 DEFAULT, 1 EXTERNAL *)
  t_raw : option (list N);          (* raw_data *)
  t_strs : list (list N);           (* string_data *)
  t_other : list (N * list N);      (* other populated payload fields: (field number, canonical bytes) for
                                       float_data 4, int32_data 5, int64_data 7, double_data 10, uint64_data 11 *)
  t_ext : dict;                     (* external_data entries *)
  t_meta : dict }.                  (* metadata_props *)

Definition STRING_DT : Z := DataType_STRING.

(* IR tensors produced by serde.deserialize_tensor *)
Inductive ITensorV : Type :=
| IProto (p : TensorP) (meta : dict)       (* TensorProtoTensor: keeps the proto; metadata read at construction *)
| IExt (location : str) (offset length : option Z) (dtype : Z) (name : option str) (dims : list Z)
       (doc : option str) (meta : dict)
       (extra : dict)                      (* ExternalTensor; meta["external_data_extra_entries"]: the
                                              external_data entries other than location/offset/length, in order *)
| IStr (data : list (list N)) (dims : list Z) (name : option str) (doc : option str) (meta : dict). (* StringTensor *)

Definition k_location : str := [108;111;99;97;116;105;111;110]%N.
Definition k_offset : str := [111;102;102;115;101;116]%N.
Definition k_length : str := [108;101;110;103;116;104]%N.
Definition k_checksum : str := [99;104;101;99;107;115;117;109]%N.
Definition k_basepath : str := [98;97;115;101;112;97;116;104]%N.
Definition ext_interpreted (k : str) : bool :=      (* serde._INTERPRETED_EXTERNAL_DATA_KEYS *)
  str_eqb k k_location || str_eqb k k_offset || str_eqb k k_length.
Definition ext_allowed (k : str) : bool :=
  str_eqb k k_location || str_eqb k k_offset || str_eqb k k_length || str_eqb k k_checksum || str_eqb k k_basepath.

(* onnx.external_data_helper.ExternalDataInfo: setattr for the allowed keys (last wins), int() of
   offset/length, which must be non-negative (always true for digit strings) *)
Definition ext_int (o : option str) : res (option Z) :=
  match o with
  | None => Ok None
  | Some s => match parse_dec s with Some z => Ok (Some z) | None => Raise OtherError end
  end.

(* serde.deserialize_tensor *)
Definition deser_tensor (t : TensorP) : res ITensorV :=
  if dflt 0 (t_loc t) =? 1 then
    let info := dict_of (filter (fun kv => ext_allowed (fst kv)) (t_ext t)) in
    off <- ext_int (lookup k_offset info) ;;
    len <- ext_int (lookup k_length info) ;;
    if valid_dtype (dflt 0 (t_dtype t)) then
      Ok (IExt (dflt [] (lookup k_location info)) off len (dflt 0 (t_dtype t)) (t_name t) (t_dims t)
               (t_doc t) (dict_of (t_meta t))
               (filter (fun kv => negb (ext_interpreted (fst kv))) (t_ext t)))
    else Raise ValueError
  else if dflt 0 (t_dtype t) =? STRING_DT then
    Ok (IStr (t_strs t) (t_dims t) (t_name t) (t_doc t) (dict_of (t_meta t)))
  else Ok (IProto t (dict_of (t_meta t))).

Definition itensor_dtype (t : ITensorV) : Z :=
  match t with
  | IProto p _ => dflt 0 (t_dtype p)
  | IExt _ _ _ dt _ _ _ _ _ => dt
  | IStr _ _ _ _ _ => STRING_DT
  end.
Definition itensor_dims (t : ITensorV) : list Z :=
  match t with IProto p _ => t_dims p | IExt _ _ _ _ _ d _ _ _ => d | IStr _ d _ _ _ => d end.
Definition itensor_name (t : ITensorV) : option str :=
  match t with IProto p _ => t_name p | IExt _ _ _ _ n _ _ _ _ => n | IStr _ _ n _ _ => n end.

(* `value.const_value.name = value.name` (TensorProtoTensor.name setter writes into the kept proto) *)
Definition itensor_set_name (t : ITensorV) (n : str) : ITensorV :=
  match t with
  | IProto p m => IProto (mkTensorP (t_dims p) (t_dtype p) (Some n) (t_doc p) (t_loc p) (t_raw p) (t_strs p)
                                    (t_other p) (t_ext p) (t_meta p)) m
  | IExt l o len dt _ d doc m ex => IExt l o len dt (Some n) d doc m ex
  | IStr data d _ doc m => IStr data d (Some n) doc m
  end.

Definition opt_entry (k : str) (v : option Z) : dict :=
  match v with Some z => [(k, to_dec z)] | None => [] end.

(* serde.serialize_tensor_into (with the fix "proto-backed tensor metadata_props are not duplicated") *)
Definition ser_tensor (t : ITensorV) : TensorP :=
  match t with
  | IProto p m =>
      mkTensorP (t_dims p) (t_dtype p) (t_name p) (t_doc p) (t_loc p) (t_raw p) (t_strs p) (t_other p)
                (t_ext p) (ksort m)
  | IExt l off len dt n d doc m ex =>
      mkTensorP d (Some dt) (truthy n) (truthy doc) (Some 1) None [] []
                ((k_location, l) :: opt_entry k_offset off ++ opt_entry k_length len ++ ex) (ksort m)
  | IStr data d n doc m =>
      mkTensorP d (Some STRING_DT) (truthy n) (truthy doc) None None data [] [] (ksort m)
  end.

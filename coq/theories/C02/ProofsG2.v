(* graph stage, part 2: unpacking wf_graph, the tables T0..T3, success of _deserialize_graph *)
From Coq Require Import ZArith NArith List Bool Lia.
From IRV Require Import Base.Exn Gen.C02Gen C02.Model C02.Model2 C02.Norm C02.Proofs1 C02.Proofs2 C02.Proofs3.
From IRV Require Import C02.ProofsG1.
Import ListNotations.
Open Scope Z_scope.

Lemma wf_graph_eq allow_dev visible g :
  wf_graph allow_dev visible g =
  (let ins := map vname (g_inputs g) in
  let inits := map tname (g_inits g) in
  let nouts := node_out_names (g_nodes g) in
  let outs := map vname (g_outputs g) in
  let vis := map vname (g_vinfo g) in
  let qs := map (fun q => dflt [] (qa_name q)) (g_quant g) in
  let decl := ins ++ inits ++ nouts in
  nodup_str ins && nodup_str inits && nodup_str nouts && disjoint nouts (ins ++ inits)
  && forallb nonempty ins && forallb nonempty inits
  && forallb wf_vinfo (g_inputs g) && forallb wf_vinfo (g_outputs g) && forallb wf_vinfo (g_vinfo g)
  && forallb (fun t => wf_tensor t && valid_dtype (dflt 0 (t_dtype t))) (g_inits g)
  && nodup_str outs && forallb (fun o => in_str o decl) outs
  && forallb (fun o => forallb (fun i => negb (str_eqb (vname i) (vname o))
                                         || vinfo_eqb (norm_vinfo i) (norm_vinfo o)) (g_inputs g)) (g_outputs g)
  && nodup_str vis && forallb nonempty vis && disjoint vis (ins ++ outs)
  && nodup_str qs && forallb (fun q => wf_dict (qa_params q) && nonempty (qa_params q)) (g_quant g)
  && forallb (fun q => in_str q decl) qs
  && wf_dict (g_meta g)
  && forallb (wf_node allow_dev (wf_graph allow_dev) (visible ++ decl)) (g_nodes g)).
Proof. destruct g. reflexivity. Qed.

Record wfg_props (allow_dev : bool) (visible : list str) (g : GraphP) : Prop := {
  w_ins_nd : NoDup (map vname (g_inputs g));
  w_inits_nd : NoDup (map tname (g_inits g));
  w_nouts_nd : NoDup (node_out_names (g_nodes g));
  w_nouts_disj : forall k, In k (node_out_names (g_nodes g)) ->
                 ~ In k (map vname (g_inputs g)) /\ ~ In k (map tname (g_inits g));
  w_ins_ne : forall k, In k (map vname (g_inputs g)) -> k <> [];
  w_inits_ne : forall k, In k (map tname (g_inits g)) -> k <> [];
  w_ins_wf : forallb wf_vinfo (g_inputs g) = true;
  w_outs_wf : forallb wf_vinfo (g_outputs g) = true;
  w_vis_wf : forallb wf_vinfo (g_vinfo g) = true;
  w_inits_ok : Forall init_ok (g_inits g);
  w_outs_nd : NoDup (map vname (g_outputs g));
  w_outs_decl : forall k, In k (map vname (g_outputs g)) -> In k (declared g);
  w_pass : forall i o, In i (g_inputs g) -> In o (g_outputs g) -> vname i = vname o ->
           vinfo_eqb (norm_vinfo i) (norm_vinfo o) = true;
  w_vis_nd : NoDup (map vname (g_vinfo g));
  w_vis_ne : forall k, In k (map vname (g_vinfo g)) -> k <> [];
  w_vis_disj : forall k, In k (map vname (g_vinfo g)) ->
               ~ In k (map vname (g_inputs g)) /\ ~ In k (map vname (g_outputs g));
  w_qs_nd : NoDup (map (fun q => dflt [] (qa_name q)) (g_quant g));
  w_qs_wf : forall q, In q (g_quant g) -> wf_dict (qa_params q) = true /\ qa_params q <> [];
  w_qs_decl : forall k, In k (map (fun q => dflt [] (qa_name q)) (g_quant g)) -> In k (declared g);
  w_meta : wf_dict (g_meta g) = true;
  w_nodes : forallb (wf_node allow_dev (wf_graph allow_dev) (visible ++ declared g)) (g_nodes g) = true }.

Lemma nonempty_ne {A} (l : list A) : nonempty l = true -> l <> [].
Proof. destruct l; [discriminate | discriminate]. Qed.
Lemma forallb_In {A} (f : A -> bool) l x : forallb f l = true -> In x l -> f x = true.
Proof. intros H Hin. rewrite forallb_forall in H. apply H. exact Hin. Qed.
Lemma in_str_false k l : in_str k l = false <-> ~ In k l.
Proof.
  split.
  - intros H Hin. apply in_str_In in Hin. congruence.
  - intros H. destruct (in_str k l) eqn:E; [apply in_str_In in E; contradiction | reflexivity].
Qed.
Lemma disjoint_spec a b : disjoint a b = true -> forall k, In k a -> ~ In k b.
Proof.
  intros H k Hin. unfold disjoint in H. apply (forallb_In _ _ _ H) in Hin.
  apply negb_true_iff in Hin. apply in_str_false. exact Hin.
Qed.

Lemma wf_graph_unpack allow_dev visible g :
  wf_graph allow_dev visible g = true -> wfg_props allow_dev visible g.
Proof.
  rewrite wf_graph_eq. cbv zeta. intros H. split_andb H.
  constructor; try assumption.
  - apply nodup_str_NoDup. assumption.
  - apply nodup_str_NoDup. assumption.
  - apply nodup_str_NoDup. assumption.
  - intros k Hk. pose proof (disjoint_spec _ _ H17 k Hk) as Hd. split; intros Hc; apply Hd; apply in_or_app; auto.
  - intros k Hk. apply nonempty_ne. exact (forallb_In _ _ _ H16 Hk).
  - intros k Hk. apply nonempty_ne. exact (forallb_In _ _ _ H15 Hk).
  - apply Forall_forall. intros t Ht. pose proof (forallb_In _ _ _ H11 Ht) as Hx. simpl in Hx.
    apply andb_prop in Hx. destruct Hx as [Hx1 Hx2]. split; [exact Hx1 | split; [exact Hx2|]].
    apply nonempty_ne. apply (forallb_In _ _ _ H15). apply in_map. exact Ht.
  - apply nodup_str_NoDup. assumption.
  - intros k Hk. apply in_str_In. pose proof (forallb_In _ _ _ H9 Hk) as Hx. exact Hx.
  - intros i o Hi Ho E. pose proof (forallb_In _ _ _ H8 Ho) as Hx. simpl in Hx.
    pose proof (forallb_In _ _ _ Hx Hi) as Hy. simpl in Hy. rewrite E, str_eqb_refl in Hy. exact Hy.
  - apply nodup_str_NoDup. assumption.
  - intros k Hk. apply nonempty_ne. exact (forallb_In _ _ _ H6 Hk).
  - intros k Hk. pose proof (disjoint_spec _ _ H5 k Hk) as Hd. split; intros Hc; apply Hd; apply in_or_app; auto.
  - apply nodup_str_NoDup. assumption.
  - intros q Hq. pose proof (forallb_In _ _ _ H3 Hq) as Hx. simpl in Hx. apply andb_prop in Hx.
    destruct Hx as [Hx1 Hx2]. split; [exact Hx1 | apply nonempty_ne; exact Hx2].
  - intros k Hk. apply in_str_In. pose proof (forallb_In _ _ _ H2 Hk) as Hx. exact Hx.
Qed.

(* graph stage, part 12: quantization annotations agree after normalisation *)
From Coq Require Import ZArith NArith List Bool Lia.
From IRV Require Import Base.Exn Gen.C02Gen C02.Model C02.Model2 C02.Norm C02.Proofs1 C02.Proofs2 C02.Proofs3.
From IRV Require Import C02.ProofsG1 C02.ProofsG2 C02.ProofsG3 C02.ProofsG4 C02.ProofsG5 C02.ProofsG6 C02.ProofsG7 C02.ProofsG8 C02.ProofsG9 C02.ProofsG10 C02.ProofsG11.
Import ListNotations.
Open Scope Z_scope.

Definition qnm (q : QuantP) : str := dflt [] (qa_name q).
Definition nq (q : QuantP) : QuantP := mkQuantP (Some (dflt [] (qa_name q))) (ksort (qa_params q)).
Lemma qnm_nq q : qnm (nq q) = qnm q.
Proof. reflexivity. Qed.

Lemma dedup_In l : forall seen k, In k (dedup_str seen l) -> In k l.
Proof.
  induction l as [|x r IH]; intros seen k H; simpl in *; [contradiction|].
  destruct (in_str x seen); [right; eapply IH; exact H|].
  destruct H as [H|H]; [left; exact H | right; eapply IH; exact H].
Qed.

Lemma keyed_filter_lookup {A} (key : A -> str) (l : list A) k :
  NoDup (map key l) ->
  filter (fun a => str_eqb (key a) k) l
  = match lookup k (map (fun a => (key a, a)) l) with Some a => [a] | None => [] end.
Proof.
  induction l as [|a r IH]; intros Hn; simpl; [reflexivity|].
  inversion Hn; subst. specialize (IH H2).
  rewrite (str_eqb_sym (key a) k). destruct (str_eqb k (key a)) eqn:E.
  - apply str_eqb_eq in E. subst k.
    assert (Hr : lookup (key a) (map (fun a0 => (key a0, a0)) r) = None) by (apply lookup_keyed_none; exact H1).
    rewrite Hr in IH. rewrite IH. reflexivity.
  - exact IH.
Qed.

Section QuantPart.
  Variable g : GraphP.
  Variables (allow_dev : bool) (visible : list str).
  Hypothesis W : wfg_props allow_dev visible g.

  Let ins := map vname (g_inputs g).
  Let inits := map tname (g_inits g).
  Let outs := map vname (g_outputs g).
  Let nouts := node_out_names (g_nodes g).
  Let allouts := concat (map n_outputs (g_nodes g)).
  Let qs := quant_dict (g_quant g).
  Notation fv := (fv g).

  Definition SQ (k : str) : list QuantP := map nq (ser_quant (fv k)).

  Lemma ser_quant_key v b : In b (map nq (ser_quant v)) -> qnm b = v_name v.
  Proof.
    unfold ser_quant. destruct (v_quant v); [intros []|]. intros [<-|[]]. reflexivity.
  Qed.

  Lemma qs_keyed : qs = map (fun q => (qnm q, qa_params q)) (g_quant g).
  Proof.
    unfold qs, quant_dict. apply dict_of_nodup. unfold wf_dict. rewrite map_map. simpl.
    apply nodup_str_NoDup. exact (w_qs_nd _ _ _ W).
  Qed.

  (* the annotation written for a declared name is the (normalised) annotation of the input proto *)
  Lemma SQ_spec k :
    In k (declared g) ->
    SQ k = match lookup k (map (fun q => (qnm q, q)) (g_quant g)) with Some a => [nq a] | None => [] end.
  Proof.
    intros Hk. unfold SQ, ser_quant. rewrite (fv_quant g allow_dev visible W k Hk), (fv_name g k Hk).
    unfold qd. fold qs. rewrite qs_keyed.
    rewrite (lookup_keyed_map qnm qa_params).
    destruct (lookup k (map (fun q => (qnm q, q)) (g_quant g))) as [a|] eqn:E; cbn [option_map]; [|reflexivity].
    apply lookup_keyed_in in E. destruct E as [Hin Hn]. destruct (w_qs_wf _ _ _ W a Hin) as [Hd Hne].
    rewrite (dict_of_nodup _ Hd). destruct (qa_params a) as [|p ps] eqn:Ep; [contradiction|].
    cbn [map]. unfold nq. cbn [qa_name qa_params dflt]. rewrite ksort_idem, Ep. unfold qnm in Hn. rewrite Hn. reflexivity.
  Qed.

  Lemma part_filter (h : str -> list QuantP) L k :
    (forall w b, In w L -> In b (map nq (h w)) -> qnm b = w) -> NoDup L ->
    filter (fun q => str_eqb (qnm q) k) (map nq (concat (map h L))) = if in_str k L then map nq (h k) else [].
  Proof.
    intros Hkey Hn. rewrite concat_map, map_map.
    apply (filter_keyed_concat qnm (fun w => map nq (h w))); assumption.
  Qed.

  Lemma quant_part :
    norm_quants (quant_order ins outs inits nouts)
                (concat (map (q_in_quant g) ins) ++ concat (map (fun k => ser_quant (fv k)) inits)
                 ++ concat (map (fun k => fst (infof g k)) allouts) ++ concat (map (q_out_quant g) outs))
    = norm_quants (quant_order ins outs inits nouts) (g_quant g).
  Proof.
    unfold norm_quants. fold nq. f_equal. apply map_ext_in. intros k Hk.
    change (fun q : QuantP => str_eqb (dflt [] (qa_name q)) k) with (fun q : QuantP => str_eqb (qnm q) k).
    assert (Hdecl : In k (declared g)).
    { unfold quant_order in Hk. apply dedup_In in Hk. unfold minus in Hk.
      repeat (apply in_app_or in Hk; destruct Hk as [Hk|Hk]).
      - apply filter_In in Hk. apply (in_declared_ins g). tauto.
      - apply (in_declared_inits g). exact Hk.
      - apply filter_In in Hk. apply (in_declared_nouts g). tauto.
      - apply (w_outs_decl _ _ _ W). exact Hk. }
    (* right-hand side *)
    rewrite (keyed_filter_lookup qnm (map nq (g_quant g)) k).
    2:{ rewrite map_map. simpl. exact (w_qs_nd _ _ _ W). }
    assert (Hrhs : match lookup k (map (fun a => (qnm a, a)) (map nq (g_quant g))) with Some a => [a] | None => [] end
                   = SQ k).
    { rewrite (SQ_spec k Hdecl). rewrite map_map. cbn [qnm nq qa_name dflt].
      change (fun x : QuantP => (dflt [] (qa_name x), nq x)) with (fun x : QuantP => (qnm x, nq x)).
      rewrite (lookup_keyed_map qnm nq). destruct (lookup k (map (fun a => (qnm a, a)) (g_quant g))); reflexivity. }
    rewrite Hrhs.
    (* left-hand side: four parts *)
    rewrite !map_app, !filter_app.
    rewrite (part_filter (q_in_quant g) ins k).
    2:{ intros w b Hw Hb. unfold q_in_quant in Hb. destruct (in_str w (map tname (g_inits g))); [contradiction|].
        rewrite (ser_quant_key _ _ Hb). apply (fv_name g). apply (in_declared_ins g). exact Hw. }
    2:{ exact (w_ins_nd _ _ _ W). }
    rewrite (part_filter (fun k => ser_quant (fv k)) inits k).
    2:{ intros w b Hw Hb. rewrite (ser_quant_key _ _ Hb). apply (fv_name g). apply (in_declared_inits g). exact Hw. }
    2:{ exact (w_inits_nd _ _ _ W). }
    assert (Hskip : concat (map (fun k => fst (infof g k)) allouts) = concat (map (fun k => fst (infof g k)) nouts)).
    { unfold nouts, node_out_names. fold allouts. apply (concat_map_skip nonempty).
      intros x Hx. destruct x; [reflexivity | discriminate]. }
    rewrite Hskip.
    rewrite (part_filter (fun k => fst (infof g k)) nouts k).
    2:{ intros w b Hw Hb. unfold infof in Hb. destruct w as [|c w]; [contradiction|].
        destruct (in_str (c :: w) (map vname (g_outputs g))); [contradiction|]. cbn [fst] in Hb.
        rewrite (ser_quant_key _ _ Hb). apply (fv_name g). apply (in_declared_nouts g). exact Hw. }
    2:{ exact (w_nouts_nd _ _ _ W). }
    rewrite (part_filter (q_out_quant g) outs k).
    2:{ intros w b Hw Hb. unfold q_out_quant in Hb. destruct (_ || _); [contradiction|].
        rewrite (ser_quant_key _ _ Hb). apply (fv_name g). apply (w_outs_decl _ _ _ W). exact Hw. }
    2:{ exact (w_outs_nd _ _ _ W). }
    (* case analysis on where k is declared *)
    unfold q_in_quant, q_out_quant. rewrite (fv_name g k Hdecl). fold ins inits outs. fold (SQ k).
    assert (Hinf : k <> [] -> map nq (fst (infof g k)) = if in_str k outs then [] else SQ k).
    { intros Hne. unfold infof. destruct k as [|c k]; [contradiction|]. fold outs.
      destruct (in_str (c :: k) outs); reflexivity. }
    destruct (in_str k nouts) eqn:En.
    - apply in_str_In in En. destruct (w_nouts_disj _ _ _ W k En) as [Hni Hnt].
      apply in_str_false in Hni. apply in_str_false in Hnt. fold ins in Hni. fold inits in Hnt.
      rewrite Hni, Hnt. cbn [orb app].
      assert (Hne : k <> []).
      { unfold nouts, node_out_names in En. apply filter_In in En. apply nonempty_ne. tauto. }
      rewrite (Hinf Hne). destruct (in_str k outs); cbn [map app]; rewrite ?app_nil_r; reflexivity.
    - cbn [app]. destruct (in_str k ins) eqn:Ei; destruct (in_str k inits) eqn:Et; cbn [orb map app];
        try (destruct (in_str k outs); cbn [map app]; rewrite ?app_nil_r; reflexivity).
      (* declared nowhere: impossible *)
      exfalso. unfold declared in Hdecl. apply in_app_or in Hdecl. destruct Hdecl as [H|H].
      + apply in_str_In in H. fold ins in H. congruence.
      + apply in_app_or in H. destruct H as [H|H]; apply in_str_In in H; [fold inits in H | fold nouts in H]; congruence.
  Qed.
End QuantPart.

(* C02/Proofs3.v — stage 5: nodes (scoped name resolution, trailing outputs, alias domain, attribute
   dictionary, device configurations gated on the IR version), relative to the nested graphs. *)
From Coq Require Import ZArith NArith List Bool Lia.
From IRV Require Import Base.Exn Gen.C02Gen C02.Model C02.Model2 C02.Norm C02.Proofs1 C02.Proofs2.
Import ListNotations.
Open Scope Z_scope.

(* invariant of the name tables: every entry's key is the name of the value it maps to *)
Definition scope_ok (s : scope) : Prop := Forall (fun kv => v_name (snd kv) = fst kv) s.

Lemma lookup_ok (s : scope) k v : scope_ok s -> lookup k s = Some v -> v_name v = k.
Proof.
  induction s as [|[k' v'] r IH]; simpl; intros Hs H; [discriminate|].
  inversion Hs; subst. destruct (str_eqb k k') eqn:E.
  - apply str_eqb_eq in E. inversion H; subst. exact H2.
  - apply IH; assumption.
Qed.
Lemma resolve_ok scopes k v : Forall scope_ok scopes -> resolve scopes k = Some v -> v_name v = k.
Proof.
  induction scopes as [|s r IH]; simpl; intros Hs H; [discriminate|].
  inversion Hs; subst. destruct (lookup k s) eqn:E.
  - inversion H; subst. eapply lookup_ok; eassumption.
  - apply IH; assumption.
Qed.

Definition visible_in (scopes : list scope) (k : str) : Prop := exists v, resolve scopes k = Some v.

Lemma trim_idem l : trim_outputs (trim_outputs l) = trim_outputs l.
Proof.
  induction l as [|x r IH]; [reflexivity|].
  simpl. destruct (trim_outputs r) as [|y r'] eqn:E.
  - destruct x; reflexivity.
  - change (trim_outputs (x :: y :: r'))
      with (match trim_outputs (y :: r') with
            | [] => match x with [] => [] | _ => [x] end
            | r'' => x :: r'' end).
    rewrite IH. reflexivity.
Qed.

(* ------------------------------------------------------------------ device configurations *)
Lemma simple_roundtrip s : norm_simple (ser_simple (deser_simple s)) = norm_simple s.
Proof. destruct s as [d n]. unfold norm_simple, ser_simple, deser_simple. simpl. destruct d, n; reflexivity. Qed.

Lemma spec_roundtrip scopes s :
  Forall scope_ok scopes -> truthy (sp_tensor s) <> None ->
  exists s', ser_spec (deser_spec scopes s) = Ok s' /\ norm_spec s' = norm_spec s.
Proof.
  intros Hs Ht. destruct s as [tn dev mp dims]. simpl in Ht.
  destruct tn as [[|c tn]|]; try (exfalso; apply Ht; reflexivity).
  unfold deser_spec, ser_spec. simpl.
  assert (Hv : match resolve scopes (c :: tn) with Some v => v_name v | None => c :: tn end = c :: tn).
  { destruct (resolve scopes (c :: tn)) eqn:E; [eapply resolve_ok; eassumption | reflexivity]. }
  rewrite Hv. eexists. split; [reflexivity|]. unfold norm_spec. simpl. f_equal.
  - rewrite !map_map. apply map_ext. intros [k vs]. simpl. destruct k; reflexivity.
  - rewrite !map_map. apply map_ext. intros [ax ss]. simpl. f_equal; try (destruct ax; reflexivity).
    rewrite !map_map. apply map_ext. intros x. apply simple_roundtrip.
Qed.

Lemma nodedev_roundtrip scopes d :
  Forall scope_ok scopes -> wf_nodedev d = true ->
  exists d', ser_nodedev (deser_nodedev scopes d) = Ok d' /\ norm_nodedev d' = norm_nodedev d.
Proof.
  intros Hs H. unfold wf_nodedev in H. apply andb_prop in H. destruct H as [Hc Hsp].
  destruct d as [conf specs stage]. simpl in *.
  unfold deser_nodedev, ser_nodedev. simpl.
  destruct (truthy conf) as [c|] eqn:Ec; [|discriminate].
  destruct (mapM_ok ser_spec (fun s' => exists s, s' = deser_spec scopes s /\ truthy (sp_tensor s) <> None)
              (fun s' q => forall s, s' = deser_spec scopes s -> truthy (sp_tensor s) <> None -> norm_spec q = norm_spec s)
              ) with (l := map (deser_spec scopes) specs) as (qs & H1 & H2).
  - intros s' (s & -> & Ht). destruct (spec_roundtrip scopes s Hs Ht) as (q & Hq & Hn).
    exists q. split; [exact Hq|]. intros s0 E Ht0.
    destruct (spec_roundtrip scopes s0 Hs Ht0) as (q0 & Hq0 & Hn0). rewrite <- E in Hq0. congruence.
  - apply Forall_forall. intros s' Hin. apply in_map_iff in Hin. destruct Hin as (s & <- & Hin).
    exists s. split; [reflexivity|]. rewrite forallb_forall in Hsp. specialize (Hsp s Hin).
    destruct (truthy (sp_tensor s)); [discriminate | discriminate].
  - rewrite H1. cbn [res_bind]. eexists. split; [reflexivity|]. unfold norm_nodedev. cbn [nd_conf nd_specs nd_stage].
    assert (Ec' : truthy (Some c) = truthy conf) by (rewrite <- Ec; apply truthy_idem).
    rewrite Ec'. f_equal.
    clear - H2 Hsp. revert qs H2. induction specs as [|s r IH]; intros qs H2.
    + inversion H2; subst. reflexivity.
    + simpl in H2. inversion H2 as [|x y l l' Hxy Hrest]; subst.
      simpl in Hsp. apply andb_prop in Hsp. destruct Hsp as [Hs1 Hs2]. simpl. f_equal.
      * apply Hxy; [reflexivity|]. destruct (truthy (sp_tensor s)); discriminate.
      * apply IH; assumption.
Qed.

Lemma nodedevs_roundtrip scopes l :
  Forall scope_ok scopes -> forallb wf_nodedev l = true ->
  exists l', mapM ser_nodedev (map (deser_nodedev scopes) l) = Ok l' /\ map norm_nodedev l' = map norm_nodedev l.
Proof.
  intros Hs. induction l as [|d r IH]; simpl; intros H.
  - exists []. split; reflexivity.
  - apply andb_prop in H. destruct H as [H1 H2].
    destruct (nodedev_roundtrip scopes d Hs H1) as (d' & Ha & Hb). destruct (IH H2) as (l' & Hc & Hd).
    exists (d' :: l'). rewrite Ha. simpl. rewrite Hc. simpl. split; [reflexivity | congruence].
Qed.

(* ------------------------------------------------------------------ the Attributes dictionary *)
Fixpoint attr_put (a : IAttr IGraph) (d : list (IAttr IGraph)) : list (IAttr IGraph) :=
  match d with
  | [] => [a]
  | b :: d' => if str_eqb (ia_name a) (ia_name b) then a :: d' else b :: attr_put a d'
  end.
Lemma attrs_dict_unfold acc a r : attrs_dict acc (a :: r) = attrs_dict (attr_put a acc) r.
Proof.
  simpl. f_equal. induction acc as [|b d IH]; simpl; [reflexivity|].
  destruct (str_eqb (ia_name a) (ia_name b)); [reflexivity | rewrite IH; reflexivity].
Qed.
Lemma attr_put_fresh a d : ~ In (ia_name a) (map ia_name d) -> attr_put a d = d ++ [a].
Proof.
  induction d as [|b d' IH]; simpl; intros H; [reflexivity|].
  destruct (str_eqb (ia_name a) (ia_name b)) eqn:E.
  - apply str_eqb_eq in E. exfalso. apply H. left. congruence.
  - rewrite IH; [reflexivity|]. intros Hin. apply H. right. exact Hin.
Qed.
Lemma attrs_dict_nodup l acc : NoDup (map ia_name (acc ++ l)) -> attrs_dict acc l = acc ++ l.
Proof.
  revert acc. induction l as [|a r IH]; intros acc H.
  - simpl. rewrite app_nil_r. reflexivity.
  - rewrite attrs_dict_unfold, attr_put_fresh.
    + rewrite IH; rewrite <- app_assoc; [reflexivity | exact H].
    + rewrite map_app in H. simpl in H. apply NoDup_remove_2 in H.
      intros Hin. apply H. apply in_or_app. left. exact Hin.
Qed.

(* ------------------------------------------------------------------ nodes *)
Lemma mapS_cons {A B S} (f : S -> A -> res (B * S)) x r s :
  mapS f (x :: r) s = (ys <- f s x ;; zs <- mapS f r (snd ys) ;; Ok (fst ys :: fst zs, snd zs)).
Proof. reflexivity. Qed.
Lemma mapM_cons {A B} (f : A -> res B) x r :
  mapM f (x :: r) = (y <- f x ;; ys <- mapM f r ;; Ok (y :: ys)).
Proof. reflexivity. Qed.

Lemma mapM_id {A} (f : A -> res A) l : Forall (fun x => f x = Ok x) l -> mapM f l = Ok l.
Proof. induction 1 as [|x r Hx Hr IH]; simpl; [reflexivity|]. rewrite Hx. simpl. rewrite IH. reflexivity. Qed.

Section Nodes.
  Variable dg : list scope -> GraphP -> res IGraph.
  Variable sg : IGraph -> res GraphP.
  Variable wfg : GraphP -> bool.
  Variables (outer : list scope) (cur : scope).
  Variables (vis : list (str * VInfoP)) (qs : list (str * dict)).
  Hypothesis Hg : forall g, wfg g = true ->
                  exists ig, dg (cur :: outer) g = Ok ig /\ exists g', sg ig = Ok g' /\ norm_graph g' = norm_graph g.
  Hypothesis Hempty : wfg empty_graph = true.
  Hypothesis Hscopes : Forall scope_ok (cur :: outer).

  Lemma inputs_roundtrip (visible : list str) l :
    (forall k, In k visible -> visible_in (cur :: outer) k) ->
    forallb (fun i => negb (nonempty i) || in_str i visible) l = true ->
    exists ins, mapS (deser_input outer vis qs) l cur = Ok (ins, cur)
                /\ map (fun i : option str => match i with None => [] | Some s => s end) ins = l.
  Proof.
    intros Hvis. induction l as [|x r IH]; intros H.
    - exists []. split; reflexivity.
    - simpl in H. apply andb_prop in H. destruct H as [H1 H2]. destruct (IH H2) as (ins & Ha & Hb).
      destruct x as [|c x].
      + rewrite mapS_cons. change (deser_input outer vis qs cur []) with (Ok (@None str, cur)).
        cbn [res_bind snd fst]. rewrite Ha. cbn [res_bind snd fst].
        exists (None :: ins). split; [reflexivity | simpl; congruence].
      + simpl in H1. apply in_str_In in H1. destruct (Hvis _ H1) as (v & Hv).
        assert (Hd : deser_input outer vis qs cur (c :: x) = Ok (Some (c :: x), cur)).
        { unfold deser_input. rewrite Hv. rewrite (resolve_ok (cur :: outer) (c :: x) v Hscopes Hv). reflexivity. }
        rewrite mapS_cons, Hd. cbn [res_bind snd fst]. rewrite Ha. cbn [res_bind snd fst].
        exists (Some (c :: x) :: ins). split; [reflexivity | simpl; congruence].
  Qed.

  Lemma outputs_roundtrip l :
    Forall (fun o => o = [] \/ mem o cur = true) l -> mapM (deser_output cur) l = Ok l.
  Proof.
    intros H. apply mapM_id. eapply Forall_impl; [|exact H]. intros x Hx. destruct x as [|c x]; [reflexivity|].
    destruct Hx as [Hx|Hx]; [discriminate|]. unfold deser_output. rewrite Hx. reflexivity.
  Qed.

  Lemma attrs_roundtrip l :
    forallb (wf_attr true wfg) l = true ->
    exists ias, mapM (deser_attr dg empty_graph (cur :: outer)) l = Ok ias
                /\ map ia_name ias = map (fun a => dflt [] (a_name a)) l
                /\ exists l', mapM (ser_attr sg) ias = Ok l'
                              /\ map (norm_attr norm_graph empty_graph) l' = map (norm_attr norm_graph empty_graph) l.
  Proof.
    induction l as [|a r IH]; intros H.
    - exists []. repeat split. exists []. split; reflexivity.
    - simpl in H. apply andb_prop in H. destruct H as [H1 H2].
      destruct (attr_roundtrip dg sg wfg (cur :: outer) Hg Hempty true a H1) as (ia & Ha & Hn & a' & Hb & Hc).
      destruct (IH H2) as (ias & Hd & He & l' & Hf & Hh).
      exists (ia :: ias). rewrite mapM_cons, Ha. cbn [res_bind]. rewrite Hd. cbn [res_bind]. split; [reflexivity|].
      split; [simpl; congruence|]. exists (a' :: l'). rewrite mapM_cons, Hb. cbn [res_bind]. rewrite Hf. cbn [res_bind].
      split; [reflexivity | simpl; congruence].
  Qed.

  Lemma domain_roundtrip dom :
    norm_domain (truthy_s (if str_eqb (dflt [] dom) ai_onnx then [] else dflt [] dom)) = norm_domain dom.
  Proof.
    unfold norm_domain. destruct dom as [[|c d]|]; try reflexivity.
    cbn [dflt]. destruct (str_eqb (c :: d) ai_onnx) eqn:E.
    - simpl. rewrite E. reflexivity.
    - simpl. rewrite E. reflexivity.
  Qed.

  (* allow_dev must agree with the version passed to the serializer *)
  Definition irv_allows (allow_dev : bool) (irv : option Z) : Prop :=
    allow_dev = true -> match irv with Some v => (v <? MULTI_DEVICE_SUPPORTED_VERSION) = false | None => True end.

  Theorem node_roundtrip allow_dev irv visible n :
    irv_allows allow_dev irv ->
    (forall k, In k visible -> visible_in (cur :: outer) k) ->
    Forall (fun o => o = [] \/ mem o cur = true) (n_outputs n) ->
    wf_node allow_dev (fun _ => wfg) visible n = true ->
    exists inode, deser_node dg empty_graph outer vis qs cur n = Ok (inode, cur)
                  /\ in_outputs inode = n_outputs n
                  /\ exists n', ser_node sg irv inode = Ok n'
                                /\ norm_node norm_graph empty_graph n' = norm_node norm_graph empty_graph n.
  Proof.
    intros Hirv Hvis Houts H. unfold wf_node in H. split_andb H.
    destruct (inputs_roundtrip visible (n_inputs n) Hvis H) as (ins & Hi1 & Hi2).
    destruct (attrs_roundtrip (n_attrs n) H3) as (ias & Ha1 & Ha2 & l' & Ha3 & Ha4).
    destruct (nodedevs_roundtrip (cur :: outer) (n_dev n) Hscopes H0) as (devs & Hd1 & Hd2).
    unfold deser_node. rewrite Hi1. cbn [snd fst res_bind]. rewrite (outputs_roundtrip _ Houts).
    cbn [res_bind]. rewrite Ha1. cbn [res_bind].
    assert (Hdict : attrs_dict [] ias = ias).
    { apply (attrs_dict_nodup ias []). simpl. rewrite Ha2. apply nodup_str_NoDup. exact H4. }
    rewrite Hdict. eexists. split; [reflexivity|]. split; [reflexivity|].
    unfold ser_node. cbn [in_attrs in_dev in_inputs in_outputs in_name in_op in_domain in_overload in_doc in_meta].
    rewrite Ha3. cbn [res_bind].
    assert (Hdev : exists devs',
               (match map (deser_nodedev (cur :: outer)) (n_dev n) with
                | [] => Ok []
                | ds => if match irv with Some v => v <? MULTI_DEVICE_SUPPORTED_VERSION | None => false end
                        then Ok [] else mapM ser_nodedev ds
                end) = Ok devs' /\ map norm_nodedev devs' = map norm_nodedev (n_dev n)).
    { destruct (n_dev n) as [|d0 dr] eqn:En.
      - exists []. split; reflexivity.
      - apply orb_prop in H1. destruct H1 as [H1|H1]; [|discriminate].
        specialize (Hirv H1). rewrite <- En in *. simpl map at 1.
        destruct (map (deser_nodedev (cur :: outer)) (n_dev n)) as [|x xs] eqn:Em.
        + rewrite En in Em. discriminate.
        + exists devs. split; [|exact Hd2].
          destruct irv as [v|]; [rewrite Hirv|]; exact Hd1. }
    destruct Hdev as (devs' & Hv1 & Hv2). rewrite Hv1. cbn [res_bind].
    eexists. split; [reflexivity|].
    unfold norm_node.
    cbn [n_inputs n_outputs n_name n_op n_domain n_overload n_doc n_attrs n_meta n_dev].
    rewrite Hi2, trim_idem, !truthy_truthy_s, !truthy_some_dflt, truthy_idem, Ha4, Hv2.
    rewrite (ksort_dict_of (n_meta n) H2).
    fold ai_onnx. rewrite domain_roundtrip. reflexivity.
  Qed.
End Nodes.

(* graph stage, part 1: total versions of the partial steps, the name table after each phase *)
From Coq Require Import ZArith NArith List Bool Lia.
From IRV Require Import Base.Exn Gen.C02Gen C02.Model C02.Model2 C02.Norm C02.Proofs1 C02.Proofs2 C02.Proofs3.
Import ListNotations.
Open Scope Z_scope.

(* ------------------------------------------------------------------ total versions *)
Definition ty_of (vi : VInfoP) : option IType := match type_type (vi_type vi) with Ok t => t | Raise _ => None end.
Definition sh_of (vi : VInfoP) : option IShape := match type_shape (vi_type vi) with Ok s => s | Raise _ => None end.
Definition ainfo (vi : VInfoP) (v : IValue) : IValue :=
  mkIValue (v_name v) (ty_of vi) (sh_of vi) (vi_doc vi) (dupdate (v_meta v) (dict_of (vi_meta vi))) (v_quant v) (v_const v).

Lemma apply_info_total vi v : wf_vinfo vi = true -> apply_info vi v = Ok (ainfo vi v).
Proof.
  intros H. unfold wf_vinfo in H. apply andb_prop in H. destruct H as [Ht _].
  destruct (type_roundtrip _ Ht) as (ty & sh & H1 & H2 & _).
  unfold apply_info, ainfo, ty_of, sh_of. rewrite H1, H2. reflexivity.
Qed.

Definition vis_wf (vis : list (str * VInfoP)) : Prop := forall k vi, lookup k vis = Some vi -> wf_vinfo vi = true.
Definition minfo (vis : list (str * VInfoP)) (k : str) (v : IValue) : IValue :=
  match lookup k vis with Some vi => ainfo vi v | None => v end.
Lemma maybe_info_total vis k v : vis_wf vis -> maybe_info vis k v = Ok (minfo vis k v).
Proof.
  intros H. unfold maybe_info, minfo. destruct (lookup k vis) eqn:E; [|reflexivity].
  apply apply_info_total. eapply H. exact E.
Qed.

Definition dten (t : TensorP) : ITensorV :=
  match deser_tensor t with Ok it => it | Raise _ => IStr [] [] None None [] end.
Lemma deser_tensor_total t : wf_tensor t = true -> deser_tensor t = Ok (dten t).
Proof. intros H. destruct (tensor_roundtrip t H) as (it & H1 & _). unfold dten. rewrite H1. reflexivity. Qed.
Lemma dten_props t :
  wf_tensor t = true ->
  (forall n, n <> [] -> tname t = n -> norm_tensor (ser_tensor (itensor_set_name (dten t) n)) = norm_tensor t)
  /\ dflt [] (itensor_name (dten t)) = tname t
  /\ itensor_dtype (dten t) = dflt 0 (t_dtype t) /\ itensor_dims (dten t) = t_dims t.
Proof.
  intros H. destruct (tensor_roundtrip t H) as (it & H1 & _ & H3 & H4 & H5 & H6).
  unfold dten. rewrite H1. repeat split; assumption.
Qed.

(* ------------------------------------------------------------------ lookups *)
Section Tables.
  Context {V : Type}.
  Lemma lookup_dset k k' (v : V) d :
    lookup k (dset k' v d) = if str_eqb k k' then Some v else lookup k d.
  Proof.
    induction d as [|[k0 v0] r IH]; simpl.
    - destruct (str_eqb k k'); reflexivity.
    - destruct (str_eqb k' k0) eqn:E1.
      + apply str_eqb_eq in E1. subst k0. simpl. destruct (str_eqb k k'); reflexivity.
      + simpl. destruct (str_eqb k k0) eqn:E2.
        * apply str_eqb_eq in E2. subst k0. rewrite str_eqb_sym, E1. reflexivity.
        * exact IH.
  Qed.
  Lemma mem_dset k k' (v : V) d : mem k (dset k' v d) = str_eqb k k' || mem k d.
  Proof. unfold mem. rewrite lookup_dset. destruct (str_eqb k k'); reflexivity. Qed.
End Tables.

Lemma lookup_keyed_map {A V} (key : A -> str) (f : A -> V) l k :
  lookup k (map (fun a => (key a, f a)) l) = option_map f (lookup k (map (fun a => (key a, a)) l)).
Proof.
  induction l as [|a r IH]; simpl; [reflexivity|].
  destruct (str_eqb k (key a)); [reflexivity | exact IH].
Qed.
Lemma lookup_keyed_in {A} (key : A -> str) l k a :
  lookup k (map (fun a => (key a, a)) l) = Some a -> In a l /\ key a = k.
Proof.
  induction l as [|b r IH]; simpl; [discriminate|].
  destruct (str_eqb k (key b)) eqn:E.
  - intros H. inversion H; subst. apply str_eqb_eq in E. split; [left; reflexivity | congruence].
  - intros H. destruct (IH H). split; [right|]; assumption.
Qed.
Lemma lookup_keyed_nodup {A} (key : A -> str) l a :
  NoDup (map key l) -> In a l -> lookup (key a) (map (fun a => (key a, a)) l) = Some a.
Proof.
  induction l as [|b r IH]; simpl; intros Hn Hin; [contradiction|].
  inversion Hn; subst. destruct Hin as [->|Hin].
  - rewrite str_eqb_refl. reflexivity.
  - destruct (str_eqb (key a) (key b)) eqn:E.
    + apply str_eqb_eq in E. exfalso. apply H1. rewrite <- E. apply in_map. exact Hin.
    + apply IH; assumption.
Qed.
Lemma lookup_keyed_none {A} (key : A -> str) l k :
  lookup k (map (fun a => (key a, a)) l) = None <-> ~ In k (map key l).
Proof.
  rewrite lookup_none_notin. rewrite map_map. simpl. reflexivity.
Qed.

(* the table after a fold that sets one key per element *)
Lemma fold_table {X} (key : X -> str) (f : X -> option IValue -> IValue) :
  forall xs (cur : scope), NoDup (map key xs) ->
  forall k, lookup k (fold_left (fun c x => dset (key x) (f x (lookup (key x) c)) c) xs cur)
            = match lookup k (map (fun x => (key x, x)) xs) with
              | Some x => Some (f x (lookup k cur))
              | None => lookup k cur
              end.
Proof.
  induction xs as [|x r IH]; intros cur Hn k; simpl; [reflexivity|].
  inversion Hn; subst. rewrite (IH _ H2 k). rewrite lookup_dset.
  destruct (str_eqb k (key x)) eqn:E.
  - apply str_eqb_eq in E. subst k.
    assert (Hr : lookup (key x) (map (fun x0 => (key x0, x0)) r) = None) by (apply lookup_keyed_none; exact H1).
    rewrite Hr. reflexivity.
  - reflexivity.
Qed.

(* ------------------------------------------------------------------ phase 1: inputs *)
Definition in_val (qs : list (str * dict)) (vi : VInfoP) : IValue :=
  maybe_quant qs (vname vi) (ainfo vi (new_value (vname vi))).

Lemma inputs_phase qs l :
  forallb wf_vinfo l = true ->
  mapM (fun vi => v <- apply_info vi (new_value (dflt [] (vi_name vi))) ;; Ok (v_name v, maybe_quant qs (v_name v) v)) l
  = Ok (map (fun vi => (vname vi, in_val qs vi)) l).
Proof.
  induction l as [|vi r IH]; intros H; [reflexivity|].
  simpl in H. apply andb_prop in H. destruct H as [H1 H2].
  rewrite mapM_cons. fold (vname vi). rewrite (apply_info_total _ _ H1). cbn [res_bind].
  rewrite (IH H2). reflexivity.
Qed.

(* ------------------------------------------------------------------ phase 2: initializers *)
Definition init_new (vis : list (str * VInfoP)) (qs : list (str * dict)) (t : TensorP) : IValue :=
  let it := dten t in
  let name := tname t in
  let v0 := mkIValue name (Some (ITensor (itensor_dtype it) None))
                     (Some (map (fun d => (IInt d, None)) (itensor_dims it))) None [] [] (Some it) in
  let v1 := minfo vis name v0 in
  maybe_quant qs name
    (mkIValue (v_name v1) (match v_type v1 with None => v_type v0 | t => t end)
              (match v_shape v1 with None => v_shape v0 | s => s end)
              (v_doc v1) (v_meta v1) (v_quant v1) (v_const v1)).
Definition initf vis qs (t : TensorP) (o : option IValue) : IValue :=
  match o with Some v => set_const (dten t) v | None => init_new vis qs t end.

Definition init_ok (t : TensorP) : Prop :=
  wf_tensor t = true /\ valid_dtype (dflt 0 (t_dtype t)) = true /\ tname t <> [].

Lemma deser_init_total vis qs cur keys t :
  vis_wf vis -> init_ok t ->
  deser_init vis qs (cur, keys) t
  = Ok (dset (tname t) (initf vis qs t (lookup (tname t) cur)) cur, keys ++ [tname t]).
Proof.
  intros Hv (Hw & Hd & Hn). destruct (dten_props t Hw) as (_ & Hname & Hdt & Hdims).
  unfold deser_init. rewrite (deser_tensor_total t Hw). cbn [res_bind]. rewrite Hname.
  destruct (tname t) as [|c s] eqn:En; [contradiction|].
  unfold initf. destruct (lookup (c :: s) cur) eqn:El; [reflexivity|].
  rewrite Hdt, Hd. cbn [negb]. rewrite (maybe_info_total _ _ _ Hv). cbn [res_bind].
  unfold init_new. rewrite En, Hdt. reflexivity.
Qed.

Lemma foldM_init vis qs inits :
  vis_wf vis -> Forall init_ok inits ->
  forall cur keys,
  foldM (deser_init vis qs) inits (cur, keys)
  = Ok (fold_left (fun c t => dset (tname t) (initf vis qs t (lookup (tname t) c)) c) inits cur,
        keys ++ map tname inits).
Proof.
  intros Hv. induction 1 as [|t r Ht Hr IH]; intros cur keys.
  - simpl. rewrite app_nil_r. reflexivity.
  - change (foldM (deser_init vis qs) (t :: r) (cur, keys))
      with (s' <- deser_init vis qs (cur, keys) t ;; foldM (deser_init vis qs) r s').
    rewrite (deser_init_total vis qs cur keys t Hv Ht). cbn [res_bind]. rewrite IH.
    simpl. rewrite <- app_assoc. reflexivity.
Qed.

(* ------------------------------------------------------------------ phase 3: declare node outputs *)
Definition out_new (vis : list (str * VInfoP)) (qs : list (str * dict)) (k : str) : IValue :=
  maybe_quant qs k (minfo vis k (new_value k)).

Definition decl1 (vis : list (str * VInfoP)) (qs : list (str * dict)) (cur : scope) (name : str) : res scope :=
  match name with
  | [] => Ok cur
  | _ => if mem name cur then Raise ValueError
         else v <- maybe_info vis name (new_value name) ;; Ok (dset name (maybe_quant qs name v) cur)
  end.
Lemma declare_outputs_eq vis qs cur (n : NodeP GraphP) :
  declare_outputs vis qs cur n = foldM (decl1 vis qs) (n_outputs n) cur.
Proof. reflexivity. Qed.

Lemma foldM_cons {A S} (f : S -> A -> res S) x r s : foldM f (x :: r) s = (s' <- f s x ;; foldM f r s').
Proof. reflexivity. Qed.
Lemma foldM_app {A S} (f : S -> A -> res S) l1 l2 s :
  foldM f (l1 ++ l2) s = (s' <- foldM f l1 s ;; foldM f l2 s').
Proof.
  revert s. induction l1 as [|x r IH]; intros s; [reflexivity|].
  rewrite <- app_comm_cons, !foldM_cons. destruct (f s x); [cbn [res_bind]; apply IH | reflexivity].
Qed.
Lemma foldM_declare vis qs (nodes : list (NodeP GraphP)) cur :
  foldM (declare_outputs vis qs) nodes cur = foldM (decl1 vis qs) (concat (map n_outputs nodes)) cur.
Proof.
  revert cur. induction nodes as [|n r IH]; intros cur; [reflexivity|].
  rewrite foldM_cons. simpl concat. rewrite foldM_app, declare_outputs_eq.
  destruct (foldM (decl1 vis qs) (n_outputs n) cur); [cbn [res_bind]; apply IH | reflexivity].
Qed.

Lemma foldM_decl1 vis qs names :
  vis_wf vis -> NoDup (filter nonempty names) ->
  forall cur, (forall k, In k (filter nonempty names) -> mem k cur = false) ->
  foldM (decl1 vis qs) names cur
  = Ok (fold_left (fun c k => dset k (out_new vis qs k) c) (filter nonempty names) cur).
Proof.
  intros Hv. induction names as [|x r IH]; intros Hn cur Hf; [reflexivity|].
  rewrite foldM_cons. destruct x as [|c s].
  - simpl. apply IH; assumption.
  - simpl filter in *. inversion Hn; subst.
    unfold decl1 at 1. rewrite (Hf (c :: s)) by (left; reflexivity).
    rewrite (maybe_info_total _ _ _ Hv). cbn [res_bind]. simpl fold_left.
    apply IH; [assumption|]. intros k Hk. rewrite mem_dset, (Hf k) by (right; exact Hk).
    rewrite orb_false_r. apply str_eqb_neq. intros ->. contradiction.
Qed.

(* ------------------------------------------------------------------ phase 5: graph outputs *)
Definition outf (vi : VInfoP) (o : option IValue) : IValue :=
  match o with Some v => ainfo vi v | None => ainfo vi (new_value (vname vi)) end.

Lemma mapS_goutput outs :
  forallb wf_vinfo outs = true ->
  forall cur, (forall vi, In vi outs -> mem (vname vi) cur = true) ->
  mapS deser_goutput outs cur
  = Ok (map (fun vi => OKey (vname vi)) outs,
        fold_left (fun c vi => dset (vname vi) (outf vi (lookup (vname vi) c)) c) outs cur).
Proof.
  induction outs as [|vi r IH]; intros H cur Hm; [reflexivity|].
  simpl in H. apply andb_prop in H. destruct H as [H1 H2].
  rewrite mapS_cons. unfold deser_goutput at 1. fold (vname vi). simpl fold_left. simpl map.
  assert (Hmem := Hm vi (or_introl eq_refl)). unfold mem in Hmem.
  destruct (lookup (vname vi) cur) as [v|] eqn:El; [|discriminate].
  rewrite (apply_info_total _ _ H1). cbn [res_bind fst snd].
  rewrite IH; [cbn [res_bind fst snd]; reflexivity | assumption |].
  intros vi' Hin. rewrite mem_dset, (Hm vi' (or_intror Hin)). apply orb_true_r.
Qed.

(* graph stage, part 5: the final value of every declared name *)
From Coq Require Import ZArith NArith List Bool Lia.
From IRV Require Import Base.Exn Gen.C02Gen C02.Model C02.Model2 C02.Norm C02.Proofs1 C02.Proofs2 C02.Proofs3.
From IRV Require Import C02.ProofsG1 C02.ProofsG2 C02.ProofsG3 C02.ProofsG4 C02.ProofsEqb.
Import ListNotations.
Open Scope Z_scope.

(* ------------------------------------------------------------------ projections through the value updates *)
Lemma ser_value_set_const nm it v : ser_value nm (set_const it v) = ser_value nm v.
Proof. reflexivity. Qed.
Lemma ser_value_maybe_quant nm qs k v : ser_value nm (maybe_quant qs k v) = ser_value nm v.
Proof. unfold maybe_quant. destruct (lookup k qs); reflexivity. Qed.
Lemma should_create_set_const it v : should_create (set_const it v) = should_create v.
Proof. reflexivity. Qed.
Lemma should_create_maybe_quant qs k v : should_create (maybe_quant qs k v) = should_create v.
Proof. unfold maybe_quant. destruct (lookup k qs); reflexivity. Qed.

Definition qd (qs : list (str * dict)) (k : str) : dict :=
  match lookup k qs with Some q => dict_of q | None => [] end.
Lemma v_quant_maybe_quant qs k v : v_quant v = [] -> v_quant (maybe_quant qs k v) = qd qs k.
Proof. intros H. unfold maybe_quant, qd. destruct (lookup k qs); [reflexivity | exact H]. Qed.
Lemma v_quant_minfo vis k v : v_quant (minfo vis k v) = v_quant v.
Proof. unfold minfo. destruct (lookup k vis); reflexivity. Qed.
Lemma v_const_maybe_quant qs k v : v_const (maybe_quant qs k v) = v_const v.
Proof. unfold maybe_quant. destruct (lookup k qs); reflexivity. Qed.
Lemma v_const_minfo vis k v : v_const (minfo vis k v) = v_const v.
Proof. unfold minfo. destruct (lookup k vis); reflexivity. Qed.
Lemma v_meta_maybe_quant qs k v : v_meta (maybe_quant qs k v) = v_meta v.
Proof. unfold maybe_quant. destruct (lookup k qs); reflexivity. Qed.

(* ------------------------------------------------------------------ value-info of an updated value *)
Lemma ainfo_info vi v :
  wf_vinfo vi = true -> v_meta v = [] ->
  forall nm, norm_vinfo (ser_value nm (ainfo vi v))
             = norm_vinfo (mkVInfoP (Some (match nm with [] => v_name v | _ => nm end)) (vi_type vi) (vi_doc vi) (vi_meta vi)).
Proof.
  intros H Hm. destruct (vinfo_roundtrip vi v H Hm) as (v' & H1 & _ & _ & _ & H5).
  rewrite (apply_info_total vi v H) in H1. inversion H1; subst v'. exact H5.
Qed.

Lemma ainfo_info_named vi v :
  wf_vinfo vi = true -> v_meta v = [] -> v_name v = vname vi ->
  norm_vinfo (ser_value [] (ainfo vi v)) = norm_vinfo vi.
Proof.
  intros H Hm Hn. rewrite (ainfo_info vi v H Hm []). rewrite Hn. unfold norm_vinfo.
  cbn [vi_name vi_type vi_doc vi_meta]. unfold vname. rewrite truthy_some_dflt. reflexivity.
Qed.

(* sorting keeps the elements *)
Lemma kinsert_In {V} (x y : str * V) l : In y (kinsert x l) <-> y = x \/ In y l.
Proof.
  induction l as [|z r IH]; simpl.
  - split; [intros [H|[]]; left; congruence | intros [H|[]]; left; congruence].
  - destruct (str_leb (fst x) (fst z)); simpl.
    + split; [intros [H|H]; [left; congruence | right; exact H] | intros [H|H]; [left; congruence | right; exact H]].
    + rewrite IH. split; [intros [H|[H|H]]; auto | intros [H|[H|H]]; auto].
Qed.
Lemma ksort_In {V} (y : str * V) l : In y (ksort l) <-> In y l.
Proof.
  induction l as [|x r IH]; simpl; [reflexivity|].
  rewrite kinsert_In, IH. split; [intros [H|H]; [left; congruence | right; exact H] | intros [H|H]; [left; congruence | right; exact H]].
Qed.

Lemma lookup_In_nodup {V} (d : list (str * V)) k v :
  NoDup (map fst d) -> In (k, v) d -> lookup k d = Some v.
Proof.
  induction d as [|[k0 v0] r IH]; simpl; intros Hn Hin; [contradiction|].
  inversion Hn; subst. destruct Hin as [E|Hin].
  - inversion E; subst. rewrite str_eqb_refl. reflexivity.
  - destruct (str_eqb k k0) eqn:E.
    + apply str_eqb_eq in E. subst. exfalso. apply H1. change k0 with (fst (k0, v)). apply in_map. exact Hin.
    + apply IH; assumption.
Qed.
Lemma dset_same {V} (d : list (str * V)) k v : lookup k d = Some v -> dset k v d = d.
Proof.
  induction d as [|[k0 v0] r IH]; simpl; [discriminate|].
  destruct (str_eqb k k0) eqn:E.
  - intros H. inversion H; subst. reflexivity.
  - intros H. rewrite IH by exact H. reflexivity.
Qed.
Lemma dupdate_same {V} (d l : list (str * V)) :
  (forall k v, In (k, v) l -> lookup k d = Some v) -> dupdate d l = d.
Proof.
  unfold dupdate. induction l as [|[k v] r IH]; intros H; simpl; [reflexivity|].
  rewrite dset_same by (apply H; left; reflexivity). apply IH. intros k' v' Hin. apply H. right. exact Hin.
Qed.

(* pass-through: the output describes a graph input again, consistently *)
Lemma ainfo_info_pass i o v :
  wf_vinfo i = true -> wf_vinfo o = true -> norm_vinfo i = norm_vinfo o ->
  v_meta v = vi_meta i -> v_name v = vname i ->
  norm_vinfo (ser_value [] (ainfo o v)) = norm_vinfo i.
Proof.
  intros Hi Ho E Hm Hn.
  unfold wf_vinfo in Hi, Ho. apply andb_prop in Hi. destruct Hi as [_ Hdi].
  apply andb_prop in Ho. destruct Ho as [Hto Hdo].
  destruct (type_roundtrip _ Hto) as (ty & sh & H1 & H2 & H3).
  unfold norm_vinfo in E. injection E as En Et Ed Em.
  assert (Hup : dupdate (vi_meta i) (dict_of (vi_meta o)) = vi_meta i).
  { apply dupdate_same. intros k x Hin. rewrite (dict_of_nodup _ Hdo) in Hin.
    apply lookup_In_nodup; [apply nodup_str_NoDup; exact Hdi|].
    apply (ksort_In (k, x)). rewrite Em. apply ksort_In. exact Hin. }
  unfold norm_vinfo, ser_value, ainfo. cbn [v_name v_type v_shape v_doc v_meta vi_name vi_type vi_doc vi_meta].
  unfold ty_of, sh_of. rewrite H1, H2, H3, Hm, Hup, Hn, truthy_idem, ksort_idem, <- Et, <- Ed.
  unfold vname. rewrite truthy_some_dflt. reflexivity.
Qed.

Section FinalValues.
  Variable g : GraphP.
  Variables (allow_dev : bool) (visible : list str).
  Hypothesis W : wfg_props allow_dev visible g.

  Let qs := quant_dict (g_quant g).
  Let vis := vinfo_dict (g_vinfo g).
  Let ikeyed := map (fun vi => (vname vi, vi)) (g_inputs g).
  Let tkeyed := map (fun t => (tname t, t)) (g_inits g).
  Let okeyed := map (fun vi => (vname vi, vi)) (g_outputs g).
  Let nouts := node_out_names (g_nodes g).

  (* value of a name before the graph outputs are applied *)
  Lemma T2_input vi :
    In vi (g_inputs g) ->
    lookup (vname vi) (T2 g)
    = Some (match lookup (vname vi) tkeyed with
            | Some t => set_const (dten t) (in_val qs vi)
            | None => in_val qs vi end).
  Proof.
    intros Hin. rewrite (LT2 g allow_dev visible W).
    assert (Hn : in_str (vname vi) (node_out_names (g_nodes g)) = false).
    { apply in_str_false. intros Hc. destruct (w_nouts_disj _ _ _ W _ Hc) as [Hc1 _]. apply Hc1. apply in_map. exact Hin. }
    rewrite Hn, (LT1 g allow_dev visible W), (LT0 g).
    rewrite (lookup_keyed_nodup vname _ vi (w_ins_nd _ _ _ W) Hin). cbn [option_map].
    fold tkeyed. destruct (lookup (vname vi) tkeyed); reflexivity.
  Qed.
  Lemma T2_init t :
    In t (g_inits g) -> ~ In (tname t) (map vname (g_inputs g)) ->
    lookup (tname t) (T2 g) = Some (init_new vis qs t).
  Proof.
    intros Hin Hni. rewrite (LT2 g allow_dev visible W).
    assert (Hn : in_str (tname t) (node_out_names (g_nodes g)) = false).
    { apply in_str_false. intros Hc. destruct (w_nouts_disj _ _ _ W _ Hc) as [_ Hc2]. apply Hc2. apply in_map. exact Hin. }
    rewrite Hn, (LT1 g allow_dev visible W).
    rewrite (lookup_keyed_nodup tname _ t (w_inits_nd _ _ _ W) Hin).
    rewrite (LT0 g). apply lookup_keyed_none in Hni. rewrite Hni. reflexivity.
  Qed.
  Lemma T2_nout k : In k nouts -> lookup k (T2 g) = Some (out_new vis qs k).
  Proof.
    intros Hin. rewrite (LT2 g allow_dev visible W). apply in_str_In in Hin. fold nouts. rewrite Hin. reflexivity.
  Qed.

  Lemma T3_ok : scope_ok (T3 g).
  Proof.
    unfold T3. apply scope_ok_fold; [|apply T2_ok].
    intros vi o Ho. unfold outf. destruct o as [v|]; cbn [ainfo v_name]; [apply Ho; reflexivity | reflexivity].
  Qed.

  Definition fv (k : str) : IValue := match lookup k (T3 g) with Some v => v | None => new_value k end.

  Lemma T3_of_T2 k v :
    lookup k (T2 g) = Some v ->
    lookup k (T3 g) = Some (match lookup k okeyed with Some o => ainfo o v | None => v end).
  Proof.
    intros H. rewrite (LT3 g allow_dev visible W), H. fold okeyed. destruct (lookup k okeyed); reflexivity.
  Qed.
  Lemma fv_of_T2 k v :
    lookup k (T2 g) = Some v -> fv k = match lookup k okeyed with Some o => ainfo o v | None => v end.
  Proof. intros H. unfold fv. rewrite (T3_of_T2 k v H). reflexivity. Qed.

  Lemma getv_T3 k : In k (declared g) -> getv (T3 g) k = Ok (fv k).
  Proof.
    intros H. pose proof (mem_T2_decl g allow_dev visible W k H) as Hm. unfold mem in Hm.
    destruct (lookup k (T2 g)) as [v|] eqn:E; [|discriminate].
    unfold getv, fv. rewrite (T3_of_T2 k v E). reflexivity.
  Qed.
  Lemma fv_name k : In k (declared g) -> v_name (fv k) = k.
  Proof.
    intros _. unfold fv. destruct (lookup k (T3 g)) as [v|] eqn:E; [|reflexivity].
    exact (lookup_ok (T3 g) k v T3_ok E).
  Qed.
End FinalValues.

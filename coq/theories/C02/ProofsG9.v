(* graph stage, part 9: the value-info entry of an initializer / of a node output *)
From Coq Require Import ZArith NArith List Bool Lia.
From IRV Require Import Base.Exn Gen.C02Gen C02.Model C02.Model2 C02.Norm C02.Proofs1 C02.Proofs2 C02.Proofs3.
From IRV Require Import C02.ProofsG1 C02.ProofsG2 C02.ProofsG3 C02.ProofsG4 C02.ProofsG5 C02.ProofsG6 C02.ProofsG7 C02.ProofsG8.
Import ListNotations.
Open Scope Z_scope.

Fixpoint shape_into_norm (X : TypeP) (s : IShape) {struct X} :
  norm_type (ser_shape_into X s) = set_leaf_shape (norm_type X) (map norm_dim (map ser_dim s)).
Proof.
  destruct X as [e sh den | e sh den | e den | e den | den | den]; simpl; try reflexivity.
  - destruct e as [t'|]; simpl; [rewrite (shape_into_norm t' s); reflexivity | reflexivity].
  - destruct e as [t'|]; simpl; [rewrite (shape_into_norm t' s); reflexivity | reflexivity].
Qed.

Fixpoint leaf_shape_spec (T : TypeP) {struct T} :
  wf_type_inner T = true ->
  forall sh, type_shape T = Ok sh ->
  has_leaf_shape (norm_type T) = match sh with Some _ => true | None => false end.
Proof.
  destruct T as [e shp den | e shp den | e den | e den | den | den]; simpl; intros H sh Hs; try discriminate.
  - inversion Hs; subst. destruct shp; reflexivity.
  - inversion Hs; subst. destruct shp; reflexivity.
  - destruct e as [t'|]; [|discriminate]. simpl. apply (leaf_shape_spec t' H sh Hs).
  - destruct e as [t'|]; [|discriminate]. simpl. apply (leaf_shape_spec t' H sh Hs).
Qed.

Fixpoint leaf_shape_set (T : TypeP) s {struct T} :
  wf_type_inner T = true -> has_leaf_shape (set_leaf_shape (norm_type T) s) = true.
Proof.
  destruct T as [e shp den | e shp den | e den | e den | den | den]; simpl; intros H; try discriminate; try reflexivity.
  - destruct e as [t'|]; [|discriminate]. simpl. apply (leaf_shape_set t' s H).
  - destruct e as [t'|]; [|discriminate]. simpl. apply (leaf_shape_set t' s H).
Qed.

Lemma inner_not_unset T : wf_type_inner T = true -> forall d0, norm_type T <> TUnset d0.
Proof. destruct T; simpl; intros H d0; try discriminate. Qed.

Lemma nonempty_ksort {V} (l : list (str * V)) : nonempty (ksort l) = nonempty l.
Proof.
  destruct l as [|x r]; [reflexivity|]. simpl. destruct (ksort r) as [|y r']; simpl; [reflexivity|].
  destruct (str_leb (fst x) (fst y)); reflexivity.
Qed.

Lemma tensor_dims_eq dims :
  map norm_dim (map ser_dim (map (fun d : Z => (IInt d, @None str)) dims)) = map (fun d => mkDim (DVal d) None) dims.
Proof. rewrite !map_map. apply map_ext. intros d. reflexivity. Qed.

(* wf types: either no type at all, or a type object is built *)
Lemma wf_type_cases T :
  wf_type T = true ->
  (exists den, T = TUnset den /\ truthy den = None /\ type_type T = Ok None /\ type_shape T = Ok None)
  \/ (wf_type_inner T = true /\ exists it sh, type_type T = Ok (Some it) /\ type_shape T = Ok sh
      /\ norm_type (with_shape (ser_type it) sh) = norm_type T).
Proof.
  intros H. destruct T as [e shp den | e shp den | e den | e den | den | den];
    try (right; split; [exact H | exact (type_inner_roundtrip _ H)]).
  left. exists den. unfold wf_type in H. destruct (truthy den) eqn:E; [discriminate|]. repeat split; reflexivity.
Qed.

(* a value whose info comes from one value-info entry: should_create agrees with has_info *)
Lemma should_create_ainfo e k :
  wf_vinfo e = true -> k <> [] ->
  should_create (ainfo e (new_value k)) = has_info (norm_vinfo e).
Proof.
  intros H Hk. pose proof H as H'. unfold wf_vinfo in H'. apply andb_prop in H'. destruct H' as [Ht Hd].
  unfold should_create, has_info, ainfo, norm_vinfo.
  cbn [v_shape v_type v_meta v_doc v_name new_value vi_type vi_meta vi_doc].
  rewrite dupdate_nil, (dict_of_nodup (dict_of (vi_meta e))); rewrite (dict_of_nodup _ Hd); [|exact Hd].
  rewrite nonempty_ksort.
  assert (Hkn : nonempty k = true) by (destruct k; [contradiction | reflexivity]).
  unfold ty_of, sh_of.
  destruct (wf_type_cases _ Ht) as [(den & -> & Hden & H1 & H2)|(Hin & it & sh & H1 & H2 & _)].
  - rewrite H1, H2. simpl norm_type. rewrite Hden. simpl.
    destruct (vi_meta e) as [|m ms]; simpl; [|rewrite Hkn; destruct (truthy (vi_doc e)); reflexivity].
    destruct (truthy (vi_doc e)); [exact Hkn | reflexivity].
  - rewrite H1, H2.
    assert (Hnu : negb (match norm_type (vi_type e) with TUnset None => true | _ => false end) = true).
    { destruct (norm_type (vi_type e)) eqn:En; try reflexivity. exfalso. exact (inner_not_unset _ Hin _ En). }
    rewrite Hnu. simpl. destruct sh; exact Hkn.
Qed.

(* function stage, part 1: unpacking wf_function, tables, deserialization *)
From Coq Require Import ZArith NArith List Bool Lia PeanoNat.
From IRV Require Import Base.Exn Gen.C02Gen C02.Model C02.Model2 C02.Norm C02.Proofs1 C02.Proofs2 C02.Proofs3.
From IRV Require Import C02.ProofsG1 C02.ProofsG2 C02.ProofsG3 C02.ProofsG4 C02.ProofsG5 C02.ProofsG6 C02.ProofsG7 C02.ProofsG8 C02.ProofsG9 C02.ProofsG10 C02.ProofsG11 C02.ProofsG12 C02.ProofsG13 C02.ProofsG14 C02.ProofsFuel C02.ProofsDepth.
Import ListNotations.
Open Scope Z_scope.

Record wff_props (allow_dev allow_vinfo : bool) (f : FunctionP) : Prop := {
  f_ins_nd : NoDup (f_inputs f);
  f_ins_ne : forall k, In k (f_inputs f) -> k <> [];
  f_nouts_nd : NoDup (node_out_names (f_nodes f));
  f_nouts_disj : forall k, In k (node_out_names (f_nodes f)) -> ~ In k (f_inputs f);
  f_outs_decl : forall k, In k (f_outputs f) -> In k (f_inputs f ++ node_out_names (f_nodes f));
  f_attr_nd : NoDup (f_attr f ++ map (fun a => dflt [] (a_name a)) (f_attr_protos f));
  f_attrs_wf : forallb (wf_attr false (wf_graph true [])) (f_attr_protos f) = true;
  f_vinfo_allowed : allow_vinfo = false -> f_vinfo f = [];
  f_vis_nd : NoDup (map vname (f_vinfo f));
  f_vis_ne : forall k, In k (map vname (f_vinfo f)) -> k <> [];
  f_vis_wf : forallb wf_vinfo (f_vinfo f) = true;
  f_opsets_wf : wf_dict (f_opsets f) = true;
  f_meta_wf : wf_dict (f_meta f) = true;
  f_nodes_wf : forallb (wf_node allow_dev (wf_graph allow_dev) (f_inputs f ++ node_out_names (f_nodes f))) (f_nodes f) = true }.

Lemma wf_function_unpack allow_dev allow_vinfo f :
  wf_function allow_dev allow_vinfo f = true -> wff_props allow_dev allow_vinfo f.
Proof.
  unfold wf_function. cbv zeta. intros H. split_andb H.
  constructor; try assumption.
  - apply nodup_str_NoDup. assumption.
  - intros k Hk. apply nonempty_ne. exact (forallb_In _ _ _ H12 Hk).
  - apply nodup_str_NoDup. assumption.
  - intros k Hk. exact (disjoint_spec _ _ H10 k Hk).
  - intros k Hk. apply in_str_In. exact (forallb_In _ _ _ H9 Hk).
  - apply nodup_str_NoDup. assumption.
  - intros E. subst allow_vinfo. simpl in H6. apply nonempty_false in H6. exact H6.
  - apply nodup_str_NoDup. assumption.
  - intros k Hk. apply nonempty_ne. exact (forallb_In _ _ _ H4 Hk).
Qed.

Lemma maybe_quant_nil k v : maybe_quant [] k v = v.
Proof. reflexivity. Qed.

(* attributes in any scope stack *)
Lemma attrs_roundtrip_gen dg sg (wfg : GraphP -> bool) scopes allow_ref :
  (forall g, wfg g = true ->
     exists ig, dg scopes g = Ok ig /\ exists g', sg ig = Ok g' /\ norm_graph g' = norm_graph g) ->
  wfg empty_graph = true ->
  forall l, forallb (wf_attr allow_ref wfg) l = true ->
  exists ias, mapM (deser_attr dg empty_graph scopes) l = Ok ias
              /\ map ia_name ias = map (fun a => dflt [] (a_name a)) l
              /\ exists l', mapM (ser_attr sg) ias = Ok l'
                            /\ map (norm_attr norm_graph empty_graph) l' = map (norm_attr norm_graph empty_graph) l.
Proof.
  intros Hg He. induction l as [|a r IH]; intros H.
  - exists []. repeat split. exists []. split; reflexivity.
  - simpl in H. apply andb_prop in H. destruct H as [H1 H2].
    destruct (attr_roundtrip dg sg wfg scopes Hg He allow_ref a H1) as (ia & Ha & Hn & a' & Hb & Hc).
    destruct (IH H2) as (ias & Hd & Hee & l' & Hf & Hh).
    exists (ia :: ias). rewrite mapM_cons, Ha. cbn [res_bind]. rewrite Hd. cbn [res_bind]. split; [reflexivity|].
    split; [simpl; congruence|]. exists (a' :: l'). rewrite mapM_cons, Hb. cbn [res_bind]. rewrite Hf. cbn [res_bind].
    split; [reflexivity | simpl; congruence].
Qed.

(* a deserialized non-reference attribute of a defined type has a value *)
Lemma deser_attr_has_value dg eg scopes a ia :
  deser_attr dg eg scopes a = Ok ia -> truthy (a_ref a) = None ->
  (dflt 0 (a_type a) =? AT_UNDEFINED) = false -> attr_has_value ia = true.
Proof.
  unfold deser_attr. intros H Hr Hu. rewrite Hr in H.
  destruct (negb (valid_attrtype (dflt 0 (a_type a)))); [discriminate|].
  repeat match type of H with
         | (res_bind (if ?c then _ else _) _) = Ok _ => destruct c eqn:?
         end;
  try (match type of H with (res_bind ?e _) = Ok _ => destruct e eqn:?; [|discriminate] end);
  try (cbn [res_bind] in H; inversion H; subst; reflexivity).
  all: try (match goal with E : res_bind ?e _ = Ok _ |- _ => destruct e; [|discriminate]; cbn [res_bind] in E; inversion E; subst end).
  all: try (cbn [res_bind] in H; inversion H; subst; reflexivity).
  all: try congruence.
  all: repeat match goal with
       | E : Ok _ = Ok _ |- _ => inversion E; subst; clear E
       | E : res_bind ?e _ = Ok _ |- _ => destruct e; [cbn [res_bind] in E | discriminate]
       | E : (if ?c then _ else _) = Ok _ |- _ => destruct c; [|discriminate]
       | E : (let _ := _ in _) = Ok _ |- _ => cbv zeta in E
       end; try reflexivity; try congruence.
Qed.

From Coq Require Import ZArith NArith List Bool Lia.
From IRV Require Import Base.Exn Gen.C02Gen C02.Model C02.Model2 C02.Norm C02.Proofs1.
Import ListNotations.
Open Scope Z_scope.

Lemma option_eqb_sound {A} (e : A -> A -> bool) :
  (forall x y, e x y = true -> x = y) -> forall a b, option_eqb e a b = true -> a = b.
Proof.
  intros H [x|] [y|]; simpl; intros E; try discriminate; try reflexivity.
  apply H in E. congruence.
Qed.

Lemma list_eqb_sound {A} (e : A -> A -> bool) :
  (forall x y, e x y = true -> x = y) -> forall a b, list_eqb e a b = true -> a = b.
Proof.
  intros H a. induction a as [|x a IH]; intros [|y b]; simpl; intros E;
    try reflexivity; try discriminate.
  apply andb_prop in E. destruct E as [E1 E2]. apply H in E1. apply IH in E2. congruence.
Qed.

Lemma str_eqb_sound : forall a b : str, str_eqb a b = true -> a = b.
Proof. intros a b H. apply str_eqb_eq. exact H. Qed.

Lemma ostr_eqb_sound : forall a b : option str, oeq str_eqb a b = true -> a = b.
Proof. unfold oeq. apply option_eqb_sound. exact str_eqb_sound. Qed.

Lemma oZ_eqb_sound : forall a b : option Z, oeq Z.eqb a b = true -> a = b.
Proof. unfold oeq. apply option_eqb_sound. intros x y H. apply Z.eqb_eq. exact H. Qed.

Lemma dict_eqb_sound : forall a b : dict, dict_eqb a b = true -> a = b.
Proof.
  unfold dict_eqb, leq. apply list_eqb_sound.
  intros [x1 x2] [y1 y2]; simpl. intros H.
  apply andb_prop in H. destruct H as [H1 H2].
  apply str_eqb_sound in H1. apply str_eqb_sound in H2. congruence.
Qed.

Lemma dimval_eqb_sound : forall a b : DimVal, dimval_eqb a b = true -> a = b.
Proof.
  intros [x|x|] [y|y|]; simpl; intros H; try discriminate; try reflexivity.
  - apply Z.eqb_eq in H. congruence.
  - apply str_eqb_sound in H. congruence.
Qed.

Lemma dim_eqb_sound : forall a b : Dim, dim_eqb a b = true -> a = b.
Proof.
  intros [av ad] [bv bd]. unfold dim_eqb; simpl. intros H.
  apply andb_prop in H. destruct H as [H1 H2].
  apply dimval_eqb_sound in H1. apply ostr_eqb_sound in H2. congruence.
Qed.

Lemma oshape_eqb_sound : forall a b : option (list Dim), oeq (leq dim_eqb) a b = true -> a = b.
Proof.
  unfold oeq, leq. apply option_eqb_sound. apply list_eqb_sound. exact dim_eqb_sound.
Qed.

Fixpoint type_eqb_sound_fix (a b : TypeP) {struct a} : type_eqb a b = true -> a = b.
Proof.
  destruct a as [e s d|e s d|e d|e d|d|d], b as [e' s' d'|e' s' d'|e' d'|e' d'|d'|d'];
    simpl; intros H; try discriminate.
  - apply andb_prop in H. destruct H as [H H3]. apply andb_prop in H. destruct H as [H1 H2].
    apply oZ_eqb_sound in H1. apply oshape_eqb_sound in H2. apply ostr_eqb_sound in H3. congruence.
  - apply andb_prop in H. destruct H as [H H3]. apply andb_prop in H. destruct H as [H1 H2].
    apply oZ_eqb_sound in H1. apply oshape_eqb_sound in H2. apply ostr_eqb_sound in H3. congruence.
  - apply andb_prop in H. destruct H as [H1 H2]. apply ostr_eqb_sound in H2.
    destruct e as [x|], e' as [y|]; try discriminate.
    + apply type_eqb_sound_fix in H1. congruence.
    + congruence.
  - apply andb_prop in H. destruct H as [H1 H2]. apply ostr_eqb_sound in H2.
    destruct e as [x|], e' as [y|]; try discriminate.
    + apply type_eqb_sound_fix in H1. congruence.
    + congruence.
  - apply ostr_eqb_sound in H. congruence.
  - apply ostr_eqb_sound in H. congruence.
Qed.

Lemma type_eqb_sound : forall a b : TypeP, type_eqb a b = true -> a = b.
Proof. exact type_eqb_sound_fix. Qed.

Lemma vinfo_eqb_sound : forall a b : VInfoP, vinfo_eqb a b = true -> a = b.
Proof.
  intros [an at_ ad am] [bn bt bd bm]. unfold vinfo_eqb; simpl. intros H.
  apply andb_prop in H. destruct H as [H H4].
  apply andb_prop in H. destruct H as [H H3].
  apply andb_prop in H. destruct H as [H1 H2].
  apply ostr_eqb_sound in H1. apply type_eqb_sound in H2.
  apply ostr_eqb_sound in H3. apply dict_eqb_sound in H4. congruence.
Qed.

Print Assumptions option_eqb_sound.
Print Assumptions list_eqb_sound.
Print Assumptions dict_eqb_sound.
Print Assumptions dim_eqb_sound.
Print Assumptions type_eqb_sound.
Print Assumptions vinfo_eqb_sound.

(* graph stage, part 11: value-info lists agree after normalisation *)
From Coq Require Import ZArith NArith List Bool Lia.
From IRV Require Import Base.Exn Gen.C02Gen C02.Model C02.Model2 C02.Norm C02.Proofs1 C02.Proofs2 C02.Proofs3.
From IRV Require Import C02.ProofsG1 C02.ProofsG2 C02.ProofsG3 C02.ProofsG4 C02.ProofsG5 C02.ProofsG6 C02.ProofsG7 C02.ProofsG8 C02.ProofsG9 C02.ProofsG10.
Import ListNotations.
Open Scope Z_scope.

Lemma tname_ser_set_name it n : tname (ser_tensor (itensor_set_name it n)) = n.
Proof. destruct it; destruct n; reflexivity. Qed.

Definition Xt (t : TensorP) : TensorP := ser_tensor (itensor_set_name (dten t) (tname t)).

Lemma Xt_props t :
  init_ok t ->
  norm_tensor (Xt t) = norm_tensor t /\ tname (Xt t) = tname t
  /\ dflt 0 (t_dtype (Xt t)) = dflt 0 (t_dtype t) /\ t_dims (Xt t) = t_dims t.
Proof.
  intros (Hw & _ & Hne). destruct (dten_props t Hw) as (Hn & _).
  specialize (Hn (tname t) Hne eq_refl). fold (Xt t) in Hn.
  split; [exact Hn|]. split; [apply tname_ser_set_name|].
  pose proof (f_equal t_dims Hn) as Hd. pose proof (f_equal t_dtype Hn) as Hdt.
  unfold norm_tensor in Hd, Hdt. cbn [t_dims t_dtype] in Hd, Hdt.
  split; [|exact Hd]. unfold some_dflt in Hdt. injection Hdt as Hdt. exact Hdt.
Qed.

Section VinfoPart.
  Variable g : GraphP.
  Variables (allow_dev : bool) (visible : list str).
  Hypothesis W : wfg_props allow_dev visible g.

  Let ins := map vname (g_inputs g).
  Let inits := map tname (g_inits g).
  Let outs := map vname (g_outputs g).
  Let nouts := node_out_names (g_nodes g).
  Let allouts := concat (map n_outputs (g_nodes g)).
  Let qs := quant_dict (g_quant g).
  Let vis := vinfo_dict (g_vinfo g).
  Notation fv := (fv g).

  Lemma q_inits_eq : concat (map (q_init_tensor g) inits) = map Xt (g_inits g).
  Proof.
    unfold inits. rewrite map_map. rewrite <- (concat_map_single Xt). f_equal. apply map_ext_in. intros t Ht.
    unfold q_init_tensor, Xt. rewrite (fv_init_const g allow_dev visible W t Ht).
    rewrite (fv_name g (tname t)); [reflexivity|].
    apply (in_declared_inits g). apply in_map. exact Ht.
  Qed.

  Lemma order_spec k :
    In k (vinfo_order ins outs inits nouts) ->
    (In k inits \/ In k nouts) /\ ~ In k ins /\ ~ In k outs.
  Proof.
    unfold vinfo_order, minus. intros H. apply filter_In in H. destruct H as [H1 H2].
    apply negb_true_iff in H2. apply in_str_false in H2.
    split.
    - apply in_app_or in H1. destruct H1 as [H1|H1]; [left; apply filter_In in H1; tauto | right; exact H1].
    - split; intros Hc; apply H2; apply in_or_app; auto.
  Qed.

  (* entries with name k among the informative entries of the serialized list *)
  Definition hA (w : str) : list VInfoP := filter has_info (map norm_vinfo (q_init_vi g w)).
  Definition hB (w : str) : list VInfoP := filter has_info (map norm_vinfo (snd (infof g w))).

  Lemma informative_q :
    filter has_info (map norm_vinfo (concat (map (q_init_vi g) inits) ++ concat (map (fun k => snd (infof g k)) allouts)))
    = concat (map hA inits) ++ concat (map hB nouts).
  Proof.
    rewrite map_app, filter_app. f_equal.
    - rewrite concat_map, filter_concat, !map_map. reflexivity.
    - rewrite concat_map, filter_concat, !map_map.
      unfold nouts, node_out_names. fold allouts.
      apply (concat_map_skip nonempty). intros x Hx. destruct x; [reflexivity | discriminate].
  Qed.

  Lemma hA_key w b : In w inits -> In b (hA w) -> vname b = w.
  Proof.
    intros Hw Hb. unfold hA in Hb. apply filter_In in Hb. destruct Hb as [Hb _].
    apply in_map_iff in Hb. destruct Hb as (e & <- & He). rewrite vname_norm.
    unfold q_init_vi in He. destruct (_ && _); [|contradiction]. destruct He as [<-|[]].
    rewrite vname_ser_value. apply (fv_name g). apply (in_declared_inits g). exact Hw.
  Qed.
  Lemma hB_key w b : In w nouts -> In b (hB w) -> vname b = w.
  Proof.
    intros Hw Hb. unfold hB in Hb. apply filter_In in Hb. destruct Hb as [Hb _].
    apply in_map_iff in Hb. destruct Hb as (e & <- & He). rewrite vname_norm.
    unfold infof in He. destruct w as [|c w]; [contradiction|].
    destruct (in_str (c :: w) (map vname (g_outputs g))); [contradiction|]. cbn [snd] in He.
    destruct (should_create (fv (c :: w))); [|contradiction]. destruct He as [<-|[]].
    rewrite vname_ser_value. apply (fv_name g). apply (in_declared_nouts g). exact Hw.
  Qed.

  Lemma entries_q k :
    filter (fun vi => str_eqb (vname vi) k)
           (filter has_info (map norm_vinfo (concat (map (q_init_vi g) inits) ++ concat (map (fun k => snd (infof g k)) allouts))))
    = (if in_str k inits then hA k else []) ++ (if in_str k nouts then hB k else []).
  Proof.
    rewrite informative_q, filter_app. f_equal.
    - apply filter_keyed_concat; [intros w b; apply hA_key | exact (w_inits_nd _ _ _ W)].
    - apply filter_keyed_concat; [intros w b; apply hB_key | exact (w_nouts_nd _ _ _ W)].
  Qed.

  Lemma vis_lookup_name k e : lookup k vis = Some e -> vname e = k /\ wf_vinfo e = true.
  Proof.
    intros H. split; [|exact (vis_is_wf g allow_dev visible W k e H)].
    unfold vis in H. rewrite (vis_keyed g allow_dev visible W) in H. apply lookup_keyed_in in H. tauto.
  Qed.

  Lemma vinfo_part :
    norm_vinfos (vinfo_order ins outs inits nouts) (map Xt (g_inits g))
                (concat (map (q_init_vi g) inits) ++ concat (map (fun k => snd (infof g k)) allouts))
    = norm_vinfos (vinfo_order ins outs inits nouts) (g_inits g) (g_vinfo g).
  Proof.
    rewrite norm_vinfos_inits.
    2:{ intros t Ht. pose proof (proj1 (Forall_forall _ _) (w_inits_ok _ _ _ W) t Ht) as Hok.
        destruct (Xt_props t Hok) as (_ & H1 & H2 & H3). repeat split; assumption. }
    unfold norm_vinfos. f_equal. apply map_ext_in. intros k Hk.
    destruct (order_spec k Hk) as (Hcat & Hni & Hno).
    rewrite entries_q, (informative_lookup (g_vinfo g) k (w_vis_nd _ _ _ W)).
    assert (Evis : lookup k (map (fun vi => (vname vi, vi)) (g_vinfo g)) = lookup k vis)
      by (unfold vis; rewrite (vis_keyed g allow_dev visible W); reflexivity).
    rewrite Evis.
    destruct (in_str k inits) eqn:Ei.
    - (* an initializer that is neither an input nor an output *)
      apply in_str_In in Ei. pose proof Ei as Ei'. unfold inits in Ei'. apply in_map_iff in Ei'.
      destruct Ei' as (t & Et & Ht). subst k.
      assert (Hnn : in_str (tname t) nouts = false).
      { apply in_str_false. intros Hc. destruct (w_nouts_disj _ _ _ W _ Hc) as [_ Hc2]. apply Hc2. exact Ei. }
      rewrite Hnn, app_nil_r.
      rewrite (lookup_keyed_nodup tname _ t (w_inits_nd _ _ _ W) Ht).
      pose proof (proj1 (Forall_forall _ _) (w_inits_ok _ _ _ W) t Ht) as Hok.
      destruct (init_entry vis qs t Hok (vis_is_wf g allow_dev visible W)
                  (fun e He => proj1 (vis_lookup_name _ e He))) as (Hsc & Hhi & Hc).
      unfold hA, q_init_vi. rewrite (fv_init_plain g allow_dev visible W t Ht Hni Hno).
      fold vis qs. rewrite Hsc, v_name_init_new.
      assert (Hnin : in_str (tname t) (map vname (g_inputs g)) = false) by (apply in_str_false; exact Hni).
      rewrite Hnin. cbn [andb negb map filter]. rewrite Hhi. cbn [map]. rewrite Hc.
      destruct (lookup (tname t) vis) as [e|]; [|reflexivity].
      cbn [filter]. destruct (has_info (norm_vinfo e)); reflexivity.
    - (* a node output that is not a graph output *)
      destruct Hcat as [Hc|Hn]; [apply in_str_In in Hc; congruence|].
      cbn [app]. pose proof Hn as Hn'. apply in_str_In in Hn'. rewrite Hn'.
      assert (Hnt : lookup k (map (fun t => (tname t, t)) (g_inits g)) = None).
      { apply lookup_keyed_none. apply in_str_false. exact Ei. }
      rewrite Hnt.
      assert (Hkne : k <> []).
      { unfold nouts, node_out_names in Hn. apply filter_In in Hn. destruct Hn as [_ Hn]. apply nonempty_ne. exact Hn. }
      unfold hB, infof. destruct k as [|c k]; [contradiction|].
      assert (Hno' : in_str (c :: k) (map vname (g_outputs g)) = false) by (apply in_str_false; exact Hno).
      rewrite Hno'. cbn [snd].
      rewrite (fv_nout_plain g allow_dev visible W (c :: k) Hn Hno). fold vis qs.
      unfold out_new. rewrite should_create_maybe_quant, ser_value_maybe_quant. unfold minfo.
      destruct (lookup (c :: k) vis) as [e|] eqn:El.
      + destruct (vis_lookup_name _ e El) as (Hen & Hwe).
        rewrite (should_create_ainfo e (c :: k) Hwe Hkne).
        assert (Hnq : norm_vinfo (ser_value [] (ainfo e (new_value (c :: k)))) = norm_vinfo e)
          by (apply ainfo_info_named; [exact Hwe | reflexivity | symmetry; exact Hen]).
        destruct (has_info (norm_vinfo e)) eqn:Eh; cbn [map filter]; rewrite ?Hnq, ?Eh; reflexivity.
      + reflexivity.
  Qed.
End VinfoPart.

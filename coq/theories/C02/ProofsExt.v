(* external_data of an external tensor: location/offset/length are interpreted, every other entry is kept *)
From Coq Require Import ZArith NArith List Bool Lia Permutation.
From IRV Require Import Base.Exn Gen.C02Gen C02.Model C02.Model2 C02.Norm C02.Proofs1 C02.ProofsSort.
Import ListNotations.
Open Scope Z_scope.

Lemma filter3_perm {A} (f f1 f2 f3 : A -> bool) l :
  (forall x, f x = f1 x || f2 x || f3 x) ->
  (forall x, f1 x = true -> f2 x = false /\ f3 x = false) -> (forall x, f2 x = true -> f3 x = false) ->
  Permutation (filter f l) (filter f1 l ++ filter f2 l ++ filter f3 l).
Proof.
  intros Hf H1 H2. induction l as [|x r IH]; simpl; [constructor|].
  rewrite (Hf x). destruct (f1 x) eqn:E1.
  - destruct (H1 x E1) as [E2 E3]. rewrite E2, E3. simpl. constructor. exact IH.
  - destruct (f2 x) eqn:E2.
    + rewrite (H2 x E2). simpl. apply Permutation_cons_app. exact IH.
    + destruct (f3 x) eqn:E3; simpl; [|exact IH].
      rewrite app_assoc. apply Permutation_cons_app. rewrite <- app_assoc. exact IH.
Qed.

Lemma key_filter_lookup {V} (l : list (str * V)) k :
  NoDup (map fst l) ->
  filter (fun kv => str_eqb (fst kv) k) l = match lookup k l with Some v => [(k, v)] | None => [] end.
Proof.
  induction l as [|[k0 v0] r IH]; intros Hn; simpl; [reflexivity|].
  inversion Hn; subst. specialize (IH H2). rewrite (str_eqb_sym k0 k). destruct (str_eqb k k0) eqn:E.
  - apply str_eqb_eq in E. subst k0.
    assert (Hr : lookup k r = None) by (apply lookup_none_notin; exact H1). rewrite Hr in IH. rewrite IH. reflexivity.
  - exact IH.
Qed.

Lemma lookup_filter_key {V} (f : str -> bool) (l : list (str * V)) k :
  f k = true -> lookup k (filter (fun kv => f (fst kv)) l) = lookup k l.
Proof.
  intros Hk. induction l as [|[k0 v0] r IH]; simpl; [reflexivity|].
  destruct (f k0) eqn:E; simpl.
  - destruct (str_eqb k k0); [reflexivity | exact IH].
  - destruct (str_eqb k k0) eqn:E2; [apply str_eqb_eq in E2; subst; congruence | exact IH].
Qed.

Lemma nodup_keys_filter {V} (f : str * V -> bool) (l : list (str * V)) :
  NoDup (map fst l) -> NoDup (map fst (filter f l)).
Proof.
  induction l as [|x r IH]; simpl; intros Hn; [constructor|]. inversion Hn; subst.
  destruct (f x); simpl; [|apply IH; assumption].
  constructor; [|apply IH; assumption]. intros Hin. apply H1. apply in_map_iff in Hin.
  destruct Hin as (y & Ey & Hy). apply filter_In in Hy. apply in_map_iff. exists y. tauto.
Qed.

Local Opaque to_dec parse_dec.

Lemma ext_int_entry (ext : dict) k :
  (forall v, lookup k ext = Some v -> canonical_int v = true) ->
  exists o, ext_int (lookup k ext) = Ok o
            /\ opt_entry k o = match lookup k ext with Some v => [(k, v)] | None => [] end.
Proof.
  intros H. destruct (lookup k ext) as [v|] eqn:E.
  - destruct (canonical_int_roundtrip v (H v eq_refl)) as (z & P & D).
    exists (Some z). simpl. rewrite P. split; [reflexivity|]. simpl. rewrite D. reflexivity.
  - exists None. split; reflexivity.
Qed.

Lemma ext_roundtrip_gen (ext : dict) :
  wf_dict ext = true -> mem k_location ext = true ->
  forallb (fun kv => negb (str_eqb (fst kv) k_offset || str_eqb (fst kv) k_length) || canonical_int (snd kv)) ext = true ->
  let info := dict_of (filter (fun kv => ext_allowed (fst kv)) ext) in
  exists off len,
    ext_int (lookup k_offset info) = Ok off /\ ext_int (lookup k_length info) = Ok len /\
    ksort ((k_location, dflt [] (lookup k_location info)) :: opt_entry k_offset off ++ opt_entry k_length len
             ++ filter (fun kv => negb (ext_interpreted (fst kv))) ext)
    = ksort ext.
Proof.
  intros Hnd Hloc Hcan info.
  assert (Hn : NoDup (map fst ext)) by (apply nodup_str_NoDup; exact Hnd).
  assert (Hinfo : forall k, ext_allowed k = true -> lookup k info = lookup k ext).
  { intros k Hk. unfold info. rewrite dict_of_nodup.
    - apply (lookup_filter_key ext_allowed ext k Hk).
    - unfold wf_dict. apply nodup_str_NoDup. apply nodup_keys_filter. exact Hn. }
  rewrite (Hinfo k_offset eq_refl), (Hinfo k_length eq_refl), (Hinfo k_location eq_refl).
  assert (Hc : forall k, k = k_offset \/ k = k_length -> forall v, lookup k ext = Some v -> canonical_int v = true).
  { intros k Hk v Hv. assert (Hin : In (k, v) ext).
    { clear - Hv. induction ext as [|[k0 v0] r IH]; simpl in *; [discriminate|].
      destruct (str_eqb k k0) eqn:E; [apply str_eqb_eq in E; inversion Hv; subst; left; reflexivity | right; apply IH; exact Hv]. }
    pose proof (proj1 (forallb_forall _ _) Hcan _ Hin) as Hx. simpl in Hx.
    destruct Hk as [-> | ->]; rewrite str_eqb_refl in Hx; rewrite ?orb_true_r in Hx; simpl in Hx; exact Hx. }
  destruct (ext_int_entry ext k_offset (Hc k_offset (or_introl eq_refl))) as (off & Ho & Eo).
  destruct (ext_int_entry ext k_length (Hc k_length (or_intror eq_refl))) as (len & Hl & El).
  exists off, len. split; [exact Ho|]. split; [exact Hl|].
  unfold mem in Hloc. destruct (lookup k_location ext) as [lv|] eqn:Elo; [|discriminate]. cbn [dflt].
  symmetry. apply ksort_perm; [|exact Hn].
  rewrite Eo, El.
  etransitivity; [apply (filter_partition_perm (fun kv : str * str => ext_interpreted (fst kv)))|].
  set (A := match lookup k_offset ext with Some v => [(k_offset, v)] | None => [] end).
  set (B := match lookup k_length ext with Some v => [(k_length, v)] | None => [] end).
  set (F := filter (fun kv : str * str => negb (ext_interpreted (fst kv))) ext).
  assert (E : (k_location, lv) :: A ++ B ++ F = ([(k_location, lv)] ++ A ++ B) ++ F)
    by (simpl; rewrite <- app_assoc; reflexivity).
  rewrite E. apply Permutation_app_tail. unfold A, B.
  rewrite <- (key_filter_lookup ext k_offset Hn), <- (key_filter_lookup ext k_length Hn).
  assert (E1 : [(k_location, lv)] = filter (fun kv : str * str => str_eqb (fst kv) k_location) ext)
    by (rewrite (key_filter_lookup ext k_location Hn), Elo; reflexivity).
  rewrite E1.
  apply filter3_perm.
  - intros x. reflexivity.
  - intros x Hx. apply str_eqb_eq in Hx. rewrite Hx. split; reflexivity.
  - intros x Hx. apply str_eqb_eq in Hx. rewrite Hx. reflexivity.
Qed.

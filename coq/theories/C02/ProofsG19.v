(* entry point: a standalone AttributeProto *)
From Coq Require Import ZArith NArith List Bool Lia PeanoNat.
From IRV Require Import Base.Exn Gen.C02Gen C02.Model C02.Model2 C02.Norm C02.Proofs1 C02.Proofs2 C02.Proofs3.
From IRV Require Import C02.ProofsFuel C02.ProofsDepth C02.ProofsG14 C02.ProofsG16.
Import ListNotations.
Open Scope Z_scope.

Theorem attr_entry_roundtrip (a : AttrP GraphP) :
  wf_attr_top a = true ->
  exists q, roundtrip_attr a = Ok q /\ norm_attr_top q = norm_attr_top a.
Proof.
  intros Hw. unfold wf_attr_top in Hw. set (n := attrv_depth gdepth (a_val a)).
  destruct (attr_roundtrip (deser_graph (S n)) (ser_graph (S n) None)
              (fun g' => wf_graph true [] g' && small n g') []) with (allow_ref := true) (a := a)
    as (ia & Hd & _ & a' & Hs & Hn).
  - intros g' Hg. apply andb_prop in Hg. destruct Hg as [H1 H2].
    apply (nested_rt n (S n) true None [] [] g' (le_n _) (fun _ => I)); try assumption; [constructor | intros k []].
  - unfold small. change (is_empty_graph empty_graph) with true. rewrite orb_true_r. reflexivity.
  - apply wf_attr_strengthen; [exact Hw|]. apply nested_depth_attr. apply le_n.
  - exists a'. split; [|exact Hn]. unfold roundtrip_attr. fold n. rewrite Hd. cbn [res_bind].
    pose proof (deser_attr_depth (deser_graph (S n)) empty_graph [] (S n) a ia
                  (fun sc g ig E => deser_graph_depth _ _ _ _ E) Hd) as Hdep.
    rewrite <- Hs. apply ser_attr_ext.
    apply (attr_agree_depth _ _ (iattrv_depth igdepth (ia_val ia))); [|apply le_n].
    intros g' Hg'. apply ser_graph_fuel_gen; [exact Hg' | lia].
Qed.

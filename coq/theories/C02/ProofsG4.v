(* graph stage, part 4: the node phase and success of deser_graph_body *)
From Coq Require Import ZArith NArith List Bool Lia.
From IRV Require Import Base.Exn Gen.C02Gen C02.Model C02.Model2 C02.Norm C02.Proofs1 C02.Proofs2 C02.Proofs3.
From IRV Require Import C02.ProofsG1 C02.ProofsG2 C02.ProofsG3.
Import ListNotations.
Open Scope Z_scope.

Definition node_rel (sg : IGraph -> res GraphP) (irv : option Z) (n : NodeP GraphP) (i : INode IGraph) : Prop :=
  in_outputs i = n_outputs n
  /\ exists n', ser_node sg irv i = Ok n'
                /\ norm_node norm_graph empty_graph n' = norm_node norm_graph empty_graph n.

Lemma nodes_phase dg sg (wfg : GraphP -> bool) outer cur vis qs allow_dev irv visible :
  (forall g, wfg g = true ->
     exists ig, dg (cur :: outer) g = Ok ig /\ exists g', sg ig = Ok g' /\ norm_graph g' = norm_graph g) ->
  wfg empty_graph = true -> Forall scope_ok (cur :: outer) -> irv_allows allow_dev irv ->
  (forall k, In k visible -> visible_in (cur :: outer) k) ->
  forall nodes,
  (forall n o, In n nodes -> In o (n_outputs n) -> o = [] \/ mem o cur = true) ->
  forallb (wf_node allow_dev (fun _ => wfg) visible) nodes = true ->
  exists inodes, mapS (deser_node dg empty_graph outer vis qs) nodes cur = Ok (inodes, cur)
                 /\ Forall2 (node_rel sg irv) nodes inodes.
Proof.
  intros Hg He Hs Hirv Hvis. induction nodes as [|n r IH]; intros Ho Hw.
  - exists []. split; [reflexivity | constructor].
  - simpl in Hw. apply andb_prop in Hw. destruct Hw as [Hw1 Hw2].
    assert (Hon : Forall (fun o => o = [] \/ mem o cur = true) (n_outputs n)).
    { apply Forall_forall. intros o Hin. apply (Ho n o); [left; reflexivity | exact Hin]. }
    destruct (node_roundtrip dg sg wfg outer cur vis qs Hg He Hs allow_dev irv visible n Hirv Hvis Hon Hw1)
      as (inode & Hd & Hout & n' & Hser & Hnorm).
    destruct IH as (inodes & Hm & Hf); [intros n0 o Hn0; apply Ho; right; exact Hn0 | exact Hw2 |].
    exists (inode :: inodes). rewrite mapS_cons, Hd. cbn [res_bind fst snd]. rewrite Hm. cbn [res_bind fst snd].
    split; [reflexivity|]. constructor; [|exact Hf]. split; [exact Hout|]. exists n'. split; assumption.
Qed.

Lemma dedup_nodup l : NoDup l -> forall seen, (forall x, In x l -> ~ In x seen) -> dedup_str seen l = l.
Proof.
  induction 1 as [|x r Hx Hr IH]; intros seen Hs; simpl; [reflexivity|].
  assert (E : in_str x seen = false) by (apply in_str_false; apply Hs; left; reflexivity).
  rewrite E. f_equal. apply IH. intros y Hy [Hc|Hc]; [subst; contradiction | apply (Hs y); [right; exact Hy | exact Hc]].
Qed.

Lemma last_only_nodup l : NoDup (map tname l) -> last_only l = l.
Proof.
  induction l as [|t r IH]; simpl; intros H; [reflexivity|].
  inversion H; subst. fold (tname t).
  assert (E : in_str (tname t) (map (fun x => dflt [] (t_name x)) r) = false) by (apply in_str_false; exact H2).
  rewrite E, andb_false_r, IH by assumption. reflexivity.
Qed.
Lemma mapM_tensors_ok l : Forall init_ok l -> mapM deser_tensor l = Ok (map dten l).
Proof.
  induction 1 as [|t r Ht Hr IH]; [reflexivity|].
  rewrite mapM_cons. destruct Ht as (Hw & _). rewrite (deser_tensor_total t Hw). cbn [res_bind].
  rewrite IH. reflexivity.
Qed.

Lemma wf_node_conv allow_dev (wfg : list str -> GraphP -> bool) visible n :
  wf_node allow_dev wfg visible n = wf_node allow_dev (fun _ => wfg visible) visible n.
Proof. reflexivity. Qed.

Section GraphDeser.
  Variable g : GraphP.
  Variables (allow_dev : bool) (visible : list str) (outer : list scope) (irv : option Z).
  Variables (dg : list scope -> GraphP -> res IGraph) (sg : IGraph -> res GraphP).
  Hypothesis W : wfg_props allow_dev visible g.
  Hypothesis Houter : Forall scope_ok outer.
  Hypothesis Hvis : forall k, In k visible -> visible_in outer k.
  Hypothesis Hirv : irv_allows allow_dev irv.
  (* induction hypothesis for the nested graphs, in any scope stack where visible ++ declared g resolves *)
  (* the predicate satisfied by the nested graphs (well-formed and small enough for the fuel) *)
  Variable wfg' : GraphP -> bool.
  Hypothesis Hnodes' : forallb (wf_node allow_dev (fun _ => wfg') (visible ++ declared g)) (g_nodes g) = true.
  Hypothesis Hempty' : wfg' empty_graph = true.
  Hypothesis HIH : forall outer' g', Forall scope_ok outer' ->
      (forall k, In k (visible ++ declared g) -> visible_in outer' k) ->
      wfg' g' = true ->
      exists ig, dg outer' g' = Ok ig /\ exists g'', sg ig = Ok g'' /\ norm_graph g'' = norm_graph g'.

  Lemma visible_T2 k : In k (visible ++ declared g) -> visible_in (T2 g :: outer) k.
  Proof.
    intros H. unfold visible_in. simpl.
    destruct (lookup k (T2 g)) eqn:E; [eexists; reflexivity|].
    apply in_app_or in H. destruct H as [H|H]; [exact (Hvis k H)|].
    pose proof (mem_T2_decl g allow_dev visible W k H) as Hm. unfold mem in Hm. rewrite E in Hm. discriminate.
  Qed.

  Lemma graph_nodes_phase :
    exists inodes,
      mapS (deser_node dg empty_graph outer (vinfo_dict (g_vinfo g)) (quant_dict (g_quant g))) (g_nodes g) (T2 g)
      = Ok (inodes, T2 g)
      /\ Forall2 (node_rel sg irv) (g_nodes g) inodes.
  Proof.
    apply (nodes_phase dg sg wfg' outer (T2 g) _ _ allow_dev irv (visible ++ declared g)).
    - intros g' Hw. apply HIH; [constructor; [apply (T2_ok g) | exact Houter] | apply visible_T2 | exact Hw].
    - exact Hempty'.
    - constructor; [apply (T2_ok g) | exact Houter].
    - exact Hirv.
    - apply visible_T2.
    - intros n o Hn Ho. destruct o as [|c o]; [left; reflexivity | right].
      apply (mem_T2_decl g allow_dev visible W). unfold declared. apply in_or_app. right. apply in_or_app. right.
      unfold node_out_names. apply filter_In. split; [|reflexivity].
      apply in_concat. exists (n_outputs n). split; [apply in_map; exact Hn | exact Ho].
    - exact Hnodes'.
  Qed.

  Lemma deser_graph_body_ok :
    exists inodes,
      Forall2 (node_rel sg irv) (g_nodes g) inodes /\
      deser_graph_body dg empty_graph outer g
      = Ok (mkIGraph (g_name g) (g_doc g) (dict_of (g_meta g)) [] (map vname (g_inputs g)) (map tname (g_inits g))
                     inodes (map (fun vi => OKey (vname vi)) (g_outputs g)) (T3 g)).
  Proof.
    destruct graph_nodes_phase as (inodes & Hn & Hf). exists inodes. split; [exact Hf|].
    unfold deser_graph_body.
    change (map (fun vi : VInfoP => dflt [] (vi_name vi)) (g_inputs g)) with (map vname (g_inputs g)).
    assert (End : nodup_str (map vname (g_inputs g)) = true) by (apply nodup_str_NoDup; exact (w_ins_nd _ _ _ W)).
    rewrite End. cbn [negb].
    rewrite (phase_inputs g allow_dev visible W). cbn [res_bind].
    rewrite (mapM_tensors_ok _ (w_inits_ok _ _ _ W)). cbn [res_bind].
    rewrite (last_only_nodup _ (w_inits_nd _ _ _ W)).
    rewrite (dict_T0 g allow_dev visible W), (phase_inits g allow_dev visible W). cbn [res_bind fst snd].
    rewrite (phase_declare g allow_dev visible W). cbn [res_bind].
    rewrite Hn. cbn [res_bind fst snd].
    rewrite (phase_outputs g allow_dev visible W). cbn [res_bind fst snd].
    rewrite (dedup_nodup _ (w_inits_nd _ _ _ W)); [reflexivity | intros x _ []].
  Qed.
End GraphDeser.

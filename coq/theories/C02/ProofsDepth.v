From Coq Require Import ZArith NArith List Bool Lia PeanoNat.
From IRV Require Import Base.Exn Gen.C02Gen C02.Model C02.Model2 C02.Norm C02.Proofs1.
From IRV Require Import C02.ProofsFuel.
Import ListNotations.

(* ------------------------------------------------------------------ generic helpers *)
Lemma bind_ok {A B} (e : res A) (k : A -> res B) r :
  res_bind e k = Ok r -> exists x, e = Ok x /\ k x = Ok r.
Proof. destruct e; simpl; intros H; [eauto|discriminate]. Qed.

Lemma mapM_cons {A B} (f : A -> res B) x r :
  mapM f (x :: r) = res_bind (f x) (fun y => res_bind (mapM f r) (fun ys => Ok (y :: ys))).
Proof. reflexivity. Qed.

Lemma mapS_cons {A B S} (f : S -> A -> res (B * S)) x r s :
  mapS f (x :: r) s =
  res_bind (f s x) (fun ys => res_bind (mapS f r (snd ys)) (fun zs => Ok (fst ys :: fst zs, snd zs))).
Proof. reflexivity. Qed.

Lemma mapM_Forall {A B} (f : A -> res B) (P : B -> Prop) l :
  (forall x y, f x = Ok y -> P y) -> forall ys, mapM f l = Ok ys -> Forall P ys.
Proof.
  intros H. induction l as [|x r IH]; intros ys E.
  - simpl in E. inversion E. constructor.
  - rewrite mapM_cons in E.
    apply bind_ok in E. destruct E as [y [E1 E]].
    apply bind_ok in E. destruct E as [zs [E2 E]].
    inversion E; subst. constructor; eauto.
Qed.

Lemma mapS_Forall {A B S} (f : S -> A -> res (B * S)) (P : B -> Prop) l :
  (forall s x y s', f s x = Ok (y, s') -> P y) ->
  forall s ys s', mapS f l s = Ok (ys, s') -> Forall P ys.
Proof.
  intros H. induction l as [|x r IH]; intros s ys s' E.
  - simpl in E. inversion E. constructor.
  - rewrite mapS_cons in E.
    apply bind_ok in E. destruct E as [[y s1] [E1 E]].
    apply bind_ok in E. destruct E as [[zs s2] [E2 E]].
    cbn [fst snd] in *.
    inversion E; subst. constructor; eauto.
Qed.

Lemma list_max_map_le {A} (f : A -> nat) (l : list A) (B : nat) :
  Forall (fun x => (f x <= B)%nat) l -> (list_max (map f l) <= B)%nat.
Proof.
  intros H. apply list_max_le. induction H; simpl; constructor; auto.
Qed.

(* ------------------------------------------------------------------ dictionaries keep elements *)
Lemma attrs_dict_in a : forall l acc, In a (attrs_dict acc l) -> In a acc \/ In a l.
Proof.
  induction l as [|b r IH]; intros acc H; simpl in H.
  - left. exact H.
  - apply IH in H. destruct H as [H|H]; [|right; right; exact H].
    clear IH. induction acc as [|c d IHd]; simpl in H.
    + destruct H as [<-|[]]. right. left. reflexivity.
    + destruct (str_eqb (ia_name b) (ia_name c)); simpl in H.
      * destruct H as [<-|H]; [right; left; reflexivity | left; right; exact H].
      * destruct H as [<-|H]; [left; left; reflexivity|].
        apply IHd in H. destruct H as [H|H]; [left; right; exact H | right; exact H].
Qed.

Lemma funcs_dict_in a : forall l acc, In a (funcs_dict acc l) -> In a acc \/ In a l.
Proof.
  induction l as [|b r IH]; intros acc H; simpl in H.
  - left. exact H.
  - apply IH in H. destruct H as [H|H]; [|right; right; exact H].
    clear IH. induction acc as [|c d IHd]; simpl in H.
    + destruct H as [<-|[]]. right. left. reflexivity.
    + destruct (fkey_eqb (fkey b) (fkey c)); simpl in H.
      * destruct H as [<-|H]; [right; left; reflexivity | left; right; exact H].
      * destruct H as [<-|H]; [left; left; reflexivity|].
        apply IHd in H. destruct H as [H|H]; [left; right; exact H | right; exact H].
Qed.

(* ------------------------------------------------------------------ 1. attributes *)
Lemma deser_attr_depth (dg : list scope -> GraphP -> res IGraph) eg scopes (B : nat) a ia :
  (forall sc g ig, dg sc g = Ok ig -> (igdepth ig <= B)%nat) ->
  deser_attr dg eg scopes a = Ok ia -> (iattrv_depth igdepth (ia_val ia) <= B)%nat.
Proof.
  intros HB H. unfold deser_attr in H. cbv zeta in H.
  destruct (negb _); [discriminate|].
  destruct (truthy (a_ref a)).
  { inversion H; subst. simpl. lia. }
  apply bind_ok in H. destruct H as [v [E1 E2]].
  inversion E2; subst ia. cbn [ia_val]. clear E2.
  repeat match type of E1 with
         | (if ?c then _ else _) = _ => destruct c
         end;
    try discriminate;
    try (inversion E1; subst v; simpl; lia).
  - (* TENSOR *)
    apply bind_ok in E1. destruct E1 as [t [_ E]]. inversion E; subst v. simpl. lia.
  - (* GRAPH *)
    apply bind_ok in E1. destruct E1 as [g [Eg E]]. inversion E; subst v. simpl.
    eapply HB. exact Eg.
  - (* TENSORS *)
    apply bind_ok in E1. destruct E1 as [t [_ E]]. inversion E; subst v. simpl. lia.
  - (* GRAPHS *)
    apply bind_ok in E1. destruct E1 as [l [El E]]. inversion E; subst v. simpl.
    apply list_max_map_le.
    eapply mapM_Forall; [|exact El].
    intros g ig Eg. cbv beta. eapply HB. exact Eg.
  - (* TYPE_PROTO *)
    apply bind_ok in E1. destruct E1 as [it [_ E]].
    apply bind_ok in E. destruct E as [sh [_ E]]. inversion E; subst v. simpl. lia.
  - (* TYPE_PROTOS *)
    apply bind_ok in E1. destruct E1 as [l [_ E]]. inversion E; subst v. simpl. lia.
Qed.

(* ------------------------------------------------------------------ 2. nodes *)
Lemma deser_node_depth dg eg outer vis qs cur (B : nat) n inode cur' :
  (forall sc g ig, dg sc g = Ok ig -> (igdepth ig <= B)%nat) ->
  deser_node dg eg outer vis qs cur n = Ok (inode, cur') -> (inode_depth igdepth inode <= B)%nat.
Proof.
  intros HB H. unfold deser_node in H.
  apply bind_ok in H. destruct H as [ins [_ H]]. cbv zeta in H.
  apply bind_ok in H. destruct H as [outs [_ H]].
  apply bind_ok in H. destruct H as [attrs [Ea H]].
  inversion H; subst inode. clear H.
  unfold inode_depth. cbn [in_attrs].
  apply list_max_map_le. apply Forall_forall. intros a Ha.
  apply attrs_dict_in in Ha. destruct Ha as [[]|Ha].
  pose proof (mapM_Forall _ (fun ia => (iattrv_depth igdepth (ia_val ia) <= B)%nat) _
                (fun x y E => deser_attr_depth dg eg _ B x y HB E) _ Ea) as F.
  rewrite Forall_forall in F. apply F. exact Ha.
Qed.

Lemma nodes_depth dg eg outer vis qs (B : nat) l cur nodes cur' :
  (forall sc g ig, dg sc g = Ok ig -> (igdepth ig <= B)%nat) ->
  mapS (deser_node dg eg outer vis qs) l cur = Ok (nodes, cur') ->
  (list_max (map (inode_depth igdepth) nodes) <= B)%nat.
Proof.
  intros HB H. apply list_max_map_le.
  eapply mapS_Forall; [|exact H].
  intros s x y s' E. cbv beta. eapply deser_node_depth; [exact HB|exact E].
Qed.

(* ------------------------------------------------------------------ 3. graphs *)
Lemma deser_graph_depth : forall n outer g ig, deser_graph n outer g = Ok ig -> (igdepth ig <= n)%nat.
Proof.
  induction n as [|n IH]; intros outer g ig H.
  - simpl in H. discriminate.
  - change (deser_graph (S n) outer g)
      with (deser_graph_body (deser_graph n) empty_graph outer g) in H.
    unfold deser_graph_body in H. cbv zeta in H.
    destruct (negb _); [discriminate|].
    apply bind_ok in H. destruct H as [ins [_ H]].
    apply bind_ok in H. destruct H as [its [_ H]].
    apply bind_ok in H. destruct H as [st [_ H]].
    apply bind_ok in H. destruct H as [cur2 [_ H]].
    apply bind_ok in H. destruct H as [[nodes cur3] [En H]].
    apply bind_ok in H. destruct H as [outs [_ H]].
    inversion H; subst ig. clear H.
    rewrite igdepth_eq. cbn [ig_nodes fst].
    apply le_n_S.
    eapply nodes_depth; [|exact En].
    intros sc g' ig' E. eapply IH. exact E.
Qed.

(* ------------------------------------------------------------------ 4. functions *)
Lemma deser_function_depth : forall fuel f fn, deser_function fuel f = Ok fn -> (ifdepth fn <= S fuel)%nat.
Proof.
  intros fuel f fn H. unfold deser_function in H. cbv zeta in H.
  destruct (negb _); [discriminate|].
  apply bind_ok in H. destruct H as [ins [_ H]].
  apply bind_ok in H. destruct H as [cur1 [_ H]].
  apply bind_ok in H. destruct H as [[nodes cur2] [En H]].
  apply bind_ok in H. destruct H as [outs [_ H]].
  apply bind_ok in H. destruct H as [attrs [Ea H]].
  inversion H; subst fn. clear H.
  assert (HB : forall sc g ig, deser_graph fuel sc g = Ok ig -> (igdepth ig <= fuel)%nat).
  { intros sc g ig E. eapply deser_graph_depth. exact E. }
  unfold ifdepth. cbn [if_graph if_attrs].
  apply Nat.max_lub.
  - rewrite igdepth_eq. cbn [ig_nodes fst]. apply le_n_S.
    eapply nodes_depth; [exact HB|exact En].
  - apply le_n_S. apply list_max_map_le. apply Forall_forall. intros a Ha.
    apply attrs_dict_in in Ha. destruct Ha as [[]|Ha].
    apply in_app_or in Ha. destruct Ha as [Ha|Ha].
    + pose proof (mapM_Forall _ (fun ia => (iattrv_depth igdepth (ia_val ia) <= fuel)%nat) _
                    (fun x y E => deser_attr_depth _ _ _ fuel x y HB E) _ Ea) as F.
      rewrite Forall_forall in F. apply F. exact Ha.
    + apply in_map_iff in Ha. destruct Ha as [nm [<- _]]. simpl. lia.
Qed.

(* ------------------------------------------------------------------ 5. models *)
Lemma apply_exp_fn_depth vinfos f f' : apply_exp_fn vinfos f = Ok f' -> ifdepth f' = ifdepth f.
Proof.
  unfold apply_exp_fn. destruct (exp_entries vinfos f); intros H.
  - inversion H. reflexivity.
  - apply bind_ok in H. destruct H as [vals [_ H]]. inversion H; subst f'. clear H.
    unfold ifdepth. cbn [if_graph if_attrs]. rewrite !igdepth_eq. reflexivity.
Qed.

Lemma mapM_Forall_in {A B} (f : A -> res B) (P : B -> Prop) l :
  (forall x y, In x l -> f x = Ok y -> P y) -> forall ys, mapM f l = Ok ys -> Forall P ys.
Proof.
  induction l as [|x r IH]; intros HP ys H.
  - inversion H. constructor.
  - rewrite mapM_cons in H. apply bind_ok in H. destruct H as [y [Ey H]].
    apply bind_ok in H. destruct H as [ys' [Eys H]]. inversion H; subst.
    constructor; [apply (HP x y); [left; reflexivity | exact Ey]|].
    apply IH; [intros x0 y0 Hx0; apply HP; right; exact Hx0 | exact Eys].
Qed.

Lemma deser_model_depth : forall fuel m im, deser_model_fuel fuel m = Ok im -> (imdepth im <= S fuel)%nat.
Proof.
  intros fuel m im H. unfold deser_model_fuel in H. cbv zeta in H.
  apply bind_ok in H. destruct H as [g [Eg H]].
  apply bind_ok in H. destruct H as [fs [Ef H]].
  apply bind_ok in H. destruct H as [fs' [Ef' H]].
  inversion H; subst im. clear H.
  unfold imdepth. cbn [im_graph im_funcs].
  assert (Hfs : forall fn, In fn (funcs_dict [] fs) -> (ifdepth fn <= S fuel)%nat).
  { intros fn Hfn. apply funcs_dict_in in Hfn. destruct Hfn as [[]|Hfn].
    pose proof (mapM_Forall _ (fun fn => (ifdepth fn <= S fuel)%nat) _
                  (fun x y E => deser_function_depth fuel x y E) _ Ef) as F.
    rewrite Forall_forall in F. apply F. exact Hfn. }
  apply Nat.max_lub.
  - rewrite igdepth_eq. cbn [ig_nodes]. rewrite <- igdepth_eq.
    apply deser_graph_depth in Eg. lia.
  - apply list_max_map_le.
    destruct (dflt 0%Z (m_irv m) <? FUNCTION_VALUE_INFO_SUPPORTED_VERSION)%Z.
    + apply (mapM_Forall_in (apply_exp_fn (g_vinfo (m_graph m))) _ (funcs_dict [] fs)); [|exact Ef'].
      intros x y Hx E. rewrite (apply_exp_fn_depth _ _ _ E). exact (Hfs x Hx).
    + inversion Ef'; subst. apply Forall_forall. exact Hfs.
Qed.

Print Assumptions deser_graph_depth.
Print Assumptions deser_function_depth.
Print Assumptions deser_model_depth.

(* function stage, part 2: tables, deserialization and serialization of a well-formed function *)
From Coq Require Import ZArith NArith List Bool Lia PeanoNat Permutation.
From IRV Require Import Base.Exn Gen.C02Gen C02.Model C02.Model2 C02.Norm C02.Proofs1 C02.Proofs2 C02.Proofs3.
From IRV Require Import C02.ProofsG1 C02.ProofsG2 C02.ProofsG3 C02.ProofsG4 C02.ProofsG5 C02.ProofsG6 C02.ProofsG7 C02.ProofsG8 C02.ProofsG9 C02.ProofsG10 C02.ProofsG11 C02.ProofsG12 C02.ProofsG13 C02.ProofsG14 C02.ProofsG15 C02.ProofsFuel C02.ProofsDepth.
Import ListNotations.
Open Scope Z_scope.

Definition small (n : nat) (g' : GraphP) : bool := (gdepth g' <=? n)%nat || is_empty_graph g'.

(* a nested graph: deserialized with fuel S n, serialized with any fuel' >= S n *)
Lemma nested_rt n fuel' allow_dev irv vs outer' g' :
  (S n <= fuel')%nat -> irv_allows allow_dev irv ->
  Forall scope_ok outer' -> (forall k, In k vs -> visible_in outer' k) ->
  wf_graph allow_dev vs g' = true -> small n g' = true ->
  exists ig, deser_graph (S n) outer' g' = Ok ig
             /\ exists g'', ser_graph fuel' irv ig = Ok g'' /\ norm_graph g'' = norm_graph g'.
Proof.
  intros Hf Hirv Hs Hv Hw Hsm. unfold small in Hsm. apply orb_prop in Hsm. destruct Hsm as [Hd|He].
  - apply Nat.leb_le in Hd.
    destruct (graph_roundtrip_fuel n g' allow_dev vs outer' irv Hd Hw Hs Hv Hirv) as (ig & H1 & q & H2 & H3).
    exists ig. split; [exact H1|]. exists q. split; [|exact H3].
    pose proof (deser_graph_depth _ _ _ _ H1) as Hdep.
    rewrite (ser_graph_fuel fuel' irv ig) by lia. rewrite <- (ser_graph_fuel (S n) irv ig) by lia. exact H2.
  - apply is_empty_graph_eq in He. subst g'. destruct fuel' as [|f']; [lia|].
    eexists. split; [reflexivity|]. eexists. split; reflexivity.
Qed.

Lemma nested_depth_attr m (a : AttrP GraphP) :
  (attrv_depth gdepth (a_val a) <= m)%nat -> nested_ok (small m) a.
Proof.
  intros H2. unfold nested_ok, small. destruct (a_val a); try exact I; simpl in H2.
  - apply orb_true_intro. left. apply Nat.leb_le. exact H2.
  - intros g' Hg'. apply orb_true_intro. left. apply Nat.leb_le.
    etransitivity; [|exact H2]. apply in_le_list_max. apply in_map. exact Hg'.
Qed.
Lemma nested_depth_node m (n : NodeP GraphP) a :
  (node_depth gdepth n <= m)%nat -> In a (n_attrs n) -> nested_ok (small m) a.
Proof.
  intros H1 Ha. apply nested_depth_attr. etransitivity; [|exact H1]. unfold node_depth.
  apply in_le_list_max. apply (in_map (fun a0 => attrv_depth gdepth (a_val a0))). exact Ha.
Qed.

Lemma mapM_app {A B} (f : A -> res B) l1 l2 :
  mapM f (l1 ++ l2) = (xs <- mapM f l1 ;; ys <- mapM f l2 ;; Ok (xs ++ ys)).
Proof.
  induction l1 as [|x r IH]; simpl app.
  - change (mapM f []) with (@Ok (list B) []). cbn [res_bind]. destruct (mapM f l2); reflexivity.
  - rewrite !mapM_cons. destruct (f x); [cbn [res_bind]|reflexivity]. rewrite IH.
    destruct (mapM f r); [cbn [res_bind]|reflexivity]. destruct (mapM f l2); reflexivity.
Qed.
Lemma mapM_Forall2 {A B} (f : A -> res B) l ys : mapM f l = Ok ys -> Forall2 (fun x y => f x = Ok y) l ys.
Proof.
  revert ys. induction l as [|x r IH]; intros ys H.
  - inversion H. constructor.
  - rewrite mapM_cons in H. destruct (f x) eqn:E; [|discriminate]. cbn [res_bind] in H.
    destruct (mapM f r) eqn:E2; [|discriminate]. cbn [res_bind] in H. inversion H; subst.
    constructor; [exact E | apply IH; reflexivity].
Qed.

Lemma lookup_id_map {V} (h : str -> V) l k :
  lookup k (map (fun n => (n, h n)) l) = if in_str k l then Some (h k) else None.
Proof.
  induction l as [|x r IH]; simpl; [reflexivity|].
  destruct (str_eqb k x) eqn:E; simpl; [apply str_eqb_eq in E; subst; reflexivity | exact IH].
Qed.

Section FunctionTables.
  Variable f : FunctionP.
  Variables (allow_dev allow_vinfo : bool).
  Hypothesis W : wff_props allow_dev allow_vinfo f.

  Let vis := vinfo_dict (f_vinfo f).
  Let nouts := node_out_names (f_nodes f).
  Let decl := f_inputs f ++ nouts.

  Definition fvf (k : str) : IValue := minfo (vinfo_dict (f_vinfo f)) k (new_value k).
  Definition FT0 : scope := map (fun n => (n, fvf n)) (f_inputs f).
  Definition FT1 : scope :=
    fold_left (fun c k => dset k (out_new (vinfo_dict (f_vinfo f)) [] k) c) (node_out_names (f_nodes f)) FT0.

  Lemma fvis_keyed : vis = map (fun vi => (vname vi, vi)) (f_vinfo f).
  Proof.
    unfold vis, vinfo_dict. apply dict_of_nodup. unfold wf_dict. rewrite map_map. simpl.
    apply nodup_str_NoDup. exact (f_vis_nd _ _ _ W).
  Qed.
  Lemma fvis_wf : vis_wf vis.
  Proof.
    intros k vi H. rewrite fvis_keyed in H. apply lookup_keyed_in in H. destruct H as [Hin _].
    exact (forallb_In _ _ _ (f_vis_wf _ _ _ W) Hin).
  Qed.
  Lemma fvis_lookup k e : lookup k vis = Some e -> vname e = k /\ wf_vinfo e = true.
  Proof.
    intros H. split; [|exact (fvis_wf k e H)]. rewrite fvis_keyed in H. apply lookup_keyed_in in H. tauto.
  Qed.

  Lemma FT1_lookup k : In k decl -> lookup k FT1 = Some (fvf k).
  Proof.
    intros H. unfold FT1. rewrite (fold_table (fun x : str => x) (fun x _ => out_new vis [] x)).
    2:{ rewrite map_id. exact (f_nouts_nd _ _ _ W). }
    rewrite lookup_self. fold nouts. destruct (in_str k nouts) eqn:E; [reflexivity|].
    unfold FT0. rewrite lookup_id_map. apply in_app_or in H. destruct H as [H|H].
    - apply in_str_In in H. rewrite H. reflexivity.
    - apply in_str_In in H. fold nouts in H. congruence.
  Qed.
  Lemma FT1_mem k : In k decl -> mem k FT1 = true.
  Proof. intros H. unfold mem. rewrite (FT1_lookup k H). reflexivity. Qed.
  Lemma FT1_getv k : In k decl -> getv FT1 k = Ok (fvf k).
  Proof. intros H. unfold getv. rewrite (FT1_lookup k H). reflexivity. Qed.
  Lemma fvf_name k : v_name (fvf k) = k.
  Proof. unfold fvf. apply v_name_minfo. Qed.

  Lemma FT1_ok : scope_ok FT1.
  Proof.
    unfold FT1. apply (scope_ok_fold (fun x : str => x) (fun x _ => out_new vis [] x)).
    - intros x o _. apply v_name_out_new.
    - unfold FT0, scope_ok. apply Forall_forall. intros [k v] Hin. apply in_map_iff in Hin.
      destruct Hin as (n & E & _). inversion E; subst. simpl. apply fvf_name.
  Qed.

  Lemma fphase_inputs :
    mapM (fun n => v <- maybe_info vis n (new_value n) ;; Ok (n, v)) (f_inputs f) = Ok FT0.
  Proof.
    unfold FT0. apply mapM_total. intros n _. rewrite (maybe_info_total _ _ _ fvis_wf). reflexivity.
  Qed.
  Lemma fdict_T0 : dict_of FT0 = FT0.
  Proof.
    apply dict_of_nodup. unfold wf_dict, FT0. rewrite map_map. simpl. rewrite map_id.
    apply nodup_str_NoDup. exact (f_ins_nd _ _ _ W).
  Qed.
  Lemma fphase_declare : foldM (declare_outputs vis []) (f_nodes f) FT0 = Ok FT1.
  Proof.
    rewrite foldM_declare. unfold FT1, node_out_names.
    apply foldM_decl1; [exact fvis_wf | exact (f_nouts_nd _ _ _ W) |].
    intros k Hk. unfold mem, FT0. rewrite lookup_id_map.
    pose proof (f_nouts_disj _ _ _ W k Hk) as Hd. apply in_str_false in Hd. rewrite Hd. reflexivity.
  Qed.
End FunctionTables.

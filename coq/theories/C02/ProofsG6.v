(* graph stage, part 6: what the serializer reads from the final value of each declared name *)
From Coq Require Import ZArith NArith List Bool Lia.
From IRV Require Import Base.Exn Gen.C02Gen C02.Model C02.Model2 C02.Norm C02.Proofs1 C02.Proofs2 C02.Proofs3.
From IRV Require Import C02.ProofsG1 C02.ProofsG2 C02.ProofsG3 C02.ProofsG4 C02.ProofsG5 C02.ProofsEqb.
Import ListNotations.
Open Scope Z_scope.

Lemma v_meta_in_val qs vi : wf_vinfo vi = true -> v_meta (in_val qs vi) = vi_meta vi.
Proof.
  intros H. unfold in_val. rewrite v_meta_maybe_quant. cbn [ainfo v_meta new_value].
  unfold wf_vinfo in H. apply andb_prop in H. destruct H as [_ Hd].
  rewrite dupdate_nil, (dict_of_nodup (dict_of (vi_meta vi))); rewrite (dict_of_nodup _ Hd); [reflexivity | exact Hd].
Qed.
Lemma v_quant_in_val qs vi : v_quant (in_val qs vi) = qd qs (vname vi).
Proof. unfold in_val. apply v_quant_maybe_quant. reflexivity. Qed.
Lemma v_quant_init_new vis qs t : v_quant (init_new vis qs t) = qd qs (tname t).
Proof. unfold init_new. cbv zeta. apply v_quant_maybe_quant. cbn [v_quant]. rewrite v_quant_minfo. reflexivity. Qed.
Lemma v_quant_out_new vis qs k : v_quant (out_new vis qs k) = qd qs k.
Proof. unfold out_new. apply v_quant_maybe_quant. rewrite v_quant_minfo. reflexivity. Qed.
Lemma v_const_init_new vis qs t : v_const (init_new vis qs t) = Some (dten t).
Proof. unfold init_new. cbv zeta. rewrite v_const_maybe_quant. cbn [v_const]. rewrite v_const_minfo. reflexivity. Qed.

Section ValueFacts.
  Variable g : GraphP.
  Variables (allow_dev : bool) (visible : list str).
  Hypothesis W : wfg_props allow_dev visible g.

  Let qs := quant_dict (g_quant g).
  Let vis := vinfo_dict (g_vinfo g).
  Let ikeyed := map (fun vi => (vname vi, vi)) (g_inputs g).
  Let tkeyed := map (fun t => (tname t, t)) (g_inits g).
  Let okeyed := map (fun vi => (vname vi, vi)) (g_outputs g).
  Let nouts := node_out_names (g_nodes g).
  Notation fv := (fv g).

  Lemma decl_cases k :
    In k (declared g) ->
    (exists vi, In vi (g_inputs g) /\ vname vi = k)
    \/ (exists t, In t (g_inits g) /\ tname t = k /\ ~ In k (map vname (g_inputs g)))
    \/ In k nouts.
  Proof.
    intros H. unfold declared in H. apply in_app_or in H. destruct H as [H|H].
    - left. apply in_map_iff in H. destruct H as (vi & E & Hin). exists vi. split; assumption.
    - apply in_app_or in H. destruct H as [H|H]; [|right; right; exact H].
      destruct (in_str k (map vname (g_inputs g))) eqn:E.
      + left. apply in_str_In in E. apply in_map_iff in E. destruct E as (vi & E & Hin). exists vi. split; assumption.
      + right. left. apply in_map_iff in H. destruct H as (t & Et & Hin). exists t.
        split; [exact Hin | split; [exact Et | apply in_str_false; exact E]].
  Qed.

  Lemma okeyed_some k o : lookup k okeyed = Some o -> In o (g_outputs g) /\ vname o = k.
  Proof. apply lookup_keyed_in. Qed.

  (* ---- inputs *)
  Definition in_base (vi : VInfoP) : IValue :=
    match lookup (vname vi) tkeyed with Some t => set_const (dten t) (in_val qs vi) | None => in_val qs vi end.
  Lemma fv_input vi :
    In vi (g_inputs g) ->
    fv (vname vi) = match lookup (vname vi) okeyed with Some o => ainfo o (in_base vi) | None => in_base vi end.
  Proof. intros Hin. apply (fv_of_T2 g allow_dev visible W). apply (T2_input g allow_dev visible W vi Hin). Qed.

  Lemma in_base_facts vi :
    In vi (g_inputs g) ->
    ser_value [] (in_base vi) = ser_value [] (ainfo vi (new_value (vname vi)))
    /\ v_meta (in_base vi) = vi_meta vi /\ v_name (in_base vi) = vname vi /\ v_quant (in_base vi) = qd qs (vname vi).
  Proof.
    intros Hin. pose proof (forallb_In _ _ _ (w_ins_wf _ _ _ W) Hin) as Hw.
    unfold in_base. destruct (lookup (vname vi) tkeyed).
    - rewrite ser_value_set_const. cbn [set_const v_meta v_name v_quant].
      unfold in_val at 1. rewrite ser_value_maybe_quant.
      repeat split; [apply v_meta_in_val; exact Hw | apply v_name_in_val | apply v_quant_in_val].
    - unfold in_val at 1. rewrite ser_value_maybe_quant.
      repeat split; [apply v_meta_in_val; exact Hw | apply v_name_in_val | apply v_quant_in_val].
  Qed.

  Lemma fv_input_info vi :
    In vi (g_inputs g) -> norm_vinfo (ser_value [] (fv (vname vi))) = norm_vinfo vi.
  Proof.
    intros Hin. pose proof (forallb_In _ _ _ (w_ins_wf _ _ _ W) Hin) as Hw.
    destruct (in_base_facts vi Hin) as (Hs & Hm & Hn & _).
    rewrite (fv_input vi Hin). destruct (lookup (vname vi) okeyed) as [o|] eqn:Eo.
    - apply okeyed_some in Eo. destruct Eo as [Ho En].
      apply ainfo_info_pass; try assumption.
      + exact (forallb_In _ _ _ (w_outs_wf _ _ _ W) Ho).
      + apply vinfo_eqb_sound. apply (w_pass _ _ _ W); [exact Hin | exact Ho | symmetry; exact En].
    - rewrite Hs. apply ainfo_info_named; [exact Hw | reflexivity | reflexivity].
  Qed.

  (* ---- every declared name: name, quantization parameters *)
  Lemma fv_quant k : In k (declared g) -> v_quant (fv k) = qd qs k.
  Proof.
    intros H. destruct (decl_cases k H) as [(vi & Hin & <-)|[(t & Hin & <- & Hni)|Hn]].
    - rewrite (fv_input vi Hin). destruct (in_base_facts vi Hin) as (_ & _ & _ & Hq).
      destruct (lookup (vname vi) okeyed); [cbn [ainfo v_quant]|]; exact Hq.
    - rewrite (fv_of_T2 g allow_dev visible W _ _ (T2_init g allow_dev visible W t Hin Hni)).
      fold okeyed. destruct (lookup (tname t) okeyed); [cbn [ainfo v_quant]|]; apply v_quant_init_new.
    - rewrite (fv_of_T2 g allow_dev visible W _ _ (T2_nout g allow_dev visible W k Hn)).
      fold okeyed. destruct (lookup k okeyed); [cbn [ainfo v_quant]|]; apply v_quant_out_new.
  Qed.

  (* ---- initializers *)
  Lemma fv_init_const t : In t (g_inits g) -> v_const (fv (tname t)) = Some (dten t).
  Proof.
    intros Hin. destruct (in_str (tname t) (map vname (g_inputs g))) eqn:E.
    - apply in_str_In in E. apply in_map_iff in E. destruct E as (vi & En & Hvi).
      rewrite <- En. rewrite (fv_input vi Hvi).
      assert (Hb : v_const (in_base vi) = Some (dten t)).
      { unfold in_base. rewrite En. fold tkeyed. unfold tkeyed.
        rewrite (lookup_keyed_nodup tname _ t (w_inits_nd _ _ _ W) Hin). reflexivity. }
      destruct (lookup (vname vi) okeyed); [cbn [ainfo v_const]|]; exact Hb.
    - apply in_str_false in E.
      rewrite (fv_of_T2 g allow_dev visible W _ _ (T2_init g allow_dev visible W t Hin E)).
      fold okeyed. destruct (lookup (tname t) okeyed); [cbn [ainfo v_const]|]; apply v_const_init_new.
  Qed.
  Lemma fv_init_plain t :
    In t (g_inits g) -> ~ In (tname t) (map vname (g_inputs g)) -> ~ In (tname t) (map vname (g_outputs g)) ->
    fv (tname t) = init_new vis qs t.
  Proof.
    intros Hin Hni Hno. rewrite (fv_of_T2 g allow_dev visible W _ _ (T2_init g allow_dev visible W t Hin Hni)).
    apply lookup_keyed_none in Hno. rewrite Hno. reflexivity.
  Qed.
  Lemma fv_nout_plain k :
    In k nouts -> ~ In k (map vname (g_outputs g)) -> fv k = out_new vis qs k.
  Proof.
    intros Hin Hno. rewrite (fv_of_T2 g allow_dev visible W _ _ (T2_nout g allow_dev visible W k Hin)).
    apply lookup_keyed_none in Hno. rewrite Hno. reflexivity.
  Qed.

  (* ---- graph outputs *)
  Lemma vis_none_of_output k : In k (map vname (g_outputs g)) -> lookup k vis = None.
  Proof.
    intros H. unfold vis. rewrite (vis_keyed g allow_dev visible W). apply lookup_keyed_none.
    intros Hc. destruct (w_vis_disj _ _ _ W k Hc) as [_ Hc2]. contradiction.
  Qed.

  Lemma fv_output_info o :
    In o (g_outputs g) -> norm_vinfo (ser_value [] (fv (vname o))) = norm_vinfo o.
  Proof.
    intros Ho. pose proof (forallb_In _ _ _ (w_outs_wf _ _ _ W) Ho) as Hw.
    assert (Hk : In (vname o) (map vname (g_outputs g))) by (apply in_map; exact Ho).
    assert (Elk : lookup (vname o) okeyed = Some o) by (apply (lookup_keyed_nodup vname _ o (w_outs_nd _ _ _ W) Ho)).
    destruct (decl_cases _ (w_outs_decl _ _ _ W _ Hk)) as [(vi & Hin & En)|[(t & Hin & En & Hni)|Hn]].
    - rewrite <- En. rewrite (fv_input_info vi Hin).
      apply vinfo_eqb_sound. apply (w_pass _ _ _ W); assumption.
    - rewrite <- En in *. rewrite (fv_of_T2 g allow_dev visible W _ _ (T2_init g allow_dev visible W t Hin Hni)).
      fold okeyed. rewrite En in *. rewrite Elk.
      apply ainfo_info_named; [exact Hw | | rewrite v_name_init_new; exact En].
      unfold init_new. cbv zeta. rewrite v_meta_maybe_quant. cbn [v_meta]. unfold minfo.
      fold vis. rewrite <- En in Hk. rewrite (vis_none_of_output _ Hk). reflexivity.
    - rewrite (fv_of_T2 g allow_dev visible W _ _ (T2_nout g allow_dev visible W _ Hn)).
      fold okeyed. rewrite Elk.
      apply ainfo_info_named; [exact Hw | | apply v_name_out_new].
      unfold out_new. rewrite v_meta_maybe_quant. unfold minfo. fold vis. rewrite (vis_none_of_output _ Hk). reflexivity.
  Qed.
End ValueFacts.

(* graph stage, part 14: induction on the nesting depth — the graph round trip *)
From Coq Require Import ZArith NArith List Bool Lia PeanoNat.
From IRV Require Import Base.Exn Gen.C02Gen C02.Model C02.Model2 C02.Norm C02.Proofs1 C02.Proofs2 C02.Proofs3.
From IRV Require Import C02.ProofsG1 C02.ProofsG2 C02.ProofsG3 C02.ProofsG4 C02.ProofsG5 C02.ProofsG6 C02.ProofsG7 C02.ProofsG8 C02.ProofsG9 C02.ProofsG10 C02.ProofsG11 C02.ProofsG12 C02.ProofsG13 C02.ProofsFuel.
Import ListNotations.
Open Scope Z_scope.

Definition is_empty_graph (g : GraphP) : bool :=
  match g with mkGraphP None None [] [] [] [] [] [] [] => true | _ => false end.
Lemma is_empty_graph_eq g : is_empty_graph g = true -> g = empty_graph.
Proof.
  destruct g as [n d i t nd o v q m]. destruct n, d, i, t, nd, o, v, q, m; simpl; intros H; try discriminate. reflexivity.
Qed.

Lemma gdepth_eq g : gdepth g = S (list_max (map (node_depth gdepth) (g_nodes g))).
Proof. destruct g. reflexivity. Qed.

Definition nested_ok (Q : GraphP -> bool) (a : AttrP GraphP) : Prop :=
  match a_val a with
  | AG g' => Q g' = true
  | AGs l => forall g', In g' l -> Q g' = true
  | _ => True
  end.

Lemma wf_attr_strengthen allow_ref (P Q : GraphP -> bool) a :
  wf_attr allow_ref P a = true -> nested_ok Q a -> wf_attr allow_ref (fun g' => P g' && Q g') a = true.
Proof.
  unfold wf_attr, nested_ok. intros H HQ.
  destruct (valid_attrtype (dflt 0 (a_type a)) && negb (is_sparse_ty (dflt 0 (a_type a)))); [|discriminate].
  simpl in *. destruct (truthy (a_ref a)); [exact H|].
  destruct (negb (dflt 0 (a_type a) =? AT_UNDEFINED)); [|discriminate]. simpl in *.
  destruct (a_val a); simpl in *; try exact H.
  - apply andb_prop in H. destruct H as [H1 H2]. rewrite H1, H2, HQ. reflexivity.
  - apply andb_prop in H. destruct H as [H1 H2]. rewrite H1. simpl.
    apply forallb_forall. intros g' Hg'. rewrite (forallb_In _ _ _ H2 Hg'), (HQ g' Hg'). reflexivity.
Qed.

Lemma wf_node_strengthen ad (P Q : GraphP -> bool) vs (n : NodeP GraphP) :
  wf_node ad (fun _ => P) vs n = true -> (forall a, In a (n_attrs n) -> nested_ok Q a) ->
  wf_node ad (fun _ => fun g' => P g' && Q g') vs n = true.
Proof.
  unfold wf_node. intros H HQ. split_andb H. rewrite H, H4, H2, H1, H0. simpl.
  rewrite !andb_true_r. apply forallb_forall. intros a Ha.
  apply wf_attr_strengthen; [exact (forallb_In _ _ _ H3 Ha) | exact (HQ a Ha)].
Qed.

Lemma nested_depth g m (n : NodeP GraphP) a :
  (gdepth g <= S m)%nat -> In n (g_nodes g) -> In a (n_attrs n) ->
  nested_ok (fun g' => (gdepth g' <=? m)%nat || is_empty_graph g') a.
Proof.
  intros Hd Hn Ha. rewrite gdepth_eq in Hd. apply le_S_n in Hd.
  assert (H1 : (node_depth gdepth n <= m)%nat).
  { etransitivity; [|exact Hd]. apply in_le_list_max. apply in_map. exact Hn. }
  assert (H2 : (attrv_depth gdepth (a_val a) <= m)%nat).
  { etransitivity; [|exact H1]. unfold node_depth. apply in_le_list_max.
    apply (in_map (fun a0 => attrv_depth gdepth (a_val a0))). exact Ha. }
  unfold nested_ok. destruct (a_val a); try exact I; simpl in H2.
  - apply orb_true_intro. left. apply Nat.leb_le. exact H2.
  - intros g' Hg'. apply orb_true_intro. left. apply Nat.leb_le.
    etransitivity; [|exact H2]. apply in_le_list_max. apply in_map. exact Hg'.
Qed.

Theorem graph_roundtrip_fuel :
  forall n g allow_dev visible outer irv,
  (gdepth g <= n)%nat -> wf_graph allow_dev visible g = true ->
  Forall scope_ok outer -> (forall k, In k visible -> visible_in outer k) -> irv_allows allow_dev irv ->
  exists ig, deser_graph (S n) outer g = Ok ig
             /\ exists q, ser_graph (S n) irv ig = Ok q /\ norm_graph q = norm_graph g.
Proof.
  induction n as [|m IH]; intros g allow_dev visible outer irv Hd Hwf Hs Hv Hirv.
  - rewrite gdepth_eq in Hd. lia.
  - pose proof (wf_graph_unpack _ _ _ Hwf) as W.
    set (wfg' := fun g' => wf_graph allow_dev (visible ++ declared g) g' && ((gdepth g' <=? m)%nat || is_empty_graph g')).
    destruct (graph_level g allow_dev visible outer irv (deser_graph (S m)) (ser_graph (S m) irv)
                          Hwf Hs Hv Hirv wfg') as (inodes & Hdes & q & Hser & Hnorm).
    + (* nodes: nested graphs are well-formed and small *)
      apply forallb_forall. intros nd Hnd.
      pose proof (forallb_In _ _ _ (w_nodes _ _ _ W) Hnd) as Hwn. rewrite wf_node_conv in Hwn.
      apply (wf_node_strengthen allow_dev _ _ _ nd Hwn).
      intros a Ha. exact (nested_depth g m nd a Hd Hnd Ha).
    + unfold wfg'. change (is_empty_graph empty_graph) with true. rewrite orb_true_r, andb_true_r.
      destruct allow_dev; destruct (visible ++ declared g); reflexivity.
    + intros outer' g' Hs' Hv' Hw'. unfold wfg' in Hw'. apply andb_prop in Hw'. destruct Hw' as [Hw1 Hw2].
      apply orb_prop in Hw2. destruct Hw2 as [Hw2|Hw2].
      * apply Nat.leb_le in Hw2. exact (IH g' allow_dev (visible ++ declared g) outer' irv Hw2 Hw1 Hs' Hv' Hirv).
      * apply is_empty_graph_eq in Hw2. subst g'.
        eexists. split; [reflexivity|]. eexists. split; reflexivity.
    + exists (the_ig g inodes). split; [exact Hdes|]. exists q. split; [exact Hser | exact Hnorm].
Qed.

(* C02/Proofs2.v — stages: tensors, value-info, attributes of every kind (graph-valued ones relative
   to the round trip of the nested graphs). *)
From Coq Require Import ZArith NArith List Bool Lia.
From IRV Require Import Base.Exn Gen.C02Gen C02.Model C02.Model2 C02.Norm C02.Proofs1 C02.ProofsSort C02.ProofsExt.
Import ListNotations.
Open Scope Z_scope.

Ltac split_andb H :=
  repeat match type of H with
         | (_ && _) = true => let H1 := fresh H in apply andb_prop in H; destruct H as [H H1]
         end.

Lemma nonempty_false {A} (l : list A) : negb (nonempty l) = true -> l = [].
Proof. destruct l; [reflexivity | discriminate]. Qed.
Lemma empty_bytes_truthy o : empty_bytes o = true -> truthy_b o = None.
Proof. unfold empty_bytes, truthy_b, is_none. destruct (truthy o); [discriminate | reflexivity]. Qed.

(* ================================================================== stage 2: tensors *)
Ltac tproj := cbn [t_dims t_dtype t_name t_doc t_loc t_raw t_strs t_other t_ext t_meta].

Lemma tensor_roundtrip t :
  wf_tensor t = true ->
  exists it, deser_tensor t = Ok it
             /\ norm_tensor (ser_tensor it) = norm_tensor t
             /\ (forall n, n <> [] -> dflt [] (t_name t) = n ->
                 norm_tensor (ser_tensor (itensor_set_name it n)) = norm_tensor t)
             /\ dflt [] (itensor_name it) = dflt [] (t_name t)
             /\ itensor_dtype it = dflt 0 (t_dtype t) /\ itensor_dims it = t_dims t.
Proof.
  destruct t as [dims dt name doc loc raw strs other ext meta].
  unfold wf_tensor, deser_tensor. simpl. intros H.
  apply andb_prop in H. destruct H as [Hmeta H].
  assert (Hn : forall n, n <> [] -> dflt [] name = n -> truthy (Some n) = truthy name).
  { intros n Hne E. destruct name as [nm|]; simpl in E; subst; [reflexivity | contradiction]. }
  destruct (dflt 0 loc =? 1) eqn:Eloc.
  - (* external *)
    split_andb H. apply Z.eqb_eq in Eloc.
    destruct (ext_roundtrip_gen ext H H5 H4) as (off & len & Ho & Hl & Hs). cbv zeta in Ho, Hl, Hs.
    rewrite Ho, Hl. simpl. rewrite H3.
    apply nonempty_false in H2, H0. apply empty_bytes_truthy in H1. subst strs other.
    eexists. split; [reflexivity|].
    assert (Hcore : forall nm, truthy nm = truthy name ->
              norm_tensor (mkTensorP dims (Some (dflt 0 dt)) (truthy nm) (truthy doc) (Some 1) None [] []
                                     ((k_location, dflt [] (lookup k_location
                                                              (dict_of (filter (fun kv : str * str => ext_allowed (fst kv)) ext))))
                                        :: opt_entry k_offset off ++ opt_entry k_length len
                                        ++ filter (fun kv : str * str => negb (ext_interpreted (fst kv))) ext)
                                     (ksort (dict_of meta)))
              = norm_tensor (mkTensorP dims dt name doc loc raw [] [] ext meta)).
    { intros nm Hnm. unfold norm_tensor. tproj. rewrite !truthy_idem, Hnm, Hs, H1, (ksort_dict_of meta Hmeta).
      f_equal. destruct loc as [l|]; simpl in *; [subst; reflexivity | discriminate]. }
    split; [exact (Hcore _ eq_refl)|].
    split; [intros n Hne E; exact (Hcore (Some n) (Hn n Hne E))|].
    repeat split.
  - destruct (dflt 0 dt =? STRING_DT) eqn:Estr.
    + (* string tensor *)
      split_andb H. apply Z.eqb_eq in Estr, H.
      apply nonempty_false in H0, H1. apply empty_bytes_truthy in H2. subst other ext.
      eexists. split; [reflexivity|].
      assert (Hcore : forall nm, truthy nm = truthy name ->
                norm_tensor (mkTensorP dims (Some STRING_DT) (truthy nm) (truthy doc) None None strs [] []
                                       (ksort (dict_of meta)))
                = norm_tensor (mkTensorP dims dt name doc loc raw strs [] [] meta)).
      { intros nm Hnm. unfold norm_tensor. tproj. rewrite !truthy_idem, Hnm, H2, (ksort_dict_of meta Hmeta).
        unfold some_dflt. simpl. rewrite Estr, H. reflexivity. }
      split; [exact (Hcore _ eq_refl)|].
      split; [intros n Hne E; exact (Hcore (Some n) (Hn n Hne E))|].
      repeat split. simpl. symmetry. exact Estr.
    + (* proto-backed tensor *)
      eexists. split; [reflexivity|].
      split; [unfold norm_tensor, ser_tensor; tproj; rewrite (ksort_dict_of meta Hmeta); reflexivity|].
      split; [intros n Hne E; unfold norm_tensor, ser_tensor, itensor_set_name; tproj; rewrite (ksort_dict_of meta Hmeta), (Hn n Hne E); reflexivity|].
      repeat split.
Qed.

(* ================================================================== stage 3: value-info *)
Lemma dupdate_nil {V} (l : list (str * V)) : dupdate [] l = dict_of l.
Proof. reflexivity. Qed.

Lemma vinfo_roundtrip vi v0 :
  wf_vinfo vi = true -> v_meta v0 = [] ->
  exists v, apply_info vi v0 = Ok v
            /\ v_name v = v_name v0 /\ v_quant v = v_quant v0 /\ v_const v = v_const v0
            /\ forall nm, norm_vinfo (ser_value nm v)
                          = norm_vinfo (mkVInfoP (Some (match nm with [] => v_name v0 | _ => nm end))
                                                 (vi_type vi) (vi_doc vi) (vi_meta vi)).
Proof.
  unfold wf_vinfo, apply_info. intros H Hm. apply andb_prop in H. destruct H as [Ht Hd].
  destruct (type_roundtrip _ Ht) as (ty & sh & H1 & H2 & H3).
  rewrite H2, H1. simpl. eexists. split; [reflexivity|]. simpl. repeat split.
  intros nm. unfold norm_vinfo, ser_value. simpl. rewrite H3, truthy_idem, Hm, dupdate_nil.
  rewrite (dict_of_nodup (dict_of (vi_meta vi))); rewrite (dict_of_nodup _ Hd); [|exact Hd].
  rewrite ksort_idem. reflexivity.
Qed.

Lemma vinfo_roundtrip_new vi :
  wf_vinfo vi = true ->
  exists v, apply_info vi (new_value (vname vi)) = Ok v
            /\ v_name v = vname vi /\ v_quant v = [] /\ v_const v = None
            /\ norm_vinfo (ser_value [] v) = norm_vinfo vi.
Proof.
  intros H. destruct (vinfo_roundtrip vi (new_value (vname vi)) H eq_refl) as (v & H1 & H2 & H3 & H4 & H5).
  exists v. repeat split; try assumption. rewrite (H5 []).
  unfold norm_vinfo; cbn [vi_name vi_type vi_doc vi_meta new_value v_name]. unfold vname.
  rewrite truthy_some_dflt. reflexivity.
Qed.

(* ================================================================== stage 4: attributes *)
Section Attrs.
  Variable dg : list scope -> GraphP -> res IGraph.
  Variable sg : IGraph -> res GraphP.
  Variable wfg : GraphP -> bool.
  Variable scopes : list scope.
  (* what the nested graphs satisfy (instantiated by the induction over the nesting depth) *)
  Hypothesis Hg : forall g, wfg g = true ->
                  exists ig, dg scopes g = Ok ig /\ exists g', sg ig = Ok g' /\ norm_graph g' = norm_graph g.
  Hypothesis Hempty : wfg empty_graph = true.

  Lemma norm_empty_graph : norm_graph empty_graph = empty_graph.
  Proof. reflexivity. Qed.

  Ltac ty_is H := apply Z.eqb_eq in H; rewrite H in *.
  Ltac aproj := cbn [a_name a_ref a_doc a_type a_val ia_name ia_doc ia_val].

  Lemma mapM_tensors l :
    forallb wf_tensor l = true ->
    exists l', mapM deser_tensor l = Ok l' /\ map norm_tensor (map ser_tensor l') = map norm_tensor l.
  Proof.
    intros H. apply forallb_Forall in H.
    destruct (mapM_ok deser_tensor (fun t => wf_tensor t = true)
                (fun t it => norm_tensor (ser_tensor it) = norm_tensor t)) with (l := l) as (l' & H1 & H2).
    - intros t Ht. destruct (tensor_roundtrip t Ht) as (it & Ha & Hb & _). exists it. split; assumption.
    - exact H.
    - exists l'. split; [exact H1|]. rewrite map_map.
      apply (Forall2_map_eq norm_tensor (fun it => norm_tensor (ser_tensor it))). exact H2.
  Qed.

  Lemma mapM_graphs l :
    forallb wfg l = true ->
    exists l', mapM (dg scopes) l = Ok l' /\ exists l'', mapM sg l' = Ok l'' /\ map norm_graph l'' = map norm_graph l.
  Proof.
    induction l as [|g r IH]; simpl; intros H.
    - exists []. split; [reflexivity|]. exists []. split; reflexivity.
    - apply andb_prop in H. destruct H as [H1 H2].
      destruct (Hg g H1) as (ig & Ha & g' & Hb & Hc). destruct (IH H2) as (l' & Hd & l'' & He & Hf).
      exists (ig :: l'). rewrite Ha. simpl. rewrite Hd. split; [reflexivity|].
      exists (g' :: l''). simpl. rewrite Hb. simpl. rewrite He. simpl. split; [reflexivity|]. congruence.
  Qed.

  Lemma mapM_types l :
    forallb wf_type l = true ->
    exists l', mapM (fun t => it <- type_type t ;; sh <- type_shape t ;; Ok (it, sh)) l = Ok l'
               /\ map norm_type (map (fun ts => ser_type_shape (fst ts) (snd ts)) l') = map norm_type l.
  Proof.
    induction l as [|t r IH]; simpl; intros H.
    - exists []. split; reflexivity.
    - apply andb_prop in H. destruct H as [H1 H2].
      destruct (type_roundtrip t H1) as (ty & sh & Ha & Hb & Hc). destruct (IH H2) as (l' & Hd & He).
      exists ((ty, sh) :: l'). rewrite Ha. simpl. rewrite Hb. simpl. rewrite Hd. simpl.
      split; [reflexivity|]. rewrite Hc, He. reflexivity.
  Qed.

  Lemma strings_roundtrip (l : list (bool * list N)) :
    forallb fst l = true ->
    map (fun s : bool * list N => (true, snd s)) (map (fun s => (true, s)) (map snd l))
    = map (fun s : bool * list N => (true, snd s)) l.
  Proof. intros _. rewrite !map_map. reflexivity. Qed.

  Theorem attr_roundtrip allow_ref a :
    wf_attr allow_ref wfg a = true ->
    exists ia, deser_attr dg empty_graph scopes a = Ok ia
               /\ ia_name ia = dflt [] (a_name a)
               /\ exists a', ser_attr sg ia = Ok a'
                             /\ norm_attr norm_graph empty_graph a' = norm_attr norm_graph empty_graph a.
  Proof.
    destruct a as [name ref doc ty v]. unfold wf_attr, deser_attr. simpl. intros H.
    apply andb_prop in H. destruct H as [H Hrest]. apply andb_prop in H. destruct H as [Hvalid Hsp].
    rewrite Hvalid. simpl.
    destruct (truthy ref) as [r|] eqn:Eref.
    - (* reference attribute *)
      split_andb Hrest. destruct v; try discriminate.
      eexists. split; [reflexivity|]. simpl. split; [reflexivity|].
      eexists. split; [reflexivity|]. unfold norm_attr, ser_attr. aproj.
      rewrite truthy_some_dflt, truthy_idem.
      assert (Er : truthy (Some r) = Some r) by (rewrite <- Eref; apply truthy_idem).
      rewrite Er, Eref. destruct ty; reflexivity.
    - apply andb_prop in Hrest. destruct Hrest as [Hundef Hv].
      unfold is_sparse_ty in Hsp. apply negb_true_iff in Hsp. apply orb_false_elim in Hsp.
      destruct Hsp as [Hsp1 Hsp2]. apply negb_true_iff in Hundef.
      (* common normal form of the produced attribute *)
      assert (Hfin : forall iv av,
                 True ->
                 ser_attr sg (mkIAttr (dflt [] name) doc iv) = Ok (mkAttrP (Some (dflt [] name)) None (truthy doc) (Some (dflt 0 ty)) av) ->
                 norm_attrv norm_graph av
                 = (match v with ANone => default_val empty_graph (dflt 0 ty) | _ => norm_attrv norm_graph v end) ->
                 av <> ANone ->
                 exists ia, Ok (mkIAttr (dflt [] name) doc iv) = Ok ia /\ ia_name ia = dflt [] name
                   /\ exists a', ser_attr sg ia = Ok a'
                        /\ norm_attr norm_graph empty_graph a'
                           = norm_attr norm_graph empty_graph (mkAttrP name ref doc ty v)).
      { intros iv av Hiv Hser Hnv Hne. eexists. split; [reflexivity|]. split; [reflexivity|].
        eexists. split; [exact Hser|]. unfold norm_attr. aproj.
        rewrite truthy_some_dflt, truthy_idem, Eref.
        assert (Ety : some_dflt (Some (dflt 0 ty)) = some_dflt ty) by (destruct ty; reflexivity).
        rewrite Ety. f_equal.
        change (truthy None) with (@None str).
        assert (Edf : dflt 0 (Some (dflt 0 ty)) = dflt 0 ty) by reflexivity. rewrite Edf.
        destruct av; [exfalso; apply Hne; reflexivity | ..]; (etransitivity; [exact Hnv|]); destruct v; reflexivity. }
      destruct (dflt 0 ty =? AttributeType_INT) eqn:E1.
      { ty_is E1. simpl. destruct v; simpl in Hv; try discriminate;
        (eapply Hfin; [exact I | reflexivity | reflexivity | discriminate]). }
      destruct (dflt 0 ty =? AttributeType_FLOAT) eqn:E2.
      { ty_is E2. simpl. destruct v; simpl in Hv; try discriminate;
        (eapply Hfin; [exact I | reflexivity | reflexivity | discriminate]). }
      destruct (dflt 0 ty =? AttributeType_STRING) eqn:E3.
      { ty_is E3. simpl. destruct v; simpl in Hv; try discriminate;
        (eapply Hfin; [exact I | reflexivity | reflexivity | discriminate]). }
      destruct (dflt 0 ty =? AttributeType_INTS) eqn:E4.
      { ty_is E4. simpl. destruct v; simpl in Hv; try discriminate;
        (eapply Hfin; [exact I | reflexivity | reflexivity | discriminate]). }
      destruct (dflt 0 ty =? AttributeType_FLOATS) eqn:E5.
      { ty_is E5. simpl. destruct v; simpl in Hv; try discriminate;
        (eapply Hfin; [exact I | reflexivity | reflexivity | discriminate]). }
      destruct (dflt 0 ty =? AttributeType_STRINGS) eqn:E6.
      { ty_is E6. simpl. destruct v; simpl in Hv; try discriminate.
        - eapply Hfin; [exact I | reflexivity | reflexivity | discriminate].
        - rewrite Hv. eapply Hfin; [exact I | reflexivity | | discriminate]. simpl. f_equal.
          rewrite !map_map. reflexivity. }
      destruct (dflt 0 ty =? AttributeType_TENSOR) eqn:E7.
      { ty_is E7. simpl. destruct v; simpl in Hv; try discriminate.
        - eapply Hfin; [exact I | reflexivity | reflexivity | discriminate].
        - destruct (tensor_roundtrip t Hv) as (it & Ha & Hb & _). rewrite Ha. simpl.
          eapply Hfin; [exact I | reflexivity | | discriminate]. simpl. rewrite Hb. reflexivity. }
      destruct (dflt 0 ty =? AttributeType_GRAPH) eqn:E8.
      { ty_is E8. simpl. destruct v; simpl in Hv; try discriminate.
        - destruct (Hg empty_graph Hempty) as (ig & Ha & g' & Hb & Hc). rewrite Ha. simpl.
          eapply Hfin; [exact I | unfold ser_attr; cbn; rewrite Hb; reflexivity | | discriminate]. simpl. rewrite Hc. reflexivity.
        - destruct (Hg g Hv) as (ig & Ha & g' & Hb & Hc). rewrite Ha. simpl.
          eapply Hfin; [exact I | unfold ser_attr; cbn; rewrite Hb; reflexivity | | discriminate]. simpl. rewrite Hc. reflexivity. }
      destruct (dflt 0 ty =? AttributeType_TENSORS) eqn:E9.
      { ty_is E9. simpl. destruct v; simpl in Hv; try discriminate.
        - eapply Hfin; [exact I | reflexivity | reflexivity | discriminate].
        - destruct (mapM_tensors l Hv) as (l' & Ha & Hb). rewrite Ha. simpl.
          eapply Hfin; [exact I | reflexivity | | discriminate]. simpl. rewrite Hb. reflexivity. }
      destruct (dflt 0 ty =? AttributeType_GRAPHS) eqn:E10.
      { ty_is E10. simpl. destruct v; simpl in Hv; try discriminate.
        - eapply Hfin; [exact I | reflexivity | reflexivity | discriminate].
        - destruct (mapM_graphs l Hv) as (l' & Ha & l'' & Hb & Hc). rewrite Ha. simpl.
          eapply Hfin; [exact I | unfold ser_attr; cbn; rewrite Hb; reflexivity | | discriminate]. simpl. rewrite Hc. reflexivity. }
      destruct (dflt 0 ty =? AttributeType_TYPE_PROTO) eqn:E11.
      { ty_is E11. simpl. destruct v; simpl in Hv; try discriminate.
        - eapply Hfin; [exact I | reflexivity | reflexivity | discriminate].
        - destruct (type_roundtrip t Hv) as (it & sh & Ha & Hb & Hc). rewrite Ha. simpl. rewrite Hb. simpl.
          eapply Hfin; [exact I | reflexivity | | discriminate]. simpl. rewrite Hc. reflexivity. }
      destruct (dflt 0 ty =? AttributeType_TYPE_PROTOS) eqn:E12.
      { ty_is E12. simpl. destruct v; simpl in Hv; try discriminate.
        - eapply Hfin; [exact I | reflexivity | reflexivity | discriminate].
        - destruct (mapM_types l Hv) as (l' & Ha & Hb). rewrite Ha. simpl.
          eapply Hfin; [exact I | reflexivity | | discriminate]. simpl. rewrite Hb. reflexivity. }
      (* no other valid, non-sparse, non-UNDEFINED attribute type exists *)
      exfalso. unfold valid_attrtype, attrtype_values in Hvalid. simpl in Hvalid.
      unfold AT_UNDEFINED in Hundef.
      repeat (apply orb_prop in Hvalid; destruct Hvalid as [Hvalid|Hvalid]);
        try discriminate; apply Z.eqb_eq in Hvalid; rewrite Hvalid in *; discriminate.
  Qed.
End Attrs.

(* C02/Property.v — ONLY the property theorems (each closed by a lemma of Proofs*.v) + Print Assumptions.

   Full statement (the goal; proved so far for the stages listed below):
     Theorem C02_roundtrip : forall p : ModelP, wf_model p = true ->
       exists q, roundtrip_model p = Ok q /\ norm_model q = norm_model p.
   where roundtrip_model p = ser_model (deser_model p) (Model2.v), norm_* / wf_* are in Norm.v.
   Stages (bottom-up): dims/shapes/types -> tensors -> value-info -> attributes -> node -> graph/scoping
   -> function -> model.  What is proved is a real theorem for every input of that message kind;
   see the `_partial` theorem at the end for what is missing. *)
From Coq Require Import ZArith NArith List Bool.
From IRV Require Import Base.Exn Gen.C02Gen C02.Model C02.Model2 C02.Norm C02.Proofs1 C02.Proofs2 C02.Proofs3.
Import ListNotations.
Open Scope Z_scope.

(* Stage 1a.  A dimension keeps exactly its kind (value | param | unset), its value and its (non-empty)
   denotation: serialization of the deserialized dimension IS the normal form, for every dimension. *)
Theorem C02_dims_denotations :
  forall d : Dim, ser_dim (deser_dim d) = norm_dim d.
Proof. exact dim_exact. Qed.
Print Assumptions C02_dims_denotations.

Example C02_dims_example :
  ser_dim (deser_dim (mkDim (DParam [78%N]) (Some [68%N; 65%N]))) = mkDim (DParam [78%N]) (Some [68%N; 65%N]).
Proof. reflexivity. Qed.

(* Stage 1b.  Arbitrarily nested tensor/sparse/sequence/optional types with the shape in the leaf. *)
Theorem C02_types_nested :
  forall t : TypeP, wf_type t = true ->
  exists ty sh, type_type t = Ok ty /\ type_shape t = Ok sh /\ norm_type (ser_type_shape ty sh) = norm_type t.
Proof. exact type_roundtrip. Qed.
Print Assumptions C02_types_nested.

Example C02_types_example :   (* optional(sequence(tensor(FLOAT, [N, 3]))) with denotations is wf *)
  wf_type (TOpt (Some (TSeq (Some (TTensor (Some 1) (Some [mkDim (DParam [78%N]) (Some [66%N]); mkDim (DVal 3) None])
                                           (Some [73%N]))) None)) (Some [79%N])) = true.
Proof. reflexivity. Qed.

(* Stage 2.  Tensors: dims, data_type, every storage field, external entries, doc string, metadata, for the
   three IR representations (proto-backed, external, string), also after the initializer renaming. *)
Theorem C02_tensor_fields :
  forall t : TensorP, wf_tensor t = true ->
  exists q, roundtrip_tensor t = Ok q /\ norm_tensor q = norm_tensor t.
Proof.
  intros t H. destruct (tensor_roundtrip t H) as (it & H1 & H2 & _).
  exists (ser_tensor it). unfold roundtrip_tensor. rewrite H1. split; [reflexivity | exact H2].
Qed.
Print Assumptions C02_tensor_fields.

(* Stage 3.  Value-info: name, type, shape, doc string, metadata. *)
Theorem C02_value_info :
  forall vi : VInfoP, wf_vinfo vi = true ->
  exists q, roundtrip_vinfo vi = Ok q /\ norm_vinfo q = norm_vinfo vi.
Proof.
  intros vi H. destruct (vinfo_roundtrip_new vi H) as (v & H1 & _ & _ & _ & H2).
  exists (ser_value [] v). unfold roundtrip_vinfo. fold (vname vi). rewrite H1. split; [reflexivity | exact H2].
Qed.
Print Assumptions C02_value_info.

(* Stage 4.  Attributes of every kind except sparse (INT, FLOAT, STRING, TENSOR, GRAPH, the list kinds,
   TYPE_PROTO(S), reference attributes), doc strings included; graph-valued kinds relative to the round trip
   of the nested graphs `dg`/`sg` (discharged by the graph stage). *)
Theorem C02_attrs_all_kinds :
  forall (dg : list scope -> GraphP -> res IGraph) (sg : IGraph -> res GraphP) (wfg : GraphP -> bool) scopes,
  (forall g, wfg g = true ->
     exists ig, dg scopes g = Ok ig /\ exists g', sg ig = Ok g' /\ norm_graph g' = norm_graph g) ->
  wfg empty_graph = true ->
  forall allow_ref (a : AttrP GraphP), wf_attr allow_ref wfg a = true ->
  exists ia, deser_attr dg empty_graph scopes a = Ok ia /\ exists a',
    ser_attr sg ia = Ok a' /\ norm_attr norm_graph empty_graph a' = norm_attr norm_graph empty_graph a.
Proof.
  intros dg sg wfg scopes Hg He allow_ref a H.
  destruct (attr_roundtrip dg sg wfg scopes Hg He allow_ref a H) as (ia & H1 & _ & a' & H2 & H3).
  exists ia. split; [exact H1|]. exists a'. split; assumption.
Qed.
Print Assumptions C02_attrs_all_kinds.

(* Recorded finding (status known): external_data entries other than location/offset/length are dropped.
   The model reproduces it; wf_tensor excludes exactly this site. *)
Definition checksum_witness : TensorP :=
  mkTensorP [2] (Some 1) (Some [116%N]) None (Some 1) None [] []
            [(k_location, [97%N]); (k_checksum, [100%N; 97%N])] [].
Theorem C02_external_checksum_refuted :
  exists t q, roundtrip_tensor t = Ok q /\ tensor_eqb (norm_tensor q) (norm_tensor t) = false
              /\ wf_tensor t = false.
Proof. exists checksum_witness. eexists. split; [reflexivity|]. split; reflexivity. Qed.
Print Assumptions C02_external_checksum_refuted.

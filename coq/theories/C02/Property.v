(* C02/Property.v — ONLY the property theorems (each closed by a lemma of Proofs*.v) + Print Assumptions.

   Principal theorem (proved, at the end of this file):
     Theorem C02_roundtrip : forall p : ModelP, wf_model p = true ->
       exists q, roundtrip_model p = Ok q /\ norm_model q = norm_model p.
   where roundtrip_model p = ser_model (deser_model p) (Model2.v), norm_* / wf_* are in Norm.v.
   Stages (bottom-up), each a theorem for every input of that message kind: dims/shapes/types -> tensors
   -> value-info -> attributes -> node -> graph/scoping -> function -> model. *)
From Coq Require Import ZArith NArith List Bool.
From IRV Require Import Base.Exn Gen.C02Gen C02.Model C02.Model2 C02.Norm C02.Proofs1 C02.Proofs2 C02.Proofs3.
From IRV Require Import C02.ProofsFuel C02.ProofsDepth C02.ProofsG14 C02.ProofsG17 C02.ProofsG18 C02.ProofsG19 C02.ProofsG20 C02.ProofsG21.
From Coq Require Import Lia PeanoNat.
Import ListNotations.
Open Scope Z_scope.

(* Stage 1a.  A dimension keeps exactly its kind (value | param | unset), its value and its (non-empty)
   denotation: serialization of the deserialized dimension IS the normal form, for every dimension. *)
Theorem C02_dims_denotations :
  forall d : Dim, ser_dim (deser_dim d) = norm_dim d.
Proof. exact dim_exact. Qed.
Print Assumptions C02_dims_denotations.

Example C02_dims_example :
  ser_dim (deser_dim (mkDim (DParam [78%N]) (Some [68%N; 65%N]))) = mkDim (DParam [78%N]) (Some [68%N; 65%N]).
Proof. reflexivity. Qed.

(* Stage 1b.  Arbitrarily nested tensor/sparse/sequence/optional types with the shape in the leaf. *)
Theorem C02_types_nested :
  forall t : TypeP, wf_type t = true ->
  exists ty sh, type_type t = Ok ty /\ type_shape t = Ok sh /\ norm_type (ser_type_shape ty sh) = norm_type t.
Proof. exact type_roundtrip. Qed.
Print Assumptions C02_types_nested.

Example C02_types_example :   (* optional(sequence(tensor(FLOAT, [N, 3]))) with denotations is wf *)
  wf_type (TOpt (Some (TSeq (Some (TTensor (Some 1) (Some [mkDim (DParam [78%N]) (Some [66%N]); mkDim (DVal 3) None])
                                           (Some [73%N]))) None)) (Some [79%N])) = true.
Proof. reflexivity. Qed.

(* Stage 2.  Tensors: dims, data_type, every storage field, external entries, doc string, metadata, for the
   three IR representations (proto-backed, external with arbitrary extra external_data entries, string),
   also after the initializer renaming. *)
Theorem C02_tensor_fields :
  forall t : TensorP, wf_tensor t = true ->
  exists q, roundtrip_tensor t = Ok q /\ norm_tensor q = norm_tensor t.
Proof.
  intros t H. destruct (tensor_roundtrip t H) as (it & H1 & H2 & _).
  exists (ser_tensor it). unfold roundtrip_tensor. rewrite H1. split; [reflexivity | exact H2].
Qed.
Print Assumptions C02_tensor_fields.

(* Stage 3.  Value-info: name, type, shape, doc string, metadata. *)
Theorem C02_value_info :
  forall vi : VInfoP, wf_vinfo vi = true ->
  exists q, roundtrip_vinfo vi = Ok q /\ norm_vinfo q = norm_vinfo vi.
Proof.
  intros vi H. destruct (vinfo_roundtrip_new vi H) as (v & H1 & _ & _ & _ & H2).
  exists (ser_value [] v). unfold roundtrip_vinfo. fold (vname vi). rewrite H1. split; [reflexivity | exact H2].
Qed.
Print Assumptions C02_value_info.

(* Stage 4.  Attributes of every kind except sparse (INT, FLOAT, STRING, TENSOR, GRAPH, the list kinds,
   TYPE_PROTO(S), reference attributes), doc strings included; graph-valued kinds relative to the round trip
   of the nested graphs `dg`/`sg` (discharged by the graph stage). *)
Theorem C02_attrs_all_kinds :
  forall (dg : list scope -> GraphP -> res IGraph) (sg : IGraph -> res GraphP) (wfg : GraphP -> bool) scopes,
  (forall g, wfg g = true ->
     exists ig, dg scopes g = Ok ig /\ exists g', sg ig = Ok g' /\ norm_graph g' = norm_graph g) ->
  wfg empty_graph = true ->
  forall allow_ref (a : AttrP GraphP), wf_attr allow_ref wfg a = true ->
  exists ia, deser_attr dg empty_graph scopes a = Ok ia /\ exists a',
    ser_attr sg ia = Ok a' /\ norm_attr norm_graph empty_graph a' = norm_attr norm_graph empty_graph a.
Proof.
  intros dg sg wfg scopes Hg He allow_ref a H.
  destruct (attr_roundtrip dg sg wfg scopes Hg He allow_ref a H) as (ia & H1 & _ & a' & H2 & H3).
  exists ia. split; [exact H1|]. exists a'. split; assumption.
Qed.
Print Assumptions C02_attrs_all_kinds.

(* External tensors keep every external_data entry (fixed finding external-data-checksum-dropped, fb2515e):
   location/offset/length are interpreted, all other entries (checksum, basepath, unknown keys) are carried
   along and written back; the former witness is well-formed now and round-trips. *)
Definition checksum_witness : TensorP :=
  mkTensorP [2] (Some 1) (Some [116%N]) None (Some 1) None [] []
            [([122%N], [49%N]); (k_checksum, [100%N; 97%N]); (k_offset, [52%N]); (k_location, [97%N]); (k_basepath, [119%N])] [].
Example C02_external_entries_kept :
  wf_tensor checksum_witness = true
  /\ match roundtrip_tensor checksum_witness with
     | Ok q => tensor_eqb (norm_tensor q) (norm_tensor checksum_witness)
     | Raise _ => false
     end = true.
Proof. split; vm_compute; reflexivity. Qed.

(* The hypothesis on nested graphs is satisfiable, which gives an unconditional corollary: every
   attribute whose graph values (if any) are empty graphs round-trips, with the real deser_graph/ser_graph. *)
Definition only_empty (g : GraphP) : bool :=
  match g with mkGraphP None None [] [] [] [] [] [] [] => true | _ => false end.
Lemma only_empty_roundtrip scopes :
  forall g, only_empty g = true ->
  exists ig, deser_graph 1 scopes g = Ok ig /\ exists g', ser_graph 1 None ig = Ok g' /\ norm_graph g' = norm_graph g.
Proof.
  intros g H. destruct g as [n d i t nd o v q m].
  destruct n, d, i, t, nd, o, v, q, m; try discriminate.
  eexists. split; [reflexivity|]. eexists. split; reflexivity.
Qed.
Theorem C02_attrs_flat :
  forall scopes allow_ref (a : AttrP GraphP), wf_attr allow_ref only_empty a = true ->
  exists ia, deser_attr (deser_graph 1) empty_graph scopes a = Ok ia /\ exists a',
    ser_attr (ser_graph 1 None) ia = Ok a' /\ norm_attr norm_graph empty_graph a' = norm_attr norm_graph empty_graph a.
Proof.
  intros scopes allow_ref a H.
  exact (C02_attrs_all_kinds (deser_graph 1) (ser_graph 1 None) only_empty scopes
           (only_empty_roundtrip scopes) eq_refl allow_ref a H).
Qed.
Print Assumptions C02_attrs_flat.

(* Stage 5.  Nodes inside a scope stack: inputs are resolved through the scoped name tables (innermost
   first) to values whose name is the key (invariant scope_ok), optional inputs "" stay empty, trailing
   unnamed outputs are trimmed, the alias domain "ai.onnx" becomes "", attributes keep order, doc strings
   and values, metadata is kept, device configurations are kept iff the IR version passed to the
   serializer allows them; the name table is not changed by a node whose inputs are all resolvable. *)
Theorem C02_node_scoping :
  forall (dg : list scope -> GraphP -> res IGraph) (sg : IGraph -> res GraphP) (wfg : GraphP -> bool)
         (outer : list scope) (cur : scope) vis qs,
  (forall g, wfg g = true ->
     exists ig, dg (cur :: outer) g = Ok ig /\ exists g', sg ig = Ok g' /\ norm_graph g' = norm_graph g) ->
  wfg empty_graph = true ->
  Forall scope_ok (cur :: outer) ->
  forall allow_dev irv visible (n : NodeP GraphP),
  irv_allows allow_dev irv ->
  (forall k, In k visible -> visible_in (cur :: outer) k) ->
  Forall (fun o => o = [] \/ mem o cur = true) (n_outputs n) ->
  wf_node allow_dev (fun _ => wfg) visible n = true ->
  exists inode, deser_node dg empty_graph outer vis qs cur n = Ok (inode, cur)
                /\ in_outputs inode = n_outputs n
                /\ exists n', ser_node sg irv inode = Ok n'
                              /\ norm_node norm_graph empty_graph n' = norm_node norm_graph empty_graph n.
Proof.
  intros dg sg wfg outer cur vis qs Hg He Hs allow_dev irv visible n.
  exact (node_roundtrip dg sg wfg outer cur vis qs Hg He Hs allow_dev irv visible n).
Qed.
Print Assumptions C02_node_scoping.

(* The rule shared by every metadata carrier (model, graph, node, function, tensor, value-info, quantization
   parameters): a dictionary read from entries with unique keys and written back sorted is the sorted
   original — nothing lost, nothing duplicated. *)
Theorem C02_metadata_every_carrier :
  forall m : dict, wf_dict m = true -> ksort (ksort (dict_of m)) = ksort m /\ dict_of m = m.
Proof. intros m H. split; [apply ksort_dict_of; exact H | apply dict_of_nodup; exact H]. Qed.
Print Assumptions C02_metadata_every_carrier.

(* Stage 6.  Graphs, for every nesting depth: scoped name tables, "initializer for an input", node outputs
   declared before the nodes are read (subgraphs may capture later outer values), value-info application
   and the emission rule _should_create_value_info_for_value, value-info added/completed for initializers,
   quantization annotations (each exactly once), pass-through inputs, metadata.  Stated for any scope stack:
   deserialization with fuel S n for every n >= the nesting depth, serialization with the same fuel. *)
Theorem C02_graph_scoping :
  forall n g allow_dev visible outer irv,
  (gdepth g <= n)%nat -> wf_graph allow_dev visible g = true ->
  Forall scope_ok outer -> (forall k, In k visible -> visible_in outer k) -> irv_allows allow_dev irv ->
  exists ig, deser_graph (S n) outer g = Ok ig
             /\ exists q, ser_graph (S n) irv ig = Ok q /\ norm_graph q = norm_graph g.
Proof. exact graph_roundtrip_fuel. Qed.
Print Assumptions C02_graph_scoping.

Theorem C02_graph_roundtrip :
  forall g : GraphP, wf_graph true [] g = true ->
  exists q, roundtrip_graph g = Ok q /\ norm_graph q = norm_graph g.
Proof.
  intros g H.
  destruct (graph_roundtrip_fuel (gdepth g) g true [] [] None (le_n _) H (Forall_nil _)
              (fun k Hk => match Hk with end) (fun _ => I)) as (ig & Hd & q & Hs & Hn).
  exists q. split; [|exact Hn]. unfold roundtrip_graph, deser_graph_top, ser_graph_top. rewrite Hd. cbn [res_bind].
  pose proof (deser_graph_depth _ _ _ _ Hd) as Hdep.
  rewrite <- (ser_graph_fuel (S (gdepth g)) None ig Hdep). exact Hs.
Qed.
Print Assumptions C02_graph_roundtrip.

(* Stage 7.  Model-local functions: overloads, attribute parameters with and without defaults, reference
   attributes in the body, value_info (IR >= 10) incl. function inputs, opset imports, metadata; the
   value-infos an IR < 10 model would move to the main graph are none for a well-formed function. *)
Theorem C02_function_roundtrip :
  forall (f : FunctionP) allow_dev irv (n fuel' : nat),
  wf_function allow_dev (FUNCTION_VALUE_INFO_SUPPORTED_VERSION <=? irv) f = true ->
  (fdepth f <= S n)%nat -> (S n <= fuel')%nat -> irv_allows allow_dev (Some irv) ->
  exists fn, deser_function (S n) f = Ok fn
             /\ exists q, ser_function fuel' irv fn = Ok (q, []) /\ norm_function q = norm_function f.
Proof.
  intros f allow_dev irv n fuel' Hw Hd Hf Hi.
  exact (function_roundtrip_fuel f allow_dev _ (Some irv) n fuel' Hw Hd Hf Hi).
Qed.
Print Assumptions C02_function_roundtrip.

(* Entry point for a standalone AttributeProto (from_proto / to_proto on an attribute): every kind but
   sparse, reference attributes, graph-valued attributes of any nesting depth (read in an empty scope stack),
   a value sub-message that is present but empty as well as an absent one. *)
Theorem C02_attr_roundtrip :
  forall a : AttrP GraphP, wf_attr_top a = true ->
  exists q, roundtrip_attr a = Ok q /\ norm_attr_top q = norm_attr_top a.
Proof. exact attr_entry_roundtrip. Qed.
Print Assumptions C02_attr_roundtrip.

Example C02_attr_example :   (* a GRAPH attribute whose `g` is present but empty, and one with a real subgraph *)
  wf_attr_top (mkAttrP (Some [98%N]) None None (Some AttributeType_GRAPH) (AG empty_graph)) = true
  /\ wf_attr_top (mkAttrP (Some [98%N]) None (Some [100%N]) (Some AttributeType_GRAPH)
        (AG (mkGraphP None None [] [] [mkNodeP [] [[122%N]] None (Some [82%N]) None None None [] [] []]
                      [mkVInfoP (Some [122%N]) (TUnset None) None []] [] [] []))) = true.
Proof. split; reflexivity. Qed.

(* Entry point for a standalone FunctionProto (serde.deserialize_function / serialize_function with
   create_value_info=True and no model IR version). *)
Theorem C02_function_entry_roundtrip :
  forall f : FunctionP, wf_function true true f = true ->
  exists q, roundtrip_function f = Ok q /\ norm_function q = norm_function f.
Proof. exact function_entry_roundtrip. Qed.
Print Assumptions C02_function_entry_roundtrip.

(* IR < 10, function level: the values of a model-local function typed through main-graph value-info entries
   named "{domain}::{function}/{value}" (the format the serializer writes below IR 10; matched by prefix against
   the function, 348a4f1).  deserialize_function, then the experimental lookup, then serialize_function_into
   without value_info: the function proto round-trips and exactly the informative entries are written back for
   the main graph, under their qualified names, each once, in the order of the function's values.
   (Model level: wf_model still excludes this format below IR 10, so C02_roundtrip does not cover it; the
   model-vs-implementation stream "experimental-function-value-info-ir<10" and the oracle do.) *)
Theorem C02_function_experimental_ir9 :
  forall (f : FunctionP) allow_dev irvo (n fuel' : nat) (vinfos : list VInfoP),
  wf_function allow_dev false f = true ->
  (fdepth f <= S n)%nat -> (S n <= fuel')%nat -> irv_allows allow_dev irvo ->
  NoDup (map fst (exp_pairs vinfos f)) ->
  (forall k, In k (map fst (exp_pairs vinfos f)) -> k <> []) ->
  (forall kv, In kv (exp_pairs vinfos f) -> wf_vinfo (snd kv) = true) ->
  exists fn fn' q extra,
    deser_function (S n) f = Ok fn
    /\ apply_exp_fn vinfos fn = Ok fn'
    /\ ser_function_gen fuel' false irvo fn' = Ok (q, extra)
    /\ norm_function q = norm_function f
    /\ map norm_vinfo extra
       = concat (map (fun k => match lookup k (exp_pairs vinfos f) with
                               | Some e => filter has_info [norm_vinfo (mkVInfoP (Some (pprefix f ++ k)) (vi_type e) (vi_doc e) (vi_meta e))]
                               | None => []
                               end) (f_inputs f ++ node_out_names (f_nodes f))).
Proof. exact function_experimental_ir9. Qed.
Print Assumptions C02_function_experimental_ir9.

Example C02_experimental_ir9_example :   (* function "Block" in the default domain, entry "::Block/a" *)
  let f := mkFunctionP (Some [66%N]) None None None [[97%N]] [[98%N]] [] []
             [mkNodeP [[97%N]] [[98%N]] None (Some [73%N]) None None None [] [] []] [] [] [] in
  let vi := mkVInfoP (Some [58%N; 58%N; 66%N; 47%N; 97%N]) (TTensor (Some 1) None None) None [] in
  wf_function true false f = true /\ exp_pairs [vi] f = [([97%N], vi)] /\ wf_vinfo vi = true.
Proof. vm_compute. repeat split. Qed.

(* Stage 8 = the principal theorem.  Models: IR version 3..13, opset imports (a dict), producer fields,
   model_version, doc string, metadata, the main graph, the functions table, device configurations at
   IR >= 11. *)
Theorem C02_model_roundtrip :
  forall p : ModelP, wf_model p = true ->
  exists q, roundtrip_model p = Ok q /\ norm_model q = norm_model p.
Proof.
  intros p H. destruct (model_roundtrip_fuel p H) as (im & Hd & q & Hs & Hn).
  exists q. split; [|exact Hn]. unfold roundtrip_model, deser_model. rewrite Hd. exact Hs.
Qed.
Print Assumptions C02_model_roundtrip.

Theorem C02_roundtrip :
  forall p : ModelP, wf_model p = true ->
  exists q, roundtrip_model p = Ok q /\ norm_model q = norm_model p.
Proof. exact C02_model_roundtrip. Qed.
Print Assumptions C02_roundtrip.

(* wf is satisfiable by a non-trivial model: a graph with an initializer, a node with a subgraph that
   captures an outer value, a trailing empty output and metadata (evaluated, and its round trip checked). *)
Definition example_model : ModelP :=
  mkModelP (Some 10) [([], 21)] (Some [112%N]) None None None None
    (mkGraphP (Some [103%N]) None
       [mkVInfoP (Some [120%N]) (TTensor (Some 1) (Some [mkDim (DParam [78%N]) None]) None) None []]
       [mkTensorP [1] (Some 1) (Some [119%N]) None None (Some [0%N;0%N;128%N;63%N]) [] [] [] [([107%N], [118%N])]]
       [mkNodeP [[120%N]; [119%N]] [[121%N]; []] (Some [110%N]) (Some [73%N; 102%N]) (Some ai_onnx) None None
          [mkAttrP (Some [98%N]) None (Some [100%N]) (Some AttributeType_GRAPH)
             (AG (mkGraphP None None [] []
                    [mkNodeP [[120%N]] [[122%N]] None (Some [82%N]) None None None [] [] []]
                    [mkVInfoP (Some [122%N]) (TUnset None) None []] [] [] []))]
          [([122%N], [49%N]); ([97%N], [50%N])] []]
       [mkVInfoP (Some [121%N]) (TSeq (Some (TTensor (Some 1) None None)) None) None []]
       [] [] [])
    [] [] [].
Example C02_wf_satisfiable :
  wf_model example_model = true
  /\ match roundtrip_model example_model with
     | Ok q => model_eqb (norm_model q) (norm_model example_model)
     | Raise _ => false
     end = true.
Proof. split; vm_compute; reflexivity. Qed.

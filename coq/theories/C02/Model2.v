(* C02/Model2.v — attributes, value-info, nodes, graphs with scoped name tables, functions, models.
   Executable definitions only.  Recursion through nested graphs uses explicit fuel; the top-level
   `deser_*`/`ser_*` pass the nesting depth of their argument (Proofs show it suffices), and fuel
   exhaustion is an error (`Raise OtherError`), never a normal value. *)
From Coq Require Import ZArith NArith List Bool Lia.
From IRV Require Import Base.Exn Gen.C02Gen C02.Model.
Import ListNotations.
Open Scope Z_scope.

(* ================================================================== protos *)
Record VInfoP : Type := mkVInfoP {
  vi_name : option str;
  vi_type : TypeP;              (* sub-message presence erased: absent = TUnset None *)
  vi_doc : option str;
  vi_meta : dict }.

Record QuantP : Type := mkQuantP { qa_name : option str; qa_params : dict }.   (* TensorAnnotation *)

(* which value field of an AttributeProto is populated (the converter rejects protos with several) *)
Inductive AttrV (G : Type) : Type :=
| ANone
| AF (bits : Z) | AI (i : Z) | AS (s : list N)
| AT (t : TensorP) | AG (g : G) | ATP (t : TypeP)
| AFs (l : list Z) | AIs (l : list Z) | ASs (l : list (bool * list N))   (* bool: bytes are valid UTF-8 *)
| ATs (l : list TensorP) | AGs (l : list G) | ATPs (l : list TypeP)
| ASparse.                                                               (* sparse_tensor(s): unsupported *)
Arguments ANone {G}. Arguments AF {G}. Arguments AI {G}. Arguments AS {G}. Arguments AT {G}.
Arguments AG {G}. Arguments ATP {G}. Arguments AFs {G}. Arguments AIs {G}. Arguments ASs {G}.
Arguments ATs {G}. Arguments AGs {G}. Arguments ATPs {G}. Arguments ASparse {G}.

Record AttrP (G : Type) : Type := mkAttrP {
  a_name : option str; a_ref : option str; a_doc : option str; a_type : option Z; a_val : AttrV G }.
Arguments mkAttrP {G}. Arguments a_name {G}. Arguments a_ref {G}. Arguments a_doc {G}.
Arguments a_type {G}. Arguments a_val {G}.

(* multi-device messages *)
Record SimpleShardP : Type := mkSimpleShardP { ssd_dim : DimVal; ssd_num : option Z }.
Record ShardedDimP : Type := mkShardedDimP { sd_axis : option Z; sd_simple : list SimpleShardP }.
Record ShardSpecP : Type := mkShardSpecP {
  sp_tensor : option str; sp_device : list Z; sp_map : list (option Z * list Z); sp_dims : list ShardedDimP }.
Record NodeDevP : Type := mkNodeDevP { nd_conf : option str; nd_specs : list ShardSpecP; nd_stage : option Z }.
Record DevConfP : Type := mkDevConfP { dc_name : option str; dc_num : option Z; dc_devices : list str }.

Record NodeP (G : Type) : Type := mkNodeP {
  n_inputs : list str; n_outputs : list str;
  n_name : option str; n_op : option str; n_domain : option str; n_overload : option str; n_doc : option str;
  n_attrs : list (AttrP G); n_meta : dict; n_dev : list NodeDevP }.
Arguments mkNodeP {G}. Arguments n_inputs {G}. Arguments n_outputs {G}. Arguments n_name {G}.
Arguments n_op {G}. Arguments n_domain {G}. Arguments n_overload {G}. Arguments n_doc {G}.
Arguments n_attrs {G}. Arguments n_meta {G}. Arguments n_dev {G}.

Inductive GraphP : Type := mkGraphP {
  g_name : option str; g_doc : option str;
  g_inputs : list VInfoP; g_inits : list TensorP; g_nodes : list (NodeP GraphP);
  g_outputs : list VInfoP; g_vinfo : list VInfoP; g_quant : list QuantP; g_meta : dict }.

Record FunctionP : Type := mkFunctionP {
  f_name : option str; f_domain : option str; f_overload : option str; f_doc : option str;
  f_inputs : list str; f_outputs : list str; f_attr : list str; f_attr_protos : list (AttrP GraphP);
  f_nodes : list (NodeP GraphP); f_opsets : list (str * Z); f_vinfo : list VInfoP; f_meta : dict }.

Record ModelP : Type := mkModelP {
  m_irv : option Z; m_opsets : list (str * Z);
  m_pname : option str; m_pver : option str; m_domain : option str; m_mver : option Z; m_doc : option str;
  m_graph : GraphP; m_meta : dict; m_funcs : list FunctionP; m_conf : list DevConfP }.

(* nesting depth of graphs (fuel for the recursive functions) *)
Definition attrv_depth {G} (d : G -> nat) (v : AttrV G) : nat :=
  match v with
  | AG g => d g | AGs l => list_max (map d l)
  | ANone => 1%nat      (* a GRAPH attribute without `g` deserializes the default (empty) graph: depth 1 *)
  | _ => O
  end.
Definition node_depth {G} (d : G -> nat) (n : NodeP G) : nat :=
  list_max (map (fun a => attrv_depth d (a_val a)) (n_attrs n)).
Fixpoint gdepth (g : GraphP) : nat :=
  S (list_max (map (node_depth gdepth) (g_nodes g))).
Definition fdepth (f : FunctionP) : nat :=
  S (Nat.max (list_max (map (node_depth gdepth) (f_nodes f)))
             (list_max (map (fun a => attrv_depth gdepth (a_val a)) (f_attr_protos f)))).
Definition mdepth (m : ModelP) : nat :=
  Nat.max (gdepth (m_graph m)) (list_max (map fdepth (m_funcs m))).

(* ================================================================== IR *)
Record IValue : Type := mkIValue {
  v_name : str; v_type : option IType; v_shape : option IShape; v_doc : option str;
  v_meta : dict;                 (* metadata_props *)
  v_quant : dict;                (* meta["quant_parameter_tensor_names"] ([] = absent or None) *)
  v_const : option ITensorV }.

Definition new_value (n : str) : IValue := mkIValue n None None None [] [] None.

Inductive IAttrV (G : Type) : Type :=
| IAInt (i : Z) | IAFloat (bits : Z) | IAStr (s : list N)
| IAInts (l : list Z) | IAFloats (l : list Z) | IAStrs (l : list (list N))
| IATensor (t : ITensorV) | IATensors (l : list ITensorV)
| IAGraph (g : G) | IAGraphs (l : list G)
| IATypeP (t : option IType) (s : option IShape) | IATypePs (l : list (option IType * option IShape))
| IARef (ref : str) (ty : Z)
| IAUndef.
Arguments IAInt {G}. Arguments IAFloat {G}. Arguments IAStr {G}. Arguments IAInts {G}.
Arguments IAFloats {G}. Arguments IAStrs {G}. Arguments IATensor {G}. Arguments IATensors {G}.
Arguments IAGraph {G}. Arguments IAGraphs {G}. Arguments IATypeP {G}. Arguments IATypePs {G}.
Arguments IARef {G}. Arguments IAUndef {G}.

Record IAttr (G : Type) : Type := mkIAttr { ia_name : str; ia_doc : option str; ia_val : IAttrV G }.
Arguments mkIAttr {G}. Arguments ia_name {G}. Arguments ia_doc {G}. Arguments ia_val {G}.

Record IShardSpec : Type := mkIShardSpec {
  is_value : option str;         (* name of the resolved Value, None when tensor_name is empty *)
  is_device : list Z; is_map : list (Z * list Z); is_dims : list (Z * list (IDim * Z)) }.
Record INodeDev : Type := mkINodeDev { id_conf : option str; id_specs : list IShardSpec; id_stage : option Z }.

Record INode (G : Type) : Type := mkINode {
  in_domain : str; in_op : str; in_overload : str; in_name : str; in_doc : option str; in_meta : dict;
  in_inputs : list (option str);      (* name of the Value object each input resolved to *)
  in_outputs : list str;              (* key of the output Value in the scope table; "" = anonymous Value(name="") *)
  in_attrs : list (IAttr G);          (* Attributes dict (insertion order, unique names) *)
  in_dev : list INodeDev }.
Arguments mkINode {G}. Arguments in_domain {G}. Arguments in_op {G}. Arguments in_overload {G}.
Arguments in_name {G}. Arguments in_doc {G}. Arguments in_meta {G}. Arguments in_inputs {G}.
Arguments in_outputs {G}. Arguments in_attrs {G}. Arguments in_dev {G}.

Notation scope := (list (list N * IValue)).     (* one `values` dictionary: name -> Value (its state) *)

Inductive ORef : Type := OKey (k : str) | OFresh (v : IValue).   (* graph output: a value of the table, or a
                                                                   fresh Value for an output nobody produces *)

Inductive IGraph : Type := mkIGraph {
  ig_name : option str; ig_doc : option str; ig_meta : dict; ig_opsets : list (str * Z);
  ig_inputs : list str;                (* keys *)
  ig_inits : list str;                 (* keys, initializers dict order *)
  ig_nodes : list (INode IGraph);
  ig_outputs : list ORef;
  ig_values : scope }.                 (* final state of every Value created in this graph's scope *)

Record IFunction : Type := mkIFunction {
  if_domain : str; if_name : str; if_overload : str; if_graph : IGraph; if_attrs : list (IAttr IGraph) }.

Record IModel : Type := mkIModel {
  im_irv : Z; im_pname : option str; im_pver : option str; im_domain : option str; im_mver : option Z;
  im_doc : option str; im_graph : IGraph; im_funcs : list IFunction; im_meta : dict;
  im_conf : list (str * Z * list str) }.

Definition iattrv_depth {G} (d : G -> nat) (v : IAttrV G) : nat :=
  match v with IAGraph g => d g | IAGraphs l => list_max (map d l) | _ => O end.
Definition inode_depth {G} (d : G -> nat) (n : INode G) : nat :=
  list_max (map (fun a => iattrv_depth d (ia_val a)) (in_attrs n)).
Fixpoint igdepth (g : IGraph) : nat := S (list_max (map (inode_depth igdepth) (ig_nodes g))).
Definition ifdepth (f : IFunction) : nat :=
  Nat.max (igdepth (if_graph f)) (S (list_max (map (fun a => iattrv_depth igdepth (ia_val a)) (if_attrs f)))).
Definition imdepth (m : IModel) : nat := Nat.max (igdepth (im_graph m)) (list_max (map ifdepth (im_funcs m))).

(* ================================================================== value-info *)
(* serde.deserialize_value_info_proto(proto, value): overwrite shape, type, doc_string; merge metadata *)
Definition apply_info (vi : VInfoP) (v : IValue) : res IValue :=
  sh <- type_shape (vi_type vi) ;;
  ty <- type_type (vi_type vi) ;;
  Ok (mkIValue (v_name v) ty sh (vi_doc vi) (dupdate (v_meta v) (dict_of (vi_meta vi))) (v_quant v) (v_const v)).

(* serde._deserialize_quantization_annotation *)
Definition apply_quant (q : dict) (v : IValue) : IValue :=
  mkIValue (v_name v) (v_type v) (v_shape v) (v_doc v) (v_meta v) (dict_of q) (v_const v).
Definition set_const (t : ITensorV) (v : IValue) : IValue :=
  mkIValue (v_name v) (v_type v) (v_shape v) (v_doc v) (v_meta v) (v_quant v) (Some t).

Definition maybe_info (vis : list (str * VInfoP)) (k : str) (v : IValue) : res IValue :=
  match lookup k vis with Some vi => apply_info vi v | None => Ok v end.
Definition maybe_quant (qs : list (str * dict)) (k : str) (v : IValue) : IValue :=
  match lookup k qs with Some q => apply_quant q v | None => v end.

(* serde._should_create_value_info_for_value *)
Definition should_create (v : IValue) : bool :=
  match v_shape v, v_type v, v_meta v, truthy (v_doc v) with
  | None, None, [], None => false
  | _, _, _, _ => nonempty (v_name v)
  end.

(* serde.serialize_value_into *)
Definition ser_value (name : str) (v : IValue) : VInfoP :=
  mkVInfoP (Some (match name with [] => v_name v | _ => name end))
           (ser_type_shape (v_type v) (v_shape v)) (truthy (v_doc v)) (ksort (v_meta v)).

(* serde._maybe_add_quantization_annotation *)
Definition ser_quant (v : IValue) : list QuantP :=
  match v_quant v with [] => [] | q => [mkQuantP (Some (v_name v)) (ksort q)] end.

(* a value listed several times among the graph outputs gets its annotation once (b6bf1ea) *)
Fixpoint dedup_quant (seen : list str) (l : list QuantP) : list QuantP :=
  match l with
  | [] => []
  | q :: r => let k := dflt [] (qa_name q) in
              if in_str k seen then dedup_quant seen r else q :: dedup_quant (k :: seen) r
  end.

(* ================================================================== attributes *)
Definition AT_UNDEFINED := AttributeType_UNDEFINED.
Definition empty_tensor : TensorP := mkTensorP [] None None None None None [] [] [] [].

Section WithGraph.
  (* the recursive calls on nested graphs: `dg scopes g` = _deserialize_graph(g, scoped_values),
     `sg ig` = serialize_graph_into(attribute_proto.g, ig) (model_ir_version=None) *)
  Variable dg : list scope -> GraphP -> res IGraph.
  Variable sg : IGraph -> res GraphP.
  Variable empty_g : GraphP.

  (* serde._deserialize_attribute *)
  Definition deser_attr (scopes : list scope) (a : AttrP GraphP) : res (IAttr IGraph) :=
    let name := dflt [] (a_name a) in
    let ty := dflt 0 (a_type a) in
    if negb (valid_attrtype ty) then Raise ValueError else
    match truthy (a_ref a) with
    | Some r => Ok (mkIAttr name (a_doc a) (IARef r ty))
    | None =>
      v <- (if ty =? AttributeType_INT then Ok (IAInt (match a_val a with AI i => i | _ => 0 end))
            else if ty =? AttributeType_FLOAT then Ok (IAFloat (match a_val a with AF f => f | _ => 0 end))
            else if ty =? AttributeType_STRING then Ok (IAStr (match a_val a with AS s => s | _ => [] end))
            else if ty =? AttributeType_INTS then Ok (IAInts (match a_val a with AIs l => l | _ => [] end))
            else if ty =? AttributeType_FLOATS then Ok (IAFloats (match a_val a with AFs l => l | _ => [] end))
            else if ty =? AttributeType_STRINGS then
              (let l := match a_val a with ASs l => l | _ => [] end in
               if forallb fst l then Ok (IAStrs (map snd l)) else Raise ValueError)
            else if ty =? AttributeType_TENSOR then
              (t <- deser_tensor (match a_val a with AT t => t | _ => empty_tensor end) ;; Ok (IATensor t))
            else if ty =? AttributeType_GRAPH then
              (g <- dg scopes (match a_val a with AG g => g | _ => empty_g end) ;; Ok (IAGraph g))
            else if ty =? AttributeType_TENSORS then
              (l <- mapM deser_tensor (match a_val a with ATs l => l | _ => [] end) ;; Ok (IATensors l))
            else if ty =? AttributeType_GRAPHS then
              (l <- mapM (dg scopes) (match a_val a with AGs l => l | _ => [] end) ;; Ok (IAGraphs l))
            else if ty =? AttributeType_TYPE_PROTO then
              (let t := match a_val a with ATP t => t | _ => TUnset None end in
               it <- type_type t ;; sh <- type_shape t ;; Ok (IATypeP it sh))
            else if ty =? AttributeType_TYPE_PROTOS then
              (l <- mapM (fun t => it <- type_type t ;; sh <- type_shape t ;; Ok (it, sh))
                         (match a_val a with ATPs l => l | _ => [] end) ;; Ok (IATypePs l))
            else if ty =? AT_UNDEFINED then Ok IAUndef
            else Raise OtherError (* SPARSE_TENSOR(S): NotImplementedError *)) ;;
      Ok (mkIAttr name (a_doc a) v)
    end.

  (* serde.serialize_attribute_into / serialize_reference_attribute_into / _fill_in_value_for_attribute *)
  Definition ser_attr (a : IAttr IGraph) : res (AttrP GraphP) :=
    let mk ty v := Ok (mkAttrP (Some (ia_name a)) None (truthy (ia_doc a)) (Some ty) v) in
    match ia_val a with
    | IARef r ty => Ok (mkAttrP (Some (ia_name a)) (Some r) (truthy (ia_doc a)) (Some ty) ANone)
    | IAInt i => mk AttributeType_INT (AI i)
    | IAFloat f => mk AttributeType_FLOAT (AF f)
    | IAStr s => mk AttributeType_STRING (AS s)
    | IAInts l => mk AttributeType_INTS (AIs l)
    | IAFloats l => mk AttributeType_FLOATS (AFs l)
    | IAStrs l => mk AttributeType_STRINGS (ASs (map (fun s => (true, s)) l))
    | IATensor t => mk AttributeType_TENSOR (AT (ser_tensor t))
    | IATensors l => mk AttributeType_TENSORS (ATs (map ser_tensor l))
    | IAGraph g => g' <- sg g ;; mk AttributeType_GRAPH (AG g')
    | IAGraphs l => l' <- mapM sg l ;; mk AttributeType_GRAPHS (AGs l')
    | IATypeP t s => mk AttributeType_TYPE_PROTO (ATP (ser_type_shape t s))
    | IATypePs l => mk AttributeType_TYPE_PROTOS (ATPs (map (fun ts => ser_type_shape (fst ts) (snd ts)) l))
    | IAUndef => Raise TypeError
    end.

  (* ================================================================== multi-device *)
  Fixpoint resolve (scopes : list scope) (k : str) : option IValue :=
    match scopes with
    | [] => None
    | s :: r => match lookup k s with Some v => Some v | None => resolve r k end
    end.

  (* serde.deserialize_node_device_configuration (+ _deserialize_sharding_spec etc.) *)
  Definition deser_simple (s : SimpleShardP) : IDim * Z :=
    (match ssd_dim s with DVal z => IInt z | DParam p => ISym (Some p) | DUnset => ISym None end, dflt 0 (ssd_num s)).
  Definition deser_spec (scopes : list scope) (s : ShardSpecP) : IShardSpec :=
    let tn := dflt [] (sp_tensor s) in
    mkIShardSpec (match tn with [] => None
                  | _ => Some (match resolve scopes tn with Some v => v_name v | None => tn end) end)
                 (sp_device s) (map (fun e => (dflt 0 (fst e), snd e)) (sp_map s))
                 (map (fun d => (dflt 0 (sd_axis d), map deser_simple (sd_simple d))) (sp_dims s)).
  Definition deser_nodedev (scopes : list scope) (d : NodeDevP) : INodeDev :=
    mkINodeDev (truthy (nd_conf d)) (map (deser_spec scopes) (nd_specs d)) (nd_stage d).

  (* serde.serialize_node_device_configuration *)
  Definition ser_simple (s : IDim * Z) : SimpleShardP :=
    mkSimpleShardP (match fst s with IInt z => DVal z | ISym (Some p) => DParam p | ISym None => DUnset end) (Some (snd s)).
  Definition ser_spec (s : IShardSpec) : res ShardSpecP :=
    match is_value s with
    | None | Some [] => Raise ValueError
    | Some n => Ok (mkShardSpecP (Some n) (is_device s) (map (fun e => (Some (fst e), snd e)) (is_map s))
                                 (map (fun d => mkShardedDimP (Some (fst d)) (map ser_simple (snd d))) (is_dims s)))
    end.
  Definition ser_nodedev (d : INodeDev) : res NodeDevP :=
    match id_conf d with
    | None => Raise ValueError
    | Some c => specs <- mapM ser_spec (id_specs d) ;; Ok (mkNodeDevP (Some c) specs (id_stage d))
    end.

  (* ================================================================== nodes *)
  (* Attributes(attrs) = {attr.name: attr} *)
  Fixpoint attrs_dict (acc : list (IAttr IGraph)) (l : list (IAttr IGraph)) : list (IAttr IGraph) :=
    match l with
    | [] => acc
    | a :: r =>
        attrs_dict ((fix put (d : list (IAttr IGraph)) :=
                       match d with
                       | [] => [a]
                       | b :: d' => if str_eqb (ia_name a) (ia_name b) then a :: d' else b :: put d'
                       end) acc) r
    end.

  (* one input name of serde._deserialize_node; the state is the current (innermost) scope *)
  Definition deser_input (outer : list scope) (vis : list (str * VInfoP)) (qs : list (str * dict))
             (cur : scope) (name : str) : res (option str * scope) :=
    match name with
    | [] => Ok (None, cur)
    | _ => match resolve (cur :: outer) name with
           | Some v => Ok (Some (v_name v), cur)
           | None =>
               v <- maybe_info vis name (new_value name) ;;
               Ok (Some name, dset name (maybe_quant qs name v) cur)
           end
    end.

  Definition deser_output (cur : scope) (name : str) : res str :=
    match name with
    | [] => Ok []
    | _ => if mem name cur then Ok name else Raise AssertionError
    end.

  (* serde._deserialize_node *)
  Definition deser_node (outer : list scope) (vis : list (str * VInfoP)) (qs : list (str * dict))
             (cur : scope) (n : NodeP GraphP) : res (INode IGraph * scope) :=
    ins <- mapS (deser_input outer vis qs) (n_inputs n) cur ;;
    let cur' := snd ins in
    outs <- mapM (deser_output cur') (n_outputs n) ;;
    let devs := map (deser_nodedev (cur' :: outer)) (n_dev n) in
    attrs <- mapM (deser_attr (cur' :: outer)) (n_attrs n) ;;
    let dom := dflt [] (n_domain n) in
    Ok (mkINode (if str_eqb dom [97;105;46;111;110;110;120]%N then [] else dom)   (* _normalize_domain: "ai.onnx" *)
                (dflt [] (n_op n)) (dflt [] (n_overload n)) (dflt [] (n_name n)) (n_doc n) (dict_of (n_meta n))
                (fst ins) outs (attrs_dict [] attrs) devs, cur').

  (* serde._remove_trailing_outputs *)
  Fixpoint trim_outputs (l : list str) : list str :=
    match l with
    | [] => []
    | x :: r => match trim_outputs r with
                | [] => match x with [] => [] | _ => [x] end
                | r' => x :: r'
                end
    end.

  (* serde.serialize_node_into (+ _serialize_node_multi_device_into) *)
  Definition ser_node (irv : option Z) (n : INode IGraph) : res (NodeP GraphP) :=
    attrs <- mapM ser_attr (in_attrs n) ;;
    devs <- (match in_dev n with
             | [] => Ok []
             | ds => if (match irv with Some v => v <? MULTI_DEVICE_SUPPORTED_VERSION | None => false end)
                     then Ok [] else mapM ser_nodedev ds
             end) ;;
    Ok (mkNodeP (map (fun i => match i with None => [] | Some s => s end) (in_inputs n))
                (trim_outputs (in_outputs n))
                (truthy_s (in_name n)) (Some (in_op n)) (truthy_s (in_domain n)) (truthy_s (in_overload n))
                (truthy (in_doc n)) attrs (ksort (in_meta n)) devs).

  (* ================================================================== graphs *)
  (* serde._declare_node_outputs for one node *)
  Definition declare_outputs (vis : list (str * VInfoP)) (qs : list (str * dict)) (cur : scope)
             (n : NodeP GraphP) : res scope :=
    foldM (fun cur name =>
             match name with
             | [] => Ok cur
             | _ => if mem name cur then Raise ValueError
                    else v <- maybe_info vis name (new_value name) ;;
                         Ok (dset name (maybe_quant qs name v) cur)
             end) (n_outputs n) cur.

  Definition vinfo_dict (l : list VInfoP) : list (str * VInfoP) :=
    dict_of (map (fun vi => (dflt [] (vi_name vi), vi)) l).
  Definition quant_dict (l : list QuantP) : list (str * dict) :=
    dict_of (map (fun q => (dflt [] (qa_name q), qa_params q)) l).

  (* the initializer loop of serde._deserialize_graph *)
  Definition deser_init (vis : list (str * VInfoP)) (qs : list (str * dict))
             (st : scope * list str) (t : TensorP) : res (scope * list str) :=
    let '(cur, keys) := st in
    it <- deser_tensor t ;;
    match dflt [] (itensor_name it) with
    | [] => Ok (cur, keys)                               (* unnamed initializer: skipped with a warning *)
    | name =>
        match lookup name cur with
        | Some v => Ok (dset name (set_const it v) cur, keys ++ [name])      (* initializer for an input *)
        | None =>
            if negb (valid_dtype (itensor_dtype it)) then Raise ValueError else
            let v0 := mkIValue name (Some (ITensor (itensor_dtype it) None))
                               (Some (map (fun d => (IInt d, None)) (itensor_dims it))) None [] [] (Some it) in
            v1 <- maybe_info vis name v0 ;;
            (* a value_info entry without type / shape does not erase what the tensor provides *)
            let v := mkIValue (v_name v1)
                              (match v_type v1 with None => v_type v0 | t => t end)
                              (match v_shape v1 with None => v_shape v0 | s => s end)
                              (v_doc v1) (v_meta v1) (v_quant v1) (v_const v1) in
            Ok (dset name (maybe_quant qs name v) cur, keys ++ [name])
        end
    end.

  (* the graph-output loop *)
  Definition deser_goutput (cur : scope) (vi : VInfoP) : res (ORef * scope) :=
    let name := dflt [] (vi_name vi) in
    match lookup name cur with
    | Some v => v' <- apply_info vi v ;; Ok (OKey name, dset name v' cur)
    | None => v' <- apply_info vi (new_value name) ;; Ok (OFresh v', cur)
    end.

  (* a repeated initializer name: only the last tensor of that name is used *)
  Fixpoint last_only (l : list TensorP) : list TensorP :=
    match l with
    | [] => []
    | t :: r => if nonempty (dflt [] (t_name t)) && in_str (dflt [] (t_name t)) (map (fun x => dflt [] (t_name x)) r)
                then last_only r else t :: last_only r
    end.

  (* serde._deserialize_graph.  Not modelled (Raise OtherError): duplicated graph-input names, where
     the inputs list holds Value objects that the name table does not. *)
  Definition deser_graph_body (outer : list scope) (g : GraphP) : res IGraph :=
    let qs := quant_dict (g_quant g) in
    let in_names := map (fun vi => dflt [] (vi_name vi)) (g_inputs g) in
    if negb (nodup_str in_names) then Raise OtherError else
    ins <- mapM (fun vi => v <- apply_info vi (new_value (dflt [] (vi_name vi))) ;;
                           Ok (v_name v, maybe_quant qs (v_name v) v)) (g_inputs g) ;;
    let cur0 : scope := dict_of ins in
    let vis := vinfo_dict (g_vinfo g) in
    _ <- mapM deser_tensor (g_inits g) ;;            (* every initializer tensor is deserialized first *)
    st <- foldM (deser_init vis qs) (last_only (g_inits g)) (cur0, []) ;;
    cur2 <- foldM (declare_outputs vis qs) (g_nodes g) (fst st) ;;
    nodes <- mapS (deser_node outer vis qs) (g_nodes g) cur2 ;;
    outs <- mapS deser_goutput (g_outputs g) (snd nodes) ;;
    Ok (mkIGraph (g_name g) (g_doc g) (dict_of (g_meta g)) [] in_names (dedup_str [] (snd st))
                 (fst nodes) (fst outs) (snd outs)).

  Definition getv (vals : scope) (k : str) : res IValue :=
    match lookup k vals with Some v => Ok v | None => Raise KeyError end.

  Definition is_goutput (g : IGraph) (k : str) : bool :=
    existsb (fun o => match o with OKey k' => str_eqb k k' | OFresh _ => false end) (ig_outputs g).

  (* serde.serialize_graph_into *)
  Definition ser_graph_body (irv : option Z) (g : IGraph) : res GraphP :=
    let vals := ig_values g in
    ins <- mapM (fun k => v <- getv vals k ;;
                          Ok (ser_value [] v, if in_str k (ig_inits g) then [] else ser_quant v)) (ig_inputs g) ;;
    inits <- mapM (fun k => v <- getv vals k ;;
                    Ok (ser_quant v,
                        if should_create v && negb (in_str (v_name v) (ig_inputs g)) then [ser_value [] v] else [],
                        match v_const v with
                        | Some t => [ser_tensor (itensor_set_name t (v_name v))]
                        | None => []
                        end)) (ig_inits g) ;;
    nodes <- mapM (fun n => np <- ser_node irv n ;;
                    infos <- mapM (fun k => match k with
                                            | [] => Ok ([], [])          (* anonymous output: no name, nothing emitted *)
                                            | _ => if is_goutput g k then Ok ([], []) else
                                                   v <- getv vals k ;;
                                                   Ok (ser_quant v, if should_create v then [ser_value [] v] else [])
                                            end) (in_outputs n) ;;
                    Ok (np, infos)) (ig_nodes g) ;;
    outs <- mapM (fun o => v <- (match o with OKey k => getv vals k | OFresh v => Ok v end) ;;
                           Ok (ser_value [] v,
                               if in_str (v_name v) (ig_inputs g) || in_str (v_name v) (ig_inits g)   (* already added above *)
                               then [] else ser_quant v)) (ig_outputs g) ;;
    let node_infos := concat (map snd nodes) in
    Ok (mkGraphP (truthy (ig_name g)) (truthy (ig_doc g))
                 (map fst ins)
                 (concat (map snd inits))
                 (map fst nodes)
                 (map fst outs)
                 (concat (map (fun x => snd (fst x)) inits) ++ concat (map snd node_infos))
                 (concat (map snd ins) ++ concat (map (fun x => fst (fst x)) inits)
                    ++ concat (map fst node_infos) ++ dedup_quant [] (concat (map snd outs)))
                 (ksort (ig_meta g))).
End WithGraph.

Definition empty_graph : GraphP := mkGraphP None None [] [] [] [] [] [] [].

Fixpoint deser_graph (fuel : nat) (outer : list scope) (g : GraphP) : res IGraph :=
  match fuel with
  | O => Raise OtherError
  | S f => deser_graph_body (deser_graph f) empty_graph outer g
  end.

Fixpoint ser_graph (fuel : nat) (irv : option Z) (g : IGraph) : res GraphP :=
  match fuel with
  | O => Raise OtherError
  | S f => ser_graph_body (ser_graph f irv) irv g    (* nested graphs follow the same IR-version rule *)
  end.

(* ================================================================== functions *)
(* serde.deserialize_function (value_info entries naming a function input are applied to the inputs) *)
Definition deser_function (fuel : nat) (f : FunctionP) : res IFunction :=
  if negb (nodup_str (f_inputs f)) then Raise OtherError else
  let vis := vinfo_dict (f_vinfo f) in
  ins <- mapM (fun n => v <- maybe_info vis n (new_value n) ;; Ok (n, v))
              (f_inputs f) ;;
  let cur0 : scope := dict_of ins in
  cur1 <- foldM (declare_outputs vis []) (f_nodes f) cur0 ;;
  nodes <- mapS (deser_node (deser_graph fuel) empty_graph [] vis []) (f_nodes f) cur1 ;;
  outs <- mapM (fun n => if mem n (snd nodes) then Ok (OKey n) else Raise KeyError) (f_outputs f) ;;
  attrs <- mapM (deser_attr (deser_graph fuel) empty_graph []) (f_attr_protos f) ;;
  let attrs' := attrs ++ map (fun n => mkIAttr n None IAUndef) (f_attr f) in
  Ok (mkIFunction (dflt [] (f_domain f)) (dflt [] (f_name f)) (dflt [] (f_overload f))
        (mkIGraph None (f_doc f) (dict_of (f_meta f)) (dict_of (f_opsets f)) (f_inputs f) []
                  (fst nodes) outs (snd nodes))
        (attrs_dict [] attrs')).

Definition attr_has_value (a : IAttr IGraph) : bool :=
  match ia_val a with IAUndef | IARef _ _ => false | _ => true end.

(* serde.serialize_function_into; also returns the value-infos that an IR < 10 model stores in the
   main graph (serde._serialize_experimental_value_info_for_function_ir9_into) *)
Definition ser_function_gen (fuel : nat) (create : bool) (irvo : option Z) (f : IFunction) : res (FunctionP * list VInfoP) :=
  let g := if_graph f in
  let vals := ig_values g in
  let qual := if_domain f ++ [58; 58]%N ++ if_name f ++ [47]%N in
  ins <- mapM (getv vals) (ig_inputs g) ;;
  attrs <- mapM (fun a => if attr_has_value a then x <- ser_attr (ser_graph fuel None) a ;; Ok [x] else Ok [])
                (if_attrs f) ;;
  outs <- mapM (fun o => match o with OKey k => v <- getv vals k ;; Ok (v_name v) | OFresh v => Ok (v_name v) end)
               (ig_outputs g) ;;
  nodes <- mapM (fun n => np <- ser_node (ser_graph fuel irvo) irvo n ;;
                  vs <- mapM (fun k => match k with [] => Ok [] | _ => v <- getv vals k ;; Ok [v] end) (in_outputs n) ;;
                  Ok (np, filter should_create (concat vs))) (ig_nodes g) ;;
  let info_values := filter should_create ins ++ concat (map snd nodes) in
  Ok (mkFunctionP (truthy_s (if_name f)) (truthy_s (if_domain f)) (truthy_s (if_overload f)) (truthy (ig_doc g))
                  (map v_name ins) outs
                  (map ia_name (filter (fun a => negb (attr_has_value a)) (if_attrs f)))
                  (concat attrs) (map fst nodes) (ig_opsets g)
                  (if create then map (ser_value []) info_values else [])
                  (ksort (ig_meta g)),
      if create then [] else map (fun v => ser_value (qual ++ v_name v) v) info_values).

(* inside a model: value-info in the function from IR version 10 on, nodes follow the model's IR version *)
Definition ser_function (fuel : nat) (irv : Z) (f : IFunction) : res (FunctionP * list VInfoP) :=
  ser_function_gen fuel (FUNCTION_VALUE_INFO_SUPPORTED_VERSION <=? irv) (Some irv) f.

(* ================================================================== models *)
Definition fkey (f : IFunction) : str * str * str := (if_domain f, if_name f, if_overload f).
Definition fkey_eqb (a b : str * str * str) : bool :=
  str_eqb (fst (fst a)) (fst (fst b)) && str_eqb (snd (fst a)) (snd (fst b)) && str_eqb (snd a) (snd b).
Fixpoint funcs_dict (acc : list IFunction) (l : list IFunction) : list IFunction :=
  match l with
  | [] => acc
  | a :: r =>
      funcs_dict ((fix put (d : list IFunction) :=
                     match d with
                     | [] => [a]
                     | b :: d' => if fkey_eqb (fkey a) (fkey b) then a :: d' else b :: put d'
                     end) acc) r
  end.

Definition has_slash (s : str) : bool := existsb (N.eqb 47) s.

(* name.startswith(prefix) / name[len(prefix):] *)
Fixpoint strip_prefix (p s : str) : option str :=
  match p with
  | [] => Some s
  | c :: p' => match s with
               | c' :: s' => if (c =? c')%N then strip_prefix p' s' else None
               | [] => None
               end
  end.
Definition exp_prefix (f : IFunction) : str := if_domain f ++ [58; 58]%N ++ if_name f ++ [47]%N.

(* serde._deserialized_experimental_value_info_for_function_ir9, for one function: the main-graph
   value-info entries whose name starts with "{domain}::{function}/" (whatever the overload) are applied to
   its inputs and node outputs named by the rest of the name (the last entry of a name wins) *)
Definition exp_entries (vinfos : list VInfoP) (f : IFunction) : list (str * VInfoP) :=
  dict_of (concat (map (fun vi => match strip_prefix (exp_prefix f) (dflt [] (vi_name vi)) with
                                  | Some v => [(v, vi)]
                                  | None => []
                                  end) vinfos)).
Definition apply_exp_fn (vinfos : list VInfoP) (f : IFunction) : res IFunction :=
  match exp_entries vinfos f with
  | [] => Ok f
  | mp =>
      let g := if_graph f in
      let keys := ig_inputs g ++ concat (map (fun n => in_outputs n) (ig_nodes g)) in
      vals <- foldM (fun tbl k => match lookup k mp, lookup k tbl with
                                  | Some vi, Some v => v' <- apply_info vi v ;; Ok (dset k v' tbl)
                                  | _, _ => Ok tbl
                                  end) keys (ig_values g) ;;
      Ok (mkIFunction (if_domain f) (if_name f) (if_overload f)
            (mkIGraph (ig_name g) (ig_doc g) (ig_meta g) (ig_opsets g) (ig_inputs g) (ig_inits g)
                      (ig_nodes g) (ig_outputs g) vals)
            (if_attrs f))
  end.

(* serde.deserialize_model.
   _resolve_node_device_configurations (which walks all nodes; reference attributes are skipped by the
   traversal) replaces placeholder configuration objects by the model's
   objects of the same name; only the name is serialized, so it is the identity here. *)
Definition deser_model_fuel (fuel : nat) (m : ModelP) : res IModel :=
  let irv := dflt 0 (m_irv m) in
  g <- deser_graph fuel [] (m_graph m) ;;
  let g' := mkIGraph (ig_name g) (ig_doc g) (ig_meta g) (dict_of (m_opsets m)) (ig_inputs g) (ig_inits g)
                     (ig_nodes g) (ig_outputs g) (ig_values g) in
  fs <- mapM (deser_function fuel) (m_funcs m) ;;
  (* experimental function value-info stored in the main graph, below the IR version that has
     FunctionProto.value_info *)
  fs' <- (if irv <? FUNCTION_VALUE_INFO_SUPPORTED_VERSION
          then mapM (apply_exp_fn (g_vinfo (m_graph m))) (funcs_dict [] fs)
          else Ok (funcs_dict [] fs)) ;;
  Ok (mkIModel irv (m_pname m) (m_pver m) (m_domain m) (m_mver m) (m_doc m) g' fs'
               (dict_of (m_meta m))
               (map (fun c => (dflt [] (dc_name c), dflt 0 (dc_num c), dc_devices c)) (m_conf m))).
(* fuel: one more than the nesting depth, so that the default (empty) graph of a GRAPH attribute
   without `g` can always be deserialized *)
Definition deser_model (m : ModelP) : res IModel := deser_model_fuel (S (mdepth m)) m.

(* serde.serialize_model_into *)
Definition ser_model_fuel (fuel : nat) (m : IModel) : res ModelP :=
  let irv := im_irv m in
  g <- ser_graph fuel (Some irv) (im_graph m) ;;
  fs <- mapM (ser_function fuel irv) (im_funcs m) ;;
  let extra := concat (map snd fs) in
  let g' := mkGraphP (g_name g) (g_doc g) (g_inputs g) (g_inits g) (g_nodes g) (g_outputs g)
                     (g_vinfo g ++ extra) (g_quant g) (g_meta g) in
  Ok (mkModelP (Some irv) (ig_opsets (im_graph m))
               (truthy (im_pname m)) (truthy (im_pver m)) (truthy (im_domain m))
               (match im_mver m with Some z => truthy_z z | None => None end) (truthy (im_doc m))
               g' (ksort (im_meta m)) (map fst fs)
               (if irv <? MULTI_DEVICE_SUPPORTED_VERSION then []
                else map (fun c => mkDevConfP (Some (fst (fst c))) (Some (snd (fst c))) (snd c)) (im_conf m))).
Definition ser_model (m : IModel) : res ModelP := ser_model_fuel (imdepth m) m.

(* entry points for the other message kinds (from_proto / to_proto dispatch) *)
Definition deser_graph_top (g : GraphP) : res IGraph := deser_graph (S (gdepth g)) [] g.
Definition ser_graph_top (g : IGraph) : res GraphP := ser_graph (igdepth g) None g.
Definition roundtrip_model (m : ModelP) : res ModelP := im <- deser_model m ;; ser_model im.
Definition roundtrip_graph (g : GraphP) : res GraphP := ig <- deser_graph_top g ;; ser_graph_top ig.
(* serde.deserialize_attribute / serialize_attribute (serialize_reference_attribute) on a standalone
   AttributeProto: nested graphs are read in an empty scope stack and written without a model IR version *)
Definition roundtrip_attr (a : AttrP GraphP) : res (AttrP GraphP) :=
  ia <- deser_attr (deser_graph (S (attrv_depth gdepth (a_val a)))) empty_graph [] a ;;
  ser_attr (ser_graph (iattrv_depth igdepth (ia_val ia)) None) ia.
(* serde.deserialize_function / serialize_function(create_value_info=True) on a standalone FunctionProto *)
Definition roundtrip_function (f : FunctionP) : res FunctionP :=
  fn <- deser_function (S (fdepth f)) f ;;
  q <- ser_function_gen (ifdepth fn) true None fn ;; Ok (fst q).
Definition roundtrip_tensor (t : TensorP) : res TensorP := it <- deser_tensor t ;; Ok (ser_tensor it).
Definition roundtrip_type (t : TypeP) : res TypeP :=
  sh <- type_shape t ;; ty <- type_type t ;; Ok (ser_type_shape ty sh).
Definition roundtrip_vinfo (vi : VInfoP) : res VInfoP :=
  v <- apply_info vi (new_value (dflt [] (vi_name vi))) ;; Ok (ser_value [] v).

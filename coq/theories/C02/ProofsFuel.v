From Coq Require Import ZArith NArith List Bool Lia PeanoNat.
From IRV Require Import Base.Exn Gen.C02Gen C02.Model C02.Model2 C02.Norm C02.Proofs1.
Import ListNotations.

(* ------------------------------------------------------------------ generic helpers *)
Lemma mapM_ext_in {A B} (f g : A -> res B) (l : list A) :
  (forall x, In x l -> f x = g x) -> mapM f l = mapM g l.
Proof.
  induction l as [|x r IH]; intros H.
  - reflexivity.
  - simpl. rewrite (H x (or_introl eq_refl)).
    destruct (g x); [|reflexivity]. simpl.
    fold (mapM f r). fold (mapM g r).
    rewrite IH; [reflexivity|]. intros y Hy. apply H. right. exact Hy.
Qed.

Lemma res_bind_ext {A B} (e : res A) (k1 k2 : A -> res B) :
  (forall x, k1 x = k2 x) -> res_bind e k1 = res_bind e k2.
Proof. intros H. destruct e; simpl; [apply H|reflexivity]. Qed.

Lemma res_bind_cong {A B} (e1 e2 : res A) (k : A -> res B) :
  e1 = e2 -> res_bind e1 k = res_bind e2 k.
Proof. intros ->. reflexivity. Qed.

Lemma in_le_list_max (l : list nat) x : In x l -> (x <= list_max l)%nat.
Proof.
  induction l as [|y r IH]; intros H.
  - destruct H.
  - simpl. destruct H as [->|H]; [lia|]. specialize (IH H). lia.
Qed.

(* ------------------------------------------------------------------ extensionality *)
Definition attr_agree (sg1 sg2 : IGraph -> res GraphP) (a : IAttr IGraph) : Prop :=
  match ia_val a with
  | IAGraph g' => sg1 g' = sg2 g'
  | IAGraphs l => forall g', In g' l -> sg1 g' = sg2 g'
  | _ => True
  end.

Lemma ser_attr_ext (sg1 sg2 : IGraph -> res GraphP) a :
  attr_agree sg1 sg2 a -> ser_attr sg1 a = ser_attr sg2 a.
Proof.
  unfold attr_agree, ser_attr. intros H.
  destruct (ia_val a); try reflexivity.
  - rewrite H. reflexivity.
  - rewrite (mapM_ext_in sg1 sg2 l H). reflexivity.
Qed.

Lemma ser_node_ext (sg1 sg2 : IGraph -> res GraphP) irv n :
  (forall a, In a (in_attrs n) -> attr_agree sg1 sg2 a) ->
  ser_node sg1 irv n = ser_node sg2 irv n.
Proof.
  intros H. unfold ser_node.
  apply res_bind_cong. apply mapM_ext_in. intros a Ha. apply ser_attr_ext. apply H. exact Ha.
Qed.

Lemma ser_graph_body_ext (sg1 sg2 : IGraph -> res GraphP) irv g :
  (forall n a, In n (ig_nodes g) -> In a (in_attrs n) ->
     match ia_val a with
     | IAGraph g' => sg1 g' = sg2 g'
     | IAGraphs l => forall g', In g' l -> sg1 g' = sg2 g'
     | _ => True
     end) ->
  ser_graph_body sg1 irv g = ser_graph_body sg2 irv g.
Proof.
  intros H. unfold ser_graph_body. cbv zeta.
  apply res_bind_ext. intros ins.
  apply res_bind_ext. intros inits.
  apply res_bind_cong. apply mapM_ext_in. intros n Hn.
  apply res_bind_cong. apply ser_node_ext. intros a Ha. exact (H n a Hn Ha).
Qed.

(* ------------------------------------------------------------------ depth facts *)
Lemma igdepth_eq ig : igdepth ig = S (list_max (map (inode_depth igdepth) (ig_nodes ig))).
Proof. destruct ig. reflexivity. Qed.

Lemma attr_depth_graph (a : IAttr IGraph) g' :
  match ia_val a with
  | IAGraph g => g' = g
  | IAGraphs l => In g' l
  | _ => False
  end -> (igdepth g' <= iattrv_depth igdepth (ia_val a))%nat.
Proof.
  destruct (ia_val a); intros H; try destruct H.
  - simpl. lia.
  - simpl. apply in_le_list_max. apply in_map. exact H.
Qed.

Lemma node_attr_depth (n : INode IGraph) a :
  In a (in_attrs n) -> (iattrv_depth igdepth (ia_val a) <= inode_depth igdepth n)%nat.
Proof.
  intros H. unfold inode_depth. apply in_le_list_max.
  apply (in_map (fun a => iattrv_depth igdepth (ia_val a))). exact H.
Qed.

Lemma nodes_node_depth (l : list (INode IGraph)) n :
  In n l -> (inode_depth igdepth n <= list_max (map (inode_depth igdepth) l))%nat.
Proof. intros H. apply in_le_list_max. apply in_map. exact H. Qed.

(* agreement of two callbacks on everything nested below depth bound d *)
Lemma attr_agree_depth (sg1 sg2 : IGraph -> res GraphP) d a :
  (forall g', (igdepth g' <= d)%nat -> sg1 g' = sg2 g') ->
  (iattrv_depth igdepth (ia_val a) <= d)%nat ->
  attr_agree sg1 sg2 a.
Proof.
  intros H Hd. unfold attr_agree.
  pose proof (attr_depth_graph a) as D.
  destruct (ia_val a); try exact I.
  - apply H. specialize (D g eq_refl). lia.
  - intros g' Hg'. apply H. specialize (D g' Hg'). lia.
Qed.

(* ------------------------------------------------------------------ fuel sufficiency *)
Lemma ser_graph_fuel_gen :
  forall m ig, (igdepth ig <= m)%nat ->
  forall m' irv, (igdepth ig <= m')%nat -> ser_graph m irv ig = ser_graph m' irv ig.
Proof.
  induction m as [|m IH]; intros ig Hm m' irv Hm'.
  - rewrite igdepth_eq in Hm. lia.
  - destruct m' as [|m']; [rewrite igdepth_eq in Hm'; lia|].
    simpl. apply ser_graph_body_ext. intros n a Hn Ha.
    rewrite igdepth_eq in Hm, Hm'.
    pose proof (nodes_node_depth _ _ Hn) as D1.
    pose proof (node_attr_depth _ _ Ha) as D2.
    apply (attr_agree_depth _ _ (iattrv_depth igdepth (ia_val a))); [|lia].
    intros g' Hg'. apply IH; lia.
Qed.

Lemma ser_graph_fuel : forall m irv ig, (igdepth ig <= m)%nat -> ser_graph m irv ig = ser_graph (igdepth ig) irv ig.
Proof. intros m irv ig H. apply ser_graph_fuel_gen; [exact H|lia]. Qed.

Lemma ser_function_gen_fuel : forall m m' create irvo f, (ifdepth f <= m)%nat -> (ifdepth f <= m')%nat -> ser_function_gen m create irvo f = ser_function_gen m' create irvo f.
Proof.
  intros m m' create irvo f Hm Hm'. unfold ifdepth in Hm, Hm'.
  rewrite igdepth_eq in Hm, Hm'.
  assert (AG : forall iv d g', (S d <= m)%nat -> (S d <= m')%nat -> (igdepth g' <= d)%nat ->
                               ser_graph m iv g' = ser_graph m' iv g').
  { intros iv d g' H1 H2 H3. apply ser_graph_fuel_gen; lia. }
  unfold ser_function_gen. cbv zeta.
  apply res_bind_ext. intros ins.
  assert (EA : forall a, In a (if_attrs f) ->
                 ser_attr (ser_graph m None) a = ser_attr (ser_graph m' None) a).
  { intros a Ha. apply ser_attr_ext.
    apply (attr_agree_depth _ _ (iattrv_depth igdepth (ia_val a))); [|lia].
    intros g' Hg'.
    pose proof (in_le_list_max _ _ (in_map (fun a => iattrv_depth igdepth (ia_val a)) _ _ Ha)) as D.
    cbv beta in D.
    apply (AG None (iattrv_depth igdepth (ia_val a))); lia. }
  assert (EN : forall n, In n (ig_nodes (if_graph f)) ->
                 ser_node (ser_graph m irvo) irvo n = ser_node (ser_graph m' irvo) irvo n).
  { intros n Hn. apply ser_node_ext. intros a Ha.
    pose proof (nodes_node_depth _ _ Hn) as D1.
    pose proof (node_attr_depth _ _ Ha) as D2.
    apply (attr_agree_depth _ _ (iattrv_depth igdepth (ia_val a))); [|lia].
    intros g' Hg'. apply (AG irvo (iattrv_depth igdepth (ia_val a))); lia. }
  rewrite (mapM_ext_in _ (fun a => if attr_has_value a
                                   then res_bind (ser_attr (ser_graph m' None) a) (fun x => Ok [x])
                                   else Ok []) (if_attrs f)).
  2:{ intros a Ha. rewrite (EA a Ha). reflexivity. }
  apply res_bind_ext. intros attrs.
  apply res_bind_ext. intros outs.
  apply res_bind_cong. apply mapM_ext_in. intros n Hn.
  rewrite (EN n Hn). reflexivity.
Qed.

Lemma ser_function_fuel : forall m m' irv f, (ifdepth f <= m)%nat -> (ifdepth f <= m')%nat -> ser_function m irv f = ser_function m' irv f.
Proof. intros. unfold ser_function. apply ser_function_gen_fuel; assumption. Qed.

Lemma ser_model_fuel_indep : forall m m' im, (imdepth im <= m)%nat -> (imdepth im <= m')%nat -> ser_model_fuel m im = ser_model_fuel m' im.
Proof.
  intros m m' im Hm Hm'. unfold imdepth in Hm, Hm'.
  unfold ser_model_fuel. cbv zeta.
  rewrite (ser_graph_fuel_gen m (im_graph im) ltac:(lia) m' (Some (im_irv im)) ltac:(lia)).
  apply res_bind_ext. intros g.
  apply res_bind_cong. apply mapM_ext_in. intros f Hf.
  pose proof (in_le_list_max _ _ (in_map ifdepth _ _ Hf)) as D.
  apply ser_function_fuel; lia.
Qed.

Print Assumptions ser_graph_fuel.
Print Assumptions ser_function_fuel.
Print Assumptions ser_model_fuel_indep.

(* graph stage, part 13: one level of the round trip, then induction on the nesting depth *)
From Coq Require Import ZArith NArith List Bool Lia PeanoNat.
From IRV Require Import Base.Exn Gen.C02Gen C02.Model C02.Model2 C02.Norm C02.Proofs1 C02.Proofs2 C02.Proofs3.
From IRV Require Import C02.ProofsG1 C02.ProofsG2 C02.ProofsG3 C02.ProofsG4 C02.ProofsG5 C02.ProofsG6 C02.ProofsG7 C02.ProofsG8 C02.ProofsG9 C02.ProofsG10 C02.ProofsG11 C02.ProofsG12 C02.ProofsFuel.
Import ListNotations.
Open Scope Z_scope.

Lemma norm_graph_eq g :
  norm_graph g =
  mkGraphP (truthy (g_name g)) (truthy (g_doc g))
           (map norm_vinfo (g_inputs g)) (map norm_tensor (g_inits g))
           (map (norm_node norm_graph empty_graph) (g_nodes g))
           (map norm_vinfo (g_outputs g))
           (norm_vinfos (vinfo_order (map vname (g_inputs g)) (map vname (g_outputs g)) (map tname (g_inits g))
                                     (node_out_names (g_nodes g))) (g_inits g) (g_vinfo g))
           (norm_quants (quant_order (map vname (g_inputs g)) (map vname (g_outputs g)) (map tname (g_inits g))
                                     (node_out_names (g_nodes g))) (g_quant g))
           (ksort (g_meta g)).
Proof. destruct g. reflexivity. Qed.

Lemma node_out_names_norm (a b : list (NodeP GraphP)) :
  map (norm_node norm_graph empty_graph) a = map (norm_node norm_graph empty_graph) b ->
  node_out_names a = node_out_names b.
Proof.
  intros H.
  assert (Hn : forall l : list (NodeP GraphP),
             node_out_names l = concat (map (fun n => filter nonempty (n_outputs n))
                                            (map (norm_node norm_graph empty_graph) l))).
  { intros l. unfold node_out_names. rewrite filter_concat, !map_map. f_equal. apply map_ext. intros n.
    unfold norm_node. cbn [n_outputs]. rewrite filter_nonempty_trim. reflexivity. }
  rewrite (Hn a), (Hn b), H. reflexivity.
Qed.

Section GraphLevel.
  Variable g : GraphP.
  Variables (allow_dev : bool) (visible : list str) (outer : list scope) (irv : option Z).
  Variables (dg : list scope -> GraphP -> res IGraph) (sg : IGraph -> res GraphP).
  Hypothesis Hwf : wf_graph allow_dev visible g = true.
  Hypothesis Houter : Forall scope_ok outer.
  Hypothesis Hvis : forall k, In k visible -> visible_in outer k.
  Hypothesis Hirv : irv_allows allow_dev irv.
  Variable wfg' : GraphP -> bool.
  Hypothesis Hnodes' : forallb (wf_node allow_dev (fun _ => wfg') (visible ++ declared g)) (g_nodes g) = true.
  Hypothesis Hempty' : wfg' empty_graph = true.
  Hypothesis HIH : forall outer' g', Forall scope_ok outer' ->
      (forall k, In k (visible ++ declared g) -> visible_in outer' k) ->
      wfg' g' = true ->
      exists ig, dg outer' g' = Ok ig /\ exists g'', sg ig = Ok g'' /\ norm_graph g'' = norm_graph g'.

  Lemma graph_level :
    exists inodes,
      deser_graph_body dg empty_graph outer g = Ok (the_ig g inodes)
      /\ exists q, ser_graph_body sg irv (the_ig g inodes) = Ok q /\ norm_graph q = norm_graph g.
  Proof.
    pose proof (wf_graph_unpack _ _ _ Hwf) as W.
    destruct (deser_graph_body_ok g allow_dev visible outer irv dg sg W Houter Hvis Hirv wfg' Hnodes' Hempty' HIH) as (inodes & Hf & Hd).
    exists inodes. split; [exact Hd|].
    destruct (ser_graph_body_ok g allow_dev visible W sg irv inodes Hf)
      as (q & nps & Hs & Hnodes & Hname & Hdoc & Hins & Hinits & Hnps & Houts & Hvi & Hqu & Hmeta).
    exists q. split; [exact Hs|].
    rewrite (norm_graph_eq q), (norm_graph_eq g).
    rewrite Hname, Hdoc, Hins, Hinits, Hnps, Houts, Hvi, Hqu, Hmeta.
    rewrite (q_inits_eq g allow_dev visible W).
    (* the names that fix the order of the keyed lists are the same *)
    assert (E1 : map vname (map (fun k => ser_value [] (fv g k)) (map vname (g_inputs g))) = map vname (g_inputs g)).
    { rewrite !map_map. apply map_ext_in. intros vi Hvi'. rewrite vname_ser_value. apply (fv_name g).
      apply (in_declared_ins g). apply in_map. exact Hvi'. }
    assert (E2 : map vname (map (fun k => ser_value [] (fv g k)) (map vname (g_outputs g))) = map vname (g_outputs g)).
    { rewrite !map_map. apply map_ext_in. intros vi Hvi'. rewrite vname_ser_value. apply (fv_name g).
      apply (w_outs_decl _ _ _ W). apply in_map. exact Hvi'. }
    assert (E3 : map tname (map Xt (g_inits g)) = map tname (g_inits g)).
    { rewrite map_map. apply map_ext_in. intros t Ht.
      pose proof (proj1 (Forall_forall _ _) (w_inits_ok _ _ _ W) t Ht) as Hok.
      destruct (Xt_props t Hok) as (_ & H1 & _). exact H1. }
    assert (E4 : node_out_names nps = node_out_names (g_nodes g)) by (apply node_out_names_norm; exact Hnodes).
    rewrite E1, E2, E3, E4.
    rewrite (vinfo_part g allow_dev visible W), (quant_part g allow_dev visible W).
    f_equal.
    - apply truthy_idem.
    - apply truthy_idem.
    - rewrite !map_map. apply map_ext_in. intros vi Hvi'. apply (fv_input_info g allow_dev visible W vi Hvi').
    - rewrite map_map. apply map_ext_in. intros t Ht.
      pose proof (proj1 (Forall_forall _ _) (w_inits_ok _ _ _ W) t Ht) as Hok.
      destruct (Xt_props t Hok) as (H1 & _). exact H1.
    - exact Hnodes.
    - rewrite !map_map. apply map_ext_in. intros vi Hvi'. apply (fv_output_info g allow_dev visible W vi Hvi').
    - apply ksort_dict_of. exact (w_meta _ _ _ W).
  Qed.
End GraphLevel.

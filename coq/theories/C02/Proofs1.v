(* C02/Proofs1.v — utility lemmas (strings, dictionaries, sorting) and the first stages of the round
   trip: dimensions/shapes/types, tensors, value-info. *)
From Coq Require Import ZArith NArith List Bool Lia.
From IRV Require Import Base.Exn Gen.C02Gen C02.Model C02.Model2 C02.Norm.
Import ListNotations.
Open Scope Z_scope.

(* ------------------------------------------------------------------ strings *)
Lemma str_eqb_eq a b : str_eqb a b = true <-> a = b.
Proof. unfold str_eqb. apply list_eqb_eq. intros x y. apply N.eqb_eq. Qed.
Lemma str_eqb_refl a : str_eqb a a = true.
Proof. apply str_eqb_eq. reflexivity. Qed.
Lemma str_eqb_neq a b : str_eqb a b = false <-> a <> b.
Proof.
  split.
  - intros H E. apply str_eqb_eq in E. congruence.
  - intros H. destruct (str_eqb a b) eqn:E; [apply str_eqb_eq in E; contradiction | reflexivity].
Qed.
Lemma str_eqb_sym a b : str_eqb a b = str_eqb b a.
Proof.
  destruct (str_eqb a b) eqn:E.
  - apply str_eqb_eq in E. subst. symmetry. apply str_eqb_refl.
  - symmetry. apply str_eqb_neq. apply str_eqb_neq in E. congruence.
Qed.

Lemma str_leb_total a : forall b, str_leb a b = false -> str_leb b a = true.
Proof.
  induction a as [|x a IH]; intros [|y b] H; simpl in *; try discriminate; try reflexivity.
  destruct (x <? y)%N eqn:L; [discriminate|].
  destruct (x =? y)%N eqn:E.
  - apply N.eqb_eq in E. subst y. rewrite N.ltb_irrefl, N.eqb_refl. apply IH. exact H.
  - apply N.ltb_ge in L. apply N.eqb_neq in E.
    assert (Hlt : (y < x)%N) by lia. apply N.ltb_lt in Hlt. rewrite Hlt. reflexivity.
Qed.

Lemma truthy_idem o : truthy (truthy o) = truthy o.
Proof. destruct o as [[|c s]|]; reflexivity. Qed.
Lemma truthy_truthy_s s : truthy (truthy_s s) = truthy (Some s).
Proof. destruct s; reflexivity. Qed.
Lemma truthy_some_dflt o : truthy (Some (dflt [] o)) = truthy o.
Proof. destruct o as [[|c s]|]; reflexivity. Qed.
Lemma some_dflt_idem o : some_dflt (some_dflt o) = some_dflt o.
Proof. destruct o; reflexivity. Qed.

(* ------------------------------------------------------------------ sorting *)
Section SortLemmas.
  Context {V : Type}.
  Fixpoint ksorted (l : list (str * V)) : Prop :=
    match l with
    | [] => True
    | x :: r => match r with [] => True | y :: _ => str_leb (fst x) (fst y) = true end /\ ksorted r
    end.

  Lemma kinsert_sorted (x : str * V) l : ksorted l -> ksorted (kinsert x l).
  Proof.
    induction l as [|y r IH]; intros Hs; simpl.
    - split; exact I.
    - destruct (str_leb (fst x) (fst y)) eqn:E.
      + simpl. split; [exact E|]. exact Hs.
      + destruct Hs as [Hy Hr]. specialize (IH Hr).
        destruct r as [|z r'].
        * simpl. split; [apply str_leb_total; exact E | split; exact I].
        * simpl in *. destruct (str_leb (fst x) (fst z)) eqn:E2.
          -- split; [apply str_leb_total; exact E|]. exact IH.
          -- split; [exact Hy|]. exact IH.
  Qed.
  Lemma ksort_sorted (l : list (str * V)) : ksorted (ksort l).
  Proof. induction l as [|x r IH]; simpl; [exact I | apply kinsert_sorted; exact IH]. Qed.
  Lemma ksort_of_sorted (l : list (str * V)) : ksorted l -> ksort l = l.
  Proof.
    induction l as [|x r IH]; intros Hs; simpl; [reflexivity|].
    destruct Hs as [Hx Hr]. rewrite (IH Hr).
    destruct r as [|y r']; simpl; [reflexivity|]. rewrite Hx. reflexivity.
  Qed.
  Lemma ksort_idem (l : list (str * V)) : ksort (ksort l) = ksort l.
  Proof. apply ksort_of_sorted. apply ksort_sorted. Qed.
End SortLemmas.

(* ------------------------------------------------------------------ dictionaries *)
Lemma in_str_In k l : in_str k l = true <-> In k l.
Proof.
  unfold in_str. rewrite existsb_exists. split.
  - intros [x [Hin E]]. apply str_eqb_eq in E. subst. exact Hin.
  - intros H. exists k. split; [exact H | apply str_eqb_refl].
Qed.
Lemma nodup_str_NoDup l : nodup_str l = true <-> NoDup l.
Proof.
  induction l as [|x r IH]; simpl.
  - split; [constructor | reflexivity].
  - rewrite andb_true_iff, negb_true_iff, IH. split.
    + intros [H1 H2]. constructor; [|exact H2]. intros Hin. apply in_str_In in Hin. congruence.
    + intros H. inversion H; subst. split; [|assumption].
      destruct (in_str x r) eqn:E; [apply in_str_In in E; contradiction | reflexivity].
Qed.

Section DictLemmas.
  Context {V : Type}.
  Lemma lookup_none_notin k (d : list (str * V)) : lookup k d = None <-> ~ In k (map fst d).
  Proof.
    induction d as [|[k' v] r IH]; simpl.
    - split; [intros _ [] | reflexivity].
    - destruct (str_eqb k k') eqn:E.
      + apply str_eqb_eq in E. subst. split; [discriminate | intros H; exfalso; apply H; left; reflexivity].
      + apply str_eqb_neq in E. rewrite IH. split.
        * intros H [H1|H1]; [congruence | contradiction].
        * intros H H1. apply H. right. exact H1.
  Qed.
  Lemma dset_fresh k v (d : list (str * V)) : ~ In k (map fst d) -> dset k v d = d ++ [(k, v)].
  Proof.
    induction d as [|[k' v'] r IH]; simpl; intros H; [reflexivity|].
    destruct (str_eqb k k') eqn:E.
    - apply str_eqb_eq in E. subst. exfalso. apply H. left. reflexivity.
    - rewrite IH; [reflexivity|]. intros H1. apply H. right. exact H1.
  Qed.
  Lemma dupdate_fresh (l d : list (str * V)) : NoDup (map fst (d ++ l)) -> dupdate d l = d ++ l.
  Proof.
    unfold dupdate. revert d. induction l as [|[k v] r IH]; intros d H; simpl.
    - rewrite app_nil_r. reflexivity.
    - rewrite dset_fresh.
      + rewrite IH; rewrite <- app_assoc; simpl; [reflexivity | exact H].
      + rewrite map_app in H. simpl in H. apply NoDup_remove_2 in H.
        intros Hin. apply H. apply in_or_app. left. exact Hin.
  Qed.
  Lemma dict_of_nodup (l : list (str * V)) : wf_dict l = true -> dict_of l = l.
  Proof.
    intros H. unfold dict_of. rewrite dupdate_fresh; [reflexivity|]. simpl.
    apply nodup_str_NoDup. exact H.
  Qed.
End DictLemmas.

Lemma ksort_dict_of (m : dict) : wf_dict m = true -> ksort (ksort (dict_of m)) = ksort m.
Proof. intros H. rewrite dict_of_nodup by exact H. apply ksort_idem. Qed.

(* ------------------------------------------------------------------ mapM *)
Lemma mapM_ok {A B} (f : A -> res B) (P : A -> Prop) (R : A -> B -> Prop) :
  (forall x, P x -> exists y, f x = Ok y /\ R x y) ->
  forall l, Forall P l -> exists ys, mapM f l = Ok ys /\ Forall2 R l ys.
Proof.
  intros H l. induction l as [|x r IH]; intros HP.
  - exists []. split; [reflexivity | constructor].
  - inversion HP; subst. destruct (H x H2) as [y [Hy HR]]. destruct (IH H3) as [ys [Hys HRs]].
    exists (y :: ys). split; [simpl; rewrite Hy; simpl; rewrite Hys; reflexivity | constructor; assumption].
Qed.
Lemma Forall2_map_eq {A B C} (f : A -> C) (g : B -> C) l l' :
  Forall2 (fun a b => g b = f a) l l' -> map g l' = map f l.
Proof. induction 1; simpl; [reflexivity | congruence]. Qed.
Lemma forallb_Forall {A} (f : A -> bool) l : forallb f l = true -> Forall (fun x => f x = true) l.
Proof. intros H. apply Forall_forall. apply forallb_forall. exact H. Qed.

(* ================================================================== stage 1: dims, shapes, types *)
Lemma dim_roundtrip d : norm_dim (ser_dim (deser_dim d)) = norm_dim d.
Proof.
  destruct d as [v den]. unfold deser_dim, ser_dim, norm_dim. simpl.
  rewrite truthy_idem. destruct v; reflexivity.
Qed.
(* stronger: without norm, exactly the value kind and the (non-empty) denotation are kept *)
Lemma dim_exact d : ser_dim (deser_dim d) = norm_dim d.
Proof. destruct d as [v den]. unfold deser_dim, ser_dim, norm_dim. simpl. destruct v; reflexivity. Qed.

Lemma shape_roundtrip s : map norm_dim (map ser_dim (deser_shape s)) = map norm_dim s.
Proof.
  unfold deser_shape. rewrite !map_map. apply map_ext. intros d. apply dim_roundtrip.
Qed.

Definition with_shape (t : TypeP) (sh : option IShape) : TypeP :=
  match sh with Some s => ser_shape_into t s | None => t end.

Fixpoint type_inner_roundtrip (t : TypeP) {struct t} :
  wf_type_inner t = true ->
  exists it sh, type_type t = Ok (Some it) /\ type_shape t = Ok sh
                /\ norm_type (with_shape (ser_type it) sh) = norm_type t.
Proof.
  destruct t as [e sh den | e sh den | e den | e den | den | den]; simpl; intros H; try discriminate.
  - destruct e as [z|]; [|discriminate].
    exists (ITensor z den), (option_map deser_shape sh). rewrite H.
    repeat split. destruct sh as [s|]; simpl; rewrite truthy_idem; [rewrite shape_roundtrip|]; reflexivity.
  - destruct e as [z|]; [|discriminate].
    exists (ISparse z den), (option_map deser_shape sh). rewrite H.
    repeat split. destruct sh as [s|]; simpl; rewrite truthy_idem; [rewrite shape_roundtrip|]; reflexivity.
  - destruct e as [t'|]; [|discriminate].
    destruct (type_inner_roundtrip t' H) as (it & sh & H1 & H2 & H3).
    exists (ISeq it den), sh. rewrite H1, H2. repeat split.
    destruct sh as [s|]; simpl in *; rewrite truthy_idem, H3; reflexivity.
  - destruct e as [t'|]; [|discriminate].
    destruct (type_inner_roundtrip t' H) as (it & sh & H1 & H2 & H3).
    exists (IOpt it den), sh. rewrite H1, H2. repeat split.
    destruct sh as [s|]; simpl in *; rewrite truthy_idem, H3; reflexivity.
Qed.

Lemma type_roundtrip t :
  wf_type t = true ->
  exists ty sh, type_type t = Ok ty /\ type_shape t = Ok sh
                /\ norm_type (ser_type_shape ty sh) = norm_type t.
Proof.
  intros H. destruct t as [e sh den | e sh den | e den | e den | den | den].
  1-5: (destruct (type_inner_roundtrip _ H) as (it & s & H1 & H2 & H3);
        exists (Some it), s; repeat split; try assumption; unfold ser_type_shape; exact H3).
  exists None, None. simpl. repeat split. unfold wf_type in H.
  destruct (truthy den) eqn:E; [discriminate | reflexivity].
Qed.

(* ================================================================== stage 2: tensors *)
Lemma canonical_int_roundtrip s :
  canonical_int s = true -> exists z, parse_dec s = Some z /\ to_dec z = s.
Proof.
  unfold canonical_int. destruct (parse_dec s) as [z|]; [|discriminate].
  intros H. exists z. split; [reflexivity | apply str_eqb_eq; exact H].
Qed.

Lemma filter_all {A} (f : A -> bool) l : forallb f l = true -> filter f l = l.
Proof.
  induction l as [|x r IH]; simpl; [reflexivity|]. intros H. apply andb_prop in H. destruct H as [H1 H2].
  rewrite H1, IH by exact H2. reflexivity.
Qed.

Ltac str_cases H :=
  repeat match type of H with
         | (_ || _) = true => apply orb_prop in H; destruct H as [H|H]
         end; apply str_eqb_eq in H.

Local Opaque to_dec parse_dec.
(* external_data of a supported external tensor: location (required), offset, length, each at most once *)
Lemma ext_roundtrip (ext : dict) :
  wf_dict ext = true ->
  forallb (fun kv => str_eqb (fst kv) k_location || str_eqb (fst kv) k_offset || str_eqb (fst kv) k_length) ext = true ->
  mem k_location ext = true ->
  forallb (fun kv => str_eqb (fst kv) k_location || canonical_int (snd kv)) ext = true ->
  exists off len,
    ext_int (lookup k_offset ext) = Ok off /\ ext_int (lookup k_length ext) = Ok len /\
    ksort ((k_location, dflt [] (lookup k_location ext)) :: opt_entry k_offset off ++ opt_entry k_length len)
    = ksort ext.
Proof.
  intros Hnd Hkeys Hloc Hcan.
  assert (Hcase : forall k v, In (k, v) ext -> k = k_location \/ ((k = k_offset \/ k = k_length) /\ canonical_int v = true)).
  { intros k v Hin. rewrite forallb_forall in Hkeys, Hcan. specialize (Hkeys _ Hin). specialize (Hcan _ Hin).
    simpl in *. str_cases Hkeys; subst; auto; right; (split; [auto|]);
    (apply orb_prop in Hcan; destruct Hcan as [Hc|Hc]; [apply str_eqb_eq in Hc; discriminate | exact Hc]). }
  unfold wf_dict in Hnd.
  destruct ext as [|[k1 v1] [|[k2 v2] [|[k3 v3] [|[k4 v4] r]]]].
  - discriminate.
  - destruct (Hcase k1 v1 (or_introl eq_refl)) as [E|[[E|E] Hc]]; subst; try discriminate.
    exists None, None. repeat split.
  - destruct (Hcase k1 v1 (or_introl eq_refl)) as [E1|[[E1|E1] Hc1]];
    destruct (Hcase k2 v2 (or_intror (or_introl eq_refl))) as [E2|[[E2|E2] Hc2]]; subst; try discriminate;
    try (destruct (canonical_int_roundtrip _ Hc1) as (z1 & P1 & D1));
    try (destruct (canonical_int_roundtrip _ Hc2) as (z2 & P2 & D2)).
    + exists (Some z2), None. cbn. rewrite P2. cbn. rewrite D2. repeat split.
    + exists None, (Some z2). cbn. rewrite P2. cbn. rewrite D2. repeat split.
    + exists (Some z1), None. cbn. rewrite P1. cbn. rewrite D1. repeat split.
    + exists None, (Some z1). cbn. rewrite P1. cbn. rewrite D1. repeat split.
  - destruct (Hcase k1 v1 (or_introl eq_refl)) as [E1|[[E1|E1] Hc1]];
    destruct (Hcase k2 v2 (or_intror (or_introl eq_refl))) as [E2|[[E2|E2] Hc2]];
    destruct (Hcase k3 v3 (or_intror (or_intror (or_introl eq_refl)))) as [E3|[[E3|E3] Hc3]]; subst; try discriminate;
    try (destruct (canonical_int_roundtrip _ Hc1) as (z1 & P1 & D1));
    try (destruct (canonical_int_roundtrip _ Hc2) as (z2 & P2 & D2));
    try (destruct (canonical_int_roundtrip _ Hc3) as (z3 & P3 & D3)).
    + exists (Some z2), (Some z3). cbn. rewrite P2, P3. cbn. rewrite D2, D3. repeat split.
    + exists (Some z3), (Some z2). cbn. rewrite P2, P3. cbn. rewrite D2, D3. repeat split.
    + exists (Some z1), (Some z3). cbn. rewrite P1, P3. cbn. rewrite D1, D3. repeat split.
    + exists (Some z1), (Some z2). cbn. rewrite P1, P2. cbn. rewrite D1, D2. repeat split.
    + exists (Some z3), (Some z1). cbn. rewrite P1, P3. cbn. rewrite D1, D3. repeat split.
    + exists (Some z2), (Some z1). cbn. rewrite P1, P2. cbn. rewrite D1, D2. repeat split.
  - (* four or more entries over three distinct keys: impossible *)
    exfalso.
    destruct (Hcase k1 v1 (or_introl eq_refl)) as [E1|[[E1|E1] _]];
    destruct (Hcase k2 v2 (or_intror (or_introl eq_refl))) as [E2|[[E2|E2] _]];
    destruct (Hcase k3 v3 (or_intror (or_intror (or_introl eq_refl)))) as [E3|[[E3|E3] _]];
    destruct (Hcase k4 v4 (or_intror (or_intror (or_intror (or_introl eq_refl))))) as [E4|[[E4|E4] _]];
    subst; cbn in Hnd; try discriminate;
    repeat (rewrite ?andb_false_r, ?andb_false_l in Hnd; cbn in Hnd); discriminate.
Qed.

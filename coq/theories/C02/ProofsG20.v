(* entry point: a standalone FunctionProto *)
From Coq Require Import ZArith NArith List Bool Lia PeanoNat.
From IRV Require Import Base.Exn Gen.C02Gen C02.Model C02.Model2 C02.Norm C02.Proofs1 C02.Proofs2 C02.Proofs3.
From IRV Require Import C02.ProofsFuel C02.ProofsDepth C02.ProofsG17.
Import ListNotations.
Open Scope Z_scope.

Theorem function_entry_roundtrip (f : FunctionP) :
  wf_function true true f = true ->
  exists q, roundtrip_function f = Ok q /\ norm_function q = norm_function f.
Proof.
  intros Hw.
  destruct (function_roundtrip_fuel f true true None (fdepth f) (S (S (fdepth f))) Hw (le_S _ _ (le_n _))
              (le_S _ _ (le_n _)) (fun _ => I)) as (fn & Hd & q & Hs & Hn).
  exists q. split; [|exact Hn]. unfold roundtrip_function. rewrite Hd. cbn [res_bind].
  pose proof (deser_function_depth _ _ _ Hd) as Hdep.
  rewrite (ser_function_gen_fuel (ifdepth fn) (S (S (fdepth f))) true None fn (le_n _) Hdep), Hs. reflexivity.
Qed.

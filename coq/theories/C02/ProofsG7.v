(* graph stage, part 7: ser_graph_body on the deserialized graph, as an explicit proto *)
From Coq Require Import ZArith NArith List Bool Lia.
From IRV Require Import Base.Exn Gen.C02Gen C02.Model C02.Model2 C02.Norm C02.Proofs1 C02.Proofs2 C02.Proofs3.
From IRV Require Import C02.ProofsG1 C02.ProofsG2 C02.ProofsG3 C02.ProofsG4 C02.ProofsG5 C02.ProofsG6.
Import ListNotations.
Open Scope Z_scope.

Lemma mapM_total {A B} (f : A -> res B) (h : A -> B) l :
  (forall x, In x l -> f x = Ok (h x)) -> mapM f l = Ok (map h l).
Proof.
  induction l as [|x r IH]; intros H; [reflexivity|].
  rewrite mapM_cons, (H x (or_introl eq_refl)). cbn [res_bind]. rewrite IH; [reflexivity|].
  intros y Hy. apply H. right. exact Hy.
Qed.

Definition qname (q : QuantP) : str := dflt [] (qa_name q).
Lemma dedup_quant_id l : forall seen,
  NoDup (map qname l) -> (forall q, In q l -> ~ In (qname q) seen) -> dedup_quant seen l = l.
Proof.
  induction l as [|q r IH]; intros seen Hn Hs; simpl; [reflexivity|].
  inversion Hn; subst. fold (qname q).
  assert (E : in_str (qname q) seen = false).
  { destruct (in_str (qname q) seen) eqn:E; [|reflexivity]. apply in_str_In in E. exfalso. exact (Hs q (or_introl eq_refl) E). }
  rewrite E. f_equal. apply IH; [assumption|].
  intros q' Hq' [Hc|Hc]; [apply H1; rewrite Hc; apply in_map; exact Hq' | exact (Hs q' (or_intror Hq') Hc)].
Qed.
Lemma nodup_names_concat (h : str -> list QuantP) l :
  (forall k, In k l -> map qname (h k) = [] \/ map qname (h k) = [k]) -> NoDup l ->
  NoDup (map qname (concat (map h l))).
Proof.
  intros Hh Hn. induction l as [|k r IH]; simpl; [constructor|].
  inversion Hn; subst. rewrite map_app.
  assert (IHr : NoDup (map qname (concat (map h r)))) by (apply IH; [intros k0 Hk0; apply Hh; right; exact Hk0 | assumption]).
  destruct (Hh k (or_introl eq_refl)) as [E|E]; rewrite E; simpl; [exact IHr|].
  constructor; [|exact IHr]. intros Hin. apply H1.
  apply in_map_iff in Hin. destruct Hin as (q & Eq & Hq). apply in_concat in Hq. destruct Hq as (lq & Hlq & Hq).
  apply in_map_iff in Hlq. destruct Hlq as (k0 & <- & Hk0).
  destruct (Hh k0 (or_intror Hk0)) as [E0|E0].
  - apply (in_map qname) in Hq. rewrite E0 in Hq. contradiction.
  - apply (in_map qname) in Hq. rewrite E0 in Hq. destruct Hq as [Hq|[]]. rewrite <- Eq, <- Hq. exact Hk0.
Qed.

Section GraphSer.
  Variable g : GraphP.
  Variables (allow_dev : bool) (visible : list str).
  Hypothesis W : wfg_props allow_dev visible g.
  Variables (sg : IGraph -> res GraphP) (irv : option Z).

  Let ins := map vname (g_inputs g).
  Let inits := map tname (g_inits g).
  Let outs := map vname (g_outputs g).
  Notation fv := (fv g).

  Definition the_ig (inodes : list (INode IGraph)) : IGraph :=
    mkIGraph (g_name g) (g_doc g) (dict_of (g_meta g)) [] (map vname (g_inputs g)) (map tname (g_inits g))
             inodes (map (fun vi => OKey (vname vi)) (g_outputs g)) (T3 g).

  (* what the serializer emits for one node-output name *)
  Definition infof (k : str) : list QuantP * list VInfoP :=
    match k with
    | [] => ([], [])
    | _ => if in_str k (map vname (g_outputs g)) then ([], [])
           else (ser_quant (fv k), if should_create (fv k) then [ser_value [] (fv k)] else [])
    end.

  Lemma is_goutput_eq inodes k : is_goutput (the_ig inodes) k = in_str k outs.
  Proof.
    unfold is_goutput, the_ig. cbn [ig_outputs]. unfold outs, in_str.
    induction (g_outputs g) as [|o r IH]; simpl; [reflexivity|]. rewrite IH. reflexivity.
  Qed.

  Lemma in_declared_ins k : In k ins -> In k (declared g).
  Proof. intros H. unfold declared. apply in_or_app. left. exact H. Qed.
  Lemma in_declared_inits k : In k inits -> In k (declared g).
  Proof. intros H. unfold declared. apply in_or_app. right. apply in_or_app. left. exact H. Qed.
  Lemma in_declared_nouts k : In k (node_out_names (g_nodes g)) -> In k (declared g).
  Proof. intros H. unfold declared. apply in_or_app. right. apply in_or_app. right. exact H. Qed.

  Definition outinfo_m (inodes : list (INode IGraph)) (k : str) : res (list QuantP * list VInfoP) :=
    match k with
    | [] => Ok ([], [])
    | _ => if is_goutput (the_ig inodes) k then Ok ([], []) else
           v <- getv (T3 g) k ;;
           Ok (ser_quant v, if should_create v then [ser_value [] v] else [])
    end.

  Lemma node_infos inodes n :
    In n (g_nodes g) -> mapM (outinfo_m inodes) (n_outputs n) = Ok (map infof (n_outputs n)).
  Proof.
    intros Hn. apply mapM_total. intros k Hk. destruct k as [|c k]; [reflexivity|].
    unfold outinfo_m, infof. rewrite is_goutput_eq. fold outs. destruct (in_str (c :: k) outs); [reflexivity|].
    rewrite (getv_T3 g allow_dev visible W); [reflexivity|].
    apply in_declared_nouts. unfold node_out_names. apply filter_In. split; [|reflexivity].
    apply in_concat. exists (n_outputs n). split; [apply in_map; exact Hn | exact Hk].
  Qed.

  Lemma ser_nodes_gen ig0 nodes inodes :
    (forall n, In n nodes -> In n (g_nodes g)) ->
    Forall2 (node_rel sg irv) nodes inodes ->
    exists nres,
      mapM (fun n => np <- ser_node sg irv n ;; infos <- mapM (outinfo_m ig0) (in_outputs n) ;; Ok (np, infos)) inodes
      = Ok nres
      /\ map (norm_node norm_graph empty_graph) (map fst nres) = map (norm_node norm_graph empty_graph) nodes
      /\ map snd nres = map (fun n => map infof (n_outputs n)) nodes.
  Proof.
    intros Hall Hf. induction Hf as [|n i nodes' inodes' Hr Hf IH].
    - exists []. repeat split.
    - destruct IH as (nres & H1 & H2 & H3); [intros n0 Hn0; apply Hall; right; exact Hn0|].
      destruct Hr as (Ho & n' & Hs & Hn).
      exists ((n', map infof (n_outputs n)) :: nres).
      rewrite mapM_cons, Hs. cbn [res_bind]. rewrite Ho, (node_infos ig0 n (Hall n (or_introl eq_refl))).
      cbn [res_bind]. rewrite H1. cbn [res_bind]. split; [reflexivity|]. simpl. rewrite Hn, H2, H3. split; reflexivity.
  Qed.

  Definition q_init_vi (k : str) : list VInfoP :=
    if should_create (fv k) && negb (in_str (v_name (fv k)) (map vname (g_inputs g))) then [ser_value [] (fv k)] else [].
  Definition q_init_tensor (k : str) : list TensorP :=
    match v_const (fv k) with Some t => [ser_tensor (itensor_set_name t (v_name (fv k)))] | None => [] end.
  Definition q_in_quant (k : str) : list QuantP :=
    if in_str k (map tname (g_inits g)) then [] else ser_quant (fv k).
  Definition q_out_quant (k : str) : list QuantP :=
    if in_str (v_name (fv k)) (map vname (g_inputs g)) || in_str (v_name (fv k)) (map tname (g_inits g))
    then [] else ser_quant (fv k).

  Lemma ser_graph_body_ok inodes :
    Forall2 (node_rel sg irv) (g_nodes g) inodes ->
    exists q nps,
      ser_graph_body sg irv (the_ig inodes) = Ok q
      /\ map (norm_node norm_graph empty_graph) nps = map (norm_node norm_graph empty_graph) (g_nodes g)
      /\ g_name q = truthy (g_name g) /\ g_doc q = truthy (g_doc g)
      /\ g_inputs q = map (fun k => ser_value [] (fv k)) ins
      /\ g_inits q = concat (map q_init_tensor inits)
      /\ g_nodes q = nps
      /\ g_outputs q = map (fun k => ser_value [] (fv k)) outs
      /\ g_vinfo q = concat (map q_init_vi inits)
                     ++ concat (map (fun k => snd (infof k)) (concat (map n_outputs (g_nodes g))))
      /\ g_quant q = concat (map q_in_quant ins) ++ concat (map (fun k => ser_quant (fv k)) inits)
                     ++ concat (map (fun k => fst (infof k)) (concat (map n_outputs (g_nodes g))))
                     ++ concat (map q_out_quant outs)
      /\ g_meta q = ksort (dict_of (g_meta g)).
  Proof.
    intros Hf.
    destruct (ser_nodes_gen inodes (g_nodes g) inodes (fun n H => H) Hf) as (nres & Hn1 & Hn2 & Hn3).
    unfold ser_graph_body. cbn [the_ig ig_values ig_inputs ig_inits ig_nodes ig_outputs ig_name ig_doc ig_meta].
    rewrite (mapM_total _ (fun k => (ser_value [] (fv k), q_in_quant k))).
    2:{ intros k Hk. rewrite (getv_T3 g allow_dev visible W k (in_declared_ins k Hk)). reflexivity. }
    cbn [res_bind].
    rewrite (mapM_total _ (fun k => (ser_quant (fv k), q_init_vi k, q_init_tensor k))).
    2:{ intros k Hk. rewrite (getv_T3 g allow_dev visible W k (in_declared_inits k Hk)). reflexivity. }
    cbn [res_bind].
    change (mapM (fun n => np <- ser_node sg irv n ;; infos <- mapM (outinfo_m inodes) (in_outputs n) ;; Ok (np, infos)) inodes)
      with (mapM (fun n => np <- ser_node sg irv n ;; infos <- mapM (outinfo_m inodes) (in_outputs n) ;; Ok (np, infos)) inodes).
    match goal with |- context [mapM ?f inodes] =>
      change (mapM f inodes) with (mapM (fun n => np <- ser_node sg irv n ;; infos <- mapM (outinfo_m inodes) (in_outputs n) ;; Ok (np, infos)) inodes)
    end.
    rewrite Hn1. cbn [res_bind].
    rewrite (mapM_total _ (fun o => match o with
                                    | OKey k => (ser_value [] (fv k), q_out_quant k)
                                    | OFresh v => (ser_value [] v,
                                        if in_str (v_name v) (map vname (g_inputs g)) || in_str (v_name v) (map tname (g_inits g))
                                        then [] else ser_quant v)
                                    end)).
    2:{ intros o Ho. apply in_map_iff in Ho. destruct Ho as (vi & <- & Hvi).
        rewrite (getv_T3 g allow_dev visible W); [reflexivity|].
        apply (w_outs_decl _ _ _ W). apply in_map. exact Hvi. }
    cbn [res_bind].
    eexists. exists (map fst nres). split; [reflexivity|].
    cbn [g_name g_doc g_inputs g_inits g_nodes g_outputs g_vinfo g_quant g_meta].
    assert (Hflat : concat (map snd nres) = map infof (concat (map n_outputs (g_nodes g)))).
    { rewrite Hn3, concat_map, map_map. reflexivity. }
    split; [exact Hn2|]. split; [reflexivity|]. split; [reflexivity|].
    assert (Hdq : dedup_quant [] (concat (map q_out_quant outs)) = concat (map q_out_quant outs)).
    { apply dedup_quant_id; [|intros q0 _ []].
      apply nodup_names_concat; [|exact (w_outs_nd _ _ _ W)].
      intros k Hk. unfold q_out_quant. destruct (_ || _); [left; reflexivity|].
      unfold ser_quant. destruct (v_quant (fv k)); [left; reflexivity | right].
      simpl. unfold qname. cbn [qa_name dflt]. rewrite (fv_name g k (w_outs_decl _ _ _ W k Hk)). reflexivity. }
    assert (Hdq' : dedup_quant [] (concat (map (fun x : VInfoP => q_out_quant (vname x)) (g_outputs g)))
                   = concat (map (fun x : VInfoP => q_out_quant (vname x)) (g_outputs g))).
    { unfold outs in Hdq. rewrite map_map in Hdq. exact Hdq. }
    rewrite Hflat. unfold ins, inits, outs. rewrite !map_map. cbn [fst snd]. rewrite Hdq'.
    repeat split; reflexivity.
  Qed.
End GraphSer.

(* graph stage, part 8: the value-info list of the round-tripped graph has the same normal form *)
From Coq Require Import ZArith NArith List Bool Lia.
From IRV Require Import Base.Exn Gen.C02Gen C02.Model C02.Model2 C02.Norm C02.Proofs1 C02.Proofs2 C02.Proofs3.
From IRV Require Import C02.ProofsG1 C02.ProofsG2 C02.ProofsG3 C02.ProofsG4 C02.ProofsG5 C02.ProofsG6 C02.ProofsG7.
Import ListNotations.
Open Scope Z_scope.

(* ------------------------------------------------------------------ list lemmas *)
Lemma filter_concat {A} (f : A -> bool) (ll : list (list A)) :
  filter f (concat ll) = concat (map (filter f) ll).
Proof. induction ll as [|l r IH]; simpl; [reflexivity|]. rewrite filter_app, IH. reflexivity. Qed.

Lemma filter_key_all {B} (key : B -> str) k (l : list B) :
  (forall b, In b l -> key b = k) -> filter (fun b => str_eqb (key b) k) l = l.
Proof.
  intros H. induction l as [|b r IH]; simpl; [reflexivity|].
  rewrite (H b (or_introl eq_refl)), str_eqb_refl, IH; [reflexivity|]. intros x Hx. apply H. right. exact Hx.
Qed.
Lemma filter_key_none {B} (key : B -> str) k w (l : list B) :
  w <> k -> (forall b, In b l -> key b = w) -> filter (fun b => str_eqb (key b) k) l = [].
Proof.
  intros Hne H. induction l as [|b r IH]; simpl; [reflexivity|].
  rewrite (H b (or_introl eq_refl)). apply str_eqb_neq in Hne. rewrite Hne. apply IH. intros x Hx. apply H. right. exact Hx.
Qed.

Lemma filter_keyed_concat {B} (key : B -> str) (h : str -> list B) L k :
  (forall w b, In w L -> In b (h w) -> key b = w) -> NoDup L ->
  filter (fun b => str_eqb (key b) k) (concat (map h L)) = if in_str k L then h k else [].
Proof.
  intros Hk Hn. induction L as [|w r IH]; simpl; [reflexivity|].
  inversion Hn; subst. rewrite filter_app.
  destruct (str_eqb k w) eqn:E.
  - apply str_eqb_eq in E. subst w. simpl.
    rewrite (filter_key_all key k (h k)) by (intros b Hb; apply (Hk k b); [left; reflexivity | exact Hb]).
    rewrite IH; [|intros w b Hw; apply Hk; right; exact Hw | assumption].
    assert (Hni : in_str k r = false) by (apply in_str_false; assumption). rewrite Hni, app_nil_r. reflexivity.
  - simpl. rewrite (filter_key_none key k w (h w)).
    + simpl. apply IH; [intros w' b Hw; apply Hk; right; exact Hw | assumption].
    + apply str_eqb_neq in E. congruence.
    + intros b Hb. apply (Hk w b); [left; reflexivity | exact Hb].
Qed.

Lemma concat_map_skip {A B} (f : A -> bool) (h : A -> list B) l :
  (forall x, f x = false -> h x = []) -> concat (map h l) = concat (map h (filter f l)).
Proof.
  intros H. induction l as [|x r IH]; simpl; [reflexivity|].
  destruct (f x) eqn:E; simpl; [rewrite IH; reflexivity | rewrite (H x E), IH; reflexivity].
Qed.

Lemma concat_map_single {A B} (h : A -> B) l : concat (map (fun x => [h x]) l) = map h l.
Proof. induction l as [|x r IH]; simpl; [reflexivity | rewrite IH; reflexivity]. Qed.

Lemma filter_nonempty_trim l : filter nonempty (trim_outputs l) = filter nonempty l.
Proof.
  induction l as [|x r IH]; simpl; [reflexivity|].
  destruct (trim_outputs r) as [|y r'] eqn:E.
  - simpl in IH. destruct x as [|c x]; simpl; rewrite <- IH; reflexivity.
  - simpl. rewrite <- IH. reflexivity.
Qed.

Lemma vname_norm vi : vname (norm_vinfo vi) = vname vi.
Proof. unfold vname, norm_vinfo. cbn [vi_name]. destruct (vi_name vi) as [[|c s]|]; reflexivity. Qed.
Lemma vname_ser_value v : vname (ser_value [] v) = v_name v.
Proof. reflexivity. Qed.

(* informative entries of a list with unique names *)
Lemma informative_lookup l k :
  NoDup (map vname l) ->
  filter (fun vi => str_eqb (vname vi) k) (filter has_info (map norm_vinfo l))
  = match lookup k (map (fun vi => (vname vi, vi)) l) with
    | Some e => filter has_info [norm_vinfo e]
    | None => []
    end.
Proof.
  induction l as [|e r IH]; intros Hn; simpl; [reflexivity|].
  inversion Hn; subst. specialize (IH H2).
  destruct (str_eqb k (vname e)) eqn:E.
  - apply str_eqb_eq in E. subst k.
    assert (Hr : lookup (vname e) (map (fun vi => (vname vi, vi)) r) = None) by (apply lookup_keyed_none; exact H1).
    rewrite Hr in IH.
    destruct (has_info (norm_vinfo e)); simpl; [rewrite vname_norm, str_eqb_refl, IH; reflexivity | exact IH].
  - destruct (has_info (norm_vinfo e)); simpl; [|exact IH].
    rewrite vname_norm, str_eqb_sym, E. exact IH.
Qed.

(* norm_vinfos only reads name, element type and dims of the initializers *)
Lemma norm_vinfos_inits (X : TensorP -> TensorP) order l V :
  (forall t, In t l -> tname (X t) = tname t /\ dflt 0 (t_dtype (X t)) = dflt 0 (t_dtype t) /\ t_dims (X t) = t_dims t) ->
  norm_vinfos order (map X l) V = norm_vinfos order l V.
Proof.
  intros H. unfold norm_vinfos. f_equal. apply map_ext. intros k.
  assert (Hl : lookup k (map (fun t => (tname t, t)) (map X l))
               = option_map X (lookup k (map (fun t => (tname t, t)) l))).
  { clear - H. induction l as [|t r IH]; simpl; [reflexivity|].
    destruct (H t (or_introl eq_refl)) as (Hn & _). rewrite Hn.
    destruct (str_eqb k (tname t)); [reflexivity|]. apply IH. intros t' Ht'. apply H. right. exact Ht'. }
  rewrite Hl. destruct (lookup k (map (fun t => (tname t, t)) l)) as [t|] eqn:E; cbn [option_map]; [|reflexivity].
  apply lookup_keyed_in in E. destruct E as [Hin _]. destruct (H t Hin) as (Hn & Hd & Hdims).
  assert (Hdef : default_vinfo (X t) = default_vinfo t) by (unfold default_vinfo; rewrite Hn, Hd, Hdims; reflexivity).
  assert (Hc : forall e, complete_vinfo (X t) e = complete_vinfo t e)
    by (intros e; unfold complete_vinfo, tensor_dims; rewrite Hd, Hdims; reflexivity).
  rewrite Hdef. destruct (filter _ _); [reflexivity|]. apply map_ext. exact Hc.
Qed.

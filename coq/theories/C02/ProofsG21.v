(* IR < 10: function values typed by main-graph value-info entries "{domain}::{function}/{value}"
   (function level: deserialize_function, then the experimental lookup, then serialize_function_into
   without value_info + the entries written back for the main graph) *)
From Coq Require Import ZArith NArith List Bool Lia PeanoNat.
From IRV Require Import Base.Exn Gen.C02Gen C02.Model C02.Model2 C02.Norm C02.Proofs1 C02.Proofs2 C02.Proofs3.
From IRV Require Import C02.ProofsFuel C02.ProofsG1 C02.ProofsG2 C02.ProofsG3 C02.ProofsG4 C02.ProofsG5 C02.ProofsG7
     C02.ProofsG8 C02.ProofsG9 C02.ProofsG13 C02.ProofsG15 C02.ProofsG16 C02.ProofsG17.
Import ListNotations.
Open Scope Z_scope.

(* ------------------------------------------------------------------ the fold of apply_exp_fn *)
Definition exp_step (mp : list (str * VInfoP)) (tbl : scope) (k : str) : res scope :=
  match lookup k mp, lookup k tbl with
  | Some vi, Some v => v' <- apply_info vi v ;; Ok (dset k v' tbl)
  | _, _ => Ok tbl
  end.

Lemma exp_fold mp :
  (forall k e, lookup k mp = Some e -> wf_vinfo e = true) ->
  forall keys T, NoDup (filter nonempty keys) -> lookup [] T = None ->
  exists T', foldM (exp_step mp) keys T = Ok T' /\
    forall k, lookup k T' = if in_str k (filter nonempty keys)
                            then match lookup k mp, lookup k T with
                                 | Some e, Some v => Some (ainfo e v)
                                 | _, o => o
                                 end
                            else lookup k T.
Proof.
  intros Hwf. induction keys as [|x r IH]; intros T Hn H0.
  - exists T. split; [reflexivity|]. intros k. reflexivity.
  - rewrite foldM_cons. destruct x as [|c x].
    + unfold exp_step at 1. rewrite H0.
      assert (E : match lookup [] mp with Some _ => Ok T | None => Ok T end = Ok T) by (destruct (lookup [] mp); reflexivity).
      rewrite E. cbn [res_bind]. simpl filter in *. apply IH; assumption.
    + simpl filter in Hn. inversion Hn as [|y l Hni Hnd]; subst. simpl filter.
      assert (Hcase : exists T1, exp_step mp T (c :: x) = Ok T1 /\ lookup [] T1 = None /\
                        (forall k, lookup k T1 = if str_eqb k (c :: x)
                                                 then match lookup k mp, lookup k T with
                                                      | Some e, Some v => Some (ainfo e v) | _, o => o end
                                                 else lookup k T)).
      { unfold exp_step. destruct (lookup (c :: x) mp) as [e|] eqn:Em; destruct (lookup (c :: x) T) as [v|] eqn:Et.
        - rewrite (apply_info_total e v (Hwf _ _ Em)). cbn [res_bind]. eexists. split; [reflexivity|].
          split; [rewrite lookup_dset; simpl; exact H0|].
          intros k. rewrite lookup_dset. destruct (str_eqb k (c :: x)) eqn:E; [|reflexivity].
          apply str_eqb_eq in E. subst k. rewrite Em, Et. reflexivity.
        - exists T. split; [reflexivity|]. split; [exact H0|]. intros k. destruct (str_eqb k (c :: x)) eqn:E; [|reflexivity].
          apply str_eqb_eq in E. subst k. rewrite Em, Et. reflexivity.
        - exists T. split; [reflexivity|]. split; [exact H0|]. intros k. destruct (str_eqb k (c :: x)) eqn:E; [|reflexivity].
          apply str_eqb_eq in E. subst k. rewrite Em, Et. reflexivity.
        - exists T. split; [reflexivity|]. split; [exact H0|]. intros k. destruct (str_eqb k (c :: x)) eqn:E; [|reflexivity].
          apply str_eqb_eq in E. subst k. rewrite Em, Et. reflexivity. }
      destruct Hcase as (T1 & Hs & H01 & HT1). rewrite Hs. cbn [res_bind].
      destruct (IH T1 Hnd H01) as (T' & Hf & HT'). exists T'. split; [exact Hf|].
      intros k. rewrite (HT' k). cbn [in_str existsb]. fold (in_str k (filter nonempty r)).
      destruct (str_eqb k (c :: x)) eqn:E.
      * apply str_eqb_eq in E. subst k. assert (Hni' : in_str (c :: x) (filter nonempty r) = false) by (apply in_str_false; exact Hni).
        rewrite Hni'. cbn [orb]. rewrite (HT1 (c :: x)), str_eqb_refl. reflexivity.
      * cbn [orb]. rewrite (HT1 k), E. reflexivity.
Qed.

(* ------------------------------------------------------------------ the serializer reads the table by lookups *)
Lemma ser_function_gen_table fuel create irvo d nm ov a b c e ins its nodes outs attrs (T1 T2 : scope) :
  (forall k, lookup k T1 = lookup k T2) ->
  ser_function_gen fuel create irvo (mkIFunction d nm ov (mkIGraph a b c e ins its nodes outs T1) attrs)
  = ser_function_gen fuel create irvo (mkIFunction d nm ov (mkIGraph a b c e ins its nodes outs T2) attrs).
Proof.
  intros H. assert (Hg : forall k, getv T1 k = getv T2 k) by (intros k; unfold getv; rewrite H; reflexivity).
  unfold ser_function_gen.
  cbn [if_graph if_attrs if_domain if_name if_overload ig_values ig_inputs ig_outputs ig_nodes ig_doc ig_opsets ig_meta].
  rewrite (mapM_ext_in (getv T1) (getv T2) ins) by (intros k _; apply Hg).
  apply res_bind_ext. intros ins0. apply res_bind_ext. intros attrs0.
  rewrite (mapM_ext_in _ (fun o => match o with OKey k => v <- getv T2 k ;; Ok (v_name v) | OFresh v => Ok (v_name v) end) outs)
    by (intros o _; destruct o; rewrite ?Hg; reflexivity).
  apply res_bind_ext. intros outs0.
  rewrite (mapM_ext_in _ (fun n => np <- ser_node (ser_graph fuel irvo) irvo n ;;
                    vs <- mapM (fun k => match k with [] => Ok [] | _ => v <- getv T2 k ;; Ok [v] end) (in_outputs n) ;;
                    Ok (np, filter should_create (concat vs))) nodes).
  - reflexivity.
  - intros n _. apply res_bind_ext. intros np. apply res_bind_cong. apply mapM_ext_in. intros k _.
    destruct k; [reflexivity | rewrite Hg; reflexivity].
Qed.

(* ------------------------------------------------------------------ the function with the entries as its own value_info *)
Definition pprefix (f : FunctionP) : str := dflt [] (f_domain f) ++ [58; 58]%N ++ dflt [] (f_name f) ++ [47]%N.
Definition exp_pairs (vinfos : list VInfoP) (f : FunctionP) : list (str * VInfoP) :=
  concat (map (fun vi => match strip_prefix (pprefix f) (dflt [] (vi_name vi)) with
                         | Some v => [(v, vi)]
                         | None => []
                         end) vinfos).
Definition rename (kv : str * VInfoP) : VInfoP :=
  mkVInfoP (Some (fst kv)) (vi_type (snd kv)) (vi_doc (snd kv)) (vi_meta (snd kv)).
Definition with_vinfo (f : FunctionP) (l : list VInfoP) : FunctionP :=
  mkFunctionP (f_name f) (f_domain f) (f_overload f) (f_doc f) (f_inputs f) (f_outputs f) (f_attr f)
              (f_attr_protos f) (f_nodes f) (f_opsets f) l (f_meta f).

Lemma ainfo_rename kv v : ainfo (rename kv) v = ainfo (snd kv) v.
Proof. reflexivity. Qed.

Lemma FT1_lookup_none f allow_dev allow_vinfo (W : wff_props allow_dev allow_vinfo f) k :
  ~ In k (f_inputs f ++ node_out_names (f_nodes f)) -> lookup k (FT1 f) = None.
Proof.
  intros H. unfold FT1. rewrite (fold_table (fun x : str => x) (fun x _ => out_new (vinfo_dict (f_vinfo f)) [] x)).
  2:{ rewrite map_id. exact (f_nouts_nd _ _ _ W). }
  rewrite lookup_self.
  assert (E1 : in_str k (node_out_names (f_nodes f)) = false)
    by (apply in_str_false; intros Hc; apply H; apply in_or_app; right; exact Hc).
  rewrite E1. unfold FT0. rewrite lookup_id_map.
  assert (E2 : in_str k (f_inputs f) = false)
    by (apply in_str_false; intros Hc; apply H; apply in_or_app; left; exact Hc).
  rewrite E2. reflexivity.
Qed.

Lemma wf_function_with_vinfo allow_dev f (mp : list (str * VInfoP)) :
  wf_function allow_dev false f = true ->
  NoDup (map fst mp) -> (forall k, In k (map fst mp) -> k <> []) ->
  (forall kv, In kv mp -> wf_vinfo (snd kv) = true) ->
  wf_function allow_dev true (with_vinfo f (map rename mp)) = true.
Proof.
  intros H Hn He Hw. unfold wf_function in *. cbv zeta in *.
  cbn [with_vinfo f_name f_domain f_overload f_doc f_inputs f_outputs f_attr f_attr_protos f_nodes f_opsets f_vinfo f_meta].
  split_andb H. rewrite H, H12, H11, H10, H9, H8, H7, H2, H1, H0. cbn [orb andb].
  assert (Ev : map vname (map rename mp) = map fst mp) by (rewrite map_map; apply map_ext; intros kv; reflexivity).
  rewrite Ev.
  assert (E1 : nodup_str (map fst mp) = true) by (apply nodup_str_NoDup; exact Hn).
  assert (E2 : forallb nonempty (map fst mp) = true).
  { apply forallb_forall. intros k Hk. specialize (He k Hk). destruct k; [contradiction | reflexivity]. }
  assert (E3 : forallb wf_vinfo (map rename mp) = true).
  { apply forallb_forall. intros vi Hvi. apply in_map_iff in Hvi. destruct Hvi as (kv & <- & Hkv). exact (Hw kv Hkv). }
  rewrite E1, E2, E3. reflexivity.
Qed.

Lemma lookup_rename_dict (mp : list (str * VInfoP)) k :
  NoDup (map fst mp) ->
  lookup k (vinfo_dict (map rename mp)) = option_map (fun e => rename (k, e)) (lookup k mp).
Proof.
  intros Hn. unfold vinfo_dict. rewrite dict_of_nodup.
  2:{ unfold wf_dict. rewrite !map_map. simpl. apply nodup_str_NoDup. exact Hn. }
  rewrite map_map. simpl. clear Hn. induction mp as [|[k0 e0] r IH]; simpl; [reflexivity|].
  destruct (str_eqb k k0) eqn:E; [apply str_eqb_eq in E; subst; reflexivity | exact IH].
Qed.

Lemma filter_nonempty_inputs (ins outs : list str) :
  (forall k, In k ins -> k <> []) -> filter nonempty (ins ++ outs) = ins ++ filter nonempty outs.
Proof.
  intros H. rewrite filter_app. f_equal. apply filter_all. apply forallb_forall. intros k Hk.
  specialize (H k Hk). destruct k; [contradiction | reflexivity].
Qed.

Theorem function_experimental_ir9 (f : FunctionP) allow_dev irvo (n fuel' : nat) (vinfos : list VInfoP) :
  wf_function allow_dev false f = true ->
  (fdepth f <= S n)%nat -> (S n <= fuel')%nat -> irv_allows allow_dev irvo ->
  NoDup (map fst (exp_pairs vinfos f)) ->
  (forall k, In k (map fst (exp_pairs vinfos f)) -> k <> []) ->
  (forall kv, In kv (exp_pairs vinfos f) -> wf_vinfo (snd kv) = true) ->
  exists fn fn' q extra,
    deser_function (S n) f = Ok fn
    /\ apply_exp_fn vinfos fn = Ok fn'
    /\ ser_function_gen fuel' false irvo fn' = Ok (q, extra)
    /\ norm_function q = norm_function f
    /\ map norm_vinfo extra
       = concat (map (fun k => match lookup k (exp_pairs vinfos f) with
                               | Some e => filter has_info [norm_vinfo (mkVInfoP (Some (pprefix f ++ k)) (vi_type e) (vi_doc e) (vi_meta e))]
                               | None => []
                               end) (f_inputs f ++ node_out_names (f_nodes f))).
Proof.
  intros Hwf Hd Hfuel Hirv Hpn Hpe Hpw.
  set (mp := exp_pairs vinfos f) in *.
  pose proof (wf_function_unpack _ _ _ Hwf) as W.
  assert (Hv0 : f_vinfo f = []) by (apply (f_vinfo_allowed _ _ _ W); reflexivity).
  set (f' := with_vinfo f (map rename mp)).
  pose proof (wf_function_with_vinfo allow_dev f mp Hwf Hpn Hpe Hpw) as Hwf'. fold f' in Hwf'.
  pose proof (wf_function_unpack _ _ _ Hwf') as W'.
  destruct (f_nodes_phase f allow_dev false irvo n fuel' Hwf Hd Hfuel Hirv) as (inodes & Hn & HF).
  destruct (f_attrs_phase f allow_dev false n fuel' Hwf Hd Hfuel) as (ias & Ha & Hnames & Hval & l' & Hser & Hnorm).
  pose proof (deser_function_ok f allow_dev false n Hwf inodes ias Hn Ha Hnames) as Hdes.
  (* values of the two tables *)
  assert (Hfvf : forall k, fvf f k = new_value k).
  { intros k. unfold fvf, minfo. rewrite Hv0. reflexivity. }
  assert (Hfvf' : forall k, fvf f' k = match lookup k mp with Some e => ainfo e (new_value k) | None => new_value k end).
  { intros k. unfold fvf, minfo. unfold f' at 1. cbn [with_vinfo f_vinfo]. rewrite (lookup_rename_dict mp k Hpn).
    destruct (lookup k mp); reflexivity. }
  (* the experimental lookup *)
  assert (Hkeys : filter nonempty (f_inputs f ++ concat (map (fun nd : INode IGraph => in_outputs nd) inodes))
                  = f_inputs f ++ node_out_names (f_nodes f)).
  { rewrite (filter_nonempty_inputs _ _ (f_ins_ne _ _ _ W)). f_equal. unfold node_out_names. f_equal. f_equal.
    clear - HF. induction HF as [|nd i r r' Hr HF IH]; simpl; [reflexivity|]. destruct Hr as [Ho _]. rewrite Ho, IH. reflexivity. }
  assert (Hexp : exists T', apply_exp_fn vinfos (the_fn f inodes ias)
                            = Ok (mkIFunction (dflt [] (f_domain f)) (dflt [] (f_name f)) (dflt [] (f_overload f))
                                   (mkIGraph None (f_doc f) (dict_of (f_meta f)) (dict_of (f_opsets f)) (f_inputs f) []
                                             inodes (map OKey (f_outputs f)) T')
                                   (ias ++ undefs f))
                       /\ forall k, lookup k T' = lookup k (FT1 f')).
  { assert (Hent : exp_entries vinfos (the_fn f inodes ias) = mp).
    { unfold exp_entries. change (exp_prefix (the_fn f inodes ias)) with (pprefix f). fold (exp_pairs vinfos f). fold mp.
      apply dict_of_nodup. unfold wf_dict. apply nodup_str_NoDup. exact Hpn. }
    assert (Hlk : forall T', (forall k, lookup k T' = if in_str k (f_inputs f ++ node_out_names (f_nodes f))
                                                      then match lookup k mp, lookup k (FT1 f) with
                                                           | Some e, Some v => Some (ainfo e v) | _, o => o end
                                                      else lookup k (FT1 f)) ->
                             forall k, lookup k T' = lookup k (FT1 f')).
    { intros T' HT' k. rewrite (HT' k). destruct (in_str k (f_inputs f ++ node_out_names (f_nodes f))) eqn:Ei.
      - apply in_str_In in Ei. rewrite (FT1_lookup f allow_dev false W k Ei).
        rewrite (FT1_lookup f' allow_dev true W' k Ei), Hfvf', Hfvf. destruct (lookup k mp); reflexivity.
      - apply in_str_false in Ei. rewrite (FT1_lookup_none f allow_dev false W k Ei).
        symmetry. exact (FT1_lookup_none f' allow_dev true W' k Ei). }
    unfold apply_exp_fn. rewrite Hent. destruct mp as [|p0 mp0] eqn:Emp.
    - exists (FT1 f). split; [reflexivity|]. apply Hlk. intros k.
      destruct (in_str k (f_inputs f ++ node_out_names (f_nodes f))); reflexivity.
    - rewrite <- Emp in *. cbn [the_fn if_graph ig_inputs ig_nodes ig_values if_domain if_name if_overload if_attrs
                                  ig_name ig_doc ig_meta ig_opsets ig_inits ig_outputs].
      destruct (exp_fold mp) with (keys := f_inputs f ++ concat (map (fun nd : INode IGraph => in_outputs nd) inodes)) (T := FT1 f)
        as (T' & Hfold & HT').
      + intros k e Hl. assert (Hin : In (k, e) mp).
        { clear - Hl. induction mp as [|[k0 e0] r IH]; simpl in *; [discriminate|].
          destruct (str_eqb k k0) eqn:E; [apply str_eqb_eq in E; inversion Hl; subst; left; reflexivity | right; apply IH; exact Hl]. }
        exact (Hpw (k, e) Hin).
      + rewrite Hkeys. exact (decl_nodup f allow_dev false Hwf).
      + apply (FT1_lookup_none f allow_dev false W). intros Hc. exact (decl_ne f allow_dev false Hwf [] Hc eq_refl).
      + change (fun tbl k => match lookup k mp, lookup k tbl with
                             | Some vi, Some v => v' <- apply_info vi v ;; Ok (dset k v' tbl)
                             | _, _ => Ok tbl end) with (exp_step mp).
        rewrite Hfold. cbn [res_bind]. exists T'. split; [reflexivity|]. apply Hlk. intros k. rewrite (HT' k), Hkeys. reflexivity. }
  destruct Hexp as (T' & Hap & HTeq).
  (* serialization, through the function whose own value_info are the entries *)
  assert (HF' : Forall2 (node_rel (ser_graph fuel' irvo) irvo) (f_nodes f') inodes) by exact HF.
  destruct (ser_function_ok f' allow_dev true irvo fuel' Hwf' false inodes ias l' HF' Hval Hser) as (nps & Hnps & Hs).
  assert (Hs' : ser_function_gen fuel' false irvo
                  (mkIFunction (dflt [] (f_domain f)) (dflt [] (f_name f)) (dflt [] (f_overload f))
                     (mkIGraph None (f_doc f) (dict_of (f_meta f)) (dict_of (f_opsets f)) (f_inputs f) []
                               inodes (map OKey (f_outputs f)) T') (ias ++ undefs f))
                = ser_function_gen fuel' false irvo (the_fn f' inodes ias)).
  { apply ser_function_gen_table. exact HTeq. }
  eexists. eexists. eexists. eexists. split; [exact Hdes|]. split; [exact Hap|]. split; [rewrite Hs'; exact Hs|].
  split.
  - (* the function proto itself *)
    unfold norm_function. cbn [f' with_vinfo f_name f_domain f_overload f_doc f_inputs f_outputs f_attr f_attr_protos f_nodes f_opsets f_vinfo f_meta].
    rewrite !truthy_truthy_s, !truthy_some_dflt, truthy_idem, Hnorm, Hnps.
    rewrite (node_out_names_norm nps (f_nodes f) Hnps).
    rewrite (dict_of_nodup _ (f_opsets_wf _ _ _ W)), (ksort_dict_of _ (f_meta_wf _ _ _ W)), Hv0. reflexivity.
  - (* the entries written back for the main graph *)
    unfold info_values. cbn [f' with_vinfo f_inputs f_nodes f_domain f_name].
    rewrite map_map, (map_filter_concat should_create), map_map.
    f_equal. apply map_ext_in. intros k Hk. rewrite Hfvf'.
    assert (Hkne : k <> []) by (exact (decl_ne f allow_dev false Hwf k Hk)).
    destruct (lookup k mp) as [e|] eqn:El; [|reflexivity].
    assert (Hwe : wf_vinfo e = true).
    { assert (Hin : In (k, e) mp).
      { clear - El. induction mp as [|[k0 e0] r IH]; simpl in *; [discriminate|].
        destruct (str_eqb k k0) eqn:E; [apply str_eqb_eq in E; inversion El; subst; left; reflexivity | right; apply IH; exact El]. }
      exact (Hpw (k, e) Hin). }
    rewrite (should_create_ainfo e k Hwe Hkne).
    assert (Hhi : has_info (norm_vinfo (mkVInfoP (Some (pprefix f ++ k)) (vi_type e) (vi_doc e) (vi_meta e))) = has_info (norm_vinfo e))
      by reflexivity.
    cbn [filter]. rewrite Hhi. destruct (has_info (norm_vinfo e)); [|reflexivity].
    cbn [map]. f_equal. cbn [v_name ainfo new_value].
    rewrite (ainfo_info e (new_value k) Hwe eq_refl). unfold pprefix.
    destruct (dflt [] (f_domain f) ++ [58%N; 58%N] ++ dflt [] (f_name f) ++ [47%N]) eqn:Eq.
    + exfalso. destruct (dflt [] (f_domain f)); discriminate.
    + reflexivity.
Qed.

(* model stage *)
From Coq Require Import ZArith NArith List Bool Lia PeanoNat Permutation.
From IRV Require Import Base.Exn Gen.C02Gen C02.Model C02.Model2 C02.Norm C02.Proofs1 C02.Proofs2 C02.Proofs3.
From IRV Require Import C02.ProofsG1 C02.ProofsG2 C02.ProofsG3 C02.ProofsG4 C02.ProofsG5 C02.ProofsG6 C02.ProofsG7 C02.ProofsG8 C02.ProofsG9 C02.ProofsG10 C02.ProofsG11 C02.ProofsG12 C02.ProofsG13 C02.ProofsG14 C02.ProofsG15 C02.ProofsG16 C02.ProofsG17 C02.ProofsFuel C02.ProofsDepth.
Import ListNotations.
Open Scope Z_scope.

Lemma fkey_eqb_eq a b : fkey_eqb a b = true <-> a = b.
Proof.
  destruct a as [[a1 a2] a3], b as [[b1 b2] b3]. unfold fkey_eqb. simpl. split.
  - intros H. apply andb_prop in H. destruct H as [H H3]. apply andb_prop in H. destruct H as [H1 H2].
    apply str_eqb_eq in H1, H2, H3. congruence.
  - intros H. inversion H; subst. rewrite !str_eqb_refl. reflexivity.
Qed.

Fixpoint func_put (a : IFunction) (d : list IFunction) : list IFunction :=
  match d with
  | [] => [a]
  | b :: d' => if fkey_eqb (fkey a) (fkey b) then a :: d' else b :: func_put a d'
  end.
Lemma funcs_dict_unfold acc a r : funcs_dict acc (a :: r) = funcs_dict (func_put a acc) r.
Proof.
  simpl. f_equal. induction acc as [|b d IH]; simpl; [reflexivity|].
  destruct (fkey_eqb (fkey a) (fkey b)); [reflexivity | rewrite IH; reflexivity].
Qed.
Lemma func_put_fresh a d : ~ In (fkey a) (map fkey d) -> func_put a d = d ++ [a].
Proof.
  induction d as [|b d' IH]; simpl; intros H; [reflexivity|].
  destruct (fkey_eqb (fkey a) (fkey b)) eqn:E.
  - apply fkey_eqb_eq in E. exfalso. apply H. left. congruence.
  - rewrite IH; [reflexivity|]. intros Hin. apply H. right. exact Hin.
Qed.
Lemma funcs_dict_nodup l acc : NoDup (map fkey (acc ++ l)) -> funcs_dict acc l = acc ++ l.
Proof.
  revert acc. induction l as [|a r IH]; intros acc H.
  - simpl. rewrite app_nil_r. reflexivity.
  - rewrite funcs_dict_unfold, func_put_fresh.
    + rewrite IH; rewrite <- app_assoc; [reflexivity | exact H].
    + rewrite map_app in H. simpl in H. apply NoDup_remove_2 in H.
      intros Hin. apply H. apply in_or_app. left. exact Hin.
Qed.
Lemma nodup_fid_NoDup l : nodup_fid l = true -> NoDup l.
Proof.
  induction l as [|x r IH]; simpl; intros H; [constructor|].
  apply andb_prop in H. destruct H as [H1 H2]. constructor; [|apply IH; exact H2].
  intros Hin. apply negb_true_iff in H1. assert (Ht : existsb (fkey_eqb x) r = true).
  { apply existsb_exists. exists x. split; [exact Hin | apply fkey_eqb_eq; reflexivity]. }
  congruence.
Qed.

Lemma deser_function_key fuel f fn : deser_function fuel f = Ok fn -> fkey fn = fident f.
Proof.
  unfold deser_function. intros H.
  destruct (negb (nodup_str (f_inputs f))); [discriminate|].
  repeat (apply bind_ok in H; destruct H as (? & _ & H)).
  inversion H; subst. reflexivity.
Qed.

Lemma ser_graph_opsets fuel irv ig ops :
  ser_graph fuel irv (mkIGraph (ig_name ig) (ig_doc ig) (ig_meta ig) ops (ig_inputs ig) (ig_inits ig)
                               (ig_nodes ig) (ig_outputs ig) (ig_values ig))
  = ser_graph fuel irv ig.
Proof. destruct fuel; [reflexivity|]. destruct ig. reflexivity. Qed.

Lemma graph_eta g :
  mkGraphP (g_name g) (g_doc g) (g_inputs g) (g_inits g) (g_nodes g) (g_outputs g) (g_vinfo g ++ []) (g_quant g) (g_meta g) = g.
Proof. destruct g. simpl. rewrite app_nil_r. reflexivity. Qed.

Lemma truthy_z_idem o :
  match (match o with Some z => truthy_z z | None => None end) with Some z => truthy_z z | None => None end
  = match o with Some z => truthy_z z | None => None end.
Proof.
  destruct o as [z|]; [|reflexivity]. unfold truthy_z. destruct (z =? 0) eqn:E; [reflexivity|]. rewrite E. reflexivity.
Qed.

Lemma strip_prefix_app p : forall s r, strip_prefix p s = Some r -> s = p ++ r.
Proof.
  induction p as [|c p IH]; intros s r H; simpl in *; [inversion H; reflexivity|].
  destruct s as [|c' s']; [discriminate|]. destruct (c =? c')%N eqn:E; [|discriminate].
  apply N.eqb_eq in E. subst c'. rewrite (IH s' r H). reflexivity.
Qed.
Lemma has_slash_app a b : has_slash (a ++ b) = has_slash a || has_slash b.
Proof. unfold has_slash. apply existsb_app. Qed.
Lemma exp_entries_none vinfos f :
  existsb (fun vi => has_slash (vname vi)) vinfos = false -> exp_entries vinfos f = [].
Proof.
  intros H. unfold exp_entries.
  assert (E : concat (map (fun vi => match strip_prefix (exp_prefix f) (dflt [] (vi_name vi)) with
                                     | Some v => [(v, vi)]
                                     | None => []
                                     end) vinfos) = []).
  { induction vinfos as [|vi r IH]; [reflexivity|]. simpl in H. apply orb_false_elim in H. destruct H as [H1 H2].
    simpl. destruct (strip_prefix (exp_prefix f) (dflt [] (vi_name vi))) as [v|] eqn:Es.
    - exfalso. apply strip_prefix_app in Es. unfold vname in H1. rewrite Es in H1.
      unfold exp_prefix in H1. rewrite !has_slash_app in H1.
      change (has_slash [47%N]) with true in H1. rewrite !orb_true_r in H1. simpl in H1. discriminate.
    - simpl. apply IH. exact H2. }
  rewrite E. reflexivity.
Qed.
Lemma apply_exp_all_none vinfos fns :
  existsb (fun vi => has_slash (vname vi)) vinfos = false -> mapM (apply_exp_fn vinfos) fns = Ok fns.
Proof.
  intros H. induction fns as [|f r IH]; [reflexivity|].
  rewrite mapM_cons. unfold apply_exp_fn at 1. rewrite (exp_entries_none vinfos f H). cbn [res_bind].
  rewrite IH. reflexivity.
Qed.

Section ModelRT.
  Variable m : ModelP.
  Hypothesis Hwf : wf_model m = true.

  Let irv := dflt 0 (m_irv m).
  Let dev := MULTI_DEVICE_SUPPORTED_VERSION <=? irv.
  Let fvi := FUNCTION_VALUE_INFO_SUPPORTED_VERSION <=? irv.
  Let N := mdepth m.

  Lemma wfm_parts :
    (3 <=? irv) = true /\ (irv <=? 13) = true /\ wf_dict (m_opsets m) = true /\ wf_dict (m_meta m) = true
    /\ (dev || negb (nonempty (m_conf m))) = true /\ wf_graph dev [] (m_graph m) = true
    /\ nodup_fid (map fident (m_funcs m)) = true /\ forallb (wf_function dev fvi) (m_funcs m) = true
    /\ (fvi || negb (nonempty (m_funcs m)) || negb (existsb (fun vi => has_slash (vname vi)) (g_vinfo (m_graph m)))) = true.
  Proof. pose proof Hwf as H. unfold wf_model in H. cbv zeta in H. fold irv dev fvi in H. split_andb H. repeat split; assumption. Qed.

  Lemma irv_dev : irv_allows dev (Some irv).
  Proof. unfold irv_allows, dev. intros H. apply Z.leb_le in H. apply Z.ltb_ge. exact H. Qed.

  Lemma funcs_phase :
    exists fns qs,
      mapM (deser_function (S N)) (m_funcs m) = Ok fns
      /\ map fkey fns = map fident (m_funcs m)
      /\ mapM (ser_function (S (S N)) irv) fns = Ok (map (fun q => (q, @nil VInfoP)) qs)
      /\ map norm_function qs = map norm_function (m_funcs m).
  Proof.
    destruct wfm_parts as (_ & _ & _ & _ & _ & _ & _ & Hfs & _).
    assert (Hdep : forall f, In f (m_funcs m) -> (fdepth f <= S N)%nat).
    { intros f Hf. unfold N, mdepth. etransitivity; [apply in_le_list_max; apply in_map; exact Hf|]. lia. }
    revert Hfs Hdep. induction (m_funcs m) as [|f r IH]; intros Hfs Hdep.
    - exists [], []. repeat split.
    - simpl in Hfs. apply andb_prop in Hfs. destruct Hfs as [Hf Hr].
      destruct IH as (fns & qs & H1 & H2 & H3 & H4); [exact Hr | intros f0 Hf0; apply Hdep; right; exact Hf0 |].
      destruct (function_roundtrip_fuel f dev fvi (Some irv) N (S (S N)) Hf (Hdep f (or_introl eq_refl))
                  (le_S _ _ (le_n _)) irv_dev) as (fn & Hd & q & Hs & Hn).
      change (ser_function_gen (S (S N)) fvi (Some irv) fn) with (ser_function (S (S N)) irv fn) in Hs.
      exists (fn :: fns), (q :: qs).
      rewrite mapM_cons, Hd. cbn [res_bind]. rewrite H1. cbn [res_bind]. split; [reflexivity|].
      split; [simpl; rewrite (deser_function_key _ _ _ Hd), H2; reflexivity|].
      rewrite mapM_cons, Hs. cbn [res_bind]. rewrite H3. cbn [res_bind]. split; [reflexivity|].
      simpl. rewrite Hn, H4. reflexivity.
  Qed.

  Theorem model_roundtrip_fuel :
    exists im, deser_model_fuel (S N) m = Ok im
               /\ exists q, ser_model im = Ok q /\ norm_model q = norm_model m.
  Proof.
    destruct wfm_parts as (_ & _ & Hops & Hmeta & Hconf & Hg & Hnd & _ & Hslash).
    destruct funcs_phase as (fns & qs & Hf1 & Hf2 & Hf3 & Hf4).
    assert (Hgd : (gdepth (m_graph m) <= N)%nat) by (unfold N, mdepth; lia).
    destruct (graph_roundtrip_fuel N (m_graph m) dev [] [] (Some irv) Hgd Hg (Forall_nil _) (fun k H => match H with end) irv_dev)
      as (ig & Hd & gq & Hs & Hn).
    pose proof (deser_graph_depth _ _ _ _ Hd) as Hdep.
    (* deserialization *)
    assert (Hdm : deser_model_fuel (S N) m
                  = Ok (mkIModel irv (m_pname m) (m_pver m) (m_domain m) (m_mver m) (m_doc m)
                          (mkIGraph (ig_name ig) (ig_doc ig) (ig_meta ig) (dict_of (m_opsets m)) (ig_inputs ig) (ig_inits ig)
                                    (ig_nodes ig) (ig_outputs ig) (ig_values ig))
                          fns (dict_of (m_meta m))
                          (map (fun c => (dflt [] (dc_name c), dflt 0 (dc_num c), dc_devices c)) (m_conf m)))).
    { unfold deser_model_fuel. fold irv.
      rewrite Hd. cbn [res_bind]. rewrite Hf1. cbn [res_bind].
      rewrite (funcs_dict_nodup fns []); [|simpl; rewrite Hf2; apply nodup_fid_NoDup; exact Hnd]. simpl app.
      assert (Hexp : (if irv <? FUNCTION_VALUE_INFO_SUPPORTED_VERSION
                      then mapM (apply_exp_fn (g_vinfo (m_graph m))) fns else Ok fns) = Ok fns).
      { unfold fvi in Hslash. destruct (irv <? FUNCTION_VALUE_INFO_SUPPORTED_VERSION) eqn:E; [|reflexivity].
        apply Z.ltb_lt in E. assert (E2 : (FUNCTION_VALUE_INFO_SUPPORTED_VERSION <=? irv) = false) by (apply Z.leb_gt; exact E).
        rewrite E2 in Hslash. simpl in Hslash. apply orb_prop in Hslash. destruct Hslash as [H|H]; apply negb_true_iff in H.
        - destruct (m_funcs m); [|discriminate]. inversion Hf1. reflexivity.
        - apply apply_exp_all_none. exact H. }
      rewrite Hexp. reflexivity. }
    eexists. split; [exact Hdm|].
    pose proof (deser_model_depth _ _ _ Hdm) as Himd.
    (* serialization with fuel S (S N), then transported to the fuel ser_model uses *)
    unfold ser_model.
    rewrite (ser_model_fuel_indep _ (S (S N)) _ (le_n _) Himd).
    unfold ser_model_fuel. cbn [im_irv im_graph im_funcs im_pname im_pver im_domain im_mver im_doc im_meta im_conf ig_opsets].
    rewrite ser_graph_opsets.
    rewrite (ser_graph_fuel (S (S N)) (Some irv) ig) by lia. rewrite <- (ser_graph_fuel (S N) (Some irv) ig) by lia.
    rewrite Hs. cbn [res_bind]. rewrite Hf3. cbn [res_bind].
    eexists. split; [reflexivity|].
    unfold norm_model.
    cbn [m_irv m_opsets m_pname m_pver m_domain m_mver m_doc m_graph m_meta m_funcs m_conf].
    assert (E1 : map fst (map (fun q0 : FunctionP => (q0, @nil VInfoP)) qs) = qs)
      by (rewrite map_map; apply map_id).
    assert (E2 : concat (map snd (map (fun q0 : FunctionP => (q0, @nil VInfoP)) qs)) = [])
      by (rewrite map_map; apply concat_map_nil).
    rewrite E1, E2, graph_eta, Hn.
    rewrite (dict_of_nodup _ Hops), (ksort_dict_of _ Hmeta), !truthy_idem, truthy_z_idem, Hf4.
    f_equal.
    fold dev in Hconf. unfold dev in *. destruct (irv <? MULTI_DEVICE_SUPPORTED_VERSION) eqn:E.
    - apply Z.ltb_lt in E. assert (E3 : (MULTI_DEVICE_SUPPORTED_VERSION <=? irv) = false) by (apply Z.leb_gt; exact E).
      rewrite E3 in Hconf. simpl in Hconf. apply nonempty_false in Hconf. rewrite Hconf. reflexivity.
    - rewrite !map_map. apply map_ext. intros c. unfold norm_devconf. cbn [fst snd]. cbn [dc_name dc_num dc_devices].
      rewrite truthy_some_dflt. destruct (dc_num c); reflexivity.
  Qed.
End ModelRT.

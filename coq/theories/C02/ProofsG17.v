(* function stage, part 3: the function round trip *)
From Coq Require Import ZArith NArith List Bool Lia PeanoNat Permutation.
From IRV Require Import Base.Exn Gen.C02Gen C02.Model C02.Model2 C02.Norm C02.Proofs1 C02.Proofs2 C02.Proofs3.
From IRV Require Import C02.ProofsG1 C02.ProofsG2 C02.ProofsG3 C02.ProofsG4 C02.ProofsG5 C02.ProofsG6 C02.ProofsG7 C02.ProofsG8 C02.ProofsG9 C02.ProofsG10 C02.ProofsG11 C02.ProofsG12 C02.ProofsG13 C02.ProofsG14 C02.ProofsG15 C02.ProofsG16 C02.ProofsFuel C02.ProofsDepth.
Import ListNotations.
Open Scope Z_scope.

Lemma concat_opt_fvf (h : str -> IValue) l :
  concat (map (fun k : str => match k with [] => [] | _ => [h k] end) l) = map h (filter nonempty l).
Proof.
  induction l as [|x r IH]; simpl; [reflexivity|]. destruct x; simpl; rewrite IH; reflexivity.
Qed.

Lemma map_filter_concat {A B} (p : A -> bool) (gx : A -> B) l :
  map gx (filter p l) = concat (map (fun x => if p x then [gx x] else []) l).
Proof. induction l as [|x r IH]; simpl; [reflexivity|]. destruct (p x); simpl; rewrite IH; reflexivity. Qed.

Lemma concat_map_nil {A B} (l : list A) : concat (map (fun _ : A => @nil B) l) = [].
Proof. induction l; simpl; auto. Qed.

Lemma has_value_all dg eg sc (l : list (AttrP GraphP)) ias :
  Forall2 (fun a ia => deser_attr dg eg sc a = Ok ia) l ias ->
  (forall a, In a l -> truthy (a_ref a) = None /\ (dflt 0 (a_type a) =? AT_UNDEFINED) = false) ->
  Forall (fun ia => attr_has_value ia = true) ias.
Proof.
  induction 1 as [|a ia l' ias' Ha HF IH]; intros Hall; constructor.
  - destruct (Hall a (or_introl eq_refl)) as [Er Hu]. exact (deser_attr_has_value _ _ _ _ _ Ha Er Hu).
  - apply IH. intros a0 Ha0. apply Hall. right. exact Ha0.
Qed.

Section FunctionRT.
  Variable f : FunctionP.
  Variables (allow_dev allow_vinfo : bool) (irvo : option Z) (n fuel' : nat).
  Hypothesis Hwf : wf_function allow_dev allow_vinfo f = true.
  Hypothesis Hd : (fdepth f <= S n)%nat.
  Hypothesis Hfuel : (S n <= fuel')%nat.
  Hypothesis Hirv : irv_allows allow_dev irvo.


  Let W := wf_function_unpack _ _ _ Hwf.
  Let vis := vinfo_dict (f_vinfo f).
  Let nouts := node_out_names (f_nodes f).
  Let decl := f_inputs f ++ nouts.
  Let dg := deser_graph (S n).
  Let sg := ser_graph fuel' None.
  Let sgn := ser_graph fuel' irvo.
  Notation fvf := (fvf f).
  Notation FT1 := (FT1 f).

  Lemma fd_nodes : (list_max (map (node_depth gdepth) (f_nodes f)) <= n)%nat.
  Proof. unfold fdepth in Hd. lia. Qed.
  Lemma fd_attrs : (list_max (map (fun a => attrv_depth gdepth (a_val a)) (f_attr_protos f)) <= n)%nat.
  Proof. unfold fdepth in Hd. lia. Qed.

  Lemma f_nodes_phase :
    exists inodes,
      mapS (deser_node dg empty_graph [] vis []) (f_nodes f) FT1 = Ok (inodes, FT1)
      /\ Forall2 (node_rel sgn irvo) (f_nodes f) inodes.
  Proof.
    apply (nodes_phase dg sgn (fun g' => wf_graph allow_dev decl g' && small n g') [] FT1 vis [] allow_dev irvo decl).
    - intros g' Hw. apply andb_prop in Hw. destruct Hw as [Hw1 Hw2].
      apply (nested_rt n fuel' allow_dev irvo decl [FT1] g' Hfuel Hirv); try assumption.
      + constructor; [apply (FT1_ok f) | constructor].
      + intros k Hk. unfold visible_in. simpl. rewrite (FT1_lookup f allow_dev allow_vinfo W k Hk). eexists. reflexivity.
    - unfold small. change (is_empty_graph empty_graph) with true. rewrite orb_true_r, andb_true_r.
      destruct allow_dev; destruct decl; reflexivity.
    - constructor; [apply (FT1_ok f) | constructor].
    - exact Hirv.
    - intros k Hk. unfold visible_in. simpl. rewrite (FT1_lookup f allow_dev allow_vinfo W k Hk). eexists. reflexivity.
    - intros nd o Hn Ho. destruct o as [|c o]; [left; reflexivity | right].
      apply (FT1_mem f allow_dev allow_vinfo W). apply in_or_app. right.
      unfold node_out_names. apply filter_In. split; [|reflexivity].
      apply in_concat. exists (n_outputs nd). split; [apply in_map; exact Hn | exact Ho].
    - apply forallb_forall. intros nd Hnd.
      pose proof (forallb_In _ _ _ (f_nodes_wf _ _ _ W) Hnd) as Hwn. rewrite wf_node_conv in Hwn.
      apply (wf_node_strengthen allow_dev _ _ _ nd Hwn). intros a Ha.
      apply (nested_depth_node n nd a); [|exact Ha].
      etransitivity; [|exact fd_nodes]. apply in_le_list_max. apply in_map. exact Hnd.
  Qed.

  Lemma f_attrs_phase :
    exists ias, mapM (deser_attr dg empty_graph []) (f_attr_protos f) = Ok ias
                /\ map ia_name ias = map (fun a => dflt [] (a_name a)) (f_attr_protos f)
                /\ Forall (fun ia => attr_has_value ia = true) ias
                /\ exists l', mapM (ser_attr sg) ias = Ok l'
                              /\ map (norm_attr norm_graph empty_graph) l'
                                 = map (norm_attr norm_graph empty_graph) (f_attr_protos f).
  Proof.
    destruct (attrs_roundtrip_gen dg sg (fun g' => wf_graph true [] g' && small n g') [] false) with (l := f_attr_protos f)
      as (ias & H1 & H2 & l' & H3 & H4).
    - intros g' Hw. apply andb_prop in Hw. destruct Hw as [Hw1 Hw2].
      apply (nested_rt n fuel' true None [] [] g' Hfuel (fun _ => I)); try assumption; [constructor | intros k []].
    - unfold small. change (is_empty_graph empty_graph) with true. rewrite orb_true_r. reflexivity.
    - apply forallb_forall. intros a Ha.
      apply wf_attr_strengthen; [exact (forallb_In _ _ _ (f_attrs_wf _ _ _ W) Ha)|].
      apply nested_depth_attr. etransitivity; [|exact fd_attrs]. apply in_le_list_max.
      apply (in_map (fun a0 => attrv_depth gdepth (a_val a0))). exact Ha.
    - exists ias. split; [exact H1|]. split; [exact H2|]. split; [|exists l'; split; assumption].
      apply (has_value_all dg empty_graph [] (f_attr_protos f) ias (mapM_Forall2 _ _ _ H1)).
      intros a Ha. pose proof (forallb_In _ _ _ (f_attrs_wf _ _ _ W) Ha) as Hwa.
      unfold wf_attr in Hwa. apply andb_prop in Hwa. destruct Hwa as [_ Hwa].
      destruct (truthy (a_ref a)) eqn:Er; [discriminate|]. apply andb_prop in Hwa. destruct Hwa as [Hu _].
      apply negb_true_iff in Hu. split; [reflexivity | exact Hu].
  Qed.

  Definition undefs : list (IAttr IGraph) := map (fun nm => mkIAttr nm None IAUndef) (f_attr f).
  Definition the_fn (inodes : list (INode IGraph)) (ias : list (IAttr IGraph)) : IFunction :=
    mkIFunction (dflt [] (f_domain f)) (dflt [] (f_name f)) (dflt [] (f_overload f))
      (mkIGraph None (f_doc f) (dict_of (f_meta f)) (dict_of (f_opsets f)) (f_inputs f) []
                inodes (map OKey (f_outputs f)) FT1)
      (ias ++ undefs).

  Lemma attrs_all_nodup ias :
    map ia_name ias = map (fun a => dflt [] (a_name a)) (f_attr_protos f) ->
    attrs_dict [] (ias ++ undefs) = ias ++ undefs.
  Proof.
    intros Hn. apply (attrs_dict_nodup (ias ++ undefs) []). simpl. rewrite map_app, Hn.
    unfold undefs. rewrite map_map. simpl. rewrite map_id.
    apply (Permutation_NoDup (Permutation_app_comm _ _)). exact (f_attr_nd _ _ _ W).
  Qed.

  Lemma deser_function_ok inodes ias :
    mapS (deser_node dg empty_graph [] vis []) (f_nodes f) FT1 = Ok (inodes, FT1) ->
    mapM (deser_attr dg empty_graph []) (f_attr_protos f) = Ok ias ->
    map ia_name ias = map (fun a => dflt [] (a_name a)) (f_attr_protos f) ->
    deser_function (S n) f = Ok (the_fn inodes ias).
  Proof.
    intros Hn Ha Hnames. unfold vis, dg in Hn, Ha. unfold deser_function.
    assert (End : nodup_str (f_inputs f) = true) by (apply nodup_str_NoDup; exact (f_ins_nd _ _ _ W)).
    rewrite End. cbn [negb].
    rewrite (fphase_inputs f allow_dev allow_vinfo W). cbn [res_bind].
    rewrite (fdict_T0 f allow_dev allow_vinfo W), (fphase_declare f allow_dev allow_vinfo W). cbn [res_bind].
    rewrite Hn. cbn [res_bind fst snd].
    rewrite (mapM_total _ OKey).
    2:{ intros k Hk. rewrite (FT1_mem f allow_dev allow_vinfo W k (f_outs_decl _ _ _ W k Hk)). reflexivity. }
    cbn [res_bind]. rewrite Ha. cbn [res_bind]. fold undefs. rewrite (attrs_all_nodup ias Hnames). reflexivity.
  Qed.

  (* ---- serialization *)
  Lemma ser_attrs_valued ias :
    Forall (fun ia => attr_has_value ia = true) ias ->
    forall l', mapM (ser_attr sg) ias = Ok l' ->
    mapM (fun a => if attr_has_value a then x <- ser_attr sg a ;; Ok [x] else Ok []) ias = Ok (map (fun x => [x]) l').
  Proof.
    induction 1 as [|ia r Hv Hr IH]; intros l' H.
    - inversion H. reflexivity.
    - rewrite mapM_cons in H. destruct (ser_attr sg ia) as [x|] eqn:E; [|discriminate]. cbn [res_bind] in H.
      destruct (mapM (ser_attr sg) r) as [xs|] eqn:E2; [|discriminate]. cbn [res_bind] in H. inversion H; subst.
      rewrite mapM_cons, Hv, E. cbn [res_bind]. rewrite (IH xs eq_refl). reflexivity.
  Qed.

  Lemma fser_nodes nodes inodes :
    (forall nd, In nd nodes -> In nd (f_nodes f)) ->
    Forall2 (node_rel sgn irvo) nodes inodes ->
    exists nres,
      mapM (fun nd => np <- ser_node sgn irvo nd ;;
                      vs <- mapM (fun k => match k with [] => Ok [] | _ => v <- getv FT1 k ;; Ok [v] end) (in_outputs nd) ;;
                      Ok (np, filter should_create (concat vs))) inodes = Ok nres
      /\ map (norm_node norm_graph empty_graph) (map fst nres) = map (norm_node norm_graph empty_graph) nodes
      /\ map snd nres = map (fun nd => filter should_create (map fvf (filter nonempty (n_outputs nd)))) nodes.
  Proof.
    intros Hall HF. induction HF as [|nd i nodes' inodes' Hr HF IH].
    - exists []. repeat split.
    - destruct IH as (nres & H1 & H2 & H3); [intros n0 Hn0; apply Hall; right; exact Hn0|].
      destruct Hr as (Ho & n' & Hs & Hnn).
      exists ((n', filter should_create (map fvf (filter nonempty (n_outputs nd)))) :: nres).
      rewrite mapM_cons, Hs. cbn [res_bind]. rewrite Ho.
      rewrite (mapM_total _ (fun k : str => match k with [] => [] | _ => [fvf k] end)).
      2:{ intros k Hk. destruct k as [|c k]; [reflexivity|].
          rewrite (FT1_getv f allow_dev allow_vinfo W); [reflexivity|]. apply in_or_app. right.
          unfold node_out_names. apply filter_In. split; [|reflexivity].
          apply in_concat. exists (n_outputs nd). split; [apply in_map; apply Hall; left; reflexivity | exact Hk]. }
      cbn [res_bind]. rewrite concat_opt_fvf, H1. cbn [res_bind]. split; [reflexivity|].
      simpl. rewrite Hnn, H2, H3. split; reflexivity.
  Qed.

  Definition info_values : list IValue := filter should_create (map fvf decl).

  Lemma ser_function_ok (create : bool) inodes ias l' :
    Forall2 (node_rel sgn irvo) (f_nodes f) inodes ->
    Forall (fun ia => attr_has_value ia = true) ias ->
    mapM (ser_attr sg) ias = Ok l' ->
    exists nps,
      map (norm_node norm_graph empty_graph) nps = map (norm_node norm_graph empty_graph) (f_nodes f)
      /\ ser_function_gen fuel' create irvo (the_fn inodes ias)
         = Ok (mkFunctionP (truthy_s (dflt [] (f_name f))) (truthy_s (dflt [] (f_domain f)))
                           (truthy_s (dflt [] (f_overload f))) (truthy (f_doc f))
                           (f_inputs f) (f_outputs f) (f_attr f) l' nps (dict_of (f_opsets f))
                           (if create then map (ser_value []) info_values else [])
                           (ksort (dict_of (f_meta f))),
               if create then []
               else map (fun v => ser_value ((dflt [] (f_domain f) ++ [58; 58]%N ++ dflt [] (f_name f) ++ [47]%N) ++ v_name v) v)
                        info_values).
  Proof.
    intros HF Hval Hser.
    destruct (fser_nodes (f_nodes f) inodes (fun nd H => H) HF) as (nres & Hn1 & Hn2 & Hn3).
    exists (map fst nres). split; [exact Hn2|].
    unfold ser_function_gen, the_fn.
    cbn [if_graph if_attrs if_domain if_name if_overload ig_values ig_inputs ig_outputs ig_nodes ig_doc ig_opsets ig_meta].
    rewrite (mapM_total _ fvf).
    2:{ intros k Hk. apply (FT1_getv f allow_dev allow_vinfo W). apply in_or_app. left. exact Hk. }
    cbn [res_bind]. fold sg sgn.
    rewrite mapM_app, (ser_attrs_valued ias Hval l' Hser). cbn [res_bind].
    rewrite (mapM_total _ (fun _ => @nil (AttrP GraphP))).
    2:{ intros a Ha. unfold undefs in Ha. apply in_map_iff in Ha. destruct Ha as (nm & <- & _). reflexivity. }
    cbn [res_bind].
    rewrite (mapM_total _ (fun o => match o with OKey k => k | OFresh v => v_name v end)).
    2:{ intros o Ho. apply in_map_iff in Ho. destruct Ho as (k & <- & Hk).
        rewrite (FT1_getv f allow_dev allow_vinfo W k (f_outs_decl _ _ _ W k Hk)). cbn [res_bind].
        rewrite (fvf_name f). reflexivity. }
    cbn [res_bind]. rewrite Hn1. cbn [res_bind].
    assert (Hins : map v_name (map fvf (f_inputs f)) = f_inputs f).
    { rewrite map_map. rewrite <- (map_id (f_inputs f)) at 2. apply map_ext. intros k. apply (fvf_name f). }
    assert (Houts : map (fun o => match o with OKey k => k | OFresh v => v_name v end) (map OKey (f_outputs f)) = f_outputs f).
    { rewrite map_map. apply map_id. }
    assert (Hattr : map ia_name (filter (fun a => negb (attr_has_value a))
                                        (ias ++ undefs)) = f_attr f).
    { rewrite filter_app, map_app.
      assert (E1 : filter (fun a => negb (attr_has_value a)) ias = []).
      { clear - Hval. induction Hval as [|ia r Hv Hr IH]; simpl; [reflexivity|]. rewrite Hv. exact IH. }
      rewrite E1. simpl. unfold undefs. induction (f_attr f) as [|nm r IH]; simpl; [reflexivity|]. rewrite IH. reflexivity. }
    assert (Hcat : concat (map (fun x => [x]) l' ++ map (fun _ : IAttr IGraph => @nil (AttrP GraphP)) undefs) = l').
    { rewrite concat_app, concat_map_single, map_id.
      rewrite concat_map_nil, app_nil_r. reflexivity. }
    assert (Hinfo : filter should_create (map fvf (f_inputs f)) ++ concat (map snd nres) = info_values).
    { unfold info_values, decl. rewrite map_app, filter_app. f_equal.
      rewrite Hn3. unfold nouts, node_out_names. clear.
      induction (f_nodes f) as [|nd r IH]; simpl; [reflexivity|].
      rewrite IH, !filter_app, map_app, filter_app. reflexivity. }
    rewrite Hins, Houts, Hattr, Hcat, Hinfo. reflexivity.
  Qed.

  Lemma decl_nodup : NoDup decl.
  Proof.
    unfold decl. pose proof (f_ins_nd _ _ _ W) as H1. pose proof (f_nouts_nd _ _ _ W) as H2.
    pose proof (f_nouts_disj _ _ _ W) as H3. fold nouts in H2, H3.
    induction (f_inputs f) as [|x r IH]; simpl; [exact H2|].
    inversion H1; subst. constructor.
    - intros Hc. apply in_app_or in Hc. destruct Hc as [Hc|Hc]; [contradiction|].
      apply (H3 x Hc). left. reflexivity.
    - apply IH; [assumption|]. intros k Hk Hc. apply (H3 k Hk). right. exact Hc.
  Qed.
  Lemma decl_ne k : In k decl -> k <> [].
  Proof.
    intros H. apply in_app_or in H. destruct H as [H|H]; [exact (f_ins_ne _ _ _ W k H)|].
    unfold nouts, node_out_names in H. apply filter_In in H. apply nonempty_ne. tauto.
  Qed.

  Lemma fvinfo_part :
    norm_vinfos decl [] (map (ser_value []) info_values) = norm_vinfos decl [] (f_vinfo f).
  Proof.
    unfold norm_vinfos. f_equal. apply map_ext_in. intros k Hk. cbn [map lookup].
    assert (Hq : filter (fun vi => str_eqb (vname vi) k) (filter has_info (map norm_vinfo (map (ser_value []) info_values)))
                 = filter has_info (map norm_vinfo (if should_create (fvf k) then [ser_value [] (fvf k)] else []))).
    { unfold info_values. rewrite (map_filter_concat should_create (ser_value [])), map_map.
      rewrite concat_map, filter_concat, !map_map.
      rewrite (filter_keyed_concat vname
                 (fun w => filter has_info (map norm_vinfo (if should_create (fvf w) then [ser_value [] (fvf w)] else []))) decl k).
      - apply in_str_In in Hk. rewrite Hk. reflexivity.
      - intros w b _ Hb. apply filter_In in Hb. destruct Hb as [Hb _]. apply in_map_iff in Hb.
        destruct Hb as (e & <- & He). rewrite vname_norm. destruct (should_create (fvf w)); [|contradiction].
        destruct He as [<-|[]]. rewrite vname_ser_value. apply (fvf_name f).
      - exact decl_nodup. }
    rewrite Hq, (informative_lookup (f_vinfo f) k (f_vis_nd _ _ _ W)).
    assert (Evis : lookup k (map (fun vi => (vname vi, vi)) (f_vinfo f)) = lookup k vis)
      by (unfold vis; rewrite (fvis_keyed f allow_dev allow_vinfo W); reflexivity).
    rewrite Evis. unfold fvf, ProofsG16.fvf, minfo. fold vis.
    destruct (lookup k vis) as [e|] eqn:El.
    - destruct (fvis_lookup f allow_dev allow_vinfo W k e El) as (Hen & Hwe).
      rewrite (should_create_ainfo e k Hwe (decl_ne k Hk)).
      assert (Hnq : norm_vinfo (ser_value [] (ainfo e (new_value k))) = norm_vinfo e)
        by (apply ainfo_info_named; [exact Hwe | reflexivity | symmetry; exact Hen]).
      destruct (has_info (norm_vinfo e)) eqn:Eh; cbn [map filter]; rewrite ?Hnq, ?Eh; reflexivity.
    - reflexivity.
  Qed.

  Lemma info_values_nil : f_vinfo f = [] -> info_values = [].
  Proof.
    intros E. unfold info_values.
    assert (Hsc : forall k, should_create (fvf k) = false).
    { intros k. unfold ProofsG16.fvf, minfo. rewrite E. reflexivity. }
    induction decl as [|k r IH]; simpl; [reflexivity|]. rewrite Hsc. exact IH.
  Qed.

  Theorem function_roundtrip_fuel :
    exists fn, deser_function (S n) f = Ok fn
               /\ exists q, ser_function_gen fuel' allow_vinfo irvo fn = Ok (q, []) /\ norm_function q = norm_function f.
  Proof.
    destruct f_nodes_phase as (inodes & Hn & HF).
    destruct f_attrs_phase as (ias & Ha & Hnames & Hval & l' & Hser & Hnorm).
    exists (the_fn inodes ias). split; [exact (deser_function_ok inodes ias Hn Ha Hnames)|].
    destruct (ser_function_ok allow_vinfo inodes ias l' HF Hval Hser) as (nps & Hnps & Hs).
    eexists. rewrite Hs. split.
    - f_equal. f_equal. remember allow_vinfo as c eqn:Ec in |- *. destruct c; [reflexivity|].
      rewrite info_values_nil; [reflexivity|]. apply (f_vinfo_allowed _ _ _ W). symmetry. exact Ec.
    - unfold norm_function. cbn [f_name f_domain f_overload f_doc f_inputs f_outputs f_attr f_attr_protos f_nodes f_opsets f_vinfo f_meta].
      rewrite !truthy_truthy_s, !truthy_some_dflt, truthy_idem, Hnorm, Hnps.
      rewrite (node_out_names_norm nps (f_nodes f) Hnps).
      rewrite (dict_of_nodup _ (f_opsets_wf _ _ _ W)), (ksort_dict_of _ (f_meta_wf _ _ _ W)).
      fold nouts. fold decl. f_equal.
      remember allow_vinfo as c eqn:Ec in |- *. destruct c.
      + exact fvinfo_part.
      + rewrite (f_vinfo_allowed _ _ _ W); [reflexivity|]. symmetry. exact Ec.
  Qed.
End FunctionRT.

(* graph stage, part 10: the entry the serializer writes for an initializer that is not an input *)
From Coq Require Import ZArith NArith List Bool Lia.
From IRV Require Import Base.Exn Gen.C02Gen C02.Model C02.Model2 C02.Norm C02.Proofs1 C02.Proofs2 C02.Proofs3.
From IRV Require Import C02.ProofsG1 C02.ProofsG2 C02.ProofsG3 C02.ProofsG4 C02.ProofsG5 C02.ProofsG6 C02.ProofsG7 C02.ProofsG8 C02.ProofsG9.
Import ListNotations.
Open Scope Z_scope.

Lemma truthy_of_vname (o : option str) n : dflt [] o = n -> n <> [] -> truthy o = Some n.
Proof. intros E Hn. destruct o as [[|c s]|]; simpl in *; subst; try contradiction; reflexivity. Qed.

Lemma complete_id t vi :
  has_leaf_shape (vi_type vi) = true -> complete_vinfo t vi = vi.
Proof.
  intros H. destruct vi as [n ty d m]. unfold complete_vinfo. cbn [vi_type vi_name vi_doc vi_meta] in *.
  destruct ty; simpl in H; try discriminate; rewrite ?H; try reflexivity.
  all: simpl; rewrite H; reflexivity.
Qed.

Lemma init_entry vis qs t :
  init_ok t -> vis_wf vis -> (forall e, lookup (tname t) vis = Some e -> vname e = tname t) ->
  should_create (init_new vis qs t) = true
  /\ has_info (norm_vinfo (ser_value [] (init_new vis qs t))) = true
  /\ complete_vinfo t (norm_vinfo (ser_value [] (init_new vis qs t)))
     = match lookup (tname t) vis with
       | Some e => if has_info (norm_vinfo e) then complete_vinfo t (norm_vinfo e) else default_vinfo t
       | None => default_vinfo t
       end.
Proof.
  intros (Hw & Hd & Hne) Hv Hname.
  destruct (dten_props t Hw) as (_ & _ & Hdt & Hdims).
  assert (Hkn : nonempty (tname t) = true) by (destruct (tname t); [contradiction | reflexivity]).
  assert (Htn : truthy (Some (tname t)) = Some (tname t)) by (destruct (tname t); [contradiction | reflexivity]).
  unfold init_new. cbv zeta. rewrite should_create_maybe_quant, ser_value_maybe_quant.
  unfold minfo. rewrite Hdt, Hdims.
  destruct (lookup (tname t) vis) as [e|] eqn:El.
  - pose proof (Hv _ _ El) as Hwe. pose proof (Hname e eq_refl) as Hen.
    pose proof Hwe as Hwe'. unfold wf_vinfo in Hwe'. apply andb_prop in Hwe'. destruct Hwe' as [Ht Hmd].
    assert (Hmeta : dupdate [] (dict_of (vi_meta e)) = vi_meta e).
    { rewrite dupdate_nil, (dict_of_nodup (dict_of (vi_meta e))); rewrite (dict_of_nodup _ Hmd); [reflexivity | exact Hmd]. }
    assert (Hnm : truthy (vi_name e) = Some (tname t)) by (apply truthy_of_vname; [exact Hen | exact Hne]).
    cbn [ainfo v_name v_type v_shape v_doc v_meta v_quant v_const].
    rewrite Hmeta. unfold ty_of, sh_of.
    destruct (wf_type_cases _ Ht) as [(den & Ety & Hden & H1 & H2)|(Hin & it & sh & H1 & H2 & H3)].
    + rewrite H1, H2. cbn match.
      split; [unfold should_create; cbn [v_shape v_type v_meta v_doc v_name]; exact Hkn|].
      unfold ser_value, norm_vinfo, ser_type_shape. cbn [v_name v_type v_shape v_doc v_meta vi_name vi_type vi_doc vi_meta].
      cbn [ser_type ser_shape_into]. rewrite Htn, truthy_idem, ksort_idem. cbn [norm_type truthy option_map some_dflt dflt].
      rewrite tensor_dims_eq. split; [reflexivity|].
      rewrite complete_id by reflexivity.
      rewrite Ety. unfold has_info. cbn [vi_type vi_meta vi_doc norm_type]. rewrite Hden. cbn [negb orb].
      rewrite nonempty_ksort.
      destruct (nonempty (vi_meta e) || match truthy (vi_doc e) with Some _ => true | None => false end) eqn:Ei.
      * unfold complete_vinfo. cbn [vi_type vi_name vi_doc vi_meta has_leaf_shape set_leaf_shape]. rewrite Hnm.
        unfold tensor_dims. reflexivity.
      * apply orb_false_elim in Ei. destruct Ei as [Em Edoc].
        destruct (vi_meta e); [|discriminate]. destruct (truthy (vi_doc e)); [discriminate|].
        unfold default_vinfo. reflexivity.
    + rewrite H1, H2.
      split; [unfold should_create; cbn [v_shape v_type v_meta v_doc v_name]; destruct sh; exact Hkn|].
      assert (Hnu : forall T', T' = norm_type (vi_type e) -> negb (match T' with TUnset None => true | _ => false end) = true).
      { intros T' ->. destruct (norm_type (vi_type e)) eqn:En; try reflexivity. exfalso. exact (inner_not_unset _ Hin _ En). }
      assert (Hie : has_info (norm_vinfo e) = true).
      { unfold has_info, norm_vinfo. cbn [vi_type]. rewrite (Hnu _ eq_refl). reflexivity. }
      rewrite Hie.
      destruct sh as [s|].
      * (* the entry has a shape: it round-trips as it is *)
        assert (Heq : norm_vinfo (ser_value [] (mkIValue (tname t) (Some it) (Some s) (vi_doc e) (vi_meta e) [] (Some (dten t))))
                      = norm_vinfo e).
        { unfold ser_value, norm_vinfo, ser_type_shape. cbn [v_name v_type v_shape v_doc v_meta vi_name vi_type vi_doc vi_meta].
          simpl in H3. rewrite H3, Htn, truthy_idem, ksort_idem, Hnm. reflexivity. }
        cbn match. rewrite Heq. split; [exact Hie | reflexivity].
      * (* no shape in the entry: the tensor's dims are written into the leaf *)
        cbn match.
        assert (Heq : norm_vinfo (ser_value [] (mkIValue (tname t) (Some it)
                         (Some (map (fun d : Z => (IInt d, @None str)) (t_dims t))) (vi_doc e) (vi_meta e) [] (Some (dten t))))
                      = mkVInfoP (Some (tname t)) (set_leaf_shape (norm_type (vi_type e)) (tensor_dims t))
                                 (truthy (vi_doc e)) (ksort (vi_meta e))).
        { unfold ser_value, norm_vinfo, ser_type_shape. cbn [v_name v_type v_shape v_doc v_meta vi_name vi_type vi_doc vi_meta].
          rewrite shape_into_norm, tensor_dims_eq. simpl in H3. rewrite H3, Htn, truthy_idem, ksort_idem. reflexivity. }
        rewrite Heq.
        assert (Hls : has_leaf_shape (set_leaf_shape (norm_type (vi_type e)) (tensor_dims t)) = true) by (apply leaf_shape_set; exact Hin).
        split.
        { unfold has_info. cbn [vi_type].
          destruct (set_leaf_shape (norm_type (vi_type e)) (tensor_dims t)) eqn:Es; try reflexivity. simpl in Hls. discriminate. }
        rewrite complete_id by exact Hls.
        unfold complete_vinfo, norm_vinfo. cbn [vi_type vi_name vi_doc vi_meta]. rewrite Hnm.
        assert (Hnl : has_leaf_shape (norm_type (vi_type e)) = false) by (apply (leaf_shape_spec _ Hin None H2)).
        destruct (norm_type (vi_type e)) eqn:En; try (rewrite Hnl; reflexivity).
        exfalso. exact (inner_not_unset _ Hin _ En).
  - (* no value-info entry: type and shape come from the tensor *)
    cbn [v_name v_type v_shape v_doc v_meta v_quant v_const]. cbn match.
    split; [unfold should_create; cbn [v_shape v_type v_meta v_doc v_name]; exact Hkn|].
    unfold ser_value, norm_vinfo, ser_type_shape. cbn [v_name v_type v_shape v_doc v_meta vi_name vi_type vi_doc vi_meta].
    cbn [ser_type ser_shape_into]. rewrite Htn. cbn [norm_type truthy option_map some_dflt dflt ksort].
    rewrite tensor_dims_eq. split; [reflexivity|].
    rewrite complete_id by reflexivity. unfold default_vinfo. reflexivity.
Qed.

(* C02/Norm.v — the documented normalisation `norm_*`, the well-formedness predicates `wf_*`
   (boolean, evaluated on every generated proto by the case files) and decidable equality.

   norm = exactly the equivalences the property allows:
     - alias domain "ai.onnx" -> "" (node domain);
     - opset-import / value-info / metadata entries may be reordered: metadata-like entry lists (metadata_props,
       external_data, quant_parameter_tensor_names) and opset imports are sorted by key; the value-info and
       quantization_annotation lists, which are keyed by value name, are rebuilt in an order fixed by the graph
       itself (identical in p and q), keeping every entry of a name, so duplicates stay visible;
     - value-info is added for initializers (a missing entry, or the missing type/shape of an existing entry,
       comes from the tensor); unreferenced value-info is dropped; value-info that repeats a graph
       input/output (already described there) or carries nothing is dropped;
     - trailing unnamed node outputs are trimmed;
     - unset = default-valued optional scalars ("" for strings, 0 for integers/enums).
   Presence that the implementation must preserve is kept: oneof members (dim value/param/unset, type
   kind), shape present vs absent, pipeline_stage. *)
From Coq Require Import ZArith NArith List Bool Lia.
From IRV Require Import Base.Exn Gen.C02Gen C02.Model C02.Model2.
Import ListNotations.
Open Scope Z_scope.

Definition some_dflt (o : option Z) : option Z := Some (dflt 0 o).
Definition truthy_b (o : option (list N)) : option (list N) := truthy o.

(* ------------------------------------------------------------------ norm: types, tensors, value-info *)
Definition norm_dim (d : Dim) : Dim := mkDim (d_val d) (truthy (d_den d)).
Fixpoint norm_type (t : TypeP) : TypeP :=
  match t with
  | TTensor e sh den => TTensor (some_dflt e) (option_map (map norm_dim) sh) (truthy den)
  | TSparse e sh den => TSparse (some_dflt e) (option_map (map norm_dim) sh) (truthy den)
  | TSeq e den => TSeq (option_map norm_type e) (truthy den)
  | TOpt e den => TOpt (option_map norm_type e) (truthy den)
  | TMap den => TMap (truthy den)
  | TUnset den => TUnset (truthy den)
  end.

Definition norm_tensor (t : TensorP) : TensorP :=
  mkTensorP (t_dims t) (some_dflt (t_dtype t)) (truthy (t_name t)) (truthy (t_doc t)) (some_dflt (t_loc t))
            (truthy_b (t_raw t)) (t_strs t) (t_other t) (ksort (t_ext t)) (ksort (t_meta t)).

Definition norm_vinfo (vi : VInfoP) : VInfoP :=
  mkVInfoP (truthy (vi_name vi)) (norm_type (vi_type vi)) (truthy (vi_doc vi)) (ksort (vi_meta vi)).

Definition norm_quant (q : QuantP) : QuantP := mkQuantP (truthy (qa_name q)) (ksort (qa_params q)).

(* ------------------------------------------------------------------ norm: attributes, nodes *)
Definition ai_onnx : str := [97;105;46;111;110;110;120]%N.

Definition default_val {G} (empty_g : G) (ty : Z) : AttrV G :=
  if ty =? AttributeType_INT then AI 0 else if ty =? AttributeType_FLOAT then AF 0
  else if ty =? AttributeType_STRING then AS [] else if ty =? AttributeType_INTS then AIs []
  else if ty =? AttributeType_FLOATS then AFs [] else if ty =? AttributeType_STRINGS then ASs []
  else if ty =? AttributeType_TENSOR then AT (norm_tensor empty_tensor)
  else if ty =? AttributeType_GRAPH then AG empty_g
  else if ty =? AttributeType_TENSORS then ATs [] else if ty =? AttributeType_GRAPHS then AGs []
  else if ty =? AttributeType_TYPE_PROTO then ATP (TUnset None)
  else if ty =? AttributeType_TYPE_PROTOS then ATPs [] else ANone.

Definition norm_attrv {G} (ng : G -> G) (v : AttrV G) : AttrV G :=
  match v with
  | AT t => AT (norm_tensor t) | ATs l => ATs (map norm_tensor l)
  | AG g => AG (ng g) | AGs l => AGs (map ng l)
  | ATP t => ATP (norm_type t) | ATPs l => ATPs (map norm_type l)
  | ASs l => ASs (map (fun s => (true, snd s)) l)
  | _ => v
  end.

Definition norm_attr {G} (ng : G -> G) (empty_g : G) (a : AttrP G) : AttrP G :=
  mkAttrP (truthy (a_name a)) (truthy (a_ref a)) (truthy (a_doc a)) (some_dflt (a_type a))
          (match truthy (a_ref a), a_val a with
           | None, ANone => default_val empty_g (dflt 0 (a_type a))
           | _, v => norm_attrv ng v
           end).

Definition norm_simple (s : SimpleShardP) : SimpleShardP := mkSimpleShardP (ssd_dim s) (some_dflt (ssd_num s)).
Definition norm_spec (s : ShardSpecP) : ShardSpecP :=
  mkShardSpecP (truthy (sp_tensor s)) (sp_device s) (map (fun e => (some_dflt (fst e), snd e)) (sp_map s))
               (map (fun d => mkShardedDimP (some_dflt (sd_axis d)) (map norm_simple (sd_simple d))) (sp_dims s)).
Definition norm_nodedev (d : NodeDevP) : NodeDevP :=
  mkNodeDevP (truthy (nd_conf d)) (map norm_spec (nd_specs d)) (nd_stage d).
Definition norm_devconf (c : DevConfP) : DevConfP :=
  mkDevConfP (truthy (dc_name c)) (some_dflt (dc_num c)) (dc_devices c).

Definition norm_domain (o : option str) : option str :=
  match truthy o with Some d => if str_eqb d ai_onnx then None else Some d | None => None end.

Definition norm_node {G} (ng : G -> G) (empty_g : G) (n : NodeP G) : NodeP G :=
  mkNodeP (n_inputs n) (trim_outputs (n_outputs n)) (truthy (n_name n)) (truthy (n_op n))
          (norm_domain (n_domain n)) (truthy (n_overload n)) (truthy (n_doc n))
          (map (norm_attr ng empty_g) (n_attrs n)) (ksort (n_meta n)) (map norm_nodedev (n_dev n)).

(* ------------------------------------------------------------------ norm: graphs *)
Definition vname (vi : VInfoP) : str := dflt [] (vi_name vi).
Definition tname (t : TensorP) : str := dflt [] (t_name t).
Definition node_out_names {G} (nodes : list (NodeP G)) : list str :=
  filter nonempty (concat (map n_outputs nodes)).

(* a (normalised) value-info entry that says something *)
Definition has_info (vi : VInfoP) : bool :=
  negb (match vi_type vi with TUnset None => true | _ => false end) || nonempty (vi_meta vi)
  || match vi_doc vi with Some _ => true | None => false end.

Definition default_vinfo (t : TensorP) : VInfoP :=
  mkVInfoP (Some (tname t))
           (TTensor (Some (dflt 0 (t_dtype t))) (Some (map (fun d => mkDim (DVal d) None) (t_dims t))) None) None [].

Definition keyed_vinfo (l : list VInfoP) : list (str * VInfoP) := map (fun vi => (vname vi, vi)) l.

(* Canonical form of the value-info list: entries are keyed by name, so the list is rebuilt in an
   order fixed by the graph itself (initializers, then node outputs; the same in p and q) instead of
   being sorted.  For every name in `order`: all informative entries with that name (duplicates stay
   visible); when there is none and the name is an initializer, the entry the serializer adds for it. *)
(* the leaf of a nested type carries a shape *)
Fixpoint has_leaf_shape (t : TypeP) : bool :=
  match t with
  | TTensor _ (Some _) _ | TSparse _ (Some _) _ => true
  | TSeq (Some t') _ | TOpt (Some t') _ => has_leaf_shape t'
  | _ => false
  end.
Fixpoint set_leaf_shape (t : TypeP) (sh : list Dim) : TypeP :=
  match t with
  | TTensor e _ den => TTensor e (Some sh) den
  | TSparse e _ den => TSparse e (Some sh) den
  | TSeq (Some t') den => TSeq (Some (set_leaf_shape t' sh)) den
  | TOpt (Some t') den => TOpt (Some (set_leaf_shape t' sh)) den
  | _ => t
  end.
Definition tensor_dims (t : TensorP) : list Dim := map (fun d => mkDim (DVal d) None) (t_dims t).

(* "value-info is added for initializers" also completes an existing entry of an initializer: a missing
   type is the tensor's element type, a missing shape is the tensor's dims (normalised entry in, out) *)
Definition complete_vinfo (t : TensorP) (vi : VInfoP) : VInfoP :=
  let ty := match vi_type vi with
            | TUnset _ => TTensor (Some (dflt 0 (t_dtype t))) None None
            | x => x
            end in
  mkVInfoP (vi_name vi) (if has_leaf_shape ty then ty else set_leaf_shape ty (tensor_dims t)) (vi_doc vi) (vi_meta vi).

Definition norm_vinfos (order : list str) (inits : list TensorP) (l : list VInfoP) : list VInfoP :=
  let inf := filter has_info (map norm_vinfo l) in
  concat (map (fun k => match filter (fun vi => str_eqb (vname vi) k) inf, lookup k (map (fun t => (tname t, t)) inits) with
                        | [], Some t => [default_vinfo t]
                        | [], None => []
                        | es, Some t => map (complete_vinfo t) es
                        | es, None => es
                        end) order).

Definition norm_quants (order : list str) (l : list QuantP) : list QuantP :=
  let d := map (fun q => mkQuantP (Some (dflt [] (qa_name q))) (ksort (qa_params q))) l in
  concat (map (fun k => filter (fun q => str_eqb (dflt [] (qa_name q)) k) d) order).

Definition minus (a b : list str) : list str := filter (fun x => negb (in_str x b)) a.

Definition vinfo_order (g_ins g_outs inits nouts : list str) : list str :=
  minus (filter nonempty inits ++ nouts) (g_ins ++ g_outs).
Definition quant_order (ins outs inits nouts : list str) : list str :=
  dedup_str [] (minus ins inits ++ inits ++ minus nouts outs ++ outs).

Fixpoint norm_graph (g : GraphP) : GraphP :=
  let ins := map vname (g_inputs g) in
  let outs := map vname (g_outputs g) in
  let inits := map tname (g_inits g) in
  let nouts := node_out_names (g_nodes g) in
  mkGraphP (truthy (g_name g)) (truthy (g_doc g))
           (map norm_vinfo (g_inputs g)) (map norm_tensor (g_inits g))
           (map (norm_node norm_graph empty_graph) (g_nodes g))
           (map norm_vinfo (g_outputs g))
           (norm_vinfos (vinfo_order ins outs inits nouts) (g_inits g) (g_vinfo g))
           (norm_quants (quant_order ins outs inits nouts) (g_quant g))
           (ksort (g_meta g)).

Definition norm_function (f : FunctionP) : FunctionP :=
  let order := f_inputs f ++ node_out_names (f_nodes f) in
  mkFunctionP (truthy (f_name f)) (truthy (f_domain f)) (truthy (f_overload f)) (truthy (f_doc f))
              (f_inputs f) (f_outputs f) (f_attr f)
              (map (norm_attr norm_graph empty_graph) (f_attr_protos f))
              (map (norm_node norm_graph empty_graph) (f_nodes f))
              (ksort (f_opsets f))
              (norm_vinfos order [] (f_vinfo f))
              (ksort (f_meta f)).

Definition norm_model (m : ModelP) : ModelP :=
  mkModelP (some_dflt (m_irv m)) (ksort (m_opsets m)) (truthy (m_pname m)) (truthy (m_pver m))
           (truthy (m_domain m)) (match m_mver m with Some z => truthy_z z | None => None end)
           (truthy (m_doc m)) (norm_graph (m_graph m)) (ksort (m_meta m))
           (map norm_function (m_funcs m)) (map norm_devconf (m_conf m)).

(* ================================================================== decidable equality (case files) *)
Definition oeq {A} (e : A -> A -> bool) := option_eqb e.
Definition leq {A} (e : A -> A -> bool) := list_eqb e.
Definition dict_eqb (a b : dict) : bool :=
  leq (fun x y => str_eqb (fst x) (fst y) && str_eqb (snd x) (snd y)) a b.
Definition dimval_eqb (a b : DimVal) : bool :=
  match a, b with
  | DVal x, DVal y => x =? y | DParam x, DParam y => str_eqb x y | DUnset, DUnset => true | _, _ => false
  end.
Definition dim_eqb (a b : Dim) : bool := dimval_eqb (d_val a) (d_val b) && oeq str_eqb (d_den a) (d_den b).
Fixpoint type_eqb (a b : TypeP) : bool :=
  match a, b with
  | TTensor e s d, TTensor e' s' d' | TSparse e s d, TSparse e' s' d' =>
      oeq Z.eqb e e' && oeq (leq dim_eqb) s s' && oeq str_eqb d d'
  | TSeq e d, TSeq e' d' | TOpt e d, TOpt e' d' =>
      match e, e' with Some x, Some y => type_eqb x y | None, None => true | _, _ => false end && oeq str_eqb d d'
  | TMap d, TMap d' | TUnset d, TUnset d' => oeq str_eqb d d'
  | _, _ => false
  end.
Definition tensor_eqb (a b : TensorP) : bool :=
  leq Z.eqb (t_dims a) (t_dims b) && oeq Z.eqb (t_dtype a) (t_dtype b) && oeq str_eqb (t_name a) (t_name b)
  && oeq str_eqb (t_doc a) (t_doc b) && oeq Z.eqb (t_loc a) (t_loc b) && oeq str_eqb (t_raw a) (t_raw b)
  && leq str_eqb (t_strs a) (t_strs b)
  && leq (fun x y => (fst x =? fst y)%N && str_eqb (snd x) (snd y)) (t_other a) (t_other b)
  && dict_eqb (t_ext a) (t_ext b) && dict_eqb (t_meta a) (t_meta b).
Definition vinfo_eqb (a b : VInfoP) : bool :=
  oeq str_eqb (vi_name a) (vi_name b) && type_eqb (vi_type a) (vi_type b) && oeq str_eqb (vi_doc a) (vi_doc b)
  && dict_eqb (vi_meta a) (vi_meta b).
Definition quant_eqb (a b : QuantP) : bool :=
  oeq str_eqb (qa_name a) (qa_name b) && dict_eqb (qa_params a) (qa_params b).
Definition attrv_eqb {G} (ge : G -> G -> bool) (a b : AttrV G) : bool :=
  match a, b with
  | ANone, ANone | ASparse, ASparse => true
  | AF x, AF y | AI x, AI y => x =? y
  | AS x, AS y => str_eqb x y
  | AT x, AT y => tensor_eqb x y
  | AG x, AG y => ge x y
  | ATP x, ATP y => type_eqb x y
  | AFs x, AFs y | AIs x, AIs y => leq Z.eqb x y
  | ASs x, ASs y => leq (fun p q => Bool.eqb (fst p) (fst q) && str_eqb (snd p) (snd q)) x y
  | ATs x, ATs y => leq tensor_eqb x y
  | AGs x, AGs y => leq ge x y
  | ATPs x, ATPs y => leq type_eqb x y
  | _, _ => false
  end.
Definition attr_eqb {G} (ge : G -> G -> bool) (a b : AttrP G) : bool :=
  oeq str_eqb (a_name a) (a_name b) && oeq str_eqb (a_ref a) (a_ref b) && oeq str_eqb (a_doc a) (a_doc b)
  && oeq Z.eqb (a_type a) (a_type b) && attrv_eqb ge (a_val a) (a_val b).
Definition simple_eqb (a b : SimpleShardP) : bool :=
  dimval_eqb (ssd_dim a) (ssd_dim b) && oeq Z.eqb (ssd_num a) (ssd_num b).
Definition spec_eqb (a b : ShardSpecP) : bool :=
  oeq str_eqb (sp_tensor a) (sp_tensor b) && leq Z.eqb (sp_device a) (sp_device b)
  && leq (fun x y => oeq Z.eqb (fst x) (fst y) && leq Z.eqb (snd x) (snd y)) (sp_map a) (sp_map b)
  && leq (fun x y => oeq Z.eqb (sd_axis x) (sd_axis y) && leq simple_eqb (sd_simple x) (sd_simple y))
         (sp_dims a) (sp_dims b).
Definition nodedev_eqb (a b : NodeDevP) : bool :=
  oeq str_eqb (nd_conf a) (nd_conf b) && leq spec_eqb (nd_specs a) (nd_specs b) && oeq Z.eqb (nd_stage a) (nd_stage b).
Definition devconf_eqb (a b : DevConfP) : bool :=
  oeq str_eqb (dc_name a) (dc_name b) && oeq Z.eqb (dc_num a) (dc_num b) && leq str_eqb (dc_devices a) (dc_devices b).
Definition node_eqb {G} (ge : G -> G -> bool) (a b : NodeP G) : bool :=
  leq str_eqb (n_inputs a) (n_inputs b) && leq str_eqb (n_outputs a) (n_outputs b)
  && oeq str_eqb (n_name a) (n_name b) && oeq str_eqb (n_op a) (n_op b) && oeq str_eqb (n_domain a) (n_domain b)
  && oeq str_eqb (n_overload a) (n_overload b) && oeq str_eqb (n_doc a) (n_doc b)
  && leq (attr_eqb ge) (n_attrs a) (n_attrs b) && dict_eqb (n_meta a) (n_meta b)
  && leq nodedev_eqb (n_dev a) (n_dev b).
Fixpoint graph_eqb (fuel : nat) (a b : GraphP) : bool :=
  match fuel with
  | O => false
  | S f =>
      oeq str_eqb (g_name a) (g_name b) && oeq str_eqb (g_doc a) (g_doc b)
      && leq vinfo_eqb (g_inputs a) (g_inputs b) && leq tensor_eqb (g_inits a) (g_inits b)
      && leq (node_eqb (graph_eqb f)) (g_nodes a) (g_nodes b)
      && leq vinfo_eqb (g_outputs a) (g_outputs b) && leq vinfo_eqb (g_vinfo a) (g_vinfo b)
      && leq quant_eqb (g_quant a) (g_quant b) && dict_eqb (g_meta a) (g_meta b)
  end.
Definition opsets_eqb (a b : list (str * Z)) : bool :=
  leq (fun x y => str_eqb (fst x) (fst y) && (snd x =? snd y)) a b.
Definition function_eqb (a b : FunctionP) : bool :=
  let ge := graph_eqb (fdepth a) in
  oeq str_eqb (f_name a) (f_name b) && oeq str_eqb (f_domain a) (f_domain b)
  && oeq str_eqb (f_overload a) (f_overload b) && oeq str_eqb (f_doc a) (f_doc b)
  && leq str_eqb (f_inputs a) (f_inputs b) && leq str_eqb (f_outputs a) (f_outputs b)
  && leq str_eqb (f_attr a) (f_attr b) && leq (attr_eqb ge) (f_attr_protos a) (f_attr_protos b)
  && leq (node_eqb ge) (f_nodes a) (f_nodes b) && opsets_eqb (f_opsets a) (f_opsets b)
  && leq vinfo_eqb (f_vinfo a) (f_vinfo b) && dict_eqb (f_meta a) (f_meta b).
Definition model_eqb (a b : ModelP) : bool :=
  oeq Z.eqb (m_irv a) (m_irv b) && opsets_eqb (m_opsets a) (m_opsets b)
  && oeq str_eqb (m_pname a) (m_pname b) && oeq str_eqb (m_pver a) (m_pver b)
  && oeq str_eqb (m_domain a) (m_domain b) && oeq Z.eqb (m_mver a) (m_mver b) && oeq str_eqb (m_doc a) (m_doc b)
  && graph_eqb (gdepth (m_graph a)) (m_graph a) (m_graph b) && dict_eqb (m_meta a) (m_meta b)
  && leq function_eqb (m_funcs a) (m_funcs b) && leq devconf_eqb (m_conf a) (m_conf b).
Definition graph_eqb_top (a b : GraphP) : bool := graph_eqb (gdepth a) a b.

(* ================================================================== well-formedness *)
Definition wf_dict {V} (d : list (str * V)) : bool := nodup_str (map fst d).
Definition is_none {A} (o : option A) : bool := match o with None => true | Some _ => false end.

(* a type proto from which serde builds a type object (nested levels must) *)
Fixpoint wf_type_inner (t : TypeP) : bool :=
  match t with
  | TTensor (Some e) _ _ | TSparse (Some e) _ _ => valid_dtype e
  | TSeq (Some t') _ | TOpt (Some t') _ => wf_type_inner t'
  | _ => false
  end.
Definition wf_type (t : TypeP) : bool :=
  match t with TUnset den => is_none (truthy den) | _ => wf_type_inner t end.

Definition canonical_int (s : str) : bool :=
  match parse_dec s with Some z => str_eqb (to_dec z) s | None => false end.
Definition empty_bytes (o : option (list N)) : bool := is_none (truthy o).

Definition wf_tensor (t : TensorP) : bool :=
  wf_dict (t_meta t) &&
  if dflt 0 (t_loc t) =? 1 then
    wf_dict (t_ext t)                        (* unique keys: entries of any other key are kept as they are *)
    && mem k_location (t_ext t)
    && forallb (fun kv => negb (str_eqb (fst kv) k_offset || str_eqb (fst kv) k_length) || canonical_int (snd kv)) (t_ext t)
    && valid_dtype (dflt 0 (t_dtype t))
    && negb (nonempty (t_strs t)) && empty_bytes (t_raw t) && negb (nonempty (t_other t))
  else if dflt 0 (t_dtype t) =? STRING_DT then
    (dflt 0 (t_loc t) =? 0) && empty_bytes (t_raw t) && negb (nonempty (t_other t)) && negb (nonempty (t_ext t))
  else true.

Definition wf_vinfo (vi : VInfoP) : bool := wf_type (vi_type vi) && wf_dict (vi_meta vi).

Definition is_sparse_ty (ty : Z) : bool :=
  (ty =? AttributeType_SPARSE_TENSOR) || (ty =? AttributeType_SPARSE_TENSORS).

(* a non-reference attribute with a value of its declared kind *)
Definition wf_attrv {G} (wfg : G -> bool) (ty : Z) (v : AttrV G) : bool :=
  match v with
  | ANone => true
  | AI _ => ty =? AttributeType_INT | AF _ => ty =? AttributeType_FLOAT | AS _ => ty =? AttributeType_STRING
  | AIs _ => ty =? AttributeType_INTS | AFs _ => ty =? AttributeType_FLOATS
  | ASs l => (ty =? AttributeType_STRINGS) && forallb fst l
  | AT t => (ty =? AttributeType_TENSOR) && wf_tensor t
  | ATs l => (ty =? AttributeType_TENSORS) && forallb wf_tensor l
  | AG g => (ty =? AttributeType_GRAPH) && wfg g
  | AGs l => (ty =? AttributeType_GRAPHS) && forallb wfg l
  | ATP t => (ty =? AttributeType_TYPE_PROTO) && wf_type t
  | ATPs l => (ty =? AttributeType_TYPE_PROTOS) && forallb wf_type l
  | ASparse => false
  end.

Definition wf_attr {G} (allow_ref : bool) (wfg : G -> bool) (a : AttrP G) : bool :=
  let ty := dflt 0 (a_type a) in
  valid_attrtype ty && negb (is_sparse_ty ty) &&
  match truthy (a_ref a) with
  | Some _ => allow_ref && match a_val a with ANone => true | _ => false end
  | None => negb (ty =? AT_UNDEFINED) && wf_attrv wfg ty (a_val a)
  end.

Definition wf_nodedev (d : NodeDevP) : bool :=
  negb (is_none (truthy (nd_conf d))) && forallb (fun s => negb (is_none (truthy (sp_tensor s)))) (nd_specs d).

Definition wf_node {G} (allow_dev : bool) (wfg : list str -> G -> bool) (visible : list str) (n : NodeP G) : bool :=
  forallb (fun i => negb (nonempty i) || in_str i visible) (n_inputs n)
  && nodup_str (map (fun a => dflt [] (a_name a)) (n_attrs n))
  && forallb (wf_attr true (wfg visible)) (n_attrs n)
  && wf_dict (n_meta n)
  && (allow_dev || negb (nonempty (n_dev n))) && forallb wf_nodedev (n_dev n).

Definition disjoint (a b : list str) : bool := forallb (fun x => negb (in_str x b)) a.

Definition declared (g : GraphP) : list str :=
  map vname (g_inputs g) ++ map tname (g_inits g) ++ node_out_names (g_nodes g).

(* allow_dev: device configurations may appear on the nodes of this graph and of its nested graphs
   (model IR version >= 11, or a graph serialized on its own, without a model version) *)
Fixpoint wf_graph (allow_dev : bool) (visible : list str) (g : GraphP) : bool :=
  let ins := map vname (g_inputs g) in
  let inits := map tname (g_inits g) in
  let nouts := node_out_names (g_nodes g) in
  let outs := map vname (g_outputs g) in
  let vis := map vname (g_vinfo g) in
  let qs := map (fun q => dflt [] (qa_name q)) (g_quant g) in
  let decl := ins ++ inits ++ nouts in
  nodup_str ins && nodup_str inits && nodup_str nouts && disjoint nouts (ins ++ inits)
  && forallb nonempty ins && forallb nonempty inits
  && forallb wf_vinfo (g_inputs g) && forallb wf_vinfo (g_outputs g) && forallb wf_vinfo (g_vinfo g)
  && forallb (fun t => wf_tensor t && valid_dtype (dflt 0 (t_dtype t))) (g_inits g)
  && nodup_str outs && forallb (fun o => in_str o decl) outs
  (* a graph input that is returned as an output is described twice: consistently *)
  && forallb (fun o => forallb (fun i => negb (str_eqb (vname i) (vname o))
                                         || vinfo_eqb (norm_vinfo i) (norm_vinfo o)) (g_inputs g)) (g_outputs g)
  && nodup_str vis && forallb nonempty vis && disjoint vis (ins ++ outs)
  && nodup_str qs && forallb (fun q => wf_dict (qa_params q) && nonempty (qa_params q)) (g_quant g)
  && forallb (fun q => in_str q decl) qs
  && wf_dict (g_meta g)
  && forallb (wf_node allow_dev (wf_graph allow_dev) (visible ++ decl)) (g_nodes g).

Definition wf_function (allow_dev : bool) (allow_vinfo : bool) (f : FunctionP) : bool :=
  let nouts := node_out_names (f_nodes f) in
  let decl := f_inputs f ++ nouts in
  let vis := map vname (f_vinfo f) in
  nodup_str (f_inputs f) && forallb nonempty (f_inputs f) && nodup_str nouts && disjoint nouts (f_inputs f)
  && forallb (fun o => in_str o decl) (f_outputs f)
  && nodup_str (f_attr f ++ map (fun a => dflt [] (a_name a)) (f_attr_protos f))
  && forallb (wf_attr false (wf_graph true [])) (f_attr_protos f)
  && (allow_vinfo || negb (nonempty (f_vinfo f)))
  && nodup_str vis && forallb nonempty vis && forallb wf_vinfo (f_vinfo f)
  && wf_dict (f_opsets f) && wf_dict (f_meta f)
  && forallb (wf_node allow_dev (wf_graph allow_dev) decl) (f_nodes f).

Definition fident (f : FunctionP) : str * str * str :=
  (dflt [] (f_domain f), dflt [] (f_name f), dflt [] (f_overload f)).
Fixpoint nodup_fid (l : list (str * str * str)) : bool :=
  match l with [] => true | x :: r => negb (existsb (fkey_eqb x) r) && nodup_fid r end.

Definition wf_model (m : ModelP) : bool :=
  let irv := dflt 0 (m_irv m) in
  let dev := MULTI_DEVICE_SUPPORTED_VERSION <=? irv in
  let fvi := FUNCTION_VALUE_INFO_SUPPORTED_VERSION <=? irv in
  (3 <=? irv) && (irv <=? 13)
  && wf_dict (m_opsets m) && wf_dict (m_meta m)
  && (dev || negb (nonempty (m_conf m)))
  && wf_graph dev [] (m_graph m)
  && nodup_fid (map fident (m_funcs m))
  && forallb (wf_function dev fvi) (m_funcs m)
  && (fvi || negb (nonempty (m_funcs m))
      || negb (existsb (fun vi => has_slash (vname vi)) (g_vinfo (m_graph m)))).


(* entry point for a standalone AttributeProto *)
Definition norm_attr_top (a : AttrP GraphP) : AttrP GraphP := norm_attr norm_graph empty_graph a.
Definition wf_attr_top (a : AttrP GraphP) : bool := wf_attr true (wf_graph true []) a.
Definition attr_eqb_top (a b : AttrP GraphP) : bool := attr_eqb (graph_eqb (S (attrv_depth gdepth (a_val a)))) a b.

(* C20/Journal.v — the methods of class Journal as TRANSLATED from the source (Gen/C20Gen.v: j_enter,
   j_exit, j_record, j_init; one jstmt per Python statement, in order), interpreted over the model's
   state, and the proofs that the hand model's `enter`, `exit_` (Model.v) and `record` (Hooks.v) ARE
   those interpretations.  A statement the interpreter has no meaning for (JOther, a field the model
   does not have, a value of the wrong sort) makes the interpretation None, so any edit of these
   methods breaks one of the equalities below — by name — until model and proofs follow.

   Weak references: `journal_weak_only` says, of the translated statements, that JournalEntry(...)
   keeps of the recorded object nothing but a weak reference (every keyword argument is classified by
   the translator: scalar / weakref.ref(obj) / the object), that no method stores one of its
   parameters (the object, the exception, the traceback) in a field of the journal, and that every
   field written is one declared in __init__. *)
From Coq Require Import ZArith List Bool String.
From IRV Require Import Base.Exn C20.Types Gen.C20Gen C20.Model C20.Hooks.
Import ListNotations.
Open Scope string_scope.
Open Scope list_scope.

Definition jret := option jval.      (* Some v: `return v`; None: fell off the end, i.e. returns None *)

Definition with_cur (st : state) (c : option jid) : state :=
  mkSt (st_tbl st) c (st_saved st) (st_prev st) (st_wrong st).

(* __enter__ / __exit__ *)
Fixpoint jrun (j : jid) (stmts : list jstmt) (st : state) : option (state * jret) :=
  match stmts with
  | [] => Some (st, None)
  | JGlobal :: r => jrun j r st
  | JSetField f v :: r =>
      if String.eqb f "_previous_journal" then
        match v with
        | VCur => jrun j r (mkSt (st_tbl st) (st_cur st) (st_saved st) (setf (st_prev st) j (st_cur st)) (st_wrong st))
        | _ => None
        end
      else if String.eqb f "_original_methods" then
        match v with
        | VWrapClasses =>
            let snap := snapshot (st_tbl st) in
            let rhs := wrap_rhs j snap in
            jrun j r (mkSt (assign rhs (st_tbl st)) (st_cur st) (setf (st_saved st) j snap) (st_prev st)
                           (st_wrong st || negb (all_some rhs)))
        | _ => None
        end
      else None
  | JSetCur v :: r =>
      match v with
      | VSelf => jrun j r (with_cur st (Some j))
      | VSelfField f => if String.eqb f "_previous_journal" then jrun j r (with_cur st (st_prev st j)) else None
      | _ => None
      end
  | JRestore v :: r =>
      match v with
      | VSelfField f =>
          if String.eqb f "_original_methods" then
            let rhs := restore_rhs (st_saved st j) in
            jrun j r (mkSt (assign rhs (st_tbl st)) (st_cur st) (st_saved st) (st_prev st)
                           (st_wrong st || negb (all_some rhs)))
          else None
      | _ => None
      end
  | JReturn v :: _ => Some (st, Some v)
  | _ => None
  end.

Lemma enter_translated j st : jrun j j_enter st = Some (enter j st, Some VSelf).
Proof. reflexivity. Qed.

(* ... and __exit__ returns None (falls off the end): the exception of the block is never suppressed *)
Lemma exit_translated j st : jrun j j_exit st = Some (exit_ j st, None).
Proof. reflexivity. Qed.

(* record *)
Definition same_local (b : option string) (v : jval) : bool :=
  match b, v with Some x, VLocal y => String.eqb x y | _, _ => false end.

Fixpoint jrec (hooks : jid -> list hook) (j : jid) (e : entry) (stmts : list jstmt) (bound : option string)
  : option (list hev * option exn) :=
  match stmts with
  | [] => Some ([], None)
  | JNewEntry x _ :: r => jrec hooks j e r (Some x)
  | JAppendField f v :: r =>
      if String.eqb f "_entries" && same_local bound v then
        match jrec hooks j e r bound with Some (l, o) => Some (HRec j e :: l, o) | None => None end
      else None
  | JForCall f v :: r =>
      if String.eqb f "_hooks" && same_local bound v then
        let '(l, o) := fire j e 0 (hooks j) in
        match o with
        | Some x => Some (l, Some x)
        | None => match jrec hooks j e r bound with Some (l2, o2) => Some (l ++ l2, o2) | None => None end
        end
      else None
  | _ => None
  end.

Lemma record_translated hooks j e : jrec hooks j e j_record None = Some (record hooks j e).
Proof.
  unfold record. cbn. destruct (fire j e 0 (hooks j)) as [l [x|]]; [reflexivity|].
  rewrite app_nil_r. reflexivity.
Qed.

(* weak references only *)
Definition entry_fields (stmts : list jstmt) : list (string * ekind) :=
  flat_map (fun s => match s with JNewEntry _ fs => fs | _ => [] end) stmts.
Definition stores (stmts : list jstmt) : list (string * jval) :=
  flat_map (fun s => match s with JSetField f v | JAppendField f v => [(f, v)] | _ => [] end) stmts.
Definition declared (stmts : list jstmt) : list string :=
  flat_map (fun s => match s with JInitField f _ => [f] | _ => [] end) stmts.
Definition is_other (s : jstmt) : bool := match s with JOther _ => true | _ => false end.
Definition is_param (v : jval) : bool := match v with VParam _ => true | _ => false end.
Definition is_strong (k : ekind) : bool := match k with KStrongObj => true | _ => false end.

Definition journal_weak_only : bool :=
  let all := j_init ++ j_enter ++ j_exit ++ j_record in
  negb (existsb is_other all)
  && negb (existsb (fun fk => is_strong (snd fk)) (entry_fields all))
  && existsb (fun fk => match snd fk with KWeakObj => true | _ => false end) (entry_fields all)
  && negb (existsb (fun fv => is_param (snd fv)) (stores all))
  && forallb (fun fv => existsb (String.eqb (fst fv)) (declared j_init)) (stores all).

(* every call of an original inside a wrapper passes self, the positional arguments and the keyword
   arguments of the wrapper unchanged (the model's dispatched call hands the callee the caller's
   arguments) *)
Definition forwarding_complete : bool :=
  negb (match forwarding with [] => true | _ => false end)
  && forallb (fun x => let '(a, b, c) := snd x in a && b && c) forwarding.

(* C20/Property.v — ONLY the property theorems (each closed by a lemma of Proofs*.v) and their
   Print Assumptions.  Statements are over the tables of Gen/C20Gen.v, re-extracted from
   /repo/src/onnx_ir/journaling/_wrappers.py on every run, and the model C20/Model.v.

   Reading of "one entry per completed instrumented operation": every wrapper records exactly once
   on the path of a call that returns (C20_records_once, C20_wrapped_call); the wrappers built by
   _setter_wrapper/_method_wrapper/_container_method_wrapper record BEFORE calling the original,
   so a call that raises leaves an entry as well (counted exactly by C20_entries_count);
   _init_wrapper records after, so a failed __init__ leaves none. *)
From Coq Require Import ZArith List Bool String.
From IRV Require Import Base.Exn C20.Types Gen.C20Gen C20.Model C20.Proofs C20.Proofs2 C20.Hooks C20.Journal.
Import ListNotations.
Open Scope list_scope.

(* The generated lists are coherent: every wrapper is installed in the class attribute whose saved
   original it wraps; every assignment of restore_ir_classes writes a class attribute with the
   original saved from that very attribute; every patched attribute is restored (patched ⊆ restored
   ⊆ saved); every wrapper calls the original exactly once and returns its result wherever a caller
   can see it.  Checked by computation on the lists as they are in the source NOW: adding a wrapper
   without its restore, restoring from the wrong key, or dropping a `return` breaks this proof. *)
Theorem C20_lists_ok : lists_ok = true.
Proof. vm_compute. reflexivity. Qed.
Print Assumptions C20_lists_ok.

(* Every wrapper records exactly once on the path of a call that returns. *)
Theorem C20_records_once : records_once_all = true.
Proof. vm_compute. reflexivity. Qed.
Print Assumptions C20_records_once.

(* RESTORE.  For every user program p — `with Journal()` blocks nested to any depth, exceptions
   raised by IR operations or by user code anywhere inside, try/except anywhere — started with
   ANY class table (pristine, or already inside other journals, or monkey-patched by someone else):
   after p, every class attribute holds exactly what it held before, and the current journal is the
   one before.  In particular this holds for p = PWith j blk PRet (one `with` statement, left
   normally or by exception).  wf: a journal object is not re-entered while it is active. *)
Theorem C20_restore :
  forall (H V : Type) (vnone : V) (p : prog H V) (active : list jid) (st : state) (h : H),
  wf H V active p ->
  let '(st', _, _, _, _) := run H V vnone p st h in
  (forall s, st_tbl st' s = st_tbl st s) /\ st_cur st' = st_cur st.
Proof. intros. apply (restore_stmt H V vnone C20_lists_ok p active); assumption. Qed.
Print Assumptions C20_restore.

(* The well-formedness hypothesis is needed (and says what "properly nested" has to mean): nesting
   the SAME Journal object inside itself leaves the classes wrapped for good.  Not a violation of
   the property as read here (distinct journal objects); reproduced on the implementation by the
   harness (probe `reentry`) so that the model is known to agree with the code on this path too. *)
Theorem C20_reentrant_use_not_restored :
  exists p : prog unit unit,
    let '(st', _, _, _, _) := run unit unit tt p st0 tt in pristine st' = false.
Proof. exists (PWith 0 (PWith 0 PRet PRet) PRet). vm_compute. reflexivity. Qed.
Print Assumptions C20_reentrant_use_not_restored.

(* TRANSPARENT (per wrapper).  Calling a wrapper installed by journal j around the original =
   calling the original: same heap, same result/exception as far as any caller can observe it, no
   `wrong` flag, and journal j extended by exactly one entry when the call returns. *)
Theorem C20_wrapped_call :
  forall (H V : Type) (vnone : V) p j self owner (callee_run : H -> out H V) h h1 r lc,
  In p patched -> callee_run h = (h1, r, lc, false) ->
  exists r' l',
    exec_impl H V vnone (Wrapped j p (Orig (p_slot p))) (p_slot p) self owner callee_run h = (h1, r', l', false)
    /\ observe V vnone (p_slot p) r' = observe V vnone (p_slot p) r
    /\ proj j l' = pre_entries p self owner ++ proj j lc ++ post_entries V p self owner r
    /\ (is_ok r = true -> List.length (pre_entries p self owner ++ post_entries V p self owner r) = 1).
Proof. intros. apply (wrapped_call_stmt H V vnone C20_lists_ok); auto using C20_records_once. Qed.
Print Assumptions C20_wrapped_call.

(* TRANSPARENT (whole programs).  Running any program with journaling (any nesting, exceptions
   anywhere) from a state whose table is the one `stack` active journals produce = running it with
   no journaling at all: same final heap, same list of results of the IR operations, same
   exception; the model never leaves its domain (`wrong`); and every journal j contains exactly
   prog_entries j: the entries of the operations executed while j was active, in program order. *)
Theorem C20_transparent :
  forall (H V : Type) (vnone : V) (p : prog H V) (stack : list jid) (st : state) (h : H),
  NoDup stack -> wf H V stack p -> (forall s, st_tbl st s = tbl_of stack s) ->
  let '(st', h', rs, o, l) := run H V vnone p st h in
  run_plain H V vnone p h = (h', rs, o) /\ st_wrong st' = st_wrong st
  /\ forall j, proj j l = prog_entries H V vnone j stack p h.
Proof. intros. apply (transparent_stmt H V vnone C20_lists_ok); assumption. Qed.
Print Assumptions C20_transparent.

(* Number of entries an active journal receives for a piece of library code: one per completed
   instrumented call, plus one per FAILED instrumented call whose wrapper records first. *)
Theorem C20_entries_count :
  forall (H V : Type) (vnone : V) (b : body H V) (h : H),
  List.length (body_entries H V vnone b h) =
  List.length (filter (fun c => snd c) (calls H V vnone b h))
  + list_sum (map (fun c => n_pre (fst c)) (filter (fun c => negb (snd c)) (calls H V vnone b h))).
Proof. intros. apply count_stmt. exact C20_records_once. Qed.
Print Assumptions C20_entries_count.

(* ------------------------------------------------------------------ hooks (Journal.add_hook) *)

(* HOOKS, transparent.  With any number of hooks on any journals, as long as no hook raises: the run
   equals the plain run (heap, results, exception), every journal contains exactly prog_entries, and
   every hook of journal j is called exactly once per entry of j, with that entry, in order. *)
Theorem C20_hooks_transparent :
  forall (H V : Type) (vnone : V) (hooks : jid -> list hook) (p : prog H V) (stack : list jid) (st : state) (h : H),
  quiet hooks -> NoDup stack -> wf H V stack p -> (forall s, st_tbl st s = tbl_of stack s) ->
  let '(st', h', rs, o, l) := runH H V vnone hooks p st h in
  run_plain H V vnone p h = (h', rs, o) /\ st_wrong st' = st_wrong st
  /\ (forall j, recs_of j l = prog_entries H V vnone j stack p h)
  /\ (forall j k, k < List.length (hooks j) -> calls_of j k l = prog_entries H V vnone j stack p h).
Proof. intros. apply (hooks_transparent_stmt H V vnone C20_lists_ok); assumption. Qed.
Print Assumptions C20_hooks_transparent.

(* HOOKS, restore.  For EVERY hook behaviour (raising included) the classes and the current journal
   are restored exactly as without hooks. *)
Theorem C20_restore_hooks :
  forall (H V : Type) (vnone : V) (hooks : jid -> list hook) (p : prog H V) (active : list jid) (st : state) (h : H),
  wf H V active p ->
  let '(st', _, _, _, _) := runH H V vnone hooks p st h in
  (forall s, st_tbl st' s = st_tbl st s) /\ st_cur st' = st_cur st.
Proof. intros. apply (restore_hooks_stmt H V vnone C20_lists_ok hooks p active); assumption. Qed.
Print Assumptions C20_restore_hooks.

(* OBSERVATION (outside the property's quantifier: a user-supplied hook that raises is user code
   deliberately injected into Journal.record, and propagating its exception is a documented debugging
   facility).  Characterisation of the behaviour with a raising hook: the exception of a hook is not
   caught by Journal.record, so under a record-first wrapper the original is never called.  Example:
   `with j (hook raising RuntimeError): g.sort()` - plain: heap changed, returns; journaled: heap
   untouched, RuntimeError.  The implementation is checked to behave as the model says (probe
   `raising-hook` and the raising-hook correspondence stream); reported as an observation. *)
Theorem C20_raising_hook_aborts_operation :
  exists (hooks : jid -> list hook) (p : prog nat unit),
    wf nat unit [] p /\
    let '(_, h', rs, o, _) := runH nat unit tt hooks p st0 0 in
    run_plain nat unit tt p 0 = (1, [Ok tt], None) /\ (h', rs, o) = (0, [Raise RuntimeError], None).
Proof.
  exists (fun _ => [fun _ => Some RuntimeError]).
  exists (PWith 1 (PDo (Invoke "_core.Graph.sort" 1%Z 1%Z (Prim S (Ret (Ok tt))) (fun r => Ret r)) (fun _ => PRet)) PRet).
  vm_compute. intuition.
Qed.
Print Assumptions C20_raising_hook_aborts_operation.

(* quiet is satisfiable by a non-trivial hook family *)
Example quiet_nontrivial : quiet (fun j => if Nat.eqb j 1 then [fun _ => None; fun _ => None] else []).
Proof. intros j f e. destruct (Nat.eqb j 1); simpl; intuition; subst; reflexivity. Qed.

(* ------------------------------------------------------------------ the model IS the translated source *)

(* Journal.__enter__, translated statement by statement from _journaling.py on this run (Gen: j_enter),
   interpreted over the model state, is the hand model `enter` and returns self. *)
Theorem C20_enter_translated : forall j st, jrun j j_enter st = Some (enter j st, Some VSelf).
Proof. exact enter_translated. Qed.
Print Assumptions C20_enter_translated.

(* Journal.__exit__ (Gen: j_exit) is the hand model `exit_` AND returns None: it never suppresses the
   exception of the block (PWith propagates it) and stores nothing else. *)
Theorem C20_exit_translated : forall j st, jrun j j_exit st = Some (exit_ j st, None).
Proof. exact exit_translated. Qed.
Print Assumptions C20_exit_translated.

(* Journal.record (Gen: j_record) is the hand model `record` of Hooks.v: build the entry, append it,
   then call the hooks in order; unconditionally (no filtering, no de-duplication). *)
Theorem C20_record_translated :
  forall hooks j e, jrec hooks j e j_record None = Some (record hooks j e).
Proof. exact record_translated. Qed.
Print Assumptions C20_record_translated.

(* WEAK REFERENCES.  Of the translated statements of Journal.__init__/__enter__/__exit__/record:
   JournalEntry(...) keeps of the recorded object a weak reference and nothing else that reaches it;
   no method stores one of its parameters (object, exception, traceback) in a field of the journal;
   every field written is declared in __init__; no statement is outside the translated language. *)
Theorem C20_journal_weak_only : journal_weak_only = true.
Proof. vm_compute. reflexivity. Qed.
Print Assumptions C20_journal_weak_only.

(* ARGUMENT FORWARDING.  Every call of an original inside a wrapper factory (as extracted from the
   source on this run) passes self, *args and **kwargs of the wrapper unchanged. *)
Theorem C20_forwarding_complete : forwarding_complete = true.
Proof. vm_compute. reflexivity. Qed.
Print Assumptions C20_forwarding_complete.

(* The hypotheses are satisfiable by non-trivial programs: three nested journals, an operation
   that raises inside the innermost block, the exception caught two levels up. *)
Example wf_nontrivial :
  wf unit Z [] (PWith 1 (PTry (PWith 2 (PWith 3
        (PDo (Invoke "_core.Graph.append" 7%Z 7%Z (Ret (Raise ValueError)) (fun r => Ret r))
             (fun r => match r with Raise e => PThrow e | Ok _ => PRet end)) PRet) PRet)
        (fun _ => PRet)) PRet).
Proof. simpl. intuition (try discriminate). destruct r; simpl; exact I. Qed.

(* C20/Proofs.v — lemmas about the class table: enter installs, exit restores. *)
From Coq Require Import ZArith List Bool String Lia.
From IRV Require Import Base.Exn C20.Types Gen.C20Gen C20.Model.
Import ListNotations.
Open Scope string_scope.
Open Scope list_scope.
#[local] Opaque saved patched restored.

(* ------------------------------------------------------------------ find_last / lookup / assign *)

Lemma find_last_sat {X} (f : X -> bool) l x : find_last f l = Some x -> f x = true /\ In x l.
Proof.
  induction l as [|a l IH]; simpl; [discriminate|].
  destruct (find_last f l) as [y|] eqn:E.
  - intros Hx. inversion Hx; subst. destruct (IH eq_refl) as [Hf Hin]. split; [exact Hf | right; exact Hin].
  - destruct (f a) eqn:Fa; [|discriminate]. intros Hx. inversion Hx; subst. split; [exact Fa | left; reflexivity].
Qed.

Lemma find_last_none {X} (f : X -> bool) l : find_last f l = None -> forall x, In x l -> f x = false.
Proof.
  induction l as [|a l IH]; simpl; [intros _ x []|].
  destruct (find_last f l) as [y|] eqn:E; [discriminate|].
  destruct (f a) eqn:Fa; [discriminate|].
  intros _ x [Hx|Hx]; [subst; exact Fa | apply IH; [reflexivity | exact Hx]].
Qed.

Lemma find_last_map {X Y} (g : X -> Y) (f : Y -> bool) l :
  find_last f (map g l) = option_map g (find_last (fun x => f (g x)) l).
Proof.
  induction l as [|a l IH]; simpl; [reflexivity|].
  rewrite IH. destruct (find_last (fun x => f (g x)) l); simpl; [reflexivity|].
  destruct (f (g a)); reflexivity.
Qed.

Lemma lookup_map {A B} (g : A -> B) k (l : list (string * A)) :
  lookup k (map (fun x => (fst x, g (snd x))) l) = option_map g (lookup k l).
Proof.
  unfold lookup. induction l as [|[k' a] l IH]; simpl; [reflexivity|].
  destruct (find_last (fun x => String.eqb (fst x) k) l) as [[k2 a2]|] eqn:E.
  - simpl in IH. destruct (find_last _ (map _ l)) as [[k3 b3]|]; simpl in *; [|discriminate].
    inversion IH; subst. reflexivity.
  - simpl in IH. destruct (find_last _ (map _ l)) as [[k3 b3]|]; simpl in *; [discriminate|].
    destruct (String.eqb k' k); reflexivity.
Qed.

Lemma lookup_snapshot t k : lookup k (snapshot t) = option_map t (lookup k saved).
Proof. unfold snapshot. apply lookup_map. Qed.

Lemma assign_map {X} (fs : X -> slot) (fi : X -> impl) l : forall t s,
  assign (map (fun x => (fs x, Some (fi x))) l) t s =
  match find_last (fun x => String.eqb (fs x) s) l with Some x => fi x | None => t s end.
Proof.
  induction l as [|a l IH]; intros t s; simpl; [reflexivity|].
  rewrite IH. destruct (find_last (fun x => String.eqb (fs x) s) l); [reflexivity|].
  unfold upd. destruct (String.eqb (fs a) s); reflexivity.
Qed.

Lemma all_some_map {X} (fs : X -> slot) (fi : X -> impl) l :
  all_some (map (fun x => (fs x, Some (fi x))) l) = true.
Proof. unfold all_some. apply forallb_forall. intros x Hx. apply in_map_iff in Hx. destruct Hx as [y [<- _]]. reflexivity. Qed.

Lemma str_opt_eqb_some a s : str_opt_eqb a (Some s) = true -> a = Some s.
Proof. destruct a as [x|]; simpl; [|discriminate]. intros E. apply String.eqb_eq in E. subst. reflexivity. Qed.

(* ------------------------------------------------------------------ consequences of lists_ok *)

Section Ok.
Hypothesis OK : lists_ok = true.

Lemma ok_patched p : In p patched ->
  lookup (p_key p) saved = Some (p_slot p) /\ wrapper_ok p = true
  /\ existsb (fun sk => String.eqb (fst sk) (p_slot p)) restored = true.
Proof.
  intros Hp. unfold lists_ok in OK.
  apply andb_prop in OK. destruct OK as [O123 O4].
  apply andb_prop in O123. destruct O123 as [O12 O3].
  apply andb_prop in O12. destruct O12 as [O1 O2].
  rewrite forallb_forall in O1, O3, O4.
  split; [apply str_opt_eqb_some, O1, Hp | split; [apply O4, Hp | apply O3, Hp]].
Qed.

Lemma ok_restored sk : In sk restored -> lookup (snd sk) saved = Some (fst sk).
Proof.
  intros Hs. unfold lists_ok in OK.
  apply andb_prop in OK. destruct OK as [O123 _].
  apply andb_prop in O123. destruct O123 as [O12 _].
  apply andb_prop in O12. destruct O12 as [_ O2].
  rewrite forallb_forall in O2. apply str_opt_eqb_some, O2, Hs.
Qed.

Lemma wrap_rhs_ok j t :
  wrap_rhs j (snapshot t) = map (fun p => (p_slot p, Some (Wrapped j p (t (p_slot p))))) patched.
Proof.
  unfold wrap_rhs. apply map_ext_in. intros p Hp.
  rewrite lookup_snapshot. destruct (ok_patched p Hp) as [-> _]. reflexivity.
Qed.

Lemma restore_rhs_ok t :
  restore_rhs (snapshot t) = map (fun sk => (fst sk, Some (t (fst sk)))) restored.
Proof.
  unfold restore_rhs. apply map_ext_in. intros sk Hs.
  rewrite lookup_snapshot. rewrite (ok_restored sk Hs). reflexivity.
Qed.

Lemma find_patch_props s p : find_patch s = Some p -> p_slot p = s /\ In p patched.
Proof.
  unfold find_patch. intros F. apply find_last_sat in F. destruct F as [E Hin].
  apply String.eqb_eq in E. split; assumption.
Qed.

(* the table right after Journal.__enter__ *)
Lemma enter_tbl j st s :
  st_tbl (enter j st) s =
  match find_patch s with Some p => Wrapped j p (st_tbl st s) | None => st_tbl st s end.
Proof.
  unfold enter; simpl. rewrite wrap_rhs_ok.
  rewrite (assign_map p_slot (fun p => Wrapped j p (st_tbl st (p_slot p)))).
  unfold find_patch. destruct (find_last (fun p => String.eqb (p_slot p) s) patched) as [p|] eqn:F; [|reflexivity].
  apply find_last_sat in F. destruct F as [E _]. apply String.eqb_eq in E. rewrite E. reflexivity.
Qed.

Lemma enter_wrong j st : st_wrong (enter j st) = st_wrong st.
Proof.
  unfold enter; simpl. rewrite wrap_rhs_ok.
  rewrite (all_some_map p_slot (fun p => Wrapped j p (st_tbl st (p_slot p)))). simpl. apply orb_false_r.
Qed.

Lemma enter_saved j st : st_saved (enter j st) j = snapshot (st_tbl st).
Proof. unfold enter, setf; simpl. rewrite Nat.eqb_refl. reflexivity. Qed.
Lemma enter_prev j st : st_prev (enter j st) j = st_cur st.
Proof. unfold enter, setf; simpl. rewrite Nat.eqb_refl. reflexivity. Qed.
Lemma enter_other j st j' : j' <> j ->
  st_saved (enter j st) j' = st_saved st j' /\ st_prev (enter j st) j' = st_prev st j'.
Proof.
  intros N. unfold enter, setf; simpl.
  destruct (Nat.eqb j j') eqn:E; [apply Nat.eqb_eq in E; congruence|]. split; reflexivity.
Qed.

(* Journal.__exit__ undoes Journal.__enter__, whatever happened in between, provided the table at
   exit is the table enter left and the journal still holds what enter stored in it *)
Lemma exit_restores j st st1 :
  (forall s, st_tbl st1 s = st_tbl (enter j st) s) ->
  st_saved st1 j = snapshot (st_tbl st) ->
  st_prev st1 j = st_cur st ->
  (forall s, st_tbl (exit_ j st1) s = st_tbl st s)
  /\ st_cur (exit_ j st1) = st_cur st
  /\ st_wrong (exit_ j st1) = st_wrong st1
  /\ st_saved (exit_ j st1) = st_saved st1 /\ st_prev (exit_ j st1) = st_prev st1.
Proof.
  intros Ht Hs Hp. unfold exit_; simpl. rewrite Hs, restore_rhs_ok.
  split; [|split; [exact Hp | split; [|split; reflexivity]]].
  - intros s. rewrite (assign_map fst (fun sk => st_tbl st (fst sk))).
    match goal with |- context [find_last ?f restored] => destruct (find_last f restored) as [sk|] eqn:F end.
    + apply find_last_sat in F. destruct F as [E _]. apply String.eqb_eq in E. cbn beta. rewrite E. reflexivity.
    + rewrite Ht, enter_tbl. destruct (find_patch s) as [p|] eqn:FP; [|reflexivity].
      exfalso. apply find_patch_props in FP. destruct FP as [Es Hin].
      destruct (ok_patched p Hin) as [_ [_ Ex]].
      apply existsb_exists in Ex. destruct Ex as [sk [Hsk E]].
      pose proof (find_last_none _ _ F sk Hsk) as N. cbn beta in N. rewrite Es in E. apply String.eqb_eq in E. apply String.eqb_neq in N. exact (N E).
  - rewrite (all_some_map fst (fun sk => st_tbl st (fst sk))). simpl. apply orb_false_r.
Qed.

End Ok.

(* ------------------------------------------------------------------ restoration, all programs *)

Section Restore.
Variables (H V : Type) (vnone : V).
Hypothesis OK : lists_ok = true.

Notation prog := (prog H V).
Notation run := (run H V vnone).

Definition same_classes (active : list jid) (st st' : state) : Prop :=
  (forall s, st_tbl st' s = st_tbl st s) /\ st_cur st' = st_cur st
  /\ forall j, In j active -> st_saved st' j = st_saved st j /\ st_prev st' j = st_prev st j.

Lemma same_classes_trans a st1 st2 st3 :
  same_classes a st1 st2 -> same_classes a st2 st3 -> same_classes a st1 st3.
Proof.
  intros [T1 [C1 S1]] [T2 [C2 S2]]. split; [|split].
  - intros s. rewrite T2. apply T1.
  - congruence.
  - intros j Hj. destruct (S1 j Hj) as [A1 B1]. destruct (S2 j Hj) as [A2 B2]. split; congruence.
Qed.

Lemma same_classes_set_wrong a st w : same_classes a st (set_wrong st w).
Proof. split; [|split]; simpl; auto. Qed.

Lemma run_restores : forall (p : prog) active st h st' h' rs o l,
  wf H V active p -> run p st h = (st', h', rs, o, l) -> same_classes active st st'.
Proof.
  induction p as [|e|b k IH|j blk IHb k IHk|blk IHb k IHk]; intros active st h st' h' rs o l W R; simpl in R.
  - inversion R; subst. split; [|split]; auto.
  - inversion R; subst. split; [|split]; auto.
  - destruct (exec H V vnone (st_tbl st) b h) as [[[h1 r] l1] w] eqn:E.
    destruct (run (k r) (set_wrong st w) h1) as [[[[st2 h2] rs2] o2] l2] eqn:R2.
    inversion R; subst. simpl in W.
    eapply same_classes_trans; [apply same_classes_set_wrong | eapply IH; [apply W | exact R2]].
  - destruct W as [Nj [Wb Wk]].
    destruct (run blk (enter j st) h) as [[[[st1 h1] rs1] o1] l1] eqn:R1.
    pose proof (IHb _ _ _ _ _ _ _ _ Wb R1) as [T1 [C1 S1]].
    destruct (S1 j (or_introl eq_refl)) as [Sj Pj].
    rewrite (enter_saved j st) in Sj. rewrite (enter_prev j st) in Pj.
    destruct (exit_restores OK j st st1 T1 Sj Pj) as [T2 [C2 [_ [Sv Pv]]]].
    assert (SC : same_classes active st (exit_ j st1)).
    { split; [exact T2 | split; [exact C2|]]. intros j' Hj'.
      rewrite Sv, Pv. destruct (S1 j' (or_intror Hj')) as [A B]. rewrite A, B.
      apply enter_other. intros ->. exact (Nj Hj'). }
    destruct o1 as [e|].
    + inversion R; subst. exact SC.
    + destruct (run k (exit_ j st1) h1) as [[[[st3 h3] rs3] o3] l3] eqn:R3.
      inversion R; subst. eapply same_classes_trans; [exact SC | eapply IHk; [exact Wk | exact R3]].
  - destruct W as [Wb Wk].
    destruct (run blk st h) as [[[[st1 h1] rs1] o1] l1] eqn:R1.
    destruct (run (k o1) st1 h1) as [[[[st2 h2] rs2] o2] l2] eqn:R2.
    inversion R; subst.
    eapply same_classes_trans; [eapply IHb; [exact Wb | exact R1] | eapply IHk; [apply Wk | exact R2]].
Qed.

End Restore.

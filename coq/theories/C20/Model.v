(* C20/Model.v — executable model of onnx_ir.journaling (Journal.__enter__/__exit__/record,
   wrap_ir_classes / restore_ir_classes and the wrapper factories).  Definitions only.

   Class table.   slot -> impl,  impl := Orig s | Wrapped j patch impl.  `Orig s` is the function
   that the class attribute `s` holds when no journal is active; `Wrapped j p i` is the closure
   built by the factory p_fac for journal j around the callable i.

   Enter / exit.  `enter j`  = Journal.__enter__:  previous := current; current := j;
                               snapshot := {key: table[slot]} for the GENERATED list `saved`;
                               for every GENERATED patch p, in order:
                                   table[p_slot] := Wrapped j p snapshot[p_key];
                               j.original_methods := snapshot.
                  `exit_ j`  = Journal.__exit__ :  for every GENERATED (slot, key) of `restored`, in
                               order: table[slot] := j.original_methods[key];  current := j.previous.
                  A missing dictionary key is a KeyError in Python (enter/exit aborts half way);
                  the model sets the flag `wrong` instead — the theorems show it stays false.

   Programs.      Library code is a `body` (free monad: primitive heap effects, heap reads, and
                  *dispatched* calls `Invoke s self owner callee k`, i.e. "look the class attribute
                  s up in the table and call it"; `callee` is what the ORIGINAL function does).
                  User code is a `prog`: IR operations, `with Journal()` blocks (PWith), `raise`
                  (PThrow) and try/except (PTry).  `run_body`/`run_plain` ignore the table (no
                  journaling at all); `exec`/`run` go through the table and produce the
                  chronological log of (journal, entry) records.

   Return values. Python discards what __init__, a property setter, __setitem__ and __delitem__
                  return, so both semantics hand `observe s r` to the caller's continuation. *)
From Coq Require Import ZArith List Bool String.
From IRV Require Import Base.Exn C20.Types Gen.C20Gen.
Import ListNotations.
Open Scope string_scope.
Open Scope list_scope.

Definition slot := string.
Definition jid := nat.
Definition obj := Z.
Definition entry := (string * obj)%type.         (* operation, handle of the recorded object *)
Definition ev := (jid * entry)%type.

Inductive impl :=
| Orig (s : slot)
| Wrapped (j : jid) (p : patch) (inner : impl).

(* ------------------------------------------------------------------ dictionary / assignment helpers *)

(* the LAST element satisfying f: a later dict key / a later assignment wins *)
Fixpoint find_last {X} (f : X -> bool) (l : list X) : option X :=
  match l with
  | [] => None
  | x :: r => match find_last f r with
              | Some y => Some y
              | None => if f x then Some x else None
              end
  end.

(* dict literal / dict lookup *)
Definition lookup {A} (k : string) (l : list (string * A)) : option A :=
  option_map snd (find_last (fun x => String.eqb (fst x) k) l).

(* the patch wrap_ir_classes installs in slot s *)
Definition find_patch (s : slot) : option patch :=
  find_last (fun p => String.eqb (p_slot p) s) patched.

Definition upd (t : slot -> impl) (s : slot) (i : impl) : slot -> impl :=
  fun s' => if String.eqb s s' then i else t s'.

(* sequence of assignments  table[s] := i  (None = KeyError when evaluating the right-hand side) *)
Fixpoint assign (l : list (slot * option impl)) (t : slot -> impl) : slot -> impl :=
  match l with
  | [] => t
  | (s, Some i) :: r => assign r (upd t s i)
  | (_, None) :: r => assign r t
  end.
Definition all_some {A B} (l : list (A * option B)) : bool :=
  forallb (fun x => match snd x with Some _ => true | None => false end) l.

(* ------------------------------------------------------------------ journal state *)

Record state := mkSt {
  st_tbl   : slot -> impl;
  st_cur   : option jid;                          (* _current_journal *)
  st_saved : jid -> list (string * impl);         (* Journal._original_methods *)
  st_prev  : jid -> option jid;                   (* Journal._previous_journal *)
  st_wrong : bool
}.

Definition snapshot (t : slot -> impl) : list (string * impl) :=
  map (fun ks => (fst ks, t (snd ks))) saved.

Definition wrap_rhs (j : jid) (snap : list (string * impl)) : list (slot * option impl) :=
  map (fun p => (p_slot p, option_map (Wrapped j p) (lookup (p_key p) snap))) patched.

Definition restore_rhs (snap : list (string * impl)) : list (slot * option impl) :=
  map (fun sk => (fst sk, lookup (snd sk) snap)) restored.

Definition setf {A} (f : jid -> A) (j : jid) (a : A) : jid -> A :=
  fun j' => if Nat.eqb j j' then a else f j'.

Definition enter (j : jid) (st : state) : state :=
  let snap := snapshot (st_tbl st) in
  let rhs := wrap_rhs j snap in
  mkSt (assign rhs (st_tbl st)) (Some j) (setf (st_saved st) j snap) (setf (st_prev st) j (st_cur st))
       (st_wrong st || negb (all_some rhs)).

Definition exit_ (j : jid) (st : state) : state :=
  let rhs := restore_rhs (st_saved st j) in
  mkSt (assign rhs (st_tbl st)) (st_prev st j) (st_saved st) (st_prev st)
       (st_wrong st || negb (all_some rhs)).

Definition st0 : state := mkSt Orig None (fun _ => []) (fun _ => None) false.

(* ------------------------------------------------------------------ return values *)

Fixpoint ends_with (suffix s : string) : bool :=
  if String.eqb suffix s then true
  else match s with
       | EmptyString => false
       | String _ r => ends_with suffix r
       end.

(* is the value returned by the function in slot s visible to its caller? *)
Definition retobs (s : slot) : bool :=
  negb (ends_with ".__init__" s || ends_with ".fset" s || ends_with ".__setitem__" s
        || ends_with ".__delitem__" s).

Section Exec.
Variables (H V : Type).
Variable vnone : V.

Definition discard (r : res V) : res V :=
  match r with Ok _ => Ok vnone | Raise e => Raise e end.
Definition observe (s : slot) (r : res V) : res V := if retobs s then r else discard r.

(* ------------------------------------------------------------------ library code *)

Inductive body :=
| Ret (r : res V)                                   (* return v / raise e *)
| Prim (f : H -> H) (k : body)                      (* primitive effect on the IR heap *)
| Read (k : H -> body)                              (* depend on the heap *)
| Invoke (s : slot) (self owner : obj) (callee : body) (k : res V -> body).
    (* dispatched call of class attribute s on `self` (owner = getattr(self, target_attr) for the
       container classes); callee = behaviour of the original function; k = what the caller does
       with the outcome (it may catch the exception) *)

Fixpoint run_body (b : body) (h : H) : H * res V :=
  match b with
  | Ret r => (h, r)
  | Prim f k => run_body k (f h)
  | Read k => run_body (k h) h
  | Invoke s _ _ callee k => let '(h1, r) := run_body callee h in run_body (k (observe s r)) h1
  end.

(* outcome of going through the table: heap, result, records in chronological order, wrong flag *)
Definition out := (H * res V * list ev * bool)%type.

Definition tgt_of (t : wtarget) (self owner : obj) : obj :=
  match t with TSelf => self | TOwner => owner end.

(* the inner `wrapper` of a factory, statement by statement *)
Fixpoint wrun (j : jid) (p : patch) (self owner : obj) (inner : H -> out) (steps : list wstep) (h : H) : out :=
  match steps with
  | [] => (h, Ok vnone, [], false)
  | WRead :: r => wrun j p self owner inner r h
  | WRecord t :: r =>
      let '(h1, x, l, w) := wrun j p self owner inner r h in
      (h1, x, (j, (p_op p, tgt_of t self owner)) :: l, w)
  | WCall :: r =>
      let '(h1, x, l1, w1) := inner h in
      match x with
      | Ok _ => let '(h2, y, l2, w2) := wrun j p self owner inner r h1 in (h2, y, l1 ++ l2, w1 || w2)
      | Raise e => (h1, Raise e, l1, w1)
      end
  | WCallRet :: _ => inner h
  end.

Fixpoint exec_impl (i : impl) (s : slot) (self owner : obj) (callee_run : H -> out) (h : H) : out :=
  match i with
  | Orig s' => if String.eqb s' s then callee_run h
               else let '(h1, x, l, _) := callee_run h in (h1, x, l, true)   (* a foreign original *)
  | Wrapped j p inner => wrun j p self owner (exec_impl inner s self owner callee_run) (p_steps p) h
  end.

Fixpoint exec (t : slot -> impl) (b : body) (h : H) : out :=
  match b with
  | Ret r => (h, r, [], false)
  | Prim f k => exec t k (f h)
  | Read k => exec t (k h) h
  | Invoke s self owner callee k =>
      let '(h1, r, l1, w1) := exec_impl (t s) s self owner (exec t callee) h in
      let '(h2, r2, l2, w2) := exec t (k (observe s r)) h1 in
      (h2, r2, l1 ++ l2, w1 || w2)
  end.

(* ------------------------------------------------------------------ user code *)

Inductive prog :=
| PRet                                              (* the block ends normally *)
| PThrow (e : exn)                                  (* raise e *)
| PDo (b : body) (k : res V -> prog)                (* an IR operation; k may re-raise its exception *)
| PWith (j : jid) (blk : prog) (k : prog)           (* with <journal j>: blk ; then k *)
| PTry (blk : prog) (k : option exn -> prog).       (* try: blk except BaseException: ... ; then k *)

Fixpoint run_plain (p : prog) (h : H) : H * list (res V) * option exn :=
  match p with
  | PRet => (h, [], None)
  | PThrow e => (h, [], Some e)
  | PDo b k => let '(h1, r) := run_body b h in
               let '(h2, rs, o) := run_plain (k r) h1 in (h2, r :: rs, o)
  | PWith _ blk k =>
      let '(h1, rs1, o) := run_plain blk h in
      match o with
      | None => let '(h2, rs2, o2) := run_plain k h1 in (h2, rs1 ++ rs2, o2)
      | Some e => (h1, rs1, Some e)
      end
  | PTry blk k =>
      let '(h1, rs1, o) := run_plain blk h in
      let '(h2, rs2, o2) := run_plain (k o) h1 in (h2, rs1 ++ rs2, o2)
  end.

Definition set_wrong (st : state) (w : bool) : state :=
  mkSt (st_tbl st) (st_cur st) (st_saved st) (st_prev st) (st_wrong st || w).

(* the same program with journaling: state of the classes, heap, results, exception, log *)
Fixpoint run (p : prog) (st : state) (h : H) : state * H * list (res V) * option exn * list ev :=
  match p with
  | PRet => (st, h, [], None, [])
  | PThrow e => (st, h, [], Some e, [])
  | PDo b k =>
      let '(h1, r, l1, w) := exec (st_tbl st) b h in
      let '(st2, h2, rs, o, l2) := run (k r) (set_wrong st w) h1 in
      (st2, h2, r :: rs, o, l1 ++ l2)
  | PWith j blk k =>
      let '(st1, h1, rs1, o, l1) := run blk (enter j st) h in
      let st2 := exit_ j st1 in                     (* __exit__ runs on every way out and returns None *)
      match o with
      | None => let '(st3, h2, rs2, o2, l2) := run k st2 h1 in (st3, h2, rs1 ++ rs2, o2, l1 ++ l2)
      | Some e => (st2, h1, rs1, Some e, l1)
      end
  | PTry blk k =>
      let '(st1, h1, rs1, o, l1) := run blk st h in
      let '(st2, h2, rs2, o2, l2) := run (k o) st1 h1 in
      (st2, h2, rs1 ++ rs2, o2, l1 ++ l2)
  end.

(* ------------------------------------------------------------------ specification functions *)

(* records a wrapper makes before / after calling the original, and whether it returns its result *)
Fixpoint pre_targets (steps : list wstep) : list wtarget :=
  match steps with
  | WRead :: r => pre_targets r
  | WRecord t :: r => t :: pre_targets r
  | _ => []
  end.
Fixpoint post_targets (steps : list wstep) : list wtarget :=
  match steps with
  | WRead :: r | WRecord _ :: r => post_targets r
  | WCall :: r => pre_targets r
  | _ => []
  end.
Fixpoint call_is_ret (steps : list wstep) : bool :=
  match steps with
  | WRead :: r | WRecord _ :: r => call_is_ret r
  | WCallRet :: _ => true
  | _ => false
  end.
Fixpoint count_calls (steps : list wstep) : nat :=
  match steps with
  | [] => 0
  | (WCall | WCallRet) :: r => S (count_calls r)
  | _ :: r => count_calls r
  end.

Definition pre_entries (p : patch) (self owner : obj) : list entry :=
  map (fun t => (p_op p, tgt_of t self owner)) (pre_targets (p_steps p)).
Definition post_entries (p : patch) (self owner : obj) (r : res V) : list entry :=
  if is_ok r && negb (call_is_ret (p_steps p))
  then map (fun t => (p_op p, tgt_of t self owner)) (post_targets (p_steps p)) else [].

(* entries ONE active journal receives for one dispatched call whose original produced `inner`
   entries (nested dispatched calls) and outcome r *)
Definition call_entries (s : slot) (self owner : obj) (inner : list entry) (r : res V) : list entry :=
  match find_patch s with
  | None => inner
  | Some p => pre_entries p self owner ++ inner ++ post_entries p self owner r
  end.

Fixpoint body_entries (b : body) (h : H) : list entry :=
  match b with
  | Ret _ => []
  | Prim f k => body_entries k (f h)
  | Read k => body_entries (k h) h
  | Invoke s self owner callee k =>
      let '(h1, r) := run_body callee h in
      call_entries s self owner (body_entries callee h) r ++ body_entries (k (observe s r)) h1
  end.

(* chronological log with the journals of `stack` active (head = entered last = outermost wrapper
   of the call = records first) *)
Definition tag (j : jid) (l : list entry) : list ev := map (fun e => (j, e)) l.

Definition call_log (stack : list jid) (s : slot) (self owner : obj) (inner : list ev) (r : res V) : list ev :=
  match find_patch s with
  | None => inner
  | Some p => fold_right (fun j l => tag j (pre_entries p self owner) ++ l ++ tag j (post_entries p self owner r))
                         inner stack
  end.

Fixpoint body_log (stack : list jid) (b : body) (h : H) : list ev :=
  match b with
  | Ret _ => []
  | Prim f k => body_log stack k (f h)
  | Read k => body_log stack (k h) h
  | Invoke s self owner callee k =>
      let '(h1, r) := run_body callee h in
      call_log stack s self owner (body_log stack callee h) r ++ body_log stack (k (observe s r)) h1
  end.

Fixpoint prog_log (stack : list jid) (p : prog) (h : H) : list ev :=
  match p with
  | PRet | PThrow _ => []
  | PDo b k => let '(h1, r) := run_body b h in body_log stack b h ++ prog_log stack (k r) h1
  | PWith j blk k =>
      let '(h1, _, o) := run_plain blk h in
      prog_log (j :: stack) blk h ++ match o with None => prog_log stack k h1 | Some _ => [] end
  | PTry blk k =>
      let '(h1, _, o) := run_plain blk h in prog_log stack blk h ++ prog_log stack (k o) h1
  end.

(* entries of journal j *)
Definition proj (j : jid) (l : list ev) : list entry :=
  map snd (filter (fun x => Nat.eqb (fst x) j) l).

Definition inb (j : jid) (l : list jid) : bool := existsb (Nat.eqb j) l.

(* what journal j must contain after the program: the entries of every operation executed while
   j is active, in program order *)
Fixpoint prog_entries (j : jid) (stack : list jid) (p : prog) (h : H) : list entry :=
  match p with
  | PRet | PThrow _ => []
  | PDo b k => let '(h1, r) := run_body b h in
               (if inb j stack then body_entries b h else []) ++ prog_entries j stack (k r) h1
  | PWith j' blk k =>
      let '(h1, _, o) := run_plain blk h in
      prog_entries j (j' :: stack) blk h ++ match o with None => prog_entries j stack k h1 | Some _ => [] end
  | PTry blk k =>
      let '(h1, _, o) := run_plain blk h in prog_entries j stack blk h ++ prog_entries j stack (k o) h1
  end.

(* counting instrumented calls *)
Definition n_pre (s : slot) : nat :=
  match find_patch s with Some p => List.length (pre_targets (p_steps p)) | None => 0 end.
Definition n_post (s : slot) : nat :=
  match find_patch s with
  | Some p => if call_is_ret (p_steps p) then 0 else List.length (post_targets (p_steps p))
  | None => 0
  end.
(* every instrumented (= patched) dispatched call, with "completed" flag, in order of completion *)
Fixpoint calls (b : body) (h : H) : list (slot * bool) :=
  match b with
  | Ret _ => []
  | Prim f k => calls k (f h)
  | Read k => calls (k h) h
  | Invoke s _ _ callee k =>
      let '(h1, r) := run_body callee h in
      calls callee h ++ (match find_patch s with Some _ => [(s, is_ok r)] | None => [] end)
      ++ calls (k (observe s r)) h1
  end.

(* well-formed use of journals: a journal is not re-entered while it is active *)
Fixpoint wf (active : list jid) (p : prog) : Prop :=
  match p with
  | PRet | PThrow _ => True
  | PDo _ k => forall r, wf active (k r)
  | PWith j blk k => ~ In j active /\ wf (j :: active) blk /\ wf active k
  | PTry blk k => wf active blk /\ forall o, wf active (k o)
  end.

End Exec.

Arguments Ret {H V}. Arguments Prim {H V}. Arguments Read {H V}. Arguments Invoke {H V}.
Arguments PRet {H V}. Arguments PThrow {H V}. Arguments PDo {H V}. Arguments PWith {H V}. Arguments PTry {H V}.

(* the table while the journals of `stack` are active (head = entered last) *)
Definition tbl_of (stack : list jid) : slot -> impl :=
  fun s => match find_patch s with
           | Some p => fold_right (fun j i => Wrapped j p i) (Orig s) stack
           | None => Orig s
           end.

(* ------------------------------------------------------------------ checks on the GENERATED lists *)

Definition str_opt_eqb (a b : option string) : bool :=
  match a, b with Some x, Some y => String.eqb x y | None, None => true | _, _ => false end.

(* a wrapper calls the original exactly once, and returns its result unless nobody can see it *)
Definition wrapper_ok (p : patch) : bool :=
  Nat.eqb (count_calls (p_steps p)) 1 && (call_is_ret (p_steps p) || negb (retobs (p_slot p))).
(* exactly one record on the path of a call that returns *)
Definition records_once (p : patch) : bool :=
  Nat.eqb (List.length (pre_targets (p_steps p))
           + (if call_is_ret (p_steps p) then 0 else List.length (post_targets (p_steps p)))) 1.

Definition lists_ok : bool :=
  (* every wrapper is installed in the slot whose original it wraps, and that original was saved *)
  forallb (fun p => str_opt_eqb (lookup (p_key p) saved) (Some (p_slot p))) patched
  (* every restore assignment writes a slot with the original saved from that very slot *)
  && forallb (fun sk => str_opt_eqb (lookup (snd sk) saved) (Some (fst sk))) restored
  (* every patched slot is restored *)
  && forallb (fun p => existsb (fun sk => String.eqb (fst sk) (p_slot p)) restored) patched
  && forallb wrapper_ok patched.

Definition records_once_all : bool := forallb records_once patched.

(* ------------------------------------------------------------------ decidable observations (case files) *)

Fixpoint impl_eqb (a b : impl) : bool :=
  match a, b with
  | Orig s, Orig s' => String.eqb s s'
  | Wrapped j p i, Wrapped j' p' i' => Nat.eqb j j' && String.eqb (p_slot p) (p_slot p') && impl_eqb i i'
  | _, _ => false
  end.

Definition all_slots : list slot := map snd saved ++ map p_slot patched ++ map fst restored.

Definition pristine (st : state) : bool :=
  forallb (fun s => impl_eqb (st_tbl st s) (Orig s)) all_slots
  && match st_cur st with None => true | Some _ => false end
  && negb (st_wrong st).

Definition entry_eqb (a b : entry) : bool := String.eqb (fst a) (fst b) && Z.eqb (snd a) (snd b).

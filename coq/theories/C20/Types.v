(* C20/Types.v — data types shared by the generated Gen/C20Gen.v and the hand model C20/Model.v.
   (Static; Gen/C20Gen.v only contains data of these types, regenerated from
   /repo/src/onnx_ir/journaling/_wrappers.py on every run.) *)
From Coq Require Import String List.
Import ListNotations.

(* The object recorded by `journal.record(<obj>, ...)`: `self`, or `getattr(self, target_attr)`. *)
Inductive wtarget := TSelf | TOwner.

(* One statement of the inner `wrapper` function of a wrapper factory:
     WRead      x = getattr(self, <attr>)                     (pure read, modelled-not-verified)
     WRecord t  journal.record(<t>, operation, details=...)   (appends ONE entry)
     WCall      original(self, *args, **kwargs)               (result discarded)
     WCallRet   return original(self, *args, **kwargs)                                           *)
Inductive wstep := WRead | WRecord (t : wtarget) | WCall | WCallRet.

(* One assignment of wrap_ir_classes:  <p_slot> = <p_fac>(journal, original_methods[<p_key>], ...). *)
Record patch := mkPatch {
  p_slot  : string;          (* class attribute written, e.g. "_core.Node.name.fset" *)
  p_key   : string;          (* key of the saved original it wraps, e.g. "Node.name.fset" *)
  p_fac   : string;          (* factory name (information only) *)
  p_steps : list wstep;      (* body of that factory's wrapper *)
  p_op    : string;          (* operation name recorded *)
  p_tattr : option string    (* target_attr of container wrappers *)
}.

(* ------------------------------------------------------------------ Journal methods, statement by statement
   (translated from src/onnx_ir/journaling/_journaling.py on every run; interpreted in C20/Journal.v) *)

Inductive jval :=
| VCur                       (* _current_journal *)
| VSelf                      (* self *)
| VSelfField (f : string)    (* self.<f> *)
| VWrapClasses               (* _wrappers.wrap_ir_classes(self) *)
| VParam (x : string)        (* a parameter of the method (exc_value, obj, ...) *)
| VLocal (x : string).       (* a local variable (entry) *)

(* what a keyword argument of JournalEntry(...) keeps of the recorded object `obj` *)
Inductive ekind :=
| KScalar                    (* nothing: strings, numbers, the class, id(obj), FrameSummary list *)
| KWeakObj                   (* weakref.ref(obj) if obj is not None else None *)
| KStrongObj.                (* the object itself (or anything else that reaches it) *)

Inductive ikind := INone | IEmptyList | IEmptyDict.

Inductive jstmt :=
| JGlobal                                              (* global _current_journal *)
| JSetField (f : string) (v : jval)                    (* self.f = v *)
| JSetCur (v : jval)                                   (* _current_journal = v *)
| JRestore (v : jval)                                  (* _wrappers.restore_ir_classes(v) *)
| JReturn (v : jval)                                   (* return v *)
| JNewEntry (x : string) (fields : list (string * ekind))   (* x = JournalEntry(k=..., ...) *)
| JAppendField (f : string) (v : jval)                 (* self.f.append(v) *)
| JForCall (f : string) (v : jval)                     (* for h in self.f: h(v) *)
| JInitField (f : string) (k : ikind)                  (* self.f = [] / {} / None   (in __init__) *)
| JOther (src : string).                               (* anything else: has no meaning in the model *)

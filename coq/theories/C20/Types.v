(* C20/Types.v — data types shared by the generated Gen/C20Gen.v and the hand model C20/Model.v.
   (Static; Gen/C20Gen.v only contains data of these types, regenerated from
   /repo/src/onnx_ir/journaling/_wrappers.py on every run.) *)
From Coq Require Import String List.
Import ListNotations.

(* The object recorded by `journal.record(<obj>, ...)`: `self`, or `getattr(self, target_attr)`. *)
Inductive wtarget := TSelf | TOwner.

(* One statement of the inner `wrapper` function of a wrapper factory:
     WRead      x = getattr(self, <attr>)                     (pure read, modelled-not-verified)
     WRecord t  journal.record(<t>, operation, details=...)   (appends ONE entry)
     WCall      original(self, *args, **kwargs)               (result discarded)
     WCallRet   return original(self, *args, **kwargs)                                           *)
Inductive wstep := WRead | WRecord (t : wtarget) | WCall | WCallRet.

(* One assignment of wrap_ir_classes:  <p_slot> = <p_fac>(journal, original_methods[<p_key>], ...). *)
Record patch := mkPatch {
  p_slot  : string;          (* class attribute written, e.g. "_core.Node.name.fset" *)
  p_key   : string;          (* key of the saved original it wraps, e.g. "Node.name.fset" *)
  p_fac   : string;          (* factory name (information only) *)
  p_steps : list wstep;      (* body of that factory's wrapper *)
  p_op    : string;          (* operation name recorded *)
  p_tattr : option string    (* target_attr of container wrappers *)
}.

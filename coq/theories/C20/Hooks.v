(* C20/Hooks.v — Journal hooks (Journal.add_hook): model and proofs.

   Journal.record (pinned text, see harness/props/c20.py):
       self._entries.append(entry)
       for hook in self._hooks: hook(entry)
   i.e. the entry is appended FIRST, then the hooks are called in registration order; an exception
   raised by a hook is not caught: it leaves record(), hence the wrapper, hence the instrumented
   call — and the hooks after it are not called.

   A hook is modelled as a function  entry -> option exn  (None: returns; Some e: raises e): what it
   does with the entry besides that (printing, collecting) is its own business; a hook that mutates
   the IR through entry.obj is user code editing the IR and is not modelled.  Hooks are per journal
   and fixed for the run (registered before the journal is entered).

   runH = Model.run with this record.  Results:
     runH_quiet        hooks that never raise change nothing: runH = run with every record expanded
                       into "entry appended; hook 0 called; hook 1 called; ..."
     runH_restores     for EVERY hook behaviour the classes are restored exactly as without hooks
     (Property.v: C20_raising_hook_aborts_operation)  observation: with a raising hook, under a record-first wrapper the
                       original is never called (heap untouched, exception of the hook comes out)  *)
From Coq Require Import ZArith List Bool String Lia.
From IRV Require Import Base.Exn C20.Types Gen.C20Gen C20.Model C20.Proofs C20.Proofs2.
Import ListNotations.
Open Scope string_scope.
Open Scope list_scope.
#[local] Opaque saved patched restored.

Definition hook := entry -> option exn.

(* chronological events: entry appended to journal j / hook number k of journal j called with e *)
Inductive hev := HRec (j : jid) (e : entry) | HCall (j : jid) (k : nat) (e : entry).

Section Hooks.
Variables (H V : Type) (vnone : V).
Variable hooks : jid -> list hook.

Fixpoint fire (j : jid) (e : entry) (k : nat) (hs : list hook) : list hev * option exn :=
  match hs with
  | [] => ([], None)
  | f :: r => match f e with
              | Some x => ([HCall j k e], Some x)
              | None => let '(l, o) := fire j e (S k) r in (HCall j k e :: l, o)
              end
  end.

Definition record (j : jid) (e : entry) : list hev * option exn :=
  let '(l, o) := fire j e 0 (hooks j) in (HRec j e :: l, o).

Definition outH := (H * res V * list hev * bool)%type.

Fixpoint wrunH (j : jid) (p : patch) (self owner : obj) (inner : H -> outH) (steps : list wstep) (h : H) : outH :=
  match steps with
  | [] => (h, Ok vnone, [], false)
  | WRead :: r => wrunH j p self owner inner r h
  | WRecord t :: r =>
      let '(lr, o) := record j (p_op p, tgt_of t self owner) in
      match o with
      | Some x => (h, Raise x, lr, false)                       (* the hook's exception leaves the wrapper *)
      | None => let '(h1, y, l, w) := wrunH j p self owner inner r h in (h1, y, lr ++ l, w)
      end
  | WCall :: r =>
      let '(h1, x, l1, w1) := inner h in
      match x with
      | Ok _ => let '(h2, y, l2, w2) := wrunH j p self owner inner r h1 in (h2, y, l1 ++ l2, w1 || w2)
      | Raise e => (h1, Raise e, l1, w1)
      end
  | WCallRet :: _ => inner h
  end.

Fixpoint exec_implH (i : impl) (s : slot) (self owner : obj) (callee_run : H -> outH) (h : H) : outH :=
  match i with
  | Orig s' => if String.eqb s' s then callee_run h
               else let '(h1, x, l, _) := callee_run h in (h1, x, l, true)
  | Wrapped j p inner => wrunH j p self owner (exec_implH inner s self owner callee_run) (p_steps p) h
  end.

Fixpoint execH (t : slot -> impl) (b : body H V) (h : H) : outH :=
  match b with
  | Ret r => (h, r, [], false)
  | Prim f k => execH t k (f h)
  | Read k => execH t (k h) h
  | Invoke s self owner callee k =>
      let '(h1, r, l1, w1) := exec_implH (t s) s self owner (execH t callee) h in
      let '(h2, r2, l2, w2) := execH t (k (observe V vnone s r)) h1 in
      (h2, r2, l1 ++ l2, w1 || w2)
  end.

Fixpoint runH (p : prog H V) (st : state) (h : H) : state * H * list (res V) * option exn * list hev :=
  match p with
  | PRet => (st, h, [], None, [])
  | PThrow e => (st, h, [], Some e, [])
  | PDo b k =>
      let '(h1, r, l1, w) := execH (st_tbl st) b h in
      let '(st2, h2, rs, o, l2) := runH (k r) (set_wrong st w) h1 in
      (st2, h2, r :: rs, o, l1 ++ l2)
  | PWith j blk k =>
      let '(st1, h1, rs1, o, l1) := runH blk (enter j st) h in
      let st2 := exit_ j st1 in
      match o with
      | None => let '(st3, h2, rs2, o2, l2) := runH k st2 h1 in (st3, h2, rs1 ++ rs2, o2, l1 ++ l2)
      | Some e => (st2, h1, rs1, Some e, l1)
      end
  | PTry blk k =>
      let '(st1, h1, rs1, o, l1) := runH blk st h in
      let '(st2, h2, rs2, o2, l2) := runH (k o) st1 h1 in
      (st2, h2, rs1 ++ rs2, o2, l1 ++ l2)
  end.

(* ------------------------------------------------------------------ projections *)

Definition recs_of (j : jid) (l : list hev) : list entry :=
  flat_map (fun x => match x with HRec j' e => if Nat.eqb j' j then [e] else [] | HCall _ _ _ => [] end) l.
Definition calls_of (j : jid) (k : nat) (l : list hev) : list entry :=
  flat_map (fun x => match x with
                     | HCall j' k' e => if Nat.eqb j' j && Nat.eqb k' k then [e] else []
                     | HRec _ _ => [] end) l.

(* ------------------------------------------------------------------ hooks that never raise *)

Definition quiet : Prop := forall j f e, In f (hooks j) -> f e = None.

Fixpoint hook_calls (j : jid) (e : entry) (k : nat) (hs : list hook) : list hev :=
  match hs with [] => [] | _ :: r => HCall j k e :: hook_calls j e (S k) r end.

Definition expand (l : list ev) : list hev :=
  flat_map (fun je => HRec (fst je) (snd je) :: hook_calls (fst je) (snd je) 0 (hooks (fst je))) l.

Definition lift (o : out H V) : outH := let '(h, r, l, w) := o in (h, r, expand l, w).

Lemma expand_app a b : expand (a ++ b) = expand a ++ expand b.
Proof. unfold expand. apply flat_map_app. Qed.

Lemma fire_quiet j e : forall hs k, (forall f, In f hs -> f e = None) -> fire j e k hs = (hook_calls j e k hs, None).
Proof.
  induction hs as [|f r IH]; intros k Q; simpl; [reflexivity|].
  rewrite (Q f (or_introl eq_refl)). rewrite (IH (S k)); [reflexivity|].
  intros g Hg. apply Q. right. exact Hg.
Qed.

Section Quiet.
Hypothesis Q : quiet.

Lemma record_quiet j e : record j e = (expand [(j, e)], None).
Proof.
  unfold record. rewrite (fire_quiet j e (hooks j) 0); [|intros f Hf; apply (Q j f e Hf)].
  unfold expand; simpl. rewrite app_nil_r. reflexivity.
Qed.

Lemma wrunH_quiet j p self owner (inner : H -> out H V) (innerH : H -> outH) :
  (forall h, innerH h = lift (inner h)) ->
  forall steps h, wrunH j p self owner innerH steps h = lift (wrun H V vnone j p self owner inner steps h).
Proof.
  intros I. induction steps as [|[|t| |] r IH]; intros h; simpl.
  - reflexivity.
  - apply IH.
  - rewrite record_quiet. rewrite IH.
    destruct (wrun H V vnone j p self owner inner r h) as [[[h1 y] l] w]. simpl.
    rewrite app_nil_r. reflexivity.
  - rewrite I. destruct (inner h) as [[[h1 x] l1] w1]. simpl. destruct x as [v|e]; [|reflexivity].
    rewrite IH. destruct (wrun H V vnone j p self owner inner r h1) as [[[h2 y] l2] w2]. simpl.
    rewrite expand_app. reflexivity.
  - apply I.
Qed.

Lemma exec_implH_quiet s self owner (cr : H -> out H V) (crH : H -> outH) :
  (forall h, crH h = lift (cr h)) ->
  forall i h, exec_implH i s self owner crH h = lift (exec_impl H V vnone i s self owner cr h).
Proof.
  intros C. induction i as [s'|j p inner IH]; intros h; simpl.
  - destruct (String.eqb s' s); [apply C|]. rewrite C. destruct (cr h) as [[[h1 x] l] w]. reflexivity.
  - apply wrunH_quiet. exact IH.
Qed.

Lemma execH_quiet t : forall (b : body H V) h, execH t b h = lift (exec H V vnone t b h).
Proof.
  induction b as [r|f k IH|k IH|s self owner callee IHc k IHk]; intros h; simpl.
  - reflexivity.
  - apply IH.
  - apply IH.
  - rewrite (exec_implH_quiet s self owner (exec H V vnone t callee) (execH t callee) IHc).
    destruct (exec_impl H V vnone (t s) s self owner (exec H V vnone t callee) h) as [[[h1 r] l1] w1]. simpl.
    rewrite IHk. destruct (exec H V vnone t (k (observe V vnone s r)) h1) as [[[h2 r2] l2] w2]. simpl.
    rewrite expand_app. reflexivity.
Qed.

Lemma runH_quiet : forall (p : prog H V) st h,
  runH p st h = (let '(st', h', rs, o, l) := run H V vnone p st h in (st', h', rs, o, expand l)).
Proof.
  induction p as [|e|b k IH|j blk IHb k IHk|blk IHb k IHk]; intros st h; simpl.
  - reflexivity.
  - reflexivity.
  - rewrite execH_quiet. destruct (exec H V vnone (st_tbl st) b h) as [[[h1 r] l1] w]. simpl.
    rewrite IH. destruct (run H V vnone (k r) (set_wrong st w) h1) as [[[[st2 h2] rs] o] l2].
    rewrite expand_app. reflexivity.
  - rewrite IHb. destruct (run H V vnone blk (enter j st) h) as [[[[st1 h1] rs1] o] l1].
    destruct o as [e|]; [reflexivity|].
    rewrite IHk. destruct (run H V vnone k (exit_ j st1) h1) as [[[[st3 h2] rs2] o2] l2].
    rewrite expand_app. reflexivity.
  - rewrite IHb. destruct (run H V vnone blk st h) as [[[[st1 h1] rs1] o] l1].
    rewrite IHk. destruct (run H V vnone (k o) st1 h1) as [[[[st2 h2] rs2] o2] l2].
    rewrite expand_app. reflexivity.
Qed.

End Quiet.

(* what the events of an expanded log are: the entries of journal j, and every hook of journal j
   is called exactly once per entry of j, in order *)
Lemma recs_of_calls j j' e : forall hs k, recs_of j (hook_calls j' e k hs) = [].
Proof. induction hs as [|f r IH]; intros k; simpl; [reflexivity | apply IH]. Qed.

Lemma recs_of_expand j l : recs_of j (expand l) = proj j l.
Proof.
  unfold recs_of, expand, proj. induction l as [|[j' e] l IH]; simpl; [reflexivity|].
  rewrite flat_map_app. fold (recs_of j (hook_calls j' e 0 (hooks j'))). rewrite recs_of_calls. simpl.
  fold (recs_of j). destruct (Nat.eqb j' j); simpl; [f_equal|]; exact IH.
Qed.

Lemma pick_aux (e : entry) k0 k n :
  (if Nat.eqb k0 k then [e] else []) ++ (if Nat.leb (S k0) k && Nat.ltb k (S k0 + n) then [e] else [])
  = (if Nat.leb k0 k && Nat.ltb k (k0 + S n) then [e] else []).
Proof.
  replace (k0 + S n) with (S k0 + n) by lia.
  destruct (Nat.eqb_spec k0 k) as [E|E]; destruct (Nat.leb_spec (S k0) k) as [A|A];
    destruct (Nat.leb_spec k0 k) as [B|B]; destruct (Nat.ltb_spec k (S k0 + n)) as [C|C];
    cbn [andb app]; try reflexivity; exfalso; lia.
Qed.

Lemma calls_of_cons_call j k j' k0 e l :
  calls_of j k (HCall j' k0 e :: l) = (if Nat.eqb j' j && Nat.eqb k0 k then [e] else []) ++ calls_of j k l.
Proof. reflexivity. Qed.

Lemma calls_of_calls j k j' e : forall hs k0,
  calls_of j k (hook_calls j' e k0 hs) =
  if Nat.eqb j' j && Nat.leb k0 k && Nat.ltb k (k0 + List.length hs) then [e] else [].
Proof.
  induction hs as [|f r IH]; intros k0.
  - cbn [hook_calls calls_of flat_map List.length]. replace (k0 + 0) with k0 by lia.
    destruct (Nat.eqb j' j); cbn [andb]; [|reflexivity].
    destruct (Nat.leb_spec k0 k) as [A|A]; destruct (Nat.ltb_spec k k0) as [B|B]; cbn [andb]; try reflexivity.
    exfalso; lia.
  - cbn [hook_calls List.length]. rewrite calls_of_cons_call, IH.
    destruct (Nat.eqb j' j); cbn [andb]; [apply pick_aux | reflexivity].
Qed.

Lemma calls_of_expand j k l : k < List.length (hooks j) -> calls_of j k (expand l) = proj j l.
Proof.
  intros K. unfold expand, proj. induction l as [|[j' e] l IH]; simpl; [reflexivity|].
  unfold calls_of in *. simpl. rewrite flat_map_app. fold (calls_of j k (hook_calls j' e 0 (hooks j'))).
  rewrite calls_of_calls. simpl.
  destruct (Nat.eqb j' j) eqn:E; simpl.
  - apply Nat.eqb_eq in E. subst.
    assert (B : Nat.ltb k (List.length (hooks j)) = true) by (apply Nat.ltb_lt; exact K).
    rewrite B. simpl. f_equal. exact IH.
  - exact IH.
Qed.

(* ------------------------------------------------------------------ restoration with any hooks *)

Hypothesis OK : lists_ok = true.

Lemma runH_restores : forall (p : prog H V) active st h st' h' rs o l,
  wf H V active p -> runH p st h = (st', h', rs, o, l) -> same_classes active st st'.
Proof.
  induction p as [|e|b k IH|j blk IHb k IHk|blk IHb k IHk]; intros active st h st' h' rs o l W R; simpl in R.
  - inversion R; subst. split; [|split]; auto.
  - inversion R; subst. split; [|split]; auto.
  - destruct (execH (st_tbl st) b h) as [[[h1 r] l1] w] eqn:E.
    destruct (runH (k r) (set_wrong st w) h1) as [[[[st2 h2] rs2] o2] l2] eqn:R2.
    inversion R; subst. simpl in W.
    eapply same_classes_trans; [apply same_classes_set_wrong | eapply IH; [apply W | exact R2]].
  - destruct W as [Nj [Wb Wk]].
    destruct (runH blk (enter j st) h) as [[[[st1 h1] rs1] o1] l1] eqn:R1.
    pose proof (IHb _ _ _ _ _ _ _ _ Wb R1) as [T1 [C1 S1]].
    destruct (S1 j (or_introl eq_refl)) as [Sj Pj].
    rewrite (enter_saved j st) in Sj. rewrite (enter_prev j st) in Pj.
    destruct (exit_restores OK j st st1 T1 Sj Pj) as [T2 [C2 [_ [Sv Pv]]]].
    assert (SC : same_classes active st (exit_ j st1)).
    { split; [exact T2 | split; [exact C2|]]. intros j' Hj'.
      rewrite Sv, Pv. destruct (S1 j' (or_intror Hj')) as [A B]. rewrite A, B.
      apply enter_other. intros ->. exact (Nj Hj'). }
    destruct o1 as [e|].
    + inversion R; subst. exact SC.
    + destruct (runH k (exit_ j st1) h1) as [[[[st3 h3] rs3] o3] l3] eqn:R3.
      inversion R; subst. eapply same_classes_trans; [exact SC | eapply IHk; [exact Wk | exact R3]].
  - destruct W as [Wb Wk].
    destruct (runH blk st h) as [[[[st1 h1] rs1] o1] l1] eqn:R1.
    destruct (runH (k o1) st1 h1) as [[[[st2 h2] rs2] o2] l2] eqn:R2.
    inversion R; subst.
    eapply same_classes_trans; [eapply IHb; [exact Wb | exact R1] | eapply IHk; [apply Wk | exact R2]].
Qed.

End Hooks.

(* ------------------------------------------------------------------ statements used by Property.v *)

Section PackagedHooks.
Variables (H V : Type) (vnone : V).
Hypothesis OK : lists_ok = true.

Lemma hooks_transparent_stmt (hooks : jid -> list hook) (p : prog H V) stack st h :
  quiet hooks -> NoDup stack -> wf H V stack p -> (forall s, st_tbl st s = tbl_of stack s) ->
  let '(st', h', rs, o, l) := runH H V vnone hooks p st h in
  run_plain H V vnone p h = (h', rs, o) /\ st_wrong st' = st_wrong st
  /\ (forall j, recs_of j l = prog_entries H V vnone j stack p h)
  /\ (forall j k, k < List.length (hooks j) -> calls_of j k l = prog_entries H V vnone j stack p h).
Proof.
  intros Q ND W Ht. rewrite (runH_quiet H V vnone hooks Q).
  pose proof (transparent_stmt H V vnone OK p stack st h ND W Ht) as T.
  destruct (run H V vnone p st h) as [[[[st' h'] rs] o] l]. destruct T as [P [Wr E]].
  split; [exact P | split; [exact Wr | split]].
  - intros j. rewrite recs_of_expand. apply E.
  - intros j k K. rewrite (calls_of_expand hooks j k l K). apply E.
Qed.

Lemma restore_hooks_stmt (hooks : jid -> list hook) (p : prog H V) active st h :
  wf H V active p ->
  let '(st', _, _, _, _) := runH H V vnone hooks p st h in
  (forall s, st_tbl st' s = st_tbl st s) /\ st_cur st' = st_cur st.
Proof.
  intros W. destruct (runH H V vnone hooks p st h) as [[[[st' h'] rs] o] l] eqn:R.
  destruct (runH_restores H V vnone hooks OK p active st h _ _ _ _ _ W R) as [T [C _]]. split; assumption.
Qed.

End PackagedHooks.

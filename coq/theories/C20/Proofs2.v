(* C20/Proofs2.v — transparency of the wrappers, the journal contents, counting. *)
From Coq Require Import ZArith List Bool String Lia.
From IRV Require Import Base.Exn C20.Types Gen.C20Gen C20.Model C20.Proofs.
Import ListNotations.
Open Scope string_scope.
Open Scope list_scope.
#[local] Opaque saved patched restored.

Section Transparent.
Variables (H V : Type) (vnone : V).
Hypothesis OK : lists_ok = true.

Notation body := (body H V).
Notation prog := (prog H V).
Notation out := (out H V).
Notation run := (run H V vnone).
Notation exec := (exec H V vnone).
Notation run_body := (run_body H V vnone).
Notation run_plain := (run_plain H V vnone).
Notation discard := (discard V vnone).
Notation observe := (observe V vnone).

Lemma discard_idem r : discard (discard r) = discard r.
Proof. destruct r; reflexivity. Qed.
Lemma is_ok_discard r : is_ok (discard r) = is_ok r.
Proof. destruct r; reflexivity. Qed.

(* ------------------------------------------------------------------ one wrapper *)

Definition mk (j : jid) (p : patch) (self owner : obj) (ts : list wtarget) : list ev :=
  tag j (map (fun t => (p_op p, tgt_of t self owner)) ts).

Lemma wrun_nocall j p self owner (inner : H -> out) steps : forall h,
  count_calls steps = 0 ->
  wrun H V vnone j p self owner inner steps h = (h, Ok vnone, mk j p self owner (pre_targets steps), false).
Proof.
  induction steps as [|[|t| |] r IH]; intros h C; simpl in C |- *; try discriminate C.
  - reflexivity.
  - apply IH, C.
  - rewrite (IH h C). reflexivity.
Qed.

Lemma wrun_once j p self owner (inner : H -> out) steps : forall h h1 x l1 w1,
  count_calls steps = 1 -> inner h = (h1, x, l1, w1) ->
  wrun H V vnone j p self owner inner steps h =
  (h1, (if call_is_ret steps then x else discard x),
   mk j p self owner (pre_targets steps) ++ l1
   ++ (if is_ok x && negb (call_is_ret steps) then mk j p self owner (post_targets steps) else []),
   w1).
Proof.
  induction steps as [|[|t| |] r IH]; intros h h1 x l1 w1 C I; simpl in C |- *; try discriminate C.
  - apply (IH _ _ _ _ _ C I).
  - rewrite (IH _ _ _ _ _ C I). reflexivity.
  - rewrite I. assert (C0 : count_calls r = 0) by lia.
    destruct x as [v|e]; simpl.
    + rewrite (wrun_nocall j p self owner inner r h1 C0). rewrite orb_false_r. reflexivity.
    + rewrite app_nil_r. reflexivity.
  - rewrite I. rewrite andb_false_r. rewrite app_nil_r. reflexivity.
Qed.

(* ------------------------------------------------------------------ a stack of wrappers *)

Definition adj (p : patch) (stack : list jid) (r : res V) : res V :=
  match stack with
  | [] => r
  | _ => if call_is_ret (p_steps p) then r else discard r
  end.

Lemma chain_spec p s self owner (callee_run : H -> out) h h1 r lc :
  count_calls (p_steps p) = 1 -> callee_run h = (h1, r, lc, false) ->
  forall stack,
  exec_impl H V vnone (fold_right (fun j i => Wrapped j p i) (Orig s) stack) s self owner callee_run h =
  (h1, adj p stack r,
   fold_right (fun j l => tag j (pre_entries p self owner) ++ l ++ tag j (post_entries V p self owner r)) lc stack,
   false).
Proof.
  intros C I stack. induction stack as [|j stack IH]; simpl.
  - rewrite String.eqb_refl. exact I.
  - rewrite (wrun_once j p self owner _ (p_steps p) h _ _ _ _ C IH).
    unfold pre_entries, post_entries, mk.
    assert (Eok : is_ok (adj p stack r) = is_ok r).
    { unfold adj. destruct stack; [reflexivity|]. destruct (call_is_ret (p_steps p)); [reflexivity|apply is_ok_discard]. }
    rewrite Eok.
    assert (Ea : (if call_is_ret (p_steps p) then adj p stack r else discard (adj p stack r)) = adj p (j :: stack) r).
    { unfold adj. destruct (call_is_ret (p_steps p)); destruct stack; try reflexivity. apply discard_idem. }
    rewrite Ea. destruct (is_ok r && negb (call_is_ret (p_steps p))); reflexivity.
Qed.

Lemma observe_adj p stack r :
  wrapper_ok p = true -> observe (p_slot p) (adj p stack r) = observe (p_slot p) r.
Proof.
  unfold wrapper_ok, adj, observe. intros W. apply andb_prop in W. destruct W as [_ W].
  destruct stack; [reflexivity|].
  destruct (call_is_ret (p_steps p)); [reflexivity|]. simpl in W.
  apply negb_true_iff in W. rewrite W. apply discard_idem.
Qed.

(* ------------------------------------------------------------------ library code through the table *)

Lemma exec_transparent : forall (b : body) stack t h,
  (forall s, t s = tbl_of stack s) ->
  exec t b h = (let '(h', r) := run_body b h in (h', r, body_log H V vnone stack b h, false)).
Proof.
  induction b as [r|f k IH|k IH|s self owner callee IHc k IHk]; intros stack t h Ht; simpl.
  - reflexivity.
  - apply IH, Ht.
  - apply IH, Ht.
  - pose proof (IHc stack t h Ht) as Ec.
    destruct (run_body callee h) as [h1 r] eqn:Rc.
    rewrite (Ht s). unfold tbl_of, call_log.
    destruct (find_patch s) as [p|] eqn:F.
    + destruct (find_patch_props s p F) as [Es Hin].
      destruct (ok_patched OK p Hin) as [_ [W _]].
      assert (C : count_calls (p_steps p) = 1).
      { unfold wrapper_ok in W. apply andb_prop in W. destruct W as [W _]. apply Nat.eqb_eq in W. exact W. }
      rewrite (chain_spec p s self owner (exec t callee) h h1 r _ C Ec stack).
      rewrite <- Es. rewrite (observe_adj p stack r W). rewrite Es.
      rewrite (IHk (observe s r) stack t h1 Ht).
      destruct (run_body (k (observe s r)) h1) as [h2 r2]. reflexivity.
    + simpl. rewrite String.eqb_refl. rewrite Ec.
      rewrite (IHk (observe s r) stack t h1 Ht).
      destruct (run_body (k (observe s r)) h1) as [h2 r2]. reflexivity.
Qed.

(* ------------------------------------------------------------------ user code *)

Lemma tbl_of_enter j st stack :
  (forall s, st_tbl st s = tbl_of stack s) -> forall s, st_tbl (enter j st) s = tbl_of (j :: stack) s.
Proof.
  intros Ht s. rewrite (enter_tbl OK). rewrite Ht. unfold tbl_of.
  destruct (find_patch s); reflexivity.
Qed.

Lemma run_transparent : forall (p : prog) stack st h st' h' rs o l,
  wf H V stack p -> (forall s, st_tbl st s = tbl_of stack s) ->
  run p st h = (st', h', rs, o, l) ->
  run_plain p h = (h', rs, o) /\ l = prog_log H V vnone stack p h /\ st_wrong st' = st_wrong st.
Proof.
  induction p as [|e|b k IH|j blk IHb k IHk|blk IHb k IHk]; intros stack st h st' h' rs o l W Ht R; simpl in R; simpl.
  - inversion R; subst. auto.
  - inversion R; subst. auto.
  - rewrite (exec_transparent b stack (st_tbl st) h Ht) in R.
    destruct (run_body b h) as [h1 r] eqn:Rb.
    destruct (run (k r) (set_wrong st false) h1) as [[[[st2 h2] rs2] o2] l2] eqn:R2.
    inversion R; subst. simpl in W.
    destruct (IH r stack (set_wrong st false) h1 _ _ _ _ _ (W r) Ht R2) as [P [L Wr]].
    rewrite P. split; [reflexivity | split; [rewrite L; reflexivity|]].
    rewrite Wr. simpl. apply orb_false_r.
  - destruct W as [Nj [Wb Wk]].
    destruct (run blk (enter j st) h) as [[[[st1 h1] rs1] o1] l1] eqn:R1.
    destruct (IHb (j :: stack) (enter j st) h _ _ _ _ _ Wb (tbl_of_enter j st stack Ht) R1) as [P1 [L1 W1]].
    rewrite P1.
    pose proof (run_restores H V vnone OK blk (j :: stack) _ _ _ _ _ _ _ Wb R1) as [T1 [C1 S1]].
    destruct (S1 j (or_introl eq_refl)) as [Sj Pj].
    rewrite (enter_saved j st) in Sj. rewrite (enter_prev j st) in Pj.
    destruct (exit_restores OK j st st1 T1 Sj Pj) as [T2 [C2 [W2 _]]].
    rewrite (enter_wrong OK) in W1.
    destruct o1 as [e|].
    + inversion R; subst. split; [reflexivity | split; [rewrite app_nil_r; reflexivity|]]. congruence.
    + destruct (run k (exit_ j st1) h1) as [[[[st3 h3] rs3] o3] l3] eqn:R3.
      inversion R; subst.
      assert (Ht2 : forall s, st_tbl (exit_ j st1) s = tbl_of stack s) by (intros s; rewrite T2; apply Ht).
      destruct (IHk stack (exit_ j st1) h1 _ _ _ _ _ Wk Ht2 R3) as [P3 [L3 W3]].
      rewrite P3. split; [reflexivity | split; [rewrite L3; reflexivity|]]. congruence.
  - destruct W as [Wb Wk].
    destruct (run blk st h) as [[[[st1 h1] rs1] o1] l1] eqn:R1.
    destruct (run (k o1) st1 h1) as [[[[st2 h2] rs2] o2] l2] eqn:R2.
    inversion R; subst.
    destruct (IHb stack st h _ _ _ _ _ Wb Ht R1) as [P1 [L1 W1]].
    pose proof (run_restores H V vnone OK blk stack _ _ _ _ _ _ _ Wb R1) as [T1 _].
    assert (Ht1 : forall s, st_tbl st1 s = tbl_of stack s) by (intros s; rewrite T1; apply Ht).
    destruct (IHk o1 stack st1 h1 _ _ _ _ _ (Wk o1) Ht1 R2) as [P2 [L2 W2]].
    rewrite P1, P2. split; [reflexivity | split; [congruence | congruence]].
Qed.

(* ------------------------------------------------------------------ what each journal contains *)

Lemma proj_app j a b : proj j (a ++ b) = proj j a ++ proj j b.
Proof. unfold proj. rewrite filter_app, map_app. reflexivity. Qed.

Lemma proj_tag j j' l : proj j (tag j' l) = if Nat.eqb j' j then l else [].
Proof.
  unfold proj, tag. induction l as [|e l IH]; simpl.
  - destruct (Nat.eqb j' j); reflexivity.
  - destruct (Nat.eqb j' j) eqn:E; simpl; [f_equal|]; exact IH.
Qed.

Lemma inb_in j l : inb j l = true <-> In j l.
Proof.
  unfold inb. rewrite existsb_exists. split.
  - intros [x [Hx E]]. apply Nat.eqb_eq in E. subst. exact Hx.
  - intros Hj. exists j. split; [exact Hj | apply Nat.eqb_refl].
Qed.

Lemma proj_chain j (pre post : list entry) inner stack :
  NoDup stack ->
  proj j (fold_right (fun j' l => tag j' pre ++ l ++ tag j' post) inner stack) =
  if inb j stack then pre ++ proj j inner ++ post else proj j inner.
Proof.
  induction stack as [|j' stack IH]; intros ND; simpl; [reflexivity|].
  inversion ND as [|? ? Nin ND']; subst.
  rewrite !proj_app, !proj_tag, (IH ND').
  rewrite (Nat.eqb_sym j j').
  destruct (Nat.eqb j' j) eqn:E; simpl.
  - apply Nat.eqb_eq in E. subst.
    destruct (inb j stack) eqn:I; [apply inb_in in I; contradiction | reflexivity].
  - rewrite app_nil_r. reflexivity.
Qed.

Lemma proj_body_log j stack : NoDup stack -> forall (b : body) h,
  proj j (body_log H V vnone stack b h) = if inb j stack then body_entries H V vnone b h else [].
Proof.
  intros ND. induction b as [r|f k IH|k IH|s self owner callee IHc k IHk]; intros h; simpl.
  - destruct (inb j stack); reflexivity.
  - apply IH.
  - apply IH.
  - destruct (run_body callee h) as [h1 r].
    rewrite proj_app, IHk. unfold call_log, call_entries.
    destruct (find_patch s) as [p|].
    + rewrite (proj_chain j _ _ _ stack ND), IHc. destruct (inb j stack); [reflexivity|]. reflexivity.
    + rewrite IHc. destruct (inb j stack); reflexivity.
Qed.

Lemma proj_prog_log j : forall (p : prog) stack h,
  NoDup stack -> wf H V stack p ->
  proj j (prog_log H V vnone stack p h) = prog_entries H V vnone j stack p h.
Proof.
  induction p as [|e|b k IH|j' blk IHb k IHk|blk IHb k IHk]; intros stack h ND W; simpl.
  - reflexivity.
  - reflexivity.
  - destruct (run_body b h) as [h1 r]. rewrite proj_app, (proj_body_log j stack ND), (IH r stack h1 ND (W r)). reflexivity.
  - destruct W as [Nj [Wb Wk]]. destruct (run_plain blk h) as [[h1 rs1] o1].
    rewrite proj_app, (IHb (j' :: stack) h (NoDup_cons _ Nj ND) Wb).
    destruct o1; [reflexivity|]. rewrite (IHk stack h1 ND Wk). reflexivity.
  - destruct W as [Wb Wk]. destruct (run_plain blk h) as [[h1 rs1] o1].
    rewrite proj_app, (IHb stack h ND Wb), (IHk o1 stack h1 ND (Wk o1)). reflexivity.
Qed.

(* ------------------------------------------------------------------ counting *)

Definition weight (c : slot * bool) : nat := n_pre (fst c) + (if snd c then n_post (fst c) else 0).

Lemma entries_weight : forall (b : body) h,
  List.length (body_entries H V vnone b h) = list_sum (map weight (calls H V vnone b h)).
Proof.
  induction b as [r|f k IH|k IH|s self owner callee IHc k IHk]; intros h; simpl.
  - reflexivity.
  - apply IH.
  - apply IH.
  - destruct (run_body callee h) as [h1 r].
    rewrite !map_app, !list_sum_app, !app_length, IHk, <- IHc.
    unfold call_entries, weight, n_pre, n_post, pre_entries, post_entries.
    destruct (find_patch s) as [p|] eqn:F; simpl; rewrite ?F; [|lia].
    rewrite !app_length, map_length.
    destruct r as [v|e]; simpl.
    + destruct (call_is_ret (p_steps p)); simpl; try rewrite map_length; lia.
    + lia.
Qed.

Lemma calls_patched : forall (b : body) h,
  Forall (fun c => find_patch (fst c) <> None) (calls H V vnone b h).
Proof.
  induction b as [r|f k IH|k IH|s self owner callee IHc k IHk]; intros h; simpl.
  - constructor.
  - apply IH.
  - apply IH.
  - destruct (run_body callee h) as [h1 r].
    apply Forall_app. split; [apply IHc|]. apply Forall_app. split; [|apply IHk].
    destruct (find_patch s) eqn:F; constructor; [simpl; congruence | constructor].
Qed.

Lemma once_weight s : records_once_all = true -> find_patch s <> None -> n_pre s + n_post s = 1.
Proof.
  intros R F. unfold n_pre, n_post. destruct (find_patch s) as [p|] eqn:FP; [|congruence].
  destruct (find_patch_props s p FP) as [_ Hin].
  unfold records_once_all in R. rewrite forallb_forall in R. specialize (R p Hin).
  unfold records_once in R. apply Nat.eqb_eq in R.
  destruct (call_is_ret (p_steps p)); lia.
Qed.

Lemma sum_weights l :
  records_once_all = true -> Forall (fun c : slot * bool => find_patch (fst c) <> None) l ->
  list_sum (map weight l) =
  List.length (filter (fun c => snd c) l)
  + list_sum (map (fun c => n_pre (fst c)) (filter (fun c => negb (snd c)) l)).
Proof.
  intros R. induction l as [|[s ok] l IH]; intros F; simpl; [reflexivity|].
  inversion F as [|? ? Fs Fl]; subst. rewrite (IH Fl). unfold weight; simpl.
  destruct ok; simpl.
  - pose proof (once_weight s R Fs). lia.
  - lia.
Qed.

End Transparent.

(* ------------------------------------------------------------------ statements used by Property.v *)

Section Packaged.
Variables (H V : Type) (vnone : V).
Hypothesis OK : lists_ok = true.

Lemma restore_stmt (p : prog H V) active st h :
  wf H V active p ->
  let '(st', _, _, _, _) := run H V vnone p st h in
  (forall s, st_tbl st' s = st_tbl st s) /\ st_cur st' = st_cur st.
Proof.
  intros W. destruct (run H V vnone p st h) as [[[[st' h'] rs] o] l] eqn:R.
  destruct (run_restores H V vnone OK p active st h _ _ _ _ _ W R) as [T [C _]]. split; assumption.
Qed.

Lemma transparent_stmt (p : prog H V) stack st h :
  NoDup stack -> wf H V stack p -> (forall s, st_tbl st s = tbl_of stack s) ->
  let '(st', h', rs, o, l) := run H V vnone p st h in
  run_plain H V vnone p h = (h', rs, o) /\ st_wrong st' = st_wrong st
  /\ forall j, proj j l = prog_entries H V vnone j stack p h.
Proof.
  intros ND W Ht. destruct (run H V vnone p st h) as [[[[st' h'] rs] o] l] eqn:R.
  destruct (run_transparent H V vnone OK p stack st h _ _ _ _ _ W Ht R) as [P [L Wr]].
  split; [exact P | split; [exact Wr|]]. intros j. rewrite L. apply proj_prog_log; assumption.
Qed.

(* one wrapper around an original (the per-wrapper statement): same heap, same observable
   result/exception, and journal j gets exactly one more entry when the call returns *)
Lemma wrapped_call_stmt p j self owner (callee_run : H -> out H V) h h1 r lc :
  In p patched -> records_once_all = true -> callee_run h = (h1, r, lc, false) ->
  exists r' l',
    exec_impl H V vnone (Wrapped j p (Orig (p_slot p))) (p_slot p) self owner callee_run h = (h1, r', l', false)
    /\ observe V vnone (p_slot p) r' = observe V vnone (p_slot p) r
    /\ proj j l' = pre_entries p self owner ++ proj j lc ++ post_entries V p self owner r
    /\ (is_ok r = true -> List.length (pre_entries p self owner ++ post_entries V p self owner r) = 1).
Proof.
  intros Hin R1 I. destruct (ok_patched OK p Hin) as [_ [W _]].
  assert (C : count_calls (p_steps p) = 1).
  { unfold wrapper_ok in W. apply andb_prop in W. destruct W as [W' _]. apply Nat.eqb_eq in W'. exact W'. }
  pose proof (chain_spec H V vnone p (p_slot p) self owner callee_run h h1 r lc C I [j]) as E. simpl in E.
  eexists. eexists. split; [exact E|]. split; [apply (observe_adj V vnone p [j] r W)|]. split.
  - rewrite !proj_app, !proj_tag, Nat.eqb_refl. reflexivity.
  - intros Hok. unfold records_once_all in R1. rewrite forallb_forall in R1. specialize (R1 p Hin).
    unfold records_once in R1. apply Nat.eqb_eq in R1.
    unfold pre_entries, post_entries. rewrite Hok. rewrite app_length, map_length.
    destruct (call_is_ret (p_steps p)); simpl; [|rewrite map_length]; lia.
Qed.

Lemma count_stmt (b : body H V) h :
  records_once_all = true ->
  List.length (body_entries H V vnone b h) =
  List.length (filter (fun c => snd c) (calls H V vnone b h))
  + list_sum (map (fun c => n_pre (fst c)) (filter (fun c => negb (snd c)) (calls H V vnone b h))).
Proof.
  intros R. rewrite entries_weight. apply sum_weights; [exact R | apply calls_patched].
Qed.

End Packaged.

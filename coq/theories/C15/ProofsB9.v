(* C15/ProofsB9.v — C15_fix_keeps_unique for values, full form for one run: the value may be met anywhere
   (graph input/output, node input/output, or only through an initializer dictionary), uniqueness is only
   required among the values the run meets; plus the frame of a run (values it does not meet keep their name). *)
From Coq Require Import NArith List Bool Lia.
From IRV Require Import Base.Exn C15.Model C15.ProofsA C15.ProofsA2 C15.ProofsB2 C15.ProofsB3 C15.ProofsC C15.ProofsC3
  C15.ProofsB4 C15.ProofsB5 C15.ProofsB7.
Import ListNotations.
Open Scope N_scope.

(* the values a run over es meets *)
Definition run_vals (es : list ev) (inits : list (N * idict)) (w : N) : Prop :=
  In w (ev_values es) \/ exists gid k, In gid (entered es) /\ In (k, w) (get_dict gid inits).

Section Keep2.
  Variables (vn0 : N -> option name) (inits0 : list (N * idict)) (rv : list name) (E : list N).
  Variable P : N -> Prop.
  Hypothesis W : WF0 vn0 inits0.
  Hypothesis PE : forall gid k w, In gid E -> In (k, w) (get_dict gid inits0) -> P w.
  Notation TI := (TInv vn0 inits0 rv E).

  (* seen values are values of the run *)
  Definition SInv (s : fstate) : Prop := forall w, In w (f_seen s) -> P w.

  Definition ev_inP (e : ev) : Prop :=
    match e with
    | EEnter _ _ ins outs => Forall P (ins ++ outs)
    | EExit => True
    | ENode _ nins nouts => Forall P (somes nins ++ nouts)
    end.

  Section Target.
    Variables (v : N) (n : name).
    Hypothesis Hn : n <> [].
    Hypothesis Hu : forall w, w <> v -> P w -> vn0 w <> Some n.
    Hypothesis Hr : In n rv.

    Record KInv2 (s : fstate) : Prop := {
      k2_scopes : forall u x, In u (f_vscopes s) -> In x u ->
                    (exists w, In w (f_seen s) /\ vn0 w = Some x) \/ ~ In x rv;
      k2_target : f_vn s v = Some n;
      k2_seen : SInv s
    }.

    Lemma process_value_keep2 w s s' :
      P w -> process_value w s = (s', None) -> TI s -> KInv2 s -> KInv2 s'.
    Proof.
      intros Pw H T [K1 K4 K5].
      destruct (memN w (f_seen s)) eqn:Es.
      - unfold process_value in H. rewrite Es in H. inversion H; subst. constructor; assumption.
      - destruct (f_vscopes s) as [|used rest] eqn:Hsc.
        { unfold process_value in H. rewrite Es, Hsc in H. inversion H. }
        pose proof (process_value_spec w s used rest Hsc) as S. rewrite H, Es in S.
        destruct S as [new [A [B [C [D [Ee [F [_ [_ [G [_ [R [Rv _]]]]]]]]]]]]].
        apply memN_nIn in Es.
        assert (Hw0 : f_vn s w = vn0 w) by (apply (t_unseen _ _ _ _ _ T); exact Es).
        constructor.
        + intros u x Iu Ix. rewrite D in Iu. rewrite Ee.
          assert (Old : forall u0 x0, In u0 (used :: rest) -> In x0 u0 ->
                    (exists w0, In w0 (w :: f_seen s) /\ vn0 w0 = Some x0) \/ ~ In x0 rv).
          { intros u0 x0 I0 J0. destruct (K1 u0 x0 I0 J0) as [[w0 [P0 Q]]|P0];
              [left; exists w0; split; [right; exact P0 | exact Q] | right; exact P0]. }
          destruct Iu as [<-|Iu]; [|apply (Old u x); [right; exact Iu | exact Ix]].
          destruct Ix as [<-|Ix]; [|apply (Old used x); [left; reflexivity | exact Ix]].
          destruct (option_eqb name_eqb (f_vn s w) (Some new)) eqn:Eq.
          * left. exists w. split; [left; reflexivity|]. rewrite <- Hw0.
            destruct (f_vn s w) as [o|]; simpl in Eq; [|discriminate]. apply name_eqb_eq in Eq. congruence.
          * right. rewrite <- (t_rv _ _ _ _ _ T). apply R. intros X. rewrite X in Eq. simpl in Eq.
            rewrite name_eqb_refl in Eq. discriminate.
        + destruct (N.eq_dec w v) as [->|Hne]; [|rewrite F by (intros X; apply Hne; symmetry; exact X); exact K4].
          rewrite A. f_equal. apply G; [exact K4 | exact Hn |].
          intros Iu. destruct (K1 used n (or_introl eq_refl) Iu) as [[w0 [P0 Q]]|P0].
          * apply (Hu w0); [intros ->; contradiction | apply K5; exact P0 | exact Q].
          * contradiction.
        + intros w0 Hw. rewrite Ee in Hw. destruct Hw as [<-|Hw]; [exact Pw | apply K5; exact Hw].
    Qed.

    Lemma process_value_rec_keep2 w s s' :
      P w -> process_value_rec w s = (s', None) -> TI s -> KInv2 s -> KInv2 s'.
    Proof.
      intros Pw H T K. destruct (process_value_rec_ok _ _ _ H) as [s1 [Eok ->]].
      pose proof (process_value_keep2 w s s1 Pw Eok T K) as K1.
      destruct (memN w (f_seen s)) eqn:Es; simpl; [exact K1|].
      destruct (first_visit_top _ _ _ Eok Es) as [x [top [rest [A [B C]]]]].
      destruct K1 as [Q R S]. constructor; simpl; try assumption.
      apply (record_scopes_prop (fun y => (exists w0, In w0 (f_seen s1) /\ vn0 w0 = Some y) \/ ~ In y rv) w s1).
      - intros y Hy. assert (y = x) by congruence. subst y. apply (Q top x); [rewrite B; left; reflexivity | exact C].
      - exact Q.
    Qed.

    Lemma process_values_keep2 ws : forall s s',
      Forall P ws -> Forall (closed_val inits0 E) ws -> process_values ws s = (s', None) -> TI s -> KInv2 s ->
      TI s' /\ KInv2 s'.
    Proof.
      induction ws as [|w r IH]; intros s s' HP Hc H T K; simpl in H.
      - inversion H; subst. auto.
      - inversion HP; subst. inversion Hc; subst. unfold fbind in H.
        destruct (process_value_rec w s) as [s1 [e|]] eqn:E1; simpl in H; [inversion H|].
        assert (T1 : TI s1).
        { destruct (process_value_rec_good vn0 inits0 rv E W w H4 s T) as [_ B]. rewrite E1 in B. apply B. reflexivity. }
        apply (IH s1 s'); try assumption. eapply process_value_rec_keep2; eassumption.
    Qed.

    Lemma node_name_keep2 m s s' : process_node_name m s = (s', None) -> TI s -> KInv2 s -> TI s' /\ KInv2 s'.
    Proof.
      intros H T K. split.
      - destruct (process_node_name_good vn0 inits0 rv E m s T) as [_ B]. rewrite H in B. apply B. reflexivity.
      - destruct K as [A B C]. unfold process_node_name in H.
        destruct (f_nscopes s) as [|used rest]; [inversion H|].
        match type of H with context [if ?c then _ else _] => destruct c end.
        + inversion H; subst. constructor; assumption.
        + destruct (find_unique _ _ _ _) as [[[new used'] cnt']|]; inversion H; subst. constructor; assumption.
    Qed.

    Lemma fx_step_keep2 e s s' :
      ev_closed inits0 E e -> ev_inP e -> fx_step e s = (s', None) -> TI s -> KInv2 s -> TI s' /\ KInv2 s'.
    Proof.
      intros Hc HP H T K.
      destruct e as [gid isfunc ins outs| |nid nins nouts]; simpl in *.
      - destruct (f_vscopes s) as [|top rest] eqn:Hsc; [inversion H|].
        destruct Hc as [Hio HgE]. apply Forall_app in Hio. destruct Hio as [Hi Ho].
        apply Forall_app in HP. destruct HP as [Pi Po].
        set (s1 := mkF (f_own s) (gid :: f_so s) (f_vx s) (f_nx s) (f_rv s) (f_rn s) (f_vn s) (f_nn s) (f_inits s) (f_seen s) (f_vcnt s) (f_ncnt s)
                       (top :: top :: rest) ([] :: f_nscopes s) (f_mod s)) in *.
        assert (T1 : TI s1) by (destruct T as [a b c d f0 g0 h]; constructor; simpl; assumption).
        assert (K1 : KInv2 s1).
        { destruct K as [A B C]. constructor; simpl; try assumption.
          intros u x Iu Ix. apply (A u x); [|exact Ix]. rewrite Hsc. destruct Iu as [<-|Iu]; [left; reflexivity | exact Iu]. }
        unfold fbind in H.
        destruct (process_values ins s1) as [s2 [e2|]] eqn:E2; simpl in H; [inversion H|].
        destruct (process_values outs s2) as [s3 [e3|]] eqn:E3; simpl in H; [inversion H|].
        destruct (process_values_keep2 ins s1 s2 Pi Hi E2 T1 K1) as [T2 K2].
        destruct (process_values_keep2 outs s2 s3 Po Ho E3 T2 K2) as [T3 K3].
        destruct isfunc; [inversion H; subst; auto|].
        apply (process_values_keep2 (map snd (get_dict gid (f_inits s3))) s3 s'); try assumption.
        + apply Forall_forall. intros w Hw. apply in_map_iff in Hw. destruct Hw as [[k w'] [Ew Hw]]. simpl in Ew. subst w'.
          destruct (proj1 (t_mem _ _ _ _ _ T3 gid w) (ex_intro _ k Hw)) as [k1 X1].
          apply (PE gid k1 w); [apply HgE; reflexivity | exact X1].
        + apply Forall_forall. intros w Hw. apply in_map_iff in Hw. destruct Hw as [[k w'] [Ew Hw]]. simpl in Ew. subst w'.
          intros g0 k0 X. destruct (proj1 (t_mem _ _ _ _ _ T3 gid w) (ex_intro _ k Hw)) as [k1 X1].
          assert (g0 = gid) by (eapply (w_one _ _ W); eassumption). subst g0. apply HgE. reflexivity.
      - inversion H; subst. split.
        + destruct T as [a b c d f0 g0 h]; constructor; simpl; assumption.
        + destruct K as [A B C]. constructor; simpl; try assumption.
          intros u x Iu Ix. apply (A u x); [|exact Ix]. destruct (f_vscopes s); [destruct Iu | right; exact Iu].
      - apply Forall_app in Hc. destruct Hc as [Hi Ho]. apply Forall_app in HP. destruct HP as [Pi Po].
        unfold fbind in H.
        destruct (process_node_name nid s) as [s1 [e1|]] eqn:E1; simpl in H; [inversion H|].
        destruct (process_values (somes nins) s1) as [s2 [e2|]] eqn:E2; simpl in H; [inversion H|].
        destruct (node_name_keep2 _ _ _ E1 T K) as [T1 K1].
        destruct (process_values_keep2 _ _ _ Pi Hi E2 T1 K1) as [T2 K2].
        apply (process_values_keep2 _ _ _ Po Ho H T2 K2).
    Qed.

    Lemma fx_events_keep2 es : forall s s',
      Forall (ev_closed inits0 E) es -> Forall ev_inP es -> fx_events es s = (s', None) -> TI s -> KInv2 s ->
      TI s' /\ KInv2 s'.
    Proof.
      induction es as [|e r IH]; intros s s' Hc HP H T K; simpl in H.
      - inversion H; subst. auto.
      - inversion Hc; subst. inversion HP; subst. unfold fbind in H.
        destruct (fx_step e s) as [s1 [e1|]] eqn:E1; simpl in H; [inversion H|].
        destruct (fx_step_keep2 e s s1 H2 H4 E1 T K) as [T1 K1].
        apply (IH s1 s'); assumption.
    Qed.
  End Target.
End Keep2.

Lemma ev_inP_run es0 inits : forall es, incl (ev_values es) (ev_values es0) -> Forall (ev_inP (run_vals es0 inits)) es.
Proof.
  induction es as [|e r IH]; intros Hi; constructor.
  - destruct e as [gid isfunc ins outs| |nid nins nouts]; simpl in *; try exact I;
      apply Forall_forall; intros w Hw; left; apply Hi; rewrite app_assoc; apply in_or_app; left; exact Hw.
  - apply IH. intros w Hw. apply Hi. destruct e as [gid isfunc ins outs| |nid nins nouts]; simpl; auto;
      apply in_or_app; right; apply in_or_app; right; exact Hw.
Qed.

(* C15_fix_keeps_unique, values, one run *)
Theorem fix_keeps_unique_value_run g own vx nx vn nn inits m v n :
  WF0 vn inits -> closed_run (events_graph g) inits ->
  vn v = Some n -> n <> [] ->
  run_vals (events_graph g) inits v ->
  (forall w, w <> v -> run_vals (events_graph g) inits w -> vn w <> Some n) ->
  f_vn (fst (fix_graph_names g own vx nx vn nn inits m)) v = Some n.
Proof.
  intros W Hc Hv Hn Hin Hu.
  destruct (fix_run_total g own vx nx vn nn inits m W Hc) as [Hnone _].
  set (es := events_graph g) in *.
  set (rv := fst (collect_names es vn nn inits)). set (rn := snd (collect_names es vn nn inits)).
  assert (Er : fix_graph_names g own vx nx vn nn inits m = fx_events es (fx_init own vx nx rv rn vn nn inits m)).
  { unfold fix_graph_names, rv, rn, es. destruct (collect_names (events_graph g) vn nn inits); reflexivity. }
  rewrite Er in *.
  destruct (fx_events es (fx_init own vx nx rv rn vn nn inits m)) as [s' e] eqn:Hrun. simpl in Hnone. subst e. simpl.
  assert (Hev : Forall (ev_closed inits (entered es)) es).
  { apply closed_events; [|apply incl_refl]. intros w Hw g0 k X. eapply Hc; eassumption. }
  assert (Hr : In n rv).
  { destruct Hin as [Hin|[gid [k [Hg Hk]]]].
    - apply (collect_values es vn nn inits v n Hin Hv Hn).
    - destruct (w_keyed _ _ W _ _ _ Hk) as [A _]. assert (k = n) by congruence. subst k.
      eapply collect_keys; eassumption. }
  pose proof (TInv_init own vx nx vn nn inits m g W) as T0. simpl in T0. fold es rv rn in T0.
  assert (K0 : KInv2 vn rv (run_vals es inits) v n (fx_init own vx nx rv rn vn nn inits m)).
  { constructor; simpl; auto. - intros u x [<-|[]] []. - intros w []. }
  assert (PE : forall gid k w, In gid (entered es) -> In (k, w) (get_dict gid inits) -> run_vals es inits w).
  { intros gid k w A B. right. exists gid, k. auto. }
  destruct (fx_events_keep2 vn inits rv (entered es) (run_vals es inits) W PE v n Hn Hu Hr es _ _ Hev
              (ev_inP_run es inits es (incl_refl _)) Hrun T0 K0) as [_ Kf].
  apply (k2_target _ _ _ _ _ _ Kf).
Qed.

(* ---------- the frame of a run: only values the run meets become seen; the others keep their names *)
Lemma process_value_seen_rev w s s' : process_value w s = (s', None) ->
  forall x, In x (f_seen s') -> x = w \/ In x (f_seen s).
Proof.
  intros H x Hx. destruct (memN w (f_seen s)) eqn:Es.
  - unfold process_value in H. rewrite Es in H. inversion H; subst. right. exact Hx.
  - destruct (f_vscopes s) as [|used rest] eqn:Hsc.
    { unfold process_value in H. rewrite Es, Hsc in H. inversion H. }
    pose proof (process_value_spec w s used rest Hsc) as S. rewrite H, Es in S.
    destruct S as [new [_ [_ [_ [_ [A _]]]]]]. rewrite A in Hx. destruct Hx as [<-|Hx]; auto.
Qed.

Lemma process_value_rec_seen_rev w s s' : process_value_rec w s = (s', None) ->
  forall x, In x (f_seen s') -> x = w \/ In x (f_seen s).
Proof.
  intros H. destruct (process_value_rec_ok _ _ _ H) as [s1 [E ->]].
  pose proof (process_value_seen_rev _ _ _ E) as F. destruct (negb (memN w (f_seen s))); simpl; exact F.
Qed.

Lemma process_values_seen_rev ws : forall s s', process_values ws s = (s', None) ->
  forall x, In x (f_seen s') -> In x ws \/ In x (f_seen s).
Proof.
  induction ws as [|w r IH]; intros s s' H x Hx; simpl in H.
  - inversion H; subst. right. exact Hx.
  - unfold fbind in H. destruct (process_value_rec w s) as [s1 [e|]] eqn:E1; simpl in H; [inversion H|].
    destruct (IH _ _ H x Hx) as [A|A]; [left; right; exact A|].
    destruct (process_value_rec_seen_rev _ _ _ E1 x A) as [->|B]; [left; left; reflexivity | right; exact B].
Qed.

Section Frame.
  Variables (vn0 : N -> option name) (inits0 : list (N * idict)) (rv : list name) (E : list N).
  Hypothesis W : WF0 vn0 inits0.

  Lemma fx_events_seen_rev es : forall s s',
    Forall (ev_closed inits0 E) es -> fx_events es s = (s', None) -> TInv vn0 inits0 rv E s ->
    forall x, In x (f_seen s') -> In x (f_seen s) \/ run_vals es inits0 x.
  Proof.
    induction es as [|e r IH]; intros s s' Hc H T x Hx; simpl in H.
    - inversion H; subst. left. exact Hx.
    - inversion Hc as [|? ? He Hr]; subst. unfold fbind in H.
      destruct (fx_step e s) as [s1 [e1|]] eqn:E1; simpl in H; [inversion H|].
      assert (T1 : TInv vn0 inits0 rv E s1).
      { destruct (fx_step_good vn0 inits0 rv E W e He s T) as [_ B]. rewrite E1 in B. apply B. reflexivity. }
      assert (Lift : run_vals r inits0 x -> run_vals (e :: r) inits0 x).
      { intros [A|[gid [k [A B]]]].
        - left. destruct e as [g0 isf ins outs| |nid nins nouts]; simpl; auto; apply in_or_app; right; apply in_or_app; right; exact A.
        - right. exists gid, k. split; [|exact B]. destruct e as [g0 [|] ins outs| |nid nins nouts]; simpl; auto. }
      destruct (IH _ _ Hr H T1 x Hx) as [A|A]; [|right; apply Lift; exact A].
      (* x was seen after the first event: either before it, or it is one of the event's values *)
      destruct e as [gid isfunc ins outs| |nid nins nouts]; simpl in E1.
      + destruct (f_vscopes s) as [|top rest]; [inversion E1|]. unfold fbind in E1.
        match type of E1 with context [process_values ins ?sa] => set (sa' := sa) in *; destruct (process_values ins sa') as [sb [eb|]] eqn:Eb end; simpl in E1; [inversion E1|].
        destruct (process_values outs sb) as [sc [ec|]] eqn:Ec; simpl in E1; [inversion E1|].
        destruct He as [Hio HgE]. apply Forall_app in Hio. destruct Hio as [Hi Ho].
        assert (Ta : TInv vn0 inits0 rv E sa') by (destruct T as [a b c d f0 g1 h]; constructor; simpl; assumption).
        assert (Tb : TInv vn0 inits0 rv E sb).
        { destruct (process_values_good vn0 inits0 rv E W ins Hi sa' Ta) as [_ B]. rewrite Eb in B. apply B. reflexivity. }
        assert (Tc : TInv vn0 inits0 rv E sc).
        { destruct (process_values_good vn0 inits0 rv E W outs Ho sb Tb) as [_ B]. rewrite Ec in B. apply B. reflexivity. }
        assert (Xc : In x (f_seen sc) -> In x (f_seen s) \/ run_vals (EEnter gid isfunc ins outs :: r) inits0 x).
        { intros Q. destruct (process_values_seen_rev _ _ _ Ec x Q) as [Q1|Q1].
          - right. left. simpl. apply in_or_app. right. apply in_or_app. left. exact Q1.
          - destruct (process_values_seen_rev _ _ _ Eb x Q1) as [Q2|Q2].
            + right. left. simpl. apply in_or_app. left. exact Q2.
            + left. exact Q2. }
        destruct isfunc; [inversion E1; subst; apply Xc; exact A|].
        destruct (process_values_seen_rev _ _ _ E1 x A) as [Q|Q]; [|apply Xc; exact Q].
        right. right. apply in_map_iff in Q. destruct Q as [[k x'] [Ex Q]]. simpl in Ex. subst x'.
        destruct (proj1 (t_mem _ _ _ _ _ Tc gid x) (ex_intro _ k Q)) as [k0 Q0].
        exists gid, k0. split; [left; reflexivity | exact Q0].
      + inversion E1; subst. left. exact A.
      + unfold fbind in E1.
        destruct (process_node_name nid s) as [sa [ea|]] eqn:Ea; simpl in E1; [inversion E1|].
        destruct (process_values (somes nins) sa) as [sb [eb|]] eqn:Eb; simpl in E1; [inversion E1|].
        destruct (node_name_seen _ _ _ Ea) as [Qs _].
        destruct (process_values_seen_rev _ _ _ E1 x A) as [Q|Q].
        * right. left. simpl. apply in_or_app. right. apply in_or_app. left. exact Q.
        * destruct (process_values_seen_rev _ _ _ Eb x Q) as [Q1|Q1].
          -- right. left. simpl. apply in_or_app. left. exact Q1.
          -- left. rewrite <- Qs. exact Q1.
  Qed.
End Frame.

Theorem fix_run_frame g own vx nx vn nn inits m w :
  WF0 vn inits -> closed_run (events_graph g) inits -> ~ run_vals (events_graph g) inits w ->
  f_vn (fst (fix_graph_names g own vx nx vn nn inits m)) w = vn w.
Proof.
  intros W Hc Hw.
  destruct (fix_run_total g own vx nx vn nn inits m W Hc) as [Hnone [_ [_ Tf]]].
  set (es := events_graph g) in *.
  set (rv := fst (collect_names es vn nn inits)) in *. set (rn := snd (collect_names es vn nn inits)).
  assert (Er : fix_graph_names g own vx nx vn nn inits m = fx_events es (fx_init own vx nx rv rn vn nn inits m)).
  { unfold fix_graph_names, rv, rn, es. destruct (collect_names (events_graph g) vn nn inits); reflexivity. }
  rewrite Er in *.
  destruct (fx_events es (fx_init own vx nx rv rn vn nn inits m)) as [s' e] eqn:Hrun. simpl in *. subst e.
  apply (t_unseen _ _ _ _ _ Tf). intros Hs. apply Hw.
  assert (Hev : Forall (ev_closed inits (entered es)) es).
  { apply closed_events; [|apply incl_refl]. intros w0 Hw0 g0 k X. eapply Hc; eassumption. }
  pose proof (TInv_init own vx nx vn nn inits m g W) as T0. simpl in T0. fold es rv rn in T0.
  destruct (fx_events_seen_rev vn inits rv (entered es) W es _ _ Hev Hrun T0 w Hs) as [[]|X]. exact X.
Qed.

(* C15/ProofsB3.v — NameFixPass after fix 25cf9b5: names that were already unique are kept (values),
   for one _fix_graph_names run over any event list, any nesting, any scoping. *)
From Coq Require Import NArith List Bool Lia.
From IRV Require Import Base.Exn C15.Model C15.ProofsA C15.ProofsA2 C15.ProofsB2.
Import ListNotations.
Open Scope N_scope.

Section Keep.
  Variables (vn0 : N -> option name) (rv : list name) (v : N) (n : name).
  Hypothesis Hv : vn0 v = Some n.
  Hypothesis Hn : n <> [].
  Hypothesis Hu : forall w, w <> v -> vn0 w <> Some n.        (* no other value carries the name *)
  Hypothesis Hr : In n rv.                                     (* the pre-scan saw it *)

  Record KInv (s : fstate) : Prop := {
    k_scopes : forall u x, In u (f_vscopes s) -> In x u ->
                 (exists w, In w (f_seen s) /\ vn0 w = Some x) \/ ~ In x rv;
    k_unseen : forall w, ~ In w (f_seen s) -> f_vn s w = vn0 w;
    k_rv : f_rv s = rv;
    k_target : f_vn s v = Some n
  }.

  Definition preserves (f : fstate -> fres) : Prop :=
    forall s s', f s = (s', None) -> KInv s -> KInv s'.

  Lemma preserves_bind f g : preserves f -> preserves g -> preserves (fun s => fbind (f s) g).
  Proof.
    intros Pf Pg s s' H K. unfold fbind in H. destruct (f s) as [s1 [e|]] eqn:E; simpl in H.
    - inversion H.
    - apply (Pg s1 s' H). apply (Pf s s1 E K).
  Qed.

  Lemma process_value_preserves w : preserves (process_value w).
  Proof.
    intros s s' H [K1 K2 K3 K4].
    destruct (memN w (f_seen s)) eqn:Es.
    - unfold process_value in H. rewrite Es in H. inversion H; subst. constructor; assumption.
    - destruct (f_vscopes s) as [|used rest] eqn:Hsc.
      { unfold process_value in H. rewrite Es, Hsc in H. inversion H. }
      pose proof (process_value_spec w s used rest Hsc) as S. rewrite H, Es in S.
      destruct S as [new [A [B [C [D [E [F [_ [_ [G [_ [R [Rv _]]]]]]]]]]]]].
      apply memN_nIn in Es.
      assert (Hw0 : f_vn s w = vn0 w) by (apply K2; exact Es).
      constructor.
      + intros u x Iu Ix. rewrite D in Iu. rewrite E.
        assert (Old : forall u0 x0, In u0 (used :: rest) -> In x0 u0 ->
                  (exists w0, In w0 (w :: f_seen s) /\ vn0 w0 = Some x0) \/ ~ In x0 rv).
        { intros u0 x0 I0 J0. destruct (K1 u0 x0 I0 J0) as [[w0 [P Q]]|P]; [left; exists w0; split; [right; exact P | exact Q] | right; exact P]. }
        destruct Iu as [<-|Iu]; [|apply (Old u x); [right; exact Iu | exact Ix]].
        destruct Ix as [<-|Ix]; [|apply (Old used x); [left; reflexivity | exact Ix]].
        destruct (option_eqb name_eqb (f_vn s w) (Some new)) eqn:Eq.
        * left. exists w. split; [left; reflexivity|]. rewrite <- Hw0.
          destruct (f_vn s w) as [o|]; simpl in Eq; [|discriminate]. apply name_eqb_eq in Eq. congruence.
        * right. rewrite <- K3. apply R. intros X. rewrite X in Eq. simpl in Eq. rewrite name_eqb_refl in Eq. discriminate.
      + intros w0 Hw0'. rewrite E in Hw0'. assert (w0 <> w) by (intros ->; apply Hw0'; left; reflexivity).
        rewrite F by assumption. apply K2. intros X. apply Hw0'. right. exact X.
      + congruence.
      + destruct (N.eq_dec w v) as [->|Hne]; [|rewrite F by (intros X; apply Hne; symmetry; exact X); exact K4].
        (* the target itself: its name is not in the used set, so it is kept *)
        rewrite A. f_equal. apply G; [exact K4 | exact Hn |].
        intros Iu. destruct (K1 used n (or_introl eq_refl) Iu) as [[w0 [P Q]]|P].
        * apply (Hu w0); [intros ->; contradiction | exact Q].
        * contradiction.
  Qed.

  Lemma process_value_rec_preserves w : preserves (process_value_rec w).
  Proof.
    intros s s' H K. destruct (process_value_rec_ok _ _ _ H) as [s1 [E ->]].
    pose proof (process_value_preserves w s s1 E K) as K1.
    destruct (memN w (f_seen s)) eqn:Es; simpl; [exact K1|].
    destruct (first_visit_top _ _ _ E Es) as [x [top [rest [A [B C]]]]].
    destruct K1 as [P Q R S]. constructor; simpl; try assumption.
    apply (record_scopes_prop (fun y => (exists w0, In w0 (f_seen s1) /\ vn0 w0 = Some y) \/ ~ In y rv) w s1).
    - intros y Hy. assert (y = x) by congruence. subst y. apply (P top x); [rewrite B; left; reflexivity | exact C].
    - exact P.
  Qed.

  Lemma process_values_preserves ws : preserves (process_values ws).
  Proof.
    induction ws as [|w r IH]; simpl.
    - intros s s' H K. inversion H; subst. exact K.
    - apply (preserves_bind (process_value_rec w) (process_values r)); [apply process_value_rec_preserves | exact IH].
  Qed.

  Lemma process_node_name_preserves m : preserves (process_node_name m).
  Proof.
    intros s s' H [K1 K2 K3 K4]. unfold process_node_name in H.
    destruct (f_nscopes s) as [|used rest]; [inversion H|].
    match type of H with context [if ?c then _ else _] => destruct c end.
    - inversion H; subst. constructor; assumption.
    - destruct (find_unique _ _ _ _) as [[[new used'] cnt']|]; inversion H; subst. constructor; assumption.
  Qed.

  Lemma fx_step_preserves e : preserves (fx_step e).
  Proof.
    destruct e as [gid isfunc ins outs| |nid nins nouts].
    - intros s s' H K. simpl in H. destruct (f_vscopes s) as [|top rest] eqn:Hsc; [inversion H|].
      set (s1 := mkF (f_own s) (gid :: f_so s) (f_vx s) (f_nx s) (f_rv s) (f_rn s) (f_vn s) (f_nn s) (f_inits s) (f_seen s) (f_vcnt s) (f_ncnt s)
                     (top :: top :: rest) ([] :: f_nscopes s) (f_mod s)) in *.
      assert (K1 : KInv s1).
      { destruct K as [A B C D]. constructor; simpl; try assumption.
        intros u x Iu Ix. apply (A u x); [|exact Ix]. rewrite Hsc. destruct Iu as [<-|Iu]; [left; reflexivity | exact Iu]. }
      revert H K1.
      apply (preserves_bind (process_values ins)
               (fun s2 => fbind (process_values outs s2) (fun s3 =>
                  if isfunc then (s3, None) else process_values (map snd (get_dict gid (f_inits s3))) s3)) ).
      + apply process_values_preserves.
      + apply (preserves_bind (process_values outs)
               (fun s3 => if isfunc then (s3, None) else process_values (map snd (get_dict gid (f_inits s3))) s3)).
        * apply process_values_preserves.
        * intros s3 s4 H3 K3. destruct isfunc; [inversion H3; subst; exact K3|].
          eapply process_values_preserves; eassumption.
    - intros s s' H [A B C D]. simpl in H. inversion H; subst. constructor; simpl; try assumption.
      intros u x Iu Ix. apply (A u x); [|exact Ix]. destruct (f_vscopes s); [destruct Iu | right; exact Iu].
    - change (preserves (fun s => fbind (process_node_name nid s)
               (fun s1 => fbind (process_values (somes nins) s1) (fun s2 => process_values nouts s2)))).
      apply (preserves_bind (process_node_name nid)
               (fun s1 => fbind (process_values (somes nins) s1) (fun s2 => process_values nouts s2))).
      + apply process_node_name_preserves.
      + apply (preserves_bind (process_values (somes nins)) (process_values nouts));
          apply process_values_preserves.
  Qed.

  Lemma fx_events_preserves es : preserves (fx_events es).
  Proof.
    induction es as [|e r IH]; simpl.
    - intros s s' H K. inversion H; subst. exact K.
    - apply (preserves_bind (fx_step e) (fx_events r)); [apply fx_step_preserves | exact IH].
  Qed.
End Keep.

(* every name met by the traversal is in the reserved set *)
Fixpoint ev_values (es : list ev) : list N :=
  match es with
  | [] => []
  | EEnter _ _ ins outs :: r => ins ++ outs ++ ev_values r
  | EExit :: r => ev_values r
  | ENode _ nins nouts :: r => somes nins ++ nouts ++ ev_values r
  end.

Lemma named_In f xs x c n : In x xs -> f x = Some (c :: n) -> In (c :: n) (named f xs).
Proof.
  intros H E. unfold named. apply in_flat_map. exists x. split; [exact H|]. rewrite E. left. reflexivity.
Qed.

Lemma collect_values es vn nn inits x n :
  In x (ev_values es) -> vn x = Some n -> n <> [] -> In n (fst (collect_names es vn nn inits)).
Proof.
  intros H E Hn. destruct n as [|c n]; [congruence|].
  induction es as [|e r IH]; simpl in *; [destruct H|].
  destruct e as [gid isfunc ins outs| |nid nins nouts]; simpl in *.
  - destruct (collect_names r vn nn inits) as [a b]. simpl in *.
    rewrite app_assoc in H. apply in_app_or in H. apply in_or_app. destruct H as [H|H].
    + left. eapply named_In; eassumption.
    + right. apply in_or_app. right. apply IH. exact H.
  - apply IH. exact H.
  - destruct (collect_names r vn nn inits) as [a b]. simpl in *.
    rewrite app_assoc in H. apply in_app_or in H. apply in_or_app. destruct H as [H|H].
    + left. eapply named_In; eassumption.
    + right. apply IH. exact H.
Qed.

(* C15_fix_keeps_unique (values, one _fix_graph_names run): *)
Theorem fix_keeps_unique_value g own vx nx vn nn inits m v n :
  vn v = Some n -> n <> [] -> (forall w, w <> v -> vn w <> Some n) ->
  In v (ev_values (events_graph g)) ->
  forall s', fix_graph_names g own vx nx vn nn inits m = (s', None) -> f_vn s' v = Some n.
Proof.
  intros Hv Hn Hu Hin s' H. unfold fix_graph_names in H.
  destruct (collect_names (events_graph g) vn nn inits) as [rv rn] eqn:Ec.
  assert (Hr : In n rv).
  { pose proof (collect_values (events_graph g) vn nn inits v n Hin Hv Hn) as X. rewrite Ec in X. exact X. }
  assert (K0 : KInv vn rv v n (fx_init own vx nx rv rn vn nn inits m)).
  { constructor; simpl; auto. intros u x [<-|[]] []. }
  apply (k_target _ _ _ _ _ (fx_events_preserves vn rv v n Hn Hu Hr _ _ _ H K0)).
Qed.

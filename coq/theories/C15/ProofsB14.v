(* C15/ProofsB14.v — C15_fix_post at graph level for one _fix_graph_names run. *)
From Coq Require Import NArith List Bool Lia.
From IRV Require Import Base.Exn C15.Model C15.ProofsA C15.ProofsB2 C15.ProofsB3 C15.ProofsB4 C15.ProofsB5 C15.ProofsB6
  C15.ProofsB7 C15.ProofsB8 C15.ProofsB9 C15.ProofsB12 C15.ProofsB13.
Import ListNotations.
Open Scope N_scope.

Theorem fix_post_graph g ow vx nx vn nn inits m :
  WF0 vn inits -> closed_run (events_graph g) inits -> NoDup (ev_nodes (events_graph g)) ->
  well_scoped (events_graph g) inits ->
  let r := fix_graph_names g ow vx nx vn nn inits m in
  let s' := fst r in
  snd r = None /\
  (forall v, run_vals (events_graph g) inits v -> exists x, f_vn s' v = Some x /\ x <> []) /\
  (forall a, In a (ev_nodes (events_graph g)) -> exists x, f_nn s' a = Some x /\ x <> []) /\
  (forall vis h, nested (dv inits) [] g vis h ->
     forall v w, In v (vis ++ own (dv inits) h) -> In w (vis ++ own (dv inits) h) -> v <> w -> f_vn s' v <> f_vn s' w) /\
  (forall h, sub_of g h -> forall a b, In a (own_nodes h) -> In b (own_nodes h) -> a <> b -> f_nn s' a <> f_nn s' b) /\
  WF0 (f_vn s') (f_inits s').
Proof.
  intros W Hc ND Hws r s'.
  destruct (fix_post_run g ow vx nx vn nn inits m W Hc ND) as [A [B [C [D [F G]]]]].
  split; [exact A|]. split; [exact B|]. split; [exact C|]. split; [|split; [|exact G]].
  - intros vis h Hn v w Hv Hw Hne.
    destruct (naive_scopes_cover (dv inits) g vis h Hn) as [R [HR Hinc]].
    apply (D Hws R HR v w (Hinc v Hv) (Hinc w Hw) Hne).
  - intros h Hh a b Ha Hb Hne.
    destruct (node_records_cover g h Hh) as [M [HM Hinc]].
    apply (F M HM a b (Hinc a Ha) (Hinc b Hb) Hne).
Qed.

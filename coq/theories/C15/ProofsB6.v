(* C15/ProofsB6.v — NameFixPass: a name-free "ghost" run that records, for every scope of the traversal, which
   values have their name in that scope's used set; invariant linking it to the real run: within every scope
   (open or closed) distinct values carry distinct names. *)
From Coq Require Import NArith List Bool Lia.
From IRV Require Import Base.Exn C15.Model C15.ProofsA C15.ProofsA2 C15.ProofsB2.
Import ListNotations.
Open Scope N_scope.

Definition seteq (a b : list N) : Prop := forall x, In x a <-> In x b.

Record gh := mkGh {
  g_m : list (list N);      (* per open scope: the values whose names that scope's used set holds *)
  g_sn : list N;            (* values met so far *)
  g_cl : list (list N);     (* member lists of the scopes closed so far *)
  g_ok : bool               (* every value met again was met first in this scope or an enclosing one *)
}.

Definition unseen_in (sn : list N) (v : N) : bool := negb (memN v sn).

Definition touches (ws : list N) (g : gh) : gh :=
  match g_m g with
  | [] => g
  | top :: rest =>
      mkGh ((filter (unseen_in (g_sn g)) ws ++ top) :: rest) (ws ++ g_sn g) (g_cl g)
           (g_ok g && forallb (fun v => unseen_in (g_sn g) v || memN v top) ws)
  end.

Definition gh_step (dv : N -> list N) (e : ev) (g : gh) : gh :=
  match e with
  | EEnter gid isfunc ins outs =>
      match g_m g with
      | [] => g
      | top :: _ =>
          touches (if isfunc then [] else dv gid)
            (touches outs (touches ins (mkGh (top :: g_m g) (g_sn g) (g_cl g) (g_ok g))))
      end
  | EExit => match g_m g with [] => g | top :: rest => mkGh rest (g_sn g) (top :: g_cl g) (g_ok g) end
  | ENode _ nins nouts => touches nouts (touches (somes nins) g)
  end.

Definition gh_events (dv : N -> list N) (es : list ev) (g : gh) : gh := fold_left (fun g e => gh_step dv e g) es g.

Definition gh0 : gh := mkGh [[]] [] [] true.

(* ---------- the link invariant *)
Definition named_in (s : fstate) (M : list N) (U : list name) : Prop :=
  forall v, In v M -> exists x, f_vn s v = Some x /\ x <> [] /\ In x U.

Record GInv (g : gh) (s : fstate) : Prop := {
  gi_stack : Forall2 (named_in s) (g_m g) (f_vscopes s);
  gi_dist : forall M, In M (g_m g ++ g_cl g) -> forall v w, In v M -> In w M -> v <> w -> f_vn s v <> f_vn s w;
  gi_sub : forall M, In M (g_m g ++ g_cl g) -> forall v, In v M -> In v (f_seen s);
  gi_seen : forall v, In v (g_sn g) <-> In v (f_seen s);
  gi_named : forall v, In v (f_seen s) -> exists x, f_vn s v = Some x /\ x <> []
}.

Definition geq (g g' : gh) : Prop :=
  Forall2 seteq (g_m g) (g_m g') /\ seteq (g_sn g) (g_sn g') /\ g_cl g = g_cl g'.

Lemma Forall2_named_seteq s Ms Ms' Us :
  Forall2 seteq Ms Ms' -> Forall2 (named_in s) Ms Us -> Forall2 (named_in s) Ms' Us.
Proof.
  intros H. revert Us. induction H as [|M M' r r' HM _ IH]; intros Us F; inversion F; subst; constructor.
  - intros v Hv. apply H1. apply HM. exact Hv.
  - apply IH. assumption.
Qed.

Lemma Forall2_seteq_In Ms Ms' M' : Forall2 seteq Ms Ms' -> In M' Ms' -> exists M, In M Ms /\ seteq M M'.
Proof.
  induction 1 as [|M N0 r r' HM _ IH]; intros H; [destruct H|].
  destruct H as [<-|H]; [exists M; split; [left; reflexivity | exact HM]|].
  destruct (IH H) as [M0 [A B]]. exists M0. split; [right; exact A | exact B].
Qed.

Lemma GInv_equiv g g' s : geq g g' -> GInv g s -> GInv g' s.
Proof.
  intros [Hm [Hs Hc]] [A B C D F].
  assert (Rec : forall M', In M' (g_m g' ++ g_cl g') -> exists M, In M (g_m g ++ g_cl g) /\ seteq M M').
  { intros M' H. apply in_app_or in H. destruct H as [H|H].
    - destruct (Forall2_seteq_In _ _ _ Hm H) as [M [X Y]]. exists M. split; [apply in_or_app; left; exact X | exact Y].
    - exists M'. split; [apply in_or_app; right; rewrite Hc; exact H | intros x; tauto]. }
  constructor.
  - eapply Forall2_named_seteq; eassumption.
  - intros M' H v w Hv Hw. destruct (Rec M' H) as [M [X Y]]. apply (B M X); apply Y; assumption.
  - intros M' H v Hv. destruct (Rec M' H) as [M [X Y]]. apply (C M X). apply Y. exact Hv.
  - intros v. rewrite <- (Hs v). apply D.
  - exact F.
Qed.

Lemma filter_unseen_In sn ws x : In x (filter (unseen_in sn) ws) <-> In x ws /\ ~ In x sn.
Proof.
  rewrite filter_In. unfold unseen_in. rewrite negb_true_iff. rewrite memN_nIn. tauto.
Qed.

Lemma Forall2_seteq_refl l : Forall2 seteq l l.
Proof. induction l; constructor; [intros x; tauto | assumption]. Qed.

(* touching a list = touching its head, then its tail (up to set equality of the member lists) *)
Lemma touches_cons v r g : geq (touches r (touches [v] g)) (touches (v :: r) g).
Proof.
  destruct g as [[|top rest] sn cl ok]; unfold touches; simpl.
  - split; [constructor|]. split; [intros x; tauto | reflexivity].
  - split; [|split; [|reflexivity]]; simpl.
    + constructor; [|apply Forall2_seteq_refl].
      intros x. unfold unseen_in at 2 3.
      destruct (memN v sn) eqn:Ev; simpl.
      * apply memN_In in Ev. rewrite !in_app_iff, !filter_unseen_In. simpl. intuition congruence.
      * apply memN_nIn in Ev. rewrite !in_app_iff, !filter_unseen_In. simpl.
        destruct (N.eq_dec x v) as [->|Hne]; [split; intros _; [left; reflexivity | right; left; reflexivity] | intuition congruence].
    + intros x. simpl. rewrite !in_app_iff. simpl. tauto.
Qed.

Lemma touches_nil g : geq (touches [] g) g.
Proof.
  unfold touches. destruct g as [[|top rest] sn cl ok]; simpl.
  - split; [constructor|]. split; [intros x; tauto | reflexivity].
  - split; [apply Forall2_seteq_refl|]. split; [intros x; tauto | reflexivity].
Qed.

Lemma touches_seteq ws ws' g : seteq ws ws' -> geq (touches ws g) (touches ws' g).
Proof.
  intros H. destruct g as [[|top rest] sn cl ok]; unfold touches; simpl.
  - split; [constructor|]. split; [intros x; tauto | reflexivity].
  - split; [|split; [|reflexivity]]; simpl.
    + constructor; [|apply Forall2_seteq_refl]. intros x. rewrite !in_app_iff, !filter_unseen_In, (H x). tauto.
    + intros x. rewrite !in_app_iff, (H x). tauto.
Qed.

Lemma geq_trans a b c : geq a b -> geq b c -> geq a c.
Proof.
  intros [A1 [A2 A3]] [B1 [B2 B3]]. split; [|split; [|congruence]].
  - clear -A1 B1. revert B1. generalize (g_m c). induction A1 as [|x y r r' Hxy _ IH]; intros l B1; inversion B1; subst; constructor.
    + intros z. rewrite (Hxy z). apply H1.
    + apply IH. assumption.
  - intros x. rewrite (A2 x). apply B2.
Qed.

Lemma geq_sym a b : geq a b -> geq b a.
Proof.
  intros [A1 [A2 A3]]. split; [|split; [|congruence]].
  - clear -A1. induction A1; constructor; [intros z; symmetry; apply H | assumption].
  - intros x. symmetry. apply A2.
Qed.

(* geq is preserved by touching *)
Lemma touches_geq ws g g' : geq g g' -> geq (touches ws g) (touches ws g').
Proof.
  destruct g as [m sn cl ok]. destruct g' as [m' sn' cl' ok']. intros [Hm [Hs Hc]]. simpl in *.
  unfold touches; simpl. inversion Hm as [|top top' rest rest' Ht Hr E1 E2]; simpl.
  - split; [constructor|]. split; [exact Hs | exact Hc].
  - split; [|split; [|exact Hc]]; simpl.
    + constructor; [|exact Hr]. intros x. rewrite !in_app_iff, !filter_unseen_In, (Ht x), (Hs x). tauto.
    + intros x. rewrite !in_app_iff, (Hs x). tauto.
Qed.

(* ---------- one value *)
Lemma process_value_ghost v s s' g :
  process_value v s = (s', None) -> GInv g s -> GInv (touches [v] g) s'.
Proof.
  intros H [A B C D F].
  destruct (memN v (f_seen s)) eqn:Es.
  - (* seen: nothing changes *)
    assert (s' = s) by (unfold process_value in H; rewrite Es in H; inversion H; reflexivity). subst s'.
    apply memN_In in Es.
    apply (GInv_equiv g); [|constructor; assumption].
    unfold touches. destruct (g_m g) as [|top rest] eqn:Em; simpl.
    + split; [rewrite Em; constructor|]. split; [intros x; tauto | reflexivity].
    + assert (Hin : In v (g_sn g)) by (apply D; exact Es).
      split; [|split; [|reflexivity]].
      * rewrite Em. constructor; [|apply Forall2_seteq_refl]. intros x. simpl.
        unfold unseen_in. apply memN_In in Hin. rewrite Hin. simpl. tauto.
      * intros x. simpl. split; [intros X; right; exact X | intros [<-|X]; assumption].
  - destruct (f_vscopes s) as [|used rest'] eqn:Hsc.
    { unfold process_value in H. rewrite Es, Hsc in H. inversion H. }
    pose proof (process_value_spec v s used rest' Hsc) as S. rewrite H, Es in S.
    destruct S as [new [A1 [A2 [A3 [A4 [A5 [A6 _]]]]]]].
    apply memN_nIn in Es.
    inversion A as [|top U rest Us Htop Hrest E1 E2]; subst.
    assert (Hns : ~ In v (g_sn g)) by (intros X; apply Es; apply D; exact X).
    assert (Ef : filter (unseen_in (g_sn g)) [v] = [v]).
    { simpl. unfold unseen_in. apply memN_nIn in Hns. rewrite Hns. reflexivity. }
    unfold touches. rewrite <- E1. rewrite Ef. simpl.
    assert (Hold : forall M, In M ((top :: rest) ++ g_cl g) -> ~ In v M).
    { intros M HM X. apply Es. apply (C M); [rewrite <- E1; exact HM | exact X]. }
    assert (Hsame : forall M, In M ((top :: rest) ++ g_cl g) -> forall u, In u M -> f_vn s' u = f_vn s u).
    { intros M HM u Hu. apply A6. intros ->. exact (Hold M HM Hu). }
    constructor; simpl.
    + rewrite A4. constructor.
      * intros u [<-|Hu].
        -- exists new. split; [exact A1|]. split; [exact A2 | left; reflexivity].
        -- destruct (Htop u Hu) as [x [X1 [X2 X3]]]. exists x.
           rewrite (Hsame top (or_introl eq_refl) u Hu). split; [exact X1|]. split; [exact X2 | right; exact X3].
      * clear -Hrest Hsame.
        assert (G : forall M, In M rest -> forall u, In u M -> f_vn s' u = f_vn s u).
        { intros M HM u Hu. apply (Hsame M); [right; apply in_or_app; left; exact HM | exact Hu]. }
        clear Hsame. induction Hrest as [|M U0 r r' HMU _ IH]; constructor.
        -- intros u Hu. destruct (HMU u Hu) as [x [X1 X2]]. exists x. rewrite (G M (or_introl eq_refl) u Hu). auto.
        -- apply IH. intros M0 HM0. apply G. right. exact HM0.
    + intros M [<-|HM] u w Hu Hw Hne.
      * destruct Hu as [<-|Hu]; destruct Hw as [<-|Hw].
        -- congruence.
        -- rewrite A1. rewrite (Hsame top (or_introl eq_refl) w Hw).
           destruct (Htop w Hw) as [x [X1 [_ X3]]]. rewrite X1. intros Y. inversion Y; subst. contradiction.
        -- rewrite A1. rewrite (Hsame top (or_introl eq_refl) u Hu).
           destruct (Htop u Hu) as [x [X1 [_ X3]]]. rewrite X1. intros Y. inversion Y; subst. contradiction.
        -- rewrite (Hsame top (or_introl eq_refl) u Hu), (Hsame top (or_introl eq_refl) w Hw).
           apply (B top); [rewrite <- E1; left; reflexivity | | | ]; assumption.
      * assert (HM' : In M ((top :: rest) ++ g_cl g)) by (right; exact HM).
        rewrite (Hsame M HM' u Hu), (Hsame M HM' w Hw). apply (B M); [rewrite <- E1; exact HM' | | | ]; assumption.
    + rewrite A5. intros M [<-|HM] u Hu.
      * destruct Hu as [<-|Hu]; [left; reflexivity|]. right. apply (C top); [rewrite <- E1; left; reflexivity | exact Hu].
      * right. apply (C M); [rewrite <- E1; right; exact HM | exact Hu].
    + rewrite A5. intros u. simpl. rewrite (D u). tauto.
    + rewrite A5. intros u [<-|Hu].
      * exists new. auto.
      * destruct (F u Hu) as [x [X1 X2]]. exists x. split; [|exact X2].
        rewrite A6; [exact X1|]. intros ->. contradiction.
Qed.

Lemma named_in_grown s o Ms : forall Us Us', Forall2 (named_in s) Ms Us -> Forall2 (grown o) Us Us' ->
  Forall2 (named_in s) Ms Us'.
Proof.
  induction Ms as [|M r IH]; intros Us Us' A B; inversion A as [|? U ? Ur HMU Hr]; subst;
    inversion B as [|? U' ? Ur' HUU Hrr]; subst; constructor.
  - intros v Hv. destruct (HMU v Hv) as [x [X1 [X2 X3]]]. exists x. split; [exact X1|]. split; [exact X2|].
    apply (proj1 HUU). exact X3.
  - eapply IH; eassumption.
Qed.

Lemma GInv_record v g s : GInv g s -> GInv g (record_captured v s).
Proof.
  intros [A B C D F]. constructor; simpl; try assumption.
  change (Forall2 (named_in s) (g_m g) (rc_scopes v s)).
  eapply named_in_grown; [exact A | apply rc_scopes_grown].
Qed.

Lemma process_value_rec_ghost v s s' g :
  process_value_rec v s = (s', None) -> GInv g s -> GInv (touches [v] g) s'.
Proof.
  intros H G. destruct (process_value_rec_ok _ _ _ H) as [s1 [E ->]].
  pose proof (process_value_ghost v s s1 g E G) as G1.
  destruct (negb (memN v (f_seen s))); [apply GInv_record; exact G1 | exact G1].
Qed.

Lemma process_values_ghost ws : forall s s' g,
  process_values ws s = (s', None) -> GInv g s -> GInv (touches ws g) s'.
Proof.
  induction ws as [|v r IH]; intros s s' g H G; simpl in H.
  - inversion H; subst. apply (GInv_equiv g); [apply geq_sym, touches_nil | exact G].
  - unfold fbind in H. destruct (process_value_rec v s) as [s1 [e|]] eqn:E1; simpl in H; [inversion H|].
    apply (GInv_equiv (touches r (touches [v] g))); [apply touches_cons|].
    apply (IH s1 s' _ H). apply (process_value_rec_ghost v s s1 g E1 G).
Qed.

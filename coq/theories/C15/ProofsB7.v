(* C15/ProofsB7.v — NameFixPass: the ghost run in lockstep with whole traversals (values), the node ghost,
   and what the real run guarantees about every value / node it meets. *)
From Coq Require Import NArith List Bool Lia.
From IRV Require Import Base.Exn C15.Model C15.ProofsA C15.ProofsA2 C15.ProofsB2 C15.ProofsB3 C15.ProofsC C15.ProofsC3
  C15.ProofsB4 C15.ProofsB5 C15.ProofsB6.
Import ListNotations.
Open Scope N_scope.

Section Lock.
  Variables (vn0 : N -> option name) (inits0 : list (N * idict)) (rv : list name) (E : list N).
  Hypothesis W : WF0 vn0 inits0.
  Definition dv (gid : N) : list N := map snd (get_dict gid inits0).

  Notation TI := (TInv vn0 inits0 rv E).

  Lemma good_ok f s s' : good vn0 inits0 rv E f -> TI s -> f s = (s', None) -> TI s'.
  Proof. intros G T H. destruct (G s T) as [_ B]. rewrite H in B. apply B. reflexivity. Qed.

  Lemma node_name_GInv m s s' g : process_node_name m s = (s', None) -> GInv g s -> GInv g s'.
  Proof.
    intros H [A B C D F]. unfold process_node_name in H.
    destruct (f_nscopes s) as [|used rest]; [inversion H|].
    match type of H with context [if ?c then _ else _] => destruct c end.
    - inversion H; subst. constructor; assumption.
    - destruct (find_unique _ _ _ _) as [[[new used'] cnt']|]; inversion H; subst. constructor; assumption.
  Qed.

  Lemma fx_step_both e s s' g :
    ev_closed inits0 E e -> fx_step e s = (s', None) -> TI s -> GInv g s ->
    TI s' /\ GInv (gh_step dv e g) s'.
  Proof.
    intros Hc H T G.
    assert (T' : TI s') by (eapply good_ok; [apply (fx_step_good vn0 inits0 rv E W e Hc) | exact T | exact H]).
    split; [exact T'|].
    destruct e as [gid isfunc ins outs| |nid nins nouts]; simpl in *.
    - destruct (f_vscopes s) as [|topu restu] eqn:Hsc; [inversion H|].
      destruct Hc as [Hio HgE]. apply Forall_app in Hio. destruct Hio as [Hi Ho].
      pose proof (gi_stack _ _ G) as St. rewrite Hsc in St. inversion St as [|top U rest Us Htop Hrest E1 E2]; subst.
      set (s1 := mkF (f_own s) (gid :: f_so s) (f_vx s) (f_nx s) (f_rv s) (f_rn s) (f_vn s) (f_nn s) (f_inits s) (f_seen s) (f_vcnt s) (f_ncnt s)
                     (topu :: topu :: restu) ([] :: f_nscopes s) (f_mod s)) in *.
      set (g1 := mkGh (top :: top :: rest) (g_sn g) (g_cl g) (g_ok g)).
      assert (T1 : TI s1) by (destruct T as [a b c d f0 g0 h]; constructor; simpl; assumption).
      assert (G1 : GInv g1 s1).
      { destruct G as [A B C D F]. rewrite <- E1 in *. constructor; simpl; try assumption.
        - constructor; [exact Htop | exact St].
        - intros M [<-|HM]; [apply (B top); left; reflexivity | apply (B M HM)].
        - intros M [<-|HM]; [apply (C top); left; reflexivity | apply (C M HM)]. }
      unfold fbind in H.
      destruct (process_values ins s1) as [s2 [e2|]] eqn:E2'; simpl in H; [inversion H|].
      destruct (process_values outs s2) as [s3 [e3|]] eqn:E3'; simpl in H; [inversion H|].
      assert (T2 : TI s2) by (eapply good_ok; [apply (process_values_good vn0 inits0 rv E W ins Hi) | exact T1 | exact E2']).
      assert (T3 : TI s3) by (eapply good_ok; [apply (process_values_good vn0 inits0 rv E W outs Ho) | exact T2 | exact E3']).
      pose proof (process_values_ghost _ _ _ _ E2' G1) as G2.
      pose proof (process_values_ghost _ _ _ _ E3' G2) as G3.
      destruct isfunc.
      + inversion H; subst. apply (GInv_equiv _ _ _ (geq_sym _ _ (touches_nil _))). exact G3.
      + pose proof (process_values_ghost _ _ _ _ H G3) as G4.
        eapply GInv_equiv; [|exact G4]. apply touches_seteq.
        intros x. unfold dv. rewrite !in_map_iff. split.
        * intros [[k x'] [Ex X]]. simpl in Ex. subst x'.
          destruct (proj1 (t_mem _ _ _ _ _ T3 gid x) (ex_intro _ k X)) as [k0 X0]. exists (k0, x). auto.
        * intros [[k x'] [Ex X]]. simpl in Ex. subst x'.
          destruct (proj2 (t_mem _ _ _ _ _ T3 gid x) (ex_intro _ k X)) as [k0 X0]. exists (k0, x). auto.
    - inversion H; subst. clear H. destruct G as [A B C D F]. simpl in *.
      destruct (g_m g) as [|top rest] eqn:Em.
      + constructor; simpl; try assumption; rewrite ?Em; simpl; try assumption.
        inversion A. constructor.
      + inversion A as [|? U ? Us Htop Hrest E1 E2]; subst.
        constructor; simpl; rewrite <- ?E2; simpl; try assumption.
        * intros M HM. apply (B M). apply in_app_or in HM. apply in_or_app.
          destruct HM as [HM|[<-|HM]]; [left; right; exact HM | left; left; reflexivity | right; exact HM].
        * intros M HM. apply (C M). apply in_app_or in HM. apply in_or_app.
          destruct HM as [HM|[<-|HM]]; [left; right; exact HM | left; left; reflexivity | right; exact HM].
    - unfold fbind in H.
      destruct (process_node_name nid s) as [s1 [e1|]] eqn:E1'; simpl in H; [inversion H|].
      destruct (process_values (somes nins) s1) as [s2 [e2|]] eqn:E2'; simpl in H; [inversion H|].
      pose proof (node_name_GInv _ _ _ _ E1' G) as G1.
      pose proof (process_values_ghost _ _ _ _ E2' G1) as G2.
      exact (process_values_ghost _ _ _ _ H G2).
  Qed.

  Lemma fx_events_both es : forall s s' g,
    Forall (ev_closed inits0 E) es -> fx_events es s = (s', None) -> TI s -> GInv g s ->
    TI s' /\ GInv (gh_events dv es g) s'.
  Proof.
    induction es as [|e r IH]; intros s s' g Hc H T G; simpl in *.
    - inversion H; subst. auto.
    - inversion Hc; subst. unfold fbind in H.
      destruct (fx_step e s) as [s1 [e1|]] eqn:E1; simpl in H; [inversion H|].
      destruct (fx_step_both e s s1 g H2 E1 T G) as [T1 G1].
      apply (IH s1 s' _ H3 H T1 G1).
  Qed.
End Lock.

(* ---------- what an Ok run leaves behind: everything met is in seen_values *)
Lemma process_value_seen v s s' : process_value v s = (s', None) ->
  In v (f_seen s') /\ incl (f_seen s) (f_seen s').
Proof.
  intros H. destruct (memN v (f_seen s)) eqn:Es.
  - unfold process_value in H. rewrite Es in H. inversion H; subst. apply memN_In in Es. split; [exact Es | apply incl_refl].
  - destruct (f_vscopes s) as [|used rest] eqn:Hsc.
    { unfold process_value in H. rewrite Es, Hsc in H. inversion H. }
    pose proof (process_value_spec v s used rest Hsc) as S. rewrite H, Es in S.
    destruct S as [new [_ [_ [_ [_ [A _]]]]]]. rewrite A. split; [left; reflexivity | apply incl_tl, incl_refl].
Qed.

Lemma process_value_rec_seen v s s' : process_value_rec v s = (s', None) ->
  In v (f_seen s') /\ incl (f_seen s) (f_seen s').
Proof.
  intros H. destruct (process_value_rec_ok _ _ _ H) as [s1 [E ->]].
  destruct (process_value_seen _ _ _ E) as [A B]. destruct (negb (memN v (f_seen s))); simpl; auto.
Qed.

Lemma process_values_seen ws : forall s s', process_values ws s = (s', None) ->
  incl ws (f_seen s') /\ incl (f_seen s) (f_seen s').
Proof.
  induction ws as [|v r IH]; intros s s' H; simpl in H.
  - inversion H; subst. split; [intros x [] | apply incl_refl].
  - unfold fbind in H. destruct (process_value_rec v s) as [s1 [e|]] eqn:E1; simpl in H; [inversion H|].
    destruct (process_value_rec_seen _ _ _ E1) as [A B]. destruct (IH _ _ H) as [C D].
    split; [|eapply incl_tran; eassumption].
    intros x [<-|Hx]; [apply D; exact A | apply C; exact Hx].
Qed.

Lemma node_name_seen m s s' : process_node_name m s = (s', None) -> f_seen s' = f_seen s /\ f_inits s' = f_inits s.
Proof.
  unfold process_node_name. destruct (f_nscopes s); [intros H; inversion H|].
  match goal with |- context [if ?c then _ else _] => destruct c end; [intros H; inversion H; auto|].
  destruct (find_unique _ _ _ _) as [[[a b] c]|]; intros H; inversion H; auto.
Qed.

Lemma fx_events_seen es : forall s s', fx_events es s = (s', None) ->
  incl (ev_values es) (f_seen s') /\ incl (f_seen s) (f_seen s').
Proof.
  induction es as [|e r IH]; intros s s' H; simpl in H.
  - inversion H; subst. split; [intros x [] | apply incl_refl].
  - unfold fbind in H. destruct (fx_step e s) as [s1 [e1|]] eqn:E1; simpl in H; [inversion H|].
    destruct (IH _ _ H) as [A B].
    assert (X : incl (match e with EEnter _ _ ins outs => ins ++ outs | EExit => [] | ENode _ nins nouts => somes nins ++ nouts end) (f_seen s1)
                /\ incl (f_seen s) (f_seen s1)).
    { destruct e as [gid isfunc ins outs| |nid nins nouts]; simpl in E1.
      - destruct (f_vscopes s) as [|top rest]; [inversion E1|]. unfold fbind in E1.
        match type of E1 with context [process_values ins ?s0] => destruct (process_values ins s0) as [s2 [e2|]] eqn:E2 end; simpl in E1; [inversion E1|].
        destruct (process_values outs s2) as [s3 [e3|]] eqn:E3; simpl in E1; [inversion E1|].
        destruct (process_values_seen _ _ _ E2) as [A2 B2]. destruct (process_values_seen _ _ _ E3) as [A3 B3].
        simpl in B2.
        assert (B4 : incl (f_seen s3) (f_seen s1)).
        { destruct isfunc; [inversion E1; subst; apply incl_refl | apply (process_values_seen _ _ _ E1)]. }
        split.
        + intros x Hx. apply B4. apply in_app_or in Hx. destruct Hx as [Hx|Hx]; [apply B3, A2, Hx | apply A3, Hx].
        + eapply incl_tran; [exact B2|]. eapply incl_tran; [exact B3 | exact B4].
      - inversion E1; subst. split; [intros x [] | apply incl_refl].
      - unfold fbind in E1. destruct (process_node_name nid s) as [s2 [e2|]] eqn:E2; simpl in E1; [inversion E1|].
        destruct (process_values (somes nins) s2) as [s3 [e3|]] eqn:E3; simpl in E1; [inversion E1|].
        destruct (node_name_seen _ _ _ E2) as [Q _].
        destruct (process_values_seen _ _ _ E3) as [A3 B3]. destruct (process_values_seen _ _ _ E1) as [A4 B4].
        rewrite Q in B3. split.
        + intros x Hx. apply in_app_or in Hx. destruct Hx as [Hx|Hx]; [apply B4, A3, Hx | apply A4, Hx].
        + eapply incl_tran; eassumption. }
    destruct X as [X1 X2]. split; [|eapply incl_tran; eassumption].
    destruct e as [gid isfunc ins outs| |nid nins nouts]; simpl.
    + intros x Hx. rewrite app_assoc in Hx. apply in_app_or in Hx. destruct Hx as [Hx|Hx]; [apply B, X1, Hx | apply A, Hx].
    + exact A.
    + intros x Hx. rewrite app_assoc in Hx. apply in_app_or in Hx. destruct Hx as [Hx|Hx]; [apply B, X1, Hx | apply A, Hx].
Qed.

(* ---------- nodes *)
Lemma process_node_name_spec m s used rest :
  f_nscopes s = used :: rest ->
  exists s' new, process_node_name m s = (s', None) /\ f_nn s' m = Some new /\ new <> [] /\ ~ In new used /\
    f_nscopes s' = (new :: used) :: rest /\ (forall u, u <> m -> f_nn s' u = f_nn s u) /\
    f_vn s' = f_vn s /\ f_vscopes s' = f_vscopes s /\ f_seen s' = f_seen s /\ f_inits s' = f_inits s /\
    f_rv s' = f_rv s /\ f_rn s' = f_rn s /\ f_vx s' = f_vx s /\ f_nx s' = f_nx s /\
    (forall n, f_nn s m = Some n -> n <> [] -> ~ In n used -> new = n) /\
    (f_nn s m <> Some new -> ~ In new (f_rn s)).
Proof.
  intros Hsc. unfold process_node_name. rewrite Hsc.
  destruct (f_nn s m) as [n|] eqn:En.
  - destruct (negb (is_empty (Some n)) && negb (mem n used)) eqn:Ek.
    + apply andb_prop in Ek. destruct Ek as [E1 E2]. apply negb_true_iff in E1, E2.
      eexists. exists n. split; [reflexivity|]. simpl. rewrite En. repeat split; auto.
      * destruct n; discriminate.
      * apply mem_nIn. exact E2.
      * intros k Hk _ _. congruence.
    + set (pref := if is_empty (Some n) then s_node else n).
      assert (Hp : pref <> []) by (unfold pref; destruct n; simpl; discriminate).
      destruct (find_unique_spec pref used (f_ncnt s) (f_rn s)) as [new [cnt' [Ef [Hn [Hr _]]]]]. rewrite Ef.
      eexists. exists new. split; [reflexivity|]. simpl. repeat split; auto.
      * apply upd_same.
      * eapply find_unique_nonempty; eassumption.
      * intros u Hu. apply upd_other. exact Hu.
      * intros k Hk Hk0 Hku. inversion Hk; subst k. apply andb_false_iff in Ek.
        destruct Ek as [Ek|Ek]; apply negb_false_iff in Ek; [destruct n; [congruence | discriminate]|].
        apply mem_In in Ek. contradiction.
  - simpl. destruct (find_unique_spec s_node used (f_ncnt s) (f_rn s)) as [new [cnt' [Ef [Hn [Hr _]]]]]. rewrite Ef.
    eexists. exists new. split; [reflexivity|]. simpl. repeat split; auto.
    + apply upd_same.
    + eapply find_unique_nonempty; [|eassumption]. discriminate.
    + intros u Hu. apply upd_other. exact Hu.
    + intros k Hk. discriminate.
Qed.

Lemma process_value_nodeframe v s s' : process_value v s = (s', None) -> f_nn s' = f_nn s /\ f_nscopes s' = f_nscopes s /\ f_rn s' = f_rn s.
Proof.
  intros H. destruct (memN v (f_seen s)) eqn:Es.
  - unfold process_value in H. rewrite Es in H. inversion H; subst. auto.
  - destruct (f_vscopes s) as [|used rest] eqn:Hsc.
    { unfold process_value in H. rewrite Es, Hsc in H. inversion H. }
    pose proof (process_value_spec v s used rest Hsc) as S. rewrite H, Es in S.
    destruct S as [new [_ [_ [_ [_ [_ [_ [A [B [_ [_ [_ [_ C]]]]]]]]]]]]]. auto.
Qed.

Lemma process_value_rec_nodeframe v s s' : process_value_rec v s = (s', None) ->
  f_nn s' = f_nn s /\ f_nscopes s' = f_nscopes s /\ f_rn s' = f_rn s.
Proof.
  intros H. destruct (process_value_rec_ok _ _ _ H) as [s1 [E ->]].
  pose proof (process_value_nodeframe _ _ _ E) as F. destruct (negb (memN v (f_seen s))); simpl; exact F.
Qed.

Lemma process_values_nodeframe ws : forall s s', process_values ws s = (s', None) ->
  f_nn s' = f_nn s /\ f_nscopes s' = f_nscopes s /\ f_rn s' = f_rn s.
Proof.
  induction ws as [|v r IH]; intros s s' H; simpl in H.
  - inversion H; subst. auto.
  - unfold fbind in H. destruct (process_value_rec v s) as [s1 [e|]] eqn:E1; simpl in H; [inversion H|].
    destruct (process_value_rec_nodeframe _ _ _ E1) as [A [B C]]. destruct (IH _ _ H) as [A2 [B2 C2]].
    repeat split; congruence.
Qed.

Fixpoint ev_nodes (es : list ev) : list N :=
  match es with
  | [] => []
  | ENode m _ _ :: r => m :: ev_nodes r
  | _ :: r => ev_nodes r
  end.

Record ngh := mkNg { n_m : list (list N); n_cl : list (list N) }.
Definition ngh_step (e : ev) (g : ngh) : ngh :=
  match e with
  | EEnter _ _ _ _ => mkNg ([] :: n_m g) (n_cl g)
  | EExit => match n_m g with [] => g | top :: rest => mkNg rest (top :: n_cl g) end
  | ENode m _ _ => match n_m g with [] => mkNg [[m]] (n_cl g) | top :: rest => mkNg ((m :: top) :: rest) (n_cl g) end
  end.
Definition ngh_events (es : list ev) (g : ngh) : ngh := fold_left (fun g e => ngh_step e g) es g.
Definition ngh0 : ngh := mkNg [[]] [].

Definition nnamed_in (s : fstate) (M : list N) (U : list name) : Prop :=
  forall m, In m M -> exists x, f_nn s m = Some x /\ x <> [] /\ In x U.

Record NInv (rem : list N) (g : ngh) (s : fstate) : Prop := {
  ni_stack : Forall2 (nnamed_in s) (n_m g) (f_nscopes s);
  ni_dist : forall M, In M (n_m g ++ n_cl g) -> forall a b, In a M -> In b M -> a <> b -> f_nn s a <> f_nn s b;
  ni_done : forall M, In M (n_m g ++ n_cl g) -> forall a, In a M -> ~ In a rem;
  ni_named : forall M, In M (n_m g ++ n_cl g) -> forall a, In a M -> exists x, f_nn s a = Some x /\ x <> []
}.

Lemma NInv_frame rem g s s' : f_nn s' = f_nn s -> f_nscopes s' = f_nscopes s -> NInv rem g s -> NInv rem g s'.
Proof.
  intros A B [P Q R S]. constructor.
  - rewrite B. clear -P A. induction P; constructor; [|assumption].
    intros m Hm. destruct (H m Hm) as [z Z]. exists z. rewrite A. exact Z.
  - intros M HM a b. rewrite A. apply Q. exact HM.
  - exact R.
  - intros M HM a Ha. rewrite A. apply (S M HM a Ha).
Qed.

Lemma fx_step_nodes e s s' rem g :
  NoDup (ev_nodes [e] ++ rem) -> fx_step e s = (s', None) -> NInv (ev_nodes [e] ++ rem) g s -> NInv rem (ngh_step e g) s'.
Proof.
  intros ND H NI. destruct e as [gid isfunc ins outs| |nid nins nouts]; simpl in *.
  - destruct (f_vscopes s) as [|top rest]; [inversion H|]. unfold fbind in H.
    match type of H with context [process_values ins ?s0] => set (s1 := s0) in *; destruct (process_values ins s1) as [s2 [e2|]] eqn:E2 end; simpl in H; [inversion H|].
    destruct (process_values outs s2) as [s3 [e3|]] eqn:E3; simpl in H; [inversion H|].
    destruct (process_values_nodeframe _ _ _ E2) as [A2 [B2 _]]. destruct (process_values_nodeframe _ _ _ E3) as [A3 [B3 _]].
    assert (X : f_nn s' = f_nn s3 /\ f_nscopes s' = f_nscopes s3).
    { destruct isfunc; [inversion H; subst; auto | destruct (process_values_nodeframe _ _ _ H) as [P [Q _]]; auto]. }
    destruct X as [A4 B4].
    assert (N1 : NInv rem (mkNg ([] :: n_m g) (n_cl g)) s1).
    { destruct NI as [P Q R S]. constructor; simpl; try assumption.
      - constructor; [intros m []|exact P].
      - intros M [<-|HM]; [intros a b []|apply (Q M HM)].
      - intros M [<-|HM]; [intros a []|apply (R M HM)].
      - intros M [<-|HM]; [intros a []|apply (S M HM)]. }
    apply (NInv_frame rem _ s1); [congruence | congruence | exact N1].
  - inversion H; subst. clear H. destruct NI as [P Q R S]. simpl in *.
    destruct (n_m g) as [|top rest] eqn:Em.
    + constructor; simpl; rewrite ?Em; simpl; try assumption. inversion P. constructor.
    + inversion P as [|? U ? Us Htop Hrest E1 E2]; subst.
      constructor; simpl; rewrite <- ?E2; simpl; try assumption.
      * intros M HM. apply (Q M). apply in_app_or in HM. apply in_or_app.
        destruct HM as [HM|[<-|HM]]; [left; right; exact HM | left; left; reflexivity | right; exact HM].
      * intros M HM. apply (R M). apply in_app_or in HM. apply in_or_app.
        destruct HM as [HM|[<-|HM]]; [left; right; exact HM | left; left; reflexivity | right; exact HM].
      * intros M HM. apply (S M). apply in_app_or in HM. apply in_or_app.
        destruct HM as [HM|[<-|HM]]; [left; right; exact HM | left; left; reflexivity | right; exact HM].
  - unfold fbind in H.
    destruct (process_node_name nid s) as [s1 [e1|]] eqn:E1; simpl in H; [inversion H|].
    destruct (process_values (somes nins) s1) as [s2 [e2|]] eqn:E2; simpl in H; [inversion H|].
    destruct (process_values_nodeframe _ _ _ E2) as [A2 [B2 _]]. destruct (process_values_nodeframe _ _ _ H) as [A3 [B3 _]].
    inversion ND as [|? ? Hnid ND']; subst.
    destruct NI as [P Q R S].
    destruct (f_nscopes s) as [|used restu] eqn:Hsc.
    { unfold process_node_name in E1. rewrite Hsc in E1. inversion E1. }
    destruct (process_node_name_spec nid s used restu Hsc) as [s1' [new [X1 [X2 [X3 [X4 [X5 [X6 _]]]]]]]].
    rewrite E1 in X1. inversion X1; subst s1'. clear X1.
    inversion P as [|top U rest Us Htop Hrest Em E2']; subst.
    assert (Hfresh : forall M, In M ((top :: rest) ++ n_cl g) -> ~ In nid M).
    { intros M HM X. apply (R M) with (a := nid); [rewrite <- Em; exact HM | exact X | left; reflexivity]. }
    assert (Hsame : forall M, In M ((top :: rest) ++ n_cl g) -> forall u, In u M -> f_nn s1 u = f_nn s u).
    { intros M HM u Hu. apply X6. intros ->. exact (Hfresh M HM Hu). }
    apply (NInv_frame rem _ s1); [congruence | congruence|].
    rewrite <- ?Em. simpl. constructor; simpl.
    + rewrite X5. constructor.
      * intros u [<-|Hu].
        -- exists new. split; [exact X2|]. split; [exact X3 | left; reflexivity].
        -- destruct (Htop u Hu) as [x [Y1 [Y2 Y3]]]. exists x. rewrite (Hsame top (or_introl eq_refl) u Hu). split; [exact Y1|]. split; [exact Y2 | right; exact Y3].
      * clear -Hrest Hsame.
        assert (G : forall M, In M rest -> forall u, In u M -> f_nn s1 u = f_nn s u).
        { intros M HM u Hu. apply (Hsame M); [right; apply in_or_app; left; exact HM | exact Hu]. }
        clear Hsame. induction Hrest as [|M U0 r r' HMU _ IH]; constructor.
        -- intros u Hu. destruct (HMU u Hu) as [x Y]. exists x. rewrite (G M (or_introl eq_refl) u Hu). exact Y.
        -- apply IH. intros M0 HM0. apply G. right. exact HM0.
    + intros M [<-|HM] a b Ha Hb Hne.
      * destruct Ha as [<-|Ha]; destruct Hb as [<-|Hb].
        -- congruence.
        -- rewrite X2, (Hsame top (or_introl eq_refl) b Hb). destruct (Htop b Hb) as [x [Y1 [_ Y3]]].
           rewrite Y1. intros Z. inversion Z; subst. contradiction.
        -- rewrite X2, (Hsame top (or_introl eq_refl) a Ha). destruct (Htop a Ha) as [x [Y1 [_ Y3]]].
           rewrite Y1. intros Z. inversion Z; subst. contradiction.
        -- rewrite (Hsame top (or_introl eq_refl) a Ha), (Hsame top (or_introl eq_refl) b Hb).
           apply (Q top); [rewrite <- Em; left; reflexivity | | | ]; assumption.
      * assert (HM' : In M ((top :: rest) ++ n_cl g)) by (right; exact HM).
        rewrite (Hsame M HM' a Ha), (Hsame M HM' b Hb). apply (Q M); [rewrite <- Em; exact HM' | | | ]; assumption.
    + intros M [<-|HM] a Ha.
      * destruct Ha as [<-|Ha]; [exact Hnid|]. intros X. apply (R top) with (a := a); [rewrite <- Em; left; reflexivity | exact Ha | right; exact X].
      * intros X. apply (R M) with (a := a); [rewrite <- Em; right; exact HM | exact Ha | right; exact X].
    + intros M [<-|HM] a Ha.
      * destruct Ha as [<-|Ha]; [exists new; auto|].
        rewrite (Hsame top (or_introl eq_refl) a Ha). apply (S top); [rewrite <- Em; left; reflexivity | exact Ha].
      * assert (HM' : In M ((top :: rest) ++ n_cl g)) by (right; exact HM).
        rewrite (Hsame M HM' a Ha). apply (S M); [rewrite <- Em; exact HM' | exact Ha].
Qed.

Lemma NoDup_app_r {A} (a b : list A) : NoDup (a ++ b) -> NoDup b.
Proof. induction a as [|x a IH]; simpl; intros H; [exact H|]. inversion H; subst. apply IH. assumption. Qed.

Lemma ev_nodes_app a b : ev_nodes (a ++ b) = ev_nodes a ++ ev_nodes b.
Proof. induction a as [|e r IH]; simpl; [reflexivity|]. destruct e; simpl; rewrite IH; reflexivity. Qed.

Lemma fx_events_nodes es : forall s s' g,
  NoDup (ev_nodes es) -> fx_events es s = (s', None) -> NInv (ev_nodes es) g s -> NInv [] (ngh_events es g) s'.
Proof.
  induction es as [|e r IH]; intros s s' g ND H NI.
  - simpl in *. inversion H; subst. exact NI.
  - simpl in H. unfold fbind in H. destruct (fx_step e s) as [s1 [e1|]] eqn:E1; simpl in H; [inversion H|].
    assert (Q : ev_nodes (e :: r) = ev_nodes [e] ++ ev_nodes r) by (destruct e; reflexivity).
    rewrite Q in ND, NI.
    pose proof (fx_step_nodes e s s1 (ev_nodes r) g ND E1 NI) as N1.
    apply (IH s1 s' _); [|exact H | exact N1].
    apply NoDup_app_r in ND. exact ND.
Qed.

(* every node of the traversal ends up in a record *)
Lemma ngh_events_covers es : forall g m,
  In m (ev_nodes es) \/ (exists M, In M (n_m g ++ n_cl g) /\ In m M) ->
  exists M, In M (n_m (ngh_events es g) ++ n_cl (ngh_events es g)) /\ In m M.
Proof.
  induction es as [|e r IH]; intros g m H; simpl in *.
  - destruct H as [[]|H]. exact H.
  - apply IH. destruct e as [gid isfunc ins outs| |nid nins nouts]; simpl in *.
    + destruct H as [H|[M [A B]]]; [left; exact H|]. right. exists M. split; [right; exact A | exact B].
    + destruct H as [H|[M [A B]]]; [left; exact H|]. right. exists M. split; [|exact B].
      destruct (n_m g) as [|top rest] eqn:Em; [rewrite Em; exact A|]. simpl in *. apply in_or_app.
      destruct A as [<-|A]; [right; left; reflexivity|]. apply in_app_or in A.
      destruct A as [A|A]; [left; exact A | right; right; exact A].
    + destruct H as [[<-|H]|[M [A B]]].
      * right. destruct (n_m g) as [|top rest]; simpl.
        -- exists [nid]. split; [left; reflexivity | left; reflexivity].
        -- exists (nid :: top). split; [left; reflexivity | left; reflexivity].
      * left. exact H.
      * right. destruct (n_m g) as [|top rest]; simpl in *.
        -- exists M. split; [right; exact A | exact B].
        -- destruct A as [<-|A]; [exists (nid :: top); split; [left; reflexivity | right; exact B]|].
           exists M. split; [right; exact A | exact B].
Qed.

(* C15/ProofsA.v — names, decimal printing, the candidate loop, NameAuthority. *)
From Coq Require Import NArith List Bool Lia Decimal DecimalN.
From IRV Require Import Base.Exn C15.Model.
Import ListNotations.
Open Scope N_scope.

(* ---------- name equality / membership *)
Lemma name_eqb_eq a b : name_eqb a b = true <-> a = b.
Proof. unfold name_eqb. apply list_eqb_eq. intros x y. apply N.eqb_eq. Qed.

Lemma name_eqb_refl a : name_eqb a a = true.
Proof. apply name_eqb_eq. reflexivity. Qed.

Lemma name_eqb_neq a b : name_eqb a b = false <-> a <> b.
Proof.
  split; intros H.
  - intros E. apply name_eqb_eq in E. congruence.
  - destruct (name_eqb a b) eqn:E; [apply name_eqb_eq in E; contradiction | reflexivity].
Qed.

Definition name_eq_dec (a b : name) : {a = b} + {a <> b} := list_eq_dec N.eq_dec a b.

Lemma mem_In x l : mem x l = true <-> In x l.
Proof.
  unfold mem. rewrite existsb_exists. split.
  - intros [y [Hy E]]. apply name_eqb_eq in E. subst. exact Hy.
  - intros H. exists x. split; [exact H | apply name_eqb_refl].
Qed.

Lemma mem_nIn x l : mem x l = false <-> ~ In x l.
Proof.
  split; intros H.
  - intros HI. apply mem_In in HI. congruence.
  - destruct (mem x l) eqn:E; [apply mem_In in E; contradiction | reflexivity].
Qed.

Lemma memN_In x l : memN x l = true <-> In x l.
Proof.
  unfold memN. rewrite existsb_exists. split.
  - intros [y [Hy E]]. apply N.eqb_eq in E. subst. exact Hy.
  - intros H. exists x. split; [exact H | apply N.eqb_refl].
Qed.

Lemma memN_nIn x l : memN x l = false <-> ~ In x l.
Proof.
  split; intros H.
  - intros HI. apply memN_In in HI. congruence.
  - destruct (memN x l) eqn:E; [apply memN_In in E; contradiction | reflexivity].
Qed.

Lemma sadd_In x y l : In y (sadd x l) <-> y = x \/ In y l.
Proof.
  unfold sadd. destruct (mem x l) eqn:E.
  - apply mem_In in E. split; [auto | intros [->|H]; assumption].
  - simpl. split; intros [H|H]; auto.
Qed.

Lemma sadd_incl x l : incl l (sadd x l).
Proof. intros y Hy. apply sadd_In. right. exact Hy. Qed.

(* ---------- decimal printing is injective *)
Lemma digits_inj u v : digits u = digits v -> u = v.
Proof.
  revert v. induction u; intros v H; destruct v; simpl in H; try discriminate; try reflexivity;
    injection H as H; f_equal; apply IHu; exact H.
Qed.

Lemma dec_inj i j : dec i = dec j -> i = j.
Proof.
  unfold dec. intros H. apply digits_inj in H.
  rewrite <- (DecimalN.Unsigned.of_to i), <- (DecimalN.Unsigned.of_to j). rewrite H. reflexivity.
Qed.

Lemma val_name_inj i j : val_name i = val_name j -> i = j.
Proof. unfold val_name. intros H. apply app_inv_head in H. apply dec_inj. exact H. Qed.

Lemma node_name_inj op i j : node_name op i = node_name op j -> i = j.
Proof.
  unfold node_name. intros H. apply app_inv_head in H. apply app_inv_head in H.
  apply app_inv_head in H. apply dec_inj. exact H.
Qed.

Lemma suffixed_inj b i j : suffixed b i = suffixed b j -> i = j.
Proof.
  unfold suffixed. intros H. apply app_inv_head in H. apply app_inv_head in H. apply dec_inj. exact H.
Qed.

Lemma digits_nonempty n : dec n <> [].
Proof.
  unfold dec. intros H.
  assert (E : N.to_uint n = Nil) by (destruct (N.to_uint n); simpl in H; try discriminate; reflexivity).
  pose proof (DecimalN.Unsigned.to_of Nil) as _.
  destruct n as [|p]; [discriminate|].
  pose proof (DecimalN.Unsigned.of_to (Npos p)) as Hp. rewrite E in Hp. discriminate.
Qed.

(* ---------- the candidate loop terminates within |seen|+1 steps and returns an unseen name *)
Section Loop.
  Variable mk : N -> name.
  Hypothesis mk_inj : forall i j, mk i = mk j -> i = j.

  Lemma gen_loop_ext fuel : forall k s1 s2,
    (forall i, k <= i -> mem (mk i) s1 = mem (mk i) s2) ->
    match gen_loop fuel mk k s1, gen_loop fuel mk k s2 with
    | Some r1, Some r2 => r1 = r2
    | None, None => True
    | _, _ => False
    end.
  Proof.
    induction fuel as [|f IH]; intros k s1 s2 H; simpl; [exact I|].
    rewrite <- (H k) by lia.
    destruct (mem (mk k) s1) eqn:E; [|reflexivity].
    apply IH. intros i Hi. apply H. lia.
  Qed.

  Lemma gen_loop_spec fuel : forall seen k,
    (length seen < fuel)%nat ->
    exists j, gen_loop fuel mk k seen = Some (mk j, j) /\ k <= j /\ ~ In (mk j) seen /\
              (forall i, k <= i < j -> In (mk i) seen).
  Proof.
    induction fuel as [|f IH]; intros seen k Hlen; [lia|].
    simpl. destruct (mem (mk k) seen) eqn:E.
    - apply mem_In in E.
      set (seen' := remove name_eq_dec (mk k) seen).
      assert (Hl : (length seen' < f)%nat).
      { pose proof (remove_length_lt name_eq_dec seen (mk k) E). unfold seen'. lia. }
      destruct (IH seen' (N.succ k) Hl) as [j [Hg [Hk [Hn Hall]]]].
      assert (Hext : forall i, N.succ k <= i -> mem (mk i) seen = mem (mk i) seen').
      { intros i Hi. assert (Hne : mk i <> mk k) by (intros Heq; apply mk_inj in Heq; lia).
        destruct (mem (mk i) seen') eqn:E2.
        - apply mem_In. apply mem_In in E2. apply in_remove in E2. tauto.
        - apply mem_nIn. apply mem_nIn in E2. intros HI. apply E2. unfold seen'.
          apply in_in_remove; assumption. }
      pose proof (gen_loop_ext f (N.succ k) seen seen' Hext) as Hx.
      rewrite Hg in Hx. destruct (gen_loop f mk (N.succ k) seen) as [r|] eqn:Eg; [|contradiction].
      subst r. exists j. split; [reflexivity|]. split; [lia|]. split.
      + apply mem_nIn. rewrite Hext by lia. apply mem_nIn. exact Hn.
      + intros i Hi. destruct (N.eq_dec i k) as [->|Hne]; [exact E|].
        assert (Hi' : N.succ k <= i < j) by lia. specialize (Hall i Hi').
        apply in_remove in Hall. tauto.
    - exists k. split; [reflexivity|]. split; [lia|]. split; [apply mem_nIn; exact E|].
      intros i Hi. lia.
  Qed.

  Lemma gen_fresh_spec seen k :
    exists j, gen_fresh mk k seen = Some (mk j, j) /\ k <= j /\ ~ In (mk j) seen /\
              (forall i, k <= i < j -> In (mk i) seen).
  Proof. unfold gen_fresh. apply gen_loop_spec. lia. Qed.
End Loop.

(* ---------- NameAuthority: one call *)
Definition is_valop (o : aop) : bool := match o with RegV _ => true | RegN _ _ => false end.
Definition explicit_name (o : aop) : option name := match o with RegV x => x | RegN _ x => x end.

Lemma astep_total a o : exists a' s, astep a o = Some (a', s).
Proof.
  destruct o as [[s|]|op [s|]]; simpl; eauto.
  - destruct (gen_fresh_spec val_name val_name_inj (vnames a) (vc a)) as [j [H _]]. rewrite H. eauto.
  - destruct (gen_fresh_spec (node_name op) (node_name_inj op) (nnames a) (nc a)) as [j [H _]]. rewrite H. eauto.
Qed.

(* an explicit name is never changed *)
Lemma astep_explicit a o a' s x : astep a o = Some (a', s) -> explicit_name o = Some x -> s = x.
Proof. destruct o as [[y|]|op [y|]]; simpl; intros H E; inversion E; subst; inversion H; reflexivity. Qed.

(* a generated name was not in the seen set of its kind before the call *)
Lemma astep_fresh_value a a' s : astep a (RegV None) = Some (a', s) -> ~ In s (vnames a).
Proof.
  simpl. destruct (gen_fresh_spec val_name val_name_inj (vnames a) (vc a)) as [j [H [_ [Hn _]]]].
  rewrite H. intros E. inversion E; subst. exact Hn.
Qed.

Lemma astep_fresh_node a op a' s : astep a (RegN op None) = Some (a', s) -> ~ In s (nnames a).
Proof.
  simpl. destruct (gen_fresh_spec (node_name op) (node_name_inj op) (nnames a) (nc a)) as [j [H [_ [Hn _]]]].
  rewrite H. intros E. inversion E; subst. exact Hn.
Qed.

(* generated names have the documented shape *)
Lemma astep_shape_value a a' s : astep a (RegV None) = Some (a', s) -> exists j, s = val_name j /\ vc a <= j /\ vc a' = N.succ j.
Proof.
  simpl. destruct (gen_fresh_spec val_name val_name_inj (vnames a) (vc a)) as [j [H [Hk _]]].
  rewrite H. intros E. inversion E; subst. exists j. simpl. auto.
Qed.

(* seen sets and counters only grow, and the resulting name is recorded *)
Lemma astep_mono a o a' s : astep a o = Some (a', s) ->
  incl (vnames a) (vnames a') /\ incl (nnames a) (nnames a') /\ vc a <= vc a' /\ nc a <= nc a' /\
  (if is_valop o then In s (vnames a') else In s (nnames a')).
Proof.
  destruct o as [[y|]|op [y|]]; simpl.
  - intros E; inversion E; subst; simpl. repeat split; try apply incl_refl; try lia.
    + apply sadd_incl. + apply sadd_In; auto.
  - destruct (gen_fresh_spec val_name val_name_inj (vnames a) (vc a)) as [j [H [Hk _]]]. rewrite H.
    intros E; inversion E; subst; simpl. repeat split; try apply incl_refl; try lia.
    + apply sadd_incl. + apply sadd_In; auto.
  - intros E; inversion E; subst; simpl. repeat split; try apply incl_refl; try lia.
    + apply sadd_incl. + apply sadd_In; auto.
  - destruct (gen_fresh_spec (node_name op) (node_name_inj op) (nnames a) (nc a)) as [j [H [Hk _]]]. rewrite H.
    intros E; inversion E; subst; simpl. repeat split; try apply incl_refl; try lia.
    + apply sadd_incl. + apply sadd_In; auto.
Qed.

(* ---------- histories *)
Lemma arun_total ops : forall a, exists a' tr, arun ops a = Some (a', tr) /\ length tr = length ops.
Proof.
  induction ops as [|o r IH]; intros a; simpl; [eauto|].
  destruct (astep_total a o) as [a1 [s H]]. rewrite H.
  destruct (IH a1) as [a2 [tr [H2 Hl]]]. rewrite H2. exists a2, (s :: tr). simpl. auto.
Qed.

Lemma arun_mono ops : forall a a' tr, arun ops a = Some (a', tr) ->
  incl (vnames a) (vnames a') /\ incl (nnames a) (nnames a') /\ vc a <= vc a' /\ nc a <= nc a' /\
  (forall i o s, nth_error ops i = Some o -> nth_error tr i = Some s ->
     if is_valop o then In s (vnames a') else In s (nnames a')).
Proof.
  induction ops as [|o r IH]; intros a a' tr H; simpl in H.
  - inversion H; subst. repeat split; try apply incl_refl; try lia.
    intros i o s Hi. destruct i; discriminate.
  - destruct (astep a o) as [[a1 s1]|] eqn:E1; [|discriminate].
    destruct (arun r a1) as [[a2 tr2]|] eqn:E2; [|discriminate].
    inversion H; subst. apply astep_mono in E1. destruct E1 as [V1 [N1 [C1 [D1 R1]]]].
    destruct (IH _ _ _ E2) as [V2 [N2 [C2 [D2 R2]]]].
    repeat split; try (eapply incl_tran; eassumption); try lia.
    intros i o' s Hi Hs. destruct i as [|i]; simpl in Hi, Hs.
    + inversion Hi; inversion Hs; subst. destruct (is_valop o'); [apply V2 | apply N2]; exact R1.
    + eapply R2; eassumption.
Qed.

(* C15_fresh: a name generated after ANY history differs from every name of that kind present
   initially, registered or generated before. *)
Lemma fresh_after_history_value pre a0 a1 tr a2 s :
  arun pre a0 = Some (a1, tr) -> astep a1 (RegV None) = Some (a2, s) ->
  ~ In s (vnames a1) /\ ~ In s (vnames a0) /\
  (forall i o s', nth_error pre i = Some o -> is_valop o = true -> nth_error tr i = Some s' -> s <> s').
Proof.
  intros Hr Hs. pose proof (astep_fresh_value _ _ _ Hs) as Hn.
  destruct (arun_mono _ _ _ _ Hr) as [V [_ [_ [_ R]]]].
  split; [exact Hn|]. split; [intros HI; apply Hn, V, HI|].
  intros i o s' Hi Hv Hs' E. subst s'. specialize (R i o s Hi Hs'). rewrite Hv in R. contradiction.
Qed.

Lemma fresh_after_history_node pre a0 a1 tr a2 op s :
  arun pre a0 = Some (a1, tr) -> astep a1 (RegN op None) = Some (a2, s) ->
  ~ In s (nnames a1) /\ ~ In s (nnames a0) /\
  (forall i o s', nth_error pre i = Some o -> is_valop o = false -> nth_error tr i = Some s' -> s <> s').
Proof.
  intros Hr Hs. pose proof (astep_fresh_node _ _ _ _ Hs) as Hn.
  destruct (arun_mono _ _ _ _ Hr) as [_ [V [_ [_ R]]]].
  split; [exact Hn|]. split; [intros HI; apply Hn, V, HI|].
  intros i o s' Hi Hv Hs' E. subst s'. specialize (R i o s Hi Hs'). rewrite Hv in R. contradiction.
Qed.

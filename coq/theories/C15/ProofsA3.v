(* C15/ProofsA3.v — graph level, stated without the authority's internals: the LOG of a history is every name the
   graph registered or assigned (the names, after the call, of the inputs/initializers given to Graph(...) and of
   the nodes and node outputs given to a successful append, extend, insert_before, insert_after).  A name the graph gives to an unnamed
   node or value is never in the log of the history so far - for every history. *)
From Coq Require Import NArith List Bool Lia.
From IRV Require Import Base.Exn C15.Model C15.ProofsA C15.ProofsA2.
Import ListNotations.
Open Scope N_scope.

Definition glog := (list name * list name)%type.     (* value names, node names *)

Definition log_step (g : gst) (o : gop) (g1 : gst) (r : res unit) (lg : glog) : glog :=
  match o, r with
  | GCtor ins inits, Ok _ => (somes (map (g_vname g1) (ins ++ inits)) ++ fst lg, snd lg)
  | GAdd ns, Ok _ =>
      (somes (map (g_vname g1) (flat_map (g_nouts g) ns)) ++ fst lg, somes (map (g_nname g1) ns) ++ snd lg)
  | _, _ => lg
  end.

Fixpoint grun_log (ops : list gop) (g : gst) (lg : glog) : option (gst * glog) :=
  match ops with
  | [] => Some (g, lg)
  | o :: r => match gstep g o with None => None | Some (g1, rr) => grun_log r g1 (log_step g o g1 rr lg) end
  end.

Definition LInv (g : gst) (lg : glog) : Prop :=
  incl (fst lg) (vnames (g_au g)) /\ incl (snd lg) (nnames (g_au g)).

Lemma somes_In {A} (l : list (option A)) x : In x (somes l) <-> In (Some x) l.
Proof.
  induction l as [|[a|] r IH]; simpl; [tauto| |].
  - rewrite IH. split; intros [H|H]; auto; [left; congruence | inversion H; auto].
  - rewrite IH. split; [auto | intros [H|H]; [discriminate | exact H]].
Qed.

Lemma g_regv_reg g v g1 : g_regv g v = Some g1 ->
  exists s, g_vname g1 v = Some s /\ In s (vnames (g_au g1)).
Proof.
  unfold g_regv. destruct (astep (g_au g) (RegV (g_vname g v))) as [[a s]|] eqn:E; [|discriminate].
  intros H. inversion H; subst. simpl. exists s. split; [apply upd_same|].
  pose proof (astep_mono _ _ _ _ E) as [_ [_ [_ [_ R]]]]. exact R.
Qed.

Lemma g_regvs_reg vs : forall g g1, g_regvs g vs = Some g1 ->
  forall v, In v vs -> exists s, g_vname g1 v = Some s /\ In s (vnames (g_au g1)).
Proof.
  induction vs as [|w r IH]; intros g g1 H v Hv; [destruct Hv|]. simpl in H.
  destruct (g_regv g w) as [gm|] eqn:Em; [|discriminate].
  destruct Hv as [<-|Hv]; [|eapply IH; eassumption].
  destruct (g_regv_reg _ _ _ Em) as [s [A B]].
  destruct (g_regvs_spec r gm) as [g1' [H' [K _]]]. rewrite H in H'. inversion H'; subst g1'.
  exists s. pose proof (kf_vals _ _ K w) as S. rewrite A in S. simpl in S. split; [exact S | apply (kf_v _ _ K); exact B].
Qed.

Lemma g_regv_frame g v g1 u : g_regv g v = Some g1 -> u <> v -> g_vname g1 u = g_vname g u.
Proof.
  unfold g_regv. destruct (astep (g_au g) (RegV (g_vname g v))) as [[a s]|]; [|discriminate].
  intros H Hne. inversion H; subst. simpl. apply upd_other. exact Hne.
Qed.

Lemma g_regvs_frame vs : forall g g1 u, g_regvs g vs = Some g1 -> ~ In u vs -> g_vname g1 u = g_vname g u.
Proof.
  induction vs as [|w r IH]; intros g g1 u H Hu; simpl in H; [inversion H; reflexivity|].
  destruct (g_regv g w) as [gm|] eqn:Em; [|discriminate].
  rewrite (IH gm g1 u H) by (intros X; apply Hu; right; exact X).
  eapply g_regv_frame; [exact Em|]. intros ->. apply Hu. left. reflexivity.
Qed.

(* what Graph(inputs, initializers) does (since fix f54d66f) *)
Lemma gctor_facts g ins inits g2 r : gstep g (GCtor ins inits) = Some (g2, r) ->
  exists g1, kept_fresh g g1 /\ kept_fresh g1 g2 /\
    (forall w x, In w (ins ++ inits) -> g_vname g w = Some x -> In x (vnames (g_au g1))) /\
    (forall v, g_vname g v = None -> g_vname g1 v = None) /\
    (forall v, In v ins -> exists s, g_vname g2 v = Some s /\ In s (vnames (g_au g2))).
Proof.
  simpl. intros H.
  destruct (gctor_spec g ins inits) as [ga [gb [H1 [H2 [K1 K2]]]]]. unfold named_in_g in H1. rewrite H1, H2 in H.
  inversion H; subst gb r. exists ga. split; [exact K1|]. split; [exact K2|]. split; [|split].
  - intros w x Hw Ex.
    assert (Hin : In w (filter (fun v => match g_vname g v with Some _ => true | None => false end) (ins ++ inits))).
    { apply filter_In. split; [exact Hw | rewrite Ex; reflexivity]. }
    destruct (g_regvs_reg _ _ _ H1 w Hin) as [s [A B]].
    pose proof (kf_vals _ _ K1 w) as S. rewrite Ex in S. simpl in S. congruence.
  - intros v Hv. rewrite (g_regvs_frame _ _ _ v H1); [exact Hv|].
    intros X. apply filter_In in X. destruct X as [_ X]. rewrite Hv in X. discriminate.
  - intros v Hv. apply (g_regvs_reg _ _ _ H2 v Hv).
Qed.

(* C15_ctor_generated_equals_present (the stronger reading, true since f54d66f): a name the constructor gives to an
   unnamed input differs from the explicit name of every input and initializer of the graph being built *)
Theorem ctor_generated_not_present g ins inits g2 r v s w x :
  gstep g (GCtor ins inits) = Some (g2, r) ->
  g_vname g v = None -> g_vname g2 v = Some s ->
  In w (ins ++ inits) -> g_vname g w = Some x -> s <> x.
Proof.
  intros H Hv Hs Hw Ex E. subst x.
  destruct (gctor_facts _ _ _ _ _ H) as [g1 [K1 [K2 [F1 [F2 _]]]]].
  pose proof (kf_vals _ _ K2 v) as S. rewrite (F2 v Hv), Hs in S. simpl in S.
  apply (proj1 S). apply (F1 w s Hw Ex).
Qed.

Lemma g_addnode_reg g n g1 : g_addnode g n = Some (g1, Ok tt) ->
  (exists s, g_nname g1 n = Some s /\ In s (nnames (g_au g1))) /\
  (forall v, In v (g_nouts g n) -> exists s, g_vname g1 v = Some s /\ In s (vnames (g_au g1))).
Proof.
  unfold g_addnode. destruct (g_foreign g n); [discriminate|].
  destruct (astep (g_au g) (RegN (g_nop g n) (g_nname g n))) as [[a s]|] eqn:E; [|discriminate].
  set (gm := mkG a (upd (g_nname g) n (Some s)) (g_nop g) (g_nouts g) (g_foreign g) (g_in g) (g_vname g)).
  destruct (g_regvs gm (g_nouts g n)) as [g2|] eqn:E2; [|discriminate].
  intros H. inversion H; subst. simpl.
  destruct (g_regvs_spec (g_nouts g n) gm) as [g2' [H' [K _]]]. rewrite E2 in H'. inversion H'; subst g2'.
  split.
  - exists s. pose proof (kf_nodes _ _ K n) as S. unfold gm in S at 1. simpl in S. rewrite upd_same in S. simpl in S.
    split; [exact S|]. apply (kf_n _ _ K). unfold gm. simpl.
    pose proof (astep_mono _ _ _ _ E) as [_ [_ [_ [_ R]]]]. exact R.
  - intros v Hv. apply (g_regvs_reg _ _ _ E2 v Hv).
Qed.

Lemma g_addnodes_go_reg ns : forall g g1, g_addnodes_go g ns = Some (g1, Ok tt) ->
  (forall n, In n ns -> exists s, g_nname g1 n = Some s /\ In s (nnames (g_au g1))) /\
  (forall n v, In n ns -> In v (g_nouts g n) -> exists s, g_vname g1 v = Some s /\ In s (vnames (g_au g1))).
Proof.
  induction ns as [|m r IH]; intros g g1 H; [split; [intros n [] | intros n v []]|]. simpl in H.
  destruct (g_addnode g m) as [[gm [[]|e]]|] eqn:Em; try discriminate.
  destruct (g_addnode_reg _ _ _ Em) as [A B].
  destruct (g_addnode_spec g m) as [gm' [rr [Hm [_ [_ [Eouts _]]]]]]. rewrite Em in Hm. inversion Hm; subst gm' rr.
  destruct (g_addnodes_go_spec r gm) as [g1' [r' [H' K]]]. rewrite H in H'. inversion H'; subst g1' r'.
  destruct (IH gm g1 H) as [C D].
  assert (KeepN : forall n s, g_nname gm n = Some s -> In s (nnames (g_au gm)) ->
            exists s', g_nname g1 n = Some s' /\ In s' (nnames (g_au g1))).
  { intros n s X Y. exists s. pose proof (kf_nodes _ _ K n) as S. rewrite X in S. simpl in S.
    split; [exact S | apply (kf_n _ _ K); exact Y]. }
  assert (KeepV : forall v s, g_vname gm v = Some s -> In s (vnames (g_au gm)) ->
            exists s', g_vname g1 v = Some s' /\ In s' (vnames (g_au g1))).
  { intros v s X Y. exists s. pose proof (kf_vals _ _ K v) as S. rewrite X in S. simpl in S.
    split; [exact S | apply (kf_v _ _ K); exact Y]. }
  split.
  - intros n [<-|Hn]; [destruct A as [s [X Y]]; eapply KeepN; eassumption | apply C; exact Hn].
  - intros n v [<-|Hn] Hv.
    + destruct (B v Hv) as [s [X Y]]. eapply KeepV; eassumption.
    + apply (D n v Hn). rewrite Eouts. exact Hv.
Qed.

Lemma log_step_inv g o g1 r lg : gstep g o = Some (g1, r) -> LInv g lg -> LInv g1 (log_step g o g1 r lg).
Proof.
  intros H [Lv Ln].
  assert (Mono : incl (vnames (g_au g)) (vnames (g_au g1)) /\ incl (nnames (g_au g)) (nnames (g_au g1))).
  { destruct (is_adding o) eqn:A.
    - pose proof (gstep_adding _ _ _ _ A H) as K. split; [apply (kf_v _ _ K) | apply (kf_n _ _ K)].
    - rewrite (gstep_other_auth _ _ _ _ A H). split; apply incl_refl. }
  destruct Mono as [Mv Mn].
  assert (Base : LInv g1 lg) by (split; eapply incl_tran; eassumption).
  destruct o; simpl in *; try exact Base.
  - (* GCtor *) destruct r as [[]|e].
    2:{ exfalso. destruct (gctor_spec g ins inits) as [ga [gb [H1 [H2 _]]]]. unfold named_in_g in H1. rewrite H1, H2 in H. discriminate. }
    destruct (gctor_facts _ _ _ _ _ H) as [ga [K1 [K2 [F1 [F2 F3]]]]].
    split; [|exact (proj2 Base)]. simpl. apply incl_app; [|exact (proj1 Base)].
    intros s Hs. apply somes_In in Hs. apply in_map_iff in Hs. destruct Hs as [v [Ev Hv]].
    apply in_app_or in Hv. destruct (in_dec N.eq_dec v ins) as [Hi|Hi].
    + destruct (F3 v Hi) as [s' [A B]]. congruence.
    + destruct (g_vname g v) as [x|] eqn:Ex.
      * pose proof (kf_vals _ _ K1 v) as S1. rewrite Ex in S1. simpl in S1.
        pose proof (kf_vals _ _ K2 v) as S2. rewrite S1 in S2. simpl in S2.
        assert (s = x) by congruence. subst s. apply (kf_v _ _ K2).
        apply (F1 v x); [apply in_or_app; exact Hv | exact Ex].
      * exfalso. simpl in H.
        destruct (gctor_spec g ins inits) as [gx [gy [H1 [H2 _]]]]. unfold named_in_g in H1. rewrite H1, H2 in H.
        inversion H; subst gy.
        assert (E1 : g_vname gx v = None).
        { rewrite (g_regvs_frame _ _ _ v H1); [exact Ex|]. intros X. apply filter_In in X. destruct X as [_ X].
          rewrite Ex in X. discriminate. }
        rewrite (g_regvs_frame _ _ _ v H2 Hi) in Ev. congruence.
  - (* GAdd *) destruct r as [[]|e]; [|exact Base].
    unfold g_addnodes in H. destruct (existsb (g_foreign g) ns); [discriminate|].
    destruct (g_addnodes_go_reg _ _ _ H) as [C D]. split; simpl.
    + apply incl_app; [|exact (proj1 Base)]. intros s Hs. apply somes_In in Hs. apply in_map_iff in Hs.
      destruct Hs as [v [Ev Hv]]. apply in_flat_map in Hv. destruct Hv as [n [Hn Hv]].
      destruct (D n v Hn Hv) as [s' [A B]]. congruence.
    + apply incl_app; [|exact (proj2 Base)]. intros s Hs. apply somes_In in Hs. apply in_map_iff in Hs.
      destruct Hs as [n [En Hn]]. destruct (C n Hn) as [s' [A B]]. congruence.
Qed.

Lemma grun_log_inv ops : forall g lg g1 lg1, grun_log ops g lg = Some (g1, lg1) -> LInv g lg -> LInv g1 lg1.
Proof.
  induction ops as [|o r IH]; intros g lg g1 lg1 H L; simpl in H.
  - inversion H; subst. exact L.
  - destruct (gstep g o) as [[g2 rr]|] eqn:E; [|discriminate].
    eapply IH; [exact H|]. eapply log_step_inv; eassumption.
Qed.

Lemma grun_log_total ops : forall g lg, exists g1 lg1, grun_log ops g lg = Some (g1, lg1).
Proof.
  induction ops as [|o r IH]; intros g lg; simpl; [eauto|].
  destruct (gstep_total g o) as [g1 [rr H]]. rewrite H. apply IH.
Qed.

(* for EVERY history from the empty graph state: a name given by the next adding call to an object that had none
   is not in the log - it differs from every name the graph registered or assigned before *)
Theorem graph_fresh_log pre o g lg g1 r :
  grun_log pre g0 ([], []) = Some (g, lg) -> is_adding o = true -> gstep g o = Some (g1, r) ->
  (forall v s, g_vname g v = None -> g_vname g1 v = Some s -> ~ In s (fst lg)) /\
  (forall n s, g_nname g n = None -> g_nname g1 n = Some s -> ~ In s (snd lg)) /\
  (forall v x, g_vname g v = Some x -> g_vname g1 v = Some x) /\
  (forall n x, g_nname g n = Some x -> g_nname g1 n = Some x).
Proof.
  intros Hrun Ha Hs.
  assert (L0 : LInv g0 ([], [])) by (split; intros x []).
  destruct (grun_log_inv _ _ _ _ _ Hrun L0) as [Lv Ln].
  pose proof (gstep_adding _ _ _ _ Ha Hs) as K.
  split; [|split; [|split]].
  - intros v s A B X. pose proof (kf_vals _ _ K v) as S. rewrite A, B in S. simpl in S. apply (proj1 S). apply Lv. exact X.
  - intros n s A B X. pose proof (kf_nodes _ _ K n) as S. rewrite A, B in S. simpl in S. apply (proj1 S). apply Ln. exact X.
  - intros v x A. pose proof (kf_vals _ _ K v) as S. rewrite A in S. exact S.
  - intros n x A. pose proof (kf_nodes _ _ K n) as S. rewrite A in S. exact S.
Qed.

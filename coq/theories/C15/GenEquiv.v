(* C15/GenEquiv.v — the hand-written models of C15/Model.v equal the statement-by-statement translation of the
   Python sources (Gen/C15Gen.v, regenerated on every run): NameAuthority._unique_value_name / _unique_node_name /
   register_or_name_value / register_or_name_node and naming._find_and_record_next_unique_name.  An edit of one of
   these functions changes Gen/C15Gen.v and breaks the corresponding lemma here (or the translator rejects it). *)
From Coq Require Import NArith List Bool Lia.
From IRV Require Import Base.Exn C15.Model C15.ProofsA C15.ProofsB2 Gen.C15Gen.
Import ListNotations.
Open Scope N_scope.

(* ---------- the candidate loops *)
Lemma py_unique_value_name_while fuel : forall k seen,
  py_unique_value_name_while1 fuel k seen =
  match gen_loop fuel val_name k seen with None => None | Some (s, j) => Some (inl (s, N.succ j)) end.
Proof.
  induction fuel as [|f IH]; intros k seen; [reflexivity|].
  cbn [py_unique_value_name_while1 gen_loop].
  change ([118; 97; 108; 95] ++ dec k) with (val_name k).
  rewrite N.add_1_r. destruct (mem (val_name k) seen); simpl; [apply IH | reflexivity].
Qed.

Lemma py_unique_value_name_eq fuel k seen :
  py_unique_value_name fuel k seen =
  match gen_loop fuel val_name k seen with None => None | Some (s, j) => Some (s, N.succ j) end.
Proof.
  unfold py_unique_value_name. rewrite py_unique_value_name_while.
  destruct (gen_loop fuel val_name k seen) as [[s j]|]; reflexivity.
Qed.

Lemma py_unique_node_name_while fuel : forall k seen op,
  py_unique_node_name_while1 fuel k seen op =
  match gen_loop fuel (node_name op) k seen with None => None | Some (s, j) => Some (inl (s, N.succ j)) end.
Proof.
  induction fuel as [|f IH]; intros k seen op; [reflexivity|].
  cbn [py_unique_node_name_while1 gen_loop].
  change ([110; 111; 100; 101; 95] ++ op ++ [95] ++ dec k) with (node_name op k).
  rewrite N.add_1_r. destruct (mem (node_name op k) seen); simpl; [apply IH | reflexivity].
Qed.

Lemma py_unique_node_name_eq fuel k seen op :
  py_unique_node_name fuel k seen op =
  match gen_loop fuel (node_name op) k seen with None => None | Some (s, j) => Some (s, N.succ j) end.
Proof.
  unfold py_unique_node_name. rewrite py_unique_node_name_while.
  destruct (gen_loop fuel (node_name op) k seen) as [[s j]|]; reflexivity.
Qed.

(* ---------- NameAuthority.register_or_name_value / register_or_name_node = astep *)
Theorem py_register_or_name_value_eq a o :
  py_register_or_name_value (S (length (vnames a))) (vc a) (vnames a) o =
  match astep a (RegV o) with
  | None => None
  | Some (a', s) => Some (tt, (vc a', vnames a', Some s))
  end /\
  (forall a' s, astep a (RegV o) = Some (a', s) -> nc a' = nc a /\ nnames a' = nnames a).
Proof.
  split.
  - unfold py_register_or_name_value. destruct o as [s|]; simpl.
    + reflexivity.
    + rewrite py_unique_value_name_eq. unfold gen_fresh.
      destruct (gen_loop (S (length (vnames a))) val_name (vc a) (vnames a)) as [[s j]|]; reflexivity.
  - intros a' s H. destruct o as [x|]; simpl in H.
    + inversion H; subst. auto.
    + destruct (gen_fresh val_name (vc a) (vnames a)) as [[x j]|]; inversion H; subst. auto.
Qed.

Theorem py_register_or_name_node_eq a op o :
  py_register_or_name_node (S (length (nnames a))) (nc a) (nnames a) o op =
  match astep a (RegN op o) with
  | None => None
  | Some (a', s) => Some (tt, (nc a', nnames a', Some s))
  end /\
  (forall a' s, astep a (RegN op o) = Some (a', s) -> vc a' = vc a /\ vnames a' = vnames a).
Proof.
  split.
  - unfold py_register_or_name_node. destruct o as [s|]; simpl.
    + reflexivity.
    + rewrite py_unique_node_name_eq. unfold gen_fresh.
      destruct (gen_loop (S (length (nnames a))) (node_name op) (nc a) (nnames a)) as [[s j]|]; reflexivity.
  - intros a' s H. destruct o as [x|]; simpl in H.
    + inversion H; subst. auto.
    + destruct (gen_fresh (node_name op) (nc a) (nnames a)) as [[x j]|]; inversion H; subst. auto.
Qed.

(* ---------- _find_and_record_next_unique_name = find_unique *)
Lemma cnt_get_set k v c : cnt_get k (cnt_set k v c) = v.
Proof.
  induction c as [|[k' n] r IH]; simpl.
  - rewrite name_eqb_refl. reflexivity.
  - destruct (name_eqb k k') eqn:E; simpl; [rewrite name_eqb_refl; reflexivity | rewrite E; exact IH].
Qed.

Lemma cnt_set_set k a b c : cnt_set k b (cnt_set k a c) = cnt_set k b c.
Proof.
  induction c as [|[k' n] r IH]; simpl.
  - rewrite name_eqb_refl. reflexivity.
  - destruct (name_eqb k k') eqn:E; simpl; [rewrite name_eqb_refl; reflexivity | rewrite E, IH; reflexivity].
Qed.

Lemma gen_loop_result fuel mk : forall k seen s j, gen_loop fuel mk k seen = Some (s, j) -> s = mk j /\ mem s seen = false.
Proof.
  induction fuel as [|f IH]; intros k seen s j H; simpl in H; [discriminate|].
  destruct (mem (mk k) seen) eqn:E; [apply (IH _ _ _ _ H)|]. inversion H; subst. auto.
Qed.

Lemma gen_loop_ge fuel mk : forall k seen s j, gen_loop fuel mk k seen = Some (s, j) -> k <= j.
Proof.
  induction fuel as [|f IH]; intros k seen s j H; simpl in H; [discriminate|].
  destruct (mem (mk k) seen); [specialize (IH _ _ _ _ H); lia | inversion H; subst; lia].
Qed.

Lemma py_find_while fuel pref used rsv : forall ct k,
  cnt_get pref ct = k ->
  py_find_and_record_next_unique_name_while1 fuel pref used ct rsv (suffixed pref k) =
  match gen_loop fuel (suffixed pref) k (used ++ rsv) with
  | None => None
  | Some (s, j) => Some (inr ((used, if N.eqb j k then ct else cnt_set pref j ct), s))
  end.
Proof.
  induction fuel as [|f IH]; intros ct k Hk; [reflexivity|].
  cbn [py_find_and_record_next_unique_name_while1 gen_loop].
  rewrite mem_app.
  destruct (mem (suffixed pref k) used || mem (suffixed pref k) rsv) eqn:E.
  - rewrite Hk, cnt_get_set.
    change (pref ++ [95] ++ dec (k + 1)) with (suffixed pref (k + 1)).
    rewrite (IH (cnt_set pref (k + 1) ct) (k + 1) (cnt_get_set _ _ _)).
    rewrite N.add_1_r.
    destruct (gen_loop f (suffixed pref) (N.succ k) (used ++ rsv)) as [[s j]|] eqn:G; [|reflexivity].
    pose proof (gen_loop_ge _ _ _ _ _ _ G) as Hge.
    assert (E1 : N.eqb j k = false) by (apply N.eqb_neq; lia). rewrite E1.
    destruct (N.eqb j (N.succ k)) eqn:E2.
    + apply N.eqb_eq in E2. subst j. reflexivity.
    + rewrite cnt_set_set. reflexivity.
  - rewrite N.eqb_refl. reflexivity.
Qed.

Lemma py_find_while_S f pref used ct rsv nm :
  py_find_and_record_next_unique_name_while1 (S f) pref used ct rsv nm =
  if mem nm used || mem nm rsv
  then py_find_and_record_next_unique_name_while1 f pref used (cnt_set pref (cnt_get pref ct + 1) ct) rsv
         (pref ++ [95] ++ dec (cnt_get pref (cnt_set pref (cnt_get pref ct + 1) ct)))
  else Some (inr ((used, ct), nm)).
Proof. reflexivity. Qed.

Theorem py_find_and_record_eq pref used cnt rsv :
  py_find_and_record_next_unique_name (S (S (length (used ++ rsv)))) pref used cnt rsv =
  match find_unique pref used cnt rsv with
  | None => None
  | Some (s, used', cnt') => Some (s, (used', cnt'))
  end.
Proof.
  unfold py_find_and_record_next_unique_name, find_unique.
  rewrite py_find_while_S.
  destruct (mem pref used || mem pref rsv) eqn:E.
  - rewrite cnt_get_set.
    change (pref ++ [95] ++ dec (cnt_get pref cnt + 1)) with (suffixed pref (cnt_get pref cnt + 1)).
    rewrite (py_find_while _ pref used rsv (cnt_set pref (cnt_get pref cnt + 1) cnt) (cnt_get pref cnt + 1) (cnt_get_set _ _ _)).
    rewrite N.add_1_r. unfold gen_fresh.
    destruct (gen_loop (S (length (used ++ rsv))) (suffixed pref) (N.succ (cnt_get pref cnt)) (used ++ rsv)) as [[s j]|] eqn:G; [|reflexivity].
    destruct (gen_loop_result _ _ _ _ _ _ G) as [_ Hm]. rewrite mem_app in Hm. apply orb_false_iff in Hm.
    unfold sadd. rewrite (proj1 Hm).
    destruct (N.eqb j (N.succ (cnt_get pref cnt))) eqn:E2.
    + apply N.eqb_eq in E2. subst j. reflexivity.
    + rewrite cnt_set_set. reflexivity.
  - apply orb_false_iff in E. unfold sadd. rewrite (proj1 E). reflexivity.
Qed.

(* ---------- the naming decision of NameFixPass: _assign_*_name / _fix_duplicate_*_name behind the dispatch
   `if not x.name` (in _process_value for values, in the loop of _fix_graph_names for nodes) *)
Definition decide (default : name) (nm : option name) (used : list name) (cnt : list (name * N)) (rsv : list name)
  : option (bool * option name * list name * list (name * N)) :=
  match nm with
  | Some (c :: n) =>
      if negb (mem (c :: n) used) then Some (false, nm, (c :: n) :: used, cnt)
      else match find_unique (c :: n) used cnt rsv with
           | None => None
           | Some (new, used', cnt') => Some (true, Some new, used', cnt')
           end
  | _ => match find_unique default used cnt rsv with
         | None => None
         | Some (new, used', cnt') => Some (true, Some new, used', cnt')
         end
  end.

Definition pack (r : option (bool * option name * list name * list (name * N)))
  : option (bool * (option name * list name * list (name * N))) :=
  match r with None => None | Some (m, nm, u, c) => Some (m, (nm, u, c)) end.

Theorem py_value_decision_eq nm used cnt rsv :
  (if is_empty nm then py_assign_value_name (S (S (length (used ++ rsv)))) nm used cnt rsv
   else py_fix_duplicate_value_name (S (S (length (used ++ rsv)))) nm used cnt rsv) =
  pack (decide s_v nm used cnt rsv).
Proof.
  destruct nm as [[|c n]|]; simpl.
  - unfold py_assign_value_name, py_generate_value_name. simpl. rewrite py_find_and_record_eq.
    change [118] with s_v. destruct (find_unique s_v used cnt rsv) as [[[new u'] c']|]; reflexivity.
  - unfold py_fix_duplicate_value_name, py_generate_value_name. simpl.
    destruct (mem (c :: n) used) eqn:E; simpl.
    + rewrite py_find_and_record_eq. destruct (find_unique (c :: n) used cnt rsv) as [[[new u'] c']|]; reflexivity.
    + unfold sadd. rewrite E. reflexivity.
  - unfold py_assign_value_name, py_generate_value_name. simpl. rewrite py_find_and_record_eq.
    change [118] with s_v. destruct (find_unique s_v used cnt rsv) as [[[new u'] c']|]; reflexivity.
Qed.

Theorem py_node_decision_eq nm used cnt rsv :
  (if is_empty nm then py_assign_node_name (S (S (length (used ++ rsv)))) nm used cnt rsv
   else py_fix_duplicate_node_name (S (S (length (used ++ rsv)))) nm used cnt rsv) =
  pack (decide s_node nm used cnt rsv).
Proof.
  destruct nm as [[|c n]|]; simpl.
  - unfold py_assign_node_name, py_generate_node_name. simpl. rewrite py_find_and_record_eq.
    change [110; 111; 100; 101] with s_node. destruct (find_unique s_node used cnt rsv) as [[[new u'] c']|]; reflexivity.
  - unfold py_fix_duplicate_node_name, py_generate_node_name. simpl.
    destruct (mem (c :: n) used) eqn:E; simpl.
    + rewrite py_find_and_record_eq. destruct (find_unique (c :: n) used cnt rsv) as [[[new u'] c']|]; reflexivity.
    + unfold sadd. rewrite E. reflexivity.
  - unfold py_assign_node_name, py_generate_node_name. simpl. rewrite py_find_and_record_eq.
    change [110; 111; 100; 101] with s_node. destruct (find_unique s_node used cnt rsv) as [[[new u'] c']|]; reflexivity.
Qed.

(* the hand models of one node / one value are that decision, followed (for values) by the Value.name setter *)
Theorem process_node_name_decide m s :
  process_node_name m s =
  match f_nscopes s with
  | [] => (s, Some IndexError)
  | used :: rest =>
      match decide s_node (f_nn s m) used (f_ncnt s) (f_rn s) with
      | None => (s, Some OtherError)
      | Some (false, _, used', _) =>
          (mkF (f_own s) (f_so s) (f_vx s) (f_nx s) (f_rv s) (f_rn s) (f_vn s) (f_nn s) (f_inits s) (f_seen s) (f_vcnt s)
               (f_ncnt s) (f_vscopes s) (used' :: rest) (f_mod s), None)
      | Some (true, nm', used', cnt') =>
          (mkF (f_own s) (f_so s) (f_vx s) (f_nx s) (f_rv s) (f_rn s) (f_vn s) (upd (f_nn s) m nm') (f_inits s) (f_seen s)
               (f_vcnt s) cnt' (f_vscopes s) (used' :: rest) true, None)
      end
  end.
Proof.
  unfold process_node_name, decide. destruct (f_nscopes s) as [|used rest]; [reflexivity|].
  destruct (f_nn s m) as [[|c n]|]; simpl.
  - destruct (find_unique s_node used (f_ncnt s) (f_rn s)) as [[[new u'] c']|]; reflexivity.
  - destruct (mem (c :: n) used); simpl; [|reflexivity].
    destruct (find_unique (c :: n) used (f_ncnt s) (f_rn s)) as [[[new u'] c']|]; reflexivity.
  - destruct (find_unique s_node used (f_ncnt s) (f_rn s)) as [[[new u'] c']|]; reflexivity.
Qed.

Theorem process_value_decide v s :
  process_value v s =
  if memN v (f_seen s) then (s, None) else
  match f_vscopes s with
  | [] => (s, Some IndexError)
  | used :: rest =>
      match decide s_v (f_vn s v) used (f_vcnt s) (f_rv s) with
      | None => (s, Some OtherError)
      | Some (false, _, used', _) =>
          (mkF (f_own s) (f_so s) (f_vx s) (f_nx s) (f_rv s) (f_rn s) (f_vn s) (f_nn s) (f_inits s) (v :: f_seen s) (f_vcnt s)
               (f_ncnt s) (used' :: rest) (f_nscopes s) (f_mod s), None)
      | Some (true, Some new, used', cnt') =>
          (* value.name = new : the Value.name setter *)
          match set_vname v new (f_vn s) (f_inits s) with
          | Raise e =>
              (mkF (f_own s) (f_so s) (f_vx s) (f_nx s) (f_rv s) (f_rn s) (f_vn s) (f_nn s) (f_inits s) (f_seen s) cnt'
                   (f_ncnt s) (used' :: rest) (f_nscopes s) (f_mod s), Some e)
          | Ok (vn', inits') =>
              (mkF (f_own s) (f_so s) (f_vx s) (f_nx s) (f_rv s) (f_rn s) vn' (f_nn s) inits' (v :: f_seen s) cnt'
                   (f_ncnt s) (used' :: rest) (f_nscopes s) true, None)
          end
      | Some (true, None, _, _) => (s, Some OtherError)
      end
  end.
Proof.
  unfold process_value, decide. destruct (memN v (f_seen s)); [reflexivity|].
  destruct (f_vscopes s) as [|used rest]; [reflexivity|].
  destruct (f_vn s v) as [[|c n]|]; simpl.
  - destruct (find_unique s_v used (f_vcnt s) (f_rv s)) as [[[new u'] c']|]; reflexivity.
  - destruct (mem (c :: n) used); simpl; [|reflexivity].
    destruct (find_unique (c :: n) used (f_vcnt s) (f_rv s)) as [[[new u'] c']|]; reflexivity.
  - destruct (find_unique s_v used (f_vcnt s) (f_rv s)) as [[[new u'] c']|]; reflexivity.
Qed.

(* C15/ProofsB8.v — C15_fix_post assembled for one _fix_graph_names run.
   naive run: for every scope of the traversal the values OWNED along the path (graph inputs, initializers,
   outputs of the nodes met so far) - no seen-logic.  On well-scoped traversals (ghost flag) every naive scope
   is contained in the ghost scope, whose members carry pairwise distinct names. *)
From Coq Require Import NArith List Bool Lia.
From IRV Require Import Base.Exn C15.Model C15.ProofsA C15.ProofsA2 C15.ProofsB2 C15.ProofsB3 C15.ProofsC C15.ProofsC3
  C15.ProofsB4 C15.ProofsB5 C15.ProofsB6 C15.ProofsB7.
Import ListNotations.
Open Scope N_scope.

Arguments touches : simpl never.

Record nv := mkNv { v_m : list (list N); v_cl : list (list N) }.
Definition naive_step (dv : N -> list N) (e : ev) (g : nv) : nv :=
  match e with
  | EEnter gid isfunc ins outs =>
      match v_m g with
      | [] => g
      | top :: _ => mkNv ((ins ++ (if isfunc then [] else dv gid) ++ top) :: v_m g) (v_cl g)
      end
  | EExit => match v_m g with [] => g | top :: rest => mkNv rest (top :: v_cl g) end
  | ENode _ _ nouts => match v_m g with [] => g | top :: rest => mkNv ((nouts ++ top) :: rest) (v_cl g) end
  end.
Definition naive_events (dv : N -> list N) (es : list ev) (g : nv) : nv := fold_left (fun g e => naive_step dv e g) es g.
Definition nv0 : nv := mkNv [[]] [].

Definition Cov (n : nv) (g : gh) : Prop := Forall2 (@incl N) (v_m n) (g_m g) /\ Forall2 (@incl N) (v_cl n) (g_cl g).

Lemma touches_shape ws top rest sn cl ok :
  touches ws (mkGh (top :: rest) sn cl ok) =
  mkGh ((filter (unseen_in sn) ws ++ top) :: rest) (ws ++ sn) cl
       (ok && forallb (fun v => unseen_in sn v || memN v top) ws).
Proof. reflexivity. Qed.

Lemma touches_ok_incl ws top sn ok :
  ok && forallb (fun v => unseen_in sn v || memN v top) ws = true ->
  ok = true /\ incl ws (filter (unseen_in sn) ws ++ top).
Proof.
  intros H. apply andb_prop in H. destruct H as [H1 H2]. split; [exact H1|].
  intros x Hx. rewrite forallb_forall in H2. specialize (H2 x Hx). apply orb_prop in H2.
  apply in_or_app. destruct H2 as [H2|H2].
  - left. apply filter_In. auto.
  - right. apply memN_In. exact H2.
Qed.

Lemma gh_step_cov dv e n g :
  g_ok (gh_step dv e g) = true -> Cov n g -> Cov (naive_step dv e n) (gh_step dv e g) /\ g_ok g = true.
Proof.
  destruct g as [m sn cl ok]. destruct n as [vm vcl]. intros H [C1 C2]. simpl in C1, C2.
  destruct e as [gid isfunc ins outs| |nid nins nouts]; simpl in *.
  - destruct m as [|top rest]; inversion C1 as [|a b ra rb Hab Hr]; subst; simpl in *; [split; [split; simpl; assumption | exact H]|].
    rewrite ?touches_shape in H. rewrite ?touches_shape. simpl in *.
    apply touches_ok_incl in H. destruct H as [H I3].
    apply touches_ok_incl in H. destruct H as [H I2].
    apply touches_ok_incl in H. destruct H as [H I1].
    split; [|exact H]. split; simpl; [|exact C2].
    constructor; [|constructor; assumption].
    intros x Hx. apply in_app_or in Hx. destruct Hx as [Hx|Hx].
    + apply in_or_app. right. apply in_or_app. right. apply I1. exact Hx.
    + apply in_app_or in Hx. destruct Hx as [Hx|Hx].
      * apply I3. exact Hx.
      * apply in_or_app. right. apply in_or_app. right. apply in_or_app. right. apply Hab. exact Hx.
  - destruct m as [|top rest]; inversion C1 as [|a b ra rb Hab Hr]; subst; simpl in *; [split; [split; simpl; assumption | exact H]|].
    split; [|exact H]. split; simpl; [exact Hr | constructor; assumption].
  - destruct m as [|top rest]; inversion C1 as [|a b ra rb Hab Hr]; subst; simpl in *; [split; [split; simpl; assumption | exact H]|].
    rewrite ?touches_shape in H. rewrite ?touches_shape. simpl in *.
    apply touches_ok_incl in H. destruct H as [H I2].
    apply touches_ok_incl in H. destruct H as [H I1].
    split; [|exact H]. split; simpl; [|exact C2].
    constructor; [|exact Hr].
    intros x Hx. apply in_app_or in Hx. destruct Hx as [Hx|Hx].
    + apply I2. exact Hx.
    + apply in_or_app. right. apply in_or_app. right. apply Hab. exact Hx.
Qed.

Lemma gh_events_ok_mono dv es : forall g, g_ok (gh_events dv es g) = true -> g_ok g = true.
Proof.
  induction es as [|e r IH]; intros g H; simpl in *; [exact H|].
  specialize (IH _ H). clear H.
  destruct g as [m sn cl ok]. destruct e as [gid isfunc ins outs| |nid nins nouts]; simpl in *.
  - destruct m as [|top rest]; [exact IH|]. rewrite ?touches_shape in IH. simpl in IH.
    repeat (apply andb_prop in IH; destruct IH as [IH _]). exact IH.
  - destruct m; exact IH.
  - destruct m as [|top rest]; [exact IH|]. rewrite ?touches_shape in IH. simpl in IH.
    repeat (apply andb_prop in IH; destruct IH as [IH _]). exact IH.
Qed.

Lemma gh_events_cov dv es : forall n g,
  g_ok (gh_events dv es g) = true -> Cov n g -> Cov (naive_events dv es n) (gh_events dv es g).
Proof.
  induction es as [|e r IH]; intros n g H C; simpl in *; [exact C|].
  apply IH; [exact H|]. apply gh_step_cov; [|exact C]. eapply gh_events_ok_mono. exact H.
Qed.

Lemma Forall2_incl_In (A B : list (list N)) R : Forall2 (@incl N) A B -> In R A -> exists M, In M B /\ incl R M.
Proof.
  induction 1 as [|a b ra rb Hab _ IH]; intros H; [destruct H|].
  destruct H as [<-|H]; [exists b; split; [left; reflexivity | exact Hab]|].
  destruct (IH H) as [M [X Y]]. exists M. split; [right; exact X | exact Y].
Qed.

(* the structural hypothesis of C15_fix_post: every value is first met in the scope of its graph or of an
   enclosing graph (for instance: the graph is topologically sorted and subgraphs only capture values defined
   before the enclosing node) - a property of the traversal alone, no names involved *)
Definition well_scoped (es : list ev) (inits : list (N * idict)) : Prop :=
  g_ok (gh_events (dv inits) es gh0) = true.

(* initializer values of entered graphs are met *)
Section SeenDict.
  Variables (vn0 : N -> option name) (inits0 : list (N * idict)) (rv : list name) (E : list N).
  Hypothesis W : WF0 vn0 inits0.

  Lemma fx_events_seen_dict es : forall s s',
    Forall (ev_closed inits0 E) es -> fx_events es s = (s', None) -> TInv vn0 inits0 rv E s ->
    forall gid k v, In gid (entered es) -> In (k, v) (get_dict gid inits0) -> In v (f_seen s').
  Proof.
    induction es as [|e r IH]; intros s s' Hc H T gid k v Hg Hk; simpl in *; [destruct Hg|].
    inversion Hc as [|? ? He Hr]; subst. unfold fbind in H.
    destruct (fx_step e s) as [s1 [e1|]] eqn:E1; simpl in H; [inversion H|].
    assert (T1 : TInv vn0 inits0 rv E s1).
    { destruct (fx_step_good vn0 inits0 rv E W e He s T) as [_ B]. rewrite E1 in B. apply B. reflexivity. }
    destruct (fx_events_seen _ _ _ H) as [_ Mono].
    destruct e as [g0 isfunc ins outs| |nid nins nouts]; simpl in Hg; try (eapply IH; eassumption).
    destruct isfunc; [eapply IH; eassumption|].
    destruct Hg as [<-|Hg]; [|eapply IH; eassumption].
    apply Mono. simpl in E1. destruct (f_vscopes s) as [|top rest]; [inversion E1|]. unfold fbind in E1.
    match type of E1 with context [process_values ins ?s0] => set (s0' := s0) in *; destruct (process_values ins s0') as [s2 [e2|]] eqn:E2 end; simpl in E1; [inversion E1|].
    destruct (process_values outs s2) as [s3 [e3|]] eqn:E3; simpl in E1; [inversion E1|].
    destruct He as [Hio _]. apply Forall_app in Hio. destruct Hio as [Hi Ho].
    assert (T0 : TInv vn0 inits0 rv E s0') by (destruct T as [a b c d f0 g1 h]; constructor; simpl; assumption).
    assert (T2 : TInv vn0 inits0 rv E s2).
    { destruct (process_values_good vn0 inits0 rv E W ins Hi s0' T0) as [_ B]. rewrite E2 in B. apply B. reflexivity. }
    assert (T3 : TInv vn0 inits0 rv E s3).
    { destruct (process_values_good vn0 inits0 rv E W outs Ho s2 T2) as [_ B]. rewrite E3 in B. apply B. reflexivity. }
    destruct (process_values_seen _ _ _ E1) as [A _]. apply A.
    destruct (proj2 (t_mem _ _ _ _ _ T3 g0 v) (ex_intro _ k Hk)) as [k' X].
    apply in_map_iff. exists (k', v). auto.
  Qed.
End SeenDict.

(* ---------- one run *)
Theorem fix_post_run g own vx nx vn nn inits m :
  WF0 vn inits -> closed_run (events_graph g) inits -> NoDup (ev_nodes (events_graph g)) ->
  let es := events_graph g in
  let r := fix_graph_names g own vx nx vn nn inits m in
  let s' := fst r in
  snd r = None /\
  (* every value and node met has a non-empty name *)
  (forall v, In v (ev_values es) \/ (exists gid k, In gid (entered es) /\ In (k, v) (get_dict gid inits)) ->
     exists x, f_vn s' v = Some x /\ x <> []) /\
  (forall a, In a (ev_nodes es) -> exists x, f_nn s' a = Some x /\ x <> []) /\
  (* value names: pairwise distinct within every scope (a graph's own values + the visible enclosing ones) *)
  (well_scoped es inits ->
     forall R, In R (v_cl (naive_events (dv inits) es nv0)) ->
     forall v w, In v R -> In w R -> v <> w -> f_vn s' v <> f_vn s' w) /\
  (* node names: pairwise distinct within every graph *)
  (forall M, In M (n_cl (ngh_events es ngh0)) -> forall a b, In a M -> In b M -> a <> b -> f_nn s' a <> f_nn s' b) /\
  (* initializers keyed by their current names *)
  WF0 (f_vn s') (f_inits s').
Proof.
  intros W Hc ND es r s'.
  destruct (fix_run_total g own vx nx vn nn inits m W Hc) as [Hnone [Wf [_ Tf]]].
  fold r in Hnone, Wf, Tf. fold s' in Wf, Tf.
  set (rv := fst (collect_names es vn nn inits)) in *. set (rn := snd (collect_names es vn nn inits)).
  assert (Er : r = fx_events es (fx_init own vx nx rv rn vn nn inits m)).
  { unfold r, fix_graph_names, rv, rn, es. destruct (collect_names (events_graph g) vn nn inits); reflexivity. }
  assert (Hrun : fx_events es (fx_init own vx nx rv rn vn nn inits m) = (s', None)).
  { rewrite <- Er. unfold s'. destruct r as [a b]. simpl in *. subst b. reflexivity. }
  assert (Hev : Forall (ev_closed inits (entered es)) es).
  { apply closed_events; [|apply incl_refl]. intros w Hw g0 k X. eapply Hc; eassumption. }
  pose proof (TInv_init own vx nx vn nn inits m g W) as T0. simpl in T0. fold es rv rn in T0.
  assert (G0 : GInv gh0 (fx_init own vx nx rv rn vn nn inits m)).
  { constructor; simpl.
    - constructor; [intros v [] | constructor].
    - intros M [<-|[]] v w [].
    - intros M [<-|[]] v [].
    - intros v. tauto.
    - intros v []. }
  destruct (fx_events_both vn inits rv (entered es) W es _ _ _ Hev Hrun T0 G0) as [_ Gf].
  assert (N0 : NInv (ev_nodes es) ngh0 (fx_init own vx nx rv rn vn nn inits m)).
  { constructor; simpl.
    - constructor; [intros a [] | constructor].
    - intros M [<-|[]] a b [].
    - intros M [<-|[]] a [].
    - intros M [<-|[]] a []. }
  pose proof (fx_events_nodes es _ _ _ ND Hrun N0) as Nf.
  split; [exact Hnone|]. split; [|split; [|split; [|split; [|exact Wf]]]].
  - intros v Hv. apply (gi_named _ _ Gf). destruct Hv as [Hv|[gid [k [Hg Hk]]]].
    + apply (proj1 (fx_events_seen _ _ _ Hrun)). exact Hv.
    + eapply (fx_events_seen_dict vn inits rv (entered es) W es); eassumption.
  - intros a Ha. destruct (ngh_events_covers es ngh0 a (or_introl Ha)) as [M [HM HaM]].
    apply (ni_named _ _ _ Nf M HM a HaM).
  - intros Hws R HR v w Hv Hw Hne.
    assert (C0 : Cov nv0 gh0) by (split; simpl; [constructor; [apply incl_refl | constructor] | constructor]).
    destruct (gh_events_cov (dv inits) es nv0 gh0 Hws C0) as [_ C2].
    destruct (Forall2_incl_In _ _ R C2 HR) as [M [HM Hinc]].
    apply (gi_dist _ _ Gf M); [apply in_or_app; right; exact HM | apply Hinc, Hv | apply Hinc, Hw | exact Hne].
  - intros M HM a b Ha Hb Hne.
    apply (ni_dist _ _ _ Nf M); [apply in_or_app; right; exact HM | exact Ha | exact Hb | exact Hne].
Qed.

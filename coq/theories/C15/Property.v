(* C15/Property.v — ONLY the property theorems (each closed by a lemma of Proofs*.v) + Print Assumptions.
   Models: C15/Model.v (A: NameAuthority / graph histories, B: NameFixPass, C: rename_values). *)
From Coq Require Import NArith List Bool Lia.
From IRV Require Import Base.Exn C15.Model C15.ProofsA C15.ProofsA2 C15.ProofsB C15.ProofsC C15.ProofsC2 C15.ProofsC3.
Import ListNotations.
Open Scope N_scope.

(* ===================== (A) generated names never collide ===================== *)

(* The `while True` candidate loops terminate: with fuel |seen|+1 no call ever runs out of fuel, for
   every history of register calls from every authority state. *)
Theorem C15_gen_fuel_suffices :
  forall ops a, exists a' tr, arun ops a = Some (a', tr) /\ length tr = length ops.
Proof. exact arun_total. Qed.
Print Assumptions C15_gen_fuel_suffices.

(* For every history `pre` of register_or_name_{value,node} calls with arbitrary explicit names
   (val_7-shaped ones included) from any authority a0: a value name generated next is not in the seen
   set before the call, was not seen initially, and differs from every value name registered or
   generated at any earlier call. *)
Theorem C15_fresh :
  forall pre a0 a1 tr a2 s,
  arun pre a0 = Some (a1, tr) -> astep a1 (RegV None) = Some (a2, s) ->
  ~ In s (vnames a1) /\ ~ In s (vnames a0) /\
  (forall i o s', nth_error pre i = Some o -> is_valop o = true -> nth_error tr i = Some s' -> s <> s').
Proof. exact fresh_after_history_value. Qed.
Print Assumptions C15_fresh.

Theorem C15_fresh_node :
  forall pre a0 a1 tr a2 op s,
  arun pre a0 = Some (a1, tr) -> astep a1 (RegN op None) = Some (a2, s) ->
  ~ In s (nnames a1) /\ ~ In s (nnames a0) /\
  (forall i o s', nth_error pre i = Some o -> is_valop o = false -> nth_error tr i = Some s' -> s <> s').
Proof. exact fresh_after_history_node. Qed.
Print Assumptions C15_fresh_node.

(* Seen sets and counters never shrink; every resulting name is recorded in the set of its kind. *)
Theorem C15_monotone :
  forall ops a a' tr, arun ops a = Some (a', tr) ->
  incl (vnames a) (vnames a') /\ incl (nnames a) (nnames a') /\ vc a <= vc a' /\ nc a <= nc a' /\
  (forall i o s, nth_error ops i = Some o -> nth_error tr i = Some s ->
     if is_valop o then In s (vnames a') else In s (nnames a')).
Proof. exact arun_mono. Qed.
Print Assumptions C15_monotone.

(* A non-None name is never changed by registration. *)
Theorem C15_explicit_kept :
  forall a o a' s x, astep a o = Some (a', s) -> explicit_name o = Some x -> s = x.
Proof. exact astep_explicit. Qed.
Print Assumptions C15_explicit_kept.

(* Graph level (Graph(...), append, extend, insert_before, insert_after; also when the call raises half
   way): explicit node/value names are kept, a name given to an unnamed node/value is outside the seen set
   the graph's authority had before the operation and inside it afterwards, seen sets only grow, and the
   authority changed by register calls only - so C15_fresh applies to the graph's whole life. *)
Theorem C15_graph_adding :
  forall g o g1 r, is_adding o = true -> gstep g o = Some (g1, r) -> kept_fresh g g1.
Proof. exact gstep_adding. Qed.
Print Assumptions C15_graph_adding.

Theorem C15_graph_history :
  forall ops g, exists g1, grun ops g = Some g1 /\
  incl (vnames (g_au g)) (vnames (g_au g1)) /\ incl (nnames (g_au g)) (nnames (g_au g1)) /\
  exists calls tr, arun calls (g_au g) = Some (g_au g1, tr).
Proof.
  intros ops g. destruct (grun_total ops g) as [g1 H]. exists g1. split; [exact H|]. apply (grun_auth ops g g1 H).
Qed.
Print Assumptions C15_graph_history.

(* ===================== (B) NameFixPass ===================== *)

(* FULL STATEMENT (C15_fix_total): for every model the pass returns without raising.
   REFUTED on the code as it exists: inputs [w], initializers [w; w_1]. *)
Theorem C15_fix_total_refuted :
  exists main funcs vn nn inits, snd (name_fix_pass main funcs vn nn inits) = Some ValueError.
Proof. do 5 eexists. exact fix_total_refuted. Qed.
Print Assumptions C15_fix_total_refuted.

(* FULL STATEMENT (C15_fix_keeps_unique): a value whose non-empty name no other value carries keeps it.
   REFUTED: inputs x, x, x_1 -> x, x_1, x_1_1. *)
Theorem C15_fix_keeps_unique_refuted :
  exists main vn others v nm,
  let r := name_fix_pass main [] vn (fun _ => None) [] in
  snd r = None /\ vn v = Some nm /\ (forall u, In u others -> vn u <> Some nm) /\ f_vn (fst r) v <> Some nm.
Proof. exists wit_keep_graph, wit_keep_vn, [0; 1], 2, s_x1. exact fix_keeps_unique_refuted. Qed.
Print Assumptions C15_fix_keeps_unique_refuted.

(* FULL STATEMENT (C15_fix_post without a scoping hypothesis): after an Ok run the values within a graph
   have pairwise distinct names.  REFUTED for graphs that are not topologically sorted. *)
Theorem C15_fix_post_unsorted_refuted :
  exists main vn nn u v,
  let r := name_fix_pass main [] vn nn [] in
  snd r = None /\ f_mod (fst r) = false /\ u <> v /\ In u (own_values main) /\ In v (own_values main) /\
  f_vn (fst r) u = f_vn (fst r) v.
Proof.
  exists wit_unsorted_graph, wit_unsorted_vn, wit_unsorted_nn, 1, 4.
  destruct fix_post_unsorted_refuted as [A [B [C [D E]]]]. repeat split; try assumption. discriminate.
Qed.
Print Assumptions C15_fix_post_unsorted_refuted.

(* ===================== (C) rename_values ===================== *)

(* For every well-formed state (initializers keyed by their names, flags consistent: RInv, satisfiable by
   ex_state_RInv) and every assignment - duplicates, swaps, cycles, initializers of several graphs, targets
   equal to names of other initializers, empty targets, mismatched lengths included:
   either the call raises and the state is unchanged, or every pair is applied, all other names are unchanged,
   the state is well-formed again (initializers keyed by their current names), every graph has the same set of
   initializer values, and no flag / owning graph changed. *)
Theorem C15_rename_all_or_nothing :
  forall vs ns s, RInv s ->
  forall s' r, rename_values vs ns s = (s', r) ->
  match r with
  | Raise _ => s' = s
  | Ok _ =>
      (forall v n, In (v, n) (combine vs ns) -> r_vn s' v = Some n) /\
      (forall v, ~ In v vs -> r_vn s' v = r_vn s v) /\
      RInv s' /\
      (forall g u, (exists k, In (k, u) (get_dict g (r_inits s'))) <-> (exists k, In (k, u) (get_dict g (r_inits s)))) /\
      (forall u, r_isinit s' u = r_isinit s u /\ r_vgraph s' u = r_vgraph s u) /\
      same_but s s'
  end.
Proof. exact rename_all_or_nothing. Qed.
Print Assumptions C15_rename_all_or_nothing.

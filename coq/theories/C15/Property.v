(* C15/Property.v — ONLY the property theorems (each closed by a lemma of Proofs*.v) + Print Assumptions.
   Models: C15/Model.v (A: NameAuthority / graph histories, B: NameFixPass, C: rename_values). *)
From Coq Require Import NArith List Bool Lia.
From IRV Require Import Base.Exn C15.Model C15.ProofsA C15.ProofsA2 C15.ProofsB C15.ProofsB2 C15.ProofsB3 C15.ProofsC C15.ProofsC2 C15.ProofsC3.
Import ListNotations.
Open Scope N_scope.

(* ===================== (A) generated names never collide ===================== *)

(* The `while True` candidate loops terminate: with fuel |seen|+1 no call ever runs out of fuel, for
   every history of register calls from every authority state. *)
Theorem C15_gen_fuel_suffices :
  forall ops a, exists a' tr, arun ops a = Some (a', tr) /\ length tr = length ops.
Proof. exact arun_total. Qed.
Print Assumptions C15_gen_fuel_suffices.

(* For every history `pre` of register_or_name_{value,node} calls with arbitrary explicit names
   (val_7-shaped ones included) from any authority a0: a value name generated next is not in the seen
   set before the call, was not seen initially, and differs from every value name registered or
   generated at any earlier call. *)
Theorem C15_fresh :
  forall pre a0 a1 tr a2 s,
  arun pre a0 = Some (a1, tr) -> astep a1 (RegV None) = Some (a2, s) ->
  ~ In s (vnames a1) /\ ~ In s (vnames a0) /\
  (forall i o s', nth_error pre i = Some o -> is_valop o = true -> nth_error tr i = Some s' -> s <> s').
Proof. exact fresh_after_history_value. Qed.
Print Assumptions C15_fresh.

Theorem C15_fresh_node :
  forall pre a0 a1 tr a2 op s,
  arun pre a0 = Some (a1, tr) -> astep a1 (RegN op None) = Some (a2, s) ->
  ~ In s (nnames a1) /\ ~ In s (nnames a0) /\
  (forall i o s', nth_error pre i = Some o -> is_valop o = false -> nth_error tr i = Some s' -> s <> s').
Proof. exact fresh_after_history_node. Qed.
Print Assumptions C15_fresh_node.

(* Seen sets and counters never shrink; every resulting name is recorded in the set of its kind. *)
Theorem C15_monotone :
  forall ops a a' tr, arun ops a = Some (a', tr) ->
  incl (vnames a) (vnames a') /\ incl (nnames a) (nnames a') /\ vc a <= vc a' /\ nc a <= nc a' /\
  (forall i o s, nth_error ops i = Some o -> nth_error tr i = Some s ->
     if is_valop o then In s (vnames a') else In s (nnames a')).
Proof. exact arun_mono. Qed.
Print Assumptions C15_monotone.

(* A non-None name is never changed by registration. *)
Theorem C15_explicit_kept :
  forall a o a' s x, astep a o = Some (a', s) -> explicit_name o = Some x -> s = x.
Proof. exact astep_explicit. Qed.
Print Assumptions C15_explicit_kept.

(* Graph level (Graph(...), append, extend, insert_before, insert_after; also when the call raises half
   way): explicit node/value names are kept, a name given to an unnamed node/value is outside the seen set
   the graph's authority had before the operation and inside it afterwards, seen sets only grow, and the
   authority changed by register calls only - so C15_fresh applies to the graph's whole life. *)
Theorem C15_graph_adding :
  forall g o g1 r, is_adding o = true -> gstep g o = Some (g1, r) -> kept_fresh g g1.
Proof. exact gstep_adding. Qed.
Print Assumptions C15_graph_adding.

Theorem C15_graph_history :
  forall ops g, exists g1, grun ops g = Some g1 /\
  incl (vnames (g_au g)) (vnames (g_au g1)) /\ incl (nnames (g_au g)) (nnames (g_au g1)) /\
  exists calls tr, arun calls (g_au g) = Some (g_au g1, tr).
Proof.
  intros ops g. destruct (grun_total ops g) as [g1 H]. exists g1. split; [exact H|]. apply (grun_auth ops g g1 H).
Qed.
Print Assumptions C15_graph_history.

(* ===================== (B) NameFixPass (the code after fix 25cf9b5: fresh names avoid every name that
   exists in the graph) ===================== *)

(* The `while` loop of _find_and_record_next_unique_name terminates: no run, over any event list from any
   state, ever ends in the model's out-of-fuel marker. *)
Theorem C15_fix_fuel_suffices :
  forall gs s, snd (fix_all gs s) <> Some OtherError.
Proof. exact fix_all_nofuel. Qed.
Print Assumptions C15_fix_fuel_suffices.

(* FULL STATEMENT (C15_fix_total): for every model the pass returns without raising.
   Before 25cf9b5 it was refuted (inputs [w], initializers [w; w_1] -> ValueError); that witness now passes
   (C15_fix_total_witness_fixed).  PROVED (partial): (1) the only exception any run can end with is the
   ValueError of the initializer name guard - never an index error on the scope stacks (the traversal's
   enter/exit events are balanced for every nesting), never out-of-fuel; (2) a model without initializers is
   never rejected.  MISSING for the full statement: that a fresh name (outside the pre-scanned set and the
   current scope) never equals a key created by an earlier rename of the same run; the correspondence and the
   oracle cover it by sampling (no raise observed). *)
Theorem C15_fix_total_partial :
  (forall g vn nn inits m e, snd (fix_graph_names g vn nn inits m) = Some e -> e = ValueError) /\
  (forall main funcs vn nn inits, (forall v, owner_of v inits = None) ->
     snd (name_fix_pass main funcs vn nn inits) = None).
Proof. split; [exact fix_graph_names_only_valueerror | exact name_fix_pass_total_no_inits]. Qed.
Print Assumptions C15_fix_total_partial.

Theorem C15_fix_total_witness_fixed :
  let r := name_fix_pass wit_total_graph [] wit_total_vn (fun _ => None) wit_total_inits in
  snd r = None /\ map (f_vn (fst r)) [0; 1; 2] = [Some s_w; Some [119; 95; 50]; Some s_w1] /\
  f_inits (fst r) = [(0, [(s_w1, 2); ([119; 95; 50], 1)])].
Proof. exact wit_total_now_ok. Qed.
Print Assumptions C15_fix_total_witness_fixed.

(* FULL STATEMENT (C15_fix_keeps_unique): names that were already unique are kept (values and nodes, whole pass).
   Before 25cf9b5 refuted (x, x, x_1 -> x, x_1, x_1_1).  PROVED for the fixed code: in one _fix_graph_names
   run over ANY graph (any nesting, sorted or not, with or without initializers), a value met by the traversal
   (graph input/output, node input/output) whose non-empty name no other value carries has the same name after
   an Ok run.  MISSING: the same for node names (same argument over the node scopes) and for values reachable
   only through an initializer dictionary; composition over the functions of a model. *)
Theorem C15_fix_keeps_unique_partial :
  forall g vn nn inits m v n,
  vn v = Some n -> n <> [] -> (forall w, w <> v -> vn w <> Some n) ->
  In v (ev_values (events_graph g)) ->
  forall s', fix_graph_names g vn nn inits m = (s', None) -> f_vn s' v = Some n.
Proof. exact fix_keeps_unique_value. Qed.
Print Assumptions C15_fix_keeps_unique_partial.

Theorem C15_fix_keeps_unique_witness_fixed :
  let r := name_fix_pass wit_keep_graph [] wit_keep_vn (fun _ => None) [] in
  snd r = None /\ map (f_vn (fst r)) [0; 1; 2] = [Some s_x; Some [120; 95; 50]; Some s_x1].
Proof. exact wit_keep_now_ok. Qed.
Print Assumptions C15_fix_keeps_unique_witness_fixed.

(* FULL STATEMENT (C15_fix_post): after an Ok run every node/value has a non-empty name, value names are
   pairwise distinct within each graph and differ from visible enclosing-scope names, node names are distinct
   per graph, initializers are keyed by their names.  PROVED (partial): the step every clause rests on - one
   _process_value call on an unseen value either raises the initializer guard's ValueError or leaves the value
   with a non-empty name that was NOT in the current scope's used set (which holds the names of everything
   visible), records it there, marks the value seen, changes no other name and nothing else; a changed name
   never equals a name that existed in the graph before the run; a seen value is never touched again.
   MISSING: the assembly over the traversal (per-graph distinctness under the well-scoped hypothesis).
   Without that hypothesis the statement is false: C15_fix_post_unsorted_refuted below. *)
Theorem C15_fix_post_partial :
  forall v s used rest, f_vscopes s = used :: rest ->
  let '(s', e) := process_value v s in
  if memN v (f_seen s) then s' = s /\ e = None else
  match e with
  | Some x => x = ValueError /\ owner_of v (f_inits s) <> None
  | None =>
      exists new, f_vn s' v = Some new /\ new <> [] /\ ~ In new used /\
        f_vscopes s' = (new :: used) :: rest /\ f_seen s' = v :: f_seen s /\
        (forall u, u <> v -> f_vn s' u = f_vn s u) /\ f_nn s' = f_nn s /\ f_nscopes s' = f_nscopes s /\
        (forall n, f_vn s v = Some n -> n <> [] -> ~ In n used -> new = n) /\
        (owner_of v (f_inits s) = None -> f_inits s' = f_inits s) /\
        (f_vn s v <> Some new -> ~ In new (f_rv s)) /\ f_rv s' = f_rv s /\ f_rn s' = f_rn s
  end.
Proof. exact process_value_spec. Qed.
Print Assumptions C15_fix_post_partial.

(* FULL STATEMENT (C15_fix_post without a scoping hypothesis): after an Ok run the values within a graph
   have pairwise distinct names.  REFUTED for graphs that are not topologically sorted. *)
Theorem C15_fix_post_unsorted_refuted :
  exists main vn nn u v,
  let r := name_fix_pass main [] vn nn [] in
  snd r = None /\ f_mod (fst r) = false /\ u <> v /\ In u (own_values main) /\ In v (own_values main) /\
  f_vn (fst r) u = f_vn (fst r) v.
Proof.
  exists wit_unsorted_graph, wit_unsorted_vn, wit_unsorted_nn, 1, 4.
  destruct fix_post_unsorted_refuted as [A [B [C [D E]]]]. repeat split; try assumption. discriminate.
Qed.
Print Assumptions C15_fix_post_unsorted_refuted.

(* ===================== (C) rename_values ===================== *)

(* For every well-formed state (initializers keyed by their names, flags consistent: RInv, satisfiable by
   ex_state_RInv) and every assignment - duplicates, swaps, cycles, initializers of several graphs, targets
   equal to names of other initializers, empty targets, mismatched lengths included:
   either the call raises and the state is unchanged, or every pair is applied, all other names are unchanged,
   the state is well-formed again (initializers keyed by their current names), every graph has the same set of
   initializer values, and no flag / owning graph changed. *)
Theorem C15_rename_all_or_nothing :
  forall vs ns s, RInv s ->
  forall s' r, rename_values vs ns s = (s', r) ->
  match r with
  | Raise _ => s' = s
  | Ok _ =>
      (forall v n, In (v, n) (combine vs ns) -> r_vn s' v = Some n) /\
      (forall v, ~ In v vs -> r_vn s' v = r_vn s v) /\
      RInv s' /\
      (forall g u, (exists k, In (k, u) (get_dict g (r_inits s'))) <-> (exists k, In (k, u) (get_dict g (r_inits s)))) /\
      (forall u, r_isinit s' u = r_isinit s u /\ r_vgraph s' u = r_vgraph s u) /\
      same_but s s'
  end.
Proof. exact rename_all_or_nothing. Qed.
Print Assumptions C15_rename_all_or_nothing.

(* C15/Property.v — ONLY the property theorems (each closed by a lemma of Proofs*.v) + Print Assumptions.
   Models: C15/Model.v (A: NameAuthority / graph histories, B: NameFixPass, C: rename_values). *)
From Coq Require Import NArith List Bool Lia.
From IRV Require Import Gen.C15Gen C15.GenEquiv.
From IRV Require Import Base.Exn C15.Model C15.ProofsA C15.ProofsA2 C15.ProofsA3 C15.ProofsB15 C15.ProofsB C15.ProofsB2 C15.ProofsB3 C15.ProofsC C15.ProofsC2 C15.ProofsC3
  C15.ProofsB4 C15.ProofsB5 C15.ProofsB6 C15.ProofsB7 C15.ProofsB8 C15.ProofsB9 C15.ProofsB10 C15.ProofsB11 C15.ProofsB12 C15.ProofsB13 C15.ProofsB14 C15.ProofsB16 C15.ProofsB17.
Import ListNotations.
Open Scope N_scope.

(* ===================== (A) generated names never collide ===================== *)

(* The `while True` candidate loops terminate: with fuel |seen|+1 no call ever runs out of fuel, for
   every history of register calls from every authority state. *)
Theorem C15_gen_fuel_suffices :
  forall ops a, exists a' tr, arun ops a = Some (a', tr) /\ length tr = length ops.
Proof. exact arun_total. Qed.
Print Assumptions C15_gen_fuel_suffices.

(* For every history `pre` of register_or_name_{value,node} calls with arbitrary explicit names
   (val_7-shaped ones included) from any authority a0: a value name generated next is not in the seen
   set before the call, was not seen initially, and differs from every value name registered or
   generated at any earlier call. *)
Theorem C15_fresh :
  forall pre a0 a1 tr a2 s,
  arun pre a0 = Some (a1, tr) -> astep a1 (RegV None) = Some (a2, s) ->
  ~ In s (vnames a1) /\ ~ In s (vnames a0) /\
  (forall i o s', nth_error pre i = Some o -> is_valop o = true -> nth_error tr i = Some s' -> s <> s').
Proof. exact fresh_after_history_value. Qed.
Print Assumptions C15_fresh.

Theorem C15_fresh_node :
  forall pre a0 a1 tr a2 op s,
  arun pre a0 = Some (a1, tr) -> astep a1 (RegN op None) = Some (a2, s) ->
  ~ In s (nnames a1) /\ ~ In s (nnames a0) /\
  (forall i o s', nth_error pre i = Some o -> is_valop o = false -> nth_error tr i = Some s' -> s <> s').
Proof. exact fresh_after_history_node. Qed.
Print Assumptions C15_fresh_node.

(* Seen sets and counters never shrink; every resulting name is recorded in the set of its kind. *)
Theorem C15_monotone :
  forall ops a a' tr, arun ops a = Some (a', tr) ->
  incl (vnames a) (vnames a') /\ incl (nnames a) (nnames a') /\ vc a <= vc a' /\ nc a <= nc a' /\
  (forall i o s, nth_error ops i = Some o -> nth_error tr i = Some s ->
     if is_valop o then In s (vnames a') else In s (nnames a')).
Proof. exact arun_mono. Qed.
Print Assumptions C15_monotone.

(* A non-None name is never changed by registration. *)
Theorem C15_explicit_kept :
  forall a o a' s x, astep a o = Some (a', s) -> explicit_name o = Some x -> s = x.
Proof. exact astep_explicit. Qed.
Print Assumptions C15_explicit_kept.

(* Graph level (Graph(...), append, extend, insert_before, insert_after; also when the call raises half
   way): explicit node/value names are kept, a name given to an unnamed node/value is outside the seen set
   the graph's authority had before the operation and inside it afterwards, seen sets only grow, and the
   authority changed by register calls only - so C15_fresh applies to the graph's whole life. *)
Theorem C15_graph_adding :
  forall g o g1 r, is_adding o = true -> gstep g o = Some (g1, r) -> kept_fresh g g1.
Proof. exact gstep_adding. Qed.
Print Assumptions C15_graph_adding.

Theorem C15_graph_history :
  forall ops g, exists g1, grun ops g = Some g1 /\
  incl (vnames (g_au g)) (vnames (g_au g1)) /\ incl (nnames (g_au g)) (nnames (g_au g1)) /\
  exists calls tr, arun calls (g_au g) = Some (g_au g1, tr).
Proof.
  intros ops g. destruct (grun_total ops g) as [g1 H]. exists g1. split; [exact H|]. apply (grun_auth ops g g1 H).
Qed.
Print Assumptions C15_graph_history.

(* The same at graph level without the authority's internals.  The LOG of a history (ProofsA3.grun_log) is every
   name the graph registered or assigned so far: the names, after the call, of the inputs and initializers given to
   Graph(...) and of the nodes and node outputs given to a successful append/extend/insert.  For EVERY history from
   the empty state (renames, removals, re-adds, failing calls included) and every next adding call: a name given to
   an object that had none is not in the log, and explicit names are kept.  (Names the user sets on objects that
   are already in the graph are not registered until the object is added again: outside the property's "registered
   or assigned".) *)
Theorem C15_graph_fresh_log :
  forall pre o g lg g1 r,
  grun_log pre g0 ([], []) = Some (g, lg) -> is_adding o = true -> gstep g o = Some (g1, r) ->
  (forall v s, g_vname g v = None -> g_vname g1 v = Some s -> ~ In s (fst lg)) /\
  (forall n s, g_nname g n = None -> g_nname g1 n = Some s -> ~ In s (snd lg)) /\
  (forall v x, g_vname g v = Some x -> g_vname g1 v = Some x) /\
  (forall n x, g_nname g n = Some x -> g_nname g1 n = Some x).
Proof. exact graph_fresh_log. Qed.
Print Assumptions C15_graph_fresh_log.

(* non-vacuity: every history has a log (no out-of-fuel), e.g. a graph built with an unnamed input and an
   initializer w, then a node with two unnamed outputs *)
Example ex_log :
  (forall ops g lg, exists g1 lg1, grun_log ops g lg = Some (g1, lg1)) /\
  exists g lg, grun_log [GNewValue 0 (Some [119]); GNewValue 1 None; GCtor [1] [0];
                         GNewNode 0 None [65] [(2, None); (3, None)] false; GAdd [0]] g0 ([], []) = Some (g, lg) /\
               map (g_vname g) [0; 1; 2; 3] = [Some [119]; Some (val_name 0); Some (val_name 1); Some (val_name 2)] /\
               length (fst lg) = 4%nat.
Proof. split; [exact grun_log_total|]. eexists. eexists. vm_compute. repeat split; reflexivity. Qed.

(* C15_ctor_generated_equals_present (the STRONGER reading: a generated name never equals a name present in the
   graph being built): since fix f54d66f Graph(inputs, initializers) registers every explicit name before it names
   the unnamed inputs, so a name given to an unnamed input differs from the explicit name of every input and
   initializer of that graph - from any authority state.  (Before the fix this was refuted: an unnamed input of a
   graph built with an initializer val_0 was named val_0; the witness below now gets val_1.) *)
Theorem C15_ctor_generated_equals_present :
  forall g ins inits g2 r v s w x,
  gstep g (GCtor ins inits) = Some (g2, r) ->
  g_vname g v = None -> g_vname g2 v = Some s ->
  In w (ins ++ inits) -> g_vname g w = Some x -> s <> x.
Proof. exact ctor_generated_not_present. Qed.
Print Assumptions C15_ctor_generated_equals_present.

Example ex_ctor_witness_fixed :
  exists g, grun [GNewValue 0 (Some (val_name 0)); GNewValue 1 None; GCtor [1] [0]] g0 = Some g /\
            g_vname g 1 = Some (val_name 1) /\ g_vname g 0 = Some (val_name 0).
Proof. eexists. vm_compute. repeat split; reflexivity. Qed.

(* ---- the hand models of the naming primitives EQUAL the per-run translation of the Python sources.
   Gen/C15Gen.v is regenerated on every run by a fail-closed statement-by-statement ast -> Gallina translator
   (harness/props/c15.py: translate_c15) from _name_authority.py and naming.py; these theorems are re-checked against
   it, so an edit of one of the five functions either changes the generated definitions and breaks the equality, or
   leaves the translatable subset and is rejected - either way a broken obligation, followed by the oracle search. *)
Theorem C15_gen_register_value :
  forall a o,
  py_register_or_name_value (S (length (vnames a))) (vc a) (vnames a) o =
  match astep a (RegV o) with
  | None => None
  | Some (a', s) => Some (tt, (vc a', vnames a', Some s))
  end /\
  (forall a' s, astep a (RegV o) = Some (a', s) -> nc a' = nc a /\ nnames a' = nnames a).
Proof. exact py_register_or_name_value_eq. Qed.
Print Assumptions C15_gen_register_value.

Theorem C15_gen_register_node :
  forall a op o,
  py_register_or_name_node (S (length (nnames a))) (nc a) (nnames a) o op =
  match astep a (RegN op o) with
  | None => None
  | Some (a', s) => Some (tt, (nc a', nnames a', Some s))
  end /\
  (forall a' s, astep a (RegN op o) = Some (a', s) -> vc a' = vc a /\ vnames a' = vnames a).
Proof. exact py_register_or_name_node_eq. Qed.
Print Assumptions C15_gen_register_node.

Theorem C15_gen_find_and_record :
  forall pref used cnt rsv,
  py_find_and_record_next_unique_name (S (S (length (used ++ rsv)))) pref used cnt rsv =
  match find_unique pref used cnt rsv with
  | None => None
  | Some (s, used', cnt') => Some (s, (used', cnt'))
  end.
Proof. exact py_find_and_record_eq. Qed.
Print Assumptions C15_gen_find_and_record.

(* the naming decision of NameFixPass for one value / one node - SimpleNameGenerator.generate_*_name,
   _assign_*_name, _fix_duplicate_*_name behind the dispatch `if not x.name`, down to
   _find_and_record_next_unique_name - as translated from naming.py equals GenEquiv.decide, and the hand models
   process_value / process_node_name are exactly that decision (followed, for a value, by the hand-modelled
   Value.name setter on the requested name) *)
Theorem C15_gen_value_decision :
  forall nm used cnt rsv,
  (if is_empty nm then py_assign_value_name (S (S (length (used ++ rsv)))) nm used cnt rsv
   else py_fix_duplicate_value_name (S (S (length (used ++ rsv)))) nm used cnt rsv) =
  pack (decide s_v nm used cnt rsv).
Proof. exact py_value_decision_eq. Qed.
Print Assumptions C15_gen_value_decision.

Theorem C15_gen_node_decision :
  forall nm used cnt rsv,
  (if is_empty nm then py_assign_node_name (S (S (length (used ++ rsv)))) nm used cnt rsv
   else py_fix_duplicate_node_name (S (S (length (used ++ rsv)))) nm used cnt rsv) =
  pack (decide s_node nm used cnt rsv).
Proof. exact py_node_decision_eq. Qed.
Print Assumptions C15_gen_node_decision.

Theorem C15_gen_process_value :
  forall v s,
  process_value v s =
  if memN v (f_seen s) then (s, None) else
  match f_vscopes s with
  | [] => (s, Some IndexError)
  | used :: rest =>
      match decide s_v (f_vn s v) used (f_vcnt s) (f_rv s) with
      | None => (s, Some OtherError)
      | Some (false, _, used', _) =>
          (mkF (f_own s) (f_so s) (f_vx s) (f_nx s) (f_rv s) (f_rn s) (f_vn s) (f_nn s) (f_inits s) (v :: f_seen s) (f_vcnt s)
               (f_ncnt s) (used' :: rest) (f_nscopes s) (f_mod s), None)
      | Some (true, Some new, used', cnt') =>
          match set_vname v new (f_vn s) (f_inits s) with
          | Raise e =>
              (mkF (f_own s) (f_so s) (f_vx s) (f_nx s) (f_rv s) (f_rn s) (f_vn s) (f_nn s) (f_inits s) (f_seen s) cnt'
                   (f_ncnt s) (used' :: rest) (f_nscopes s) (f_mod s), Some e)
          | Ok (vn', inits') =>
              (mkF (f_own s) (f_so s) (f_vx s) (f_nx s) (f_rv s) (f_rn s) vn' (f_nn s) inits' (v :: f_seen s) cnt'
                   (f_ncnt s) (used' :: rest) (f_nscopes s) true, None)
          end
      | Some (true, None, _, _) => (s, Some OtherError)
      end
  end.
Proof. exact process_value_decide. Qed.
Print Assumptions C15_gen_process_value.

Theorem C15_gen_process_node_name :
  forall m s,
  process_node_name m s =
  match f_nscopes s with
  | [] => (s, Some IndexError)
  | used :: rest =>
      match decide s_node (f_nn s m) used (f_ncnt s) (f_rn s) with
      | None => (s, Some OtherError)
      | Some (false, _, used', _) =>
          (mkF (f_own s) (f_so s) (f_vx s) (f_nx s) (f_rv s) (f_rn s) (f_vn s) (f_nn s) (f_inits s) (f_seen s) (f_vcnt s)
               (f_ncnt s) (f_vscopes s) (used' :: rest) (f_mod s), None)
      | Some (true, nm', used', cnt') =>
          (mkF (f_own s) (f_so s) (f_vx s) (f_nx s) (f_rv s) (f_rn s) (f_vn s) (upd (f_nn s) m nm') (f_inits s) (f_seen s)
               (f_vcnt s) cnt' (f_vscopes s) (used' :: rest) true, None)
      end
  end.
Proof. exact process_node_name_decide. Qed.
Print Assumptions C15_gen_process_node_name.

(* ===================== (B) NameFixPass (the code after fix 25cf9b5: fresh names avoid every name that
   exists in the graph).  Hypotheses used below:
     WF0 vn inits       the part of the C01 invariant the pass relies on (clause I5): every initializer dictionary
                        is keyed by the names of its values, keys are distinct and non-empty, a value is in at most
                        one dictionary, graph ids are distinct;
     closed_run es inits every initializer the traversal meets belongs to a graph the traversal enters (true of
                        every valid model: function bodies are closed; needed: C15_fix_total_unclosed_refuted);
     well_scoped2 ow es inits every value is first met in the scope of its graph, of an enclosing graph, or - since
                        fix 5fabe37 - of a graph nested in its owner (a capture from an ENCLOSING graph, in any order,
                        e.g. an unsorted graph); only captures from graphs whose scope is not open (siblings) are
                        excluded.  A name-free property of the traversal and the ownership map `ow` = Value.graph
                        (a hypothesis of this kind is needed: C15_fix_post_sibling_refuted);
     NoDup (ev_nodes es) no node is visited twice (no subgraph object shared by two attributes). ================ *)

(* The `while` loop of _find_and_record_next_unique_name terminates: no run, over any event list from any
   state, ever ends in the model's out-of-fuel marker. *)
Theorem C15_fix_fuel_suffices :
  forall gs s, snd (fix_all gs s) <> Some OtherError.
Proof. exact fix_all_nofuel. Qed.
Print Assumptions C15_fix_fuel_suffices.

(* C15_fix_total: on well-formed, closed models the pass (main graph, then every function) never raises;
   the state it returns is well-formed again (initializers keyed by their current names) and every graph has
   exactly the initializer values it had.  Invariant behind it (ProofsB4.TInv): in every entered graph a key is
   the value's original name (and then pre-scanned) or <original name>_<j>; a fresh name is outside the
   pre-scanned set and is <own original name>_<j>, and _-suffixing is injective in both arguments. *)
Theorem C15_fix_total :
  forall main funcs own vx nx vn nn inits,
  WF0 vn inits -> (forall g, In g (main :: funcs) -> closed_run (events_graph g) inits) ->
  let r := name_fix_pass main funcs own vx nx vn nn inits in
  snd r = None /\ WF0 (f_vn (fst r)) (f_inits (fst r)) /\ mem_equiv (f_inits (fst r)) inits.
Proof. exact name_fix_pass_total. Qed.
Print Assumptions C15_fix_total.

(* without closedness the statement is false on the code as it exists: a function body reading an initializer
   `a` of the main graph whose initializers are a, a_1 (not valid ONNX) -> ValueError.  Known finding. *)
Theorem C15_fix_total_unclosed_refuted :
  exists main funcs vn nn inits,
  snd (name_fix_pass main funcs (fun _ => None) (fun _ => 0) (fun _ => 0) vn nn inits) = Some ValueError.
Proof. do 5 eexists. exact fix_total_unclosed_refuted. Qed.
Print Assumptions C15_fix_total_unclosed_refuted.

(* the witness that refuted totality before 25cf9b5 *)
Theorem C15_fix_total_witness_fixed :
  let r := name_fix_pass wit_total_graph [] (fun _ => None) (fun _ => 0) (fun _ => 0) wit_total_vn (fun _ => None) wit_total_inits in
  snd r = None /\ map (f_vn (fst r)) [0; 1; 2] = [Some s_w; Some [119; 95; 50]; Some s_w1] /\
  f_inits (fst r) = [(0, [(s_w1, 2); ([119; 95; 50], 1)])].
Proof. exact wit_total_now_ok. Qed.
Print Assumptions C15_fix_total_witness_fixed.

(* C15_fix_post, for one _fix_graph_names run over any nesting (g is the main graph or a function body):
   the run does not raise; every value and node it meets has a non-empty name; for EVERY graph h nested in g
   (h = g included) the values within h (inputs, initializers, outputs of its nodes) together with the visible
   values of the enclosing graphs (`vis`: their inputs, initializers and node outputs up to and including the
   enclosing node) carry pairwise distinct names; the nodes of every h carry pairwise distinct names;
   initializers are keyed by their current names (WF0 of the final state). *)
Theorem C15_fix_post :
  forall g ow vx nx vn nn inits m,
  WF0 vn inits -> closed_run (events_graph g) inits -> NoDup (ev_nodes (events_graph g)) ->
  well_scoped2 ow (events_graph g) inits ->
  let r := fix_graph_names g ow vx nx vn nn inits m in
  let s' := fst r in
  snd r = None /\
  (forall v, run_vals (events_graph g) inits v -> exists x, f_vn s' v = Some x /\ x <> []) /\
  (forall a, In a (ev_nodes (events_graph g)) -> exists x, f_nn s' a = Some x /\ x <> []) /\
  (forall vis h, nested (dv inits) [] g vis h ->
     forall v w, In v (vis ++ own (dv inits) h) -> In w (vis ++ own (dv inits) h) -> v <> w -> f_vn s' v <> f_vn s' w) /\
  (forall h, sub_of g h -> forall a b, In a (own_nodes h) -> In b (own_nodes h) -> a <> b -> f_nn s' a <> f_nn s' b) /\
  WF0 (f_vn s') (f_inits s').
Proof. exact fix_post_graph2. Qed.
Print Assumptions C15_fix_post.

(* the hypotheses are satisfiable by a nested graph with duplicated and missing names (and the unsorted witness
   below is exactly a graph that is not well_scoped) *)
Definition ex_sorted : graph :=
  Graph 0 false [0] [3] [Node 2 [Some 0] [1] []; Node 0 [Some 0] [3] [Graph 1 false [5] [2] [Node 1 [Some 1; Some 5] [2] []]];
                         Node 3 [Some 1] [4] []].
Definition ex_sorted_own := of_alist None [(0, Some 0); (1, Some 0); (3, Some 0); (4, Some 0); (5, Some 1); (2, Some 1)].
Example ex_sorted_hyps :
  WF0 (fun _ => Some s_x) [] /\ closed_run (events_graph ex_sorted) [] /\ NoDup (ev_nodes (events_graph ex_sorted)) /\
  well_scoped2 ex_sorted_own (events_graph ex_sorted) [] /\
  (* the unsorted outer capture IS admitted since the hypothesis was weakened ... *)
  well_scoped2 wit_unsorted_own (events_graph wit_unsorted_graph) [] /\
  (* ... the sibling capture is not *)
  ~ well_scoped2 wit_sibling_own (events_graph wit_sibling_graph) [].
Proof.
  split; [constructor; simpl; [constructor | intros g k v [] | intros g; constructor | intros g1 g2 k1 k2 v []]|].
  split; [intros w _ g k []|].
  split; [vm_compute; repeat constructor; simpl; intuition discriminate|].
  split; [vm_compute; reflexivity|]. split; [vm_compute; reflexivity | vm_compute; discriminate].
Qed.

(* The unsorted outer capture that refuted C15_fix_post before fix 5fabe37 (a subgraph reads an outer value produced
   by a later node; two outputs of the outer graph kept the name y, modified = false): the captured value's name is
   now recorded in the scope of the graph that owns it, and the later y becomes y_1.  (That witness satisfies well_scoped2:
   it is covered by C15_fix_post, see ex_sorted_hyps.) *)
Theorem C15_fix_post_unsorted_witness_fixed :
  let r := name_fix_pass wit_unsorted_graph [] wit_unsorted_own (fun _ => 0) (fun _ => 0) wit_unsorted_vn wit_unsorted_nn [] in
  snd r = None /\ f_mod (fst r) = true /\
  map (f_vn (fst r)) [0; 1; 2; 3; 4] = [Some [99]; Some s_y; Some [105]; Some [102]; Some [121; 95; 49]].
Proof. exact wit_unsorted_now_ok. Qed.
Print Assumptions C15_fix_post_unsorted_witness_fixed.

(* A scoping hypothesis is still needed on the code as it exists: a subgraph that reads a value owned by a SIBLING
   subgraph (not valid ONNX) - the owner's scope is not open at the first visit, so nothing can be recorded, and two
   values of the sibling keep the same name with modified = false.  Known finding namefix-sibling-capture. *)
Theorem C15_fix_post_sibling_refuted :
  exists main ow vn nn u v,
  let r := name_fix_pass main [] ow (fun _ => 0) (fun _ => 0) vn nn [] in
  snd r = None /\ f_mod (fst r) = false /\ u <> v /\ ow u = ow v /\ f_vn (fst r) u = f_vn (fst r) v.
Proof.
  exists wit_sibling_graph, wit_sibling_own, wit_sibling_vn, wit_sibling_nn, 2, 4.
  destruct fix_post_sibling_refuted as [A [B C]]. repeat split; try assumption. discriminate.
Qed.
Print Assumptions C15_fix_post_sibling_refuted.

(* READING of "visible": C15_fix_post takes ONNX lexical scoping (what onnx.checker enforces and onnxruntime accepts):
   from a subgraph the enclosing graph's inputs, initializers and the outputs of its nodes UP TO the enclosing node
   are visible (`vis`).  Under the stronger reading "every value of an enclosing graph, also those defined by later
   nodes" the statement is false on the code as it exists, on a sorted well-scoped model: an unnamed value inside an
   If branch and an unnamed output of a later node of the enclosing graph both get the unsuffixed name v (the shared
   counter protects suffixed names only).  The serialized model passes onnx.checker(full_check) and runs in
   onnxruntime; recorded as a note, not a finding. *)
Theorem C15_fix_post_later_outer_refuted :
  exists main ow vn nn u v,
  let es := events_graph main in
  let r := name_fix_pass main [] ow (fun _ => 0) (fun _ => 0) vn nn [] in
  well_scoped es [] /\ snd r = None /\ u <> v /\ f_vn (fst r) u = f_vn (fst r) v /\ f_vn (fst r) u = Some s_v.
Proof.
  exists wit_later_graph, wit_later_own, wit_later_vn, wit_later_nn, 2, 3.
  destruct fix_post_later_outer_refuted as [A [B C]].
  split; [vm_compute; reflexivity|]. split; [exact A|]. split; [discriminate|]. split; [congruence | exact B].
Qed.
Print Assumptions C15_fix_post_later_outer_refuted.

(* C15_fix_never_worse: one _fix_graph_names run over ANY graph and ANY scoping (no well_scoped, no closed_run,
   no WF0 hypothesis; only that this run did not raise): a value whose name the run changes gets a name that no
   value met by the run carried before; so two values met by the run that carry the same non-empty name afterwards
   either both kept their (already equal) names or were both renamed (in different scopes).  In particular the
   duplicate left by the known finding namefix-sibling-capture existed before the pass. *)
Theorem C15_fix_never_worse :
  forall g own vx nx vn nn inits m s',
  fix_graph_names g own vx nx vn nn inits m = (s', None) ->
  (forall v w x, f_vn s' v = Some x -> x <> [] -> f_vn s' v <> vn v ->
     In w (ev_values (events_graph g)) -> vn w <> Some x) /\
  (forall v w x, In v (ev_values (events_graph g)) -> In w (ev_values (events_graph g)) ->
     f_vn s' v = Some x -> f_vn s' w = Some x -> x <> [] ->
     (f_vn s' v = vn v /\ f_vn s' w = vn w) \/ (f_vn s' v <> vn v /\ f_vn s' w <> vn w)).
Proof. exact fix_never_worse. Qed.
Print Assumptions C15_fix_never_worse.

(* C15_fix_keeps_unique, whole pass, values: the graphs of the model meet pairwise disjoint sets of values, the
   value is met by graph g (as graph input/output, node input/output or only through an initializer dictionary)
   and no other value met by g carries its non-empty name: it keeps that name. *)
Theorem C15_fix_keeps_unique :
  forall l1 g l2 own vx nx vn nn inits v n main funcs,
  main :: funcs = l1 ++ g :: l2 ->
  WF0 vn inits -> (forall g', In g' (main :: funcs) -> closed_run (events_graph g') inits) ->
  vn v = Some n -> n <> [] -> run_vals (events_graph g) inits v ->
  (forall w, w <> v -> run_vals (events_graph g) inits w -> vn w <> Some n) ->
  (forall g' w, In g' (l1 ++ l2) -> run_vals (events_graph g) inits w -> ~ run_vals (events_graph g') inits w) ->
  f_vn (fst (name_fix_pass main funcs own vx nx vn nn inits)) v = Some n.
Proof. exact pass_keeps_unique_value. Qed.
Print Assumptions C15_fix_keeps_unique.

(* ... and node names *)
Theorem C15_fix_keeps_unique_node :
  forall l1 g l2 own vx nx vn nn inits a n main funcs,
  main :: funcs = l1 ++ g :: l2 ->
  WF0 vn inits -> (forall g', In g' (main :: funcs) -> closed_run (events_graph g') inits) ->
  NoDup (ev_nodes (events_graph g)) ->
  nn a = Some n -> n <> [] -> In a (ev_nodes (events_graph g)) ->
  (forall b, b <> a -> In b (ev_nodes (events_graph g)) -> nn b <> Some n) ->
  (forall g' b, In g' (l1 ++ l2) -> In b (ev_nodes (events_graph g)) -> ~ In b (ev_nodes (events_graph g'))) ->
  f_nn (fst (name_fix_pass main funcs own vx nx vn nn inits)) a = Some n.
Proof. exact pass_keeps_unique_node. Qed.
Print Assumptions C15_fix_keeps_unique_node.

(* the disjointness hypothesis is needed on the code as it exists: a function body that reads an initializer of
   the main graph (not valid ONNX).  Known finding. *)
Theorem C15_fix_keeps_unique_shared_refuted :
  exists main funcs vn nn inits others v nm,
  let r := name_fix_pass main funcs (fun _ => None) (fun _ => 0) (fun _ => 0) vn nn inits in
  snd r = None /\ vn v = Some nm /\ (forall u, In u others -> vn u <> Some nm) /\ f_vn (fst r) v <> Some nm.
Proof.
  exists wit_shared_main, [wit_shared_func], wit_shared_vn, wit_shared_nn, wit_shared_inits, [0; 1], 2, s_x1.
  exact fix_keeps_unique_shared_refuted.
Qed.
Print Assumptions C15_fix_keeps_unique_shared_refuted.

(* the witness that refuted it before 25cf9b5 *)
Theorem C15_fix_keeps_unique_witness_fixed :
  let r := name_fix_pass wit_keep_graph [] (fun _ => None) (fun _ => 0) (fun _ => 0) wit_keep_vn (fun _ => None) [] in
  snd r = None /\ map (f_vn (fst r)) [0; 1; 2] = [Some s_x; Some [120; 95; 50]; Some s_x1].
Proof. exact wit_keep_now_ok. Qed.
Print Assumptions C15_fix_keeps_unique_witness_fixed.

(* C15_fix_only_names: the model state carries, beside the names, an opaque payload per value and per node
   (everything the implementation stores there that is not a name; the tie feeds it from the implementation and
   compares it afterwards).  For every model and whatever the outcome, Ok or Raise, the payloads are unchanged;
   on well-formed closed models every graph keeps exactly its initializer values. *)
Theorem C15_fix_only_names :
  forall main funcs own vx nx vn nn inits,
  let r := name_fix_pass main funcs own vx nx vn nn inits in
  f_vx (fst r) = vx /\ f_nx (fst r) = nx /\
  (WF0 vn inits -> (forall g, In g (main :: funcs) -> closed_run (events_graph g) inits) ->
     mem_equiv (f_inits (fst r)) inits).
Proof. exact fix_only_names. Qed.
Print Assumptions C15_fix_only_names.

(* ===================== (C) rename_values ===================== *)

(* For every well-formed state (initializers keyed by their names, flags consistent: RInv, satisfiable by
   ex_state_RInv) and every assignment - duplicates, swaps, cycles, initializers of several graphs, targets
   equal to names of other initializers, empty targets, mismatched lengths included:
   either the call raises and the state is unchanged, or every pair is applied, all other names are unchanged,
   the state is well-formed again (initializers keyed by their current names), every graph has the same set of
   initializer values, and no flag / owning graph changed (same_but includes r_const: whether a value has a tensor.
   RInv does not mention it, so PENDING initializers - registered without const_value - are covered; ex_state has one). *)
Theorem C15_rename_all_or_nothing :
  forall vs ns s, RInv s ->
  forall s' r, rename_values vs ns s = (s', r) ->
  match r with
  | Raise _ => s' = s
  | Ok _ =>
      (forall v n, In (v, n) (combine vs ns) -> r_vn s' v = Some n) /\
      (forall v, ~ In v vs -> r_vn s' v = r_vn s v) /\
      RInv s' /\
      (forall g u, (exists k, In (k, u) (get_dict g (r_inits s'))) <-> (exists k, In (k, u) (get_dict g (r_inits s)))) /\
      (forall u, r_isinit s' u = r_isinit s u /\ r_vgraph s' u = r_vgraph s u) /\
      same_but s s'
  end.
Proof. exact rename_all_or_nothing. Qed.
Print Assumptions C15_rename_all_or_nothing.

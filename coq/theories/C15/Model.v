(* C15/Model.v — executable models (definitions only) of the three naming mechanisms of onnx_ir.

   (A) _name_authority.NameAuthority + its use from Graph.__init__/append/extend/insert_*
       (_core.py Graph._set_node_graph_to_self_and_assign_names)                      -> auth, astep, gstep
   (B) passes/common/naming.py NameFixPass over traversal.RecursiveGraphIterator      -> events, fx_run
       (scope stacks, seen_values, counters, _find_and_record_next_unique_name, Value.name setter
        with initializer re-keying)
   (C) _convenience.rename_values                                                      -> rename_values

   Names are lists of code points (list N); None is option.  Every loop of the code that is a
   `while True` / `while name in used` is modelled with explicit fuel |seen|+1 and returns an
   explicit out-of-fuel marker (None, resp. Some OtherError); Proofs show the marker never occurs. *)
From Coq Require Import NArith List Bool Decimal DecimalN.
From IRV Require Import Base.Exn.
Import ListNotations.
Open Scope N_scope.

(* ------------------------------------------------------------------ names *)
Definition name := list N.
Definition name_eqb (a b : name) : bool := list_eqb N.eqb a b.
Definition mem (x : name) (l : list name) : bool := existsb (name_eqb x) l.
Definition memN (x : N) (l : list N) : bool := existsb (N.eqb x) l.
(* set.add *)
Definition sadd (x : name) (l : list name) : list name := if mem x l then l else x :: l.

(* str(int): decimal printing, through the standard library's N.to_uint *)
Fixpoint digits (u : uint) : name :=
  match u with
  | Nil => []
  | D0 u => 48 :: digits u | D1 u => 49 :: digits u | D2 u => 50 :: digits u
  | D3 u => 51 :: digits u | D4 u => 52 :: digits u | D5 u => 53 :: digits u
  | D6 u => 54 :: digits u | D7 u => 55 :: digits u | D8 u => 56 :: digits u
  | D9 u => 57 :: digits u
  end.
Definition dec (n : N) : name := digits (N.to_uint n).

Definition s_val_ : name := [118; 97; 108; 95].            (* "val_" *)
Definition s_node_ : name := [110; 111; 100; 101; 95].      (* "node_" *)
Definition s_us : name := [95].                             (* "_" *)
Definition s_v : name := [118].                             (* "v" *)
Definition s_node : name := [110; 111; 100; 101].           (* "node" *)

Definition val_name (k : N) : name := s_val_ ++ dec k.                       (* f"val_{k}" *)
Definition node_name (op : name) (k : N) : name := s_node_ ++ op ++ s_us ++ dec k.  (* f"node_{op}_{k}" *)
Definition suffixed (base : name) (k : N) : name := base ++ s_us ++ dec k.   (* f"{base}_{k}" *)

(* The candidate loop shared by NameAuthority._unique_*_name and _find_and_record_next_unique_name:
   try mk k, mk (k+1), ... until one is not in `seen`; returns the name and the index that produced it. *)
Fixpoint gen_loop (fuel : nat) (mk : N -> name) (k : N) (seen : list name) : option (name * N) :=
  match fuel with
  | O => None
  | S f => if mem (mk k) seen then gen_loop f mk (N.succ k) seen else Some (mk k, k)
  end.
Definition gen_fresh (mk : N -> name) (k : N) (seen : list name) : option (name * N) :=
  gen_loop (S (length seen)) mk k seen.

(* ================================================================== (A) NameAuthority *)
Record auth := mkAuth { vc : N; nc : N; vnames : list name; nnames : list name }.
Definition auth0 : auth := mkAuth 0 0 [] [].

Inductive aop :=
| RegV (o : option name)                 (* register_or_name_value on a value whose .name is o *)
| RegN (op : name) (o : option name).    (* register_or_name_node on a node with op_type op, .name o *)

(* one call; result: new authority and the name the object has afterwards; None = out of fuel *)
Definition astep (a : auth) (o : aop) : option (auth * name) :=
  match o with
  | RegV (Some s) => Some (mkAuth (vc a) (nc a) (sadd s (vnames a)) (nnames a), s)
  | RegV None =>
      match gen_fresh val_name (vc a) (vnames a) with
      | None => None
      | Some (s, j) => Some (mkAuth (N.succ j) (nc a) (sadd s (vnames a)) (nnames a), s)
      end
  | RegN op (Some s) => Some (mkAuth (vc a) (nc a) (vnames a) (sadd s (nnames a)), s)
  | RegN op None =>
      match gen_fresh (node_name op) (nc a) (nnames a) with
      | None => None
      | Some (s, j) => Some (mkAuth (vc a) (N.succ j) (vnames a) (sadd s (nnames a)), s)
      end
  end.

Fixpoint arun (ops : list aop) (a : auth) : option (auth * list name) :=
  match ops with
  | [] => Some (a, [])
  | o :: r =>
      match astep a o with
      | None => None
      | Some (a1, s) =>
          match arun r a1 with
          | None => None
          | Some (a2, tr) => Some (a2, s :: tr)
          end
      end
  end.

(* ---- the graph-level history language (one ir.Graph; nodes/values identified by handles) *)
Definition upd {A} (f : N -> A) (k : N) (x : A) : N -> A := fun i => if N.eqb i k then x else f i.

Record gst := mkG {
  g_au : auth;
  g_nname : N -> option name;     (* Node.name *)
  g_nop : N -> name;              (* Node.op_type *)
  g_nouts : N -> list N;          (* Node.outputs (value handles) *)
  g_foreign : N -> bool;          (* node.graph is another graph *)
  g_in : N -> bool;               (* node.graph is this graph *)
  g_vname : N -> option name      (* Value.name *)
}.
Definition g0 : gst := mkG auth0 (fun _ => None) (fun _ => []) (fun _ => []) (fun _ => false)
                           (fun _ => false) (fun _ => None).

Inductive gop :=
| GNewValue (v : N) (nm : option name)
| GCtor (ins inits : list N)                      (* Graph(inputs, ..., initializers), since fix f54d66f: the explicit
                                                     names of inputs and initializers are registered first, then every
                                                     input is registered or named *)
| GNewNode (n : N) (nm : option name) (op : name) (outs : list (N * option name)) (foreign : bool)
| GAdd (ns : list N)                              (* append / extend / insert_before / insert_after *)
| GRemove (n : N)
| GSetNodeName (n : N) (nm : option name)
| GSetValueName (v : N) (nm : option name).

Definition with_au (g : gst) (a : auth) : gst :=
  mkG a (g_nname g) (g_nop g) (g_nouts g) (g_foreign g) (g_in g) (g_vname g).

(* register_or_name_value(value v) *)
Definition g_regv (g : gst) (v : N) : option gst :=
  match astep (g_au g) (RegV (g_vname g v)) with
  | None => None
  | Some (a, s) => Some (mkG a (g_nname g) (g_nop g) (g_nouts g) (g_foreign g) (g_in g) (upd (g_vname g) v (Some s)))
  end.
Fixpoint g_regvs (g : gst) (vs : list N) : option gst :=
  match vs with
  | [] => Some g
  | v :: r => match g_regv g v with None => None | Some g1 => g_regvs g1 r end
  end.
(* _set_node_graph_to_self_and_assign_names(node n); Raise ValueError before any naming if foreign *)
Definition g_addnode (g : gst) (n : N) : option (gst * res unit) :=
  if g_foreign g n then Some (g, Raise ValueError) else
  match astep (g_au g) (RegN (g_nop g n) (g_nname g n)) with
  | None => None
  | Some (a, s) =>
      let g1 := mkG a (upd (g_nname g) n (Some s)) (g_nop g) (g_nouts g) (g_foreign g) (g_in g) (g_vname g) in
      match g_regvs g1 (g_nouts g n) with
      | None => None
      | Some g2 => Some (mkG (g_au g2) (g_nname g2) (g_nop g2) (g_nouts g2) (g_foreign g2) (upd (g_in g2) n true) (g_vname g2), Ok tt)
      end
  end.
Fixpoint g_addnodes_go (g : gst) (ns : list N) : option (gst * res unit) :=
  match ns with
  | [] => Some (g, Ok tt)
  | n :: r =>
      match g_addnode g n with
      | None => None
      | Some (g1, Raise e) => Some (g1, Raise e)
      | Some (g1, Ok _) => g_addnodes_go g1 r
      end
  end.
(* Graph.extend / insert_* since fix dff454e: every node is validated (_check_node_can_be_added) before any of
   them is adopted or named; Graph.append is the one-node case *)
Definition g_addnodes (g : gst) (ns : list N) : option (gst * res unit) :=
  if existsb (g_foreign g) ns then Some (g, Raise ValueError) else g_addnodes_go g ns.

Definition gstep (g : gst) (o : gop) : option (gst * res unit) :=
  match o with
  | GNewValue v nm => Some (mkG (g_au g) (g_nname g) (g_nop g) (g_nouts g) (g_foreign g) (g_in g) (upd (g_vname g) v nm), Ok tt)
  | GCtor ins inits =>
      match g_regvs g (filter (fun v => match g_vname g v with Some _ => true | None => false end) (ins ++ inits)) with
      | None => None
      | Some g1 => match g_regvs g1 ins with None => None | Some g2 => Some (g2, Ok tt) end
      end
  | GNewNode n nm op outs foreign =>
      let vn' := fold_left (fun f p => upd f (fst p) (snd p)) outs (g_vname g) in
      Some (mkG (g_au g) (upd (g_nname g) n nm) (upd (g_nop g) n op) (upd (g_nouts g) n (map fst outs))
                (upd (g_foreign g) n foreign) (upd (g_in g) n false) vn', Ok tt)
  | GAdd ns => g_addnodes g ns
  | GRemove n =>
      if g_in g n
      then Some (mkG (g_au g) (g_nname g) (g_nop g) (g_nouts g) (g_foreign g) (upd (g_in g) n false) (g_vname g), Ok tt)
      else Some (g, Raise ValueError)
  | GSetNodeName n nm => Some (mkG (g_au g) (upd (g_nname g) n nm) (g_nop g) (g_nouts g) (g_foreign g) (g_in g) (g_vname g), Ok tt)
  | GSetValueName v nm => Some (mkG (g_au g) (g_nname g) (g_nop g) (g_nouts g) (g_foreign g) (g_in g) (upd (g_vname g) v nm), Ok tt)
  end.

(* histories keep going after a Raise *)
Fixpoint grun (ops : list gop) (g : gst) : option gst :=
  match ops with
  | [] => Some g
  | o :: r => match gstep g o with None => None | Some (g1, _) => grun r g1 end
  end.

(* observation after each op: outcome + names of the listed nodes / values *)
Definition gobs := (bool * list (option name) * list (option name))%type.
Fixpoint grun_obs (ops : list gop) (g : gst) (ns vs : list N) : option (list gobs) :=
  match ops with
  | [] => Some []
  | o :: r =>
      match gstep g o with
      | None => None
      | Some (g1, rr) =>
          match grun_obs r g1 ns vs with
          | None => None
          | Some l => Some ((is_ok rr, map (g_nname g1) ns, map (g_vname g1) vs) :: l)
          end
      end
  end.

(* ================================================================== (B) NameFixPass *)
(* structure of a model: immutable input of the pass *)
Inductive graph :=
| Graph (gid : N) (isfunc : bool) (ins outs : list N) (nodes : list node)
with node :=
| Node (nid : N) (nins : list (option N)) (nouts : list N) (subs : list graph).

(* RecursiveGraphIterator with enter_graph/exit_graph callbacks, as a flat event list.
   _recursive_node_iter: enter(graph); for node: yield node; _iterate_subgraphs(node); exit(graph)
   _iterate_subgraphs:   for each graph attribute: enter(sub); yield from RecursiveGraphIterator(sub); exit(sub)
   -> every subgraph is entered twice and exited twice (traversal.py:68-69 and 85-86). *)
Inductive ev :=
| EEnter (gid : N) (isfunc : bool) (ins outs : list N)
| EExit
| ENode (nid : N) (nins : list (option N)) (nouts : list N).

Fixpoint events_graph (g : graph) : list ev :=
  match g with
  | Graph gid f ins outs nodes =>
      EEnter gid f ins outs ::
      (fix go (ns : list node) : list ev :=
         match ns with
         | [] => []
         | n :: r => events_node n ++ go r
         end) nodes ++ [EExit]
  end
with events_node (n : node) : list ev :=
  match n with
  | Node nid nins nouts subs =>
      ENode nid nins nouts ::
      (fix go (gs : list graph) : list ev :=
         match gs with
         | [] => []
         | (Graph gid f ins outs _ as g) :: r => EEnter gid f ins outs :: events_graph g ++ EExit :: go r
         end) subs
  end.

Definition idict := list (name * N).                      (* GraphInitializers.data, insertion order *)
Record fstate := mkF {
  f_own : N -> option N;                (* Value.graph: the graph that owns the value (static) *)
  f_so : list N;                        (* scope_owners, top first (fix 5fabe37): the graph of every open scope *)
  f_vx : N -> N;                        (* everything of a Value that is not its name (type, shape, tensor object,
                                           producer, uses, ownership flags), as an opaque token *)
  f_nx : N -> N;                        (* everything of a Node that is not its name, as an opaque token *)
  f_rv : list name;                     (* self._reserved_value_names (fix 25cf9b5) *)
  f_rn : list name;                     (* self._reserved_node_names *)
  f_vn : N -> option name;              (* Value.name *)
  f_nn : N -> option name;              (* Node.name *)
  f_inits : list (N * idict);           (* gid -> initializers *)
  f_seen : list N;                      (* seen_values *)
  f_vcnt : list (name * N);             (* value_counter *)
  f_ncnt : list (name * N);             (* node_counter *)
  f_vscopes : list (list name);         (* scoped_used_value_names, top first *)
  f_nscopes : list (list name);         (* scoped_used_node_names, top first *)
  f_mod : bool
}.

Fixpoint dlookup (k : name) (d : idict) : option N :=
  match d with [] => None | (k', v) :: r => if name_eqb k k' then Some v else dlookup k r end.
Fixpoint dremove (k : name) (d : idict) : idict :=
  match d with [] => [] | (k', v) :: r => if name_eqb k k' then r else (k', v) :: dremove k r end.
Definition dhas_val (v : N) (d : idict) : bool := existsb (fun p => N.eqb (snd p) v) d.
(* the graph whose initializers contain the value (Value._is_initializer / Value._graph) *)
Fixpoint owner_of (v : N) (gs : list (N * idict)) : option (N * idict) :=
  match gs with
  | [] => None
  | (g, d) :: r => if dhas_val v d then Some (g, d) else owner_of v r
  end.
Fixpoint set_dict (g : N) (d : idict) (gs : list (N * idict)) : list (N * idict) :=
  match gs with
  | [] => []
  | (g', d') :: r => if N.eqb g g' then (g, d) :: r else (g', d') :: set_dict g d r
  end.
Fixpoint get_dict (g : N) (gs : list (N * idict)) : idict :=
  match gs with [] => [] | (g', d) :: r => if N.eqb g g' then d else get_dict g r end.

Fixpoint cnt_get (k : name) (c : list (name * N)) : N :=
  match c with [] => 0 | (k', n) :: r => if name_eqb k k' then n else cnt_get k r end.
Fixpoint cnt_set (k : name) (n : N) (c : list (name * N)) : list (name * N) :=
  match c with
  | [] => [(k, n)]
  | (k', n') :: r => if name_eqb k k' then (k, n) :: r else (k', n') :: cnt_set k n r
  end.

Definition is_empty (o : option name) : bool :=
  match o with None => true | Some [] => true | Some _ => false end.

(* _find_and_record_next_unique_name(preferred, used, counter, reserved) -> (name, used', counter');
   `while new_name in used_names or new_name in reserved_names` ; None = out of fuel *)
Definition find_unique (pref : name) (used : list name) (cnt : list (name * N)) (reserved : list name)
  : option (name * list name * list (name * N)) :=
  if mem pref used || mem pref reserved then
    match gen_fresh (suffixed pref) (N.succ (cnt_get pref cnt)) (used ++ reserved) with
    | None => None
    | Some (s, j) => Some (s, s :: used, cnt_set pref j cnt)
    end
  else Some (pref, pref :: used, cnt).

(* Value.name setter (_core.py:3208-3243) for a non-None new name.
   Raise ValueError leaves the state unchanged (the setter validates first). *)
Definition set_vname (v : N) (new : name) (vn : N -> option name) (inits : list (N * idict))
  : res ((N -> option name) * list (N * idict)) :=
  if option_eqb name_eqb (vn v) (Some new) then Ok (vn, inits) else
  match owner_of v inits with
  | None => Ok (upd vn v (Some new), inits)
  | Some (g, d) =>
      let clash := match dlookup new d with Some u => negb (N.eqb u v) | None => false end in
      if clash then Raise ValueError
      else
        let old := match vn v with Some o => o | None => [] end in
        Ok (upd vn v (Some new), set_dict g (dremove old d ++ [(new, v)]) inits)
  end.

Definition fres := (fstate * option exn)%type.
Definition fbind (r : fres) (f : fstate -> fres) : fres :=
  match snd r with None => f (fst r) | Some _ => r end.

Definition set_top {A} (x : A) (st : list A) : list A := match st with [] => [] | _ :: r => x :: r end.

(* _process_value(value, scoped_used_value_names[-1], seen_values, value_counter) *)
Definition process_value (v : N) (s : fstate) : fres :=
  if memN v (f_seen s) then (s, None) else
  match f_vscopes s with
  | [] => (s, Some IndexError)
  | used :: rest =>
      let nm := f_vn s v in
      let known := match nm with Some n => negb (is_empty nm) && negb (mem n used) | None => false end in
      if known then
        (* name is unique so far: record it *)
        (mkF (f_own s) (f_so s) (f_vx s) (f_nx s) (f_rv s) (f_rn s) (f_vn s) (f_nn s) (f_inits s) (v :: f_seen s) (f_vcnt s) (f_ncnt s)
             (((match nm with Some n => n | None => [] end) :: used) :: rest) (f_nscopes s) (f_mod s), None)
      else
        let pref := if is_empty nm then s_v else match nm with Some n => n | None => s_v end in
        match find_unique pref used (f_vcnt s) (f_rv s) with
        | None => (s, Some OtherError)
        | Some (new, used', cnt') =>
            let s1 := mkF (f_own s) (f_so s) (f_vx s) (f_nx s) (f_rv s) (f_rn s) (f_vn s) (f_nn s) (f_inits s) (f_seen s) cnt' (f_ncnt s) (used' :: rest) (f_nscopes s) (f_mod s) in
            match set_vname v new (f_vn s) (f_inits s) with
            | Raise e => (s1, Some e)
            | Ok (vn', inits') =>
                (mkF (f_own s) (f_so s) (f_vx s) (f_nx s) (f_rv s) (f_rn s) vn' (f_nn s) inits' (v :: f_seen s) cnt' (f_ncnt s) (used' :: rest) (f_nscopes s) true, None)
            end
        end
  end.

(* fix 5fabe37: after the first visit of a value, its name is also added to the scopes of the graph that owns
   the value and of the graphs in between - scoped_used_value_names[i + 1 : -1] for the first i with
   scope_owners[i] is value.graph; the top scope already holds it.  add_upto walks the scopes below the top
   (top first) and adds the name at every level at or above the bottom-most scope of that owner. *)
Fixpoint add_upto (g : N) (x : name) (owners : list N) (scopes : list (list name)) : list (list name) * bool :=
  match owners, scopes with
  | o :: os, u :: us =>
      let '(us', below) := add_upto g x os us in
      if below || N.eqb o g then (sadd x u :: us', true) else (u :: us', false)
  | _, _ => (scopes, false)
  end.
Definition with_vscopes (s : fstate) (sc : list (list name)) : fstate :=
  mkF (f_own s) (f_so s) (f_vx s) (f_nx s) (f_rv s) (f_rn s) (f_vn s) (f_nn s) (f_inits s) (f_seen s) (f_vcnt s) (f_ncnt s)
      sc (f_nscopes s) (f_mod s).
Definition rc_scopes (v : N) (s : fstate) : list (list name) :=
  match f_own s v, f_vn s v, f_vscopes s, f_so s with
  | Some g, Some x, top :: rest, _ :: orest => top :: fst (add_upto g x orest rest)
  | _, _, _, _ => f_vscopes s
  end.
Definition record_captured (v : N) (s : fstate) : fstate := with_vscopes s (rc_scopes v s).
(* the closure process_value(value) of _fix_graph_names *)
Definition process_value_rec (v : N) (s : fstate) : fres :=
  let first := negb (memN v (f_seen s)) in
  fbind (process_value v s) (fun s1 => (if first then record_captured v s1 else s1, None)).

Fixpoint process_values (vs : list N) (s : fstate) : fres :=
  match vs with
  | [] => (s, None)
  | v :: r => fbind (process_value_rec v s) (process_values r)
  end.

Fixpoint somes {A} (l : list (option A)) : list A :=
  match l with [] => [] | Some x :: r => x :: somes r | None :: r => somes r end.

(* node name: _assign_node_name / _fix_duplicate_node_name on scoped_used_node_names[-1] *)
Definition process_node_name (n : N) (s : fstate) : fres :=
  match f_nscopes s with
  | [] => (s, Some IndexError)
  | used :: rest =>
      let nm := f_nn s n in
      let known := match nm with Some x => negb (is_empty nm) && negb (mem x used) | None => false end in
      if known then
        (mkF (f_own s) (f_so s) (f_vx s) (f_nx s) (f_rv s) (f_rn s) (f_vn s) (f_nn s) (f_inits s) (f_seen s) (f_vcnt s) (f_ncnt s) (f_vscopes s)
             (((match nm with Some x => x | None => [] end) :: used) :: rest) (f_mod s), None)
      else
        let pref := if is_empty nm then s_node else match nm with Some x => x | None => s_node end in
        match find_unique pref used (f_ncnt s) (f_rn s) with
        | None => (s, Some OtherError)
        | Some (new, used', cnt') =>
            (mkF (f_own s) (f_so s) (f_vx s) (f_nx s) (f_rv s) (f_rn s) (f_vn s) (upd (f_nn s) n (Some new)) (f_inits s) (f_seen s) (f_vcnt s) cnt' (f_vscopes s)
                 (used' :: rest) true, None)
        end
  end.

(* one event of the traversal *)
Definition fx_step (e : ev) (s : fstate) : fres :=
  match e with
  | EEnter gid isfunc ins outs =>
      (* enter_graph: new value scope = copy of the parent's, new empty node scope *)
      match f_vscopes s with
      | [] => (s, Some IndexError)
      | top :: _ =>
          let s1 := mkF (f_own s) (gid :: f_so s) (f_vx s) (f_nx s) (f_rv s) (f_rn s) (f_vn s) (f_nn s) (f_inits s) (f_seen s) (f_vcnt s) (f_ncnt s)
                        (top :: f_vscopes s) ([] :: f_nscopes s) (f_mod s) in
          fbind (process_values ins s1) (fun s2 =>
          fbind (process_values outs s2) (fun s3 =>
          if isfunc then (s3, None)
          else process_values (map snd (get_dict gid (f_inits s3))) s3))   (* tuple(initializers.values()) *)
      end
  | EExit =>
      (mkF (f_own s) (tl (f_so s)) (f_vx s) (f_nx s) (f_rv s) (f_rn s) (f_vn s) (f_nn s) (f_inits s) (f_seen s) (f_vcnt s) (f_ncnt s)
           (tl (f_vscopes s)) (tl (f_nscopes s)) (f_mod s), None)
  | ENode nid nins nouts =>
      fbind (process_node_name nid s) (fun s1 =>
      fbind (process_values (somes nins) s1) (fun s2 =>
      process_values nouts s2))
  end.

Fixpoint fx_events (es : list ev) (s : fstate) : fres :=
  match es with
  | [] => (s, None)
  | e :: r => fbind (fx_step e s) (fx_events r)
  end.

(* _collect_existing_names(graph_like): all non-empty value names (graph inputs/outputs, initializer keys,
   node inputs/outputs) and node names met by a RecursiveGraphIterator run with an enter_graph callback. *)
Definition named (f : N -> option name) (xs : list N) : list name :=
  flat_map (fun x => match f x with Some (c :: n) => [c :: n] | _ => [] end) xs.
Fixpoint collect_names (es : list ev) (vn nn : N -> option name) (inits : list (N * idict)) : list name * list name :=
  match es with
  | [] => ([], [])
  | EEnter gid isfunc ins outs :: r =>
      let '(a, b) := collect_names r vn nn inits in
      (named vn (ins ++ outs) ++ (if isfunc then [] else map fst (get_dict gid inits)) ++ a, b)
  | EExit :: r => collect_names r vn nn inits
  | ENode nid nins nouts :: r =>
      let '(a, b) := collect_names r vn nn inits in
      (named vn (somes nins ++ nouts) ++ a, named nn [nid] ++ b)
  end.

(* _fix_graph_names(graph_like): fresh seen/counters/scopes (the dummy bottom scope), the reserved names,
   then the traversal *)
Definition fx_init (own : N -> option N) (vx nx : N -> N) (rv rn : list name) (vn nn : N -> option name) (inits : list (N * idict)) (m : bool) : fstate :=
  mkF own [] vx nx rv rn vn nn inits [] [] [] [[]] [[]] m.
Definition fix_graph_names (g : graph) (own : N -> option N) (vx nx : N -> N) (vn nn : N -> option name) (inits : list (N * idict)) (m : bool) : fres :=
  let '(rv, rn) := collect_names (events_graph g) vn nn inits in
  fx_events (events_graph g) (fx_init own vx nx rv rn vn nn inits m).

(* NameFixPass.call: main graph, then every function, each with fresh bookkeeping *)
Fixpoint fix_all (gs : list graph) (s : fstate) : fres :=
  match gs with
  | [] => (s, None)
  | g :: r => fbind (fix_graph_names g (f_own s) (f_vx s) (f_nx s) (f_vn s) (f_nn s) (f_inits s) (f_mod s)) (fix_all r)
  end.
Definition name_fix_pass (main : graph) (funcs : list graph) (own : N -> option N) (vx nx : N -> N) (vn nn : N -> option name) (inits : list (N * idict)) : fres :=
  fix_all (main :: funcs) (fx_init own vx nx [] [] vn nn inits false).

(* ================================================================== (C) rename_values *)
Record rstate := mkR {
  r_vn : N -> option name;
  r_inits : list (N * idict);           (* gid -> initializers (dict order) *)
  r_isinit : N -> bool;                 (* Value._is_initializer *)
  r_isio : N -> bool;                   (* Value._is_graph_input or _is_graph_output *)
  r_vgraph : N -> option N;             (* Value._graph *)
  r_prod : N -> bool;                   (* Value.producer() is not None *)
  r_const : N -> bool                   (* Value.const_value is not None; False for a 'pending' initializer.
                                           rename_values never looks at it (graph.initializers.add does not) *)
}.

(* ordered_pairs / target_by_value: first target per value, conflict -> ValueError *)
Fixpoint pair_lookup (v : N) (ps : list (N * name)) : option name :=
  match ps with [] => None | (u, n) :: r => if N.eqb u v then Some n else pair_lookup v r end.
Fixpoint dedup_pairs (ps acc : list (N * name)) : res (list (N * name)) :=
  match ps with
  | [] => Ok (List.rev acc)
  | (v, n) :: r =>
      match pair_lookup v acc with
      | Some n' => if name_eqb n' n then dedup_pairs r acc else Raise ValueError
      | None => dedup_pairs r ((v, n) :: acc)
      end
  end.

(* initializer_pairs_by_graph: dict graph -> pairs, in first-appearance order of graphs *)
Fixpoint group_add (g : N) (p : N * name) (gs : list (N * list (N * name))) : list (N * list (N * name)) :=
  match gs with
  | [] => [(g, [p])]
  | (g', l) :: r => if N.eqb g g' then (g', l ++ [p]) :: r else (g', l) :: group_add g p r
  end.
Definition group_inits (s : rstate) (ps : list (N * name)) : res (list (N * list (N * name))) :=
  fold_left (fun acc p =>
    match acc with
    | Raise e => Raise e
    | Ok gs =>
        if r_isinit s (fst p) then
          match r_vgraph s (fst p) with
          | Some g => Ok (group_add g p gs)
          | None => Raise AssertionError       (* assert isinstance(graph, Graph) *)
          end
        else Ok gs
    end) ps (Ok []).

(* validation of one graph's pairs (the loop at _convenience/__init__.py:420-439) *)
Fixpoint validate_pairs (d : idict) (renamed : list N) (ps : list (N * name)) (seen_t : list (name * N)) : res unit :=
  match ps with
  | [] => Ok tt
  | (v, n) :: r =>
      match n with
      | [] => Raise ValueError
      | _ =>
          let dup := match dlookup n seen_t with Some u => negb (N.eqb u v) | None => false end in
          if dup then Raise ValueError else
          let clash := match dlookup n d with
                       | Some u => negb (N.eqb u v) && negb (memN u renamed)
                       | None => false end in
          if clash then Raise ValueError else validate_pairs d renamed r ((n, v) :: seen_t)
      end
  end.
Fixpoint validate_groups (s : rstate) (gs : list (N * list (N * name))) : res unit :=
  match gs with
  | [] => Ok tt
  | (g, ps) :: r =>
      match validate_pairs (get_dict g (r_inits s)) (map fst ps) ps [] with
      | Raise e => Raise e
      | Ok _ => validate_groups s r
      end
  end.

Definition rres := (rstate * res unit)%type.
Definition rbind (r : rres) (f : rstate -> rres) : rres :=
  match snd r with Ok _ => f (fst r) | Raise _ => r end.

(* graph.initializers.pop(value.name): KeyError when absent; __delitem__ -> _maybe_unset_graph *)
Definition r_pop (g : N) (v : N) (s : rstate) : rres :=
  match r_vn s v with
  | None => (s, Raise AssertionError)
  | Some k =>
      let d := get_dict g (r_inits s) in
      match dlookup k d with
      | None => (s, Raise KeyError)
      | Some u =>
          let isinit' := upd (r_isinit s) u false in
          let vg' := if r_isio s u then r_vgraph s else upd (r_vgraph s) u None in
          (mkR (r_vn s) (set_dict g (dremove k d) (r_inits s)) isinit' (r_isio s) vg' (r_prod s) (r_const s), Ok tt)
      end
  end.
(* graph.initializers.add(value) = initializers[value.name] = value (GraphInitializers.__setitem__) *)
Definition r_add (g : N) (v : N) (s : rstate) : rres :=
  match r_vn s v with
  | None => (s, Raise TypeError)              (* key None: "Value name must be a string" *)
  | Some [] => (s, Raise ValueError)
  | Some k =>
      if r_prod s v then (s, Raise ValueError) else
      let d := get_dict g (r_inits s) in
      (* existing entry under the key: the old value is unset first *)
      let s1 := match dlookup k d with
                | Some old =>
                    mkR (r_vn s) (r_inits s) (upd (r_isinit s) old false) (r_isio s)
                        (if r_isio s old then r_vgraph s else upd (r_vgraph s) old None) (r_prod s) (r_const s)
                | None => s end in
      match r_vgraph s1 v with
      | Some g' => if N.eqb g' g then
                     (mkR (r_vn s1) (set_dict g (match dlookup k d with
                                                | Some _ => map (fun p => if name_eqb (fst p) k then (k, v) else p) d
                                                | None => d ++ [(k, v)] end) (r_inits s1))
                          (upd (r_isinit s1) v true) (r_isio s1) (upd (r_vgraph s1) v (Some g)) (r_prod s1) (r_const s1), Ok tt)
                   else (s1, Raise ValueError)
      | None =>
          (mkR (r_vn s1) (set_dict g (match dlookup k d with
                                     | Some _ => map (fun p => if name_eqb (fst p) k then (k, v) else p) d
                                     | None => d ++ [(k, v)] end) (r_inits s1))
               (upd (r_isinit s1) v true) (r_isio s1) (upd (r_vgraph s1) v (Some g)) (r_prod s1) (r_const s1), Ok tt)
      end
  end.

Fixpoint r_pops (gs : list (N * list (N * name))) (s : rstate) : rres :=
  match gs with
  | [] => (s, Ok tt)
  | (g, ps) :: r =>
      rbind ((fix go (ps : list (N * name)) (s : rstate) : rres :=
                match ps with [] => (s, Ok tt) | (v, _) :: q => rbind (r_pop g v s) (go q) end) ps s)
            (r_pops r)
  end.
Fixpoint r_adds (gs : list (N * list (N * name))) (s : rstate) : rres :=
  match gs with
  | [] => (s, Ok tt)
  | (g, ps) :: r =>
      rbind ((fix go (ps : list (N * name)) (s : rstate) : rres :=
                match ps with [] => (s, Ok tt) | (v, _) :: q => rbind (r_add g v s) (go q) end) ps s)
            (r_adds r)
  end.
(* value.name = name for values that are not (any more) initializers: the setter's plain path;
   for a value that still is an initializer the full setter applies (cannot happen after the pops) *)
Fixpoint r_renames (ps : list (N * name)) (s : rstate) : rres :=
  match ps with
  | [] => (s, Ok tt)
  | (v, n) :: r =>
      if r_isinit s v then
        match set_vname v n (r_vn s) (r_inits s) with
        | Raise e => (s, Raise e)
        | Ok (vn', inits') => r_renames r (mkR vn' inits' (r_isinit s) (r_isio s) (r_vgraph s) (r_prod s) (r_const s))
        end
      else r_renames r (mkR (upd (r_vn s) v (Some n)) (r_inits s) (r_isinit s) (r_isio s) (r_vgraph s) (r_prod s) (r_const s))
  end.

Definition rename_values (vs : list N) (ns : list name) (s : rstate) : rres :=
  if negb (Nat.eqb (length vs) (length ns)) then (s, Raise ValueError) else
  match dedup_pairs (combine vs ns) [] with
  | Raise e => (s, Raise e)
  | Ok pairs =>
      match group_inits s pairs with
      | Raise e => (s, Raise e)
      | Ok groups =>
          match validate_groups s groups with
          | Raise e => (s, Raise e)
          | Ok _ =>
              rbind (r_pops groups s) (fun s1 =>
              rbind (r_renames pairs s1) (fun s2 =>
              r_adds groups s2))
          end
      end
  end.

(* ================================================================== observation helpers for the case files *)
Fixpoint of_alist {A} (d : A) (l : list (N * A)) : N -> A :=
  match l with
  | [] => fun _ => d
  | (k, x) :: r => fun i => if N.eqb i k then x else of_alist d r i
  end.
Definition oname_eqb : option name -> option name -> bool := option_eqb name_eqb.
Definition pair_eqb {A B} (ea : A -> A -> bool) (eb : B -> B -> bool) (x y : A * B) : bool :=
  ea (fst x) (fst y) && eb (snd x) (snd y).
Definition idict_eqb : idict -> idict -> bool := list_eqb (pair_eqb name_eqb N.eqb).
Definition inits_eqb : list (N * idict) -> list (N * idict) -> bool := list_eqb (pair_eqb N.eqb idict_eqb).
Definition gobs_eqb (a b : gobs) : bool :=
  Bool.eqb (fst (fst a)) (fst (fst b)) && list_eqb oname_eqb (snd (fst a)) (snd (fst b))
  && list_eqb oname_eqb (snd a) (snd b).

(* (A) a history agrees with the observations of the implementation: after every op the outcome and the
   names of the objects the implementation reports as changed/touched; at the end all names. *)
Definition gdiff := (bool * list (N * option name) * list (N * option name))%type.
Fixpoint grun_check (ops : list gop) (g : gst) (exp : list gdiff) : option gst :=
  match ops, exp with
  | [], [] => Some g
  | o :: r, (ok, dn, dv) :: e =>
      match gstep g o with
      | None => None
      | Some (g1, rr) =>
          if Bool.eqb (is_ok rr) ok
             && forallb (fun p => oname_eqb (g_nname g1 (fst p)) (snd p)) dn
             && forallb (fun p => oname_eqb (g_vname g1 (fst p)) (snd p)) dv
          then grun_check r g1 e else None
      end
  | _, _ => None
  end.
Definition a_case := (list gop * list gdiff * list N * list N * list (option name) * list (option name))%type.
Definition a_agree (c : a_case) : bool :=
  let '(ops, exp, ns, vs, fn, fv) := c in
  match grun_check ops g0 exp with
  | None => false
  | Some g => list_eqb oname_eqb (map (g_nname g) ns) fn && list_eqb oname_eqb (map (g_vname g) vs) fv
  end.

(* (B) NameFixPass: outcome, modified flag (on Ok), all names, initializer dictionaries *)
Definition b_case := (graph * list graph * list (N * option name) * list (N * option name) * list (N * idict)
                      * list N * list N * list (N * N) * list (N * N) * list (N * option N)
                      * (option exn * bool * list (option name) * list (option name) * list (N * idict) * list N * list N))%type.
Definition b_agree (c : b_case) : bool :=
  let '(main, funcs, vn, nn, inits, vids, nids, vx, nx, own, (err, md, evn, enn, einits, evx, enx)) := c in
  let '(s, e) := name_fix_pass main funcs (of_alist None own) (of_alist 0 vx) (of_alist 0 nx) (of_alist None vn) (of_alist None nn) inits in
  option_eqb exn_eqb e err
  && (match e with None => Bool.eqb (f_mod s) md | Some _ => true end)
  && list_eqb oname_eqb (map (f_vn s) vids) evn
  && list_eqb oname_eqb (map (f_nn s) nids) enn
  && inits_eqb (f_inits s) einits
  && list_eqb N.eqb (map (f_vx s) vids) evx
  && list_eqb N.eqb (map (f_nx s) nids) enx.

(* (C) rename_values: outcome and the whole observable state afterwards (also after a Raise) *)
Definition r_obs := (list (option name) * list (N * idict) * list bool * list (option N) * list bool)%type.
Definition r_observe (s : rstate) (vids : list N) : r_obs :=
  (map (r_vn s) vids, r_inits s, map (r_isinit s) vids, map (r_vgraph s) vids, map (r_const s) vids).
Definition r_obs_eqb (a b : r_obs) : bool :=
  let '(n1, i1, f1, g1, c1) := a in let '(n2, i2, f2, g2, c2) := b in
  list_eqb oname_eqb n1 n2 && inits_eqb i1 i2 && list_eqb Bool.eqb f1 f2 && list_eqb (option_eqb N.eqb) g1 g2
  && list_eqb Bool.eqb c1 c2.
Definition c_case := (list (N * option name) * list (N * idict) * list (N * bool) * list (N * bool)
                      * list (N * option N) * list (N * bool) * list (N * bool)
                      * list N * list name * list N * (res unit * r_obs))%type.
Definition c_agree (c : c_case) : bool :=
  let '(vn, inits, isinit, isio, vgraph, prod, hasconst, vs, ns, vids, (er, eobs)) := c in
  let s0 := mkR (of_alist None vn) inits (of_alist false isinit) (of_alist false isio)
                (of_alist None vgraph) (of_alist false prod) (of_alist false hasconst) in
  let '(s, r) := rename_values vs ns s0 in
  res_eqb (fun _ _ => true) r er && r_obs_eqb (r_observe s vids) eobs.

(* C15/ProofsB13.v — the records of the node ghost run are the graphs of the nested structure: for every graph h
   nested in the root some record contains the ids of h's own nodes. *)
From Coq Require Import NArith List Bool Lia.
From IRV Require Import Base.Exn C15.Model C15.ProofsA C15.ProofsB2 C15.ProofsB7 C15.ProofsB8 C15.ProofsB12.
Import ListNotations.
Open Scope N_scope.

Inductive sub_of : graph -> graph -> Prop :=
| so_self (g : graph) : sub_of g g
| so_sub (gid : N) (f : bool) (ins outs : list N) (nodes : list node) (nd : node) (sub h : graph) :
    In nd nodes -> In sub (node_subs nd) -> sub_of sub h -> sub_of (Graph gid f ins outs nodes) h.

Lemma ngh_app a b g : ngh_events (a ++ b) g = ngh_events b (ngh_events a g).
Proof. unfold ngh_events. apply fold_left_app. Qed.

Definition ncovers (new : list (list N)) (g : graph) : Prop :=
  forall h, sub_of g h -> exists M, In M new /\ incl (own_nodes h) M.

Definition Pg' (g : graph) : Prop := forall T stk cl,
  exists new, ngh_events (events_graph g) (mkNg (T :: stk) cl) = mkNg (T :: stk) (new ++ cl) /\ ncovers new g.
Definition Qn' (n : node) : Prop := forall T stk cl,
  exists new, ngh_events (events_node n) (mkNg (T :: stk) cl) = mkNg ((node_id n :: T) :: stk) (new ++ cl) /\
    forall sub, In sub (node_subs n) -> ncovers new sub.

Lemma nsubs_loop subs : Forall Pg' subs -> forall T stk cl,
  exists new, ngh_events (flat_map sub_ev subs) (mkNg (T :: stk) cl) = mkNg (T :: stk) (new ++ cl) /\
    forall sub, In sub subs -> ncovers new sub.
Proof.
  induction 1 as [|g r Hg _ IH]; intros T stk cl.
  - exists []. split; [reflexivity | intros sub []].
  - destruct g as [gid f ins outs nodes].
    change (flat_map sub_ev (Graph gid f ins outs nodes :: r))
      with (([EEnter gid f ins outs] ++ events_graph (Graph gid f ins outs nodes) ++ [EExit]) ++ flat_map sub_ev r).
    rewrite !ngh_app.
    change (ngh_events [EEnter gid f ins outs] (mkNg (T :: stk) cl)) with (mkNg ([] :: T :: stk) cl).
    destruct (Hg [] (T :: stk) cl) as [new1 [E1 C1]]. rewrite E1.
    change (ngh_events [EExit] (mkNg ([] :: T :: stk) (new1 ++ cl))) with (mkNg (T :: stk) ([] :: new1 ++ cl)).
    destruct (IH T stk ([] :: new1 ++ cl)) as [new2 [E2 C2]]. rewrite E2.
    exists (new2 ++ [] :: new1). split; [rewrite <- app_assoc; reflexivity|].
    intros sub [<-|Hs] h Hh.
    + destruct (C1 h Hh) as [M [HM Hinc]]. exists M. split; [apply in_or_app; right; right; exact HM | exact Hinc].
    + destruct (C2 sub Hs h Hh) as [M [HM Hinc]]. exists M. split; [apply in_or_app; left; exact HM | exact Hinc].
Qed.

Lemma nnodes_loop nodes : Forall Qn' nodes -> forall T stk cl,
  exists T' new, ngh_events (flat_map events_node nodes) (mkNg (T :: stk) cl) = mkNg (T' :: stk) (new ++ cl) /\
    incl T T' /\ incl (map node_id nodes) T' /\
    forall nd sub, In nd nodes -> In sub (node_subs nd) -> ncovers new sub.
Proof.
  induction 1 as [|n r Hn _ IH]; intros T stk cl.
  - exists T, []. split; [reflexivity|]. split; [apply incl_refl|]. split; [intros x []|]. intros nd sub [].
  - change (flat_map events_node (n :: r)) with (events_node n ++ flat_map events_node r).
    rewrite ngh_app. destruct (Hn T stk cl) as [new1 [E1 C1]]. rewrite E1.
    destruct (IH (node_id n :: T) stk (new1 ++ cl)) as [T' [new2 [E2 [I1 [I2 C2]]]]]. rewrite E2.
    exists T', (new2 ++ new1). split; [rewrite <- app_assoc; reflexivity|].
    split; [intros x Hx; apply I1; right; exact Hx|]. split.
    { intros x [<-|Hx]; [apply I1; left; reflexivity | apply I2; exact Hx]. }
    intros nd sub [<-|Hnd] Hs h Hh.
    + destruct (C1 sub Hs h Hh) as [M [HM Hinc]]. exists M. split; [apply in_or_app; right; exact HM | exact Hinc].
    + destruct (C2 nd sub Hnd Hs h Hh) as [M [HM Hinc]]. exists M. split; [apply in_or_app; left; exact HM | exact Hinc].
Qed.

Lemma nlink_all : forall g, Pg' g.
Proof.
  apply (graph_ind' Pg' Qn').
  - intros gid f ins outs nodes HF T stk cl. rewrite events_graph_eq.
    change (EEnter gid f ins outs :: flat_map events_node nodes ++ [EExit])
      with ([EEnter gid f ins outs] ++ flat_map events_node nodes ++ [EExit]).
    rewrite !ngh_app.
    change (ngh_events [EEnter gid f ins outs] (mkNg (T :: stk) cl)) with (mkNg ([] :: T :: stk) cl).
    destruct (nnodes_loop nodes HF [] (T :: stk) cl) as [T' [new [E [I1 [I2 C]]]]]. rewrite E.
    change (ngh_events [EExit] (mkNg (T' :: T :: stk) (new ++ cl))) with (mkNg (T :: stk) (T' :: new ++ cl)).
    exists (T' :: new). split; [reflexivity|].
    intros h Hh. inversion Hh; subst.
    + exists T'. split; [left; reflexivity | exact I2].
    + match goal with Hnd : In ?nd nodes, Hs : In ?sub (node_subs ?nd), Hq : sub_of ?sub h |- _ =>
        destruct (C nd sub Hnd Hs h Hq) as [M [HM Hinc]] end.
      exists M. split; [right; exact HM | exact Hinc].
  - intros nid nins nouts subs HF T stk cl. rewrite events_node_eq.
    change (ENode nid nins nouts :: flat_map sub_ev subs) with ([ENode nid nins nouts] ++ flat_map sub_ev subs).
    rewrite ngh_app.
    change (ngh_events [ENode nid nins nouts] (mkNg (T :: stk) cl)) with (mkNg ((nid :: T) :: stk) cl).
    destruct (nsubs_loop subs HF (nid :: T) stk cl) as [new [E C]]. exists new. split; [exact E|].
    intros sub Hs. apply C. exact Hs.
Qed.

Theorem node_records_cover root h :
  sub_of root h -> exists M, In M (n_cl (ngh_events (events_graph root) ngh0)) /\ incl (own_nodes h) M.
Proof.
  intros Hh. destruct (nlink_all root [] [] []) as [new [E C]]. unfold ngh0. rewrite E. simpl. rewrite app_nil_r.
  apply (C h Hh).
Qed.

(* C15/ProofsB4.v — NameFixPass after fix 25cf9b5 never raises (C15_fix_total).
   Invariant TInv: every initializer dictionary stays keyed by current names with distinct keys and the same
   values; in every graph the traversal enters, a key is either the value's original name (and then in the
   reserved set) or `<original name>_<j>`.  A fresh name is outside the reserved set and is `<own original
   name>_<j>`, and `_`-suffixing is injective in both arguments, so it can clash with no key of the dictionary. *)
From Coq Require Import NArith List Bool Lia Decimal DecimalN.
From IRV Require Import Base.Exn C15.Model C15.ProofsA C15.ProofsA2 C15.ProofsB2 C15.ProofsC C15.ProofsC3.
Import ListNotations.
Open Scope N_scope.

(* ---------- `_<k>` suffixing is injective in the base name too *)
Lemma digits_no_us u : ~ In 95 (digits u).
Proof. induction u; simpl; intros H; try tauto; destruct H as [H|H]; try discriminate; tauto. Qed.

Lemma split_last {A} (x : A) a : forall b c e, ~ In x b -> ~ In x e -> a ++ x :: b = c ++ x :: e -> a = c /\ b = e.
Proof.
  induction a as [|y a IH]; intros b c e Hb He H; destruct c as [|z c]; simpl in H.
  - inversion H. auto.
  - inversion H; subst. exfalso. apply Hb. apply in_or_app. right. left. reflexivity.
  - inversion H; subst. exfalso. apply He. apply in_or_app. right. left. reflexivity.
  - inversion H; subst. destruct (IH _ _ _ Hb He H2) as [-> ->]. auto.
Qed.

Lemma suffixed_inj2 p q i j : suffixed p i = suffixed q j -> p = q /\ i = j.
Proof.
  unfold suffixed, s_us. simpl. intros H.
  apply split_last in H; [|apply digits_no_us|apply digits_no_us].
  destruct H as [-> H]. split; [reflexivity | apply dec_inj; exact H].
Qed.

(* ---------- owner_of *)
Lemma dhas_val_In v d : dhas_val v d = true <-> exists k, In (k, v) d.
Proof.
  unfold dhas_val. rewrite existsb_exists. split.
  - intros [[k u] [H E]]. simpl in E. apply N.eqb_eq in E. subst. exists k. exact H.
  - intros [k H]. exists (k, v). split; [exact H | simpl; apply N.eqb_refl].
Qed.

Lemma get_dict_In g d gs : NoDup (map fst gs) -> In (g, d) gs -> get_dict g gs = d.
Proof.
  induction gs as [|[g' d'] r IH]; simpl; intros ND H; [destruct H|].
  inversion ND as [|? ? Hn ND']; subst. destruct H as [H|H].
  - inversion H; subst. rewrite N.eqb_refl. reflexivity.
  - destruct (N.eqb g g') eqn:E; [|apply IH; assumption].
    apply N.eqb_eq in E. subst. exfalso. apply Hn. apply (in_map fst) in H. exact H.
Qed.

Lemma get_dict_In_gids g gs k v : In (k, v) (get_dict g gs) -> In g (map fst gs).
Proof.
  intros H. destruct (in_dec N.eq_dec g (map fst gs)) as [X|X]; [exact X|].
  rewrite (get_dict_notin _ _ X) in H. destruct H.
Qed.

Lemma owner_of_Some v gs g d : NoDup (map fst gs) -> owner_of v gs = Some (g, d) ->
  get_dict g gs = d /\ exists k, In (k, v) d.
Proof.
  induction gs as [|[g' d'] r IH]; simpl; intros ND H; [discriminate|].
  inversion ND as [|? ? Hn ND']; subst.
  destruct (dhas_val v d') eqn:E.
  - inversion H; subst. rewrite N.eqb_refl. split; [reflexivity | apply dhas_val_In; exact E].
  - destruct (IH ND' H) as [A B]. split; [|exact B].
    destruct (N.eqb g g') eqn:E2; [|exact A]. apply N.eqb_eq in E2. subst g'.
    exfalso. apply Hn. destruct B as [k B]. rewrite <- A in B. eapply get_dict_In_gids. exact B.
Qed.

Lemma owner_of_None v gs : owner_of v gs = None -> forall g k, ~ In (k, v) (get_dict g gs).
Proof.
  induction gs as [|[g' d'] r IH]; simpl; intros H g k; [tauto|].
  destruct (dhas_val v d') eqn:E; [discriminate|].
  destruct (N.eqb g g'); [|apply IH; exact H].
  intros X. assert (Y : dhas_val v d' = true) by (apply dhas_val_In; exists k; exact X). congruence.
Qed.

Lemma owner_of_not_None v gs g k : In (k, v) (get_dict g gs) -> owner_of v gs <> None.
Proof. intros H X. exact (owner_of_None _ _ X g k H). Qed.

(* ---------- the invariant *)
Section Total.
  Variables (vn0 : N -> option name) (inits0 : list (N * idict)) (rv : list name) (E : list N).

  (* the part of the C01 invariant (clause I5) the pass relies on *)
  Record WF0 : Prop := {
    w_gids : NoDup (map fst inits0);
    w_keyed : forall g k v, In (k, v) (get_dict g inits0) -> vn0 v = Some k /\ k <> [];
    w_keys : forall g, NoDup (map fst (get_dict g inits0));
    w_one : forall g1 g2 k1 k2 v, In (k1, v) (get_dict g1 inits0) -> In (k2, v) (get_dict g2 inits0) -> g1 = g2
  }.
  Hypothesis W : WF0.
  Hypothesis W_rv : forall g k v, In g E -> In (k, v) (get_dict g inits0) -> In k rv.

  Record TInv (s : fstate) : Prop := {
    t_gids : map fst (f_inits s) = map fst inits0;
    t_keyed : forall g k v, In (k, v) (get_dict g (f_inits s)) -> f_vn s v = Some k /\ k <> [];
    t_keys : forall g, NoDup (map fst (get_dict g (f_inits s)));
    t_mem : forall g v, (exists k, In (k, v) (get_dict g (f_inits s))) <-> (exists k, In (k, v) (get_dict g inits0));
    t_shape : forall g k v, In g E -> In (k, v) (get_dict g (f_inits s)) ->
                exists k0, vn0 v = Some k0 /\ ((k = k0 /\ In k rv) \/ exists j, k = suffixed k0 j);
    t_unseen : forall w, ~ In w (f_seen s) -> f_vn s w = vn0 w;
    t_rv : f_rv s = rv
  }.

  (* every initializer the traversal meets belongs to a graph the traversal enters *)
  Definition closed_val (w : N) : Prop := forall g k, In (k, w) (get_dict g inits0) -> In g E.

  Definition good (f : fstate -> fres) : Prop :=
    forall s, TInv s -> snd (f s) <> Some ValueError /\ (snd (f s) = None -> TInv (fst (f s))).

  Lemma good_bind f g : good f -> good g -> good (fun s => fbind (f s) g).
  Proof.
    intros Gf Gg s T. destruct (Gf s T) as [A B]. unfold fbind.
    destruct (f s) as [s1 [e|]] eqn:Ef; simpl in *.
    - split; [exact A | discriminate].
    - apply Gg. apply B. reflexivity.
  Qed.

  Lemma TInv_seen s w used' cnt' :
    TInv s ->
    TInv (mkF (f_own s) (f_so s) (f_vx s) (f_nx s) (f_rv s) (f_rn s) (f_vn s) (f_nn s) (f_inits s) (w :: f_seen s) cnt' (f_ncnt s)
              used' (f_nscopes s) (f_mod s)).
  Proof.
    intros [A B C D F G H]. constructor; simpl; try assumption.
    intros w0 Hw. apply G. intros X. apply Hw. right. exact X.
  Qed.

  Lemma process_value_good w : closed_val w -> good (process_value w).
  Proof.
    intros Hc s T. unfold process_value.
    destruct (memN w (f_seen s)) eqn:Es; [simpl; split; [discriminate | intros _; exact T]|].
    apply memN_nIn in Es.
    destruct (f_vscopes s) as [|used rest] eqn:Hsc; [simpl; split; [discriminate | discriminate]|].
    pose proof (t_unseen _ T w Es) as Hw0.
    match goal with |- context [if ?c then _ else _] => destruct c eqn:Ek end.
    { simpl. split; [discriminate|]. intros _.
      destruct T as [A B C D F G H]. constructor; simpl; try assumption.
      intros w0 Hw. apply G. intros X. apply Hw. right. exact X. }
    set (pref := if is_empty (f_vn s w) then s_v else match f_vn s w with Some n => n | None => s_v end) in *.
    destruct (find_unique_spec pref used (f_vcnt s) (f_rv s)) as [new [cnt' [Ef [Hnu [Hnr [Hform Hk]]]]]].
    rewrite Ef.
    assert (Hpref : pref <> []).
    { unfold pref. destruct (f_vn s w) as [[|c n]|]; simpl; discriminate. }
    assert (Hnew : new <> []) by (eapply find_unique_nonempty; eassumption).
    unfold set_vname.
    destruct (option_eqb name_eqb (f_vn s w) (Some new)) eqn:Eq.
    { simpl. split; [discriminate|]. intros _.
      destruct T as [A B C D F G H]. constructor; simpl; try assumption.
      intros w0 Hw. apply G. intros X. apply Hw. right. exact X. }
    destruct (owner_of w (f_inits s)) as [[g d]|] eqn:Eo.
    - (* w is an initializer of graph g *)
      assert (NDg : NoDup (map fst (f_inits s))) by (rewrite (t_gids _ T); apply (w_gids W)).
      destruct (owner_of_Some _ _ _ _ NDg Eo) as [Hd [kw Hin]].
      rewrite <- Hd in Hin.
      destruct (t_keyed _ T _ _ _ Hin) as [Hnw Hkw0].
      assert (HgE : In g E).
      { destruct (proj1 (t_mem _ T g w) (ex_intro _ kw Hin)) as [k0 H0]. eapply Hc. exact H0. }
      (* the name is non-empty, so this is the duplicate branch: pref = kw, new = kw_j *)
      assert (Hp : pref = kw) by (unfold pref; rewrite Hnw; destruct kw; [congruence | reflexivity]).
      assert (Hused : mem kw used = true).
      { rewrite Hnw in Ek. destruct kw as [|c kw']; [congruence|]. simpl in Ek.
        apply negb_false_iff in Ek. exact Ek. }
      assert (Hj : exists j, new = suffixed kw j).
      { destruct Hform as [X|X]; [|rewrite Hp in X; exact X].
        exfalso. apply Hnu. rewrite X, Hp. apply mem_In. exact Hused. }
      destruct Hj as [j Hj].
      assert (HL : dlookup new d = None).
      { destruct (dlookup new d) as [u|] eqn:EL; [|reflexivity]. exfalso.
        apply dlookup_In in EL. rewrite <- Hd in EL.
        destruct (t_shape _ T g new u HgE EL) as [k0u [Hu0 [[_ X]|[j' X]]]].
        - apply Hnr. rewrite (t_rv _ T). exact X.
        - rewrite Hj in X. apply suffixed_inj2 in X. destruct X as [X _]. subst k0u.
          (* u and w carry the same original name in the same dictionary: u = w *)
          destruct (proj1 (t_mem _ T g u) (ex_intro _ new EL)) as [ku Hu1].
          destruct (proj1 (t_mem _ T g w) (ex_intro _ kw Hin)) as [kw1 Hw1].
          destruct (w_keyed W _ _ _ Hu1) as [Hu2 _]. destruct (w_keyed W _ _ _ Hw1) as [Hw2 _].
          rewrite Hw0 in Hnw.
          assert (ku = kw1) by congruence. subst ku.
          assert (u = w) by (eapply NoDup_fst_unique; [apply (w_keys W g) | exact Hu1 | exact Hw1]). subst u.
          destruct (t_keyed _ T _ _ _ EL) as [Y _]. rewrite Hw0 in Y.
          assert (Hnk : new = kw) by congruence.
          apply Hnu. rewrite Hnk. apply mem_In. exact Hused. }
      rewrite HL, Hnw. simpl. split; [discriminate|]. intros _.
      set (d' := dremove kw d ++ [(new, w)]).
      assert (Mem : forall g' k u, In (k, u) (get_dict g' (set_dict g d' (f_inits s))) <->
                 (In (k, u) (get_dict g' (f_inits s)) /\ u <> w) \/ (g' = g /\ k = new /\ u = w)).
      { intros g' k u. destruct (N.eq_dec g' g) as [->|Hne].
        - rewrite get_set_same by (eapply get_dict_In_gids; exact Hin). rewrite Hd. unfold d'.
          rewrite in_app_iff. simpl. split.
          + intros [X|[X|[]]]; [|inversion X; subst; right; auto].
            left. pose proof (dremove_incl _ _ _ X) as X'. split; [exact X'|]. intros ->.
            rewrite <- Hd in X'. destruct (t_keyed _ T _ _ _ X') as [Y _]. assert (k = kw) by congruence. subst k.
            apply (dremove_no_key kw d); [rewrite <- Hd; apply (t_keys _ T)|]. apply (in_map fst) in X. exact X.
          + intros [[X Hu]|[_ [-> ->]]]; [left|right; left; reflexivity].
            apply In_dremove; [exact X|]. intros ->. rewrite <- Hd in X.
            apply Hu. eapply NoDup_fst_unique; [apply (t_keys _ T g) | exact X | exact Hin].
        - rewrite get_set_other by exact Hne. split.
          + intros X. left. split; [exact X|]. intros ->.
            destruct (proj1 (t_mem _ T g' w) (ex_intro _ k X)) as [k1 X1].
            destruct (proj1 (t_mem _ T g w) (ex_intro _ kw Hin)) as [k2 X2].
            apply Hne. eapply (w_one W); eassumption.
          + intros [[X _]|[X _]]; [exact X | contradiction]. }
      constructor; simpl.
      + rewrite set_dict_gids. apply (t_gids _ T).
      + intros g' k u X. apply Mem in X. destruct X as [[X Hu]|[_ [-> ->]]].
        * rewrite upd_other by exact Hu. apply (t_keyed _ T _ _ _ X).
        * rewrite upd_same. auto.
      + intros g'. destruct (N.eq_dec g' g) as [->|Hne].
        * rewrite get_set_same by (eapply get_dict_In_gids; exact Hin). unfold d'. rewrite map_app. simpl.
          apply NoDup_app_cons_end.
          -- apply dremove_NoDup. rewrite <- Hd. apply (t_keys _ T).
          -- intros X. apply (dlookup_None _ _ HL). apply in_map_iff in X. destruct X as [[a b] [Ea X]].
             simpl in Ea. subst a. apply dremove_incl in X. apply (in_map fst) in X. exact X.
        * rewrite get_set_other by exact Hne. apply (t_keys _ T).
      + intros g' u. rewrite <- (t_mem _ T g' u). split.
        * intros [k X]. apply Mem in X. destruct X as [[X _]|[-> [_ ->]]]; [exists k; exact X | exists kw; exact Hin].
        * intros [k X]. destruct (N.eq_dec u w) as [->|Hu].
          -- exists new. apply Mem. right. split; [|auto].
             destruct (proj1 (t_mem _ T g' w) (ex_intro _ k X)) as [k1 X1].
             destruct (proj1 (t_mem _ T g w) (ex_intro _ kw Hin)) as [k2 X2].
             eapply (w_one W); eassumption.
          -- exists k. apply Mem. left. auto.
      + intros g' k u Hg' X. apply Mem in X. destruct X as [[X _]|[-> [-> ->]]].
        * apply (t_shape _ T g' k u Hg' X).
        * exists kw. split; [congruence|]. right. exists j. exact Hj.
      + intros w0 Hw. assert (w0 <> w) by (intros ->; apply Hw; left; reflexivity).
        rewrite upd_other by assumption. apply (t_unseen _ T). intros X. apply Hw. right. exact X.
      + apply (t_rv _ T).
    - (* not an initializer: plain rename *)
      simpl. split; [discriminate|]. intros _.
      pose proof (owner_of_None _ _ Eo) as Hno.
      destruct T as [A B C D F G H]. constructor; simpl; try assumption.
      + intros g k u X. destruct (B _ _ _ X) as [Y Z]. split; [|exact Z].
        rewrite upd_other; [exact Y|]. intros ->. exact (Hno _ _ X).
      + intros w0 Hw. assert (w0 <> w) by (intros ->; apply Hw; left; reflexivity).
        rewrite upd_other by assumption. apply G. intros X. apply Hw. right. exact X.
  Qed.

  Lemma TInv_record v s : TInv s -> TInv (record_captured v s).
  Proof. intros [A B C D F G H]. constructor; simpl; assumption. Qed.

  Lemma process_value_rec_good w : closed_val w -> good (process_value_rec w).
  Proof.
    intros Hc s T. destruct (process_value_good w Hc s T) as [A B].
    rewrite process_value_rec_err. split; [exact A|]. intros Eok. specialize (B Eok).
    unfold process_value_rec, fbind. destruct (process_value w s) as [s1 e1]. simpl in *. subst e1. simpl.
    destruct (negb (memN w (f_seen s))); [apply TInv_record; exact B | exact B].
  Qed.

  Lemma process_values_good ws : Forall closed_val ws -> good (process_values ws).
  Proof.
    induction 1 as [|w r Hw _ IH]; simpl.
    - intros s T. simpl. split; [discriminate | intros _; exact T].
    - apply (good_bind (process_value_rec w) (process_values r)); [apply process_value_rec_good; exact Hw | exact IH].
  Qed.

  Lemma process_node_name_good m : good (process_node_name m).
  Proof.
    intros s T. unfold process_node_name. destruct (f_nscopes s) as [|used rest]; [simpl; split; discriminate|].
    match goal with |- context [if ?c then _ else _] => destruct c end.
    - simpl. split; [discriminate|]. intros _. destruct T as [A B C D F G H]. constructor; simpl; assumption.
    - match goal with |- context [find_unique ?p ?u ?c ?r] => destruct (find_unique_spec p u c r) as [new [cnt' [Ef _]]]; rewrite Ef end.
      simpl. split; [discriminate|]. intros _. destruct T as [A B C D F G H]. constructor; simpl; assumption.
  Qed.

  Definition ev_closed (e : ev) : Prop :=
    match e with
    | EEnter gid isfunc ins outs => Forall closed_val (ins ++ outs) /\ (isfunc = false -> In gid E)
    | EExit => True
    | ENode _ nins nouts => Forall closed_val (somes nins ++ nouts)
    end.

  Lemma fx_step_good e : ev_closed e -> good (fx_step e).
  Proof.
    destruct e as [gid isfunc ins outs| |nid nins nouts]; simpl; intros Hc.
    - intros s T. simpl. destruct (f_vscopes s) as [|top rest] eqn:Hsc; [simpl; split; discriminate|].
      destruct Hc as [Hio HgE]. apply Forall_app in Hio. destruct Hio as [Hi Ho].
      set (s1 := mkF (f_own s) (gid :: f_so s) (f_vx s) (f_nx s) (f_rv s) (f_rn s) (f_vn s) (f_nn s) (f_inits s) (f_seen s) (f_vcnt s) (f_ncnt s)
                     (top :: top :: rest) ([] :: f_nscopes s) (f_mod s)).
      assert (T1 : TInv s1) by (destruct T as [A B C D F G H]; constructor; simpl; assumption).
      revert T1. generalize s1. clear s1.
      apply (good_bind (process_values ins)
               (fun s2 => fbind (process_values outs s2) (fun s3 =>
                  if isfunc then (s3, None) else process_values (map snd (get_dict gid (f_inits s3))) s3))).
      + apply process_values_good. exact Hi.
      + apply (good_bind (process_values outs)
               (fun s3 => if isfunc then (s3, None) else process_values (map snd (get_dict gid (f_inits s3))) s3)).
        * apply process_values_good. exact Ho.
        * intros s3 T3. destruct isfunc; [simpl; split; [discriminate | intros _; exact T3]|].
          apply process_values_good; [|exact T3].
          apply Forall_forall. intros w Hw. apply in_map_iff in Hw. destruct Hw as [[k w'] [Ew Hw]]. simpl in Ew. subst w'.
          intros g k0 X. destruct (proj1 (t_mem _ T3 gid w) (ex_intro _ k Hw)) as [k1 X1].
          assert (g = gid) by (eapply (w_one W); eassumption). subst g. apply HgE. reflexivity.
    - intros s T. simpl. split; [discriminate|]. intros _. destruct T as [A B C D F G H]. constructor; simpl; assumption.
    - apply Forall_app in Hc. destruct Hc as [Hi Ho].
      change (good (fun s => fbind (process_node_name nid s)
               (fun s1 => fbind (process_values (somes nins) s1) (fun s2 => process_values nouts s2)))).
      apply (good_bind (process_node_name nid)
               (fun s1 => fbind (process_values (somes nins) s1) (fun s2 => process_values nouts s2))).
      + apply process_node_name_good.
      + apply (good_bind (process_values (somes nins)) (process_values nouts)); apply process_values_good; assumption.
  Qed.

  Lemma fx_events_good es : Forall ev_closed es -> good (fx_events es).
  Proof.
    induction 1 as [|e r He _ IH]; simpl.
    - intros s T. simpl. split; [discriminate | intros _; exact T].
    - apply (good_bind (fx_step e) (fx_events r)); [apply fx_step_good; exact He | exact IH].
  Qed.
End Total.

(* C15/ProofsB5.v — C15_fix_total assembled: one _fix_graph_names run and the whole pass never raise on
   well-formed states (initializers keyed by names: clause I5 of the C01 invariant) whose traversals are
   closed (every initializer the traversal meets belongs to a graph the traversal enters). *)
From Coq Require Import NArith List Bool Lia.
From IRV Require Import Base.Exn C15.Model C15.ProofsA C15.ProofsA2 C15.ProofsB2 C15.ProofsB3 C15.ProofsC C15.ProofsC3 C15.ProofsB4.
Import ListNotations.
Open Scope N_scope.

Fixpoint entered (es : list ev) : list N :=
  match es with
  | [] => []
  | EEnter gid false _ _ :: r => gid :: entered r
  | _ :: r => entered r
  end.

Lemma collect_keys es vn nn inits g k v :
  In g (entered es) -> In (k, v) (get_dict g inits) -> In k (fst (collect_names es vn nn inits)).
Proof.
  intros Hg Hk. induction es as [|e r IH]; simpl in *; [destruct Hg|].
  destruct e as [gid isfunc ins outs| |nid nins nouts]; simpl in *.
  - destruct (collect_names r vn nn inits) as [a b]. simpl in *.
    apply in_or_app. right. apply in_or_app. destruct isfunc.
    + right. apply IH. exact Hg.
    + destruct Hg as [<-|Hg]; [left; apply (in_map fst) in Hk; exact Hk | right; apply IH; exact Hg].
  - apply IH. exact Hg.
  - destruct (collect_names r vn nn inits) as [a b]. simpl in *. apply in_or_app. right. apply IH. exact Hg.
Qed.

(* closedness of a traversal with respect to the initializer dictionaries *)
Definition closed_run (es : list ev) (inits : list (N * idict)) : Prop :=
  forall w, In w (ev_values es) -> forall g k, In (k, w) (get_dict g inits) -> In g (entered es).

Lemma closed_events inits E es :
  (forall w, In w (ev_values es) -> closed_val inits E w) -> incl (entered es) E ->
  Forall (ev_closed inits E) es.
Proof.
  induction es as [|e r IH]; intros Hv Hi; constructor.
  - destruct e as [gid isfunc ins outs| |nid nins nouts]; simpl in *.
    + split.
      * apply Forall_forall. intros w Hw. apply Hv. rewrite app_assoc. apply in_or_app. left. exact Hw.
      * intros ->. apply Hi. left. reflexivity.
    + exact I.
    + apply Forall_forall. intros w Hw. apply Hv. rewrite app_assoc. apply in_or_app. left. exact Hw.
  - apply IH.
    + intros w Hw. apply Hv. destruct e as [gid isfunc ins outs| |nid nins nouts]; simpl; auto.
      * apply in_or_app. right. apply in_or_app. right. exact Hw.
      * apply in_or_app. right. apply in_or_app. right. exact Hw.
    + intros x Hx. apply Hi. destruct e as [gid [|] ins outs| |nid nins nouts]; simpl; auto.
Qed.

(* the state a run starts from satisfies the invariant *)
Lemma TInv_init own vx nx vn nn inits m g :
  WF0 vn inits ->
  let es := events_graph g in
  let rv := fst (collect_names es vn nn inits) in
  let rn := snd (collect_names es vn nn inits) in
  TInv vn inits rv (entered es) (fx_init own vx nx rv rn vn nn inits m).
Proof.
  intros W es rv rn. constructor; simpl; try reflexivity.
  - apply (w_keyed _ _ W).
  - apply (w_keys _ _ W).
  - intros g0 k v Hg Hk. destruct (w_keyed _ _ W _ _ _ Hk) as [A _]. exists k. split; [exact A|].
    left. split; [reflexivity|]. unfold rv. eapply collect_keys; eassumption.
Qed.

Definition mem_equiv (i1 i2 : list (N * idict)) : Prop :=
  forall g v, (exists k, In (k, v) (get_dict g i1)) <-> (exists k, In (k, v) (get_dict g i2)).

Lemma TInv_WF0 vn0 inits0 rv E s : WF0 vn0 inits0 -> TInv vn0 inits0 rv E s -> WF0 (f_vn s) (f_inits s).
Proof.
  intros W T. constructor.
  - rewrite (t_gids _ _ _ _ _ T). apply (w_gids _ _ W).
  - apply (t_keyed _ _ _ _ _ T).
  - apply (t_keys _ _ _ _ _ T).
  - intros g1 g2 k1 k2 v H1 H2.
    destruct (proj1 (t_mem _ _ _ _ _ T g1 v) (ex_intro _ k1 H1)) as [a A].
    destruct (proj1 (t_mem _ _ _ _ _ T g2 v) (ex_intro _ k2 H2)) as [b B].
    eapply (w_one _ _ W); eassumption.
Qed.

(* one run *)
Theorem fix_run_total g own vx nx vn nn inits m :
  WF0 vn inits -> closed_run (events_graph g) inits ->
  let r := fix_graph_names g own vx nx vn nn inits m in
  snd r = None /\ WF0 (f_vn (fst r)) (f_inits (fst r)) /\ mem_equiv (f_inits (fst r)) inits /\
  TInv vn inits (fst (collect_names (events_graph g) vn nn inits)) (entered (events_graph g)) (fst r).
Proof.
  intros W Hc r.
  pose proof (TInv_init own vx nx vn nn inits m g W) as T0. simpl in T0.
  assert (Hrv : forall g0 k v, In g0 (entered (events_graph g)) -> In (k, v) (get_dict g0 inits) ->
                  In k (fst (collect_names (events_graph g) vn nn inits))).
  { intros g0 k v A B. eapply collect_keys; eassumption. }
  assert (Hev : Forall (ev_closed inits (entered (events_graph g))) (events_graph g)).
  { apply closed_events; [|apply incl_refl]. intros w Hw g0 k X. eapply Hc; eassumption. }
  pose proof (fx_events_good vn inits _ _ W _ Hev _ T0) as [A B].
  assert (Er : r = fx_events (events_graph g)
                 (fx_init own vx nx (fst (collect_names (events_graph g) vn nn inits))
                    (snd (collect_names (events_graph g) vn nn inits)) vn nn inits m)).
  { unfold r, fix_graph_names. destruct (collect_names (events_graph g) vn nn inits); reflexivity. }
  assert (Hnone : snd r = None).
  { destruct (snd r) as [e|] eqn:Ee; [|reflexivity]. exfalso.
    pose proof (fix_graph_names_only_valueerror g own vx nx vn nn inits m e Ee) as ->.
    rewrite Er in Ee. contradiction. }
  rewrite Er in *. specialize (B Hnone).
  split; [exact Hnone|]. split; [eapply TInv_WF0; eassumption|]. split; [|exact B].
  intros g0 v. apply (t_mem _ _ _ _ _ B).
Qed.

Lemma closed_run_equiv es i1 i2 : mem_equiv i1 i2 -> closed_run es i2 -> closed_run es i1.
Proof.
  intros M C w Hw g k X. destruct (proj1 (M g w) (ex_intro _ k X)) as [k' X']. eapply C; eassumption.
Qed.

Lemma mem_equiv_trans a b c : mem_equiv a b -> mem_equiv b c -> mem_equiv a c.
Proof. intros A B g v. rewrite (A g v). apply B. Qed.

(* the whole pass *)
Lemma fix_all_total gs : forall s,
  WF0 (f_vn s) (f_inits s) -> (forall g, In g gs -> closed_run (events_graph g) (f_inits s)) ->
  let r := fix_all gs s in
  snd r = None /\ WF0 (f_vn (fst r)) (f_inits (fst r)) /\ mem_equiv (f_inits (fst r)) (f_inits s).
Proof.
  induction gs as [|g r IH]; intros s W Hc; simpl.
  - split; [reflexivity|]. split; [exact W|]. intros g v. tauto.
  - destruct (fix_run_total g (f_own s) (f_vx s) (f_nx s) (f_vn s) (f_nn s) (f_inits s) (f_mod s) W (Hc g (or_introl eq_refl)))
      as [A [B [C _]]].
    unfold fbind. destruct (fix_graph_names g (f_own s) (f_vx s) (f_nx s) (f_vn s) (f_nn s) (f_inits s) (f_mod s)) as [s1 e].
    simpl in *. subst e.
    destruct (IH s1 B) as [A2 [B2 C2]].
    { intros g' Hg'. eapply closed_run_equiv; [exact C|]. apply Hc. right. exact Hg'. }
    split; [exact A2|]. split; [exact B2|]. eapply mem_equiv_trans; eassumption.
Qed.

Theorem name_fix_pass_total main funcs own vx nx vn nn inits :
  WF0 vn inits -> (forall g, In g (main :: funcs) -> closed_run (events_graph g) inits) ->
  let r := name_fix_pass main funcs own vx nx vn nn inits in
  snd r = None /\ WF0 (f_vn (fst r)) (f_inits (fst r)) /\ mem_equiv (f_inits (fst r)) inits.
Proof. intros W Hc. unfold name_fix_pass. apply (fix_all_total (main :: funcs) (fx_init own vx nx [] [] vn nn inits false) W Hc). Qed.

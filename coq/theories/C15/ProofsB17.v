(* C15/ProofsB17.v — C15_fix_post for the code after fix 5fabe37, with the scoping hypothesis weakened to
   well_scoped2: a value may be captured from an ENCLOSING graph in any order (its owner's scope is open when it is
   first met); only captures from graphs whose scope is not open (siblings) remain excluded. *)
From Coq Require Import NArith List Bool Lia.
From IRV Require Import Base.Exn C15.Model C15.ProofsA C15.ProofsA2 C15.ProofsB2 C15.ProofsB3 C15.ProofsC C15.ProofsC3
  C15.ProofsB4 C15.ProofsB5 C15.ProofsB6 C15.ProofsB7 C15.ProofsB8 C15.ProofsB9 C15.ProofsB12 C15.ProofsB13 C15.ProofsB16.
Import ListNotations.
Open Scope N_scope.

Arguments touches2 : simpl never.

Section Cov2.
  Variable own : N -> option N.

  Definition Cov2 (n : nv) (h : gh2) : Prop :=
    Forall2 (@incl N) (v_m n) (g_m (h_g h)) /\ Forall2 (@incl N) (v_cl n) (g_cl (h_g h)).

  Lemma Forall2_incl_trans (a b c : list (list N)) :
    Forall2 (@incl N) a b -> Forall2 (@incl N) b c -> Forall2 (@incl N) a c.
  Proof.
    intros H. revert c. induction H as [|x y ra rb Hxy _ IH]; intros c H2; inversion H2; subst; constructor.
    - eapply incl_tran; eassumption.
    - apply IH. assumption.
  Qed.

  Lemma touches2_shape so ws top rest sn cl ok :
    touches2 own so ws (mkGh (top :: rest) sn cl ok) =
    mkGh ((filter (unseen_in sn) ws ++ top) :: lower own (filter (unseen_in sn) ws) (tl so) rest) (ws ++ sn) cl
         (ok && forallb (fun v => unseen_in sn v || memN v top) ws).
  Proof. reflexivity. Qed.

  Lemma lower_incl a new so : forall rest, Forall2 (@incl N) a rest -> Forall2 (@incl N) a (lower own new so rest).
  Proof. intros rest H. eapply Forall2_incl_trans; [exact H | apply lower_grows]. Qed.

  Lemma gh2_step_cov dv e n h :
    g_ok (h_g (gh2_step own dv e h)) = true -> Cov2 n h ->
    Cov2 (naive_step dv e n) (gh2_step own dv e h) /\ g_ok (h_g h) = true.
  Proof.
    destruct h as [[m sn cl ok] so]. destruct n as [vm vcl]. intros H [C1 C2]. simpl in C1, C2.
    destruct e as [gid isfunc ins outs| |nid nins nouts]; simpl in *.
    - destruct m as [|top rest]; inversion C1 as [|a b ra rb Hab Hr]; subst; simpl in *; [split; [split; simpl; assumption | exact H]|].
      rewrite ?touches2_shape in H. rewrite ?touches2_shape. simpl in *.
      apply touches_ok_incl in H. destruct H as [H I3].
      apply touches_ok_incl in H. destruct H as [H I2].
      apply touches_ok_incl in H. destruct H as [H I1].
      split; [|exact H]. split; simpl; [|exact C2].
      constructor.
      + intros x Hx. apply in_app_or in Hx. destruct Hx as [Hx|Hx].
        * apply in_or_app. right. apply in_or_app. right. apply I1. exact Hx.
        * apply in_app_or in Hx. destruct Hx as [Hx|Hx].
          -- apply I3. exact Hx.
          -- apply in_or_app. right. apply in_or_app. right. apply in_or_app. right. apply Hab. exact Hx.
      + apply lower_incl, lower_incl, lower_incl. constructor; assumption.
    - destruct m as [|top rest]; inversion C1 as [|a b ra rb Hab Hr]; subst; simpl in *; [split; [split; simpl; assumption | exact H]|].
      split; [|exact H]. split; simpl; [exact Hr | constructor; assumption].
    - destruct m as [|top rest]; inversion C1 as [|a b ra rb Hab Hr]; subst; simpl in *; [split; [split; simpl; assumption | exact H]|].
      rewrite ?touches2_shape in H. rewrite ?touches2_shape. simpl in *.
      apply touches_ok_incl in H. destruct H as [H I2].
      apply touches_ok_incl in H. destruct H as [H I1].
      split; [|exact H]. split; simpl; [|exact C2].
      constructor.
      + intros x Hx. apply in_app_or in Hx. destruct Hx as [Hx|Hx].
        * apply I2. exact Hx.
        * apply in_or_app. right. apply in_or_app. right. apply Hab. exact Hx.
      + apply lower_incl, lower_incl. exact Hr.
  Qed.

  Lemma gh2_events_ok_mono dv es : forall h, g_ok (h_g (gh2_events own dv es h)) = true -> g_ok (h_g h) = true.
  Proof.
    induction es as [|e r IH]; intros h H; simpl in *; [exact H|].
    specialize (IH _ H). clear H.
    destruct h as [[m sn cl ok] so]. destruct e as [gid isfunc ins outs| |nid nins nouts]; simpl in *.
    - destruct m as [|top rest]; [exact IH|]. rewrite ?touches2_shape in IH. simpl in IH.
      repeat (apply andb_prop in IH; destruct IH as [IH _]). exact IH.
    - destruct m; exact IH.
    - destruct m as [|top rest]; [exact IH|]. rewrite ?touches2_shape in IH. simpl in IH.
      repeat (apply andb_prop in IH; destruct IH as [IH _]). exact IH.
  Qed.

  Lemma gh2_events_cov dv es : forall n h,
    g_ok (h_g (gh2_events own dv es h)) = true -> Cov2 n h -> Cov2 (naive_events dv es n) (gh2_events own dv es h).
  Proof.
    induction es as [|e r IH]; intros n h H C; simpl in *; [exact C|].
    apply IH; [exact H|]. apply gh2_step_cov; [|exact C]. eapply gh2_events_ok_mono. exact H.
  Qed.
End Cov2.

(* the scoping hypothesis of C15_fix_post since fix 5fabe37: every value is first met in the scope of its graph, of an
   enclosing graph, or - new - of a graph nested in its owner while the owner's scope is open (capture from an
   enclosing graph, in any order).  A name-free property of the traversal and the ownership map. *)
Definition well_scoped2 (ow : N -> option N) (es : list ev) (inits : list (N * idict)) : Prop :=
  g_ok (h_g (gh2_events ow (dv inits) es (gh2_0))) = true.

Theorem fix_post_run2 g ow vx nx vn nn inits m :
  WF0 vn inits -> closed_run (events_graph g) inits -> NoDup (ev_nodes (events_graph g)) ->
  let es := events_graph g in
  let r := fix_graph_names g ow vx nx vn nn inits m in
  let s' := fst r in
  snd r = None /\
  (forall v, In v (ev_values es) \/ (exists gid k, In gid (entered es) /\ In (k, v) (get_dict gid inits)) ->
     exists x, f_vn s' v = Some x /\ x <> []) /\
  (forall a, In a (ev_nodes es) -> exists x, f_nn s' a = Some x /\ x <> []) /\
  (well_scoped2 ow es inits ->
     forall R, In R (v_cl (naive_events (dv inits) es nv0)) ->
     forall v w, In v R -> In w R -> v <> w -> f_vn s' v <> f_vn s' w) /\
  (forall M, In M (n_cl (ngh_events es ngh0)) -> forall a b, In a M -> In b M -> a <> b -> f_nn s' a <> f_nn s' b) /\
  WF0 (f_vn s') (f_inits s').
Proof.
  intros W Hc ND es r s'.
  destruct (fix_post_run g ow vx nx vn nn inits m W Hc ND) as [A [B [C [_ [F G]]]]].
  split; [exact A|]. split; [exact B|]. split; [exact C|]. split; [|split; [exact F | exact G]].
  intros Hws R HR v w Hv Hw Hne.
  fold es r in A. fold s' in G.
  set (rv := fst (collect_names es vn nn inits)). set (rn := snd (collect_names es vn nn inits)).
  assert (Er : r = fx_events es (fx_init ow vx nx rv rn vn nn inits m)).
  { unfold r, fix_graph_names, rv, rn, es. destruct (collect_names (events_graph g) vn nn inits); reflexivity. }
  assert (Hrun : fx_events es (fx_init ow vx nx rv rn vn nn inits m) = (s', None)).
  { rewrite <- Er. unfold s'. destruct r as [a b]. simpl in *. subst b. reflexivity. }
  assert (Hev : Forall (ev_closed inits (entered es)) es).
  { apply closed_events; [|apply incl_refl]. intros w0 Hw0 g0 k X. eapply Hc; eassumption. }
  pose proof (TInv_init ow vx nx vn nn inits m g W) as T0. simpl in T0. fold es rv rn in T0.
  assert (G0 : GInv2 ow (gh2_0) (fx_init ow vx nx rv rn vn nn inits m)).
  { constructor; simpl; try reflexivity.
    - constructor; simpl.
      + constructor; [intros x [] | constructor].
      + intros M [<-|[]] a b [].
      + intros M [<-|[]] a [].
      + intros x. tauto.
      + intros x [].
    - intros i u v0 X Y. destruct i as [|[|i]]; simpl in *; discriminate. }
  assert (Hwb : wb (length (f_so (fx_init ow vx nx rv rn vn nn inits m))) es).
  { simpl. unfold es. rewrite <- (app_nil_r (events_graph g)). apply events_balanced. exact I. }
  destruct (fx_events_both2 vn inits rv (entered es) ow W es _ _ _ Hev Hwb Hrun T0 G0) as [_ Gf].
  assert (C0 : Cov2 nv0 (gh2_0)) by (split; simpl; [constructor; [apply incl_refl | constructor] | constructor]).
  destruct (gh2_events_cov ow (dv inits) es nv0 (gh2_0) Hws C0) as [_ C2].
  destruct (Forall2_incl_In _ _ R C2 HR) as [M [HM Hinc]].
  apply (gi_dist _ _ (g2_inv _ _ _ Gf) M); [apply in_or_app; right; exact HM | apply Hinc, Hv | apply Hinc, Hw | exact Hne].
Qed.

Theorem fix_post_graph2 g ow vx nx vn nn inits m :
  WF0 vn inits -> closed_run (events_graph g) inits -> NoDup (ev_nodes (events_graph g)) ->
  well_scoped2 ow (events_graph g) inits ->
  let r := fix_graph_names g ow vx nx vn nn inits m in
  let s' := fst r in
  snd r = None /\
  (forall v, run_vals (events_graph g) inits v -> exists x, f_vn s' v = Some x /\ x <> []) /\
  (forall a, In a (ev_nodes (events_graph g)) -> exists x, f_nn s' a = Some x /\ x <> []) /\
  (forall vis h, nested (dv inits) [] g vis h ->
     forall v w, In v (vis ++ own (dv inits) h) -> In w (vis ++ own (dv inits) h) -> v <> w -> f_vn s' v <> f_vn s' w) /\
  (forall h, sub_of g h -> forall a b, In a (own_nodes h) -> In b (own_nodes h) -> a <> b -> f_nn s' a <> f_nn s' b) /\
  WF0 (f_vn s') (f_inits s').
Proof.
  intros W Hc ND Hws r s'.
  destruct (fix_post_run2 g ow vx nx vn nn inits m W Hc ND) as [A [B [C [D [F G]]]]].
  split; [exact A|]. split; [exact B|]. split; [exact C|]. split; [|split; [|exact G]].
  - intros vis h Hn v w Hv Hw Hne.
    destruct (naive_scopes_cover (dv inits) g vis h Hn) as [R [HR Hinc]].
    apply (D Hws R HR v w (Hinc v Hv) (Hinc w Hw) Hne).
  - intros h Hh a b Ha Hb Hne.
    destruct (node_records_cover g h Hh) as [M [HM Hinc]].
    apply (F M HM a b (Hinc a Ha) (Hinc b Hb) Hne).
Qed.

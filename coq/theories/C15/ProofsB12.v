(* C15/ProofsB12.v — the scopes of the flat naive run are the graphs of the nested structure: for every graph h
   nested in the root, with `vis` = the values owned by the enclosing graphs up to (and including) the
   enclosing nodes, some scope record of the naive run contains vis ++ own h. *)
From Coq Require Import NArith List Bool Lia.
From IRV Require Import Base.Exn C15.Model C15.ProofsA C15.ProofsB2 C15.ProofsB8.
Import ListNotations.
Open Scope N_scope.

Definition node_outs (n : node) : list N := match n with Node _ _ o _ => o end.
Definition node_subs (n : node) : list graph := match n with Node _ _ _ s => s end.
Definition node_id (n : node) : N := match n with Node i _ _ _ => i end.

Section Link.
  Variable dv : N -> list N.

  (* values within a graph: inputs, initializers, outputs of its own nodes *)
  Definition own (g : graph) : list N :=
    match g with Graph gid f ins _ nodes => ins ++ (if f then [] else dv gid) ++ flat_map node_outs nodes end.
  Definition own_nodes (g : graph) : list N := match g with Graph _ _ _ _ nodes => map node_id nodes end.

  (* nested vis g vis' h: h is g or a graph nested in g; vis' = vis + what the enclosing graphs own up to and
     including the enclosing nodes *)
  Inductive nested : list N -> graph -> list N -> graph -> Prop :=
  | n_self (vis : list N) (g : graph) : nested vis g vis g
  | n_sub (vis : list N) (gid : N) (f : bool) (ins outs : list N) (nodes pre : list node) (nd : node)
          (post : list node) (sub : graph) (vis' : list N) (h : graph) :
      nodes = pre ++ nd :: post -> In sub (node_subs nd) ->
      nested (flat_map node_outs (pre ++ [nd]) ++ ins ++ (if f then [] else dv gid) ++ vis) sub vis' h ->
      nested vis (Graph gid f ins outs nodes) vis' h.

  Definition sub_ev (g : graph) : list ev :=
    match g with Graph gid f ins outs _ => EEnter gid f ins outs :: events_graph g ++ [EExit] end.

  Lemma events_graph_eq gid f ins outs nodes :
    events_graph (Graph gid f ins outs nodes) = EEnter gid f ins outs :: flat_map events_node nodes ++ [EExit].
  Proof. reflexivity. Qed.

  Lemma events_node_eq nid nins nouts subs :
    events_node (Node nid nins nouts subs) = ENode nid nins nouts :: flat_map sub_ev subs.
  Proof.
    simpl. f_equal. induction subs as [|g r IH]; simpl; [reflexivity|].
    destruct g as [gid f ins outs nodes]. rewrite IH. simpl. repeat (rewrite <- app_assoc; simpl). reflexivity.
  Qed.

  Lemma naive_app a b g : naive_events dv (a ++ b) g = naive_events dv b (naive_events dv a g).
  Proof. unfold naive_events. apply fold_left_app. Qed.

  Definition covers (new : list (list N)) (top : list N) (g : graph) : Prop :=
    forall V vis' h, incl V top -> nested V g vis' h -> exists R, In R new /\ incl (vis' ++ own h) R.

  Definition Pg (g : graph) : Prop := forall a stk cl,
    exists new, naive_events dv (events_graph g) (mkNv (a :: stk) cl) = mkNv (a :: stk) (new ++ cl) /\ covers new a g.
  Definition Qn (n : node) : Prop := forall T stk cl,
    exists new, naive_events dv (events_node n) (mkNv (T :: stk) cl) = mkNv ((node_outs n ++ T) :: stk) (new ++ cl) /\
      forall sub, In sub (node_subs n) -> covers new (node_outs n ++ T) sub.

  Lemma subs_loop subs : Forall Pg subs -> forall T stk cl,
    exists new, naive_events dv (flat_map sub_ev subs) (mkNv (T :: stk) cl) = mkNv (T :: stk) (new ++ cl) /\
      forall sub, In sub subs -> covers new T sub.
  Proof.
    induction 1 as [|g r Hg _ IH]; intros T stk cl.
    - exists []. split; [reflexivity | intros sub []].
    - destruct g as [gid f ins outs nodes].
      set (B := ins ++ (if f then [] else dv gid) ++ T).
      change (flat_map sub_ev (Graph gid f ins outs nodes :: r))
        with (([EEnter gid f ins outs] ++ events_graph (Graph gid f ins outs nodes) ++ [EExit]) ++ flat_map sub_ev r).
      rewrite !naive_app.
      change (naive_events dv [EEnter gid f ins outs] (mkNv (T :: stk) cl)) with (mkNv (B :: T :: stk) cl).
      destruct (Hg B (T :: stk) cl) as [new1 [E1 C1]]. rewrite E1.
      change (naive_events dv [EExit] (mkNv (B :: T :: stk) (new1 ++ cl))) with (mkNv (T :: stk) (B :: new1 ++ cl)).
      destruct (IH T stk (B :: new1 ++ cl)) as [new2 [E2 C2]]. rewrite E2.
      exists (new2 ++ B :: new1). split; [rewrite <- app_assoc; reflexivity|].
      intros sub [<-|Hs] V vis' h HV Hn.
      + destruct (C1 V vis' h) as [R [HR Hinc]]; [|exact Hn|].
        * intros x Hx. unfold B. apply in_or_app. right. apply in_or_app. right. apply HV. exact Hx.
        * exists R. split; [apply in_or_app; right; right; exact HR | exact Hinc].
      + destruct (C2 sub Hs V vis' h HV Hn) as [R [HR Hinc]]. exists R. split; [apply in_or_app; left; exact HR | exact Hinc].
  Qed.

  Lemma nodes_loop nodes : Forall Qn nodes -> forall T stk cl,
    exists T' new, naive_events dv (flat_map events_node nodes) (mkNv (T :: stk) cl) = mkNv (T' :: stk) (new ++ cl) /\
      incl T T' /\ incl (flat_map node_outs nodes) T' /\
      forall pre nd post sub, nodes = pre ++ nd :: post -> In sub (node_subs nd) ->
        covers new (flat_map node_outs (pre ++ [nd]) ++ T) sub.
  Proof.
    induction 1 as [|n r Hn _ IH]; intros T stk cl.
    - exists T, []. split; [reflexivity|]. split; [apply incl_refl|]. split; [intros x []|].
      intros pre nd post sub E. destruct pre; discriminate.
    - change (flat_map events_node (n :: r)) with (events_node n ++ flat_map events_node r).
      change (flat_map node_outs (n :: r)) with (node_outs n ++ flat_map node_outs r).
      rewrite naive_app. destruct (Hn T stk cl) as [new1 [E1 C1]]. rewrite E1.
      destruct (IH (node_outs n ++ T) stk (new1 ++ cl)) as [T' [new2 [E2 [I1 [I2 C2]]]]]. rewrite E2.
      exists T', (new2 ++ new1). split; [rewrite <- app_assoc; reflexivity|].
      split; [intros x Hx; apply I1; apply in_or_app; right; exact Hx|].
      split.
      { intros x Hx. apply in_app_or in Hx. destruct Hx as [Hx|Hx]; [apply I1; apply in_or_app; left; exact Hx | apply I2; exact Hx]. }
      intros pre nd post sub E Hs V vis' h HV Hnest.
      destruct pre as [|p pre]; simpl in E; inversion E; subst.
      + simpl in HV. rewrite app_nil_r in HV.
        destruct (C1 sub Hs V vis' h HV Hnest) as [R [HR Hinc]]. exists R. split; [apply in_or_app; right; exact HR | exact Hinc].
      + destruct (C2 pre nd post sub eq_refl Hs V vis' h) as [R [HR Hinc]]; [|exact Hnest|].
        * intros x Hx. apply HV in Hx. simpl in Hx. rewrite <- app_assoc in Hx. 
          apply in_app_or in Hx. apply in_or_app. destruct Hx as [Hx|Hx].
          -- right. apply in_or_app. left. exact Hx.
          -- apply in_app_or in Hx. destruct Hx as [Hx|Hx]; [left; exact Hx | right; apply in_or_app; right; exact Hx].
        * exists R. split; [apply in_or_app; left; exact HR | exact Hinc].
  Qed.

  Lemma link_all : forall g, Pg g.
  Proof.
    apply (graph_ind' Pg Qn).
    - intros gid f ins outs nodes HF a stk cl. rewrite events_graph_eq.
      set (B := ins ++ (if f then [] else dv gid) ++ a).
      change (EEnter gid f ins outs :: flat_map events_node nodes ++ [EExit])
        with ([EEnter gid f ins outs] ++ flat_map events_node nodes ++ [EExit]).
      rewrite !naive_app.
      change (naive_events dv [EEnter gid f ins outs] (mkNv (a :: stk) cl)) with (mkNv (B :: a :: stk) cl).
      destruct (nodes_loop nodes HF B (a :: stk) cl) as [T' [new [E [I1 [I2 C]]]]]. rewrite E. simpl.
      exists (T' :: new). split; [reflexivity|].
      intros V vis' h HV Hn. inversion Hn; subst.
      + exists T'. split; [left; reflexivity|].
        intros x Hx. apply in_app_or in Hx. destruct Hx as [Hx|Hx].
        * apply I1. unfold B. apply in_or_app. right. apply in_or_app. right. apply HV. exact Hx.
        * simpl in Hx. apply in_app_or in Hx. destruct Hx as [Hx|Hx]; [apply I1; unfold B; apply in_or_app; left; exact Hx|].
          apply in_app_or in Hx. destruct Hx as [Hx|Hx]; [apply I1; unfold B; apply in_or_app; right; apply in_or_app; left; exact Hx | apply I2; exact Hx].
      + match goal with Hs : In ?sub (node_subs ?nd), Hq : nested ?V0 ?sub vis' h |- _ =>
          match V0 with context [flat_map node_outs (?pre ++ [nd])] =>
            assert (HC : exists R, In R new /\ incl (vis' ++ own h) R);
            [apply (C pre nd _ sub eq_refl Hs V0 vis' h); [|exact Hq] | destruct HC as [R [HR Hinc]]; exists R; split; [right; exact HR | exact Hinc]]
          end end.
        intros x Hx. apply in_app_or in Hx. apply in_or_app. destruct Hx as [Hx|Hx]; [left; exact Hx|].
        right. unfold B. apply in_app_or in Hx. apply in_or_app. destruct Hx as [Hx|Hx]; [left; exact Hx|].
        right. apply in_app_or in Hx. apply in_or_app. destruct Hx as [Hx|Hx]; [left; exact Hx | right; apply HV; exact Hx].
    - intros nid nins nouts subs HF T stk cl. rewrite events_node_eq.
      change (ENode nid nins nouts :: flat_map sub_ev subs) with ([ENode nid nins nouts] ++ flat_map sub_ev subs).
      rewrite naive_app.
      change (naive_events dv [ENode nid nins nouts] (mkNv (T :: stk) cl)) with (mkNv ((nouts ++ T) :: stk) cl).
      destruct (subs_loop subs HF (nouts ++ T) stk cl) as [new [E C]]. exists new. split; [exact E|].
      intros sub Hs. apply C. exact Hs.
  Qed.

  (* for the root: every nested graph has a scope record of the naive run containing vis' ++ own h *)
  Theorem naive_scopes_cover root vis' h :
    nested [] root vis' h ->
    exists R, In R (v_cl (naive_events dv (events_graph root) nv0)) /\ incl (vis' ++ own h) R.
  Proof.
    intros Hn. destruct (link_all root [] [] []) as [new [E C]]. unfold nv0. rewrite E. simpl. rewrite app_nil_r.
    apply (C [] vis' h (incl_refl _) Hn).
  Qed.
End Link.

(* C15/ProofsC.v — rename_values is all-or-nothing. *)
From Coq Require Import NArith List Bool Lia.
From IRV Require Import Base.Exn C15.Model C15.ProofsA C15.ProofsA2.
Import ListNotations.
Open Scope N_scope.

(* ---------- dictionaries *)
Lemma dlookup_In k d v : dlookup k d = Some v -> In (k, v) d.
Proof.
  induction d as [|[k' u] r IH]; simpl; [discriminate|].
  destruct (name_eqb k k') eqn:E.
  - apply name_eqb_eq in E. subst. intros H; inversion H; subst. left; reflexivity.
  - intros H. right. apply IH. exact H.
Qed.

Lemma dlookup_None k d : dlookup k d = None -> ~ In k (map fst d).
Proof.
  induction d as [|[k' u] r IH]; simpl; [tauto|].
  destruct (name_eqb k k') eqn:E; [discriminate|].
  apply name_eqb_neq in E. intros H [H1|H1]; [congruence | exact (IH H H1)].
Qed.

Lemma dlookup_not_key k d : ~ In k (map fst d) -> dlookup k d = None.
Proof.
  induction d as [|[k' u] r IH]; simpl; [reflexivity|]. intros H.
  destruct (name_eqb k k') eqn:E.
  - apply name_eqb_eq in E. subst. tauto.
  - apply IH. tauto.
Qed.

Lemma dlookup_NoDup k v d : NoDup (map fst d) -> In (k, v) d -> dlookup k d = Some v.
Proof.
  induction d as [|[k' u] r IH]; simpl; [tauto|]. intros ND H. inversion ND as [|? ? Hn ND']; subst.
  destruct (name_eqb k k') eqn:E.
  - apply name_eqb_eq in E. subst. destruct H as [H|H]; [congruence|].
    exfalso. apply Hn. apply (in_map fst) in H. exact H.
  - apply name_eqb_neq in E. destruct H as [H|H]; [congruence | apply IH; assumption].
Qed.

Lemma dremove_incl k d : incl (dremove k d) d.
Proof.
  induction d as [|[k' u] r IH]; simpl; [apply incl_refl|].
  destruct (name_eqb k k'); [apply incl_tl, incl_refl|].
  intros x [Hx|Hx]; [left; exact Hx | right; apply IH; exact Hx].
Qed.

Lemma dremove_NoDup k d : NoDup (map fst d) -> NoDup (map fst (dremove k d)).
Proof.
  induction d as [|[k' u] r IH]; simpl; [auto|]. intros ND. inversion ND as [|? ? Hn ND']; subst.
  destruct (name_eqb k k'); [exact ND'|]. simpl. constructor; [|apply IH; exact ND'].
  intros H. apply Hn. apply in_map_iff in H. destruct H as [[a b] [E H]]. simpl in E. subst.
  apply dremove_incl in H. apply (in_map fst) in H. exact H.
Qed.

Lemma dremove_no_key k d : NoDup (map fst d) -> ~ In k (map fst (dremove k d)).
Proof.
  induction d as [|[k' u] r IH]; simpl; [tauto|]. intros ND. inversion ND as [|? ? Hn ND']; subst.
  destruct (name_eqb k k') eqn:E.
  - apply name_eqb_eq in E. subst. exact Hn.
  - apply name_eqb_neq in E. simpl. intros [H|H]; [congruence | exact (IH ND' H)].
Qed.

Lemma In_dremove k k' v d : In (k', v) d -> k' <> k -> In (k', v) (dremove k d).
Proof.
  induction d as [|[k2 u] r IH]; simpl; [tauto|]. intros H Hne.
  destruct (name_eqb k k2) eqn:E.
  - apply name_eqb_eq in E. subst. destruct H as [H|H]; [congruence | exact H].
  - destruct H as [H|H]; [left; exact H | right; apply IH; assumption].
Qed.

Lemma get_set_same g d l : In g (map fst l) -> get_dict g (set_dict g d l) = d.
Proof.
  induction l as [|[g' d'] r IH]; simpl; [tauto|]. intros H.
  destruct (N.eqb g g') eqn:E; simpl.
  - rewrite N.eqb_refl. reflexivity.
  - rewrite E. apply IH. apply N.eqb_neq in E. destruct H as [H|H]; [congruence | exact H].
Qed.

Lemma get_set_other g g' d l : g' <> g -> get_dict g' (set_dict g d l) = get_dict g' l.
Proof.
  intros Hne. induction l as [|[g2 d2] r IH]; simpl; [reflexivity|].
  destruct (N.eqb g g2) eqn:E; simpl.
  - apply N.eqb_eq in E. subst g2. destruct (N.eqb g' g) eqn:E2; [apply N.eqb_eq in E2; contradiction | reflexivity].
  - destruct (N.eqb g' g2); [reflexivity | exact IH].
Qed.

Lemma set_dict_gids g d l : map fst (set_dict g d l) = map fst l.
Proof.
  induction l as [|[g2 d2] r IH]; simpl; [reflexivity|].
  destruct (N.eqb g g2) eqn:E; simpl; [apply N.eqb_eq in E; subst; reflexivity | f_equal; exact IH].
Qed.

Lemma get_dict_notin g l : ~ In g (map fst l) -> get_dict g l = [].
Proof.
  induction l as [|[g2 d2] r IH]; simpl; [reflexivity|]. intros H.
  destruct (N.eqb g g2) eqn:E; [apply N.eqb_eq in E; subst; tauto | apply IH; tauto].
Qed.

Lemma NoDup_app_cons_end {A} (l : list A) x : NoDup l -> ~ In x l -> NoDup (l ++ [x]).
Proof.
  induction l as [|y r IH]; simpl; intros ND Hn.
  - constructor; [tauto | constructor].
  - inversion ND; subst. constructor.
    + rewrite in_app_iff. simpl. intros [H|[H|[]]]; [contradiction | subst; tauto].
    + apply IH; tauto.
Qed.

(* ---------- the invariant: R = initializers currently detached (popped, to be re-added to graph g) *)
Record PInv (R : list (N * N)) (s : rstate) : Prop := {
  pi_entry : forall g k v, In (k, v) (get_dict g (r_inits s)) ->
      r_vn s v = Some k /\ k <> [] /\ r_isinit s v = true /\ r_vgraph s v = Some g /\ r_prod s v = false /\
      ~ In v (map snd R);
  pi_keys : forall g, NoDup (map fst (get_dict g (r_inits s)));
  pi_conv : forall v, r_isinit s v = true ->
      exists g k, In g (map fst (r_inits s)) /\ In (k, v) (get_dict g (r_inits s));
  pi_det : forall g v, In (g, v) R ->
      r_isinit s v = false /\ r_prod s v = false /\ (r_vgraph s v = None \/ r_vgraph s v = Some g) /\
      In g (map fst (r_inits s))
}.

(* the well-formed states: initializers keyed by their names, flags consistent (clause I5 of C01) *)
Definition RInv (s : rstate) : Prop := PInv [] s.

(* frame: what a step leaves alone *)
Definition same_but (s s1 : rstate) : Prop :=
  r_isio s1 = r_isio s /\ r_prod s1 = r_prod s /\ map fst (r_inits s1) = map fst (r_inits s) /\ r_const s1 = r_const s.

Lemma r_pop_ok R s g v :
  PInv R s -> r_isinit s v = true -> r_vgraph s v = Some g ->
  exists s1, r_pop g v s = (s1, Ok tt) /\ PInv ((g, v) :: R) s1 /\ r_vn s1 = r_vn s /\ same_but s s1 /\
    (forall g' k u, In (k, u) (get_dict g' (r_inits s1)) <-> In (k, u) (get_dict g' (r_inits s)) /\ u <> v) /\
    (forall u, u <> v -> r_isinit s1 u = r_isinit s u /\ r_vgraph s1 u = r_vgraph s u).
Proof.
  intros [PE PK PC PD] Hi Hg.
  destruct (PC v Hi) as [g0 [k [Hg0 Hin]]].
  destruct (PE _ _ _ Hin) as [Hn [Hk [_ [Hvg [Hp HnR]]]]].
  assert (g0 = g) by congruence. subst g0.
  assert (HL : dlookup k (get_dict g (r_inits s)) = Some v) by (apply dlookup_NoDup; [apply PK | exact Hin]).
  unfold r_pop. rewrite Hn, HL.
  set (d := get_dict g (r_inits s)) in *.
  eexists. split; [reflexivity|].
  assert (Mem : forall g' k' u,
            In (k', u) (get_dict g' (set_dict g (dremove k d) (r_inits s))) <-> In (k', u) (get_dict g' (r_inits s)) /\ u <> v).
  { intros g' k' u. destruct (N.eq_dec g' g) as [->|Hne].
    - rewrite get_set_same by exact Hg0. fold d. split.
      + intros H. pose proof (dremove_incl _ _ _ H) as H'. split; [exact H'|].
        intros ->. destruct (PE _ _ _ H') as [Hn' _]. assert (k' = k) by congruence. subst k'.
        apply (dremove_no_key k d (PK g)). apply (in_map fst) in H. exact H.
      + intros [H Hu]. apply In_dremove; [exact H|]. intros ->.
        pose proof (dlookup_NoDup _ _ _ (PK g) H) as HL'. fold d in HL'. congruence.
    - rewrite get_set_other by exact Hne. split.
      + intros H. split; [exact H|]. intros ->. destruct (PE _ _ _ H) as [_ [_ [_ [Hvg' _]]]]. congruence.
      + tauto. }
  assert (Fl : forall u, u <> v ->
            upd (r_isinit s) v false u = r_isinit s u /\
            (if r_isio s v then r_vgraph s else upd (r_vgraph s) v None) u = r_vgraph s u).
  { intros u Hu. split; [apply upd_other; exact Hu|]. destruct (r_isio s v); [reflexivity | apply upd_other; exact Hu]. }
  split; [|split; [reflexivity|]; split; [repeat split; simpl; apply set_dict_gids|]; split; [exact Mem | exact Fl]].
  constructor; simpl.
  - intros g' k' u H. apply Mem in H. destruct H as [H Hu].
    destruct (PE _ _ _ H) as [A [B [C [D [E F]]]]]. destruct (Fl u Hu) as [F1 F2].
    rewrite F1, F2. repeat split; try assumption. intros [X|X]; [congruence | exact (F X)].
  - intros g'. destruct (N.eq_dec g' g) as [->|Hne].
    + rewrite get_set_same by exact Hg0. apply dremove_NoDup. apply PK.
    + rewrite get_set_other by exact Hne. apply PK.
  - intros u Hu. destruct (N.eq_dec u v) as [->|Hne]; [rewrite upd_same in Hu; discriminate|].
    rewrite upd_other in Hu by exact Hne. destruct (PC u Hu) as [g1 [k1 [A B]]].
    exists g1, k1. rewrite set_dict_gids. split; [exact A|]. apply Mem. split; assumption.
  - intros g' u [X|X].
    + inversion X; subst. rewrite upd_same. rewrite set_dict_gids. repeat split; try assumption.
      destruct (r_isio s u); [right; exact Hg | left; apply upd_same].
    + destruct (PD _ _ X) as [A [B [C D]]].
      assert (Hu : u <> v).
      { intros ->. congruence. }
      destruct (Fl u Hu) as [F1 F2]. rewrite F1, F2, set_dict_gids. repeat split; assumption.
Qed.

(* value.name = n on a value that is not an initializer *)
Lemma rename_plain_ok R s v n :
  PInv R s -> r_isinit s v = false ->
  PInv R (mkR (upd (r_vn s) v (Some n)) (r_inits s) (r_isinit s) (r_isio s) (r_vgraph s) (r_prod s) (r_const s)).
Proof.
  intros [PE PK PC PD] Hi. constructor; simpl; try assumption.
  intros g k u H. destruct (PE _ _ _ H) as [A [B [C [D [E F]]]]].
  assert (u <> v) by (intros ->; congruence). rewrite upd_other by assumption. repeat split; assumption.
Qed.

Lemma r_add_ok R1 R2 s g v k :
  PInv (R1 ++ (g, v) :: R2) s -> ~ In v (map snd (R1 ++ R2)) ->
  r_vn s v = Some k -> k <> [] -> dlookup k (get_dict g (r_inits s)) = None ->
  exists s1, r_add g v s = (s1, Ok tt) /\ PInv (R1 ++ R2) s1 /\ r_vn s1 = r_vn s /\ same_but s s1 /\
    (forall g' k' u, In (k', u) (get_dict g' (r_inits s1)) <->
                     In (k', u) (get_dict g' (r_inits s)) \/ (g' = g /\ k' = k /\ u = v)) /\
    (forall u, u <> v -> r_isinit s1 u = r_isinit s u /\ r_vgraph s1 u = r_vgraph s u) /\
    r_isinit s1 v = true /\ r_vgraph s1 v = Some g.
Proof.
  intros [PE PK PC PD] HnR Hn Hk HL.
  assert (HR : In (g, v) (R1 ++ (g, v) :: R2)) by (apply in_or_app; right; left; reflexivity).
  destruct (PD _ _ HR) as [Hi [Hp [Hvg Hg0]]].
  set (d := get_dict g (r_inits s)) in *.
  set (s1 := mkR (r_vn s) (set_dict g (d ++ [(k, v)]) (r_inits s)) (upd (r_isinit s) v true) (r_isio s)
                 (upd (r_vgraph s) v (Some g)) (r_prod s) (r_const s)).
  assert (Hrun : r_add g v s = (s1, Ok tt)).
  { unfold r_add. rewrite Hn. destruct k as [|c k']; [congruence|]. rewrite Hp. fold d. rewrite HL.
    destruct Hvg as [Hvg|Hvg]; rewrite Hvg; [reflexivity|]. rewrite N.eqb_refl. reflexivity. }
  exists s1. split; [exact Hrun|].
  assert (Mem : forall g' k' u, In (k', u) (get_dict g' (r_inits s1)) <->
                     In (k', u) (get_dict g' (r_inits s)) \/ (g' = g /\ k' = k /\ u = v)).
  { intros g' k' u. unfold s1; simpl. destruct (N.eq_dec g' g) as [->|Hne].
    - rewrite get_set_same by exact Hg0. fold d. rewrite in_app_iff. simpl. split.
      + intros [H|[H|[]]]; [left; exact H | inversion H; subst; right; auto].
      + intros [H|[_ [-> ->]]]; [left; exact H | right; left; reflexivity].
    - rewrite get_set_other by exact Hne. split; [intros H; left; exact H|].
      intros [H|[H _]]; [exact H | contradiction]. }
  assert (Fl : forall u, u <> v -> r_isinit s1 u = r_isinit s u /\ r_vgraph s1 u = r_vgraph s u).
  { intros u Hu. unfold s1; simpl. split; apply upd_other; exact Hu. }
  split; [|split; [reflexivity|]; split; [repeat split; unfold s1; simpl; apply set_dict_gids|]; split; [exact Mem|];
           split; [exact Fl|]; unfold s1; simpl; split; apply upd_same].
  constructor.
  - intros g' k' u H. apply Mem in H. destruct H as [H|[-> [-> ->]]].
    + destruct (PE _ _ _ H) as [A [B [C [D [E F]]]]].
      assert (Hu : u <> v).
      { intros ->. apply F. rewrite map_app. apply in_or_app. right. left. reflexivity. }
      destruct (Fl u Hu) as [F1 F2]. rewrite F1, F2. unfold s1; simpl. repeat split; try assumption.
      intros X. apply F. rewrite map_app in *. simpl. apply in_app_or in X. apply in_or_app. destruct X; [left|right; right]; assumption.
    + unfold s1; simpl. rewrite !upd_same. repeat split; assumption.
  - intros g'. unfold s1; simpl. destruct (N.eq_dec g' g) as [->|Hne].
    + rewrite get_set_same by exact Hg0. fold d. rewrite map_app. simpl.
      apply NoDup_app_cons_end. { apply PK. } { apply dlookup_None. exact HL. }
    + rewrite get_set_other by exact Hne. apply PK.
  - intros u Hu. destruct (N.eq_dec u v) as [->|Hne].
    + exists g, k. unfold s1 at 1; simpl. rewrite set_dict_gids. split; [exact Hg0|]. apply Mem. right. auto.
    + destruct (Fl u Hne) as [F1 _]. rewrite F1 in Hu. destruct (PC u Hu) as [g1 [k1 [A B]]].
      exists g1, k1. unfold s1 at 1; simpl. rewrite set_dict_gids. split; [exact A|]. apply Mem. left. exact B.
  - intros g' u X.
    assert (X' : In (g', u) (R1 ++ (g, v) :: R2)).
    { apply in_app_or in X. apply in_or_app. destruct X; [left|right; right]; assumption. }
    destruct (PD _ _ X') as [A [B [C D]]].
    assert (Hu : u <> v).
    { intros ->. apply HnR. apply (in_map snd) in X. exact X. }
    destruct (Fl u Hu) as [F1 F2]. rewrite F1, F2. unfold s1; simpl. rewrite set_dict_gids. repeat split; assumption.
Qed.

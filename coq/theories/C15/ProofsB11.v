(* C15/ProofsB11.v — NameFixPass: nothing but names changes (C15_fix_only_names), and the composition of the
   per-run theorems over the main graph and the functions of a model (C15_fix_keeps_unique for the whole pass). *)
From Coq Require Import NArith List Bool Lia.
From IRV Require Import Base.Exn C15.Model C15.ProofsA C15.ProofsA2 C15.ProofsB2 C15.ProofsB3 C15.ProofsC C15.ProofsC3
  C15.ProofsB4 C15.ProofsB5 C15.ProofsB7 C15.ProofsB9 C15.ProofsB10.
Import ListNotations.
Open Scope N_scope.

(* ---------- only names: the non-name payload of every value and node is untouched, whatever the outcome *)
Definition same_payload (s s' : fstate) : Prop := f_vx s' = f_vx s /\ f_nx s' = f_nx s.

Lemma process_value_x v s : same_payload s (fst (process_value v s)).
Proof.
  unfold same_payload, process_value. destruct (memN v (f_seen s)); [auto|].
  destruct (f_vscopes s); [auto|].
  match goal with |- context [if ?c then _ else _] => destruct c end; [auto|].
  destruct (find_unique _ _ _ _) as [[[a b] c]|]; [|auto].
  destruct (set_vname _ _ _ _) as [[x y]|]; auto.
Qed.

Lemma same_payload_trans a b c : same_payload a b -> same_payload b c -> same_payload a c.
Proof. intros [A B] [C D]. split; congruence. Qed.

Lemma process_value_rec_x v s : same_payload s (fst (process_value_rec v s)).
Proof.
  unfold process_value_rec, fbind. pose proof (process_value_x v s) as A.
  destruct (process_value v s) as [s1 [e|]]; simpl in *; [exact A|].
  destruct (negb (memN v (f_seen s))); simpl; exact A.
Qed.

Lemma process_values_x ws : forall s, same_payload s (fst (process_values ws s)).
Proof.
  induction ws as [|v r IH]; intros s; simpl; [split; reflexivity|].
  unfold fbind. pose proof (process_value_rec_x v s) as A. destruct (process_value_rec v s) as [s1 [e|]]; simpl in *; [exact A|].
  eapply same_payload_trans; [exact A | apply IH].
Qed.

Lemma process_node_name_x m s : same_payload s (fst (process_node_name m s)).
Proof.
  unfold same_payload, process_node_name. destruct (f_nscopes s); [auto|].
  match goal with |- context [if ?c then _ else _] => destruct c end; [auto|].
  destruct (find_unique _ _ _ _) as [[[x y] c]|]; auto.
Qed.

Lemma fx_step_x e s : same_payload s (fst (fx_step e s)).
Proof.
  destruct e as [gid isfunc ins outs| |nid nins nouts]; simpl.
  - destruct (f_vscopes s); [split; reflexivity|]. unfold fbind.
    match goal with |- context [process_values ins ?s0] => pose proof (process_values_x ins s0) as A; destruct (process_values ins s0) as [s2 [e2|]] end; simpl in *; [exact A|].
    pose proof (process_values_x outs s2) as B. destruct (process_values outs s2) as [s3 [e3|]]; simpl in *;
      [eapply same_payload_trans; [exact A | exact B]|].
    destruct isfunc; simpl; [eapply same_payload_trans; [exact A | exact B]|].
    eapply same_payload_trans; [exact A|]. eapply same_payload_trans; [exact B | apply process_values_x].
  - split; reflexivity.
  - unfold fbind. pose proof (process_node_name_x nid s) as A.
    destruct (process_node_name nid s) as [s1 [e1|]]; simpl in *; [exact A|].
    pose proof (process_values_x (somes nins) s1) as B. destruct (process_values (somes nins) s1) as [s2 [e2|]]; simpl in *.
    + eapply same_payload_trans; eassumption.
    + eapply same_payload_trans; [exact A|]. eapply same_payload_trans; [exact B | apply process_values_x].
Qed.

Lemma fx_events_x es : forall s, same_payload s (fst (fx_events es s)).
Proof.
  induction es as [|e r IH]; intros s; simpl; [split; reflexivity|].
  unfold fbind. pose proof (fx_step_x e s) as A. destruct (fx_step e s) as [s1 [e1|]]; simpl in *; [exact A|].
  eapply same_payload_trans; [exact A | apply IH].
Qed.

Lemma fix_all_x gs : forall s, same_payload s (fst (fix_all gs s)).
Proof.
  induction gs as [|g r IH]; intros s; simpl; [split; reflexivity|].
  unfold fbind.
  assert (A : same_payload s (fst (fix_graph_names g (f_own s) (f_vx s) (f_nx s) (f_vn s) (f_nn s) (f_inits s) (f_mod s)))).
  { unfold fix_graph_names. destruct (collect_names _ _ _ _) as [rv rn].
    pose proof (fx_events_x (events_graph g) (fx_init (f_own s) (f_vx s) (f_nx s) rv rn (f_vn s) (f_nn s) (f_inits s) (f_mod s))) as X.
    exact X. }
  destruct (fix_graph_names g (f_own s) (f_vx s) (f_nx s) (f_vn s) (f_nn s) (f_inits s) (f_mod s)) as [s1 [e1|]]; simpl in *; [exact A|].
  eapply same_payload_trans; [exact A | apply IH].
Qed.

(* C15_fix_only_names: for every model, whatever the outcome (Ok or Raise): the payload (everything of a value
   or node that is not its name) is unchanged; on well-formed closed models every graph also keeps exactly its
   initializer values (the structure - inputs, outputs, nodes, subgraphs - is an immutable input of the pass). *)
Theorem fix_only_names main funcs own vx nx vn nn inits :
  let r := name_fix_pass main funcs own vx nx vn nn inits in
  f_vx (fst r) = vx /\ f_nx (fst r) = nx /\
  (WF0 vn inits -> (forall g, In g (main :: funcs) -> closed_run (events_graph g) inits) ->
     mem_equiv (f_inits (fst r)) inits).
Proof.
  intros r. destruct (fix_all_x (main :: funcs) (fx_init own vx nx [] [] vn nn inits false)) as [A B].
  split; [exact A|]. split; [exact B|]. intros W Hc. apply (name_fix_pass_total main funcs own vx nx vn nn inits W Hc).
Qed.

(* ---------- composition over the graphs of a model *)
Lemma fix_all_app a : forall b s, fix_all (a ++ b) s = fbind (fix_all a s) (fix_all b).
Proof.
  induction a as [|g r IH]; intros b s; simpl; [reflexivity|].
  unfold fbind at 1 3. destruct (fix_graph_names g _ _ _ _ _ _) as [s1 [e|]]; simpl; [reflexivity | apply IH].
Qed.

Lemma run_vals_equiv es i1 i2 w : mem_equiv i1 i2 -> run_vals es i1 w -> run_vals es i2 w.
Proof.
  intros M [A|[gid [k [A B]]]]; [left; exact A|].
  destruct (proj1 (M gid w) (ex_intro _ k B)) as [k' B']. right. exists gid, k'. auto.
Qed.

Lemma mem_equiv_sym a b : mem_equiv a b -> mem_equiv b a.
Proof. intros M g v. symmetry. apply M. Qed.

(* values no graph of the list meets keep their names *)
Lemma fix_all_frame gs : forall s w,
  WF0 (f_vn s) (f_inits s) -> (forall g, In g gs -> closed_run (events_graph g) (f_inits s)) ->
  (forall g, In g gs -> ~ run_vals (events_graph g) (f_inits s) w) ->
  f_vn (fst (fix_all gs s)) w = f_vn s w.
Proof.
  induction gs as [|g r IH]; intros s w W Hc Hw; simpl; [reflexivity|].
  destruct (fix_run_total g (f_own s) (f_vx s) (f_nx s) (f_vn s) (f_nn s) (f_inits s) (f_mod s) W (Hc g (or_introl eq_refl)))
    as [A [B [C _]]].
  pose proof (fix_run_frame g (f_own s) (f_vx s) (f_nx s) (f_vn s) (f_nn s) (f_inits s) (f_mod s) w W (Hc g (or_introl eq_refl))
                (Hw g (or_introl eq_refl))) as F.
  unfold fbind. destruct (fix_graph_names g (f_own s) (f_vx s) (f_nx s) (f_vn s) (f_nn s) (f_inits s) (f_mod s)) as [s1 e].
  simpl in *. subst e. rewrite IH; [exact F | exact B | |].
  - intros g' Hg'. eapply closed_run_equiv; [exact C|]. apply Hc. right. exact Hg'.
  - intros g' Hg' X. apply (Hw g' (or_intror Hg')). eapply run_vals_equiv; [exact C | exact X].
Qed.

Lemma fix_all_frame_nodes gs : forall s a,
  (forall g, In g gs -> ~ In a (ev_nodes (events_graph g))) -> f_nn (fst (fix_all gs s)) a = f_nn s a.
Proof.
  induction gs as [|g r IH]; intros s a Ha; simpl; [reflexivity|].
  assert (F : f_nn (fst (fix_graph_names g (f_own s) (f_vx s) (f_nx s) (f_vn s) (f_nn s) (f_inits s) (f_mod s))) a = f_nn s a).
  { unfold fix_graph_names. destruct (collect_names _ _ _ _) as [rv rn].
    rewrite fx_events_nn; [reflexivity|]. apply Ha. left. reflexivity. }
  unfold fbind. destruct (fix_graph_names g (f_own s) (f_vx s) (f_nx s) (f_vn s) (f_nn s) (f_inits s) (f_mod s)) as [s1 [e|]]; simpl in *; [exact F|].
  rewrite IH; [exact F|]. intros g' Hg'. apply Ha. right. exact Hg'.
Qed.

(* C15_fix_keeps_unique for the whole pass, values: the graphs of the model (main graph, functions) meet
   pairwise disjoint sets of values (functions are closed), the value is met by graph g, and no other value
   met by g carries its non-empty name. *)
Theorem pass_keeps_unique_value l1 g l2 own vx nx vn nn inits v n main funcs :
  main :: funcs = l1 ++ g :: l2 ->
  WF0 vn inits -> (forall g', In g' (main :: funcs) -> closed_run (events_graph g') inits) ->
  vn v = Some n -> n <> [] -> run_vals (events_graph g) inits v ->
  (forall w, w <> v -> run_vals (events_graph g) inits w -> vn w <> Some n) ->
  (forall g' w, In g' (l1 ++ l2) -> run_vals (events_graph g) inits w -> ~ run_vals (events_graph g') inits w) ->
  f_vn (fst (name_fix_pass main funcs own vx nx vn nn inits)) v = Some n.
Proof.
  intros Hl W Hc Hv Hn Hin Hu Hd. unfold name_fix_pass. rewrite Hl.
  set (s0 := fx_init own vx nx [] [] vn nn inits false).
  assert (Hc' : forall g', In g' (l1 ++ g :: l2) -> closed_run (events_graph g') (f_inits s0)) by (rewrite <- Hl; exact Hc).
  rewrite fix_all_app.
  destruct (fix_all_total l1 s0 W) as [A1 [W1 M1]].
  { intros g' Hg'. apply Hc'. apply in_or_app. left. exact Hg'. }
  assert (F1 : forall w, run_vals (events_graph g) inits w -> f_vn (fst (fix_all l1 s0)) w = vn w).
  { intros w Hw. apply (fix_all_frame l1 s0 w W).
    - intros g' Hg'. apply Hc'. apply in_or_app. left. exact Hg'.
    - intros g' Hg'. apply Hd; [apply in_or_app; left; exact Hg' | exact Hw]. }
  unfold fbind at 1. destruct (fix_all l1 s0) as [s1 e1]. simpl in *. subst e1.
  assert (C1 : closed_run (events_graph g) (f_inits s1)).
  { eapply closed_run_equiv; [exact M1|]. apply Hc'. apply in_or_app. right. left. reflexivity. }
  destruct (fix_run_total g (f_own s1) (f_vx s1) (f_nx s1) (f_vn s1) (f_nn s1) (f_inits s1) (f_mod s1) W1 C1) as [A2 [W2 [M2 _]]].
  assert (K : f_vn (fst (fix_graph_names g (f_own s1) (f_vx s1) (f_nx s1) (f_vn s1) (f_nn s1) (f_inits s1) (f_mod s1))) v = Some n).
  { apply fix_keeps_unique_value_run; try assumption.
    - rewrite F1; assumption.
    - eapply run_vals_equiv; [apply mem_equiv_sym; exact M1 | exact Hin].
    - intros w Hw Hr. assert (Hr' : run_vals (events_graph g) inits w) by (eapply run_vals_equiv; [exact M1 | exact Hr]).
      rewrite (F1 w Hr'). apply Hu; assumption. }
  unfold fbind. destruct (fix_graph_names g (f_own s1) (f_vx s1) (f_nx s1) (f_vn s1) (f_nn s1) (f_inits s1) (f_mod s1)) as [s2 e2].
  simpl in *. subst e2.
  rewrite (fix_all_frame l2 s2 v W2); [exact K| |].
  - intros g' Hg'. eapply closed_run_equiv; [eapply mem_equiv_trans; [exact M2 | exact M1]|].
    apply Hc'. apply in_or_app. right. right. exact Hg'.
  - intros g' Hg' X. apply (Hd g' v); [apply in_or_app; right; exact Hg' | exact Hin|].
    eapply run_vals_equiv; [eapply mem_equiv_trans; [exact M2 | exact M1] | exact X].
Qed.

(* ... and node names: no node is met twice, the node is met by graph g only *)
Theorem pass_keeps_unique_node l1 g l2 own vx nx vn nn inits a n main funcs :
  main :: funcs = l1 ++ g :: l2 ->
  WF0 vn inits -> (forall g', In g' (main :: funcs) -> closed_run (events_graph g') inits) ->
  NoDup (ev_nodes (events_graph g)) ->
  nn a = Some n -> n <> [] -> In a (ev_nodes (events_graph g)) ->
  (forall b, b <> a -> In b (ev_nodes (events_graph g)) -> nn b <> Some n) ->
  (forall g' b, In g' (l1 ++ l2) -> In b (ev_nodes (events_graph g)) -> ~ In b (ev_nodes (events_graph g'))) ->
  f_nn (fst (name_fix_pass main funcs own vx nx vn nn inits)) a = Some n.
Proof.
  intros Hl W Hc ND Ha Hn Hin Hu Hd. unfold name_fix_pass. rewrite Hl.
  set (s0 := fx_init own vx nx [] [] vn nn inits false).
  assert (Hc' : forall g', In g' (l1 ++ g :: l2) -> closed_run (events_graph g') (f_inits s0)) by (rewrite <- Hl; exact Hc).
  rewrite fix_all_app.
  destruct (fix_all_total l1 s0 W) as [A1 [W1 M1]].
  { intros g' Hg'. apply Hc'. apply in_or_app. left. exact Hg'. }
  assert (F1 : forall b, In b (ev_nodes (events_graph g)) -> f_nn (fst (fix_all l1 s0)) b = nn b).
  { intros b Hb. apply (fix_all_frame_nodes l1 s0 b). intros g' Hg'. apply Hd; [apply in_or_app; left; exact Hg' | exact Hb]. }
  unfold fbind at 1. destruct (fix_all l1 s0) as [s1 e1]. simpl in *. subst e1.
  assert (C1 : closed_run (events_graph g) (f_inits s1)).
  { eapply closed_run_equiv; [exact M1|]. apply Hc'. apply in_or_app. right. left. reflexivity. }
  destruct (fix_run_total g (f_own s1) (f_vx s1) (f_nx s1) (f_vn s1) (f_nn s1) (f_inits s1) (f_mod s1) W1 C1) as [A2 _].
  assert (K : f_nn (fst (fix_graph_names g (f_own s1) (f_vx s1) (f_nx s1) (f_vn s1) (f_nn s1) (f_inits s1) (f_mod s1))) a = Some n).
  { destruct (fix_graph_names g (f_own s1) (f_vx s1) (f_nx s1) (f_vn s1) (f_nn s1) (f_inits s1) (f_mod s1)) as [s2 e2] eqn:E2.
    simpl in A2. subst e2. simpl.
    apply (fix_keeps_unique_node_run g (f_own s1) (f_vx s1) (f_nx s1) (f_vn s1) (f_nn s1) (f_inits s1) (f_mod s1) a n ND); try assumption.
    - rewrite F1; assumption.
    - intros b Hb Hbin. rewrite (F1 b Hbin). apply Hu; assumption. }
  unfold fbind. destruct (fix_graph_names g (f_own s1) (f_vx s1) (f_nx s1) (f_vn s1) (f_nn s1) (f_inits s1) (f_mod s1)) as [s2 e2].
  simpl in *. subst e2.
  rewrite (fix_all_frame_nodes l2 s2 a); [exact K|].
  intros g' Hg'. apply Hd; [apply in_or_app; right; exact Hg' | exact Hin].
Qed.

(* C15/ProofsB16.v — the ghost run for the code after fix 5fabe37: a value first met in a nested scope is also a
   member of the scopes of the graph that owns it and of the graphs in between (when that graph's scope is open).
   Invariant GInv2 = GInv + the scope stack is a chain (every scope's used set contains the one below). *)
From Coq Require Import NArith List Bool Lia.
From IRV Require Import Base.Exn C15.Model C15.ProofsA C15.ProofsA2 C15.ProofsB2 C15.ProofsB3 C15.ProofsC C15.ProofsC3
  C15.ProofsB4 C15.ProofsB5 C15.ProofsB6 C15.ProofsB7.
Import ListNotations.
Open Scope N_scope.

Section Ghost2.
  Variable own : N -> option N.

  Definition owned_in (l : list N) (v : N) : bool := match own v with Some o => memN o l | None => false end.

  (* the scopes below the top: level with owners (o :: so') gets the new values owned by one of those graphs *)
  Fixpoint lower (new : list N) (so : list N) (rest : list (list N)) : list (list N) :=
    match so, rest with
    | o :: so', M :: rest' => (filter (owned_in (o :: so')) new ++ M) :: lower new so' rest'
    | _, _ => rest
    end.

  Definition touches2 (so : list N) (ws : list N) (g : gh) : gh :=
    match g_m g with
    | [] => g
    | top :: rest =>
        let new := filter (unseen_in (g_sn g)) ws in
        mkGh ((new ++ top) :: lower new (tl so) rest) (ws ++ g_sn g) (g_cl g)
             (g_ok g && forallb (fun v => unseen_in (g_sn g) v || memN v top) ws)
    end.

  Record gh2 := mkH { h_g : gh; h_so : list N }.

  Definition gh2_step (dv : N -> list N) (e : ev) (h : gh2) : gh2 :=
    let g := h_g h in
    match e with
    | EEnter gid isfunc ins outs =>
        match g_m g with
        | [] => h
        | top :: _ =>
            let so := gid :: h_so h in
            mkH (touches2 so (if isfunc then [] else dv gid)
                   (touches2 so outs (touches2 so ins (mkGh (top :: g_m g) (g_sn g) (g_cl g) (g_ok g))))) so
        end
    | EExit => match g_m g with
               | [] => h
               | top :: rest => mkH (mkGh rest (g_sn g) (top :: g_cl g) (g_ok g)) (tl (h_so h))
               end
    | ENode _ nins nouts => mkH (touches2 (h_so h) nouts (touches2 (h_so h) (somes nins) g)) (h_so h)
    end.
  Definition gh2_events (dv : N -> list N) (es : list ev) (h : gh2) : gh2 := fold_left (fun h e => gh2_step dv e h) es h.
  Definition gh2_0 : gh2 := mkH gh0 [].

  (* ---------- lower / add_upto *)
  Lemma add_upto_below g x os : forall us, (length os <= length us)%nat -> snd (add_upto g x os us) = memN g os.
  Proof.
    induction os as [|o os IH]; intros us Hl; simpl; [reflexivity|].
    destruct us as [|u us]; simpl in Hl; [lia|].
    specialize (IH us (le_S_n _ _ Hl)). destruct (add_upto g x os us) as [us' below]. simpl in *. subst below.
    rewrite (N.eqb_sym o g), orb_comm. destruct (N.eqb g o || memN g os); reflexivity.
  Qed.

  Definition chain (l : list (list name)) : Prop :=
    forall i u v, nth_error l i = Some u -> nth_error l (S i) = Some v -> incl v u.

  Lemma chain_cons u l : chain (u :: l) <-> (match l with [] => True | v :: _ => incl v u end) /\ chain l.
  Proof.
    unfold chain. split.
    - intros H. split.
      + destruct l as [|v r]; [exact I|]. apply (H 0%nat u v); reflexivity.
      + intros i a b A B. apply (H (S i) a b); assumption.
    - intros [H1 H2] i a b A B. destruct i as [|i]; simpl in *.
      + inversion A; subst. destruct l as [|v r]; [discriminate|]. inversion B; subst. exact H1.
      + apply (H2 i a b); assumption.
  Qed.

  Lemma chain_below u l : chain (u :: l) -> forall w, In w l -> incl w u.
  Proof.
    revert u. induction l as [|v r IH]; intros u H w Hw; [destruct Hw|].
    apply chain_cons in H. destruct H as [H1 H2]. destruct Hw as [<-|Hw]; [exact H1|].
    eapply incl_tran; [apply (IH v H2 w Hw) | exact H1].
  Qed.

  (* ---------- set-level algebra of lower / touches2 *)
  Lemma lower_app a b so : forall rest, lower a so (lower b so rest) = lower (a ++ b) so rest.
  Proof.
    induction so as [|o so IH]; intros rest; simpl; [reflexivity|].
    destruct rest as [|M rest]; simpl; [reflexivity|]. rewrite IH, filter_app, app_assoc. reflexivity.
  Qed.

  Lemma lower_seteq a a' so : seteq a a' -> forall rest rest', Forall2 seteq rest rest' ->
    Forall2 seteq (lower a so rest) (lower a' so rest').
  Proof.
    intros H. induction so as [|o so IH]; intros rest rest' F; simpl; [exact F|].
    inversion F as [|M M' r r' HM Hr]; subst; [constructor|]. constructor; [|apply IH; exact Hr].
    intros x. rewrite !in_app_iff, !filter_In, (H x), (HM x). tauto.
  Qed.

  Lemma lower_nil so : forall rest, lower [] so rest = rest.
  Proof. induction so as [|o so IH]; intros [|M rest]; simpl; try reflexivity. rewrite IH. reflexivity. Qed.

  Lemma lower_length new so : forall rest, length (lower new so rest) = length rest.
  Proof. induction so as [|o so IH]; intros [|M rest]; simpl; try reflexivity. rewrite IH. reflexivity. Qed.

  Lemma lower_grows new so : forall rest, Forall2 (@incl N) rest (lower new so rest).
  Proof.
    induction so as [|o so IH]; intros rest; simpl.
    - induction rest; constructor; [apply incl_refl | assumption].
    - destruct rest as [|M rest]; constructor; [apply incl_appr, incl_refl | apply IH].
  Qed.

  Lemma touches2_nil so g : geq (touches2 so [] g) g.
  Proof.
    destruct g as [[|top rest] sn cl ok]; unfold touches2; simpl.
    - split; [constructor|]. split; [intros x; tauto | reflexivity].
    - rewrite lower_nil. split; [apply Forall2_seteq_refl|]. split; [intros x; tauto | reflexivity].
  Qed.

  Lemma new_split v r sn x :
    In x (filter (unseen_in sn) (v :: r)) <->
    In x (filter (unseen_in (v :: sn)) r ++ filter (unseen_in sn) [v]).
  Proof.
    rewrite in_app_iff, !filter_unseen_In. simpl.
    destruct (in_dec N.eq_dec v sn) as [Hv|Hv].
    - intuition congruence.
    - destruct (N.eq_dec x v) as [->|Hne]; [tauto | intuition congruence].
  Qed.

  Lemma touches2_cons so v r g : geq (touches2 so r (touches2 so [v] g)) (touches2 so (v :: r) g).
  Proof.
    destruct g as [[|top rest] sn cl ok]; unfold touches2; simpl.
    - split; [constructor|]. split; [intros x; tauto | reflexivity].
    - split; [|split; [|reflexivity]]; simpl.
      + constructor.
        * intros x. rewrite app_assoc, in_app_iff, (in_app_iff _ top). rewrite <- new_split. simpl. tauto.
        * rewrite lower_app. apply lower_seteq; [|apply Forall2_seteq_refl].
          intros x. symmetry. apply (new_split v r sn x).
      + intros x. simpl. rewrite !in_app_iff. simpl. tauto.
  Qed.

  Lemma touches2_seteq so ws ws' g : seteq ws ws' -> geq (touches2 so ws g) (touches2 so ws' g).
  Proof.
    intros H. destruct g as [[|top rest] sn cl ok]; unfold touches2; simpl.
    - split; [constructor|]. split; [intros x; tauto | reflexivity].
    - assert (Hn : seteq (filter (unseen_in sn) ws) (filter (unseen_in sn) ws')).
      { intros x. rewrite !filter_unseen_In, (H x). tauto. }
      split; [|split; [|reflexivity]]; simpl.
      + constructor; [intros x; rewrite !in_app_iff, (Hn x); tauto|].
        apply lower_seteq; [exact Hn | apply Forall2_seteq_refl].
      + intros x. rewrite !in_app_iff, (H x). tauto.
  Qed.

  (* ---------- frame facts about process_value the ghost needs *)
  Lemma process_value_so v s : f_so (fst (process_value v s)) = f_so s /\ f_own (fst (process_value v s)) = f_own s.
  Proof.
    unfold process_value. destruct (memN v (f_seen s)); [auto|].
    destruct (f_vscopes s); [auto|].
    match goal with |- context [if ?c then _ else _] => destruct c end; [auto|].
    destruct (find_unique _ _ _ _) as [[[a b] c]|]; [|auto].
    destruct (set_vname _ _ _ _) as [[x y]|]; auto.
  Qed.

  Lemma add_upto_same g x os : forall us, memN g os = false -> add_upto g x os us = (us, false).
  Proof.
    induction os as [|o os IH]; intros us H; simpl; [destruct us; reflexivity|].
    destruct us as [|u us]; [reflexivity|]. simpl in H. apply orb_false_iff in H. destruct H as [H1 H2].
    rewrite (IH us H2). simpl. rewrite (N.eqb_sym o g), H1. reflexivity.
  Qed.

  (* ---------- the link invariant *)
  Record GInv2 (h : gh2) (s : fstate) : Prop := {
    g2_inv : GInv (h_g h) s;
    g2_so : h_so h = f_so s;
    g2_own : f_own s = own;
    g2_len : length (f_vscopes s) = S (length (f_so s));
    g2_chain : chain (f_vscopes s)
  }.

  Lemma GInv2_equiv g g' so s : geq g g' -> GInv2 (mkH g so) s -> GInv2 (mkH g' so) s.
  Proof. intros E [A B C D F]. constructor; simpl in *; try assumption. eapply GInv_equiv; eassumption. Qed.

  (* one level of the recording: the ghost's `lower` against the model's add_upto *)
  Lemma lower_add_upto s v x o : f_vn s v = Some x -> x <> [] -> own v = Some o ->
    forall orest rest restU, Forall2 (named_in s) rest restU -> (length orest <= length restU)%nat ->
    Forall2 (named_in s) (lower [v] orest rest) (fst (add_upto o x orest restU)).
  Proof.
    intros Hx Hx0 Ho. induction orest as [|o1 os IH]; intros rest restU F L; simpl; [exact F|].
    inversion F as [|M u rest' us HMu Hr]; subst; [constructor|]. simpl in L.
    pose proof (add_upto_below o x os us (le_S_n _ _ L)) as Hb.
    specialize (IH rest' us Hr (le_S_n _ _ L)).
    destruct (add_upto o x os us) as [us' below]. simpl in *. subst below.
    unfold owned_in at 1. rewrite Ho. simpl. rewrite (N.eqb_sym o o1).
    destruct (memN o os || N.eqb o1 o) eqn:E; rewrite (orb_comm (N.eqb o1 o)), E; simpl; constructor; try exact IH.
    - intros w [<-|Hw].
      + exists x. split; [exact Hx|]. split; [exact Hx0 | apply sadd_In; left; reflexivity].
      + destruct (HMu w Hw) as [y [Y1 [Y2 Y3]]]. exists y. split; [exact Y1|]. split; [exact Y2 | apply sadd_In; right; exact Y3].
    - exact HMu.
  Qed.

  Lemma lower_levels v orest : forall rest, Forall2 (fun M M' => M' = M \/ M' = v :: M) rest (lower [v] orest rest).
  Proof.
    induction orest as [|o os IH]; intros rest; simpl.
    - induction rest; constructor; auto.
    - destruct rest as [|M rest]; constructor; [|apply IH].
      destruct (owned_in (o :: os) v); simpl; auto.
  Qed.

  Lemma add_upto_chain o x : forall orest top restU, (length orest <= length restU)%nat ->
    chain (top :: restU) -> In x top -> chain (top :: fst (add_upto o x orest restU)).
  Proof.
    induction orest as [|o1 os IH]; intros top restU L C Hx; simpl; [exact C|].
    destruct restU as [|u us]; [exact C|]. simpl in L.
    pose proof (add_upto_below o x os us (le_S_n _ _ L)) as Hb.
    apply chain_cons in C. destruct C as [C1 C2].
    destruct (memN o os || N.eqb o1 o) eqn:F.
    - assert (Hu : chain (sadd x u :: us)).
      { apply chain_cons. apply chain_cons in C2. destruct C2 as [C3 C4]. split; [|exact C4].
        destruct us as [|u2 r]; [exact I|]. intros y Hy. apply sadd_In. right. apply C3. exact Hy. }
      specialize (IH (sadd x u) us (le_S_n _ _ L) Hu (proj2 (sadd_In x x u) (or_introl eq_refl))).
      destruct (add_upto o x os us) as [us' below]. simpl in *. subst below. rewrite F. simpl.
      apply chain_cons. split; [|exact IH].
      intros y Hy. apply sadd_In in Hy. destruct Hy as [->|Hy]; [exact Hx | apply C1; exact Hy].
    - apply orb_false_iff in F. destruct F as [F1 F2].
      rewrite (add_upto_same o x os us F1). simpl. rewrite F2. simpl.
      apply chain_cons. split; [exact C1 | exact C2].
  Qed.

  Lemma Forall2_In_l {A B} (R : A -> B -> Prop) l l' x : Forall2 R l l' -> In x l -> exists y, In y l' /\ R x y.
  Proof.
    induction 1 as [|a b r r' Hab _ IH]; intros H; [destruct H|].
    destruct H as [<-|H]; [exists b; split; [left; reflexivity | exact Hab]|].
    destruct (IH H) as [y [X Y]]. exists y. split; [right; exact X | exact Y].
  Qed.

  (* ---------- one value *)
  Lemma process_value_rec_ghost2 v s s' g so :
    process_value_rec v s = (s', None) -> GInv2 (mkH g so) s -> GInv2 (mkH (touches2 so [v] g) so) s'.
  Proof.
    intros H [G Hso Hown Hlen Hch]. simpl in *. subst so.
    destruct (process_value_rec_ok _ _ _ H) as [s1 [E ->]].
    pose proof (process_value_so v s) as [So Ow]. rewrite E in So, Ow. simpl in So, Ow.
    destruct (memN v (f_seen s)) eqn:Es; simpl.
    - (* seen: nothing changes *)
      assert (s1 = s) by (unfold process_value in E; rewrite Es in E; inversion E; reflexivity). subst s1.
      apply memN_In in Es.
      apply (GInv2_equiv g); [|constructor; simpl; assumption].
      destruct g as [[|top rest] sn cl ok]; unfold touches2; simpl.
      + split; [constructor|]. split; [intros x; tauto | reflexivity].
      + assert (Hin : In v sn) by (apply (gi_seen _ _ G); exact Es).
        assert (Hm : memN v sn = true) by (apply memN_In; exact Hin).
        unfold unseen_in. rewrite Hm. simpl. rewrite lower_nil.
        split; [apply Forall2_seteq_refl|]. split; [|reflexivity].
        intros x. simpl. split; [intros X; right; exact X | intros [<-|X]; assumption].
    - (* first visit *)
      destruct (f_vscopes s) as [|used restU] eqn:Hsc.
      { unfold process_value in E. rewrite Es, Hsc in E. inversion E. }
      pose proof (process_value_spec v s used restU Hsc) as S. rewrite E, Es in S.
      destruct S as [new [A1 [A2 [A3 [A4 [A5 [A6 _]]]]]]].
      pose proof (process_value_ghost v s s1 g E G) as G1.
      apply memN_nIn in Es.
      pose proof (gi_stack _ _ G) as St. rewrite Hsc in St.
      inversion St as [|top U rest Us Htop Hrest Em E2]; subst U Us.
      assert (Hns : ~ In v (g_sn g)) by (intros X; apply Es; apply (gi_seen _ _ G); exact X).
      assert (Ef : filter (unseen_in (g_sn g)) [v] = [v]).
      { simpl. unfold unseen_in. apply memN_nIn in Hns. rewrite Hns. reflexivity. }
      assert (T1 : touches [v] g = mkGh ((v :: top) :: rest) (v :: g_sn g) (g_cl g)
                      (g_ok g && forallb (fun w => unseen_in (g_sn g) w || memN w top) [v])).
      { unfold touches. rewrite <- Em, Ef. reflexivity. }
      assert (T2 : touches2 (f_so s) [v] g = mkGh ((v :: top) :: lower [v] (tl (f_so s)) rest) (v :: g_sn g) (g_cl g)
                      (g_ok g && forallb (fun w => unseen_in (g_sn g) w || memN w top) [v])).
      { unfold touches2. rewrite <- Em, Ef. reflexivity. }
      rewrite T1 in G1. rewrite T2. destruct G1 as [B1 B2 B3 B4 B5]. simpl in *.
      rewrite A4 in B1. inversion B1 as [|? ? ? ? Htop1 Hrest1]; subst.
      simpl in Hlen.
      (* the scopes after the recording *)
      assert (Hrc : exists restU', rc_scopes v s1 = (new :: used) :: restU' /\
                 Forall2 (named_in s1) (lower [v] (tl (f_so s)) rest) restU' /\ chain ((new :: used) :: restU') /\
                 length restU' = length restU).
      { unfold rc_scopes. rewrite Ow, Hown, A1, A4, So.
        assert (Ch1 : chain ((new :: used) :: restU)).
        { apply chain_cons. apply chain_cons in Hch. destruct Hch as [C1 C2]. split; [|exact C2].
          destruct restU as [|u r]; [exact I|]. intros y Hy. right. apply C1. exact Hy. }
        destruct (own v) as [o|] eqn:Eo.
        - destruct (f_so s) as [|otop orest] eqn:Eso.
          + exists restU. simpl. split; [reflexivity|]. split; [exact Hrest1|]. split; [exact Ch1 | reflexivity].
          + exists (fst (add_upto o new orest restU)). simpl. simpl in Hlen.
            split; [reflexivity|]. split; [|split].
            * apply lower_add_upto; try assumption. lia.
            * apply add_upto_chain; [lia | exact Ch1 | left; reflexivity].
            * pose proof (add_upto_grown o new orest restU) as Gr. symmetry. apply (Forall2_length _ _ _ Gr).
        - exists restU. split; [reflexivity|]. split; [|split; [exact Ch1 | reflexivity]].
          assert (L0 : forall os r, lower [v] os r = r).
          { induction os as [|o os IH]; intros [|M r]; simpl; try reflexivity.
            unfold owned_in. rewrite Eo. simpl. rewrite IH. reflexivity. }
          rewrite L0. exact Hrest1. }
      destruct Hrc as [restU' [Erc [Fl [Chl Ll]]]].
      pose proof (lower_levels v (tl (f_so s)) rest) as Lv.
      assert (Hbelow : forall u, In u restU -> incl u used).
      { intros u Hu. apply (chain_below used restU Hch u Hu). }
      constructor; simpl.
      + constructor; simpl.
        * rewrite Erc. constructor; [exact Htop1 | exact Fl].
        * intros M HM a b Ha Hb Hne. destruct HM as [<-|HM]; [|apply in_app_or in HM; destruct HM as [HM|HM]].
          -- apply (B2 (v :: top)); [left; reflexivity | | | ]; assumption.
          -- destruct (Forall2_In_r _ _ _ _ Lv HM) as [M0 [HM0 [-> | ->]]].
             ++ apply (B2 M0); [right; apply in_or_app; left; exact HM0 | | | ]; assumption.
             ++ (* v joined the members of a lower scope: its new name is not in that scope's used set *)
                destruct (Forall2_In_l _ _ _ _ Hrest1 HM0) as [u [Hu Hnamed]].
                assert (Hv : forall w, In w M0 -> f_vn s1 w <> Some new).
                { intros w Hw X. destruct (Hnamed w Hw) as [y [Y1 [_ Y3]]]. assert (y = new) by congruence. subst y.
                  apply A3. apply (Hbelow u Hu). exact Y3. }
                destruct Ha as [<-|Ha]; destruct Hb as [<-|Hb].
                ** congruence.
                ** rewrite A1. intros X. apply (Hv b Hb). congruence.
                ** rewrite A1. apply Hv. exact Ha.
                ** apply (B2 M0); [right; apply in_or_app; left; exact HM0 | | | ]; assumption.
          -- apply (B2 M); [right; apply in_or_app; right; exact HM | | | ]; assumption.
        * intros M HM a Ha. destruct HM as [<-|HM]; [|apply in_app_or in HM; destruct HM as [HM|HM]].
          -- apply (B3 (v :: top)); [left; reflexivity | exact Ha].
          -- destruct (Forall2_In_r _ _ _ _ Lv HM) as [M0 [HM0 [-> | ->]]].
             ++ apply (B3 M0); [right; apply in_or_app; left; exact HM0 | exact Ha].
             ++ destruct Ha as [<-|Ha]; [rewrite A5; left; reflexivity|].
                apply (B3 M0); [right; apply in_or_app; left; exact HM0 | exact Ha].
          -- apply (B3 M); [right; apply in_or_app; right; exact HM | exact Ha].
        * exact B4.
        * exact B5.
      + congruence.
      + congruence.
      + rewrite Erc. simpl. rewrite Ll, So. simpl in Hlen. exact Hlen.
      + rewrite Erc. exact Chl.
  Qed.

  Lemma process_values_ghost2 ws : forall s s' g so,
    process_values ws s = (s', None) -> GInv2 (mkH g so) s -> GInv2 (mkH (touches2 so ws g) so) s'.
  Proof.
    induction ws as [|v r IH]; intros s s' g so H G; simpl in H.
    - inversion H; subst. apply (GInv2_equiv g); [apply geq_sym, touches2_nil | exact G].
    - unfold fbind in H. destruct (process_value_rec v s) as [s1 [e|]] eqn:E1; simpl in H; [inversion H|].
      apply (GInv2_equiv (touches2 so r (touches2 so [v] g))); [apply touches2_cons|].
      apply (IH s1 s' _ so H). apply (process_value_rec_ghost2 v s s1 g so E1 G).
  Qed.

  Lemma process_node_name_so m s :
    f_so (fst (process_node_name m s)) = f_so s /\ f_own (fst (process_node_name m s)) = f_own s /\
    f_vscopes (fst (process_node_name m s)) = f_vscopes s.
  Proof.
    unfold process_node_name. destruct (f_nscopes s); [auto|].
    match goal with |- context [if ?c then _ else _] => destruct c end; [auto|].
    destruct (find_unique _ _ _ _) as [[[a b] c]|]; auto.
  Qed.

  Lemma node_name_GInv2 m s s' h : process_node_name m s = (s', None) -> GInv2 h s -> GInv2 h s'.
  Proof.
    intros H [G A B C D]. pose proof (process_node_name_so m s) as [X [Y Z]]. rewrite H in X, Y, Z. simpl in *.
    constructor.
    - eapply node_name_GInv; eassumption.
    - congruence.
    - congruence.
    - rewrite Z, X. exact C.
    - rewrite Z. exact D.
  Qed.
End Ghost2.

Section Lock2.
  Variables (vn0 : N -> option name) (inits0 : list (N * idict)) (rv : list name) (E : list N) (own : N -> option N).
  Hypothesis W : WF0 vn0 inits0.
  Notation TI := (TInv vn0 inits0 rv E).
  Notation dv0 := (dv inits0).

  Lemma fx_step_both2 e s s' h :
    ev_closed inits0 E e -> (e = EExit -> f_so s <> []) -> fx_step e s = (s', None) -> TI s -> GInv2 own h s ->
    TI s' /\ GInv2 own (gh2_step own dv0 e h) s'.
  Proof.
    intros Hc Hex H T G2.
    assert (T' : TI s').
    { destruct (fx_step_good vn0 inits0 rv E W e Hc s T) as [_ B]. rewrite H in B. apply B. reflexivity. }
    split; [exact T'|].
    destruct h as [g so]. destruct G2 as [G Hso Hown Hlen Hch]. simpl in Hso. subst so.
    destruct e as [gid isfunc ins outs| |nid nins nouts]; simpl in *.
    - destruct (f_vscopes s) as [|topu restu] eqn:Hsc; [inversion H|].
      destruct Hc as [Hio HgE]. apply Forall_app in Hio. destruct Hio as [Hi Ho].
      pose proof (gi_stack _ _ G) as St. rewrite Hsc in St. inversion St as [|top U rest Us Htop Hrest E1 E2]; subst U Us.
      set (s1 := mkF (f_own s) (gid :: f_so s) (f_vx s) (f_nx s) (f_rv s) (f_rn s) (f_vn s) (f_nn s) (f_inits s) (f_seen s) (f_vcnt s) (f_ncnt s)
                     (topu :: topu :: restu) ([] :: f_nscopes s) (f_mod s)) in *.
      set (g1 := mkGh (top :: top :: rest) (g_sn g) (g_cl g) (g_ok g)).
      assert (T1 : TI s1) by (destruct T as [a b c d f0 g0 h]; constructor; simpl; assumption).
      assert (G1 : GInv2 own (mkH g1 (gid :: f_so s)) s1).
      { constructor; simpl; try assumption; try reflexivity.
        - destruct G as [A B C D F]. rewrite <- E1 in *. constructor; simpl; try assumption.
          + constructor; [exact Htop | exact St].
          + intros M [<-|HM]; [apply (B top); left; reflexivity | apply (B M HM)].
          + intros M [<-|HM]; [apply (C top); left; reflexivity | apply (C M HM)].
        - simpl in Hlen. simpl. lia.
        - apply chain_cons. split; [apply incl_refl | exact Hch]. }
      unfold fbind in H.
      destruct (process_values ins s1) as [s2 [e2|]] eqn:E2'; simpl in H; [inversion H|].
      destruct (process_values outs s2) as [s3 [e3|]] eqn:E3'; simpl in H; [inversion H|].
      assert (T2 : TI s2).
      { destruct (process_values_good vn0 inits0 rv E W ins Hi s1 T1) as [_ B]. rewrite E2' in B. apply B. reflexivity. }
      assert (T3 : TI s3).
      { destruct (process_values_good vn0 inits0 rv E W outs Ho s2 T2) as [_ B]. rewrite E3' in B. apply B. reflexivity. }
      pose proof (process_values_ghost2 own ins _ _ _ _ E2' G1) as G2.
      pose proof (process_values_ghost2 own outs _ _ _ _ E3' G2) as G3.
      rewrite <- ?E1. fold g1.
      destruct isfunc.
      + injection H as Hs'. subst s'. eapply GInv2_equiv; [apply geq_sym, touches2_nil | exact G3].
      + pose proof (process_values_ghost2 own _ _ _ _ _ H G3) as G4.
        eapply GInv2_equiv; [|exact G4]. apply touches2_seteq.
        intros x. unfold dv. rewrite !in_map_iff. split.
        * intros [[k x'] [Ex X]]. simpl in Ex. subst x'.
          destruct (proj1 (t_mem _ _ _ _ _ T3 gid x) (ex_intro _ k X)) as [k0 X0]. exists (k0, x). auto.
        * intros [[k x'] [Ex X]]. simpl in Ex. subst x'.
          destruct (proj2 (t_mem _ _ _ _ _ T3 gid x) (ex_intro _ k X)) as [k0 X0]. exists (k0, x). auto.
    - injection H as Hs'. subst s'. specialize (Hex eq_refl).
      destruct G as [A B C D F]. simpl in *.
      destruct (f_vscopes s) as [|U Us] eqn:Hsc; [simpl in Hlen; discriminate|].
      destruct (g_m g) as [|top rest] eqn:Em; [inversion A|].
      inversion A as [|? ? ? ? Htop Hrest]. subst.
      destruct (f_so s) as [|o so'] eqn:Eso; [contradiction|].
      apply chain_cons in Hch. simpl in Hlen.
      constructor; simpl.
      + constructor; simpl; try assumption.
        * intros M HM. apply (B M). apply in_app_or in HM. apply in_or_app.
          destruct HM as [HM|[<-|HM]]; [left; right; exact HM | left; left; reflexivity | right; exact HM].
        * intros M HM. apply (C M). apply in_app_or in HM. apply in_or_app.
          destruct HM as [HM|[<-|HM]]; [left; right; exact HM | left; left; reflexivity | right; exact HM].
      + reflexivity.
      + reflexivity.
      + lia.
      + exact (proj2 Hch).
    - unfold fbind in H.
      destruct (process_node_name nid s) as [s1 [e1|]] eqn:E1'; simpl in H; [inversion H|].
      destruct (process_values (somes nins) s1) as [s2 [e2|]] eqn:E2'; simpl in H; [inversion H|].
      assert (G0 : GInv2 own (mkH g (f_so s)) s) by (constructor; simpl; try assumption; reflexivity).
      pose proof (node_name_GInv2 own _ _ _ _ E1' G0) as G1.
      pose proof (process_values_ghost2 own _ _ _ _ _ E2' G1) as G2.
      exact (process_values_ghost2 own _ _ _ _ _ H G2).
  Qed.

  Lemma fx_events_both2 es : forall s s' h,
    Forall (ev_closed inits0 E) es -> wb (length (f_so s)) es -> fx_events es s = (s', None) -> TI s -> GInv2 own h s ->
    TI s' /\ GInv2 own (gh2_events own dv0 es h) s'.
  Proof.
    induction es as [|e r IH]; intros s s' h Hc Hw H T G; simpl in *.
    - inversion H; subst. auto.
    - inversion Hc; subst. unfold fbind in H.
      destruct (fx_step e s) as [s1 [e1|]] eqn:E1; simpl in H; [inversion H|].
      assert (Hex : e = EExit -> f_so s <> []).
      { intros ->. simpl in Hw. destruct (f_so s); [destruct Hw | discriminate]. }
      destruct (fx_step_both2 e s s1 h H2 Hex E1 T G) as [T1 G1].
      apply (IH s1 s' _ H3); try assumption.
      (* depth bookkeeping *)
      rewrite <- (g2_so _ _ _ G1). destruct h as [g so]. pose proof (g2_so _ _ _ G) as Hso. simpl in Hso. subst so.
      assert (Hne : g_m g <> []).
      { intros X. pose proof (gi_stack _ _ (g2_inv _ _ _ G)) as St. simpl in St. rewrite X in St.
        pose proof (g2_len _ _ _ G) as L. destruct (f_vscopes s); [simpl in L; discriminate | inversion St]. }
      destruct e as [gid isfunc ins outs| |nid nins nouts]; simpl in *.
      + destruct (g_m g); [contradiction|]. simpl. exact Hw.
      + destruct (g_m g); [contradiction|]. simpl. destruct (f_so s); [destruct Hw | exact Hw].
      + exact Hw.
  Qed.
End Lock2.

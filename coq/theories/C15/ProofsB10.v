(* C15/ProofsB10.v — C15_fix_keeps_unique for node names (one run) and the node frame. *)
From Coq Require Import NArith List Bool Lia.
From IRV Require Import Base.Exn C15.Model C15.ProofsA C15.ProofsA2 C15.ProofsB2 C15.ProofsB3 C15.ProofsB7.
Import ListNotations.
Open Scope N_scope.

Lemma collect_nodes es vn nn inits a n :
  In a (ev_nodes es) -> nn a = Some n -> n <> [] -> In n (snd (collect_names es vn nn inits)).
Proof.
  intros H E Hn. destruct n as [|c n]; [congruence|].
  induction es as [|e r IH]; simpl in *; [destruct H|].
  destruct e as [gid isfunc ins outs| |nid nins nouts]; simpl in *.
  - destruct (collect_names r vn nn inits) as [x y]. simpl in *. apply IH. exact H.
  - apply IH. exact H.
  - destruct (collect_names r vn nn inits) as [x y]. simpl in *. destruct H as [<-|H].
    + rewrite E. left. reflexivity.
    + destruct (nn nid) as [[|c0 n0]|]; simpl; try (apply IH; exact H). right. apply IH. exact H.
Qed.

Section NKeep.
  Variables (nn0 : N -> option name) (rn : list name) (Pn : N -> Prop) (mt : N) (n : name).
  Hypothesis Hn : n <> [].
  Hypothesis Hu : forall a, a <> mt -> Pn a -> nn0 a <> Some n.
  Hypothesis Hr : In n rn.

  Record NK (rem : list N) (s : fstate) : Prop := {
    nk_scopes : forall u x, In u (f_nscopes s) -> In x u ->
                  (exists a, ~ In a rem /\ Pn a /\ nn0 a = Some x) \/ ~ In x rn;
    nk_rem : forall a, In a rem -> f_nn s a = nn0 a;
    nk_rn : f_rn s = rn;
    nk_target : f_nn s mt = Some n
  }.

  Lemma NK_frame rem s s' : f_nn s' = f_nn s -> f_nscopes s' = f_nscopes s -> f_rn s' = f_rn s -> NK rem s -> NK rem s'.
  Proof. intros A B C [P Q R S]. constructor; rewrite ?A, ?B, ?C; assumption. Qed.

  Lemma fx_step_nk e s s' rem :
    NoDup (ev_nodes [e] ++ rem) -> Forall Pn (ev_nodes [e]) -> In mt (ev_nodes [e] ++ rem) \/ True ->
    fx_step e s = (s', None) -> NK (ev_nodes [e] ++ rem) s -> NK rem s'.
  Proof.
    intros ND HP _ H K. destruct e as [gid isfunc ins outs| |nid nins nouts]; simpl in *.
    - destruct (f_vscopes s) as [|top rest]; [inversion H|]. unfold fbind in H.
      match type of H with context [process_values ins ?s0] => set (s1 := s0) in *; destruct (process_values ins s1) as [s2 [e2|]] eqn:E2 end; simpl in H; [inversion H|].
      destruct (process_values outs s2) as [s3 [e3|]] eqn:E3; simpl in H; [inversion H|].
      destruct (process_values_nodeframe _ _ _ E2) as [A2 [B2 C2]]. destruct (process_values_nodeframe _ _ _ E3) as [A3 [B3 C3]].
      assert (X : f_nn s' = f_nn s3 /\ f_nscopes s' = f_nscopes s3 /\ f_rn s' = f_rn s3).
      { destruct isfunc; [inversion H; subst; auto | apply (process_values_nodeframe _ _ _ H)]. }
      destruct X as [A4 [B4 C4]].
      assert (K1 : NK rem s1).
      { destruct K as [P Q R S]. constructor; simpl; try assumption.
        intros u x [<-|Iu] Ix; [destruct Ix | apply (P u x Iu Ix)]. }
      apply (NK_frame rem s1); [congruence | congruence | congruence | exact K1].
    - inversion H; subst. destruct K as [P Q R S]. constructor; simpl; try assumption.
      intros u x Iu Ix. apply (P u x); [|exact Ix]. destruct (f_nscopes s); [destruct Iu | right; exact Iu].
    - unfold fbind in H.
      destruct (process_node_name nid s) as [s1 [e1|]] eqn:E1; simpl in H; [inversion H|].
      destruct (process_values (somes nins) s1) as [s2 [e2|]] eqn:E2; simpl in H; [inversion H|].
      destruct (process_values_nodeframe _ _ _ E2) as [A2 [B2 C2]]. destruct (process_values_nodeframe _ _ _ H) as [A3 [B3 C3]].
      inversion ND as [|? ? Hnid ND']; subst. inversion HP as [|? ? Pnid _]; subst.
      destruct K as [P Q R S].
      destruct (f_nscopes s) as [|used restu] eqn:Hsc.
      { unfold process_node_name in E1. rewrite Hsc in E1. inversion E1. }
      destruct (process_node_name_spec nid s used restu Hsc) as (s1' & new & X1 & X2 & X3 & X4 & X5 & X6 & _ & _ & _ & _ & _ & X7 & _ & _ & X8 & X9).
      rewrite E1 in X1. inversion X1; subst s1'. clear X1.
      assert (Hn0 : f_nn s nid = nn0 nid) by (apply Q; left; reflexivity).
      apply (NK_frame rem s1); [congruence | congruence | congruence|].
      constructor.
      + intros u x Iu Ix. rewrite X5 in Iu.
        assert (Old : forall u0 x0, In u0 (used :: restu) -> In x0 u0 ->
                  (exists a, ~ In a rem /\ Pn a /\ nn0 a = Some x0) \/ ~ In x0 rn).
        { intros u0 x0 I0 J0. destruct (P u0 x0 I0 J0) as [[a [A1 [A2' A3']]]|A1]; [|right; exact A1].
          left. exists a. split; [|auto]. intros X. apply A1. right. exact X. }
        destruct Iu as [<-|Iu]; [|apply (Old u x); [right; exact Iu | exact Ix]].
        destruct Ix as [<-|Ix]; [|apply (Old used x); [left; reflexivity | exact Ix]].
        destruct (option_eqb name_eqb (f_nn s nid) (Some new)) eqn:Eq.
        * left. exists nid. split; [exact Hnid|]. split; [exact Pnid|]. rewrite <- Hn0.
          destruct (f_nn s nid) as [o|]; simpl in Eq; [|discriminate]. apply name_eqb_eq in Eq. congruence.
        * right. rewrite <- R. apply X9. intros X. rewrite X in Eq. simpl in Eq. rewrite name_eqb_refl in Eq. discriminate.
      + intros a Ha. rewrite X6; [apply Q; right; exact Ha|]. intros ->. contradiction.
      + congruence.
      + destruct (N.eq_dec nid mt) as [->|Hne]; [|rewrite X6 by (intros X; apply Hne; symmetry; exact X); exact S].
        rewrite X2. f_equal. apply X8; [exact S | exact Hn|].
        intros Iu. destruct (P used n (or_introl eq_refl) Iu) as [[a [A1 [A2' A3']]]|A1].
        * apply (Hu a); [intros ->; apply A1; left; reflexivity | exact A2' | exact A3'].
        * contradiction.
  Qed.

  Lemma fx_events_nk es : forall s s',
    NoDup (ev_nodes es) -> Forall Pn (ev_nodes es) -> fx_events es s = (s', None) -> NK (ev_nodes es) s -> NK [] s'.
  Proof.
    induction es as [|e r IH]; intros s s' ND HP H K.
    - simpl in *. inversion H; subst. exact K.
    - simpl in H. unfold fbind in H. destruct (fx_step e s) as [s1 [e1|]] eqn:E1; simpl in H; [inversion H|].
      assert (Q : ev_nodes (e :: r) = ev_nodes [e] ++ ev_nodes r) by (destruct e; reflexivity).
      rewrite Q in ND, K, HP. apply Forall_app in HP. destruct HP as [HP1 HP2].
      pose proof (fx_step_nk e s s1 (ev_nodes r) ND HP1 (or_intror I) E1 K) as K1.
      apply (IH s1 s'); [apply NoDup_app_r in ND; exact ND | exact HP2 | exact H | exact K1].
  Qed.
End NKeep.

(* C15_fix_keeps_unique, node names, one run *)
Theorem fix_keeps_unique_node_run g own vx nx vn nn inits m a n :
  NoDup (ev_nodes (events_graph g)) ->
  nn a = Some n -> n <> [] -> In a (ev_nodes (events_graph g)) ->
  (forall b, b <> a -> In b (ev_nodes (events_graph g)) -> nn b <> Some n) ->
  forall s', fix_graph_names g own vx nx vn nn inits m = (s', None) -> f_nn s' a = Some n.
Proof.
  intros ND Ha Hn Hin Hu s' H. unfold fix_graph_names in H.
  destruct (collect_names (events_graph g) vn nn inits) as [rv rn] eqn:Ec.
  assert (Hr : In n rn).
  { pose proof (collect_nodes (events_graph g) vn nn inits a n Hin Ha Hn) as X. rewrite Ec in X. exact X. }
  assert (K0 : NK nn rn (fun b => In b (ev_nodes (events_graph g))) a n (ev_nodes (events_graph g))
                  (fx_init own vx nx rv rn vn nn inits m)).
  { constructor; simpl; auto. intros u x [<-|[]] []. }
  assert (HP : Forall (fun b => In b (ev_nodes (events_graph g))) (ev_nodes (events_graph g))) by (apply Forall_forall; auto).
  apply (nk_target _ _ _ _ _ _ _ (fx_events_nk nn rn _ a n Hn Hu Hr _ _ _ ND HP H K0)).
Qed.

(* node frame: a run changes only the names of the nodes it meets (any outcome) *)
Lemma process_value_nn v s : f_nn (fst (process_value v s)) = f_nn s.
Proof.
  unfold process_value. destruct (memN v (f_seen s)); [reflexivity|].
  destruct (f_vscopes s); [reflexivity|].
  match goal with |- context [if ?c then _ else _] => destruct c end; [reflexivity|].
  destruct (find_unique _ _ _ _) as [[[a b] c]|]; [|reflexivity].
  destruct (set_vname _ _ _ _) as [[x y]|]; reflexivity.
Qed.

Lemma process_value_rec_nn v s : f_nn (fst (process_value_rec v s)) = f_nn s.
Proof.
  unfold process_value_rec, fbind. pose proof (process_value_nn v s) as A.
  destruct (process_value v s) as [s1 [e|]]; simpl in *; [exact A|].
  destruct (negb (memN v (f_seen s))); simpl; exact A.
Qed.

Lemma process_values_nn ws : forall s, f_nn (fst (process_values ws s)) = f_nn s.
Proof.
  induction ws as [|v r IH]; intros s; simpl; [reflexivity|].
  unfold fbind. pose proof (process_value_rec_nn v s) as A. destruct (process_value_rec v s) as [s1 [e|]]; simpl in *; [exact A|].
  rewrite IH. exact A.
Qed.

Lemma process_node_name_nn m s a : a <> m -> f_nn (fst (process_node_name m s)) a = f_nn s a.
Proof.
  intros Hne. unfold process_node_name. destruct (f_nscopes s); [reflexivity|].
  match goal with |- context [if ?c then _ else _] => destruct c end; [reflexivity|].
  destruct (find_unique _ _ _ _) as [[[x y] c]|]; [|reflexivity]. simpl. apply upd_other. exact Hne.
Qed.

Lemma fx_step_nn e s a : ~ In a (ev_nodes [e]) -> f_nn (fst (fx_step e s)) a = f_nn s a.
Proof.
  intros Hne. destruct e as [gid isfunc ins outs| |nid nins nouts]; simpl in *.
  - destruct (f_vscopes s); [reflexivity|]. unfold fbind.
    match goal with |- context [process_values ins ?s0] => pose proof (process_values_nn ins s0) as A; destruct (process_values ins s0) as [s2 [e2|]] end; simpl in *; [rewrite A; reflexivity|].
    pose proof (process_values_nn outs s2) as B. destruct (process_values outs s2) as [s3 [e3|]]; simpl in *; [congruence|].
    destruct isfunc; simpl; [congruence|]. rewrite process_values_nn. congruence.
  - reflexivity.
  - assert (Hna : a <> nid) by (intros ->; apply Hne; left; reflexivity).
    unfold fbind. pose proof (process_node_name_nn nid s a Hna) as A.
    destruct (process_node_name nid s) as [s1 [e1|]]; simpl in *; [exact A|].
    pose proof (process_values_nn (somes nins) s1) as B. destruct (process_values (somes nins) s1) as [s2 [e2|]]; simpl in *.
    + rewrite B. exact A.
    + rewrite process_values_nn, B. exact A.
Qed.

Lemma fx_events_nn es : forall s a, ~ In a (ev_nodes es) -> f_nn (fst (fx_events es s)) a = f_nn s a.
Proof.
  induction es as [|e r IH]; intros s a Hne; simpl; [reflexivity|].
  assert (Q : ev_nodes (e :: r) = ev_nodes [e] ++ ev_nodes r) by (destruct e; reflexivity).
  rewrite Q in Hne. unfold fbind.
  pose proof (fx_step_nn e s a) as A. destruct (fx_step e s) as [s1 [e1|]]; simpl in *.
  - apply A. intros X. apply Hne. apply in_or_app. left. exact X.
  - rewrite IH; [apply A|]; intros X; apply Hne; apply in_or_app; [left|right]; exact X.
Qed.

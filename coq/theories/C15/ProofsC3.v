(* C15/ProofsC3.v — rename_values: dedup / grouping / validation facts and the all-or-nothing theorem. *)
From Coq Require Import NArith List Bool Lia Permutation.
From IRV Require Import Base.Exn C15.Model C15.ProofsA C15.ProofsA2 C15.ProofsC C15.ProofsC2.
Import ListNotations.
Open Scope N_scope.

(* ---------- dedup_pairs *)
Lemma pair_lookup_In v acc n : pair_lookup v acc = Some n -> In (v, n) acc.
Proof.
  induction acc as [|[u m] r IH]; simpl; [discriminate|].
  destruct (N.eqb u v) eqn:E.
  - apply N.eqb_eq in E. subst. intros H; inversion H; subst. left; reflexivity.
  - intros H. right. apply IH. exact H.
Qed.

Lemma pair_lookup_None v acc : pair_lookup v acc = None -> ~ In v (map fst acc).
Proof.
  induction acc as [|[u m] r IH]; simpl; [tauto|].
  destruct (N.eqb u v) eqn:E; [discriminate|]. apply N.eqb_neq in E.
  intros H [X|X]; [congruence | exact (IH H X)].
Qed.

Lemma dedup_spec ps : forall acc pairs, dedup_pairs ps acc = Ok pairs -> NoDup (map fst acc) ->
  NoDup (map fst pairs) /\ (forall p, In p pairs <-> In p acc \/ In p ps).
Proof.
  induction ps as [|[v n] r IH]; intros acc pairs H ND; simpl in H.
  - inversion H; subst. split.
    + rewrite map_rev. apply NoDup_rev. exact ND.
    + intros p. rewrite <- in_rev. simpl. tauto.
  - destruct (pair_lookup v acc) as [n'|] eqn:E.
    + destruct (name_eqb n' n) eqn:E2; [|discriminate]. apply name_eqb_eq in E2. subst n'.
      destruct (IH _ _ H ND) as [A B]. split; [exact A|]. intros p. rewrite B. simpl.
      apply pair_lookup_In in E. split; [tauto|]. intros [X|[X|X]]; [tauto | subst; tauto | tauto].
    + apply pair_lookup_None in E.
      destruct (IH _ _ H) as [A B]. { simpl. constructor; assumption. }
      split; [exact A|]. intros p. rewrite B. simpl. tauto.
Qed.

(* ---------- group_inits *)
Definition gi_step (s : rstate) (acc : res groups_t) (p : N * name) : res groups_t :=
  match acc with
  | Raise e => Raise e
  | Ok gs =>
      if r_isinit s (fst p) then
        match r_vgraph s (fst p) with
        | Some g => Ok (group_add g p gs)
        | None => Raise AssertionError
        end
      else Ok gs
  end.

Lemma group_inits_fold s ps : group_inits s ps = fold_left (gi_step s) ps (Ok []).
Proof. reflexivity. Qed.

Lemma gi_raise s ps e : fold_left (gi_step s) ps (Raise e) = Raise e.
Proof. induction ps; simpl; auto. Qed.

Definition initp (s : rstate) (ps : list (N * name)) : list (N * (N * name)) :=
  flat_map (fun p => if r_isinit s (fst p)
                     then match r_vgraph s (fst p) with Some g => [(g, p)] | None => [] end
                     else []) ps.

Lemma ga_perm g p gs : Permutation (flat3 (group_add g p gs)) (flat3 gs ++ [(g, p)]).
Proof.
  induction gs as [|[g' l] r IH]; simpl; [apply Permutation_refl|].
  destruct (N.eqb g g') eqn:E.
  - apply N.eqb_eq in E. subst g'. unfold flat3. simpl. rewrite map_app. simpl.
    rewrite <- !app_assoc. apply Permutation_app_head. simpl.
    apply Permutation_cons_append.
  - unfold flat3 in *. simpl. rewrite <- app_assoc. apply Permutation_app_head. exact IH.
Qed.

Lemma ga_gids_in g p gs x : In x (map fst (group_add g p gs)) -> In x (map fst gs) \/ x = g.
Proof.
  induction gs as [|[g' l] r IH]; simpl.
  - intros [H|[]]; auto.
  - destruct (N.eqb g g'); simpl; [tauto|]. intros [H|H]; [tauto|]. destruct (IH H); tauto.
Qed.

Lemma ga_gids_NoDup g p gs : NoDup (map fst gs) -> NoDup (map fst (group_add g p gs)).
Proof.
  induction gs as [|[g' l] r IH]; simpl; intros ND.
  - constructor; [tauto | constructor].
  - inversion ND as [|? ? Hn ND']; subst. destruct (N.eqb g g') eqn:E; simpl.
    + constructor; assumption.
    + apply N.eqb_neq in E. constructor; [|apply IH; exact ND'].
      intros X. apply ga_gids_in in X. destruct X; [contradiction | congruence].
Qed.

Lemma gi_spec s ps : forall gs groups, fold_left (gi_step s) ps (Ok gs) = Ok groups ->
  Permutation (flat3 groups) (flat3 gs ++ initp s ps) /\ (NoDup (map fst gs) -> NoDup (map fst groups)).
Proof.
  induction ps as [|p r IH]; intros gs groups H; simpl in H.
  - inversion H; subst. simpl. rewrite app_nil_r. split; [apply Permutation_refl | auto].
  - simpl. destruct (r_isinit s (fst p)) eqn:Ei.
    + destruct (r_vgraph s (fst p)) as [g|] eqn:Eg.
      * destruct (IH _ _ H) as [A B]. split.
        -- eapply Permutation_trans; [exact A|]. simpl.
           change ((g, p) :: initp s r) with ([(g, p)] ++ initp s r). rewrite app_assoc.
           apply Permutation_app_tail. apply ga_perm.
        -- intros ND. apply B. apply ga_gids_NoDup. exact ND.
      * rewrite gi_raise in H. discriminate.
    + simpl. apply IH. exact H.
Qed.

Lemma initp_In s ps g p : In (g, p) (initp s ps) <-> In p ps /\ r_isinit s (fst p) = true /\ r_vgraph s (fst p) = Some g.
Proof.
  unfold initp. rewrite in_flat_map. split.
  - intros [q [Hq H]]. destruct (r_isinit s (fst q)) eqn:E; [|destruct H].
    destruct (r_vgraph s (fst q)) as [g'|] eqn:E2; [|destruct H].
    destruct H as [H|[]]. inversion H; subst. auto.
  - intros [A [B C]]. exists p. split; [exact A|]. rewrite B, C. left. reflexivity.
Qed.

Lemma initp_NoDup s ps : NoDup (map fst ps) -> NoDup (map (fun x => fst (snd x)) (initp s ps)).
Proof.
  induction ps as [|p r IH]; simpl; intros ND; [constructor|].
  inversion ND as [|? ? Hn ND']; subst. rewrite map_app. specialize (IH ND').
  assert (Hsub : forall v, In v (map (fun x => fst (snd x)) (initp s r)) -> In v (map fst r)).
  { intros v X. apply in_map_iff in X. destruct X as [[g q] [E X]]. simpl in E. subst v.
    apply initp_In in X. destruct X as [X _]. apply (in_map fst) in X. exact X. }
  destruct (r_isinit s (fst p)); [|exact IH].
  destruct (r_vgraph s (fst p)); [|exact IH]. simpl. constructor; [|exact IH].
  intros X. apply Hn. apply Hsub. exact X.
Qed.

(* ---------- validation *)
Lemma validate_groups_spec s gs : validate_groups s gs = Ok tt ->
  forall g ps, In (g, ps) gs -> validate_pairs (get_dict g (r_inits s)) (map fst ps) ps [] = Ok tt.
Proof.
  induction gs as [|[g0 ps0] r IH]; simpl; intros H g ps X; [destruct X|].
  destruct (validate_pairs (get_dict g0 (r_inits s)) (map fst ps0) ps0 []) as [[]|e] eqn:E; [|discriminate].
  destruct X as [X|X]; [inversion X; subst; exact E | apply IH; assumption].
Qed.

Definition consistent (st : list (name * N)) : Prop :=
  forall n u1 u2, In (n, u1) st -> In (n, u2) st -> u1 = u2.

Lemma validate_cons d ren v n r st : n <> [] ->
  validate_pairs d ren ((v, n) :: r) st =
  if match dlookup n st with Some u => negb (N.eqb u v) | None => false end then Raise ValueError
  else if match dlookup n d with Some u => negb (N.eqb u v) && negb (memN u ren) | None => false end then Raise ValueError
  else validate_pairs d ren r ((n, v) :: st).
Proof. destruct n; [congruence | reflexivity]. Qed.

Lemma validate_pairs_spec d ren ps : forall st, consistent st -> validate_pairs d ren ps st = Ok tt ->
  (forall v1 v2 n, (In (v1, n) ps \/ In (n, v1) st) -> (In (v2, n) ps \/ In (n, v2) st) -> v1 = v2) /\
  (forall v n, In (v, n) ps -> n <> [] /\ (forall u, dlookup n d = Some u -> u = v \/ memN u ren = true)).
Proof.
  induction ps as [|[v n] r IH]; intros st Hc H.
  - split; [|intros v n []]. intros v1 v2 n [[]|A] [[]|B]. eapply Hc; eassumption.
  - assert (Hne : n <> []) by (intros ->; discriminate H).
    rewrite (validate_cons _ _ _ _ _ _ Hne) in H.
    destruct (match dlookup n st with Some u => negb (N.eqb u v) | None => false end) eqn:Edup; [discriminate|].
    destruct (match dlookup n d with Some u => negb (N.eqb u v) && negb (memN u ren) | None => false end) eqn:Ecl; [discriminate|].
    assert (Hc' : consistent ((n, v) :: st)).
    { intros m u1 u2 [A|A] [B|B].
      - congruence.
      - inversion A; subst. destruct (dlookup m st) as [u|] eqn:EL.
        + apply dlookup_In in EL. rewrite (Hc _ _ _ B EL). apply negb_false_iff, N.eqb_eq in Edup. congruence.
        + apply dlookup_None in EL. exfalso. apply EL. apply (in_map fst) in B. exact B.
      - inversion B; subst. destruct (dlookup m st) as [u|] eqn:EL.
        + apply dlookup_In in EL. rewrite (Hc _ _ _ A EL). apply negb_false_iff, N.eqb_eq in Edup. congruence.
        + apply dlookup_None in EL. exfalso. apply EL. apply (in_map fst) in A. exact A.
      - eapply Hc; eassumption. }
    destruct (IH _ Hc' H) as [P Q]. split.
    + intros v1 v2 m A B. apply (P v1 v2 m).
      * destruct A as [[A|A]|A]; [inversion A; subst; right; left; reflexivity | left; exact A | right; right; exact A].
      * destruct B as [[B|B]|B]; [inversion B; subst; right; left; reflexivity | left; exact B | right; right; exact B].
    + intros u m [X|X]; [|apply Q; exact X]. inversion X; subst. split; [exact Hne|].
      intros w Hw. rewrite Hw in Ecl. apply andb_false_iff in Ecl.
      destruct Ecl as [Ecl|Ecl]; apply negb_false_iff in Ecl; [left; apply N.eqb_eq; exact Ecl | right; exact Ecl].
Qed.

Lemma NoDup_fst_unique {A B} (l : list (A * B)) a b1 b2 :
  NoDup (map fst l) -> In (a, b1) l -> In (a, b2) l -> b1 = b2.
Proof.
  induction l as [|[x y] r IH]; simpl; intros ND H1 H2; [destruct H1|].
  inversion ND as [|? ? Hn ND']; subst.
  destruct H1 as [H1|H1]; destruct H2 as [H2|H2].
  - congruence.
  - inversion H1; subst. exfalso. apply Hn. apply (in_map fst) in H2. exact H2.
  - inversion H2; subst. exfalso. apply Hn. apply (in_map fst) in H1. exact H1.
  - apply IH; assumption.
Qed.

Lemma flat3_In gs g p : In (g, p) (flat3 gs) <-> exists ps, In (g, ps) gs /\ In p ps.
Proof.
  unfold flat3. rewrite in_flat_map. split.
  - intros [[g' ps] [A B]]. simpl in B. apply in_map_iff in B. destruct B as [q [E B]].
    inversion E; subst. exists ps. auto.
  - intros [ps [A B]]. exists (g, ps). split; [exact A|]. simpl. apply in_map_iff. exists p. auto.
Qed.

(* ---------- the theorem *)
Theorem rename_all_or_nothing vs ns s : RInv s ->
  forall s' r, rename_values vs ns s = (s', r) ->
  match r with
  | Raise _ => s' = s
  | Ok _ =>
      (forall v n, In (v, n) (combine vs ns) -> r_vn s' v = Some n) /\
      (forall v, ~ In v vs -> r_vn s' v = r_vn s v) /\
      RInv s' /\
      (forall g u, (exists k, In (k, u) (get_dict g (r_inits s'))) <-> (exists k, In (k, u) (get_dict g (r_inits s)))) /\
      (forall u, r_isinit s' u = r_isinit s u /\ r_vgraph s' u = r_vgraph s u) /\
      same_but s s'
  end.
Proof.
  intros RI s' r. unfold rename_values.
  destruct (negb (Nat.eqb (length vs) (length ns))); [intros H; inversion H; reflexivity|].
  destruct (dedup_pairs (combine vs ns) []) as [pairs|e] eqn:Ed; [|intros H; inversion H; reflexivity].
  destruct (group_inits s pairs) as [groups|e] eqn:Eg; [|intros H; inversion H; reflexivity].
  destruct (validate_groups s groups) as [[]|e] eqn:Ev; [|intros H; inversion H; reflexivity].
  rewrite r_pops_flat.
  destruct (dedup_spec _ _ _ Ed (NoDup_nil _)) as [NDp Hp].
  rewrite group_inits_fold in Eg. destruct (gi_spec _ _ _ _ Eg) as [Perm NDg]. simpl in Perm.
  specialize (NDg (NoDup_nil _)).
  pose proof (validate_groups_spec _ _ Ev) as HV.
  set (L := flat groups).
  (* facts about the work list *)
  assert (HL3 : forall g v n, In (g, (v, n)) (flat3 groups) <->
                  In (v, n) pairs /\ r_isinit s v = true /\ r_vgraph s v = Some g).
  { intros g v n. split.
    - intros X. apply (Permutation_in _ Perm) in X. apply initp_In in X. exact X.
    - intros X. apply (Permutation_in _ (Permutation_sym Perm)). apply initp_In. exact X. }
  assert (HL : forall g v, In (g, v) L -> exists n, In (g, (v, n)) (flat3 groups)).
  { intros g v X. unfold L, flat in X. apply in_map_iff in X. destruct X as [[g' [v' n]] [E X]].
    unfold fl in E. simpl in E. inversion E; subst. exists n. exact X. }
  assert (HLr : forall g v n, In (g, (v, n)) (flat3 groups) -> In (g, v) L).
  { intros g v n X. unfold L, flat. apply in_map_iff. exists (g, (v, n)). split; [reflexivity | exact X]. }
  assert (NDL : NoDup (map snd L)).
  { unfold L, flat. rewrite map_map. simpl.
    apply (Permutation_NoDup (l := map (fun x => fst (snd x)) (initp s pairs))).
    - apply Permutation_map. apply Permutation_sym. exact Perm.
    - apply initp_NoDup. exact NDp. }
  assert (HLi : forall g v, In (g, v) L -> r_isinit s v = true /\ r_vgraph s v = Some g).
  { intros g v X. destruct (HL _ _ X) as [n Y]. apply HL3 in Y. tauto. }
  destruct (pop_flat_ok L [] s RI NDL HLi) as [s1 [E1 [P1 [N1 [S1 [M1 F1]]]]]].
  rewrite app_nil_r in P1.
  unfold rbind at 1. rewrite E1. simpl.
  (* renames *)
  assert (Hni : forall v n, In (v, n) pairs -> r_isinit s1 v = false).
  { intros v n X. destruct (r_isinit s v) eqn:Ei.
    - destruct (pi_conv _ _ RI v Ei) as [g [k [_ Hin]]].
      destruct (pi_entry _ _ RI _ _ _ Hin) as [_ [_ [_ [Hvg _]]]].
      assert (Y : In (g, v) L) by (apply (HLr g v n); apply HL3; auto).
      destruct (pi_det _ _ P1 _ _ Y) as [A _]. exact A.
    - assert (Y : ~ In v (map snd L)).
      { intros Y. apply in_map_iff in Y. destruct Y as [[g u] [E Y]]. simpl in E. subst u.
        destruct (HLi _ _ Y). congruence. }
      destruct (F1 v Y) as [A _]. congruence. }
  destruct (r_renames_ok pairs L s1 P1 Hni) as [s2 [E2 [P2 [I2 [J2 [G2 [O2 [Q2 [K2 T2]]]]]]]]].
  unfold rbind at 1. rewrite E2. simpl. specialize (T2 NDp).
  rewrite r_adds_flat. fold L.
  (* re-adds *)
  assert (HA : forall g v, In (g, v) L ->
            exists k, r_vn s2 v = Some k /\ k <> [] /\ dlookup k (get_dict g (r_inits s2)) = None).
  { intros g v X. destruct (HL _ _ X) as [n Y]. pose proof Y as Y3. apply HL3 in Y. destruct Y as [Yp [Yi Yg]].
    apply flat3_In in Y3. destruct Y3 as [ps [Gin Pin]].
    destruct (validate_pairs_spec _ _ _ [] (fun _ _ _ (F : In _ []) => match F with end) (HV _ _ Gin)) as [_ VQ].
    destruct (VQ _ _ Pin) as [Hne Hcl].
    exists n. split; [apply T2; exact Yp|]. split; [exact Hne|].
    rewrite I2. destruct (dlookup n (get_dict g (r_inits s1))) as [u|] eqn:EL; [|reflexivity]. exfalso.
    apply dlookup_In in EL. apply M1 in EL. destruct EL as [EL Hu].
    pose proof (dlookup_NoDup _ _ _ (pi_keys _ _ RI g) EL) as EL0.
    destruct (Hcl _ EL0) as [->|Hm].
    - apply Hu. apply (in_map snd) in X. exact X.
    - apply memN_In in Hm. apply in_map_iff in Hm. destruct Hm as [[u' m] [E Hm]]. simpl in E. subst u'.
      apply Hu. assert (Z : In (g, u) L) by (apply (HLr g u m); apply flat3_In; exists ps; auto).
      apply (in_map snd) in Z. exact Z. }
  assert (HD : forall g v1 v2 k, In (g, v1) L -> In (g, v2) L ->
            r_vn s2 v1 = Some k -> r_vn s2 v2 = Some k -> v1 = v2).
  { intros g v1 v2 k X1 X2 A1 A2.
    destruct (HL _ _ X1) as [n1 Y1]. destruct (HL _ _ X2) as [n2 Y2].
    pose proof Y1 as Z1. pose proof Y2 as Z2. apply HL3 in Z1. apply HL3 in Z2.
    destruct Z1 as [Z1 _]. destruct Z2 as [Z2 _].
    rewrite (T2 _ _ Z1) in A1. rewrite (T2 _ _ Z2) in A2. inversion A1; inversion A2; subst.
    apply flat3_In in Y1. apply flat3_In in Y2. destruct Y1 as [ps1 [G1 Q1]]. destruct Y2 as [ps2 [G2' Q2']].
    assert (ps1 = ps2) by (eapply NoDup_fst_unique; eassumption). subst ps2.
    destruct (validate_pairs_spec _ _ _ [] (fun _ _ _ (F : In _ []) => match F with end) (HV _ _ G1)) as [VP _].
    apply (VP v1 v2 k); left; assumption. }
  destruct (add_flat_ok L s2 P2 NDL HA HD) as [s3 [E3 [P3 [N3 [S3 [M3 [F3 G3]]]]]]].
  rewrite E3. intros H. inversion H; subst s' r. clear H.
  assert (Hsub : forall v, In v (map fst pairs) -> In v vs).
  { intros v X. apply in_map_iff in X. destruct X as [[v' n] [E X]]. simpl in E. subst v'.
    apply Hp in X. destruct X as [[]|X]. apply in_combine_l in X. exact X. }
  split; [|split; [|split; [exact P3|split; [|split]]]].
  - intros v n X. rewrite N3. apply T2. apply Hp. right. exact X.
  - intros v X. rewrite N3, K2, N1; [reflexivity|]. intros Y. apply X. apply Hsub. exact Y.
  - intros g u. split.
    + intros [k X]. apply M3 in X. destruct X as [X|[X _]].
      * rewrite I2 in X. apply M1 in X. destruct X as [X _]. exists k. exact X.
      * destruct (HLi _ _ X) as [Ai Ag]. destruct (pi_conv _ _ RI u Ai) as [g0 [k0 [_ Hin]]].
        destruct (pi_entry _ _ RI _ _ _ Hin) as [_ [_ [_ [Hvg _]]]]. assert (g0 = g) by congruence. subst g0.
        exists k0. exact Hin.
    + intros [k X]. destruct (in_dec N.eq_dec u (map snd L)) as [Y|Y].
      * apply in_map_iff in Y. destruct Y as [[g' u'] [E Y]]. simpl in E. subst u'.
        destruct (HLi _ _ Y) as [_ Ag]. destruct (pi_entry _ _ RI _ _ _ X) as [_ [_ [_ [Hvg _]]]].
        assert (g' = g) by congruence. subst g'.
        destruct (HA _ _ Y) as [k' [A _]]. exists k'. apply M3. right. auto.
      * exists k. apply M3. left. rewrite I2. apply M1. auto.
  - intros u. destruct (in_dec N.eq_dec u (map snd L)) as [Y|Y].
    + apply in_map_iff in Y. destruct Y as [[g' u'] [E Y]]. simpl in E. subst u'.
      destruct (HLi _ _ Y) as [Ai Ag]. destruct (G3 _ _ Y) as [Bi Bg]. split; congruence.
    + destruct (F3 u Y) as [A B]. destruct (F1 u Y) as [C D]. rewrite A, B, J2, G2. auto.
  - eapply same_but_trans; [exact S1|]. eapply same_but_trans; [|exact S3].
    pose proof (r_renames_const pairs s1) as Hcst. rewrite E2 in Hcst. simpl in Hcst.
    repeat split; congruence.
Qed.

(* ---------- the hypotheses are satisfiable by a non-trivial state: graph 0 with initializers a, b
   (b is also a graph input) and a plain value c; swapping a and b succeeds and is applied completely. *)
Definition ex_a : name := [97]. Definition ex_b : name := [98]. Definition ex_c : name := [99].
Definition ex_state : rstate :=
  mkR (of_alist None [(0, Some ex_a); (1, Some ex_b); (2, Some ex_c)]) [(0, [(ex_a, 0); (ex_b, 1)])]
      (of_alist false [(0, true); (1, true)]) (of_alist false [(1, true)])
      (of_alist None [(0, Some 0); (1, Some 0)]) (fun _ => false) (of_alist false [(0, true)]).
(* initializer b (value 1) is PENDING: registered without a tensor (r_const false) *)

Example ex_state_RInv : RInv ex_state.
Proof.
  constructor.
  - intros g k v H. unfold ex_state in H. simpl in H. destruct (N.eqb g 0) eqn:E; simpl in H.
    + apply N.eqb_eq in E. subst g. destruct H as [H|[H|[]]]; inversion H; subst; vm_compute;
        repeat split; try discriminate; tauto.
    + destruct H.
  - intros g. unfold ex_state. simpl. destruct (N.eqb g 0); simpl.
    + constructor; [simpl; intros [H|[]]; discriminate | constructor; [tauto | constructor]].
    + constructor.
  - intros v H. unfold ex_state in *. simpl in *.
    destruct (N.eqb v 0) eqn:E0.
    + apply N.eqb_eq in E0. subst. exists 0, ex_a. simpl. auto.
    + destruct (N.eqb v 1) eqn:E1; [|discriminate].
      apply N.eqb_eq in E1. subst. exists 0, ex_b. simpl. auto.
  - intros g v [].
Qed.

Example ex_swap :
  let '(s', r) := rename_values [0; 1; 2] [ex_b; ex_a; ex_a] ex_state in
  r = Ok tt /\ map (r_vn s') [0; 1; 2] = [Some ex_b; Some ex_a; Some ex_a] /\
  r_inits s' = [(0, [(ex_b, 0); (ex_a, 1)])] /\ map (r_const s') [0; 1; 2] = [true; false; false].
Proof. vm_compute. auto. Qed.

(* C15/ProofsB.v — NameFixPass: refutation witnesses (the code as it exists) and the lemmas that hold. *)
From Coq Require Import NArith List Bool Lia.
From IRV Require Import Base.Exn C15.Model C15.ProofsA.
Import ListNotations.
Open Scope N_scope.

(* ---------- specification vocabulary over the structure *)
Fixpoint own_values (g : graph) : list N :=          (* values "within" a graph: inputs + outputs of its nodes *)
  match g with
  | Graph _ _ ins _ nodes => ins ++ flat_map (fun n => match n with Node _ _ nouts _ => nouts end) nodes
  end.
Definition init_values (g : graph) (inits : list (N * idict)) : list N :=
  match g with Graph gid _ _ _ _ => map snd (get_dict gid inits) end.

Definition s_w : name := [119].  Definition s_w1 : name := [119; 95; 49].
Definition s_x : name := [120].  Definition s_x1 : name := [120; 95; 49].
Definition s_y : name := [121].  Definition s_a0 : name := [97].

(* (1) inputs [w], initializers [w ; w_1] *)
Definition wit_total_graph := Graph 0 false [0] [] [].
Definition wit_total_vn := of_alist None [(0, Some s_w); (1, Some s_w); (2, Some s_w1)].
Definition wit_total_inits : list (N * idict) := [(0, [(s_w, 1); (s_w1, 2)])].

(* before fix 25cf9b5 this run ended with ValueError (C15_fix_total_refuted); now: input w kept, the
   duplicated initializer becomes w_2 (w_1 is reserved), w_1 keeps its name *)
Lemma wit_total_now_ok :
  let r := name_fix_pass wit_total_graph [] (fun _ => None) (fun _ => 0) (fun _ => 0) wit_total_vn (fun _ => None) wit_total_inits in
  snd r = None /\ map (f_vn (fst r)) [0; 1; 2] = [Some s_w; Some [119; 95; 50]; Some s_w1] /\
  f_inits (fst r) = [(0, [(s_w1, 2); ([119; 95; 50], 1)])].
Proof. vm_compute. auto. Qed.

(* (2) inputs x, x, x_1 *)
Definition wit_keep_graph := Graph 0 false [0; 1; 2] [] [].
Definition wit_keep_vn := of_alist None [(0, Some s_x); (1, Some s_x); (2, Some s_x1)].

(* before fix 25cf9b5: x, x, x_1 -> x, x_1, x_1_1 (C15_fix_keeps_unique_refuted); now the unique x_1 is kept *)
Lemma wit_keep_now_ok :
  let r := name_fix_pass wit_keep_graph [] (fun _ => None) (fun _ => 0) (fun _ => 0) wit_keep_vn (fun _ => None) [] in
  snd r = None /\ map (f_vn (fst r)) [0; 1; 2] = [Some s_x; Some [120; 95; 50]; Some s_x1].
Proof. vm_compute. auto. Qed.

(* (3) unsorted outer-scope capture: two outputs of nodes of the main graph keep the same name *)
Definition wit_unsorted_graph :=
  Graph 0 false [0] [3]
    [Node 0 [Some 0] [3] [Graph 1 false [] [2] [Node 1 [Some 1] [2] []]];
     Node 2 [Some 0] [1] []; Node 3 [Some 0] [4] []].
Definition wit_unsorted_vn := of_alist None [(0, Some [99]); (1, Some s_y); (2, Some [105]); (3, Some [102]); (4, Some s_y)].
Definition wit_unsorted_nn := of_alist None [(0, Some [97]); (1, Some [98]); (2, Some [99]); (3, Some [100])].

Definition wit_unsorted_own := of_alist None [(0, Some 0); (1, Some 0); (2, Some 1); (3, Some 0); (4, Some 0)].

(* before fix 5fabe37 the two outputs 1 and 4 of nodes of the main graph kept the same name y with modified = false
   (C15_fix_post_unsorted_refuted); now the captured value's name is recorded in the main graph's scope *)
Lemma wit_unsorted_now_ok :
  let r := name_fix_pass wit_unsorted_graph [] wit_unsorted_own (fun _ => 0) (fun _ => 0) wit_unsorted_vn wit_unsorted_nn [] in
  snd r = None /\ f_mod (fst r) = true /\
  map (f_vn (fst r)) [0; 1; 2; 3; 4] = [Some [99]; Some s_y; Some [105]; Some [102]; Some [121; 95; 49]].
Proof. vm_compute. auto. Qed.

(* (3b) a subgraph reads a value owned by a SIBLING subgraph (not valid ONNX): the owner's scope is not open when the
   value is first met, nothing can be recorded, and two values of the sibling keep the same name *)
Definition wit_sibling_graph :=
  Graph 0 false [0] []
    [Node 0 [Some 0] [1] [Graph 1 false [] [] [Node 1 [Some 2] [3] []]; Graph 2 false [2] [] [Node 2 [Some 2] [4] []]]].
Definition wit_sibling_vn := of_alist None [(0, Some [99]); (1, Some [111]); (2, Some s_a0); (3, Some [112]); (4, Some s_a0)].
Definition wit_sibling_nn := of_alist None [(0, Some [97]); (1, Some [98]); (2, Some [99])].
Definition wit_sibling_own := of_alist None [(0, Some 0); (1, Some 0); (2, Some 2); (3, Some 1); (4, Some 2)].

Lemma fix_post_sibling_refuted :
  let r := name_fix_pass wit_sibling_graph [] wit_sibling_own (fun _ => 0) (fun _ => 0) wit_sibling_vn wit_sibling_nn [] in
  snd r = None /\ f_mod (fst r) = false /\ f_vn (fst r) 2 = f_vn (fst r) 4.
Proof. vm_compute. auto. Qed.

(* (4) a function body that reads an initializer of the main graph (not valid ONNX: functions are closed):
   the run over the function renames that initializer without having pre-scanned the main graph's keys *)
Definition s_a : name := [97].  Definition s_a1 : name := [97; 95; 49].
Definition wit_unclosed_main := Graph 0 false [] [] [].
Definition wit_unclosed_func := Graph 1 true [2] [3] [Node 0 [Some 2; Some 0] [3] []].
Definition wit_unclosed_vn := of_alist None [(0, Some s_a); (1, Some s_a1); (2, Some s_a); (3, Some [111])].
Definition wit_unclosed_nn := of_alist None [(0, Some [110])].
Definition wit_unclosed_inits : list (N * idict) := [(0, [(s_a, 0); (s_a1, 1)])].

Lemma fix_total_unclosed_refuted :
  snd (name_fix_pass wit_unclosed_main [wit_unclosed_func] (fun _ => None) (fun _ => 0) (fun _ => 0)
         wit_unclosed_vn wit_unclosed_nn wit_unclosed_inits) = Some ValueError.
Proof. vm_compute. reflexivity. Qed.

(* (5) main graph and a function body share a value (the function reads the main graph's initializer): the run
   over the main graph gives the duplicated initializer the fresh name x_1, which only the function's run would
   have pre-scanned; the function's output, the only value named x_1 before the pass, is then renamed *)
Definition wit_shared_main := Graph 0 false [0] [] [].
Definition wit_shared_func := Graph 1 true [] [] [Node 0 [Some 1] [2] []].
Definition wit_shared_vn := of_alist None [(0, Some s_x); (1, Some s_x); (2, Some s_x1)].
Definition wit_shared_nn := of_alist None [(0, Some [110])].
Definition wit_shared_inits : list (N * idict) := [(0, [(s_x, 1)])].

Lemma fix_keeps_unique_shared_refuted :
  let r := name_fix_pass wit_shared_main [wit_shared_func] (fun _ => None) (fun _ => 0) (fun _ => 0) wit_shared_vn wit_shared_nn wit_shared_inits in
  snd r = None /\ wit_shared_vn 2 = Some s_x1 /\ (forall u, In u [0; 1] -> wit_shared_vn u <> Some s_x1) /\
  f_vn (fst r) 2 <> Some s_x1.
Proof. vm_compute. repeat split; try discriminate. intros u [<-|[<-|[]]]; discriminate. Qed.

(* (6) the STRONGER reading of "visible" (every value of an enclosing graph, also those defined by LATER nodes): an
   unnamed value inside a subgraph and an unnamed output of a later node of the enclosing graph both get the
   unsuffixed name v when the enclosing node's own output is explicitly named - on a sorted, well-scoped model.
   Under the adopted reading (ONNX lexical scoping, what onnx.checker enforces: a subgraph sees the enclosing
   graph's inputs, initializers and the outputs of nodes up to the enclosing node) this is not a collision. *)
Definition wit_later_graph :=
  Graph 0 false [0] [] [Node 0 [Some 0] [1] [Graph 1 false [] [] [Node 1 [Some 0] [2] []]]; Node 2 [Some 1] [3] []].
Definition wit_later_vn := of_alist None [(0, Some s_x); (1, Some [105])].
Definition wit_later_nn := of_alist None [(0, Some [97]); (1, Some [98]); (2, Some [99])].
Definition wit_later_own := of_alist None [(0, Some 0); (1, Some 0); (2, Some 1); (3, Some 0)].

Lemma fix_post_later_outer_refuted :
  let r := name_fix_pass wit_later_graph [] wit_later_own (fun _ => 0) (fun _ => 0) wit_later_vn wit_later_nn [] in
  snd r = None /\ f_vn (fst r) 2 = Some s_v /\ f_vn (fst r) 3 = Some s_v.
Proof. vm_compute. auto. Qed.

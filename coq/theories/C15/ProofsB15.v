(* C15/ProofsB15.v — NameFixPass on ANY scoping (no well_scoped hypothesis): it never makes things worse.
   A value whose name the run changes gets a name that no value met by the run carried before; so after the run a
   renamed value never shares its name with a value that kept its name, and two values that kept their names share
   one only if they did before. *)
From Coq Require Import NArith List Bool Lia.
From IRV Require Import Base.Exn C15.Model C15.ProofsA C15.ProofsA2 C15.ProofsB2 C15.ProofsB3.
Import ListNotations.
Open Scope N_scope.

Section NoWorse.
  Variables (vn0 : N -> option name) (rv : list name).

  Record CInv (s : fstate) : Prop := {
    c_names : forall w, f_vn s w = vn0 w \/ exists n, f_vn s w = Some n /\ ~ In n rv;
    c_rv : f_rv s = rv
  }.

  Definition cpres (f : fstate -> fres) : Prop := forall s s', f s = (s', None) -> CInv s -> CInv s'.

  Lemma cpres_bind f g : cpres f -> cpres g -> cpres (fun s => fbind (f s) g).
  Proof.
    intros Pf Pg s s' H K. unfold fbind in H. destruct (f s) as [s1 [e|]] eqn:E; simpl in H; [inversion H|].
    apply (Pg s1 s' H). apply (Pf s s1 E K).
  Qed.

  Lemma process_value_cpres w : cpres (process_value w).
  Proof.
    intros s s' H [C R].
    destruct (memN w (f_seen s)) eqn:Es.
    - unfold process_value in H. rewrite Es in H. inversion H; subst. constructor; assumption.
    - destruct (f_vscopes s) as [|used rest] eqn:Hsc.
      { unfold process_value in H. rewrite Es, Hsc in H. inversion H. }
      pose proof (process_value_spec w s used rest Hsc) as S. rewrite H, Es in S.
      destruct S as [new [A [_ [_ [_ [_ [F [_ [_ [_ [_ [Rn [Rv _]]]]]]]]]]]]].
      constructor; [|congruence].
      intros u. destruct (N.eq_dec u w) as [->|Hne]; [|rewrite F by exact Hne; apply C].
      destruct (option_eqb name_eqb (f_vn s w) (Some new)) eqn:Eq.
      + assert (E : f_vn s w = Some new).
        { destruct (f_vn s w) as [o|]; simpl in Eq; [|discriminate]. apply name_eqb_eq in Eq. congruence. }
        rewrite A, <- E. apply C.
      + right. exists new. split; [exact A|]. rewrite <- R. apply Rn. intros X. rewrite X in Eq. simpl in Eq.
        rewrite name_eqb_refl in Eq. discriminate.
  Qed.

  Lemma process_value_rec_cpres w : cpres (process_value_rec w).
  Proof.
    intros s s' H K. destruct (process_value_rec_ok _ _ _ H) as [s1 [E ->]].
    pose proof (process_value_cpres w s s1 E K) as [A B].
    destruct (negb (memN w (f_seen s))); constructor; simpl; assumption.
  Qed.

  Lemma process_values_cpres ws : cpres (process_values ws).
  Proof.
    induction ws as [|w r IH]; simpl.
    - intros s s' H K. inversion H; subst. exact K.
    - apply (cpres_bind (process_value_rec w) (process_values r)); [apply process_value_rec_cpres | exact IH].
  Qed.

  Lemma process_node_name_cpres m : cpres (process_node_name m).
  Proof.
    intros s s' H [C R]. unfold process_node_name in H.
    destruct (f_nscopes s) as [|used rest]; [inversion H|].
    match type of H with context [if ?c then _ else _] => destruct c end.
    - inversion H; subst. constructor; assumption.
    - destruct (find_unique _ _ _ _) as [[[new used'] cnt']|]; inversion H; subst. constructor; assumption.
  Qed.

  Lemma fx_step_cpres e : cpres (fx_step e).
  Proof.
    destruct e as [gid isfunc ins outs| |nid nins nouts].
    - intros s s' H K. simpl in H. destruct (f_vscopes s) as [|top rest] eqn:Hsc; [inversion H|].
      set (s1 := mkF (f_own s) (gid :: f_so s) (f_vx s) (f_nx s) (f_rv s) (f_rn s) (f_vn s) (f_nn s) (f_inits s) (f_seen s) (f_vcnt s) (f_ncnt s)
                     (top :: top :: rest) ([] :: f_nscopes s) (f_mod s)) in *.
      assert (K1 : CInv s1) by (destruct K as [A B]; constructor; simpl; assumption).
      revert H K1.
      apply (cpres_bind (process_values ins)
               (fun s2 => fbind (process_values outs s2) (fun s3 =>
                  if isfunc then (s3, None) else process_values (map snd (get_dict gid (f_inits s3))) s3))).
      + apply process_values_cpres.
      + apply (cpres_bind (process_values outs)
               (fun s3 => if isfunc then (s3, None) else process_values (map snd (get_dict gid (f_inits s3))) s3)).
        * apply process_values_cpres.
        * intros s3 s4 H3 K3. destruct isfunc; [inversion H3; subst; exact K3|].
          eapply process_values_cpres; eassumption.
    - intros s s' H [A B]. simpl in H. inversion H; subst. constructor; simpl; assumption.
    - change (cpres (fun s => fbind (process_node_name nid s)
               (fun s1 => fbind (process_values (somes nins) s1) (fun s2 => process_values nouts s2)))).
      apply (cpres_bind (process_node_name nid)
               (fun s1 => fbind (process_values (somes nins) s1) (fun s2 => process_values nouts s2))).
      + apply process_node_name_cpres.
      + apply (cpres_bind (process_values (somes nins)) (process_values nouts)); apply process_values_cpres.
  Qed.

  Lemma fx_events_cpres es : cpres (fx_events es).
  Proof.
    induction es as [|e r IH]; simpl.
    - intros s s' H K. inversion H; subst. exact K.
    - apply (cpres_bind (fx_step e) (fx_events r)); [apply fx_step_cpres | exact IH].
  Qed.
End NoWorse.

(* one _fix_graph_names run over any graph, any scoping, that does not raise *)
Theorem fix_never_worse g own vx nx vn nn inits m s' :
  fix_graph_names g own vx nx vn nn inits m = (s', None) ->
  (* a changed name is new to the whole graph_like *)
  (forall v w x, f_vn s' v = Some x -> x <> [] -> f_vn s' v <> vn v ->
     In w (ev_values (events_graph g)) -> vn w <> Some x) /\
  (* hence equal names after the run among values met: both kept (equal before) or both renamed *)
  (forall v w x, In v (ev_values (events_graph g)) -> In w (ev_values (events_graph g)) ->
     f_vn s' v = Some x -> f_vn s' w = Some x -> x <> [] ->
     (f_vn s' v = vn v /\ f_vn s' w = vn w) \/ (f_vn s' v <> vn v /\ f_vn s' w <> vn w)).
Proof.
  intros H. unfold fix_graph_names in H.
  destruct (collect_names (events_graph g) vn nn inits) as [rv rn] eqn:Ec.
  assert (K0 : CInv vn rv (fx_init own vx nx rv rn vn nn inits m)) by (constructor; simpl; auto).
  pose proof (fx_events_cpres vn rv _ _ _ H K0) as [C _].
  assert (Hrv : forall w x, In w (ev_values (events_graph g)) -> vn w = Some x -> x <> [] -> In x rv).
  { intros w x Hw E Hx. pose proof (collect_values (events_graph g) vn nn inits w x Hw E Hx) as X.
    rewrite Ec in X. exact X. }
  assert (P1 : forall v w x, f_vn s' v = Some x -> x <> [] -> f_vn s' v <> vn v ->
                 In w (ev_values (events_graph g)) -> vn w <> Some x).
  { intros v w x Ex Hx Hch Hw E.
    destruct (C v) as [X|[n [X Y]]]; [contradiction|].
    assert (n = x) by congruence. subst n. apply Y. apply (Hrv w x Hw E Hx). }
  split; [exact P1|].
  intros v w x Hv Hw Ev Ew Hx.
  destruct (C v) as [Xv|[nv [Xv Yv]]]; destruct (C w) as [Xw|[nw [Xw Yw]]].
  - left. auto.
  - exfalso. assert (nw = x) by congruence. subst nw. apply Yw. apply (Hrv v x Hv); [congruence | exact Hx].
  - exfalso. assert (nv = x) by congruence. subst nv. apply Yv. apply (Hrv w x Hw); [congruence | exact Hx].
  - right. split; intros E.
    + apply Yv. assert (nv = x) by congruence. subst nv. apply (Hrv v x Hv); [congruence | exact Hx].
    + apply Yw. assert (nw = x) by congruence. subst nw. apply (Hrv w x Hw); [congruence | exact Hx].
Qed.

(* C15/ProofsB2.v — NameFixPass: what holds of the code as it exists.
   find_unique never runs out of fuel and returns an unused non-empty name; one _process_value call on an
   unseen value either raises ValueError (only possible for an initializer) or leaves the value with a
   non-empty name that was not in the scope's used set, records it, marks the value seen and touches no
   other name; no run ever reports out-of-fuel; without initializers no run raises ValueError. *)
From Coq Require Import NArith List Bool Lia.
From IRV Require Import Base.Exn C15.Model C15.ProofsA C15.ProofsA2.
Import ListNotations.
Open Scope N_scope.

Lemma suffixed_nonempty b k : suffixed b k <> [].
Proof. unfold suffixed, s_us. destruct b; simpl; discriminate. Qed.

Lemma mem_app x a b : mem x (a ++ b) = mem x a || mem x b.
Proof. unfold mem. apply existsb_app. Qed.

Lemma find_unique_spec pref used cnt rsv :
  exists new cnt', find_unique pref used cnt rsv = Some (new, new :: used, cnt') /\ ~ In new used /\
                   ~ In new rsv /\
                   (new = pref \/ exists j, new = suffixed pref j) /\ (mem pref used = false -> mem pref rsv = false -> new = pref).
Proof.
  unfold find_unique. destruct (mem pref used || mem pref rsv) eqn:E.
  - destruct (gen_fresh_spec (suffixed pref) (suffixed_inj pref) (used ++ rsv) (N.succ (cnt_get pref cnt)))
      as [j [H [_ [Hn _]]]].
    rewrite H. exists (suffixed pref j), (cnt_set pref j cnt).
    rewrite in_app_iff in Hn. repeat split; try tauto.
    + right. exists j. reflexivity.
    + intros A B. rewrite A, B in E. discriminate.
  - apply orb_false_iff in E. destruct E as [E1 E2]. exists pref, cnt.
    apply mem_nIn in E1. apply mem_nIn in E2. repeat split; auto.
Qed.

Lemma find_unique_nonempty pref used cnt rsv new used' cnt' :
  pref <> [] -> find_unique pref used cnt rsv = Some (new, used', cnt') -> new <> [].
Proof.
  intros Hp H. destruct (find_unique_spec pref used cnt rsv) as [n [c [E [_ [_ [[->|[j ->]] _]]]]]];
    rewrite E in H; inversion H; subst; [exact Hp | apply suffixed_nonempty].
Qed.

Lemma set_vname_spec v new vn inits :
  match set_vname v new vn inits with
  | Raise e => e = ValueError /\ owner_of v inits <> None
  | Ok (vn', inits') => vn' v = Some new /\ (forall u, u <> v -> vn' u = vn u) /\
                        (owner_of v inits = None -> inits' = inits)
  end.
Proof.
  unfold set_vname. destruct (option_eqb name_eqb (vn v) (Some new)) eqn:E.
  - split; [|split; auto]. destruct (vn v) as [o|]; simpl in E; [|discriminate].
    apply name_eqb_eq in E. congruence.
  - destruct (owner_of v inits) as [[g d]|] eqn:Eo.
    + destruct (match dlookup new d with Some u => negb (N.eqb u v) | None => false end).
      * split; [reflexivity | discriminate].
      * split; [apply upd_same|]. split; [intros u Hu; apply upd_other; exact Hu | discriminate].
    + split; [apply upd_same|]. split; [intros u Hu; apply upd_other; exact Hu | reflexivity].
Qed.

(* ---------- recording a captured value's name in the enclosing scopes (fix 5fabe37) only grows the scopes below
   the top, and only by that name *)
Definition grown (x : option name) (u u' : list name) : Prop :=
  incl u u' /\ forall y, In y u' -> In y u \/ x = Some y.

Lemma add_upto_grown g x owners : forall scopes, Forall2 (grown (Some x)) scopes (fst (add_upto g x owners scopes)).
Proof.
  induction owners as [|o os IH]; intros scopes; simpl.
  - induction scopes; constructor; [split; [apply incl_refl | auto] | assumption].
  - destruct scopes as [|u us]; simpl; [constructor|].
    specialize (IH us). destruct (add_upto g x os us) as [us' below]. simpl in *.
    destruct (below || N.eqb o g); simpl; constructor; try exact IH.
    + split; [intros y Hy; apply sadd_In; right; exact Hy|].
      intros y Hy. apply sadd_In in Hy. destruct Hy as [->|Hy]; auto.
    + split; [apply incl_refl | auto].
Qed.

Lemma rc_scopes_grown v s : Forall2 (grown (f_vn s v)) (f_vscopes s) (rc_scopes v s).
Proof.
  assert (Refl : forall l, Forall2 (grown (f_vn s v)) l l).
  { induction l; constructor; [split; [apply incl_refl | auto] | assumption]. }
  unfold rc_scopes. destruct (f_own s v) as [g|]; [|apply Refl].
  destruct (f_vn s v) as [x|] eqn:En; [|apply Refl].
  destruct (f_vscopes s) as [|top rest]; [constructor|].
  destruct (f_so s) as [|o orest]; [apply Refl|].
  constructor; [split; [apply incl_refl | auto] | apply add_upto_grown].
Qed.

Lemma rc_scopes_top v s top rest : f_vscopes s = top :: rest -> exists rest', rc_scopes v s = top :: rest'.
Proof.
  intros H. unfold rc_scopes. rewrite H. destruct (f_own s v); [|eauto]. destruct (f_vn s v); [|eauto].
  destruct (f_so s); eauto.
Qed.

Lemma Forall2_length {A B} (R : A -> B -> Prop) l l' : Forall2 R l l' -> length l = length l'.
Proof. induction 1; simpl; congruence. Qed.

(* the closure process_value(value): what an Ok call returns *)
Lemma process_value_rec_ok v s s' : process_value_rec v s = (s', None) ->
  exists s1, process_value v s = (s1, None) /\
    s' = (if negb (memN v (f_seen s)) then record_captured v s1 else s1).
Proof.
  unfold process_value_rec, fbind. destruct (process_value v s) as [s1 [e|]] eqn:E; simpl; intros H; inversion H.
  exists s1. auto.
Qed.

Lemma process_value_rec_err v s : snd (process_value_rec v s) = snd (process_value v s).
Proof. unfold process_value_rec, fbind. destruct (process_value v s) as [s1 [e|]]; reflexivity. Qed.

Definition is_named (o : option name) : Prop := exists n, o = Some n /\ n <> [].

(* one _process_value call *)
Lemma process_value_spec v s used rest :
  f_vscopes s = used :: rest ->
  let '(s', e) := process_value v s in
  if memN v (f_seen s) then s' = s /\ e = None else
  match e with
  | Some x => x = ValueError /\ owner_of v (f_inits s) <> None
  | None =>
      exists new, f_vn s' v = Some new /\ new <> [] /\ ~ In new used /\
        f_vscopes s' = (new :: used) :: rest /\ f_seen s' = v :: f_seen s /\
        (forall u, u <> v -> f_vn s' u = f_vn s u) /\ f_nn s' = f_nn s /\ f_nscopes s' = f_nscopes s /\
        (* already-unique-so-far names are kept *)
        (forall n, f_vn s v = Some n -> n <> [] -> ~ In n used -> new = n) /\
        (owner_of v (f_inits s) = None -> f_inits s' = f_inits s) /\
        (* a changed name is never one that existed in the graph when the run started *)
        (f_vn s v <> Some new -> ~ In new (f_rv s)) /\ f_rv s' = f_rv s /\ f_rn s' = f_rn s
  end.
Proof.
  intros Hsc. unfold process_value. destruct (memN v (f_seen s)) eqn:Es; [split; reflexivity|].
  rewrite Hsc.
  destruct (f_vn s v) as [n|] eqn:En.
  - destruct (negb (is_empty (Some n)) && negb (mem n used)) eqn:Ek.
    + apply andb_prop in Ek. destruct Ek as [E1 E2]. apply negb_true_iff in E1, E2.
      exists n. simpl. rewrite En. repeat split; auto.
      * destruct n; [discriminate | discriminate].
      * apply mem_nIn. exact E2.
      * intros m Hm _ _. congruence.
    + set (pref := if is_empty (Some n) then s_v else n).
      assert (Hp : pref <> []) by (unfold pref; destruct n; simpl; discriminate).
      destruct (find_unique_spec pref used (f_vcnt s) (f_rv s)) as [new [cnt' [E [Hn [Hr [_ Hk]]]]]]. rewrite E.
      pose proof (set_vname_spec v new (f_vn s) (f_inits s)) as HS.
      destruct (set_vname v new (f_vn s) (f_inits s)) as [[vn' inits']|x].
      * destruct HS as [A [B C]]. exists new. simpl. repeat split; auto.
        -- eapply find_unique_nonempty; eassumption.
        -- intros m Hm Hm0 Hmu. inversion Hm; subst m. apply andb_false_iff in Ek.
           destruct Ek as [Ek|Ek]; apply negb_false_iff in Ek.
           ++ destruct n; [congruence | discriminate].
           ++ apply mem_In in Ek. contradiction.
      * exact HS.
  - simpl.
    destruct (find_unique_spec s_v used (f_vcnt s) (f_rv s)) as [new [cnt' [E [Hn [Hr [_ Hk]]]]]]. rewrite E.
    pose proof (set_vname_spec v new (f_vn s) (f_inits s)) as HS.
    destruct (set_vname v new (f_vn s) (f_inits s)) as [[vn' inits']|x].
    + destruct HS as [A [B C]]. exists new. simpl. repeat split; auto.
      * eapply find_unique_nonempty; [|eassumption]. discriminate.
      * intros m Hm. discriminate.
    + exact HS.
Qed.

(* after the first visit of a value its name is in the top scope *)
Lemma first_visit_top v s s1 : process_value v s = (s1, None) -> memN v (f_seen s) = false ->
  exists x top rest, f_vn s1 v = Some x /\ f_vscopes s1 = top :: rest /\ In x top.
Proof.
  intros H Es. destruct (f_vscopes s) as [|used rest] eqn:Hsc.
  { unfold process_value in H. rewrite Es, Hsc in H. inversion H. }
  pose proof (process_value_spec v s used rest Hsc) as S. rewrite H, Es in S.
  destruct S as [new [A [_ [_ [D _]]]]]. exists new, (new :: used), rest. split; [exact A|]. split; [exact D | left; reflexivity].
Qed.

Lemma Forall2_In_r {A B} (R : A -> B -> Prop) l l' y : Forall2 R l l' -> In y l' -> exists x, In x l /\ R x y.
Proof.
  induction 1 as [|a b r r' Hab _ IH]; intros H; [destruct H|].
  destruct H as [<-|H]; [exists a; split; [left; reflexivity | exact Hab]|].
  destruct (IH H) as [x [X Y]]. exists x. split; [right; exact X | exact Y].
Qed.

(* a property of all names in all scopes survives the recording, when it holds of the value's name *)
Lemma record_scopes_prop (Q : name -> Prop) v s :
  (forall x, f_vn s v = Some x -> Q x) ->
  (forall u y, In u (f_vscopes s) -> In y u -> Q y) ->
  forall u y, In u (rc_scopes v s) -> In y u -> Q y.
Proof.
  intros Hx Hold u' y Hu Hy.
  destruct (Forall2_In_r _ _ _ _ (rc_scopes_grown v s) Hu) as [u [Iu [_ G]]].
  destruct (G y Hy) as [X|X]; [apply (Hold u y Iu X) | apply Hx; exact X].
Qed.

(* ---------- no run ever reports out-of-fuel, whatever the event list and the state *)
Definition not_fuel (r : fres) : Prop := snd r <> Some OtherError.

Lemma process_value_nofuel v s : not_fuel (process_value v s).
Proof.
  unfold not_fuel, process_value. destruct (memN v (f_seen s)); [discriminate|].
  destruct (f_vscopes s) as [|used rest]; [discriminate|].
  match goal with |- context [if ?c then _ else _] => destruct c end; [discriminate|].
  match goal with |- context [find_unique ?p ?u ?c ?r] => destruct (find_unique_spec p u c r) as [new [cnt' [E _]]]; rewrite E end.
  pose proof (set_vname_spec v new (f_vn s) (f_inits s)) as HS.
  destruct (set_vname v new (f_vn s) (f_inits s)) as [[vn' inits']|x]; simpl; [discriminate|].
  destruct HS as [-> _]. discriminate.
Qed.

Lemma fbind_nofuel r f : not_fuel r -> (forall s, not_fuel (f s)) -> not_fuel (fbind r f).
Proof. unfold fbind. destruct r as [s [e|]]; simpl; auto. Qed.

Lemma process_values_nofuel vs : forall s, not_fuel (process_values vs s).
Proof.
  induction vs as [|v r IH]; intros s; simpl; [discriminate|].
  apply fbind_nofuel; [|exact IH]. unfold not_fuel. rewrite process_value_rec_err. apply process_value_nofuel.
Qed.

Lemma process_node_name_nofuel n s : not_fuel (process_node_name n s).
Proof.
  unfold not_fuel, process_node_name. destruct (f_nscopes s) as [|used rest]; [discriminate|].
  match goal with |- context [if ?c then _ else _] => destruct c end; [discriminate|].
  match goal with |- context [find_unique ?p ?u ?c ?r] => destruct (find_unique_spec p u c r) as [new [cnt' [E _]]]; rewrite E end.
  discriminate.
Qed.

Lemma fx_step_nofuel e s : not_fuel (fx_step e s).
Proof.
  destruct e; simpl.
  - destruct (f_vscopes s); [discriminate|].
    apply fbind_nofuel; [apply process_values_nofuel|]. intros s2.
    apply fbind_nofuel; [apply process_values_nofuel|]. intros s3.
    destruct isfunc; [discriminate | apply process_values_nofuel].
  - discriminate.
  - apply fbind_nofuel; [apply process_node_name_nofuel|]. intros s1.
    apply fbind_nofuel; [apply process_values_nofuel|]. intros s2. apply process_values_nofuel.
Qed.

Lemma fx_events_nofuel es : forall s, not_fuel (fx_events es s).
Proof.
  induction es as [|e r IH]; intros s; simpl; [discriminate|].
  apply fbind_nofuel; [apply fx_step_nofuel | exact IH].
Qed.

Lemma fix_all_nofuel gs : forall s, not_fuel (fix_all gs s).
Proof.
  induction gs as [|g r IH]; intros s; simpl; [discriminate|].
  apply fbind_nofuel; [|exact IH]. unfold fix_graph_names.
  destruct (collect_names _ _ _ _) as [rv rn]. apply fx_events_nofuel.
Qed.

(* ---------- without initializers no ValueError; with balanced events no IndexError *)
Definition no_inits (s : fstate) : Prop := forall v, owner_of v (f_inits s) = None.
Definition depth_ok (d : nat) (s : fstate) : Prop :=
  length (f_vscopes s) = S d /\ length (f_nscopes s) = S d.

(* a step result is fine when: no error other than ValueError-from-an-initializer, and on success the
   stack depths and the absence of initializers are preserved *)
Definition step_fine (d : nat) (s : fstate) (r : fres) : Prop :=
  match snd r with
  | Some e => e = ValueError /\ ~ no_inits s
  | None => depth_ok d (fst r) /\ (no_inits s -> no_inits (fst r))
  end.

Lemma process_value_fine d v s : depth_ok d s -> step_fine d s (process_value v s).
Proof.
  intros [D1 D2]. destruct (f_vscopes s) as [|used rest] eqn:Hsc; [discriminate|].
  pose proof (process_value_spec v s used rest Hsc) as H.
  destruct (process_value v s) as [s' e]. unfold step_fine. simpl.
  destruct (memN v (f_seen s)).
  - destruct H as [-> ->]. split; [split; [rewrite Hsc; exact D1 | exact D2] | auto].
  - destruct e as [x|].
    + destruct H as [-> H]. split; [reflexivity|]. intros N. apply H. apply N.
    + destruct H as [new [_ [_ [_ [A [_ [_ [_ [B [_ [C _]]]]]]]]]]]. split.
      * split; [rewrite A; simpl in *; exact D1 | rewrite B; exact D2].
      * intros N u. rewrite (C (N v)). apply N.
Qed.

Lemma fine_bind d s r f :
  step_fine d s r -> (forall s1, depth_ok d s1 -> step_fine d s1 (f s1)) -> step_fine d s (fbind r f).
Proof.
  unfold step_fine, fbind. destruct r as [s1 [e|]]; simpl; [auto|].
  intros [D N] H. specialize (H s1 D). destruct (snd (f s1)) as [e|].
  - destruct H as [-> H]. split; [reflexivity|]. intros X. apply H. apply N. exact X.
  - destruct H as [D' N']. split; [exact D' | auto].
Qed.

Lemma process_value_rec_fine d v s : depth_ok d s -> step_fine d s (process_value_rec v s).
Proof.
  intros D. pose proof (process_value_fine d v s D) as F. unfold step_fine in *.
  rewrite process_value_rec_err. destruct (snd (process_value v s)) as [e|] eqn:E; [exact F|].
  unfold process_value_rec, fbind. destruct (process_value v s) as [s1 e1]. simpl in *. subst e1. simpl.
  destruct (negb (memN v (f_seen s))); [|exact F].
  destruct F as [[D1 D2] Nn]. split; [|exact Nn]. split; simpl; [|exact D2].
  rewrite <- (Forall2_length _ _ _ (rc_scopes_grown v s1)). exact D1.
Qed.

Lemma process_values_fine d vs : forall s, depth_ok d s -> step_fine d s (process_values vs s).
Proof.
  induction vs as [|v r IH]; intros s D; simpl.
  - unfold step_fine. simpl. auto.
  - apply fine_bind; [apply process_value_rec_fine; exact D | exact IH].
Qed.

Lemma process_node_name_fine d n s : depth_ok d s -> step_fine d s (process_node_name n s).
Proof.
  intros [D1 D2]. unfold process_node_name. destruct (f_nscopes s) as [|used rest] eqn:Hsc; [discriminate|].
  match goal with |- context [if ?c then _ else _] => destruct c end.
  - unfold step_fine, depth_ok. simpl. rewrite D1. simpl in D2. auto.
  - match goal with |- context [find_unique ?p ?u ?c ?r] => destruct (find_unique_spec p u c r) as [new [cnt' [E _]]]; rewrite E end.
    unfold step_fine, depth_ok. simpl. rewrite D1. simpl in D2. auto.
Qed.

Fixpoint wb (d : nat) (es : list ev) : Prop :=
  match es with
  | [] => True
  | EEnter _ _ _ _ :: r => wb (S d) r
  | EExit :: r => match d with O => False | S d' => wb d' r end
  | ENode _ _ _ :: r => wb d r
  end.

Definition run_fine (s : fstate) (r : fres) : Prop :=
  match snd r with
  | Some e => e = ValueError /\ ~ no_inits s
  | None => no_inits s -> no_inits (fst r)
  end.

Lemma fx_events_fine es : forall d s, wb d es -> depth_ok d s -> run_fine s (fx_events es s).
Proof.
  induction es as [|e r IH]; intros d s W D; simpl.
  - unfold run_fine. simpl. auto.
  - assert (K : forall d' r1, step_fine d' s r1 -> wb d' r -> run_fine s (fbind r1 (fx_events r))).
    { intros d' r1 F W'. unfold step_fine in F. unfold run_fine, fbind. destruct r1 as [s1 [x|]]; simpl in *; [exact F|].
      destruct F as [D' N']. specialize (IH d' s1 W' D'). unfold run_fine in IH.
      destruct (snd (fx_events r s1)) as [x|].
      - destruct IH as [-> IH]. split; [reflexivity|]. intros X. apply IH. apply N'. exact X.
      - auto. }
    destruct e as [gid isfunc ins outs| |nid nins nouts]; simpl in W.
    + (* EEnter *) apply (K (S d)); [|exact W]. simpl.
      destruct D as [D1 D2]. destruct (f_vscopes s) as [|top rest] eqn:Hsc; [discriminate|].
      set (s1 := mkF (f_own s) (gid :: f_so s) (f_vx s) (f_nx s) (f_rv s) (f_rn s) (f_vn s) (f_nn s) (f_inits s) (f_seen s) (f_vcnt s) (f_ncnt s) (top :: top :: rest) ([] :: f_nscopes s) (f_mod s)).
      assert (D' : depth_ok (S d) s1) by (unfold depth_ok, s1; simpl in *; split; congruence).
      assert (F : step_fine (S d) s1
                (fbind (process_values ins s1) (fun s2 => fbind (process_values outs s2) (fun s3 =>
                   if isfunc then (s3, None) else process_values (map snd (get_dict gid (f_inits s3))) s3)))).
      { apply fine_bind; [apply process_values_fine; exact D'|]. intros s2 D2'.
        apply fine_bind; [apply process_values_fine; exact D2'|]. intros s3 D3'.
        destruct isfunc; [unfold step_fine; simpl; auto | apply process_values_fine; exact D3']. }
      unfold step_fine in *. destruct (snd _) as [x|]; exact F.
    + (* EExit *) destruct d as [|d']; [destruct W|]. apply (K d'); [|exact W].
      unfold step_fine, depth_ok. simpl. destruct D as [D1 D2].
      destruct (f_vscopes s); [discriminate|]. destruct (f_nscopes s); [discriminate|]. simpl in *.
      split; [split; congruence | auto].
    + (* ENode *) apply (K d); [|exact W]. simpl.
      apply fine_bind; [apply process_node_name_fine; exact D|]. intros s1 D1.
      apply fine_bind; [apply process_values_fine; exact D1|]. intros s2 D2. apply process_values_fine. exact D2.
Qed.

(* ---------- the traversal's event list is balanced (custom induction over the nested structure) *)
Section GraphInd.
  Variables (P : graph -> Prop) (Q : node -> Prop).
  Hypothesis HG : forall gid f ins outs nodes, Forall Q nodes -> P (Graph gid f ins outs nodes).
  Hypothesis HN : forall nid nins nouts subs, Forall P subs -> Q (Node nid nins nouts subs).
  Fixpoint graph_ind' (g : graph) : P g :=
    match g with
    | Graph gid f ins outs nodes =>
        HG gid f ins outs nodes
          ((fix go (ns : list node) : Forall Q ns :=
              match ns with [] => Forall_nil _ | n :: r => Forall_cons _ (node_ind' n) (go r) end) nodes)
    end
  with node_ind' (n : node) : Q n :=
    match n with
    | Node nid nins nouts subs =>
        HN nid nins nouts subs
          ((fix go (gs : list graph) : Forall P gs :=
              match gs with [] => Forall_nil _ | g :: r => Forall_cons _ (graph_ind' g) (go r) end) subs)
    end.
End GraphInd.

Lemma wb_app_exit d rest : wb d rest -> wb (S d) (EExit :: rest).
Proof. simpl. auto. Qed.

Lemma events_balanced : forall g d rest, wb d rest -> wb d (events_graph g ++ rest).
Proof.
  apply (graph_ind' (fun g => forall d rest, wb d rest -> wb d (events_graph g ++ rest))
                    (fun n => forall d rest, wb d rest -> wb d (events_node n ++ rest))).
  - intros gid f ins outs nodes HF d rest W. simpl.
    rewrite <- app_assoc. simpl.
    induction HF as [|n ns Hn _ IH]; simpl.
    + exact W.
    + rewrite <- app_assoc. apply Hn. exact IH.
  - intros nid nins nouts subs HF d rest W. simpl.
    induction HF as [|g gs Hg _ IH]; simpl.
    + exact W.
    + destruct g as [gid f ins outs nodes]. simpl.
      specialize (Hg (S d) (EExit :: _ ++ rest) IH). simpl in Hg.
      repeat (rewrite <- app_assoc in Hg; simpl in Hg). repeat (rewrite <- app_assoc; simpl). exact Hg.
Qed.

Lemma fix_graph_names_no_inits g own vx nx vn nn inits m :
  (forall v, owner_of v inits = None) ->
  let r := fix_graph_names g own vx nx vn nn inits m in snd r = None /\ no_inits (fst r).
Proof.
  intros N. unfold fix_graph_names. destruct (collect_names (events_graph g) vn nn inits) as [rv rn].
  assert (W : wb 0 (events_graph g)) by (rewrite <- (app_nil_r (events_graph g)); apply events_balanced; exact I).
  assert (D : depth_ok 0 (fx_init own vx nx rv rn vn nn inits m)) by (split; reflexivity).
  pose proof (fx_events_fine _ _ _ W D) as F. unfold run_fine in F.
  destruct (fx_events (events_graph g) (fx_init own vx nx rv rn vn nn inits m)) as [s' [e|]] eqn:E; simpl in *.
  - destruct F as [_ F]. exfalso. apply F. exact N.
  - split; [reflexivity | apply F; exact N].
Qed.

Lemma fix_all_no_inits gs : forall s, no_inits s -> snd (fix_all gs s) = None.
Proof.
  induction gs as [|g r IH]; intros s N; simpl; [reflexivity|].
  destruct (fix_graph_names_no_inits g (f_own s) (f_vx s) (f_nx s) (f_vn s) (f_nn s) (f_inits s) (f_mod s) N) as [A B].
  unfold fbind. destruct (fix_graph_names g (f_own s) (f_vx s) (f_nx s) (f_vn s) (f_nn s) (f_inits s) (f_mod s)) as [s1 e]. simpl in *.
  subst e. apply IH. exact B.
Qed.

(* C15_fix_total_partial: a model in which no graph has initializers is never rejected *)
Lemma name_fix_pass_total_no_inits main funcs own vx nx vn nn inits :
  (forall v, owner_of v inits = None) -> snd (name_fix_pass main funcs own vx nx vn nn inits) = None.
Proof. intros N. unfold name_fix_pass. apply fix_all_no_inits. exact N. Qed.

(* the only exception a run can end with is the ValueError of the initializer name guard *)
Lemma fix_graph_names_only_valueerror g own vx nx vn nn inits m e :
  snd (fix_graph_names g own vx nx vn nn inits m) = Some e -> e = ValueError.
Proof.
  unfold fix_graph_names. destruct (collect_names (events_graph g) vn nn inits) as [rv rn]. intros H.
  assert (W : wb 0 (events_graph g)) by (rewrite <- (app_nil_r (events_graph g)); apply events_balanced; exact I).
  assert (D : depth_ok 0 (fx_init own vx nx rv rn vn nn inits m)) by (split; reflexivity).
  pose proof (fx_events_fine _ _ _ W D) as F. unfold run_fine in F. rewrite H in F. tauto.
Qed.

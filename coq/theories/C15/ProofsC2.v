(* C15/ProofsC2.v — rename_values: the phases over the flattened work list, and the glue. *)
From Coq Require Import NArith List Bool Lia Permutation.
From IRV Require Import Base.Exn C15.Model C15.ProofsA C15.ProofsA2 C15.ProofsC.
Import ListNotations.
Open Scope N_scope.

Definition groups_t := list (N * list (N * name)).
Definition flat3 (gs : groups_t) : list (N * (N * name)) :=
  flat_map (fun gp => map (fun p => (fst gp, p)) (snd gp)) gs.
Definition fl (x : N * (N * name)) : N * N := (fst x, fst (snd x)).
Definition flat (gs : groups_t) : list (N * N) := map fl (flat3 gs).

Fixpoint pop_flat (L : list (N * N)) (s : rstate) : rres :=
  match L with [] => (s, Ok tt) | (g, v) :: r => rbind (r_pop g v s) (pop_flat r) end.
Fixpoint add_flat (L : list (N * N)) (s : rstate) : rres :=
  match L with [] => (s, Ok tt) | (g, v) :: r => rbind (r_add g v s) (add_flat r) end.

Lemma pop_flat_app l1 : forall l2 s, pop_flat (l1 ++ l2) s = rbind (pop_flat l1 s) (pop_flat l2).
Proof.
  induction l1 as [|[g v] r IH]; intros l2 s; simpl; [reflexivity|].
  unfold rbind at 1 3. destruct (r_pop g v s) as [s1 [u|e]]; simpl; [apply IH | reflexivity].
Qed.
Lemma add_flat_app l1 : forall l2 s, add_flat (l1 ++ l2) s = rbind (add_flat l1 s) (add_flat l2).
Proof.
  induction l1 as [|[g v] r IH]; intros l2 s; simpl; [reflexivity|].
  unfold rbind at 1 3. destruct (r_add g v s) as [s1 [u|e]]; simpl; [apply IH | reflexivity].
Qed.

Lemma flat_cons g ps r : flat ((g, ps) :: r) = map (fun p => (g, fst p)) ps ++ flat r.
Proof. unfold flat, flat3. simpl. rewrite map_app, map_map. reflexivity. Qed.

Lemma r_pops_flat gs : forall s, r_pops gs s = pop_flat (flat gs) s.
Proof.
  induction gs as [|[g ps] r IH]; intros s; [reflexivity|].
  rewrite flat_cons, pop_flat_app. simpl.
  assert (E : forall ps s, (fix go (ps : list (N * name)) (s : rstate) {struct ps} : rres :=
                match ps with [] => (s, Ok tt) | (v, _) :: q => rbind (r_pop g v s) (go q) end) ps s
              = pop_flat (map (fun p => (g, fst p)) ps) s).
  { clear. induction ps as [|[v n] q IHq]; intros s; simpl; [reflexivity|].
    unfold rbind. destruct (r_pop g v s) as [s1 [u|e]]; simpl; [apply IHq | reflexivity]. }
  rewrite E. unfold rbind. destruct (pop_flat _ s) as [s1 [u|e]]; simpl; [apply IH | reflexivity].
Qed.

Lemma r_adds_flat gs : forall s, r_adds gs s = add_flat (flat gs) s.
Proof.
  induction gs as [|[g ps] r IH]; intros s; [reflexivity|].
  rewrite flat_cons, add_flat_app. simpl.
  assert (E : forall ps s, (fix go (ps : list (N * name)) (s : rstate) {struct ps} : rres :=
                match ps with [] => (s, Ok tt) | (v, _) :: q => rbind (r_add g v s) (go q) end) ps s
              = add_flat (map (fun p => (g, fst p)) ps) s).
  { clear. induction ps as [|[v n] q IHq]; intros s; simpl; [reflexivity|].
    unfold rbind. destruct (r_add g v s) as [s1 [u|e]]; simpl; [apply IHq | reflexivity]. }
  rewrite E. unfold rbind. destruct (add_flat _ s) as [s1 [u|e]]; simpl; [apply IH | reflexivity].
Qed.

Lemma PInv_equiv R R' s : (forall x, In x R <-> In x R') -> PInv R s -> PInv R' s.
Proof.
  intros HE [PE PK PC PD]. constructor; try assumption.
  - intros g k v Hin. destruct (PE _ _ _ Hin) as [A [B [C [D [E F]]]]]. repeat split; try assumption.
    intros X. apply F. apply in_map_iff in X. destruct X as [[g' v'] [E1 X]]. simpl in E1. subst v'.
    apply in_map_iff. exists (g', v). split; [reflexivity | apply HE; exact X].
  - intros g v X. apply PD. apply HE. exact X.
Qed.

Lemma same_but_trans a b c : same_but a b -> same_but b c -> same_but a c.
Proof. intros [A1 [A2 [A3 A4]]] [B1 [B2 [B3 B4]]]. repeat split; congruence. Qed.

(* ---------- phase 1: pops *)
Lemma pop_flat_ok L : forall R s, PInv R s -> NoDup (map snd L) ->
  (forall g v, In (g, v) L -> r_isinit s v = true /\ r_vgraph s v = Some g) ->
  exists s1, pop_flat L s = (s1, Ok tt) /\ PInv (L ++ R) s1 /\ r_vn s1 = r_vn s /\ same_but s s1 /\
    (forall g' k u, In (k, u) (get_dict g' (r_inits s1)) <-> In (k, u) (get_dict g' (r_inits s)) /\ ~ In u (map snd L)) /\
    (forall u, ~ In u (map snd L) -> r_isinit s1 u = r_isinit s u /\ r_vgraph s1 u = r_vgraph s u).
Proof.
  induction L as [|[g v] r IH]; intros R s PI ND HL; simpl.
  - exists s. split; [reflexivity|]. split; [exact PI|]. split; [reflexivity|]. split; [repeat split|].
    split; [intros; simpl; tauto | intros; split; reflexivity].
  - simpl in ND. inversion ND as [|? ? Hn ND']; subst.
    destruct (HL g v (or_introl eq_refl)) as [Hi Hg].
    destruct (r_pop_ok R s g v PI Hi Hg) as [s1 [E1 [P1 [N1 [S1 [M1 F1]]]]]].
    assert (HL' : forall g' v', In (g', v') r -> r_isinit s1 v' = true /\ r_vgraph s1 v' = Some g').
    { intros g' v' X. assert (v' <> v) by (intros ->; apply Hn; apply (in_map snd) in X; exact X).
      destruct (F1 v' H) as [A B]. rewrite A, B. apply HL. right. exact X. }
    destruct (IH ((g, v) :: R) s1 P1 ND' HL') as [s2 [E2 [P2 [N2 [S2 [M2 F2]]]]]].
    exists s2. unfold rbind. rewrite E1. simpl. split; [exact E2|].
    split.
    { eapply PInv_equiv; [|exact P2]. intros x. rewrite !in_app_iff. simpl. rewrite in_app_iff. tauto. }
    split; [congruence|]. split; [eapply same_but_trans; eassumption|]. split.
    + intros g' k u. rewrite M2, M1. simpl. intuition congruence.
    + intros u Hu. assert (u <> v) by (intros ->; apply Hu; left; reflexivity). assert (~ In u (map snd r)) by (intros X; apply Hu; right; exact X).
      destruct (F2 u H0) as [A B]. destruct (F1 u H) as [C D]. split; congruence.
Qed.

(* ---------- phase 2: renames (no value of the list is an initializer any more) *)
Lemma r_renames_ok ps : forall R s, PInv R s -> (forall v n, In (v, n) ps -> r_isinit s v = false) ->
  exists s1, r_renames ps s = (s1, Ok tt) /\ PInv R s1 /\ r_inits s1 = r_inits s /\ r_isinit s1 = r_isinit s /\
    r_vgraph s1 = r_vgraph s /\ r_isio s1 = r_isio s /\ r_prod s1 = r_prod s /\
    (forall v, ~ In v (map fst ps) -> r_vn s1 v = r_vn s v) /\
    (NoDup (map fst ps) -> forall v n, In (v, n) ps -> r_vn s1 v = Some n).
Proof.
  induction ps as [|[v n] q IH]; intros R s PI H; simpl.
  - exists s. split; [reflexivity|]. split; [exact PI|]. repeat split; try reflexivity. intros _ v n [].
  - rewrite (H v n (or_introl eq_refl)).
    set (s0 := mkR (upd (r_vn s) v (Some n)) (r_inits s) (r_isinit s) (r_isio s) (r_vgraph s) (r_prod s) (r_const s)).
    assert (P0 : PInv R s0) by (apply rename_plain_ok; [exact PI | apply (H v n); left; reflexivity]).
    destruct (IH R s0 P0) as [s1 [E [P1 [A [B [C [D [F [G K]]]]]]]]].
    { intros v' n' X. simpl. apply (H v' n'). right. exact X. }
    exists s1. split; [exact E|]. split; [exact P1|]. simpl in *. repeat split; try assumption.
    + intros u Hu. rewrite G by tauto. apply upd_other. intros ->. tauto.
    + intros ND u m [X|X].
      * inversion X; subst. inversion ND; subst. rewrite G by assumption. apply upd_same.
      * inversion ND; subst. apply K; assumption.
Qed.

Lemma r_renames_const ps : forall s, r_const (fst (r_renames ps s)) = r_const s.
Proof.
  induction ps as [|[v n] q IH]; intros s; simpl; [reflexivity|].
  destruct (r_isinit s v).
  - destruct (set_vname v n (r_vn s) (r_inits s)) as [[vn' inits']|e]; [rewrite IH|]; reflexivity.
  - rewrite IH. reflexivity.
Qed.

(* ---------- phase 3: re-adds *)
Lemma add_flat_ok L : forall s, PInv L s -> NoDup (map snd L) ->
  (forall g v, In (g, v) L -> exists k, r_vn s v = Some k /\ k <> [] /\ dlookup k (get_dict g (r_inits s)) = None) ->
  (forall g v1 v2 k, In (g, v1) L -> In (g, v2) L -> r_vn s v1 = Some k -> r_vn s v2 = Some k -> v1 = v2) ->
  exists s1, add_flat L s = (s1, Ok tt) /\ PInv [] s1 /\ r_vn s1 = r_vn s /\ same_but s s1 /\
    (forall g' k u, In (k, u) (get_dict g' (r_inits s1)) <->
                    In (k, u) (get_dict g' (r_inits s)) \/ (In (g', u) L /\ r_vn s u = Some k)) /\
    (forall u, ~ In u (map snd L) -> r_isinit s1 u = r_isinit s u /\ r_vgraph s1 u = r_vgraph s u) /\
    (forall g v, In (g, v) L -> r_isinit s1 v = true /\ r_vgraph s1 v = Some g).
Proof.
  induction L as [|[g v] r IH]; intros s PI ND HA HD; simpl.
  - exists s. split; [reflexivity|]. split; [exact PI|]. split; [reflexivity|]. split; [repeat split|].
    split; [intros; simpl; tauto|]. split; [intros; split; reflexivity | intros g v []].
  - simpl in ND. inversion ND as [|? ? Hn ND']; subst.
    destruct (HA g v (or_introl eq_refl)) as [k [Hk [Hk0 HL]]].
    destruct (r_add_ok [] r s g v k PI Hn Hk Hk0 HL) as [s1 [E1 [P1 [N1 [S1 [M1 [F1 [I1 G1]]]]]]]].
    simpl in P1.
    assert (HA' : forall g' v', In (g', v') r ->
              exists k', r_vn s1 v' = Some k' /\ k' <> [] /\ dlookup k' (get_dict g' (r_inits s1)) = None).
    { intros g' v' X. destruct (HA g' v' (or_intror X)) as [k' [A [B C]]]. exists k'. rewrite N1.
      split; [exact A|]. split; [exact B|]. apply dlookup_not_key. intros Y.
      apply in_map_iff in Y. destruct Y as [[k2 u] [E2 Y]]. simpl in E2. subst k2.
      apply M1 in Y. destruct Y as [Y|[-> [-> ->]]].
      - apply (dlookup_None _ _ C). apply (in_map fst) in Y. exact Y.
      - assert (v' = v) by (eapply (HD g v' v k); [right; exact X | left; reflexivity | exact A | exact Hk]).
        subst v'. apply Hn. apply (in_map snd) in X. exact X. }
    assert (HD' : forall g' v1 v2 k', In (g', v1) r -> In (g', v2) r ->
              r_vn s1 v1 = Some k' -> r_vn s1 v2 = Some k' -> v1 = v2).
    { intros g' v1 v2 k' X1 X2. rewrite N1. apply (HD g'); right; assumption. }
    destruct (IH s1 P1 ND' HA' HD') as [s2 [E2 [P2 [N2 [S2 [M2 [F2 G2]]]]]]].
    exists s2. unfold rbind. rewrite E1. simpl. split; [exact E2|]. split; [exact P2|].
    split; [congruence|]. split; [eapply same_but_trans; eassumption|]. split; [|split].
    + intros g' k' u. rewrite M2, M1, N1. split.
      * intros [[H|[-> [-> ->]]]|[H1 H2]]; [left; exact H | right; split; [left; reflexivity | exact Hk] | right; split; [right; exact H1 | exact H2]].
      * intros [H|[[H1|H1] H2]]; [left; left; exact H | inversion H1; subst; left; right; repeat split; congruence | right; split; assumption].
    + intros u Hu. assert (u <> v) by (intros ->; apply Hu; left; reflexivity). assert (~ In u (map snd r)) by (intros X; apply Hu; right; exact X).
      destruct (F2 u H0) as [A B]. destruct (F1 u H) as [C D]. split; congruence.
    + intros g' v' [X|X].
      * inversion X; subst. destruct (F2 v' Hn) as [A B]. split; congruence.
      * apply G2. exact X.
Qed.

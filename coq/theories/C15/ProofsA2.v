(* C15/ProofsA2.v — lifting of the NameAuthority theorems to the graph-level history language
   (Graph.__init__ / append / extend / insert_* through _set_node_graph_to_self_and_assign_names). *)
From Coq Require Import NArith List Bool Lia.
From IRV Require Import Base.Exn C15.Model C15.ProofsA.
Import ListNotations.
Open Scope N_scope.

Lemma upd_same {A} (f : N -> A) k x : upd f k x k = x.
Proof. unfold upd. rewrite N.eqb_refl. reflexivity. Qed.
Lemma upd_other {A} (f : N -> A) k x i : i <> k -> upd f k x i = f i.
Proof. unfold upd. intros H. destruct (N.eqb i k) eqn:E; [apply N.eqb_eq in E; contradiction | reflexivity]. Qed.

Lemma arun_app o1 : forall o2 a a1 t1 a2 t2,
  arun o1 a = Some (a1, t1) -> arun o2 a1 = Some (a2, t2) -> arun (o1 ++ o2) a = Some (a2, t1 ++ t2).
Proof.
  induction o1 as [|o r IH]; intros o2 a a1 t1 a2 t2 H1 H2; simpl in *.
  - inversion H1; subst. exact H2.
  - destruct (astep a o) as [[b s]|]; [|discriminate].
    destruct (arun r b) as [[c t]|] eqn:E; [|discriminate]. inversion H1; subst.
    rewrite (IH _ _ _ _ _ _ E H2). reflexivity.
Qed.

(* what an adding operation may do to names: explicit names are kept; a name given to an unnamed
   object is outside the seen set the authority had before the operation (and inside afterwards);
   the authority's seen sets only grow, by register calls only. *)
Definition slot_ok (before after : option name) (seen0 seen1 : list name) : Prop :=
  match before with
  | Some x => after = Some x
  | None => match after with None => True | Some s => ~ In s seen0 /\ In s seen1 end
  end.

Record kept_fresh (g g1 : gst) : Prop := {
  kf_v : incl (vnames (g_au g)) (vnames (g_au g1));
  kf_n : incl (nnames (g_au g)) (nnames (g_au g1));
  kf_vals : forall v, slot_ok (g_vname g v) (g_vname g1 v) (vnames (g_au g)) (vnames (g_au g1));
  kf_nodes : forall n, slot_ok (g_nname g n) (g_nname g1 n) (nnames (g_au g)) (nnames (g_au g1));
  kf_calls : exists calls tr, arun calls (g_au g) = Some (g_au g1, tr)
}.

Lemma slot_ok_refl o s : slot_ok o o s s.
Proof. destruct o; simpl; auto. Qed.

Lemma slot_ok_trans a b c s0 s1 s2 :
  incl s0 s1 -> incl s1 s2 -> slot_ok a b s0 s1 -> slot_ok b c s1 s2 -> slot_ok a c s0 s2.
Proof.
  intros I1 I2 H1 H2. destruct a as [x|]; simpl in *.
  - subst b. simpl in H2. exact H2.
  - destruct b as [y|]; simpl in H2.
    + subst c. destruct H1 as [H1 H1']. split; [exact H1 | apply I2; exact H1'].
    + destruct c as [z|]; [|exact I]. destruct H2 as [H2 H2']. split; [|exact H2'].
      intros HI. apply H2. apply I1. exact HI.
Qed.

Lemma kept_fresh_refl g : kept_fresh g g.
Proof.
  constructor; try apply incl_refl; intros; try apply slot_ok_refl.
  exists [], []. reflexivity.
Qed.

Lemma kept_fresh_trans g g1 g2 : kept_fresh g g1 -> kept_fresh g1 g2 -> kept_fresh g g2.
Proof.
  intros [V1 N1 A1 B1 [c1 [t1 C1]]] [V2 N2 A2 B2 [c2 [t2 C2]]]. constructor.
  - eapply incl_tran; eassumption.
  - eapply incl_tran; eassumption.
  - intros v. eapply slot_ok_trans; [exact V1 | exact V2 | apply A1 | apply A2].
  - intros n. eapply slot_ok_trans; [exact N1 | exact N2 | apply B1 | apply B2].
  - exists (c1 ++ c2), (t1 ++ t2). eapply arun_app; eassumption.
Qed.

Lemma g_regv_spec g v : exists g1, g_regv g v = Some g1 /\ kept_fresh g g1 /\
  g_nop g1 = g_nop g /\ g_nouts g1 = g_nouts g /\ g_foreign g1 = g_foreign g /\ g_in g1 = g_in g.
Proof.
  destruct (astep_total (g_au g) (RegV (g_vname g v))) as [a [s H]].
  eexists. split; [unfold g_regv; rewrite H; reflexivity|]. split; [|simpl; auto].
  pose proof (astep_mono _ _ _ _ H) as [V [Nn [_ [_ R]]]]. simpl in R.
  constructor; simpl; try assumption.
  - intros u. destruct (N.eq_dec u v) as [->|Hne].
    + rewrite upd_same. destruct (g_vname g v) as [x|] eqn:E; simpl.
      * f_equal. eapply astep_explicit; [exact H | reflexivity].
      * split; [eapply astep_fresh_value; exact H | exact R].
    + rewrite upd_other by exact Hne. apply slot_ok_trans with (b := g_vname g u) (s1 := vnames (g_au g));
        [apply incl_refl | exact V | apply slot_ok_refl |].
      destruct (g_vname g u); simpl; auto.
  - intros n. destruct (g_nname g n); simpl; auto.
  - exists [RegV (g_vname g v)], [s]. unfold arun. rewrite H. reflexivity.
Qed.

Lemma g_regvs_spec vs : forall g, exists g1, g_regvs g vs = Some g1 /\ kept_fresh g g1 /\
  g_nop g1 = g_nop g /\ g_nouts g1 = g_nouts g /\ g_foreign g1 = g_foreign g /\ g_in g1 = g_in g.
Proof.
  induction vs as [|v r IH]; intros g; simpl.
  - exists g. split; [reflexivity|]. split; [apply kept_fresh_refl | auto].
  - destruct (g_regv_spec g v) as [g1 [H1 [K1 [E1 [E2 [E3 E4]]]]]].
    destruct (IH g1) as [g2 [H2 [K2 [F1 [F2 [F3 F4]]]]]]. exists g2. split; [rewrite H1; exact H2|].
    split; [eapply kept_fresh_trans; eassumption|]. repeat split; congruence.
Qed.

Lemma g_addnode_spec g n : exists g1 r, g_addnode g n = Some (g1, r) /\ kept_fresh g g1 /\
  g_nop g1 = g_nop g /\ g_nouts g1 = g_nouts g /\ g_foreign g1 = g_foreign g.
Proof.
  destruct (g_foreign g n) eqn:EF.
  - exists g, (Raise ValueError). split; [unfold g_addnode; rewrite EF; reflexivity|]. split; [apply kept_fresh_refl | auto].
  - destruct (astep_total (g_au g) (RegN (g_nop g n) (g_nname g n))) as [a [s H]].
    set (gm := mkG a (upd (g_nname g) n (Some s)) (g_nop g) (g_nouts g) (g_foreign g) (g_in g) (g_vname g)).
    destruct (g_regvs_spec (g_nouts g n) gm) as [g2 [H2 [K2 [F1 [F2 [F3 F4]]]]]].
    eexists. exists (Ok tt). split; [unfold g_addnode; rewrite EF, H; fold gm; rewrite H2; reflexivity|]. simpl. split; [|auto].
    assert (K1 : kept_fresh g gm).
    { pose proof (astep_mono _ _ _ _ H) as [V [Nn [_ [_ R]]]]. simpl in R.
      constructor; simpl; try assumption.
      - intros u. destruct (g_vname g u); simpl; auto.
      - intros m. destruct (N.eq_dec m n) as [->|Hne].
        + rewrite upd_same. destruct (g_nname g n) as [x|] eqn:E; simpl.
          * f_equal. eapply astep_explicit; [exact H | reflexivity].
          * split; [eapply astep_fresh_node; exact H | exact R].
        + rewrite upd_other by exact Hne. destruct (g_nname g m); simpl; auto.
      - exists [RegN (g_nop g n) (g_nname g n)], [s]. unfold arun. rewrite H. reflexivity. }
    pose proof (kept_fresh_trans _ _ _ K1 K2) as [V Nn A B C].
    constructor; simpl; assumption.
Qed.

Lemma g_addnodes_go_spec ns : forall g, exists g1 r, g_addnodes_go g ns = Some (g1, r) /\ kept_fresh g g1.
Proof.
  induction ns as [|n r IH]; intros g; simpl.
  - exists g, (Ok tt). split; [reflexivity | apply kept_fresh_refl].
  - destruct (g_addnode_spec g n) as [g1 [rr [H1 [K1 _]]]]. destruct rr as [u|e].
    + destruct (IH g1) as [g2 [r2 [H2 K2]]]. exists g2, r2. split; [rewrite H1; exact H2|].
      eapply kept_fresh_trans; eassumption.
    + exists g1, (Raise e). split; [rewrite H1; reflexivity | exact K1].
Qed.

Lemma g_addnodes_spec ns : forall g, exists g1 r, g_addnodes g ns = Some (g1, r) /\ kept_fresh g g1.
Proof.
  intros g. unfold g_addnodes. destruct (existsb (g_foreign g) ns).
  - exists g, (Raise ValueError). split; [reflexivity | apply kept_fresh_refl].
  - apply g_addnodes_go_spec.
Qed.

(* the naming operations of the graph *)
Definition is_adding (o : gop) : bool :=
  match o with GAdd _ | GCtor _ _ => true | _ => false end.

Definition named_in_g (g : gst) (v : N) : bool := match g_vname g v with Some _ => true | None => false end.

Lemma gctor_spec g ins inits : exists g1 g2,
  g_regvs g (filter (named_in_g g) (ins ++ inits)) = Some g1 /\ g_regvs g1 ins = Some g2 /\
  kept_fresh g g1 /\ kept_fresh g1 g2.
Proof.
  destruct (g_regvs_spec (filter (named_in_g g) (ins ++ inits)) g) as [g1 [H1 [K1 _]]].
  destruct (g_regvs_spec ins g1) as [g2 [H2 [K2 _]]]. exists g1, g2. auto.
Qed.

Lemma gstep_total g o : exists g1 r, gstep g o = Some (g1, r).
Proof.
  destruct o; simpl; eauto.
  - destruct (gctor_spec g ins inits) as [g1 [g2 [H1 [H2 _]]]]. unfold named_in_g in H1. rewrite H1, H2. eauto.
  - destruct (g_addnodes_spec ns g) as [g1 [r [H _]]]. eauto.
  - destruct (g_in g n); eauto.
Qed.

Lemma gstep_adding g o g1 r : is_adding o = true -> gstep g o = Some (g1, r) -> kept_fresh g g1.
Proof.
  destruct o; simpl; try discriminate; intros _ H.
  - destruct (gctor_spec g ins inits) as [ga [gb [H1 [H2 [K1 K2]]]]]. unfold named_in_g in H1. rewrite H1, H2 in H.
    inversion H; subst. eapply kept_fresh_trans; eassumption.
  - destruct (g_addnodes_spec ns g) as [g2 [r2 [H2 K]]]. rewrite H2 in H. inversion H; subst. exact K.
Qed.

(* operations that are not adding never touch the authority *)
Lemma gstep_other_auth g o g1 r : is_adding o = false -> gstep g o = Some (g1, r) -> g_au g1 = g_au g.
Proof.
  destruct o; simpl; try discriminate; intros _ H; try (inversion H; subst; reflexivity).
  destruct (g_in g n); inversion H; subst; reflexivity.
Qed.

Lemma grun_total ops : forall g, exists g1, grun ops g = Some g1.
Proof.
  induction ops as [|o r IH]; intros g; simpl; [eauto|].
  destruct (gstep_total g o) as [g1 [rr H]]. destruct (IH g1) as [g2 H2]. exists g2. rewrite H. exact H2.
Qed.

(* over a whole history the authority evolves by register calls only, its seen sets only grow *)
Lemma grun_auth ops : forall g g1, grun ops g = Some g1 ->
  incl (vnames (g_au g)) (vnames (g_au g1)) /\ incl (nnames (g_au g)) (nnames (g_au g1)) /\
  exists calls tr, arun calls (g_au g) = Some (g_au g1, tr).
Proof.
  induction ops as [|o r IH]; intros g g1 H; simpl in H.
  - inversion H; subst. repeat split; try apply incl_refl. exists [], []. reflexivity.
  - destruct (gstep g o) as [[g2 rr]|] eqn:E; [|discriminate].
    destruct (IH _ _ H) as [V2 [N2 [c2 [t2 C2]]]].
    destruct (is_adding o) eqn:A.
    + destruct (gstep_adding _ _ _ _ A E) as [V1 N1 _ _ [c1 [t1 C1]]].
      repeat split; try (eapply incl_tran; eassumption).
      exists (c1 ++ c2), (t1 ++ t2). eapply arun_app; eassumption.
    + rewrite (gstep_other_auth _ _ _ _ A E) in *. repeat split; try assumption. eauto.
Qed.

(* C10/Calls/Property.v — "every read entry point goes through the containment check" as a theorem about the
   call structure EXTRACTED FROM THE SOURCE on every run (Gen/C10Gen.v, fail-closed ast extraction by
   harness/props/c10.py: every ExternalTensor method that can reach the data file — a use of self.path, an
   open-like call, a call of such a method — is translated; anything it cannot classify is rejected; in
   external_data.py any direct file read or any use of <tensor>.path other than name-only os.path calls is rejected).
   A new unchecked fast path therefore breaks C10_reading_methods_checked (or the extraction), not only the oracle. *)
From Coq Require Import List Bool.
From IRV Require Import C10.CallModel C10.CallProofs Gen.C10Gen.
Import ListNotations.

(* Soundness of the checker, for ALL statement trees and ALL runs (loops unbounded, exceptions anywhere): if `flow`
   accepts a body from the state "nothing checked yet", every open in every trace is preceded in the same call by a
   passing _check_path_containment with no store to base_dir/location in between. *)
Theorem C10_call_structure_sound :
  forall s, entry_ok s = true ->
  forall t o, Exec s t o ->
  forall pre post, t = pre ++ EOpen :: post ->
  exists p1 p2, pre = p1 ++ ECheckOk :: p2 /\ ~ In EMut p2.
Proof. exact entry_ok_sound. Qed.
Print Assumptions C10_call_structure_sound.

(* The extracted methods (_load, numpy, __array__, tobytes, tofile, and external_data's
   _external_tensor_to_memory_tensor / _write_tensor_at) are all accepted ... *)
Theorem C10_reading_methods_checked : forallb entry_ok reading_methods = true.
Proof. vm_compute. reflexivity. Qed.
Print Assumptions C10_reading_methods_checked.

(* ... hence on every run of every one of them each open of the data file is dominated by a passing check. *)
Theorem C10_every_read_path_checked :
  forall s, In s reading_methods -> forall t o, Exec s t o ->
  forall pre post, t = pre ++ EOpen :: post ->
  exists p1 p2, pre = p1 ++ ECheckOk :: p2 /\ ~ In EMut p2.
Proof. exact (all_entry_ok_sound reading_methods C10_reading_methods_checked). Qed.
Print Assumptions C10_every_read_path_checked.

(* non-vacuity: the extracted tofile does open (after the check); the checker rejects the three classic mistakes *)
Example C10_calls_example_tofile_opens :
  accepts m_tofile [ECheckOk; EOpen] = true /\ accepts m_tofile [ECheckRaise] = true /\ accepts m_tofile [] = true /\
  Exec (SSeq SCheck SOpen) [ECheckOk; EOpen] ONormal.
Proof.
  split; [vm_compute; reflexivity|]. split; [vm_compute; reflexivity|]. split; [vm_compute; reflexivity|].
  apply (X_seq_n SCheck SOpen [ECheckOk] [EOpen] ONormal); constructor.
Qed.
Example C10_calls_example_rejected :
  entry_ok (SSeq SOpen SCheck) = false /\                            (* open before check *)
  entry_ok (SSeq (SIf SCheck SSkip) SOpen) = false /\                (* a fast path that skips the check *)
  entry_ok (SSeq SCheck (SSeq SMut SOpen)) = false /\                (* base_dir changed between check and open *)
  entry_ok (SSeq (SLoop (SSeq SOpen SMut)) SSkip) = false /\         (* second iteration opens unchecked *)
  accepts m_tofile [EOpen] = false /\ accepts m_numpy [ECheckOk; EOpen; EOpen] = false.
Proof. vm_compute. repeat split. Qed.

(* C10/Proofs5.v — load(): the base directory denotes, for the kernel, the directory that holds the
   model file's entry, for every spelling of the path. *)
From Coq Require Import NArith List Bool Arith Lia.
From IRV Require Import Base.Exn C10.Model C10.Proofs1 C10.Proofs2 C10.Proofs3.
Import ListNotations.

Definition load_base_up (p : str) : upath :=
  let d := py_dirname (parse p) in if is_empty_path d then up1 s_dot else d.

Lemma load_base_render p : load_base p = render (load_base_up p).
Proof. unfold load_base, load_base_up. destruct (is_empty_path (py_dirname (parse p))); reflexivity. Qed.

Lemma kwalk_S kf fs cur comps fo :
  kwalk (S kf) fs cur comps fo = go fs (fun c cs => kwalk kf fs c cs true) fo cur comps.
Proof. reflexivity. Qed.

Section G.
  Variables (fs : node) (rec : rpath -> list str -> option (rpath * node)).

  Lemma go_node fo : forall comps cur r n, go fs rec fo cur comps = Some (r, n) -> fo = true \/ True.
  Proof. intros. right. exact I. Qed.

  (* walking a prefix first: all its links are followed when something comes after it *)
  Lemma go_app fo : forall l1 l2 cur, l2 <> [] ->
    go fs rec fo cur (l1 ++ l2) =
    match go fs rec true cur l1 with Some (c', _) => go fs rec fo c' l2 | None => None end.
  Proof.
    induction l1 as [|c l1 IH]; intros l2 cur Hl2.
    - simpl app. rewrite go_nil. destruct (get fs cur) eqn:E; [reflexivity|].
      destruct l2 as [|c2 l2]; [congruence|]. rewrite go_cons, E. reflexivity.
    - simpl app. rewrite !go_cons. destruct (get fs cur) as [[k ents| |]|]; try reflexivity.
      destruct (is_nil c || is_dot c); [apply IH; assumption|].
      destruct (is_dotdot c); [apply IH; assumption|].
      destruct (ent_get ents c) as [[k' e'|i k' d|tgt]|]; try reflexivity; try (apply IH; assumption).
      assert (E1 : is_nil (l1 ++ l2) = false) by (destruct l1; [destruct l2; [congruence|reflexivity]|reflexivity]).
      rewrite E1, andb_false_r. simpl andb. cbv zeta.
      destruct (is_empty_path (parse tgt)); [reflexivity|].
      match goal with |- context [rec ?a ?b] => destruct (rec a b) as [[cur' n']|] end; [|reflexivity].
      apply IH; assumption.
  Qed.

  Lemma go_get : forall comps cur r n, go fs rec true cur comps = Some (r, n) -> get fs r = Some n.
  Proof.
    induction comps as [|c rest IH]; intros cur r n H.
    - rewrite go_nil in H. destruct (get fs cur) eqn:E; [|discriminate]. inversion H; subst. exact E.
    - rewrite go_cons in H. destruct (get fs cur) as [[k ents| |]|]; try discriminate.
      destruct (is_nil c || is_dot c); [eapply IH; eauto|].
      destruct (is_dotdot c); [eapply IH; eauto|].
      destruct (ent_get ents c) as [[k' e'|i k' d|tgt]|]; try discriminate; try (eapply IH; exact H).
      rewrite andb_false_r in H. cbv zeta in H.
      destruct (is_empty_path (parse tgt)); [discriminate|].
      match type of H with context [rec ?a ?b] => destruct (rec a b) as [[cur' n']|] end; [|discriminate].
      eapply IH; eauto.
  Qed.

  Lemma go_empties fo : forall k cur, go fs rec fo cur (repeat [] k) =
    match get fs cur with
    | Some n => match k, n with 0, _ => Some (cur, n) | _, Dir _ _ => Some (cur, n) | _, _ => None end
    | None => None end.
  Proof.
    induction k as [|k IH]; intros cur.
    - simpl. destruct (get fs cur); reflexivity.
    - simpl repeat. rewrite go_cons. destruct (get fs cur) as [[a e| |]|] eqn:E; try reflexivity.
      simpl. rewrite IH, E. destruct k; reflexivity.
  Qed.

  (* the last step: a proper name, without following *)
  Lemma go_last_nofollow cur nm r x :
    good nm -> go fs rec false cur [nm] = Some (r, x) ->
    r = cur ++ [nm] /\ exists k e, get fs cur = Some (Dir k e).
  Proof.
    intros [H1 [H2 H3]] H. rewrite go_cons in H.
    destruct (get fs cur) as [[k ents| |]|] eqn:E; try discriminate.
    rewrite H1, H2, H3 in H. simpl in H.
    destruct (ent_get ents nm) as [[k' e'|i k' d|tgt]|]; try discriminate.
    - try rewrite go_nil in H. destruct (get fs (cur ++ [nm])); [|discriminate]. inversion H; subst. eauto.
    - try rewrite go_nil in H. destruct (get fs (cur ++ [nm])); [|discriminate]. inversion H; subst. eauto.
    - inversion H; subst. eauto.
  Qed.
End G.

Lemma drop_empty_split l : exists k, l = repeat [] k ++ drop_empty l /\ (forall c r, drop_empty l = c :: r -> c <> []).
Proof.
  induction l as [|a l IH].
  - exists 0. split; [reflexivity|]. intros; discriminate.
  - destruct a as [|x a].
    + destruct IH as [k [E H]]. exists (S k). simpl. split; [f_equal; exact E|exact H].
    + exists 0. split; [reflexivity|]. simpl. intros c r Hc. inversion Hc. discriminate.
Qed.

Lemma rev_repeat_nil k : rev (repeat (@nil N) k) = repeat [] k.
Proof.
  induction k; simpl; [reflexivity|]. rewrite IHk. clear. induction k; simpl; [reflexivity|]. f_equal. exact IHk.
Qed.

Lemma strip_split l : exists k, l = strip_trailing_empty l ++ repeat [] k.
Proof.
  unfold strip_trailing_empty. destruct (drop_empty_split (rev l)) as [k [E _]].
  exists k. rewrite <- rev_repeat_nil. rewrite <- rev_app_distr. rewrite <- E. symmetry. apply rev_involutive.
Qed.

Theorem load_base_kernel kf fs cwd p init nm d x a e :
  get fs cwd = Some (Dir a e) ->
  snd (parse p) = init ++ [nm] -> good nm ->
  kstr kf fs cwd (parse p) false = Some (d ++ [nm], x) ->
  exists k ents, kstr kf fs cwd (load_base_up p) true = Some (d, Dir k ents).
Proof.
  intros Hcwd Hp Hnm Hk.
  unfold kstr in Hk. destruct (is_empty_path (parse p)) eqn:Ee; [discriminate|].
  destruct kf as [|kf0]; [discriminate|]. simpl kwalk in Hk. rewrite Hp in Hk.
  rewrite go_app in Hk by discriminate.
  match type of Hk with context [go fs ?rc true ?st init] =>
    set (rc0 := rc) in *; set (st0 := st) in *; destruct (go fs rc0 true st0 init) as [[c' n']|] eqn:Ei end; [|discriminate].
  destruct (go_last_nofollow fs rc0 c' nm _ x Hnm Hk) as [Hr [k [ents Hd]]].
  apply app_inj_tail in Hr. destruct Hr as [<- _].
  pose proof (go_get fs rc0 _ _ _ _ Ei) as Hn'. rewrite Hd in Hn'. inversion Hn'; subst n'. clear Hn'.
  exists k, ents.
  (* the walk over init = the walk over strip init, then trailing empties *)
  destruct (strip_split init) as [j Hj].
  assert (Hs : strip_trailing_empty init = [] \/
               go fs rc0 true st0 (strip_trailing_empty init) = Some (d, Dir k ents)).
  { destruct j as [|j].
    - simpl in Hj. rewrite app_nil_r in Hj. right. rewrite <- Hj. exact Ei.
    - destruct (strip_trailing_empty init) as [|s0 sr] eqn:Es; [left; reflexivity|right].
      rewrite Hj in Ei. rewrite go_app in Ei by discriminate.
      destruct (go fs rc0 true st0 (s0 :: sr)) as [[c2 n2]|] eqn:E2; [|discriminate].
      rewrite go_empties in Ei. pose proof (go_get fs rc0 _ _ _ _ E2) as Hg2.
      rewrite Hg2 in Ei. destruct n2; try discriminate. inversion Ei; subst. reflexivity. }
  assert (Hcase : (strip_trailing_empty init = [] /\ st0 = d) \/
                  (exists s0 sr, strip_trailing_empty init = s0 :: sr /\
                                 go fs rc0 true st0 (s0 :: sr) = Some (d, Dir k ents))).
  { destruct (strip_trailing_empty init) as [|s0 sr] eqn:Es.
    - left. split; [reflexivity|].
      assert (Hall : init = repeat [] j) by (rewrite Hj; reflexivity).
      rewrite Hall in Ei. rewrite go_empties in Ei.
      destruct (get fs st0) as [n0|] eqn:Est; [|discriminate].
      destruct j; [|destruct n0; try discriminate]; inversion Ei; reflexivity.
    - right. exists s0, sr. split; [reflexivity|]. destruct Hs as [Hs|Hs]; [discriminate|exact Hs]. }
  clear Hs.
  unfold load_base_up, py_dirname, py_split. rewrite Hp. rewrite removelast_snoc.
  simpl fst.
  destruct Hcase as [[Hs Hd0]|[s0 [sr [Es Hs]]]].
  - rewrite Hs.
    destruct (fst (parse p)) as [|l] eqn:El.
    + (* relative: "." *)
      change (is_empty_path (0, [[]])) with true. cbv iota.
      unfold kstr. change (is_empty_path (up1 s_dot)) with false. cbv iota.
      change (isabs (up1 s_dot)) with false. cbv iota. rewrite kwalk_S. unfold up1. simpl snd.
      assert (Hst : st0 = cwd) by (unfold st0, isabs; rewrite El; reflexivity).
      rewrite go_cons. rewrite <- Hst, Hd0, Hd. simpl. try rewrite go_nil. rewrite ?Hd. reflexivity.
    + change (is_empty_path (S l, [[]])) with false. cbv iota.
      unfold kstr. change (is_empty_path (S l, [[]])) with false. cbv iota.
      change (isabs (S l, [[]])) with true. cbv iota. rewrite kwalk_S. simpl snd.
      assert (Hst : st0 = []) by (unfold st0, isabs; rewrite El; reflexivity).
      rewrite go_cons. rewrite <- Hst, Hd0, Hd. simpl. try rewrite go_nil. rewrite ?Hd. reflexivity.
  - rewrite Es. cbv iota.
    assert (Hne : is_empty_path (fst (parse p), s0 :: sr) = false).
    { unfold is_empty_path. simpl. destruct (fst (parse p)); [|reflexivity]. simpl.
      destruct s0 as [|ch s0]; [|destruct sr; reflexivity].
      destruct sr; [|reflexivity].
      (* strip_trailing_empty never ends with an empty component *)
      exfalso. unfold strip_trailing_empty in Es.
      destruct (drop_empty_split (rev init)) as [k2 [_ Hh]].
      destruct (drop_empty (rev init)) as [|h t] eqn:Ed; [discriminate|].
      specialize (Hh _ _ eq_refl). simpl in Es.
      assert (Hl : last (rev t ++ [h]) [] = []) by (rewrite Es; reflexivity).
      rewrite last_last in Hl. congruence. }
    rewrite Hne. unfold kstr. rewrite Hne. simpl fst. simpl snd. rewrite kwalk_S.
    exact Hs.
Qed.

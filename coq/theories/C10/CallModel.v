(* C10/CallModel.v — the call structure of the read entry points, as extracted from the source
   (Gen/C10Gen.v, regenerated on every run by harness/props/c10.py: fail-closed ast extraction).
   A method body is a statement tree over the only things that matter for "check before open":
     SCheck  self._check_path_containment()          SOpen  open(self.path, "rb")
     SMut    a store to self._base_dir / self._location (changes what self.path means)
     SCall b a call of another translated method (its body inlined), SRet / SRaise, branches, loops.
   Every other statement is SSkip; ANY statement may raise (Python), so a run may stop anywhere. *)
From Coq Require Import List Bool Arith Lia.
Import ListNotations.

Inductive stm : Type :=
| SSkip | SCheck | SOpen | SMut | SRet | SRaise
| SSeq (a b : stm) | SIf (a b : stm) | SLoop (body : stm) | SCall (body : stm).

Inductive cev := ECheckOk | ECheckRaise | EOpen | EMut.
Inductive outc := ONormal | OReturn | ORaise.

(* big-step traces; ORaise may also happen spontaneously at any simple statement *)
Inductive Exec : stm -> list cev -> outc -> Prop :=
| X_skip : Exec SSkip [] ONormal
| X_skip_raise : Exec SSkip [] ORaise
| X_check_ok : Exec SCheck [ECheckOk] ONormal
| X_check_raise : Exec SCheck [ECheckRaise] ORaise
| X_open_ok : Exec SOpen [EOpen] ONormal
| X_open_raise : Exec SOpen [EOpen] ORaise
| X_mut : Exec SMut [EMut] ONormal
| X_ret : Exec SRet [] OReturn
| X_raise : Exec SRaise [] ORaise
| X_seq_n a b t1 t2 o : Exec a t1 ONormal -> Exec b t2 o -> Exec (SSeq a b) (t1 ++ t2) o
| X_seq_ret a b t1 : Exec a t1 OReturn -> Exec (SSeq a b) t1 OReturn
| X_seq_raise a b t1 : Exec a t1 ORaise -> Exec (SSeq a b) t1 ORaise
| X_if_l a b t o : Exec a t o -> Exec (SIf a b) t o
| X_if_r a b t o : Exec b t o -> Exec (SIf a b) t o
| X_loop_0 body : Exec (SLoop body) [] ONormal
| X_loop_s body t1 t2 o : Exec body t1 ONormal -> Exec (SLoop body) t2 o -> Exec (SLoop body) (t1 ++ t2) o
| X_loop_ret body t : Exec body t OReturn -> Exec (SLoop body) t OReturn
| X_loop_raise body t : Exec body t ORaise -> Exec (SLoop body) t ORaise
| X_call_n body t : Exec body t ONormal -> Exec (SCall body) t ONormal
| X_call_ret body t : Exec body t OReturn -> Exec (SCall body) t ONormal
| X_call_raise body t : Exec body t ORaise -> Exec (SCall body) t ORaise.

(* the property of a trace: an open happens only in state "checked" (a passing check since the last
   mutation of base_dir/location, within this call) *)
Fixpoint auto (st : bool) (t : list cev) : option bool :=
  match t with
  | [] => Some st
  | ECheckOk :: r => auto true r
  | ECheckRaise :: r => auto st r
  | EMut :: r => auto false r
  | EOpen :: r => if st then auto st r else None
  end.

(* ---------- the checker: worst "checked" state at normal exit / at return; None = an open may be unchecked *)
Definition wmin (a b : option bool) : option bool :=
  match a, b with
  | None, x | x, None => x
  | Some x, Some y => Some (x && y)
  end.

Fixpoint flow (s : stm) (st : bool) : option (option bool * option bool) :=
  match s with
  | SSkip => Some (Some st, None)
  | SCheck => Some (Some true, None)
  | SOpen => if st then Some (Some st, None) else None
  | SMut => Some (Some false, None)
  | SRet => Some (None, Some st)
  | SRaise => Some (None, None)
  | SSeq a b =>
      match flow a st with
      | None => None
      | Some (None, ra) => Some (None, ra)
      | Some (Some s1, ra) =>
          match flow b s1 with
          | None => None
          | Some (nb, rb) => Some (nb, wmin ra rb)
          end
      end
  | SIf a b =>
      match flow a st, flow b st with
      | Some (na, ra), Some (nb, rb) => Some (wmin na nb, wmin ra rb)
      | _, _ => None
      end
  | SLoop body =>
      (* zero or more iterations: the entry state of an iteration is st or the body's exit state *)
      match flow body st with
      | None => None
      | Some (None, r1) => Some (Some st, r1)
      | Some (Some s1, r1) =>
          let w := st && s1 in
          match flow body w with
          | None => None
          | Some (n2, r2) =>
              match n2 with
              | Some s2 => if Bool.eqb (w && s2) w then Some (Some w, wmin r1 r2) else None
              | None => Some (Some w, wmin r1 r2)
              end
          end
      end
  | SCall body =>
      match flow body st with
      | None => None
      | Some (n, r) => Some (wmin n r, None)
      end
  end.

Definition entry_ok (s : stm) : bool := match flow s false with Some _ => true | None => false end.

(* ---------- trace acceptance (executable): is t a trace of s, possibly cut short by an exception? *)
(* residuals: the suffixes of t left after running s to a normal exit (N) or a return (R) *)
Definition cev_eqb (a b : cev) : bool :=
  match a, b with
  | ECheckOk, ECheckOk | ECheckRaise, ECheckRaise | EOpen, EOpen | EMut, EMut => true
  | _, _ => false
  end.

(* result: (normal residuals, return residuals, may the whole remaining trace end here by a raise?) *)
Definition is_nilc (t : list cev) : bool := match t with [] => true | _ => false end.

Fixpoint resid (s : stm) (t : list cev) : list (list cev) * list (list cev) * bool :=
  match s with
  | SSkip => ([t], [], is_nilc t)
  | SCheck =>
      match t with
      | ECheckOk :: r => ([r], [], false)
      | [ECheckRaise] => ([], [], true)
      | _ => ([], [], false)
      end
  | SOpen => match t with EOpen :: r => ([r], [], is_nilc r) | _ => ([], [], false) end
  | SMut => match t with EMut :: r => ([r], [], false) | _ => ([], [], false) end
  | SRet => ([], [t], false)
  | SRaise => ([], [], is_nilc t)
  | SSeq a b =>
      let '(na, ra, ea) := resid a t in
      fold_right (fun t1 acc => let '(nb, rb, eb) := resid b t1 in
                                let '(n, r, e) := acc in (nb ++ n, rb ++ r, eb || e))
                 ([], ra, ea) na
  | SIf a b =>
      let '(na, ra, ea) := resid a t in
      let '(nb, rb, eb) := resid b t in (na ++ nb, ra ++ rb, ea || eb)
  | SLoop body =>
      (fix iter (f : nat) (t : list cev) : list (list cev) * list (list cev) * bool :=
         match f with
         | 0 => ([t], [], is_nilc t)
         | S f' =>
             let '(nb, rb, eb) := resid body t in
             fold_right (fun t1 acc =>
                           (* only iterations that consumed something are repeated *)
                           if Nat.ltb (length t1) (length t) then
                             let '(n2, r2, e2) := iter f' t1 in
                             let '(n, r, e) := acc in (n2 ++ n, r2 ++ r, e2 || e)
                           else acc)
                        ([t], rb, eb || is_nilc t) nb
         end) (S (length t)) t
  | SCall body =>
      let '(n, r, e) := resid body t in (n ++ r, [], e)
  end.

Definition accepts (s : stm) (t : list cev) : bool :=
  let '(n, r, e) := resid s t in
  e || existsb (fun x => match x with [] => true | _ => false end) (n ++ r).

(* C10/StrPrefix.v — string-level facts behind the containment test of C10/Model.v.

   The code compares rendered strings: `p == b or p.startswith(b if b.endswith(sep) else b + sep)`.
   Here we prove that, on renderings of canonical absolute locations (lists of non-empty,
   slash-free names), that test is exactly component-wise prefix, and that split/join and
   parse/render are inverse at string level. *)
From Coq Require Import NArith List Bool Arith Lia.
From IRV Require Import Base.Exn C10.Model.
Import ListNotations.

Definition noslash (c : str) : Prop := ~ In slash c.
Definition name_ok (c : str) : Prop := c <> [] /\ noslash c.
(* the rendering of a canonical absolute location: "/" ++ "/".join(names), "/" for the root *)
Definition abs_up (rp : rpath) : upath := (1, match rp with [] => [[]] | _ => rp end).

(* ------------------------------------------------------------------ basics *)
Lemma str_eqb_eq : forall a b : str, str_eqb a b = true <-> a = b.
Proof.
  intros a b. unfold str_eqb. apply list_eqb_eq. intros x y. apply N.eqb_eq.
Qed.

Lemma join_cons2 : forall a b r,
  join_slash (a :: b :: r) = a ++ slash :: join_slash (b :: r).
Proof. reflexivity. Qed.

Lemma join_cons_form : forall a r,
  join_slash (a :: r) = a ++ match r with [] => [] | _ => slash :: join_slash r end.
Proof.
  intros a [|b r].
  - simpl. rewrite app_nil_r. reflexivity.
  - reflexivity.
Qed.

Lemma join_cons_cons : forall c h t,
  join_slash ((c :: h) :: t) = c :: join_slash (h :: t).
Proof. intros c h [|b t]; reflexivity. Qed.

Lemma join_nonempty : forall a r, a <> [] -> join_slash (a :: r) <> [].
Proof.
  intros a r Ha. rewrite join_cons_form. destruct a as [|c a].
  - congruence.
  - discriminate.
Qed.

Lemma join_app : forall l1 l2, l1 <> [] -> l2 <> [] ->
  join_slash (l1 ++ l2) = join_slash l1 ++ slash :: join_slash l2.
Proof.
  induction l1 as [|a r IH]; intros l2 H1 H2.
  - congruence.
  - destruct r as [|b r'].
    + destruct l2 as [|c l2']; [congruence|].
      change ([a] ++ c :: l2') with (a :: c :: l2').
      rewrite join_cons2. reflexivity.
    + change ((a :: b :: r') ++ l2) with (a :: b :: (r' ++ l2)).
      rewrite !join_cons2.
      change (b :: r' ++ l2) with ((b :: r') ++ l2).
      rewrite IH by (try discriminate; assumption).
      rewrite <- app_assoc. reflexivity.
Qed.

Lemma render_abs_up_cons : forall rp, render (abs_up rp) = slash :: join_slash rp.
Proof. intros [|a r]; reflexivity. Qed.

Lemma noslash_cons : forall c a,
  noslash (c :: a) -> N.eqb c slash = false /\ noslash a.
Proof.
  intros c a H. split.
  - apply N.eqb_neq. intro E. apply H. left. exact E.
  - intro I. apply H. right. exact I.
Qed.

(* ------------------------------------------------------------------ split / join *)
Lemma split_slash_nonempty : forall s, split_slash s <> [].
Proof.
  intros [|c r]; cbn [split_slash].
  - discriminate.
  - destruct (N.eqb c slash).
    + discriminate.
    + destruct (split_slash r); discriminate.
Qed.

Lemma split_noslash : forall a, noslash a -> split_slash a = [a].
Proof.
  induction a as [|c a IH]; intros H.
  - reflexivity.
  - apply noslash_cons in H. destruct H as [Hc Ha].
    cbn [split_slash]. rewrite Hc. rewrite (IH Ha). reflexivity.
Qed.

Lemma split_noslash_app : forall a x,
  noslash a -> split_slash (a ++ slash :: x) = a :: split_slash x.
Proof.
  induction a as [|c a IH]; intros x H.
  - cbn [app split_slash]. rewrite N.eqb_refl. reflexivity.
  - apply noslash_cons in H. destruct H as [Hc Ha].
    cbn [app split_slash]. rewrite Hc. rewrite (IH x Ha). reflexivity.
Qed.

Lemma split_join_slash : forall l, l <> [] -> Forall noslash l -> split_slash (join_slash l) = l.
Proof.
  induction l as [|a r IH]; intros Hne HF.
  - congruence.
  - inversion HF as [|? ? Ha Hr]; subst.
    destruct r as [|b r'].
    + change (join_slash [a]) with a. apply split_noslash. exact Ha.
    + rewrite join_cons2. rewrite split_noslash_app by exact Ha.
      rewrite IH; [reflexivity | discriminate | exact Hr].
Qed.

Lemma split_slash_noslash : forall s, Forall noslash (split_slash s).
Proof.
  induction s as [|c r IH].
  - constructor; [|constructor]. intros [].
  - cbn [split_slash]. destruct (N.eqb c slash) eqn:E.
    + constructor; [|exact IH]. intros [].
    + apply N.eqb_neq in E.
      destruct (split_slash r) as [|h t].
      * constructor; [|constructor]. intros [I|[]]. apply E. exact I.
      * inversion IH as [|? ? Hh Ht]; subst.
        constructor; [|exact Ht].
        intros [I|I]; [apply E; exact I | apply Hh; exact I].
Qed.

Lemma join_split_slash : forall s, join_slash (split_slash s) = s.
Proof.
  induction s as [|c r IH].
  - reflexivity.
  - cbn [split_slash]. destruct (N.eqb c slash) eqn:E.
    + apply N.eqb_eq in E. subst c.
      pose proof (split_slash_nonempty r) as Hne.
      destruct (split_slash r) as [|h t] eqn:S; try rewrite S in IH.
      * congruence.
      * rewrite join_cons2. rewrite IH. reflexivity.
    + destruct (split_slash r) as [|h t] eqn:S; try rewrite S in IH.
      * simpl in IH. subst r. reflexivity.
      * rewrite join_cons_cons. f_equal. exact IH.
Qed.

Lemma count_lead_spec : forall s,
  repeat slash (fst (count_lead s)) ++ snd (count_lead s) = s.
Proof.
  induction s as [|c r IH].
  - reflexivity.
  - cbn [count_lead]. destruct (N.eqb c slash) eqn:E.
    + apply N.eqb_eq in E. subst c.
      destruct (count_lead r) as [n t] eqn:C; try rewrite C in IH. simpl in *. rewrite IH. reflexivity.
    + reflexivity.
Qed.

Lemma render_parse : forall s, render (parse s) = s.
Proof.
  intros s. unfold parse, render.
  generalize (count_lead_spec s).
  destruct (count_lead s) as [n r]. simpl. intros H.
  rewrite join_split_slash. exact H.
Qed.

Lemma parse_noslash : forall s, Forall noslash (snd (parse s)).
Proof.
  intros s. unfold parse. destruct (count_lead s) as [n r]. simpl.
  apply split_slash_noslash.
Qed.

(* ------------------------------------------------------------------ starts_with / ends_with_slash *)
Lemma starts_with_iff : forall pre s,
  starts_with s pre = true <-> exists r, s = pre ++ r.
Proof.
  induction pre as [|p pr IH]; intros s.
  - simpl. split.
    + intros _. exists s. reflexivity.
    + intros _. destruct s; reflexivity.
  - destruct s as [|c sr]; cbn [starts_with].
    + split.
      * discriminate.
      * intros [r H]. discriminate.
    + rewrite andb_true_iff, N.eqb_eq, IH. split.
      * intros [E [r H]]. subst. exists r. reflexivity.
      * intros [r H]. simpl in H. injection H as H1 H2. split.
        -- congruence.
        -- exists r. exact H2.
Qed.

Lemma ends_app : forall a b, b <> [] -> ends_with_slash (a ++ b) = ends_with_slash b.
Proof.
  intros a b Hb. unfold ends_with_slash. rewrite rev_app_distr.
  destruct (rev b) as [|c t] eqn:R.
  - exfalso. apply Hb. rewrite <- (rev_involutive b), R. reflexivity.
  - reflexivity.
Qed.

Lemma ends_noslash : forall a, noslash a -> ends_with_slash a = false.
Proof.
  intros a H. unfold ends_with_slash.
  destruct (rev a) as [|c t] eqn:R.
  - reflexivity.
  - apply N.eqb_neq. intro E. apply H. apply in_rev. rewrite R. left. exact E.
Qed.

Lemma ends_join : forall r a,
  Forall name_ok (a :: r) -> ends_with_slash (join_slash (a :: r)) = false.
Proof.
  induction r as [|b r IH]; intros a H; inversion H as [|? ? [Hne Hns] Hr]; subst.
  - change (join_slash [a]) with a. apply ends_noslash. exact Hns.
  - rewrite join_cons2. rewrite ends_app by discriminate.
    change (slash :: join_slash (b :: r)) with ([slash] ++ join_slash (b :: r)).
    assert (Hb : b <> []) by (inversion Hr as [|? ? [Hb _] _]; exact Hb).
    rewrite ends_app by (apply join_nonempty; exact Hb).
    apply IH. exact Hr.
Qed.

(* a non-root canonical absolute rendering never ends with a slash *)
Lemma ends_abs : forall rb, rb <> [] -> Forall name_ok rb ->
  ends_with_slash (slash :: join_slash rb) = false.
Proof.
  intros [|a r] Hne H.
  - congruence.
  - change (slash :: join_slash (a :: r)) with ([slash] ++ join_slash (a :: r)).
    assert (Ha : a <> []) by (inversion H as [|? ? [Ha _] _]; exact Ha).
    rewrite ends_app by (apply join_nonempty; exact Ha).
    apply ends_join. exact H.
Qed.

(* ------------------------------------------------------------------ first slash determines the split *)
Definition sl_or_nil (x : str) : Prop := x = [] \/ exists t, x = slash :: t.

Lemma first_slash : forall a b x y,
  noslash a -> noslash b -> sl_or_nil x -> sl_or_nil y ->
  a ++ x = b ++ y -> a = b /\ x = y.
Proof.
  induction a as [|c a IH]; intros [|d b] x y Ha Hb Hx Hy E; simpl in E.
  - split; [reflexivity | exact E].
  - exfalso. destruct Hx as [Hx|[t Hx]]; subst x.
    + discriminate.
    + injection E as E1 E2. apply Hb. left. symmetry. exact E1.
  - exfalso. destruct Hy as [Hy|[t Hy]]; subst y.
    + discriminate.
    + injection E as E1 E2. apply Ha. left. exact E1.
  - injection E as E1 E2. subst d.
    assert (Ha' : noslash a) by (intro I; apply Ha; right; exact I).
    assert (Hb' : noslash b) by (intro I; apply Hb; right; exact I).
    destruct (IH b x y Ha' Hb' Hx Hy E2) as [F1 F2].
    split; [congruence | exact F2].
Qed.

Lemma join_prefix : forall rb rp tail,
  rb <> [] -> Forall name_ok rb -> Forall name_ok rp -> sl_or_nil tail ->
  join_slash rp = join_slash rb ++ tail -> exists suf, rp = rb ++ suf.
Proof.
  induction rb as [|a r IH]; intros rp tail Hne Hb Hp Ht E.
  - congruence.
  - inversion Hb as [|? ? [Ha1 Ha2] Hr]; subst.
    destruct rp as [|p rp'].
    + exfalso. change (join_slash []) with (@nil N) in E. symmetry in E.
      apply app_eq_nil in E. destruct E as [E _].
      revert E. apply join_nonempty. exact Ha1.
    + inversion Hp as [|? ? [Hp1 Hp2] Hp']; subst.
      rewrite (join_cons_form p rp'), (join_cons_form a r), <- app_assoc in E.
      apply first_slash in E; try assumption.
      * destruct E as [E1 E2]. subst p.
        destruct r as [|b r'].
        -- exists rp'. reflexivity.
        -- destruct rp' as [|q rp''].
           ++ simpl in E2. discriminate.
           ++ rewrite <- app_comm_cons in E2. injection E2 as E2.
              destruct (IH (q :: rp'') tail) as [suf Hs]; try assumption.
              ** discriminate.
              ** exists suf. rewrite Hs. reflexivity.
      * destruct rp'; [left | right; eexists]; reflexivity.
      * destruct r as [|b r'].
        -- exact Ht.
        -- right. rewrite <- app_comm_cons. eexists. reflexivity.
Qed.

(* ------------------------------------------------------------------ THE main lemma *)
(* the code's string test `p == b or p.startswith(b + sep)` (with the root special case
   b.endswith(sep)) on rendered canonical absolute paths is exactly component-wise prefix.
   This is what rules out the prefix-sibling case "/a/bc" vs "/a/b". *)
Lemma prefix_with_sep_iff_component_prefix : forall rb rp,
  Forall name_ok rb -> Forall name_ok rp ->
  (within (render (abs_up rp)) (render (abs_up rb)) = true <-> exists suf, rp = rb ++ suf).
Proof.
  intros rb rp Hb Hp. rewrite !render_abs_up_cons. unfold within.
  destruct rb as [|a r].
  - split.
    + intros _. exists rp. reflexivity.
    + intros _. apply orb_true_iff. right.
      assert (ends_with_slash (slash :: join_slash []) = true) as -> by reflexivity.
      apply starts_with_iff. exists (join_slash rp). reflexivity.
  - rewrite ends_abs by (try discriminate; assumption).
    rewrite orb_true_iff, str_eqb_eq, starts_with_iff. split.
    + intros [E | [x E]].
      * injection E as E.
        apply (join_prefix (a :: r) rp []); try assumption.
        -- discriminate.
        -- left. reflexivity.
        -- rewrite app_nil_r. exact E.
      * rewrite <- app_comm_cons in E. injection E as E. rewrite <- app_assoc in E.
        apply (join_prefix (a :: r) rp ([slash] ++ x)); try assumption.
        -- discriminate.
        -- right. exists x. reflexivity.
    + intros [suf E]. subst rp. destruct suf as [|s suf].
      * left. rewrite app_nil_r. reflexivity.
      * right. rewrite join_app by discriminate.
        exists (join_slash (s :: suf)).
        rewrite <- app_assoc. reflexivity.
Qed.

(* and the witness that the "+ sep" matters: without it the sibling would pass *)
Example sibling_needs_sep :
  starts_with (render (abs_up [[97%N]; [98%N; 99%N]])) (render (abs_up [[97%N]; [98%N]])) = true /\
  within (render (abs_up [[97%N]; [98%N; 99%N]])) (render (abs_up [[97%N]; [98%N]])) = false.
Proof. split; vm_compute; reflexivity. Qed.

Print Assumptions prefix_with_sep_iff_component_prefix.

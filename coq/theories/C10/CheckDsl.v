(* C10/CheckDsl.v — the STRING-level operations that the per-run translation of _check_path_containment, of the
   `path` property and of load()'s base_dir expression (Gen/C10Gen.v) is written in, and the lemmas that bring a
   composition of them back to the split-form hand model (parse after render is the identity on everything they
   produce). *)
From Coq Require Import NArith List Bool Arith Lia.
From IRV Require Import Base.Exn C10.Model C10.Proofs1 C10.Proofs2 C10.Proofs3 C10.StrPrefix C10.Canon.
Import ListNotations.

Definition o_normcase (s : str) : str := s.          (* posixpath.normcase: identity *)
Definition o_fspath (s : str) : str := s.
Definition o_sep : str := [slash].
Definition o_normpath (s : str) : str := render (py_normpath (parse s)).
Definition o_abspath (cwd : rpath) (s : str) : str := render (py_abspath cwd (parse s)).
Definition o_join (a b : str) : str := render (py_join (parse a) (parse b)).
Definition o_dirname (s : str) : str := render (py_dirname (parse s)).
Definition o_realpath (kf : nat) (fs : node) (cwd : rpath) (pf : nat) (s : str) : option str :=
  option_map render (py_realpath kf fs cwd pf (parse s)).
(* os.stat(s).st_nlink ; None = OSError *)
Definition o_stat_nlink (kf : nat) (fs : node) (cwd : rpath) (s : str) : option N :=
  match kstr kf fs cwd (parse s) true with Some (_, n) => Some (nlink_of n) | None => None end.
Definition o_endswith (s suffix : str) : bool :=
  match suffix with [c] => match rev s with x :: _ => N.eqb x c | [] => false end | _ => false end.
Definition o_startswith (s p : str) : bool := starts_with s p.
Definition obind {A B} (o : option A) (f : A -> option B) : option B := match o with Some x => f x | None => None end.

(* ---------- noslash is preserved by everything the realpath walk does *)
Lemma Forall_drop_empty (P : str -> Prop) l : Forall P l -> Forall P (drop_empty l).
Proof. induction l as [|a l IH]; intros H; [exact H|]. destruct a; [inversion H; auto|exact H]. Qed.

Lemma noslash_split_head p : Forall noslash (snd p) -> Forall noslash (snd (fst (py_split p))).
Proof.
  intros H. unfold py_split. simpl.
  assert (Hs : Forall noslash (strip_trailing_empty (removelast (snd p)))).
  { unfold strip_trailing_empty. apply Forall_rev. apply Forall_drop_empty. apply Forall_rev. apply Forall_removelast. exact H. }
  destruct (strip_trailing_empty (removelast (snd p))); simpl; [constructor; [apply noslash_nil|constructor]|exact Hs].
Qed.

Lemma noslash_dotdot_c : noslash s_dotdot.
Proof. intros [H|[H|[]]]; discriminate. Qed.

Lemma noslash_up1 c : noslash c -> Forall noslash (snd (up1 c)).
Proof. intros H. constructor; [exact H|constructor]. Qed.

Lemma noslash_py_dotdot p : Forall noslash (snd p) -> Forall noslash (snd (py_dotdot p)).
Proof.
  intros H. unfold py_dotdot. destruct (is_empty_path p); [apply noslash_up1, noslash_dotdot_c|].
  pose proof (noslash_split_head p H) as Hh. destruct (py_split p) as [h nm]. simpl in Hh.
  destruct (is_dotdot nm); [|exact Hh].
  apply noslash_join; [apply noslash_join; [exact Hh|]|]; apply noslash_up1, noslash_dotdot_c.
Qed.

Definition seen_noslash (s : seen_t) : Prop :=
  forall k p, seen_get s k = Some (Some p) -> Forall noslash (snd p).

Lemma jrp_noslash kf fs cwd : forall pf path rest seen p ok seen',
  Forall noslash (snd path) -> Forall noslash rest -> seen_noslash seen ->
  jrp kf fs cwd pf path rest seen = Some (p, ok, seen') ->
  Forall noslash (snd p) /\ seen_noslash seen'.
Proof.
  induction pf as [|pf IH]; intros path rest seen p ok seen' Hp Hr Hs H; [discriminate|].
  rewrite jrp_S in H. destruct rest as [|name rest'].
  - inversion H; subst. auto.
  - inversion Hr as [|? ? Hname Hrest]; subst.
    destruct (is_nil name || is_dot name); [eapply IH; eauto|].
    destruct (is_dotdot name); [eapply (IH (py_dotdot path)); eauto; apply noslash_py_dotdot; exact Hp|].
    cbv zeta in H.
    assert (Hnp : Forall noslash (snd (py_join path (up1 name)))).
    { apply noslash_join; [exact Hp|apply noslash_up1; exact Hname]. }
    assert (Hun : Forall noslash (snd (unsplit rest'))) by (apply parse_noslash).
    destruct (kstr kf fs cwd (py_join path (up1 name)) false) as [[rpk [k e|i k d|tgt]]|]; try (apply (IH _ _ _ _ _ _ Hnp Hrest Hs H)).
    destruct (seen_get seen (py_join path (up1 name))) as [[p0|]|] eqn:Esg.
    + apply (IH p0 rest' seen p ok seen' (Hs _ _ Esg) Hrest Hs H).
    + inversion H; subst. split; [apply noslash_join; assumption|exact Hs].
    + destruct (jrp kf fs cwd pf (entry_path path (parse tgt)) (entry_rest (parse tgt))
                    (seen_set seen (py_join path (up1 name)) None)) as [[[p1 ok1] seen1]|] eqn:Ej; [|discriminate].
      assert (He : Forall noslash (snd (entry_path path (parse tgt)))).
      { unfold entry_path. destruct (isabs (parse tgt)); [constructor; [apply noslash_nil|constructor]|exact Hp]. }
      assert (Her : Forall noslash (entry_rest (parse tgt))).
      { unfold entry_rest. apply Forall_app. split; [|apply parse_noslash].
        clear. induction (fst (parse tgt) - 1); simpl; constructor; [apply noslash_nil|assumption]. }
      assert (Hs1 : seen_noslash (seen_set seen (py_join path (up1 name)) None)).
      { intros k q Hq. simpl in Hq. destruct (upath_eqb (py_join path (up1 name)) k); [discriminate|]. eapply Hs; eauto. }
      destruct (IH _ _ _ _ _ _ He Her Hs1 Ej) as [Hp1 Hs2].
      destruct ok1.
      * eapply (IH p1 rest'); [exact Hp1|exact Hrest| |exact H].
        intros k q Hq. simpl in Hq. destruct (upath_eqb (py_join path (up1 name)) k).
        -- inversion Hq; subst. exact Hp1.
        -- eapply Hs2; eauto.
      * inversion H; subst. split; [apply noslash_join; assumption|exact Hs2].
Qed.

Lemma canon_realpath kf fs cwd pf u q :
  Forall noslash cwd -> Forall noslash (snd u) -> py_realpath kf fs cwd pf u = Some q -> canon q.
Proof.
  intros Hc Hu H. unfold py_realpath in H.
  destruct (jrp kf fs cwd pf (entry_path (0, [[]]) u) (entry_rest u) []) as [[[p ok] s']|] eqn:Ej; [|discriminate].
  inversion H; subst. apply canon_abspath; [exact Hc|].
  assert (He : Forall noslash (snd (entry_path (0, [[]]) u))).
  { unfold entry_path. destruct (isabs u); constructor; try apply noslash_nil; constructor. }
  assert (Her : Forall noslash (entry_rest u)).
  { unfold entry_rest. apply Forall_app. split; [|exact Hu].
    clear. induction (fst u - 1); simpl; constructor; [apply noslash_nil|assumption]. }
  assert (Hs : seen_noslash []) by (intros k p0 Hk; discriminate).
  exact (proj1 (jrp_noslash _ _ _ _ _ _ _ _ _ _ He Her Hs Ej)).
Qed.

(* ---------- compositions at string level = the split-form functions *)
Lemma parse_o_join a b : parse (o_join a b) = py_join (parse a) (parse b).
Proof. apply parse_render_canon. apply canon_join; apply canon_parse. Qed.

Lemma parse_o_abspath cwd s : Forall noslash cwd -> parse (o_abspath cwd s) = py_abspath cwd (parse s).
Proof. intros H. apply parse_render_canon. apply canon_abspath; [exact H|apply parse_noslash]. Qed.

Lemma o_endswith_sep s : o_endswith s o_sep = ends_with_slash s.
Proof. reflexivity. Qed.

(* C10/Property.v — ONLY the property theorems (each closed by a lemma of Proofs*.v) + Print Assumptions.

   Reading guide.  kf = the kernel's symlink-nesting bound (ELOOP), pf = budget of the Python-side walk
   (check = None means "budget exhausted", excluded by hypothesis: the theorems speak about runs in which
   _check_path_containment returned).  fs is ANY file-system tree (directories, regular files with inode /
   st_nlink / bytes, symlinks with arbitrary targets, loops included), cwd ANY existing directory,
   base / loc ANY strings.  kstr .. true = what the kernel resolves a path string to (stat/open);
   kopen = open(self.path) followed by reading the file.

   Levels: the containment conclusion is component-wise prefix of REAL locations (lists of directory-entry
   names from the root).  The code's string test `p == b or p.startswith(b + sep)` is related to it by
   C10_prefix_with_sep_iff_component_prefix (string level, about renderings "/" + "/".join(names)). *)
From Coq Require Import NArith List Bool Arith Lia.
From IRV Require Import Base.Exn C10.Model C10.Proofs1 C10.Proofs2 C10.Proofs3 C10.Proofs4 C10.Proofs5 C10.Proofs6 C10.StrPrefix.
From IRV Require Import C10.CallModel Gen.C10Gen.
From IRV Require C10.CallProofs C10.Traverse C10.Canon C10.CheckDsl C10.CheckEquiv.
Import ListNotations.

(* Key lemma 1: whenever the kernel resolves a path (all symlinks followed, from any cwd, through any
   links), os.path.realpath — a different algorithm: lexical ".." on the resolved prefix, lstat/readlink per
   component, a `seen` cache, loop detection — returns exactly the rendering of the location reached.
   In particular realpath's loop-detected / lstat-failed fallbacks never happen on a path that open() accepts. *)
Theorem C10_realpath_agrees_resolve :
  forall kf fs cwd pf (u : upath) rp n q a e,
  get fs cwd = Some (Dir a e) -> Forall good cwd ->
  kstr kf fs cwd u true = Some (rp, n) ->
  py_realpath kf fs cwd pf u = Some q ->
  q = abs_of rp.
Proof. exact realpath_agrees_resolve_up. Qed.
Print Assumptions C10_realpath_agrees_resolve.

(* Key lemma 2 (string level): on renderings of real locations the string test with `+ sep` is exactly
   component-wise prefix — "/a/bc" is not inside "/a/b". *)
Theorem C10_prefix_with_sep_iff_component_prefix :
  forall rb rp, Forall name_ok rb -> Forall name_ok rp ->
  (within (render (abs_up rp)) (render (abs_up rb)) = true <-> exists suf, rp = rb ++ suf).
Proof. exact prefix_with_sep_iff_component_prefix. Qed.
Print Assumptions C10_prefix_with_sep_iff_component_prefix.

(* C10_contained: non-empty base_dir, the check returned normally, the kernel resolves base_dir to rb and
   open(join(base_dir, location)) reaches a regular file at rp  ==>  rp lies below rb (component-wise),
   and the file read is the regular file with that inode there, with st_nlink <= 1. *)
Theorem C10_contained :
  forall kf fs cwd pf base loc rb nb rp ino data a e,
  get fs cwd = Some (Dir a e) -> Forall entry_name cwd ->
  base <> [] ->
  check kf fs cwd pf base loc = Some (Ok tt) ->
  kstr kf fs cwd (parse base) true = Some (rb, nb) ->
  kopen kf fs cwd base loc = Ok (rp, ino, data) ->
  (exists suf, rp = rb ++ suf) /\ exists nl, get fs rp = Some (File ino nl data) /\ (nl <= 1)%N.
Proof. exact contained_open. Qed.
Print Assumptions C10_contained.

(* For a relative location (the only kind ONNX allows) the resolvability of base_dir is not an assumption:
   it follows from the open succeeding. *)
Theorem C10_contained_relative_loc :
  forall kf fs cwd pf base loc rp ino data a e,
  get fs cwd = Some (Dir a e) -> Forall entry_name cwd ->
  base <> [] -> isabs (parse loc) = false ->
  check kf fs cwd pf base loc = Some (Ok tt) ->
  kopen kf fs cwd base loc = Ok (rp, ino, data) ->
  exists rb nb, kstr kf fs cwd (parse base) true = Some (rb, nb) /\
    (exists suf, rp = rb ++ suf) /\ exists nl, get fs rp = Some (File ino nl data) /\ (nl <= 1)%N.
Proof. exact contained_relative_loc. Qed.
Print Assumptions C10_contained_relative_loc.

(* the same for whatever the path resolves to (directory or file): used for "every other location raises" *)
Theorem C10_contained_any :
  forall kf fs cwd pf base loc rb nb rp n a e,
  get fs cwd = Some (Dir a e) -> Forall entry_name cwd ->
  base <> [] ->
  check kf fs cwd pf base loc = Some (Ok tt) ->
  kstr kf fs cwd (parse base) true = Some (rb, nb) ->
  kstr kf fs cwd (py_join (parse base) (parse loc)) true = Some (rp, n) ->
  (exists suf, rp = rb ++ suf) /\ (nlink_of n <= 1)%N /\ get fs rp = Some n /\ not_link n.
Proof. exact contained. Qed.
Print Assumptions C10_contained_any.

(* C10_every_entry_checked: numpy, __array__, tobytes, tofile, serialization (and the state-only ops):
   the events of one call are nothing | check | check-ok, open-failed | check-ok, open, read — the check is
   the model's _check_path_containment on the tensor's CURRENT base_dir and location. *)
Theorem C10_every_entry_checked :
  forall kf fs cwd pf o t t' ev r,
  step kf fs cwd pf o t = Some (t', ev, r) -> ev_shape kf fs cwd pf t ev /\ t_loc t' = t_loc t.
Proof. exact every_entry_checked. Qed.
Print Assumptions C10_every_entry_checked.

(* C10_fail_closed: if the check raises, the call opens nothing and reads nothing; with no cached data it
   returns the check's exception and leaves the tensor unchanged. *)
Theorem C10_fail_closed :
  forall kf fs cwd pf o t t' ev r e,
  step kf fs cwd pf o t = Some (t', ev, r) ->
  check kf fs cwd pf (t_base t) (t_loc t) = Some (Raise e) ->
  (forall x, In x ev -> x = EvCheck (t_base t) (t_loc t) (Raise e)) /\
  (is_read_op o = true -> t_valid t = true -> t_arr t = None -> t_raw t = None -> r = Raise e /\ t' = t).
Proof. exact fail_closed. Qed.
Print Assumptions C10_fail_closed.

(* Whole histories (base_dir changes, releases, invalidation, any order of entry points): every read event
   is contained in the base_dir in force when it happened. *)
Theorem C10_history_reads_contained :
  forall kf fs cwd pf a e,
  get fs cwd = Some (Dir a e) -> Forall entry_name cwd ->
  forall ops t l, run kf fs cwd pf ops t = Some l ->
  forall b ev r, In (b, ev, r) l ->
  forall rp ino, In (EvRead rp ino) ev ->
  b <> [] -> forall rb nb, kstr kf fs cwd (parse b) true = Some (rb, nb) ->
  (exists suf, rp = rb ++ suf) /\ exists nl data, get fs rp = Some (File ino nl data) /\ (nl <= 1)%N.
Proof. exact history_reads_contained. Qed.
Print Assumptions C10_history_reads_contained.

(* The same when the WORLD changes between calls (World fs cwd = the file system was modified — an entry
   replaced by a symlink or a hard link, a directory swapped for a symlinked one — and/or the process changed
   directory): every read event is contained with respect to the file system and cwd in force AT THAT CALL.
   (A check memoised per tensor would not satisfy this model; the tie runs such histories.) *)
Theorem C10_world_history_reads_contained :
  forall kf pf ops fs cwd t l, world_ok fs cwd -> worlds_ok ops ->
  wrun kf pf ops fs cwd t = Some l ->
  forall fs' cwd' b ev r, In (fs', cwd', b, ev, r) l ->
  forall rp ino, In (EvRead rp ino) ev ->
  b <> [] -> forall rb nb, kstr kf fs' cwd' (parse b) true = Some (rb, nb) ->
  (exists suf, rp = rb ++ suf) /\ exists nl data, get fs' rp = Some (File ino nl data) /\ (nl <= 1)%N.
Proof. exact world_history_reads_contained. Qed.
Print Assumptions C10_world_history_reads_contained.

(* C10_load_sets_base: for EVERY spelling p of the model path, every external tensor of the loaded model
   (graph initializers, node attributes, subgraphs AND model-local functions — the latter since fix b3a8816)
   gets base directory dirname(p) or "." — never empty ... *)
Theorem C10_load_sets_base :
  forall p m t, In t (m_graph (load_model p m) ++ m_funcs (load_model p m)) ->
  t_base t = load_base p /\ t_base t <> [].
Proof. exact load_sets_all_base. Qed.
Print Assumptions C10_load_sets_base.

(* ... and that string denotes, for the kernel, the directory holding the model file's entry: if lstat of the
   path p (whose last component is a proper name nm) finds the entry d/nm, then stat of the base directory
   reaches exactly the directory d — through symlinked directories, "..", "//", relative to any cwd, and for
   a bare file name (d = cwd).  load_base p = render (load_base_up p) is load_base_render. *)
Theorem C10_load_base_is_model_dir :
  forall kf fs cwd p init nm d x a e,
  get fs cwd = Some (Dir a e) ->
  snd (parse p) = init ++ [nm] -> good nm ->
  kstr kf fs cwd (parse p) false = Some (d ++ [nm], x) ->
  exists k ents, kstr kf fs cwd (load_base_up p) true = Some (d, Dir k ents).
Proof. exact load_base_kernel. Qed.
Print Assumptions C10_load_base_is_model_dir.

(* Why the base directory must never be empty: an empty base_dir (the default of programmatic construction)
   makes the check accept every location.  (Before fixes f7de2c5 / b3a8816 load() left it empty for bare file
   names / for tensors inside model-local functions; witnesses kept in corpus/C10.) *)
Theorem C10_empty_base_unchecked :
  forall kf fs cwd pf loc, check kf fs cwd pf [] loc = Some (Ok tt).
Proof. exact empty_base_unchecked. Qed.
Print Assumptions C10_empty_base_unchecked.

(* ------------------------------------------------------------------ non-vacuity *)
(* /m/w (inside), /o/s (outside), /m/l -> ../o/s, /m/h hard link to /o/s's inode, /mx/w prefix sibling *)
Definition ex_fs : node :=
  Dir 4 [([109], Dir 2 [([119], File 1 1 [7; 7]); ([108], Link [46; 46; 47; 111; 47; 115]); ([104], File 2 2 [9])]);
         ([111], Dir 2 [([115], File 2 2 [9])]);
         ([109; 120], Dir 2 [([119], File 3 1 [5])])]%N.
Definition ex_base : str := [47; 109]%N.                       (* "/m" *)

Example C10_example_inside :
  check 45 ex_fs [] 100 ex_base [119]%N = Some (Ok tt) /\
  kopen 45 ex_fs [] ex_base [119]%N = Ok ([[109]; [119]], 1, [7; 7])%N /\
  kstr 45 ex_fs [] (parse ex_base) true = Some ([[109]%N], Dir 2 [([119], File 1 1 [7; 7]); ([108], Link [46; 46; 47; 111; 47; 115]); ([104], File 2 2 [9])])%N.
Proof. vm_compute. repeat split. Qed.

Example C10_example_escapes_raise :
  check 45 ex_fs [] 100 ex_base [108]%N = Some (Raise ValueError) /\                              (* symlink out *)
  check 45 ex_fs [] 100 ex_base [46; 46; 47; 111; 47; 115]%N = Some (Raise ValueError) /\          (* ../o/s *)
  check 45 ex_fs [] 100 ex_base [47; 111; 47; 115]%N = Some (Raise ValueError) /\                  (* /o/s *)
  check 45 ex_fs [] 100 ex_base [46; 46; 47; 109; 120; 47; 119]%N = Some (Raise ValueError) /\     (* ../mx/w *)
  check 45 ex_fs [] 100 ex_base [104]%N = Some (Raise ValueError).                                 (* hard link *)
Proof. vm_compute. repeat split. Qed.

Example C10_example_load :
  load_base [109; 46; 111]%N = s_dot /\                                  (* "m.o" -> "." *)
  load_base [108; 47; 46; 46; 47; 109]%N = [108; 47; 46; 46]%N /\        (* "l/../m" -> "l/.." *)
  kstr 45 ex_fs [[109]%N] (load_base_up [119]%N) true =                  (* bare "w" with cwd /m -> /m *)
    kstr 45 ex_fs [] (parse ex_base) true.
Proof. vm_compute. repeat split. Qed.

(* the file /m/w is replaced by a symlink to /o/s between two tofile calls: the second call raises *)
Definition ex_fs2 : node :=
  Dir 4 [([109], Dir 2 [([119], Link [46; 46; 47; 111; 47; 115])]); ([111], Dir 2 [([115], File 2 1 [9; 9])])]%N.
Example C10_example_world_history :
  option_map (map (fun x => snd x))
    (wrun 45 100 [TOp ToFile; World ex_fs2 []; TOp ToFile] ex_fs [] (fresh ex_base [119]%N 2 None None))
  = Some [Ok [7; 7]%N; Ok []; Raise ValueError].
Proof. vm_compute. reflexivity. Qed.

Example C10_example_history :
  run 45 ex_fs [] 100 [ToBytes; SetBase [47; 111]%N; Numpy; Release; Numpy] (fresh ex_base [119]%N 2 None None) <> None.
Proof. vm_compute. discriminate. Qed.

(* ================================================================== call structure extracted from the source
   "every read entry point goes through the containment check" as a theorem about the call structure EXTRACTED FROM
   THE SOURCE on every run (Gen/C10Gen.v, fail-closed ast extraction by harness/props/c10.py: every ExternalTensor
   method that can reach the data file — a use of self.path, an open-like call, a call of such a method — is
   translated; anything it cannot classify is rejected; in external_data.py any direct file read or any use of
   <tensor>.path other than name-only os.path calls is rejected).  A new unchecked fast path therefore breaks
   C10_reading_methods_checked (or the extraction), not only the oracle. *)
(* Soundness of the checker, for ALL statement trees and ALL runs (loops unbounded, exceptions anywhere): if `flow`
   accepts a body from the state "nothing checked yet", every open in every trace is preceded in the same call by a
   passing _check_path_containment with no store to base_dir/location in between. *)
Theorem C10_call_structure_sound :
  forall s, entry_ok s = true ->
  forall t o, Exec s t o ->
  forall pre post, t = pre ++ EOpen :: post ->
  exists p1 p2, pre = p1 ++ ECheckOk :: p2 /\ ~ In EMut p2.
Proof. exact CallProofs.entry_ok_sound. Qed.
Print Assumptions C10_call_structure_sound.

(* The extracted methods (_load, numpy, __array__, tobytes, tofile, and external_data's
   _external_tensor_to_memory_tensor / _write_tensor_at) are all accepted ... *)
Theorem C10_reading_methods_checked : forallb entry_ok reading_methods = true.
Proof. vm_compute. reflexivity. Qed.
Print Assumptions C10_reading_methods_checked.

(* ... hence on every run of every one of them each open of the data file is dominated by a passing check. *)
Theorem C10_every_read_path_checked :
  forall s, In s reading_methods -> forall t o, Exec s t o ->
  forall pre post, t = pre ++ EOpen :: post ->
  exists p1 p2, pre = p1 ++ ECheckOk :: p2 /\ ~ In EMut p2.
Proof. exact (CallProofs.all_entry_ok_sound reading_methods C10_reading_methods_checked). Qed.
Print Assumptions C10_every_read_path_checked.

(* non-vacuity: the extracted tofile does open (after the check); the checker rejects the three classic mistakes *)
Example C10_calls_example_tofile_opens :
  accepts m_tofile [ECheckOk; EOpen] = true /\ accepts m_tofile [ECheckRaise] = true /\ accepts m_tofile [] = true /\
  Exec (SSeq SCheck SOpen) [ECheckOk; EOpen] ONormal.
Proof.
  split; [vm_compute; reflexivity|]. split; [vm_compute; reflexivity|]. split; [vm_compute; reflexivity|].
  apply (X_seq_n SCheck SOpen [ECheckOk] [EOpen] ONormal); constructor.
Qed.
Example C10_calls_example_rejected :
  entry_ok (SSeq SOpen SCheck) = false /\                            (* open before check *)
  entry_ok (SSeq (SIf SCheck SSkip) SOpen) = false /\                (* a fast path that skips the check *)
  entry_ok (SSeq SCheck (SSeq SMut SOpen)) = false /\                (* base_dir changed between check and open *)
  entry_ok (SSeq (SLoop (SSeq SOpen SMut)) SSkip) = false /\         (* second iteration opens unchecked *)
  accepts m_tofile [EOpen] = false /\ accepts m_numpy [ECheckOk; EOpen; EOpen] = false.
Proof. vm_compute. repeat split. Qed.

(* load() reaches EVERY external tensor: wherever a tensor can sit in a model — initializer of the main graph or of any
   nested subgraph (GRAPH / GRAPHS attributes, any depth), TENSOR / TENSORS attribute of any node at any depth, in the
   main graph or in a model-local function — the traversal of set_base_dir (modelled after _all_tensors +
   RecursiveGraphIterator, tied by generated models) visits it, so it gets the base directory.  `Traverse.occ_model` is an
   independent inductive definition of "occurs in the model". *)
Theorem C10_load_traversal_complete :
  forall m t, Traverse.occ_model m t -> snd t = true -> Traverse.gets_base m t = true.
Proof. exact Traverse.traversal_complete. Qed.
Print Assumptions C10_load_traversal_complete.

(* ... and the directory it gets is exactly the model directory, whatever extra external_data entries (basepath,
   checksum, unknown keys) the model file carries for that tensor. *)
Theorem C10_load_assigns_model_dir_regardless_of_entries :
  forall (B E : Type) (model_dir old : B) m t (e : E),
  Traverse.occ_model m t -> snd t = true -> Traverse.base_after_load model_dir m t old e = model_dir.
Proof. exact @Traverse.load_assigns_model_dir. Qed.
Print Assumptions C10_load_assigns_model_dir_regardless_of_entries.

Example C10_traversal_example :
  let deep := Traverse.Graph [(7%N, true)] [Traverse.Node [Traverse.ATensors [(8%N, true); (9%N, false)]]] in
  let m := Traverse.mkModel (Traverse.Graph [(1%N, true)] [Traverse.Node [Traverse.AGraphs [Traverse.Graph [] [Traverse.Node [Traverse.AGraph deep]]]; Traverse.ATensor (2%N, true)]])
                   [[Traverse.Node [Traverse.AGraph deep; Traverse.ATensor (3%N, true)]]] in
  map (fun i => Traverse.gets_base m (i, true)) [1; 2; 3; 7; 8]%N = [true; true; true; true; true] /\
  Traverse.gets_base m (9%N, false) = false /\ Traverse.gets_base m (4%N, true) = false /\
  Traverse.occ_model m (8%N, true).
Proof.
  vm_compute. repeat split.
  left. eapply Traverse.occ_in_node; [left; reflexivity|].
  eapply Traverse.occ_attr_gs; [left; reflexivity|left; reflexivity|].
  eapply Traverse.occ_in_node; [left; reflexivity|]. eapply Traverse.occ_attr_g; [left; reflexivity|].
  eapply Traverse.occ_in_node; [left; reflexivity|]. eapply Traverse.occ_attr_ts; [left; reflexivity|left; reflexivity].
Qed.

(* ================================================================== the check itself, translated from the source
   Gen/C10Gen.v contains, regenerated on every run by a fail-closed ast translation (harness/props/c10.py extract_check):
     gen_check      ExternalTensor._check_path_containment, statement by statement, over the string-level operations
                    of C10/CheckDsl.v (os.fspath / normcase / normpath / abspath / realpath / os.sep / endswith /
                    startswith / os.stat(..).st_nlink with its except OSError);
     gen_path       the `path` property;   gen_load_base   load()'s `base_dir = os.path.dirname(path) or "."`;
   and the generation FAILS (broken obligation) unless the base_dir getter/setter, location and __init__ are plain
   field accesses, load() is the straight line  proto / model / base_dir / set_base_dir(model.graph) / for every function
   set_base_dir / return model  (no early return), and set_base_dir assigns base_dir unconditionally to every
   ExternalTensor of _all_tensors.  The hand model that all containment theorems are about EQUALS the translation: *)
Theorem C10_check_model_equals_source :
  forall kf fs cwd pf base loc, Forall noslash cwd ->
  gen_check kf fs cwd pf base loc = check kf fs cwd pf base loc.
Proof. exact CheckEquiv.gen_check_eq. Qed.
Print Assumptions C10_check_model_equals_source.

Theorem C10_path_and_load_base_equal_source :
  (forall base loc, parse (gen_path base loc) = py_join (parse base) (parse loc)) /\
  (forall p, gen_load_base p = load_base p) /\
  gen_fields_are_plain = true /\ gen_set_base_dir_is_plain = true.
Proof. exact (conj CheckEquiv.gen_path_eq (conj CheckEquiv.gen_load_base_eq (conj eq_refl eq_refl))). Qed.
Print Assumptions C10_path_and_load_base_equal_source.

(* hence containment holds for the check AS WRITTEN IN THE SOURCE: *)
Theorem C10_contained_source_check :
  forall kf fs cwd pf base loc rb nb rp ino data a e,
  get fs cwd = Some (Dir a e) -> Forall entry_name cwd ->
  base <> [] ->
  gen_check kf fs cwd pf base loc = Some (Ok tt) ->
  kstr kf fs cwd (parse base) true = Some (rb, nb) ->
  kstr kf fs cwd (parse (gen_path base loc)) true = Some (rp, File ino 1 data) \/
  kopen kf fs cwd base loc = Ok (rp, ino, data) ->
  (exists suf, rp = rb ++ suf) /\ exists nl, get fs rp = Some (File ino nl data) /\ (nl <= 1)%N.
Proof. exact CheckEquiv.contained_gen. Qed.
Print Assumptions C10_contained_source_check.

Example C10_source_check_example :
  gen_check 45 ex_fs [] 100 ex_base [119]%N = Some (Ok tt) /\
  gen_check 45 ex_fs [] 100 ex_base [108]%N = Some (Raise ValueError) /\
  gen_load_base [109; 46; 111]%N = s_dot /\ Forall noslash ([] : rpath).
Proof. vm_compute. repeat split. constructor. Qed.

(* C10/Proofs3.v — os.path.realpath's walk (jrp) against the kernel's resolution (kwalk):
   whenever the kernel resolves a path, realpath returns the rendering of the location reached. *)
From Coq Require Import NArith List Bool Arith Lia Wf_nat.
From IRV Require Import Base.Exn C10.Model C10.Proofs1 C10.Proofs2.
Import ListNotations.

Lemma jrp_S kf fs cwd pf path rest seen :
  jrp kf fs cwd (S pf) path rest seen =
  match rest with
  | [] => Some (path, true, seen)
  | name :: rest' =>
      if is_nil name || is_dot name then jrp kf fs cwd pf path rest' seen
      else if is_dotdot name then jrp kf fs cwd pf (py_dotdot path) rest' seen
      else
        let newpath := py_join path (up1 name) in
        match kstr kf fs cwd newpath false with
        | Some (_, Link tgt) =>
            match seen_get seen newpath with
            | Some (Some p) => jrp kf fs cwd pf p rest' seen
            | Some None => Some (py_join newpath (unsplit rest'), false, seen)
            | None =>
                let t := parse tgt in
                match jrp kf fs cwd pf (entry_path path t) (entry_rest t) (seen_set seen newpath None) with
                | None => None
                | Some (p, true, seen') => jrp kf fs cwd pf p rest' (seen_set seen' newpath (Some p))
                | Some (p, false, seen') => Some (py_join p (unsplit rest'), false, seen')
                end
            end
        | _ => jrp kf fs cwd pf newpath rest' seen
        end
  end.
Proof. reflexivity. Qed.

Lemma go_cons fs rec fo cur c rest :
  go fs rec fo cur (c :: rest) =
  match get fs cur with
  | Some (Dir _ ents) =>
      if is_nil c || is_dot c then go fs rec fo cur rest
      else if is_dotdot c then go fs rec fo (removelast cur) rest
      else match ent_get ents c with
           | None => None
           | Some (Link tgt) =>
               if is_nil rest && negb fo then Some (cur ++ [c], Link tgt)
               else
                 let t := parse tgt in
                 if is_empty_path t then None
                 else match rec (if isabs t then [] else cur) (snd t) with
                      | Some (cur', _) => go fs rec fo cur' rest
                      | None => None
                      end
           | Some _ => go fs rec fo (cur ++ [c]) rest
           end
  | _ => None
  end.
Proof. reflexivity. Qed.

Section Sim.
  Variables (KF0 : nat) (fs : node) (cwd : rpath).
  Hypothesis Hcwd : exists a e, get fs cwd = Some (Dir a e).
  Hypothesis Hcwdg : Forall good cwd.

  Definition link_start (rpk : rpath) (t : upath) : rpath := if isabs t then [] else removelast rpk.

  Definition seen_ok (seen : seen_t) : Prop :=
    forall key p, seen_get seen key = Some (Some p) ->
      exists f', p = to_up f' /\ names_ok f' /\
        forall rpk tgt, kstr (S KF0) fs cwd key false = Some (rpk, Link tgt) ->
          forall g r n, kwalk g fs (link_start rpk (parse tgt)) (snd (parse tgt)) true = Some (r, n) ->
                        r = den cwd f'.

  Definition inprog_ok (f : nat) (seen : seen_t) : Prop :=
    forall key, seen_get seen key = Some None ->
      forall rpk tgt, kstr (S KF0) fs cwd key false = Some (rpk, Link tgt) ->
        forall g, g < f -> kwalk g fs (link_start rpk (parse tgt)) (snd (parse tgt)) true = None.

  Lemma root_dir : is_dir fs.
  Proof. destruct Hcwd as [a [e H]]. eapply get_dir_root_dir; eauto. Qed.

  (* entering a symlink target (or the top-level file name) *)
  Definition pentry (f : pform) (t : upath) : pform := if isabs t then PAbs [] else f.

  Lemma entry_path_form f t : entry_path (to_up f) t = to_up (pentry f t).
  Proof. unfold entry_path, pentry. destruct (isabs t); reflexivity. Qed.

  Lemma den_pentry f t : den cwd (pentry f t) = if isabs t then [] else den cwd f.
  Proof. unfold pentry. destruct (isabs t); reflexivity. Qed.

  Lemma names_ok_pentry f t : names_ok f -> names_ok (pentry f t).
  Proof. unfold pentry. destruct (isabs t); [intros _; constructor|auto]. Qed.

  Lemma go_entry_rest rec fo f t :
    go fs rec fo (den cwd (pentry f t)) (entry_rest t) = go fs rec fo (den cwd (pentry f t)) (snd t).
  Proof.
    unfold entry_rest. destruct t as [l cs]. simpl fst. simpl snd.
    destruct l as [|[|l]]; try reflexivity.
    unfold pentry. change (isabs (S (S l), cs)) with true. cbv iota. simpl den.
    pose proof root_dir as Hr. destruct fs as [k e| |] eqn:Efs; try contradiction.
    rewrite <- Efs. eapply (go_skip_empties fs rec fo _ [] cs k e). rewrite Efs. reflexivity.
  Qed.

  Lemma sim : forall f' rest pfu pf0 seen r n p ok seen',
      names_ok pf0 -> seen_ok seen -> inprog_ok (S f') seen ->
      go fs (fun c cs => kwalk f' fs c cs true) true (den cwd pf0) rest = Some (r, n) ->
      jrp (S KF0) fs cwd pfu (to_up pf0) rest seen = Some (p, ok, seen') ->
      ok = true /\ exists pf1, p = to_up pf1 /\ names_ok pf1 /\ den cwd pf1 = r /\ seen_ok seen' /\
        (forall key, seen_get seen' key = Some None -> seen_get seen key = Some None).
  Proof.
    induction f' as [f' IHf] using lt_wf_ind.
    induction rest as [|name rest' IHrest]; intros pfu pf0 seen r n p ok seen' Hn Hso Hip Hk Hj;
      (destruct pfu as [|pfu]; [discriminate|]); rewrite jrp_S in Hj.
    - inversion Hj; subst. rewrite go_nil in Hk.
      destruct (get fs (den cwd pf0)) eqn:E; [|discriminate]. inversion Hk; subst.
      split; [reflexivity|]. exists pf0. repeat split; auto.
    - rewrite go_cons in Hk.
      destruct (get fs (den cwd pf0)) as [[k ents| |]|] eqn:Ecur; try discriminate.
      destruct (is_nil name || is_dot name) eqn:E1.
      { eapply IHrest; eauto. }
      destruct (is_dotdot name) eqn:E2.
      { rewrite <- den_pop in Hk. rewrite dotdot_pop in Hj by assumption.
        eapply (IHrest pfu (pop pf0)); eauto. apply names_ok_pop; assumption. }
      assert (Hg : good name).
      { apply orb_false_elim in E1. destruct E1. repeat split; assumption. }
      cbv zeta in Hj. rewrite join_push in Hj by assumption.
      destruct Hcwd as [a' [e' Hcwd']].
      pose proof (lstat_push KF0 fs cwd pf0 name k ents a' e' Hn Hg Hcwd' Ecur) as Hls.
      rewrite Hls in Hj.
      destruct (ent_get ents name) as [[k' e''|i k' d|tgt]|] eqn:Ec; try discriminate.
      + rewrite <- den_push in Hk. eapply (IHrest pfu (push pf0 name)); eauto. apply names_ok_push; assumption.
      + rewrite <- den_push in Hk. eapply (IHrest pfu (push pf0 name)); eauto. apply names_ok_push; assumption.
      + (* a symlink *)
        rewrite andb_false_r in Hk. cbv zeta in Hk.
        destruct (is_empty_path (parse tgt)) eqn:Eemp; [discriminate|].
        match type of Hk with context [kwalk f' fs ?a ?b true] =>
          destruct (kwalk f' fs a b true) as [[cur' n']|] eqn:Ek end; [|discriminate].
        assert (Est : (if isabs (parse tgt) then [] else den cwd pf0) =
                      link_start (den cwd pf0 ++ [name]) (parse tgt)).
        { unfold link_start. rewrite removelast_snoc. reflexivity. }
        assert (Ek' : kwalk f' fs (link_start (den cwd pf0 ++ [name]) (parse tgt)) (snd (parse tgt)) true
                      = Some (cur', n')).
        { rewrite <- Est. exact Ek. }
        clear Ek.
        destruct (seen_get seen (to_up (push pf0 name))) as [[p0|]|] eqn:Esg.
        * (* cached *)
          destruct (Hso _ _ Esg) as [f2 [-> [Hn2 Hres]]].
          specialize (Hres _ _ Hls _ _ _ Ek'). subst cur'.
          eapply (IHrest pfu f2); eauto.
        * (* in progress: the kernel would loop *)
          specialize (Hip _ Esg _ _ Hls f' (Nat.lt_succ_diag_r f')). congruence.
        * (* resolve the target *)
          cbv zeta in Hj.
          destruct (jrp (S KF0) fs cwd pfu (entry_path (to_up pf0) (parse tgt)) (entry_rest (parse tgt))
                        (seen_set seen (to_up (push pf0 name)) None)) as [[[p1 ok1] seen1]|] eqn:Ej;
            [|discriminate].
          destruct (kwalk_min fs _ _ _ _ _ Ek') as [m [Hm [Hms Hmn]]].
          destruct m as [|m']; [discriminate|].
          simpl kwalk in Hms.
          rewrite entry_path_form in Ej.
          assert (Hden : link_start (den cwd pf0 ++ [name]) (parse tgt) = den cwd (pentry pf0 (parse tgt))).
          { rewrite den_pentry. symmetry. exact Est. }
          rewrite Hden in Hms. rewrite <- go_entry_rest in Hms.
          assert (Hso1 : seen_ok (seen_set seen (to_up (push pf0 name)) None)).
          { intros key q Hq. simpl in Hq. destruct (upath_eqb (to_up (push pf0 name)) key); [discriminate|].
            eapply Hso; eauto. }
          assert (Hip1 : inprog_ok (S m') (seen_set seen (to_up (push pf0 name)) None)).
          { intros key Hq rpk tgt0 Hl g Hlt. simpl in Hq.
            destruct (upath_eqb (to_up (push pf0 name)) key) eqn:Ekey.
            - apply upath_eqb_iff in Ekey. subst key. rewrite Hls in Hl. inversion Hl; subst.
              apply Hmn. exact Hlt.
            - eapply Hip; eauto. lia. }
          destruct (IHf m' ltac:(lia) _ _ _ _ _ _ _ _ _ (names_ok_pentry pf0 (parse tgt) Hn) Hso1 Hip1 Hms Ej)
            as [-> [pf1 [-> [Hn1 [Hd1 [Hso2 Hsub]]]]]].
          assert (Hso3 : seen_ok (seen_set seen1 (to_up (push pf0 name)) (Some (to_up pf1)))).
          { intros key q Hq. simpl in Hq.
            destruct (upath_eqb (to_up (push pf0 name)) key) eqn:Ekey.
            - apply upath_eqb_iff in Ekey. subst key. inversion Hq; subst.
              exists pf1. split; [reflexivity|]. split; [assumption|].
              intros rpk tgt0 Hl g r0 n0 Hw. rewrite Hls in Hl. inversion Hl; subst.
              pose proof (kwalk_det _ _ _ _ _ _ _ _ Hw Ek') as Hx. inversion Hx; subst. reflexivity.
            - eapply Hso2; eauto. }
          assert (Hsub3 : forall key, seen_get (seen_set seen1 (to_up (push pf0 name)) (Some (to_up pf1))) key = Some None ->
                                      seen_get seen key = Some None).
          { intros key Hq. simpl in Hq.
            destruct (upath_eqb (to_up (push pf0 name)) key) eqn:Ekey; [discriminate|].
            specialize (Hsub _ Hq). simpl in Hsub. rewrite Ekey in Hsub. exact Hsub. }
          assert (Hip3 : inprog_ok (S f') (seen_set seen1 (to_up (push pf0 name)) (Some (to_up pf1)))).
          { intros key Hq. apply Hip. apply Hsub3. exact Hq. }
          rewrite <- Hd1 in Hk.
          destruct (IHrest pfu pf1 _ _ _ _ _ _ Hn1 Hso3 Hip3 Hk Hj) as [-> [pf2 [-> [Hn2 [Hd2 [Hso4 Hsub4]]]]]].
          split; [reflexivity|]. exists pf2. repeat split; auto.
  Qed.
End Sim.

(* ------------------------------------------------------------------ realpath_agrees_resolve *)
Theorem realpath_agrees_resolve_up kf fs cwd pf (u : upath) rp n q a e :
  get fs cwd = Some (Dir a e) -> Forall good cwd ->
  kstr kf fs cwd u true = Some (rp, n) ->
  py_realpath kf fs cwd pf u = Some q ->
  q = abs_of rp.
Proof.
  intros Hcwd Hcg Hk Hp.
  assert (Hc : exists a e, get fs cwd = Some (Dir a e)) by eauto.
  unfold kstr in Hk. destruct (is_empty_path u) eqn:Ee; [discriminate|].
  destruct kf as [|kf0]; [discriminate|]. simpl kwalk in Hk.
  unfold py_realpath in Hp.
  destruct (jrp (S kf0) fs cwd pf (entry_path (0, [[]]) u) (entry_rest u) []) as [[[p ok] s']|] eqn:Ej; [|discriminate].
  inversion Hp; subst q. clear Hp.
  change (0, [[]]) with (to_up (PRel 0 [])) in Ej.
  rewrite entry_path_form in Ej.
  match type of Hk with context [go _ _ _ ?st _] =>
    assert (Hst : st = den cwd (pentry (PRel 0 []) u));
    [rewrite den_pentry; destruct (isabs u); [reflexivity|]; simpl; symmetry; apply app_nil_r|] end.
  rewrite Hst in Hk. rewrite <- (go_entry_rest fs cwd Hc) in Hk.
  assert (Hn0 : names_ok (pentry (PRel 0 []) u)) by (apply names_ok_pentry; constructor).
  assert (Hso : seen_ok kf0 fs cwd []) by (intros key p0 H; discriminate).
  assert (Hip : inprog_ok kf0 fs cwd (S kf0) []) by (intros key H; discriminate).
  destruct (sim kf0 fs cwd Hc kf0 _ _ _ _ _ _ _ _ _ Hn0 Hso Hip Hk Ej) as [-> [pf1 [-> [Hn1 [Hd1 _]]]]].
  rewrite abspath_form by assumption. rewrite Hd1. reflexivity.
Qed.
